#!/bin/bash
# usage: tools/allquick.sh [seeds...]   — every claimed check's quick tier at each seed, one line per run
cd /verif
for sd in "${@:-1}"; do
  for id in $(python3 -c "import json;print(' '.join(json.load(open('claimed.json'))))"); do
    out=$(VERIF_SEED=$sd ./verif check $id 2>&1)
    rc=$?
    echo "seed=$sd $id rc=$rc $(echo "$out" | grep -E '^property=' | sed 's/^property=[A-Z0-9]* //' | cut -c1-110) $(echo "$out" | grep -E '^(VIOLATION|INCONCLUSIVE)' | cut -c1-160 | tr '\n' ' ')"
  done
done
