#!/usr/bin/env python3
"""tools/reseed.py <name> <checks>  — re-runs checks against an already validated seeded change (seeded/<name>/patch.diff)
and records the result under meta.json["checks_rerun"] (used after a check was strengthened)."""
import json, os, re, subprocess, sys, time, hashlib, shutil
name, checks = sys.argv[1], sys.argv[2].split(",")
d = os.path.join("/verif/seeded", name)
meta = json.load(open(os.path.join(d, "meta.json")))
wt = "/tmp/sv-%s" % name
subprocess.run(["git", "-C", "/repo", "worktree", "remove", "--force", wt], capture_output=True)
subprocess.check_call(["git", "-C", "/repo", "worktree", "add", "-q", "--detach", wt, "HEAD"])
try:
    subprocess.check_call(["git", "apply", os.path.join(d, "patch.diff")], cwd=wt)
    for c in checks:
        t0 = time.time()
        p = subprocess.run(["./verif", "check", c], cwd="/verif", env=dict(os.environ, VERIF_REPO=wt), capture_output=True, text=True, timeout=7200)
        lines = [l[:300] for l in p.stdout.splitlines() if re.match(r"^(VIOLATION|OK|INCONCLUSIVE|property=)", l)][:12]
        meta.setdefault("checks_rerun", {})[c] = {"tier": "quick", "exit": p.returncode, "wall_s": round(time.time() - t0, 1), "lines": lines,
                                                  "at_verif_commit": subprocess.run(["git", "-C", "/verif", "log", "--format=%h", "-1"], capture_output=True, text=True).stdout.strip()}
        print(c, "exit", p.returncode, round(time.time() - t0, 1), "s")
        for l in lines:
            print("   ", l[:200])
finally:
    subprocess.run(["git", "-C", "/repo", "worktree", "remove", "--force", wt], capture_output=True)
    shutil.rmtree("/verif/harness/.build/alt-" + hashlib.sha1(wt.encode()).hexdigest()[:10], ignore_errors=True)
json.dump(meta, open(os.path.join(d, "meta.json"), "w"), indent=1)
