#!/usr/bin/env python3
"""Runs the pinned suite (go test -json ./... in /repo) and compares the passing set with /root/.vp/BASELINE.json."""
import json, os, subprocess, sys
env = dict(os.environ, GOFLAGS="-mod=mod", GOPROXY="off", GOSUMDB="off", GOTOOLCHAIN="local")
repo = sys.argv[1] if len(sys.argv) > 1 else "/repo"
p = subprocess.run(["go", "test", "-json", "-vet=off", "-count=1", "-timeout", "25m", "./..."], cwd=repo, env=env, capture_output=True, text=True)
passed, failed = set(), set()
for line in p.stdout.splitlines():
    try:
        e = json.loads(line)
    except Exception:
        continue
    if e.get("Test") and e.get("Action") in ("pass", "fail"):
        (passed if e["Action"] == "pass" else failed).add("%s::%s" % (e["Package"], e["Test"]))
base = set(json.load(open("/root/.vp/BASELINE.json"))["stable_pass"])
missing = sorted(base - passed)
print("passed=%d failed=%d baseline=%d baseline_missing=%d newly_passing=%d" % (len(passed), len(failed), len(base), len(missing), len(passed - base)))
for m in missing[:40]:
    print("  MISSING", m)
sys.exit(1 if missing else 0)
