#!/usr/bin/env python3
"""Prints the per-property as-built summary (DESIGN.md section 0.6) from harness/*/check.json and evidence/*.json."""
import json, os
for i in range(1, 21):
    pid = "C%02d" % i
    cp = "/verif/harness/%s/check.json" % pid.lower()
    if not os.path.exists(cp):
        continue
    c = json.load(open(cp))
    if c.get("unclaimed"):
        continue
    ev = {}
    ep = "/verif/evidence/%s.json" % pid
    if os.path.exists(ep):
        ev = json.load(open(ep))
    tests = []
    for t in c["tests"]:
        k = t.get("kind", "rapid")
        q = t.get("quick", {}).get("checks")
        th = t.get("thorough", {}).get("checks") or t.get("thorough", {}).get("seconds")
        tests.append("%s (%s%s%s)" % (t["name"], k, ", quick %s" % q if q else "", ", thorough %s" % th if th else ""))
    print("**%s** — level `%s`, engine %s. %s" % (pid, c.get("level", "exploration"), c.get("engine", "rapid-library"), c.get("technique", "")))
    print()
    print("Tests: " + "; ".join(tests) + ".")
    if ev:
        cov = ev["coverage"]
        print("Last %s run at seed %s: %s evaluations, %s distinct non-trivial, %s s." % (ev["tier"], ev["seed"], cov["evaluations"], cov["distinct_nontrivial"], ev["wall_s"]))
    print("Non-trivial rule: " + c.get("rule", ""))
    print()
