#!/usr/bin/env python3
"""tools/seedmeta.py <name> <change> <needs>: fills the descriptive fields of seeded/<name>/meta.json."""
import json, sys
p = "/verif/seeded/%s/meta.json" % sys.argv[1]
m = json.load(open(p))
m["change"], m["needs_to_manifest"] = sys.argv[2], sys.argv[3]
m["what_was_run"] = "tools/seeded.py: fresh worktree of /repo HEAD; go build of touched packages; go test -json of touched packages without/with the patch (identical results required); demonstration test without (must pass) and with (must fail) the patch; then ./verif check <ids> with VERIF_REPO=<patched worktree>; worktree and build area removed"
json.dump(m, open(p, "w"), indent=1)
