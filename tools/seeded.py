#!/usr/bin/env python3
"""tools/seeded.py <ID> <srcdir> <agent-worktree> [--checks C07,C13] [--name NAME]

Validates a seeded change delivered by a sub-agent (patch.diff + demonstration) in a FRESH scratch worktree:
build, package tests with/without the patch, demonstration with/without, then runs the named checks against the
patched tree. Stores everything under /verif/seeded/<name>/ (patch.diff, demo, meta.json)."""
import json, os, re, shutil, subprocess, sys, time
ENV = dict(os.environ, GOFLAGS="-mod=mod", GOPROXY="off", GOSUMDB="off", GOTOOLCHAIN="local")

def sh(cmd, cwd=None, timeout=3600):
    p = subprocess.run(cmd, cwd=cwd, env=ENV, shell=isinstance(cmd, str), capture_output=True, text=True, timeout=timeout)
    return p.returncode, p.stdout + p.stderr

def test_results(wt, pkgs, run=None):
    cmd = ["go", "test", "-json", "-vet=off", "-count=1", "-timeout", "20m"] + (["-run", run] if run else []) + pkgs
    rc, out = sh(cmd, cwd=wt)
    res = {}
    for line in out.splitlines():
        try:
            e = json.loads(line)
        except Exception:
            continue
        if e.get("Action") in ("pass", "fail") and e.get("Test"):
            res["%s::%s" % (e["Package"], e["Test"])] = e["Action"]
        elif e.get("Action") in ("pass", "fail") and not e.get("Test"):
            res["%s::<package>" % e["Package"]] = e["Action"]
    return res, out

def main():
    pid, src, awt = sys.argv[1], sys.argv[2], sys.argv[3]
    checks = [pid]
    name = pid
    a = sys.argv[4:]
    while a:
        if a[0] == "--checks":
            checks = a[1].split(","); a = a[2:]
        elif a[0] == "--name":
            name = a[1]; a = a[2:]
        else:
            a = a[1:]
    dst = os.path.join("/verif/seeded", name)
    os.makedirs(dst, exist_ok=True)
    patch = os.path.join(src, "patch.diff")
    # demonstration files: zz_seed_* in the agent's worktree (relative paths kept)
    rc, out = sh("git -C %s ls-files --others --exclude-standard; git -C %s diff --name-only" % (awt, awt))
    demos = [l for l in out.splitlines() if "zz_seed" in l]
    touched = []
    for l in open(patch):
        m = re.match(r"^\+\+\+ b/(.*)$", l)
        if m:
            touched.append(m.group(1))
    pkgs = sorted({"./" + os.path.dirname(t) + "/" for t in touched if t.endswith(".go")})
    demopkgs = sorted({"./" + os.path.dirname(t) + "/" for t in demos if t.endswith("_test.go")})
    wt = "/tmp/sv-%s" % name
    sh(["git", "-C", "/repo", "worktree", "remove", "--force", wt])
    rc, out = sh(["git", "-C", "/repo", "worktree", "add", "-q", "--detach", wt, "HEAD"])
    meta = {"property": pid, "name": name, "touched_files": touched, "packages": pkgs, "demo_files": demos, "checks_run": {}, "at_repo_commit": sh("git -C /repo log --format=%h -1")[1].strip()}
    try:
        # baseline: package tests without the patch
        base, _ = test_results(wt, pkgs)
        # demonstration without the patch
        for d in demos:
            os.makedirs(os.path.dirname(os.path.join(wt, d)), exist_ok=True)
            shutil.copy(os.path.join(awt, d), os.path.join(wt, d))
        demo_wo, demo_wo_out = test_results(wt, demopkgs, run="Seed|seed|ZZ|Zz") if demopkgs else ({}, "")
        for d in demos:
            os.remove(os.path.join(wt, d))
        rc, out = sh(["git", "apply", patch], cwd=wt)
        meta["patch_applies"] = rc == 0
        if rc != 0:
            meta["error"] = out[-2000:]
            raise SystemExit
        rc, out = sh(["go", "build"] + pkgs, cwd=wt)
        meta["builds"] = rc == 0
        rcv, outv = sh(["go", "vet", "-vettool=/bin/true"] + pkgs, cwd=wt)
        withp, _ = test_results(wt, pkgs)
        diff = {k: (base.get(k), withp.get(k)) for k in set(base) | set(withp) if base.get(k) != withp.get(k)}
        meta["package_tests_same_with_patch"] = not diff
        meta["package_test_differences"] = diff
        meta["package_tests_counted"] = len(base)
        for d in demos:
            shutil.copy(os.path.join(awt, d), os.path.join(wt, d))
        demo_w, demo_w_out = test_results(wt, demopkgs, run="Seed|seed|ZZ|Zz") if demopkgs else ({}, "")
        for d in demos:
            os.remove(os.path.join(wt, d))
        dk = [k for k in demo_w if "<package>" not in k]
        meta["demo_without_patch"] = {k: demo_wo.get(k) for k in dk}
        meta["demo_with_patch"] = {k: demo_w.get(k) for k in dk}
        meta["demo_fails_with_and_passes_without"] = bool(dk) and any(demo_w[k] == "fail" for k in dk) and all(demo_wo.get(k) == "pass" for k in dk)
        # our checks against the patched tree
        for c in checks:
            t0 = time.time()
            p = subprocess.run(["./verif", "check", c], cwd="/verif", env=dict(os.environ, VERIF_REPO=wt), capture_output=True, text=True, timeout=7200)
            lines = [l for l in p.stdout.splitlines() if re.match(r"^(VIOLATION|OK|INCONCLUSIVE|property=)", l)]
            if not lines:
                lines = ["(no verdict line) stdout tail: " + p.stdout[-600:], "stderr tail: " + p.stderr[-600:]]
            meta["checks_run"][c] = {"tier": "quick", "exit": p.returncode, "wall_s": round(time.time() - t0, 1), "lines": [l[:300] for l in lines][:12]}
    finally:
        sh(["git", "-C", "/repo", "worktree", "remove", "--force", wt])
        import hashlib
        shutil.rmtree("/verif/harness/.build/alt-" + hashlib.sha1(wt.encode()).hexdigest()[:10], ignore_errors=True)
    shutil.copy(patch, os.path.join(dst, "patch.diff"))
    for d in demos:
        shutil.copy(os.path.join(awt, d), os.path.join(dst, os.path.basename(d)))
    if os.path.exists(os.path.join(src, "NOTES.md")):
        shutil.copy(os.path.join(src, "NOTES.md"), os.path.join(dst, "NOTES.md"))
    meta["demo_paths_in_repo"] = demos
    json.dump(meta, open(os.path.join(dst, "meta.json"), "w"), indent=1)
    print(json.dumps({k: meta[k] for k in ("builds", "package_tests_same_with_patch", "demo_fails_with_and_passes_without") if k in meta}))
    for c, r in meta["checks_run"].items():
        print(c, "exit", r["exit"], r["wall_s"], "s")
        for l in r["lines"]:
            print("   ", l[:220])

main()
