#!/bin/bash
# usage: tools/mutant.sh <patch.diff> <ID> [extra verif args]   — runs a check against a scratch worktree with the patch applied
set -u
P=$(readlink -f "$1"); ID=$2; shift 2
WT=/tmp/wt-mut-$$
git -C /repo worktree add -q --detach $WT HEAD || exit 2
( cd $WT && git apply "$P" ) || { echo "patch does not apply"; git -C /repo worktree remove --force $WT; exit 2; }
cd /verif
VERIF_REPO=$WT ./verif check $ID "$@" 2>&1 | grep -E "^VIOLATION|^OK|^INCONCLUSIVE|^property|^KNOWN" | cut -c1-260
rc=${PIPESTATUS[0]}
git -C /repo worktree remove --force $WT
rm -rf /verif/harness/.build/alt-$(python3 -c "import hashlib;print(hashlib.sha1(b'$WT').hexdigest()[:10])")
exit $rc
