#!/usr/bin/env python3
"""Prints the markdown table of /verif/seeded/*/meta.json (pasted into DESIGN.md section 10)."""
import json, os
rows = []
def fmt(runs):
    out = []
    for c, r in runs.items():
        keys = sorted({l.split("key=")[1].split()[0] for l in r["lines"] if "key=" in l})
        out.append("%s: %s (%s s)" % (c, ("exit 1 " + ", ".join("`" + x + "`" for x in keys[:3])) if r["exit"] == 1 else "exit %d MISSED" % r["exit"], r["wall_s"]))
    return "; ".join(out)
for k in sorted(os.listdir("/verif/seeded")):
    m = json.load(open("/verif/seeded/%s/meta.json" % k))
    first = fmt(m["checks_run"])
    re = fmt(m.get("checks_rerun", {}))
    caught = first + (" — after strengthening: " + re if re else "")
    ok = "fails with / passes without" if m.get("demo_fails_with_and_passes_without") else "NOT CONFIRMED"
    rows.append("| %s | %s | %s | %s | %s | %s |" % (k, m["property"], m.get("change", ""), m.get("needs_to_manifest", ""), ok, caught))
print("| seeded/<id> | property | change | needs | demonstration | our checks on the patched tree (quick, seed 1) |")
print("|---|---|---|---|---|---|")
print("\n".join(rows))
