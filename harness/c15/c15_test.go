// C15 — the consensus WAL returns exactly what was written and detects every corruption.
//
// Tests:
//
//	TestWALGroup        real BaseWAL on a temp dir, rotation at drawn points (explicit, head-size limit, restart);
//	                    read-back, SearchForEndHeight, file layout; drawn damage of the group's files
//	TestCodecExhaustive bare encoder, logs <= 2 KB; EVERY truncation offset and EVERY single-bit flip
//	TestCodecLarge      bare encoder, logs up to megabytes; drawn overwrites, length/CRC edits, insertions, suffixes
//	TestSizeLimit       payload sizes at and around the limit on both sides of the codec
//	TestDirected        fixed logs, every damage through every reader and through repairWalFile; fuzz seeds
//	FuzzWALDecode       native fuzzing of WALDecoder.Decode with the prefix oracle (thorough tier)
package c15

import (
	"bytes"
	"encoding/binary"
	"fmt"
	"io"
	"os"
	"path/filepath"
	"runtime/debug"
	"strings"
	"sync"
	"testing"
	"time"

	"pgregory.net/rapid"

	"github.com/kardiachain/go-kardia/consensus"
	"github.com/kardiachain/go-kardia/lib/autofile"
	"github.com/kardiachain/go-kardia/lib/log"

	"verifharness/internal/ev"
)

func TestMain(m *testing.M) {
	worker, fuzzing := false, false
	for _, a := range os.Args {
		worker = worker || strings.HasPrefix(a, "-test.fuzzworker")
		fuzzing = fuzzing || strings.HasPrefix(a, "-test.fuzz=") || a == "-test.fuzz"
	}
	if worker {
		// fuzz workers share the coordinator's environment: keep them from overwriting its evidence file. What a
		// worker finds reaches the coordinator as a crasher file, which replayCrashers() re-judges.
		os.Unsetenv("VERIF_EV_OUT")
	}
	// temp dirs (t.TempDir) go to tmpfs when there is one: the check creates and rewrites small files a few hundred
	// thousand times and nothing it decides depends on the kind of file system. One parent directory per process,
	// removed on exit; parents left behind by killed shards are swept when they are older than two hours.
	tmpParent := ""
	if fi, err := os.Stat("/dev/shm"); err == nil && fi.IsDir() && os.Getenv("VERIF_C15_TMP_ON_DISK") == "" {
		if old, _ := filepath.Glob("/dev/shm/verif-c15-*"); len(old) > 0 {
			for _, o := range old {
				if st, err := os.Stat(o); err == nil && time.Since(st.ModTime()) > 2*time.Hour {
					os.RemoveAll(o)
				}
			}
		}
		if d, err := os.MkdirTemp("/dev/shm", "verif-c15-"); err == nil {
			tmpParent = d
			os.Setenv("TMPDIR", d)
		}
	}
	ev.Init("C15")
	log.Root().SetHandler(log.DiscardHandler())
	rc := m.Run()
	if fuzzing && !worker && rc != 0 {
		replayCrashers()
	}
	ev.Flush()
	if tmpParent != "" {
		os.RemoveAll(tmpParent)
	}
	os.Exit(rc)
}

// ---------------------------------------------------------------- building reference logs with the bare encoder

// encodeInto appends m to buf through the product's WALEncoder.
func encodeInto(t ev.TB, buf *bytes.Buffer, m *timed) error {
	var err error
	ev.Guard(t, func() string { return "encode " + renderTimed(m, true) }, func() { err = consensus.NewWALEncoder(buf).Encode(m) })
	return err
}

// genLog draws up to maxMsgs messages and writes them with the bare encoder, skipping a message that would take the
// log beyond budget bytes. The log holds at least one message.
func genLog(rt *rapid.T, p profile, maxMsgs, budget int) *refLog {
	ref := &refLog{cmpTime: true}
	var buf bytes.Buffer
	var nextEnd int64
	n := rapid.IntRange(1, maxMsgs).Draw(rt, "nmsgs")
	for i := 0; i < n; i++ {
		m := &timed{Time: genTime(rt, "wt"), Msg: genMsg(rt, p, &nextEnd)}
		before := buf.Len()
		if err := encodeInto(rt, &buf, m); err != nil {
			ev.Violation(rt, "encode.refused-valid-message", renderTimed(m, true), "the encoder refused a message below the size limit: %v", err)
			buf.Truncate(before)
			continue
		}
		if buf.Len() > budget {
			buf.Truncate(before)
			continue
		}
		ref.msgs = append(ref.msgs, m)
	}
	if len(ref.msgs) == 0 {
		m := &timed{Time: genTime(rt, "wt"), Msg: consensus.EndHeightMessage{Height: int64(rapid.IntRange(0, 300).Draw(rt, "eh0"))}}
		if err := encodeInto(rt, &buf, m); err != nil {
			rt.Fatalf("harness: cannot encode an end-height message: %v", err)
		}
		ref.msgs = append(ref.msgs, m)
	}
	ref.b = append([]byte{}, buf.Bytes()...)
	finishRef(rt, ref)
	return ref
}

// finishRef derives the record boundaries with the harness's own parser (which also checks that the encoder's
// output follows the documented framing) and calibrates the allocation bound.
func finishRef(t ev.TB, ref *refLog) {
	ends, clean := parseValid(ref.b, false)
	if len(ends) != len(ref.msgs) || !clean {
		ev.Violation(t, "frame.format", renderAll(ref.msgs, true), "the log written for %d messages does not parse as %d records of crc32c|length|payload (parsed %d, clean end %v): %x",
			len(ref.msgs), len(ref.msgs), len(ends), clean, trunc(ref.b, 600))
	}
	ref.off = append([]int{0}, ends...)
	ref.base = allocDelta(func() { decodeAll(bytes.NewReader(ref.b), len(ref.msgs)+2) })
}

func trunc(b []byte, n int) []byte {
	if len(b) > n {
		return b[:n]
	}
	return b
}

// ---------------------------------------------------------------- readers real callers use

// rig holds the files through which damaged logs are handed to the product: src/dst for repairWalFile (which reads
// an *os.File) and a one-file autofile group (catchupReplay reads through a GroupReader).
type rig struct {
	src, dst, head string
	g              *autofile.Group
}

func newRig(tb testing.TB) *rig {
	dir := tb.TempDir()
	if err := os.MkdirAll(filepath.Join(dir, "g"), 0o700); err != nil {
		tb.Fatalf("harness: %v", err)
	}
	r := &rig{src: filepath.Join(dir, "wal.CORRUPTED"), dst: filepath.Join(dir, "wal"), head: filepath.Join(dir, "g", "wal")}
	g, err := autofile.OpenGroup(r.head, autofile.GroupCheckDuration(time.Hour))
	if err != nil {
		tb.Fatalf("harness: %v", err)
	}
	r.g = g
	tb.Cleanup(func() { g.Head.Close() })
	return r
}

func mustWrite(t ev.TB, path string, b []byte) {
	if err := os.WriteFile(path, b, 0o600); err != nil {
		t.Fatalf("harness: %v", err)
	}
}

type viaKind int

const (
	viaBytes viaKind = iota // bytes.Reader (the repository's fuzz target, wal2json-style tools)
	viaFile                 // *os.File (repairWalFile)
	viaGroup                // autofile.GroupReader (SearchForEndHeight, catchupReplay)
)

var viaName = [...]string{"bytes.Reader", "*os.File", "GroupReader"}

// judge decodes dmg through one reader and checks the result against the harness's expectation.
func (r *rig) judge(t ev.TB, ref *refLog, dmg []byte, via viaKind, measure bool, what func() string) {
	e := expectFor(ref, dmg, via != viaGroup)
	var got []*timed
	var err error
	var alloc uint64
	run := func(rd io.Reader) {
		ev.Guard(t, what, func() {
			if measure {
				alloc = allocDelta(func() { got, err = decodeAll(rd, ref.n()+2) })
			} else {
				got, err = decodeAll(rd, ref.n()+2)
			}
		})
	}
	switch via {
	case viaBytes:
		run(bytes.NewReader(dmg))
	case viaFile:
		mustWrite(t, r.src, dmg)
		f, oerr := os.Open(r.src)
		if oerr != nil {
			t.Fatalf("harness: %v", oerr)
		}
		run(f)
		f.Close()
	case viaGroup:
		mustWrite(t, r.head, dmg)
		var gr *autofile.GroupReader
		ev.Guard(t, what, func() { gr, err = r.g.NewReader(0) })
		if err != nil {
			t.Fatalf("harness: NewReader: %v", err)
		}
		run(gr)
		gr.Close()
	}
	if !checkDecoded(t, ref, e, got, err, viaName[via], what) {
		return
	}
	if measure {
		if lim := ref.allocBound(1); alloc > lim {
			debug.FreeOSMemory() // shrinking re-runs the case: hand the oversized buffers back first
			ev.Violation(t, "corrupt.alloc-unbounded", what(), "%s: decoding the damaged %d-byte log allocated %d bytes; the intact log needs %d and one record buffer is at most %d (bound %d)",
				viaName[via], len(dmg), alloc, ref.base, maxSize, lim)
		}
	}
}

// repair runs the product's repairWalFile on dmg and checks that the output is exactly the longest valid prefix.
func (r *rig) repair(t ev.TB, ref *refLog, dmg []byte, what func() string) {
	e := expectFor(ref, dmg, true)
	if e.foreign {
		ev.Class("out-of-domain:crc-valid-foreign-record")
		return
	}
	mustWrite(t, r.src, dmg)
	os.Remove(r.dst)
	var err error
	ev.Guard(t, what, func() { err = consensus.VerifC15RepairWalFile(r.src, r.dst) })
	if err != nil {
		ev.Violation(t, "repair.error", what(), "repairWalFile failed on a log whose first %d records are valid: %v", e.v, err)
		return
	}
	out, rerr := os.ReadFile(r.dst)
	if rerr != nil {
		ev.Violation(t, "repair.no-output", what(), "repairWalFile returned nil but the destination cannot be read: %v", rerr)
		return
	}
	// message level: the repaired file decodes to exactly the first v messages and ends cleanly
	ends, clean := parseValid(out, false)
	var got []*timed
	var derr error
	ev.Guard(t, what, func() { got, derr = decodeAll(bytes.NewReader(out), ref.n()+2) })
	ct := func() string { return what() + "\nwritten:\n" + renderAll(ref.msgs, ref.cmpTime) }
	if len(got) != e.v || len(ends) != e.v || !clean || derr != io.EOF {
		ev.Violation(t, "repair.not-longest-valid-prefix", ct(), "the damaged log has %d valid leading records (%d untouched); the repaired file holds %d well-formed records (clean end %v) and decodes to %d messages, then %v",
			e.v, e.k, len(ends), clean, len(got), derr)
		return
	}
	for i := range got {
		if !sameTimed(ref.msgs[i], got[i], ref.cmpTime) {
			ev.Violation(t, "repair.different-message", ct(), "message %d of the repaired log differs from what was written\n  written: %s\n  read:    %s", i,
				renderTimed(ref.msgs[i], ref.cmpTime), renderTimed(got[i], ref.cmpTime))
			return
		}
	}
	// byte level: "keeps" the prefix — re-encoding what was decoded reproduces the original records
	if want := ref.b[:ref.off[e.v]]; !bytes.Equal(out, want) {
		ev.Violation(t, "repair.bytes-differ", ct(), "the repaired log is not byte-for-byte the first %d records of the original (%d bytes, want %d)", e.v, len(out), len(want))
	}
}

// ---------------------------------------------------------------- damage

// where classifies a byte offset of ref: which field of which record it falls into.
func (r *refLog) where(pos int) (rec int, field string) {
	if pos >= len(r.b) {
		return r.n(), "end"
	}
	rec = r.recordAt(pos)
	switch d := pos - r.off[rec]; {
	case d < 4:
		field = "crc"
	case d < 8:
		field = "len"
	default:
		field = "payload"
	}
	return rec, field
}

// nontrivialAt: the rule of the property — damage in a length or CRC field, or inside the last record.
func (r *refLog) nontrivialAt(pos int) bool {
	rec, field := r.where(pos)
	return field == "crc" || field == "len" || rec == r.n()-1
}

// drawPos draws a byte offset of ref, biased towards header fields and the last record.
func drawPos(rt *rapid.T, ref *refLog) int {
	if len(ref.b) == 0 {
		return 0
	}
	rec := ref.n() - 1
	if rapid.IntRange(0, 2).Draw(rt, "d.lastrec") != 0 {
		rec = rapid.IntRange(0, ref.n()-1).Draw(rt, "d.rec")
	}
	lo, hi := ref.off[rec], ref.off[rec+1]
	switch rapid.IntRange(0, 5).Draw(rt, "d.field") {
	case 0:
		return lo + rapid.IntRange(0, 3).Draw(rt, "d.o")
	case 1:
		return lo + 4 + rapid.IntRange(0, 3).Draw(rt, "d.o")
	case 2:
		return hi - 1 - rapid.IntRange(0, minInt(7, hi-lo-1)).Draw(rt, "d.o")
	case 3:
		return lo + 8 + rapid.IntRange(0, minInt(15, hi-lo-9)).Draw(rt, "d.o")
	default:
		return rapid.IntRange(lo, hi-1).Draw(rt, "d.o")
	}
}

type damage struct {
	kind string
	desc string
	out  []byte
	pos  int // first offset of ref that the damage touches
}

var lengthEdits = []uint32{0, 1, 7, 8, 0xff, 0x100, 0xffff, 1 << 20, maxSize - 1, maxSize, maxSize + 1, 1 << 24, 1<<31 - 1, 1 << 31, 1<<32 - 1}

// drawDamage draws one corruption of ref: truncation, bit flip, multi-byte overwrite, zero-filled block, length or
// CRC field edit, inserted bytes, deleted range, garbage / zero / partial-header suffix, truncation plus garbage.
func drawDamage(rt *rapid.T, ref *refLog) damage {
	cp := func() []byte { return append([]byte{}, ref.b...) }
	randBytes := func(label string, n int) []byte {
		seed := rapid.Uint64().Draw(rt, label) | 1
		b := make([]byte, n)
		for i := range b {
			b[i] = byte(xorshift(&seed) >> 24)
		}
		return b
	}
	kind := rapid.SampledFrom([]string{"trunc", "flip", "overwrite", "overwrite", "zeroblock", "lenedit", "lenedit", "crcedit", "insert", "delete", "suffix", "suffix", "trunc+garbage"}).Draw(rt, "d.kind")
	switch kind {
	case "trunc":
		pos := drawPos(rt, ref)
		return damage{kind, fmt.Sprintf("truncate at %d of %d", pos, len(ref.b)), cp()[:pos], pos}
	case "flip":
		pos := drawPos(rt, ref)
		bit := rapid.IntRange(0, 7).Draw(rt, "d.bit")
		b := cp()
		b[pos] ^= 1 << uint(bit)
		return damage{kind, fmt.Sprintf("flip bit %d of byte %d", bit, pos), b, pos}
	case "overwrite":
		pos := drawPos(rt, ref)
		n := rapid.IntRange(1, 64).Draw(rt, "d.n")
		if pos+n > len(ref.b) {
			n = len(ref.b) - pos
		}
		b := cp()
		copy(b[pos:], randBytes("d.seed", n))
		if bytes.Equal(b[pos:pos+n], ref.b[pos:pos+n]) {
			b[pos] ^= 0x5a
		}
		return damage{kind, fmt.Sprintf("overwrite %d bytes at %d with %x", n, pos, b[pos:pos+n]), b, pos}
	case "zeroblock":
		bs := rapid.SampledFrom([]int{16, 512, 4096}).Draw(rt, "d.bs")
		pos := drawPos(rt, ref) / bs * bs
		b := cp()
		for i := pos; i < pos+bs && i < len(b); i++ {
			b[i] = 0
		}
		return damage{kind, fmt.Sprintf("zero the %d-byte block at %d", bs, pos), b, pos}
	case "lenedit":
		rec := rapid.IntRange(0, ref.n()-1).Draw(rt, "d.rec")
		cur := binary.BigEndian.Uint32(ref.b[ref.off[rec]+4:])
		var nv uint32
		switch rapid.IntRange(0, 3).Draw(rt, "d.lk") {
		case 0:
			nv = rapid.SampledFrom(lengthEdits).Draw(rt, "d.len")
		case 1: // swallow following records exactly
			to := rapid.IntRange(rec+1, ref.n()).Draw(rt, "d.to")
			nv = uint32(ref.off[to] - ref.off[rec] - 8)
		case 2:
			nv = cur + uint32(rapid.IntRange(-8, 8).Draw(rt, "d.delta"))
		default:
			nv = rapid.Uint32().Draw(rt, "d.len")
		}
		if nv == cur {
			nv = cur + 1
		}
		b := cp()
		binary.BigEndian.PutUint32(b[ref.off[rec]+4:], nv)
		return damage{kind, fmt.Sprintf("length field of record %d: %d -> %d", rec, cur, nv), b, ref.off[rec] + 4}
	case "crcedit":
		rec := rapid.IntRange(0, ref.n()-1).Draw(rt, "d.rec")
		cur := binary.BigEndian.Uint32(ref.b[ref.off[rec]:])
		nv := rapid.Uint32().Draw(rt, "d.crc")
		if nv == cur {
			nv = ^cur
		}
		b := cp()
		binary.BigEndian.PutUint32(b[ref.off[rec]:], nv)
		return damage{kind, fmt.Sprintf("crc field of record %d: %08x -> %08x", rec, cur, nv), b, ref.off[rec]}
	case "insert":
		pos := drawPos(rt, ref)
		ins := randBytes("d.seed", rapid.IntRange(1, 40).Draw(rt, "d.n"))
		if ins[0] == ref.b[pos] {
			ins[0] ^= 0xa5
		}
		b := append(append(append([]byte{}, ref.b[:pos]...), ins...), ref.b[pos:]...)
		return damage{kind, fmt.Sprintf("insert %x at %d", ins, pos), b, pos}
	case "delete":
		pos := drawPos(rt, ref)
		n := rapid.IntRange(1, 40).Draw(rt, "d.n")
		if pos+n > len(ref.b) {
			n = len(ref.b) - pos
		}
		b := append(append([]byte{}, ref.b[:pos]...), ref.b[pos+n:]...)
		return damage{kind, fmt.Sprintf("delete %d bytes at %d", n, pos), b, pos}
	case "suffix":
		var sfx []byte
		var what string
		switch rapid.IntRange(0, 3).Draw(rt, "d.sk") {
		case 0:
			sfx = make([]byte, rapid.SampledFrom([]int{1, 3, 4, 7, 8, 9, 100, 4096}).Draw(rt, "d.n"))
			what = "zeros"
		case 1: // a header announcing more than follows
			sfx = make([]byte, 8, 8+40)
			binary.BigEndian.PutUint32(sfx, rapid.Uint32().Draw(rt, "d.crc"))
			binary.BigEndian.PutUint32(sfx[4:], rapid.SampledFrom(lengthEdits).Draw(rt, "d.len"))
			sfx = append(sfx, randBytes("d.seed", rapid.IntRange(0, 40).Draw(rt, "d.n"))...)
			what = "header+bytes"
		default:
			sfx = randBytes("d.seed", rapid.IntRange(1, 200).Draw(rt, "d.n"))
			what = "random bytes"
		}
		return damage{kind, fmt.Sprintf("append %d %s: %x", len(sfx), what, trunc(sfx, 48)), append(cp(), sfx...), len(ref.b)}
	default: // "trunc+garbage"
		pos := drawPos(rt, ref)
		g := randBytes("d.seed", rapid.IntRange(1, 60).Draw(rt, "d.n"))
		if g[0] == ref.b[pos] {
			g[0] ^= 0xa5
		}
		return damage{kind, fmt.Sprintf("truncate at %d and append %x", pos, g), append(cp()[:pos], g...), pos}
	}
}

// ---------------------------------------------------------------- TestCodecExhaustive

// TestCodecExhaustive: for each generated log of at most MAXLOG (2048) bytes, every truncation offset and every
// single-bit flip is decoded through bytes.Reader and judged; a drawn subset of those damages additionally goes
// through *os.File + repairWalFile and through a GroupReader.
func TestCodecExhaustive(t *testing.T) {
	r := newRig(t)
	maxLog := ev.Scale("MAXLOG", 2048)
	nFile := ev.Scale("FILEDMG", 40)
	rapid.Check(t, func(rt *rapid.T) {
		budget := rapid.SampledFrom([]int{100, 250, 500, 1000, maxLog, maxLog}).Draw(rt, "budget")
		ref := genLog(rt, profSmall, 40, budget)
		canon := renderAll(ref.msgs, true)
		intact := func() string { return "intact log\n" + canon }
		ev.Inflight("TestCodecExhaustive: every truncation and bit flip of\n" + canon + fmt.Sprintf("log=%x", ref.b))

		// oracle 1: the intact log comes back through every reader, and repair of an intact log is the identity
		for _, via := range []viaKind{viaBytes, viaFile, viaGroup} {
			r.judge(rt, ref, ref.b, via, false, intact)
		}
		r.repair(rt, ref, ref.b, intact)

		// oracle 2: every truncation offset, every single-bit flip
		work := append([]byte{}, ref.b...)
		for cut := 0; cut < len(work); cut++ {
			c := cut
			r.judge(rt, ref, work[:cut], viaBytes, false, func() string { return fmt.Sprintf("truncate at %d of %d\n%s", c, len(ref.b), canon) })
		}
		var nLen, nCrc, nLast int64
		for pos := 0; pos < len(work); pos++ {
			rec, field := ref.where(pos)
			for bit := 0; bit < 8; bit++ {
				work[pos] ^= 1 << uint(bit)
				p, b := pos, bit
				r.judge(rt, ref, work, viaBytes, field == "len", func() string {
					return fmt.Sprintf("flip bit %d of byte %d (%s of record %d)\n%s", b, p, field, rec, canon)
				})
				work[pos] ^= 1 << uint(bit)
			}
			switch {
			case field == "len":
				nLen += 8
			case field == "crc":
				nCrc += 8
			}
			if rec == ref.n()-1 {
				nLast += 8
			}
		}
		nt, nf := int64(len(work)), int64(len(work))*8

		// oracle 3 and the other two readers on a drawn subset
		for i := 0; i < nFile; i++ {
			pos := drawPos(rt, ref)
			var dmg []byte
			var desc string
			if rapid.Bool().Draw(rt, "d.trunc") {
				dmg, desc = ref.b[:pos], fmt.Sprintf("truncate at %d of %d", pos, len(ref.b))
			} else {
				bit := rapid.IntRange(0, 7).Draw(rt, "d.bit")
				dmg = append([]byte{}, ref.b...)
				dmg[pos] ^= 1 << uint(bit)
				desc = fmt.Sprintf("flip bit %d of byte %d", bit, pos)
			}
			what := func() string { return desc + "\n" + canon }
			r.repair(rt, ref, dmg, what)
			r.judge(rt, ref, dmg, viaFile, false, what)
			r.judge(rt, ref, dmg, viaGroup, false, what)
		}

		ev.Exhaustive()
		ev.Count(nt + nf + 3*int64(nFile) + 3) // sub-enumeration: every damaged log judged counts as one evaluation
		ev.Case(true, canon, "exh:log", fmt.Sprintf("exh:records=%s", bucket(ref.n(), 1, 2, 4, 8, 16, 32)), fmt.Sprintf("exh:bytes=%s", bucket(len(ref.b), 64, 256, 512, 1024, 2048)))
		ev.ClassN("exh:damage.truncation", nt)
		ev.ClassN("exh:damage.bitflip", nf)
		ev.ClassN("exh:damage.bitflip.in-length-field", nLen)
		ev.ClassN("exh:damage.bitflip.in-crc-field", nCrc)
		ev.ClassN("exh:damage.bitflip.in-last-record", nLast)
		ev.ClassN("exh:damage.via-file+repair+group", int64(nFile))
		for _, m := range ref.msgs {
			ev.Class("kind:" + kname(m.Msg))
		}
		if ev.WantSample("exh:log") {
			ev.Sample("exh:log", map[string]interface{}{"log_hex": fmt.Sprintf("%x", ref.b), "messages": canon, "truncations": nt, "bitflips": nf})
		}
	})
}

func bucket(n int, bounds ...int) string {
	for _, b := range bounds {
		if n <= b {
			return fmt.Sprintf("<=%d", b)
		}
	}
	return fmt.Sprintf(">%d", bounds[len(bounds)-1])
}

// ---------------------------------------------------------------- TestCodecLarge

// TestCodecLarge: logs of 1-60 messages with field sizes up to the product's bounds (64 KiB block parts, long
// signatures and step strings, occasionally one message near the 1 MiB limit); drawn damage of every kind, decoded
// through all three readers with the allocation measured, and repaired.
func TestCodecLarge(t *testing.T) {
	r := newRig(t)
	nDmg := ev.Scale("DAMAGES", 6)
	rapid.Check(t, func(rt *rapid.T) {
		p := rapid.SampledFrom([]profile{profSmall, profMid, profMid, profLarge}).Draw(rt, "profile")
		maxMsgs := 60
		if p.name == "large" {
			maxMsgs = 24
		}
		ref := genLogWithGiant(rt, p, maxMsgs)
		canon := renderAll(ref.msgs, true)
		intact := func() string { return "intact log\n" + canon }
		for _, via := range []viaKind{viaBytes, viaFile, viaGroup} {
			r.judge(rt, ref, ref.b, via, false, intact)
		}
		r.repair(rt, ref, ref.b, intact)

		nontrivial := false
		var descs []string
		for i := 0; i < nDmg; i++ {
			d := drawDamage(rt, ref)
			what := func() string { return d.desc + "\n" + canon }
			ev.Inflight("TestCodecLarge: " + what())
			for _, via := range []viaKind{viaBytes, viaFile, viaGroup} {
				r.judge(rt, ref, d.out, via, true, what)
			}
			r.repair(rt, ref, d.out, what)
			rec, field := ref.where(d.pos)
			ev.Class("large:damage." + d.kind)
			ev.Class("large:damage-in." + field)
			if rec >= ref.n()-1 {
				ev.Class("large:damage-in.last-record-or-end")
			}
			nontrivial = nontrivial || ref.nontrivialAt(d.pos)
			descs = append(descs, d.desc)
		}
		c := "large:profile=" + p.name
		ev.Case(nontrivial, strings.Join(descs, "\n")+"\n"+canon, c, "large:bytes="+bucket(len(ref.b), 2048, 1<<16, 1<<20, 4<<20))
		if nontrivial && ev.WantSample(c) {
			ev.Sample(c, map[string]interface{}{"damage": descs, "messages": canon, "log_bytes": len(ref.b)})
		}
	})
}

// genLogWithGiant is genLog plus, sometimes, one message whose payload is close to the size limit.
func genLogWithGiant(rt *rapid.T, p profile, maxMsgs int) *refLog {
	if p.name != "large" || rapid.IntRange(0, 3).Draw(rt, "giant") != 0 {
		return genLog(rt, p, maxMsgs, 1<<30)
	}
	ref := genLog(rt, profMid, 6, 1<<30)
	target := maxSize - rapid.SampledFrom([]int{0, 1, 2, 100, 70000, 500000}).Draw(rt, "giant.below")
	g, _ := sizedMessage(rt, rapid.IntRange(0, nSized-1).Draw(rt, "giant.kind"), target)
	if g == nil {
		return ref
	}
	var buf bytes.Buffer
	buf.Write(ref.b)
	at := rapid.IntRange(0, len(ref.msgs)).Draw(rt, "giant.at")
	// re-encode in the new order
	msgs := append(append(append([]*timed{}, ref.msgs[:at]...), g), ref.msgs[at:]...)
	buf.Reset()
	for _, m := range msgs {
		if err := encodeInto(rt, &buf, m); err != nil {
			ev.Violation(rt, "encode.refused-valid-message", renderTimed(m, true), "the encoder refused a message not above the size limit: %v", err)
		}
	}
	out := &refLog{cmpTime: true, msgs: msgs, b: append([]byte{}, buf.Bytes()...)}
	finishRef(rt, out)
	return out
}

// ---------------------------------------------------------------- TestWALGroup

type walRig struct {
	path  string
	limit int64
	wal   *consensus.BaseWAL
}

func (w *walRig) open(t ev.TB, what func() string) {
	var err error
	ev.Guard(t, what, func() {
		w.wal, err = consensus.NewWAL(w.path, autofile.GroupHeadSizeLimit(w.limit), autofile.GroupCheckDuration(time.Hour))
		if err != nil {
			return
		}
		w.wal.SetFlushInterval(time.Hour) // flushing and the head-size check happen at drawn points, not on timers
		err = w.wal.Start()
	})
	if err != nil {
		t.Fatalf("harness: cannot open WAL at %s: %v", w.path, err)
	}
}

func (w *walRig) close(t ev.TB, what func() string) {
	if w.wal == nil {
		return
	}
	ev.Guard(t, what, func() {
		w.wal.Stop()
		w.wal.Wait()
		w.wal.Group().Head.Close() // ends the AutoFile's goroutines (BaseWAL.Stop leaves them running)
	})
	w.wal = nil
}

func fileSize(path string) int64 {
	fi, err := os.Stat(path)
	if err != nil {
		return 0
	}
	return fi.Size()
}

func groupFile(head string, idx, max int) string {
	if idx == max {
		return head
	}
	return fmt.Sprintf("%s.%03d", head, idx)
}

var groupSeq struct {
	sync.Mutex
	n int
}

// TestWALGroup writes 1-60 messages through the real BaseWAL with rotations at drawn points (explicit RotateFile,
// the head-size check against a drawn limit, restart of the WAL), then reads everything back.
func TestWALGroup(t *testing.T) {
	base := t.TempDir()
	r := newRig(t)
	nDmg := ev.Scale("DAMAGES", 4)
	rapid.Check(t, func(rt *rapid.T) {
		groupSeq.Lock()
		groupSeq.n++
		dir := filepath.Join(base, fmt.Sprintf("w%d", groupSeq.n))
		groupSeq.Unlock()
		defer os.RemoveAll(dir)

		var ops []string
		what := func() string { return strings.Join(ops, "\n") }
		p := rapid.SampledFrom([]profile{profSmall, profSmall, profMid}).Draw(rt, "profile")
		w := &walRig{path: filepath.Join(dir, "wal"), limit: int64(rapid.SampledFrom([]int{48, 120, 300, 1000, 5000, 1 << 22}).Draw(rt, "headlimit"))}
		ops = append(ops, fmt.Sprintf("open headSizeLimit=%d", w.limit))
		w.open(rt, what)
		defer w.close(rt, what)

		// model: what was written, and into which file of the group each record went
		var written []*timed
		var fileOf []int
		rot := 0
		endAt := map[int64][]int{}
		put := func(m consensus.WALMessage) {
			if e, ok := m.(consensus.EndHeightMessage); ok {
				endAt[e.Height] = append(endAt[e.Height], len(written))
			}
			written = append(written, &timed{Msg: m})
			fileOf = append(fileOf, rot)
		}
		put(consensus.EndHeightMessage{Height: 0}) // OnStart marks an empty WAL
		restarts, sizeRot, explicitRot := 0, 0, 0
		var nextEnd int64

		structural := func() {
			switch rapid.IntRange(0, 13).Draw(rt, "op") {
			case 0:
				ops = append(ops, "rotate")
				ev.Guard(rt, what, func() { w.wal.FlushAndSync(); w.wal.Group().RotateFile() })
				rot++
				explicitRot++
			case 1, 2:
				flush := rapid.Bool().Draw(rt, "flush")
				if flush {
					ev.Guard(rt, what, func() { w.wal.FlushAndSync() })
				}
				size := fileSize(w.path)
				ops = append(ops, fmt.Sprintf("check head size (flushed first: %v; head holds %d bytes)", flush, size))
				before := w.wal.Group().MaxIndex()
				ev.Guard(rt, what, func() { w.wal.Group().VerifC15CheckHeadSizeLimit() })
				rotated := w.wal.Group().MaxIndex() - before
				want := 0
				if size >= w.limit {
					want = 1
				}
				if rotated != want {
					ev.Violation(rt, "rotate.head-limit-rule", what(), "head file holds %d bytes, limit %d: expected %d rotation(s), the group index moved by %d", size, w.limit, want, rotated)
				}
				rot += rotated
				sizeRot += rotated
			case 3:
				if rapid.IntRange(0, 2).Draw(rt, "restart") == 0 {
					w.close(rt, what)
					empty := fileSize(w.path) == 0
					ops = append(ops, fmt.Sprintf("restart (head empty: %v)", empty))
					w.open(rt, what)
					if empty {
						put(consensus.EndHeightMessage{Height: 0}) // OnStart marks an empty head again
					}
					restarts++
				}
			}
		}

		n := rapid.IntRange(1, 60).Draw(rt, "nmsgs")
		for i := 0; i < n; i++ {
			for k := rapid.SampledFrom([]int{0, 1, 1, 1, 2, 3}).Draw(rt, "nstruct"); k > 0; k-- {
				structural()
			}
			m := genMsg(rt, p, &nextEnd)
			sync := false
			switch x := m.(type) {
			case consensus.EndHeightMessage:
				sync = true
			case msgInfo:
				sync = x.PeerID == ""
			}
			ops = append(ops, fmt.Sprintf("write(sync=%v) %s", sync, render(m)))
			var err error
			ev.Guard(rt, what, func() {
				if sync {
					err = w.wal.WriteSync(m)
				} else {
					err = w.wal.Write(m)
				}
			})
			if err != nil {
				ev.Violation(rt, "encode.refused-valid-message", what(), "BaseWAL refused a message below the size limit: %v", err)
			}
			put(m)
		}
		for k := rapid.SampledFrom([]int{0, 0, 0, 1, 2}).Draw(rt, "tail"); k > 0; k-- {
			structural()
		}
		ev.Guard(rt, what, func() { w.wal.FlushAndSync() })
		ops = append(ops, "flush; read back")

		// ---- layout of the group: numbered files 000..rot-1 plus the head, each holding exactly its records
		g := w.wal.Group()
		if g.MinIndex() != 0 || g.MaxIndex() != rot {
			ev.Violation(rt, "rotate.index", what(), "after %d rotations the group reports indexes %d..%d", rot, g.MinIndex(), g.MaxIndex())
		}
		perFile := make([]int, rot+1)
		for _, f := range fileOf {
			perFile[f]++
		}
		var stream []byte
		files := make([][]byte, rot+1)
		for i := 0; i <= rot; i++ {
			b, err := os.ReadFile(groupFile(w.path, i, rot))
			if err != nil && !(i == rot && os.IsNotExist(err)) {
				ev.Violation(rt, "rotate.layout", what(), "file %d of the group cannot be read: %v", i, err)
			}
			ends, clean := parseValid(b, false)
			if len(ends) != perFile[i] || !clean {
				ev.Violation(rt, "rotate.layout", what(), "file %d of the group should hold %d whole records; it parses as %d records, clean end %v (%d bytes)", i, perFile[i], len(ends), clean, len(b))
			}
			files[i] = b
			stream = append(stream, b...)
		}
		ref := &refLog{b: stream, msgs: written}
		finishRef(rt, ref)

		// ---- plain scans: group reader from the first file, and the concatenated bytes
		readGroup := func(grp *autofile.Group, dmg []byte, wh func() string) {
			e := expectFor(ref, dmg, false)
			var gr *autofile.GroupReader
			var got []*timed
			var err error
			ev.Guard(rt, wh, func() {
				if gr, err = grp.NewReader(grp.MinIndex()); err == nil {
					got, err = decodeAll(gr, ref.n()+2)
					gr.Close()
				}
			})
			checkDecoded(rt, ref, e, got, err, "GroupReader", wh)
		}
		readGroup(g, stream, what)
		r.judge(rt, ref, stream, viaBytes, false, what)

		// ---- SearchForEndHeight
		var hs []int64
		for h := range endAt {
			hs = append(hs, h)
		}
		sortInt64(hs)
		cands := map[int64]bool{0: true, nextEnd + 1: true, 1 << 62: true}
		for _, h := range hs {
			if len(hs) <= 6 || rapid.IntRange(0, len(hs)-1).Draw(rt, "pickh") < 6 {
				cands[h] = true
			}
			cands[h+1] = true
		}
		var list []int64
		for h := range cands {
			list = append(list, h)
		}
		sortInt64(list)
		found := 0
		for _, h := range list {
			for _, ignore := range []bool{false, true} {
				searchWhat := func() string {
					return fmt.Sprintf("%s\nSearchForEndHeight(%d, ignoreCorruption=%v)", what(), h, ignore)
				}
				var rd io.ReadCloser
				var ok bool
				var err error
				ev.Guard(rt, searchWhat, func() {
					rd, ok, err = w.wal.SearchForEndHeight(h, &consensus.WALSearchOptions{IgnoreDataCorruptionErrors: ignore})
				})
				if err != nil {
					ev.Violation(rt, "search.error-on-intact-log", searchWhat(), "search failed on an intact log: %v", err)
					continue
				}
				idxs := endAt[h]
				if ok && len(idxs) == 0 {
					ev.Violation(rt, "search.found-unwritten-height", searchWhat(), "marker for height %d reported found but was never written", h)
				}
				if !ok && len(idxs) > 0 {
					ev.Violation(rt, "search.missed-written-height", searchWhat(), "marker for height %d was written (message %v, file %d of 0..%d) but is reported missing", h, idxs, fileOf[idxs[0]], rot)
				}
				if !ok {
					if rd != nil {
						ev.Violation(rt, "search.reader-without-marker", searchWhat(), "not found but a reader was returned")
					}
					continue
				}
				found++
				var got []*timed
				ev.Guard(rt, searchWhat, func() { got, err = decodeAll(rd, ref.n()+2); rd.Close() })
				match := false
				for _, idx := range idxs { // a marker written more than once (height 0 after a restart on an empty head): any occurrence
					rest := written[idx+1:]
					if len(got) != len(rest) {
						continue
					}
					same := true
					for i := range rest {
						same = same && sameTimed(rest[i], got[i], false)
					}
					match = match || same
				}
				if !match || err != io.EOF {
					ev.Violation(rt, "search.wrong-position", searchWhat(), "after the marker for height %d (message %v of %d) the reader yields %d messages then %v; expected the %d messages written after it then EOF\nread:\n%s",
						h, idxs, len(written), len(got), err, len(written)-idxs[len(idxs)-1]-1, renderAll(got, false))
				}
			}
		}

		// ---- damage of the group's files, read through a second group over a copy
		ddir := filepath.Join(dir, "dmg")
		os.MkdirAll(ddir, 0o700)
		dhead := filepath.Join(ddir, "wal")
		for i := 0; i <= rot; i++ {
			mustWrite(rt, groupFile(dhead, i, rot), files[i])
		}
		var w2 *consensus.BaseWAL
		var err error
		ev.Guard(rt, what, func() { w2, err = consensus.NewWAL(dhead, autofile.GroupCheckDuration(time.Hour)) })
		if err != nil {
			rt.Fatalf("harness: %v", err)
		}
		defer w2.Group().Head.Close()
		if w2.Group().MaxIndex() != rot {
			ev.Violation(rt, "rotate.reopen-index", what(), "a group of %d numbered files plus head reopens with max index %d", rot, w2.Group().MaxIndex())
		}
		nontrivial := rot >= 1
		var descs []string
		for i := 0; i < nDmg && len(stream) > 0; i++ {
			d := drawDamage(rt, ref)
			if d.kind == "insert" || d.kind == "delete" || d.kind == "trunc+garbage" {
				continue // these change file lengths in the middle of the stream; the per-file mapping below is for in-place damage
			}
			// map the damaged stream back to files: in-place damage keeps every file's length; a truncation cuts the
			// file it falls into (later files stay); a suffix extends the head
			dfiles := make([][]byte, rot+1)
			var dstream []byte
			switch d.kind {
			case "trunc":
				fi := fileOfOffset(files, d.pos)
				start := 0
				for j := 0; j < fi; j++ {
					start += len(files[j])
				}
				for j := range files {
					dfiles[j] = files[j]
				}
				dfiles[fi] = files[fi][:d.pos-start]
				d.desc += fmt.Sprintf(" (file %d of 0..%d cut to %d bytes, later files intact)", fi, rot, d.pos-start)
			case "suffix":
				for j := range files {
					dfiles[j] = files[j]
				}
				dfiles[rot] = append(append([]byte{}, files[rot]...), d.out[len(stream):]...)
			default:
				start := 0
				for j := range files {
					dfiles[j] = d.out[start : start+len(files[j])]
					start += len(files[j])
				}
			}
			for j := range dfiles {
				dstream = append(dstream, dfiles[j]...)
				mustWrite(rt, groupFile(dhead, j, rot), dfiles[j])
			}
			dwhat := func() string { return what() + "\ndamage: " + d.desc }
			ev.Inflight("TestWALGroup: " + dwhat())
			readGroup(w2.Group(), dstream, dwhat)
			searchDamaged(rt, w2, ref, dstream, endAt, hs, dwhat)
			// the node repairs the head file only
			headStart := len(stream) - len(files[rot])
			if d.pos >= headStart && len(files[rot]) > 0 {
				href := &refLog{b: files[rot], msgs: written[len(written)-perFile[rot]:], base: ref.base}
				ends, _ := parseValid(files[rot], false)
				href.off = append([]int{0}, ends...)
				r.repair(rt, href, dfiles[rot], dwhat)
			}
			for j := range dfiles {
				mustWrite(rt, groupFile(dhead, j, rot), files[j])
			}
			nontrivial = nontrivial || ref.nontrivialAt(d.pos)
			ev.Class("group:damage." + d.kind)
			descs = append(descs, d.desc)
		}

		cls := []string{"group:files=" + bucket(rot+1, 1, 2, 4, 8, 16), "group:msgs=" + bucket(len(written), 4, 16, 32, 64)}
		if sizeRot > 0 {
			cls = append(cls, "group:rotated-by-head-limit")
		}
		if explicitRot > 0 {
			cls = append(cls, "group:rotated-explicitly")
		}
		if restarts > 0 {
			cls = append(cls, "group:restarted")
		}
		if len(endAt[0]) > 1 {
			cls = append(cls, "group:height0-marker-repeated")
		}
		if found > 0 {
			cls = append(cls, "group:search-found")
		}
		for _, m := range written {
			ev.Class("kind:" + kname(m.Msg))
		}
		canon := what() + "\n" + strings.Join(descs, "\n")
		ev.Case(nontrivial, canon, cls...)
		c := "group:files=" + bucket(rot+1, 1, 2, 4, 8, 16)
		if nontrivial && ev.WantSample(c) {
			ev.Sample(c, map[string]interface{}{"ops": ops, "damage": descs, "files": rot + 1})
		}
	})
}

func fileOfOffset(files [][]byte, pos int) int {
	start := 0
	for i, f := range files {
		if pos < start+len(f) {
			return i
		}
		start += len(f)
	}
	return len(files) - 1
}

func sortInt64(a []int64) {
	for i := 1; i < len(a); i++ {
		for j := i; j > 0 && a[j-1] > a[j]; j-- {
			a[j-1], a[j] = a[j], a[j-1]
		}
	}
}

// searchDamaged: on a damaged group SearchForEndHeight may fail or miss, but it must not panic, and when it reports
// a marker found the reader must continue with messages that were written after that marker (a prefix of them).
func searchDamaged(t ev.TB, w *consensus.BaseWAL, ref *refLog, dstream []byte, endAt map[int64][]int, hs []int64, what func() string) {
	if len(hs) == 0 {
		return
	}
	// whole records removed at a record boundary leave a CRC-valid log with other content: outside the property
	foreign := expectFor(ref, dstream, false).foreign
	for _, h := range []int64{hs[0], hs[len(hs)/2], hs[len(hs)-1]} {
		for _, ignore := range []bool{false, true} {
			sw := func() string {
				return fmt.Sprintf("%s\nSearchForEndHeight(%d, ignoreCorruption=%v) on the damaged group", what(), h, ignore)
			}
			var rd io.ReadCloser
			var ok bool
			var err error
			ev.Guard(t, sw, func() {
				rd, ok, err = w.SearchForEndHeight(h, &consensus.WALSearchOptions{IgnoreDataCorruptionErrors: ignore})
			})
			if !ok || err != nil || rd == nil {
				continue
			}
			if foreign {
				rd.Close()
				continue
			}
			var got []*timed
			ev.Guard(t, sw, func() { got, err = decodeAll(rd, ref.n()+2); rd.Close() })
			match := false
			for _, idx := range endAt[h] {
				rest := ref.msgs[idx+1:]
				if len(got) > len(rest) {
					continue
				}
				same := true
				for i := range got {
					same = same && sameTimed(rest[i], got[i], false)
				}
				match = match || same
			}
			if !match {
				ev.Violation(t, "search.damaged.wrong-position", sw(), "marker %d reported found, but the reader continues with messages that do not follow it in what was written:\n%s", h, renderAll(got, false))
			}
			if err != io.EOF && !consensus.IsDataCorruptionError(err) {
				ev.Violation(t, "corrupt.untyped-error", sw(), "after the marker the decoder returned %T %v", err, err)
			}
		}
	}
}
