// Sizes at and around the message size limit, on both sides of the codec.
package c15

import (
	"bytes"
	"encoding/binary"
	"fmt"
	"hash/crc32"
	"io"
	"testing"
	"time"

	"pgregory.net/rapid"

	"github.com/kardiachain/go-kardia/consensus"
	"github.com/kardiachain/go-kardia/lib/merkle"
	kcons "github.com/kardiachain/go-kardia/proto/kardiachain/consensus"
	kproto "github.com/kardiachain/go-kardia/proto/kardiachain/types"
	"github.com/kardiachain/go-kardia/types"

	"verifharness/internal/ev"
)

// payloadOf marshals the protobuf payload of a record the way the documented format says
// (protobuf(TimedWALMessage)); used to aim at a payload size and to frame records the encoder refuses.
func payloadOf(m *timed) ([]byte, error) {
	pb, err := consensus.WALToProto(m.Msg)
	if err != nil {
		return nil, err
	}
	tm := kcons.TimedWALMessage{Time: m.Time, Msg: pb}
	return tm.Marshal()
}

func payloadSize(m *timed) int {
	pb, err := consensus.WALToProto(m.Msg)
	if err != nil {
		return -1
	}
	tm := kcons.TimedWALMessage{Time: m.Time, Msg: pb}
	return tm.Size()
}

func frameOf(payload []byte) []byte {
	b := make([]byte, 8+len(payload))
	binary.BigEndian.PutUint32(b, crc32.Checksum(payload, castagnoli))
	binary.BigEndian.PutUint32(b[4:], uint32(len(payload)))
	copy(b[8:], payload)
	return b
}

const nSized = 4

var sizedName = [nSized]string{"roundstate.step", "proposal.signature", "vote.signature", "blockpart.aunts+bytes"}

func filler(n int, seed uint64) []byte {
	b := make([]byte, n)
	seed |= 1
	for i := 0; i+8 <= n; i += 8 {
		binary.LittleEndian.PutUint64(b[i:], xorshift(&seed))
	}
	for i := n &^ 7; i < n; i++ {
		b[i] = byte(xorshift(&seed))
	}
	return b
}

// sizedMessage builds a message of the given kind whose protobuf payload has exactly target bytes (a peer can send
// a proposal, vote or block part of up to 1 MiB that passes ValidateBasic; the step string is the one free-length
// field of a node's own records). It returns nil when the target cannot be hit.
func sizedMessage(rt *rapid.T, kind, target int) (*timed, int) {
	seed := rapid.Uint64().Draw(rt, "sized.seed")
	tm := time.Unix(1_700_000_000, 123456789).UTC()
	var id types.BlockID
	copy(id.Hash[:], filler(32, seed+1))
	id.PartsHeader.Total = 3
	copy(id.PartsHeader.Hash[:], filler(32, seed+2))
	build := func(x int) *timed {
		if x < 1 {
			x = 1
		}
		switch kind {
		case 0:
			b := filler(x, seed)
			for i := range b {
				b[i] = 'a' + b[i]%26
			}
			return &timed{Time: tm, Msg: types.EventDataRoundState{Height: 7, Round: 1, Step: string(b)}}
		case 1:
			pr := &types.Proposal{Height: 7, Round: 1, POLRound: 0, Timestamp: tm, POLBlockID: id, Signature: filler(x, seed)}
			return &timed{Time: tm, Msg: consensus.VerifC15NewMsgInfo(&consensus.ProposalMessage{Proposal: pr}, "peer")}
		case 2:
			v := &types.Vote{Height: 7, Round: 1, Timestamp: tm, Type: kproto.PrecommitType, BlockID: id, Signature: filler(x, seed), ValidatorIndex: 2}
			return &timed{Time: tm, Msg: consensus.VerifC15NewMsgInfo(&consensus.VoteMessage{Vote: v}, "")}
		default:
			// aunts of 32 bytes (34 encoded) carry the bulk, the part's bytes (at most 65536) the remainder
			na := 0
			if x > 60000 {
				na = (x - 30000) / 34
			}
			part := &types.Part{Index: 1, Bytes: filler(x-na*34, seed), Proof: merkle.SimpleProof{Total: 9, Index: 1, LeafHash: filler(32, seed+3)}}
			for i := 0; i < na; i++ {
				part.Proof.Aunts = append(part.Proof.Aunts, filler(32, seed+uint64(i)))
			}
			return &timed{Time: tm, Msg: consensus.VerifC15NewMsgInfo(&consensus.BlockPartMessage{Height: 7, Round: 1, Part: part}, "0123456789abcdef0123456789abcdef01234567")}
		}
	}
	x := target - 100
	for i := 0; i < 12; i++ {
		m := build(x)
		s := payloadSize(m)
		if s == target {
			return m, s
		}
		x += target - s
		if x < 1 {
			return nil, 0
		}
	}
	return nil, 0
}

// TestSizeLimit: the encoder accepts a record iff its payload is not longer than the limit, a refused record leaves
// no bytes behind, and the decoder draws the line at the same place (it accepts what the encoder wrote at exactly
// the limit and reports a longer, correctly framed record as corruption without allocating for it).
func TestSizeLimit(t *testing.T) {
	rapid.Check(t, func(rt *rapid.T) {
		kind := rapid.IntRange(0, nSized-1).Draw(rt, "kind")
		delta := rapid.SampledFrom([]int{-70000, -1000, -3, -2, -1, 0, 0, 1, 1, 2, 3, 24, 25, 1000, 70000, 500000}).Draw(rt, "delta")
		target := maxSize + delta
		big, size := sizedMessage(rt, kind, target)
		if big == nil {
			rt.Fatalf("harness: cannot build a %s record with a payload of %d bytes", sizedName[kind], target)
		}
		var nextEnd int64
		small1 := &timed{Time: genTime(rt, "t1"), Msg: genMsg(rt, profSmall, &nextEnd)}
		small2 := &timed{Time: genTime(rt, "t2"), Msg: genMsg(rt, profSmall, &nextEnd)}
		canon := fmt.Sprintf("%s with a payload of limit%+d bytes between\n  %s\n  %s", sizedName[kind], delta, renderTimed(small1, true), renderTimed(small2, true))
		what := func() string { return canon }

		var buf bytes.Buffer
		if err := encodeInto(rt, &buf, small1); err != nil {
			rt.Fatalf("harness: %v", err)
		}
		before := buf.Len()
		errBig := encodeInto(rt, &buf, big)
		wrote := buf.Len() - before
		if err := encodeInto(rt, &buf, small2); err != nil {
			rt.Fatalf("harness: %v", err)
		}
		ref := &refLog{cmpTime: true, msgs: []*timed{small1}}
		switch {
		case size > maxSize && errBig == nil:
			ev.Violation(rt, "limit.encoder-accepts-oversize", canon, "the encoder wrote a record with a payload of %d bytes; the limit both sides document is %d", size, maxSize)
		case size <= maxSize && errBig != nil:
			ev.Violation(rt, "limit.encoder-refuses-legal-size", canon, "the encoder refused a payload of %d bytes (limit %d): %v", size, maxSize, errBig)
		}
		if errBig == nil {
			ref.msgs = append(ref.msgs, big)
			if wrote != 8+size {
				ev.Violation(rt, "frame.format", canon, "a payload of %d bytes was written as %d bytes (want 8 + payload)", size, wrote)
			}
		} else if wrote != 0 {
			ev.Violation(rt, "limit.refused-record-left-bytes", canon, "the encoder refused the record but left %d bytes in the log", wrote)
		}
		ref.msgs = append(ref.msgs, small2)
		ref.b = buf.Bytes()
		finishRef(rt, ref)
		// everything the encoder accepted comes back, in order (this is where the decoder must accept "at the limit")
		e := expectFor(ref, ref.b, true)
		var got []*timed
		var err error
		ev.Guard(rt, what, func() { got, err = decodeAll(bytes.NewReader(ref.b), 5) })
		checkDecoded(rt, ref, e, got, err, "bytes.Reader", what)

		// the decoder's side of the line, on a correctly framed record built by the harness
		payload, perr := payloadOf(big)
		if perr != nil || len(payload) != size {
			rt.Fatalf("harness: payload %d bytes, %v (want %d)", len(payload), perr, size)
		}
		fr := frameOf(payload)
		if errBig == nil && !bytes.Equal(fr, ref.b[before:before+wrote]) {
			ev.Violation(rt, "frame.format", canon, "the record the encoder wrote is not crc32c(payload) | big-endian length | payload")
		}
		var one []*timed
		var alloc uint64
		ev.Guard(rt, what, func() { alloc = allocDelta(func() { one, err = decodeAll(bytes.NewReader(fr), 3) }) })
		if size > maxSize {
			if len(one) != 0 {
				ev.Violation(rt, "limit.decoder-accepts-oversize", canon, "the decoder returned a message from a record with a payload of %d bytes (limit %d)", size, maxSize)
			} else if !consensus.IsDataCorruptionError(err) {
				ev.Violation(rt, "corrupt.untyped-error", canon, "an oversize record is reported as %T %v", err, err)
			}
			if alloc > allocSlack {
				ev.Violation(rt, "corrupt.alloc-unbounded", canon, "refusing a record that announces %d bytes allocated %d bytes", size, alloc)
			}
		} else {
			if len(one) != 1 || !sameTimed(big, one[0], true) || err != io.EOF {
				ev.Violation(rt, "limit.decoder-refuses-legal-size", canon, "a correctly framed record with a payload of %d bytes (limit %d) decodes to %d messages, then %v", size, maxSize, len(one), err)
			}
		}
		cls := "limit:at-or-below"
		if size > maxSize {
			cls = "limit:above"
		}
		ev.Case(delta >= -3 && delta <= 3, canon, cls, "limit:kind="+sizedName[kind], fmt.Sprintf("limit:delta=%+d", delta))
	})
}

var _ = testing.Short
