// Fixed reference logs, the directed exhaustive test over every reader, and the native fuzz target
// (thorough tier) for WALDecoder.Decode with the prefix oracle inside.
package c15

import (
	"bytes"
	"encoding/hex"
	"fmt"
	"os"
	"path/filepath"
	"regexp"
	"runtime/debug"
	"strconv"
	"strings"
	"sync"
	"testing"
	"time"

	"github.com/kardiachain/go-kardia/consensus"
	cstypes "github.com/kardiachain/go-kardia/consensus/types"
	"github.com/kardiachain/go-kardia/lib/merkle"
	"github.com/kardiachain/go-kardia/lib/p2p"
	kproto "github.com/kardiachain/go-kardia/proto/kardiachain/types"
	"github.com/kardiachain/go-kardia/types"

	"verifharness/internal/ev"
)

// detMsg builds message number i of a fixed log (all six kinds in turn, values from a xorshift stream).
func detMsg(i int, s *uint64, endHeight *int64) *timed {
	tm := time.Unix(1_700_000_000+int64(i), int64(xorshift(s)%1_000_000_000)).UTC()
	id := types.BlockID{}
	copy(id.Hash[:], filler(32, xorshift(s)))
	id.PartsHeader.Total = uint32(xorshift(s)%5) + 1
	copy(id.PartsHeader.Hash[:], filler(32, xorshift(s)))
	peer := p2p.ID(fmt.Sprintf("%040x", xorshift(s)))
	if i%2 == 0 {
		peer = ""
	}
	h := uint64(*endHeight + 1)
	var m consensus.WALMessage
	switch i % 6 {
	case 0:
		m = types.EventDataRoundState{Height: h, Round: uint32(i % 3), Step: cstypes.RoundStepType(i%8 + 1).String()}
	case 1:
		m = consensus.VerifC15NewMsgInfo(&consensus.ProposalMessage{Proposal: &types.Proposal{Height: h, Round: uint32(i % 3), POLRound: 0, Timestamp: tm, POLBlockID: id, Signature: filler(65, xorshift(s))}}, peer)
	case 2:
		part := &types.Part{Index: uint32(i % 4), Bytes: filler(20+i%17, xorshift(s)), Proof: merkle.SimpleProof{Total: 4, Index: uint64(i % 4), LeafHash: filler(32, xorshift(s)), Aunts: [][]byte{filler(32, xorshift(s))}}}
		if i%12 == 2 {
			part.Bytes[len(part.Bytes)-1], part.Proof.Aunts[0][31], part.Proof.Aunts[0][30] = 0, 0, 0 // record ends in zero bytes
		}
		m = consensus.VerifC15NewMsgInfo(&consensus.BlockPartMessage{Height: h, Round: uint32(i % 3), Part: part}, peer)
	case 3:
		v := &types.Vote{ValidatorIndex: uint32(i % 4), Height: h, Round: uint32(i % 3), Timestamp: tm, Type: kproto.SignedMsgType(1 + i%2), Signature: filler(65, xorshift(s))}
		if i%4 != 3 {
			v.BlockID = id
		}
		copy(v.ValidatorAddress[:], filler(20, xorshift(s)))
		m = consensus.VerifC15NewMsgInfo(&consensus.VoteMessage{Vote: v}, peer)
	case 4:
		m = consensus.VerifC15NewTimeoutInfo(time.Duration(1+i)*time.Millisecond*100, h, uint32(i%3), cstypes.RoundStepType(i%8+1))
	default:
		*endHeight++
		m = consensus.EndHeightMessage{Height: *endHeight}
	}
	return &timed{Time: tm, Msg: m}
}

// fixedLog builds a deterministic log: an end-height-0 marker (what OnStart writes) followed by n messages.
func fixedLog(t ev.TB, n int, seed uint64) *refLog {
	ref := &refLog{cmpTime: true}
	var buf bytes.Buffer
	var end int64
	s := seed | 1
	ref.msgs = append(ref.msgs, &timed{Time: time.Unix(1_700_000_000, 0).UTC(), Msg: consensus.EndHeightMessage{Height: 0}})
	for i := 0; i < n; i++ {
		ref.msgs = append(ref.msgs, detMsg(i, &s, &end))
	}
	for _, m := range ref.msgs {
		if err := encodeInto(t, &buf, m); err != nil {
			t.Fatalf("harness: fixed log: %v", err)
		}
	}
	ref.b = append([]byte{}, buf.Bytes()...)
	finishRef(t, ref)
	return ref
}

var fuzzRefs struct {
	sync.Once
	logs []*refLog
}

type fatalTB struct{}

func (fatalTB) Helper() {}
func (fatalTB) Fatalf(format string, args ...interface{}) {
	panic(fmt.Sprintf("harness: cannot build the fixed logs: "+format, args...))
}

func refLogs() []*refLog {
	fuzzRefs.Do(func() {
		fuzzRefs.logs = []*refLog{fixedLog(fatalTB{}, 0, 1), fixedLog(fatalTB{}, 5, 2), fixedLog(fatalTB{}, 12, 3), fixedLog(fatalTB{}, 18, 4)}
	})
	return fuzzRefs.logs
}

// fuzzOne judges an arbitrary byte string: it is read as a damaged version of the fixed log it shares the longest
// prefix with. The records inside the shared prefix must come back unchanged, nothing may come out of a record the
// harness's parser rejects, the decoder must end with io.EOF or a DataCorruptionError, must not panic and must not
// allocate beyond the bound. Inputs in which the fuzzer assembled a CRC-valid record that is not the original one at
// that position (spliced or forged) are outside the property and only counted.
func fuzzOne(t ev.TB, b []byte) {
	if len(b) > 1<<16 {
		return
	}
	refs := refLogs()
	best, bestLcp := refs[0], -1
	for _, r := range refs {
		l := 0
		for l < len(b) && l < len(r.b) && b[l] == r.b[l] {
			l++
		}
		if l > bestLcp {
			best, bestLcp = r, l
		}
	}
	what := func() string { return fmt.Sprintf("fuzz input=%x", b) }
	e := expectFor(best, b, true)
	if e.foreign {
		ev.Case(false, "", "fuzz:out-of-domain.crc-valid-foreign-record")
		return
	}
	var got []*timed
	var err error
	var alloc uint64
	ev.Guard(t, what, func() { alloc = allocDelta(func() { got, err = decodeAll(bytes.NewReader(b), len(b)/8+2) }) })
	checkDecoded(t, best, e, got, err, "bytes.Reader", what)
	if lim := best.allocBound(0); alloc > lim {
		debug.FreeOSMemory()
		ev.Violation(t, "corrupt.alloc-unbounded", what(), "decoding a %d-byte input allocated %d bytes (bound %d)", len(b), alloc, lim)
	}
	cls := "fuzz:no-valid-record"
	if e.v > 0 {
		cls = "fuzz:valid-prefix-then-damage"
	}
	if e.intact {
		cls = "fuzz:intact-reference"
	}
	ev.Case(e.v > 0 && !e.intact, fmt.Sprintf("fuzz|%x", b), cls)
}

func fuzzSeeds() [][]byte {
	seeds := [][]byte{{}, {0}, {0, 0, 0, 0}, make([]byte, 8), make([]byte, 16), {0xff, 0xff, 0xff, 0xff, 0xff, 0xff, 0xff, 0xff, 1}}
	for _, r := range refLogs() {
		seeds = append(seeds, r.b)
		seeds = append(seeds, r.b[:len(r.b)-3])
		seeds = append(seeds, append(append([]byte{}, r.b...), 0, 0, 0, 0, 0, 0, 0, 0, 0))
		if r.n() > 2 {
			m := append([]byte{}, r.b...)
			m[r.off[1]+5] ^= 0x40 // a length field announcing 4 MiB more
			seeds = append(seeds, m)
		}
	}
	return seeds
}

func FuzzWALDecode(f *testing.F) {
	for _, s := range fuzzSeeds() {
		f.Add(s)
	}
	f.Fuzz(func(t *testing.T, b []byte) { fuzzOne(t, b) })
}

// TestDirected: (a) the fixed logs, EVERY truncation and EVERY single-bit flip through every reader real callers use
// (bytes.Reader, *os.File, GroupReader) and through repairWalFile; (b) the fuzz oracle on its seed corpus.
func TestDirected(t *testing.T) {
	r := newRig(t)
	logs := []*refLog{fixedLog(t, 6, 11), fixedLog(t, 12, 12)}
	if ev.Thorough() {
		logs = append(logs, fixedLog(t, 24, 13))
	}
	for li, ref := range logs {
		canon := renderAll(ref.msgs, true)
		for _, via := range []viaKind{viaBytes, viaFile, viaGroup} {
			r.judge(t, ref, ref.b, via, true, func() string { return "intact fixed log\n" + canon })
		}
		all := func(dmg []byte, measure bool, what func() string) {
			for _, via := range []viaKind{viaBytes, viaFile, viaGroup} {
				r.judge(t, ref, dmg, via, measure, what)
			}
			r.repair(t, ref, dmg, what)
		}
		work := append([]byte{}, ref.b...)
		for cut := 0; cut < len(work); cut++ {
			c := cut
			all(work[:cut], false, func() string { return fmt.Sprintf("fixed log %d: truncate at %d of %d\n%s", li, c, len(work), canon) })
		}
		for pos := 0; pos < len(work); pos++ {
			rec, field := ref.where(pos)
			for bit := 0; bit < 8; bit++ {
				work[pos] ^= 1 << uint(bit)
				p, b := pos, bit
				all(work, field == "len", func() string {
					return fmt.Sprintf("fixed log %d: flip bit %d of byte %d (%s of record %d)\n%s", li, b, p, field, rec, canon)
				})
				work[pos] ^= 1 << uint(bit)
			}
		}
		nt, nf := int64(len(work)), int64(len(work))*8
		ev.Exhaustive()
		ev.Count(4 * (nt + nf))
		ev.Case(true, "directed\n"+canon, "directed:fixed-log-all-readers")
		ev.ClassN("directed:damage.truncation(x3 readers + repair)", nt)
		ev.ClassN("directed:damage.bitflip(x3 readers + repair)", nf)
		ev.Note(fmt.Sprintf("directed_log_%d", li), fmt.Sprintf("%d bytes, %d records: all %d truncation offsets and all %d single-bit flips through bytes.Reader, *os.File, GroupReader and repairWalFile", len(work), ref.n(), nt, nf))
	}
	for _, s := range fuzzSeeds() {
		fuzzOne(t, s)
		step := 1
		if len(s) > 600 {
			step = 7
		}
		for i := 0; i < len(s); i += step {
			fuzzOne(t, s[:i])
			m := append([]byte{}, s...)
			m[i] += 0x81
			fuzzOne(t, m)
		}
	}
}

// ---------------------------------------------------------------- crasher replay in the fuzz coordinator (see TestMain)

type recordTB struct{}

type recordStop struct{}

func (recordTB) Helper()                                   {}
func (recordTB) Fatalf(format string, args ...interface{}) { panic(recordStop{}) }

// replayCrashers re-runs the oracle, inside the coordinator process, on every corpus file the fuzzing engine wrote
// into testdata/fuzz/FuzzWALDecode, so that a violation found by a worker is recorded by ev in the coordinator's
// evidence file (the driver reads violations only from there).
func replayCrashers() {
	judge := func(name string, b []byte) {
		defer func() {
			if r := recover(); r != nil {
				if _, ok := r.(recordStop); !ok {
					fmt.Printf("replayCrashers: %s: panic outside the oracle: %v\n", name, r)
				}
			}
		}()
		fuzzOne(recordTB{}, b)
	}
	for i, s := range fuzzSeeds() {
		judge(fmt.Sprintf("seed#%d", i), s)
	}
	dir := filepath.Join("testdata", "fuzz", "FuzzWALDecode")
	ents, err := os.ReadDir(dir)
	if err != nil {
		return
	}
	for _, e := range ents {
		raw, err := os.ReadFile(filepath.Join(dir, e.Name()))
		if err != nil {
			continue
		}
		lines := strings.Split(strings.TrimSpace(string(raw)), "\n")
		if len(lines) < 2 || !strings.HasPrefix(lines[0], "go test fuzz v1") {
			continue
		}
		arg := strings.TrimSpace(lines[1])
		if !strings.HasPrefix(arg, "[]byte(") || !strings.HasSuffix(arg, ")") {
			continue
		}
		s, err := strconv.Unquote(arg[len("[]byte(") : len(arg)-1])
		if err != nil {
			continue
		}
		judge(e.Name(), []byte(s))
	}
}

// TestReplay re-judges the byte string recorded in a violation report (VERIF_REPLAY_FILE): the last
// "input=<hex>" of the file is run through the fuzz oracle.
func TestReplay(t *testing.T) {
	path := os.Getenv("VERIF_REPLAY_FILE")
	if path == "" {
		t.Skip("no VERIF_REPLAY_FILE")
	}
	raw, err := os.ReadFile(path)
	if err != nil {
		t.Fatalf("harness: %v", err)
	}
	m := replayInputRE.FindAllStringSubmatch(string(raw), -1)
	if len(m) == 0 {
		t.Skip("no input=<hex> in the replay file")
	}
	b, err := hex.DecodeString(m[len(m)-1][1])
	if err != nil {
		t.Fatalf("harness: %v", err)
	}
	fuzzOne(t, b)
}

var replayInputRE = regexp.MustCompile(`input=([0-9a-f]*)`)
