// Model side of check C15: message generators, field-wise comparison, the harness's own parser of the on-disk
// framing (crc32c | length | payload) and the expectation it derives for a damaged log.
package c15

import (
	"bytes"
	"encoding/binary"
	"errors"
	"fmt"
	"hash/crc32"
	"hash/fnv"
	"io"
	"runtime"
	"strings"
	"time"

	"pgregory.net/rapid"

	"github.com/kardiachain/go-kardia/consensus"
	cstypes "github.com/kardiachain/go-kardia/consensus/types"
	"github.com/kardiachain/go-kardia/lib/common"
	"github.com/kardiachain/go-kardia/lib/merkle"
	"github.com/kardiachain/go-kardia/lib/p2p"
	kproto "github.com/kardiachain/go-kardia/proto/kardiachain/types"
	"github.com/kardiachain/go-kardia/types"

	"verifharness/internal/ev"
)

type (
	msgInfo     = consensus.VerifC15MsgInfo
	timeoutInfo = consensus.VerifC15TimeoutInfo
	timed       = consensus.TimedWALMessage
)

const maxSize = consensus.VerifC15MaxMsgSizeBytes // largest payload the codec accepts (1 MiB + 24)

// ---------------------------------------------------------------- generators

// profile bounds the variable-size fields of generated messages.
type profile struct {
	name     string
	maxPart  int // BlockPart payload bytes (the product's ValidateBasic bound is 65536)
	maxAunts int
	maxSig   int
	maxStep  int // EventDataRoundState.Step runes
}

var (
	profSmall = profile{"small", 40, 2, 12, 24}
	profMid   = profile{"mid", 3000, 8, 80, 60}
	profLarge = profile{"large", types.BlockPartSizeBytes, 24, 4000, 2000}
)

func xorshift(s *uint64) uint64 {
	*s ^= *s << 13
	*s ^= *s >> 7
	*s ^= *s << 17
	return *s
}

// genBytes draws n bytes: byte by byte when short (shrinkable), from a drawn seed and style otherwise.
func genBytes(t *rapid.T, label string, n int) []byte {
	if n == 0 {
		if rapid.Bool().Draw(t, label+".nil") {
			return nil
		}
		return []byte{}
	}
	if n <= 12 {
		return rapid.SliceOfN(rapid.Byte(), n, n).Draw(t, label)
	}
	seed := rapid.Uint64().Draw(t, label+".seed") | 1
	style := rapid.IntRange(0, 7).Draw(t, label+".style")
	b := make([]byte, n)
	switch style {
	case 0: // all zero
	case 1:
		for i := range b {
			b[i] = 0xff
		}
	default:
		for i := 0; i < n; i += 8 {
			var w [8]byte
			binary.LittleEndian.PutUint64(w[:], xorshift(&seed))
			copy(b[i:], w[:])
		}
		if style == 2 { // trailing zeros (a truncation that only removes zeros is the subtle case)
			z := 1 + int(seed%uint64(minInt(n, 9)))
			for i := n - z; i < n; i++ {
				b[i] = 0
			}
		}
	}
	return b
}

func minInt(a, b int) int {
	if a < b {
		return a
	}
	return b
}

func genU64(t *rapid.T, label string) uint64 {
	switch rapid.IntRange(0, 5).Draw(t, label+".k") {
	case 0:
		return uint64(rapid.IntRange(0, 3).Draw(t, label))
	case 1:
		return rapid.Uint64().Draw(t, label)
	case 2:
		return rapid.SampledFrom([]uint64{127, 128, 16383, 16384, 1<<31 - 1, 1 << 31, 1<<32 - 1, 1 << 32, 1<<63 - 1, 1 << 63, 1<<64 - 1}).Draw(t, label)
	default:
		return uint64(rapid.IntRange(1, 5_000_000).Draw(t, label))
	}
}

func genU32(t *rapid.T, label string) uint32 {
	switch rapid.IntRange(0, 4).Draw(t, label+".k") {
	case 0:
		return rapid.Uint32().Draw(t, label)
	case 1:
		return rapid.SampledFrom([]uint32{127, 128, 16384, 1<<31 - 1, 1 << 31, 1<<32 - 1}).Draw(t, label)
	default:
		return uint32(rapid.IntRange(0, 6).Draw(t, label))
	}
}

const (
	minSec = -62135596800 // 0001-01-01T00:00:00Z, the smallest time protobuf's Timestamp carries
	maxSec = 253402300799 // 9999-12-31T23:59:59Z
)

// genTime draws an instant inside the range protobuf's Timestamp can carry (what ktime.Now() and decoded peer
// messages can hold); the zone is UTC or a fixed offset (comparison is by instant).
func genTime(t *rapid.T, label string) time.Time {
	var tm time.Time
	switch rapid.IntRange(0, 9).Draw(t, label+".k") {
	case 0:
		tm = time.Time{}
	case 1:
		tm = time.Unix(0, 0).UTC()
	case 2:
		tm = time.Unix(rapid.Int64Range(minSec, maxSec).Draw(t, label+".s"), rapid.Int64Range(0, 999999999).Draw(t, label+".ns")).UTC()
	case 3:
		tm = time.Unix(rapid.SampledFrom([]int64{minSec, maxSec, -1, 1, 1<<31 - 1, 1 << 31, 1 << 32}).Draw(t, label+".s"), rapid.SampledFrom([]int64{0, 1, 999999999, 1000000}).Draw(t, label+".ns")).UTC()
	case 4:
		tm = time.Unix(rapid.Int64Range(1_500_000_000, 2_000_000_000).Draw(t, label+".s"), 0).In(time.FixedZone("x", 7*3600))
	default: // what a running node stamps
		tm = time.Unix(rapid.Int64Range(1_600_000_000, 1_900_000_000).Draw(t, label+".s"), rapid.Int64Range(0, 999999999).Draw(t, label+".ns")).UTC()
	}
	return tm
}

func genHash(t *rapid.T, label string, nonZero bool) common.Hash {
	var h common.Hash
	copy(h[:], genBytes(t, label, 32))
	if nonZero && h.IsZero() {
		h[31] = 1
	}
	return h
}

func genBlockID(t *rapid.T, label string, complete bool) types.BlockID {
	if !complete {
		return types.BlockID{}
	}
	id := types.BlockID{Hash: genHash(t, label+".hash", true)}
	id.PartsHeader.Total = genU32(t, label+".total")
	if label == "p.id" && id.PartsHeader.Total > types.MaxBlockPartsCount {
		// a node only logs proposals that passed Proposal.ValidateBasic, which refuses part-set totals above
		// MaxBlockPartsCount (the WAL decoder re-validates what it reads)
		id.PartsHeader.Total = types.MaxBlockPartsCount - id.PartsHeader.Total%3
	}
	id.PartsHeader.Hash = genHash(t, label+".phash", id.PartsHeader.Total == 0) // PartsHeader must not be zero
	return id
}

func genSig(t *rapid.T, label string, p profile) []byte {
	n := 65
	switch rapid.IntRange(0, 3).Draw(t, label+".k") {
	case 0:
		n = rapid.IntRange(1, p.maxSig).Draw(t, label+".n")
	case 1:
		n = minInt(65, p.maxSig)
	default:
		n = rapid.IntRange(1, minInt(p.maxSig, 70)).Draw(t, label+".n")
	}
	return genBytes(t, label, n)
}

func genPeer(t *rapid.T, label string) p2p.ID {
	switch rapid.IntRange(0, 3).Draw(t, label+".k") {
	case 0:
		return "" // the node's own (internal) messages carry no peer
	case 1:
		return p2p.ID(rapid.StringN(1, 12, 40).Draw(t, label))
	default:
		return p2p.ID(fmt.Sprintf("%040x", rapid.Uint64().Draw(t, label)))
	}
}

var stepNames = func() []string {
	var s []string
	for i := 1; i <= 8; i++ {
		s = append(s, cstypes.RoundStepType(i).String())
	}
	return s
}()

// kinds of WAL messages a node writes (consensus/state.go: receiveRoutine, newStep, finalizeCommit; wal.go OnStart)
const (
	kProposal = iota
	kPart
	kVote
	kTimeout
	kRoundState
	kEndHeight
	nKinds
)

var kindName = [...]string{"proposal", "blockpart", "vote", "timeout", "roundstate", "endheight"}

func kname(m consensus.WALMessage) string {
	if k := kindOf(m); k >= 0 {
		return kindName[k]
	}
	return "unknown"
}

func kindOf(m consensus.WALMessage) int {
	switch x := m.(type) {
	case msgInfo:
		switch x.Msg.(type) {
		case *consensus.ProposalMessage:
			return kProposal
		case *consensus.BlockPartMessage:
			return kPart
		case *consensus.VoteMessage:
			return kVote
		}
	case timeoutInfo:
		return kTimeout
	case types.EventDataRoundState:
		return kRoundState
	case consensus.EndHeightMessage:
		return kEndHeight
	}
	return -1
}

// genMsg draws one WAL message. Every message satisfies the ValidateBasic of its type because only such messages
// reach the WAL (peer messages are validated by the reactor's decoder, own messages are built valid). End-height
// markers carry strictly increasing heights (*nextEnd), as finalizeCommit writes them.
func genMsg(t *rapid.T, p profile, nextEnd *int64) consensus.WALMessage {
	k := rapid.SampledFrom([]int{kVote, kVote, kVote, kPart, kPart, kProposal, kTimeout, kTimeout, kRoundState, kRoundState, kEndHeight, kEndHeight}).Draw(t, "kind")
	switch k {
	case kProposal:
		pr := &types.Proposal{
			Height: genU64(t, "p.h"), Round: genU32(t, "p.r"), POLRound: genU32(t, "p.pol"),
			Timestamp: genTime(t, "p.t"), POLBlockID: genBlockID(t, "p.id", true), Signature: genSig(t, "p.sig", p),
		}
		return consensus.VerifC15NewMsgInfo(&consensus.ProposalMessage{Proposal: pr}, genPeer(t, "peer"))
	case kPart:
		n := 0
		switch rapid.IntRange(0, 5).Draw(t, "bp.nk") {
		case 0:
			n = 0
		case 1:
			n = p.maxPart
		default:
			n = rapid.IntRange(1, p.maxPart).Draw(t, "bp.n")
		}
		part := &types.Part{Index: genU32(t, "bp.i"), Bytes: genBytes(t, "bp.bytes", n)}
		part.Proof = merkle.SimpleProof{Total: genU64(t, "bp.pt"), Index: genU64(t, "bp.pi"), LeafHash: genHash(t, "bp.leaf", false).Bytes()}
		na := rapid.IntRange(0, p.maxAunts).Draw(t, "bp.na")
		for i := 0; i < na; i++ {
			part.Proof.Aunts = append(part.Proof.Aunts, genHash(t, "bp.aunt", false).Bytes())
		}
		return consensus.VerifC15NewMsgInfo(&consensus.BlockPartMessage{Height: genU64(t, "bp.h"), Round: genU32(t, "bp.r"), Part: part}, genPeer(t, "peer"))
	case kVote:
		v := &types.Vote{
			ValidatorIndex: genU32(t, "v.i"), Height: genU64(t, "v.h"), Round: genU32(t, "v.r"), Timestamp: genTime(t, "v.t"),
			Type:    rapid.SampledFrom([]kproto.SignedMsgType{kproto.PrevoteType, kproto.PrecommitType}).Draw(t, "v.type"),
			BlockID: genBlockID(t, "v.id", rapid.IntRange(0, 3).Draw(t, "v.nil") != 0), Signature: genSig(t, "v.sig", p),
		}
		copy(v.ValidatorAddress[:], genBytes(t, "v.addr", 20))
		return consensus.VerifC15NewMsgInfo(&consensus.VoteMessage{Vote: v}, genPeer(t, "peer"))
	case kTimeout:
		var d time.Duration
		switch rapid.IntRange(0, 3).Draw(t, "to.dk") {
		case 0:
			d = 0
		case 1:
			d = time.Duration(rapid.Int64Range(0, 1<<63-1).Draw(t, "to.d"))
		default:
			d = time.Duration(rapid.IntRange(1, 20000).Draw(t, "to.ms")) * time.Millisecond
		}
		return consensus.VerifC15NewTimeoutInfo(d, genU64(t, "to.h"), genU32(t, "to.r"), cstypes.RoundStepType(rapid.IntRange(1, 8).Draw(t, "to.step")))
	case kRoundState:
		m := types.EventDataRoundState{Height: genU64(t, "rs.h"), Round: genU32(t, "rs.r")}
		if rapid.IntRange(0, 3).Draw(t, "rs.sk") == 0 {
			m.Step = rapid.StringN(0, p.maxStep, -1).Draw(t, "rs.step")
		} else {
			m.Step = rapid.SampledFrom(stepNames).Draw(t, "rs.step")
		}
		if rapid.Bool().Draw(t, "rs.priv") {
			m.RoundState = &cstypes.RoundState{Height: m.Height} // private field: the node sets it, the WAL does not store it
		}
		return m
	default:
		*nextEnd++
		if rapid.IntRange(0, 5).Draw(t, "eh.gap") == 0 {
			*nextEnd += int64(rapid.SampledFrom([]int{1, 2, 100, 1 << 20, 1 << 40}).Draw(t, "eh.by"))
		}
		return consensus.EndHeightMessage{Height: *nextEnd}
	}
}

// ---------------------------------------------------------------- comparison and rendering (field-wise, independent of the codec)

func sameTime(a, b time.Time) bool { return a.Equal(b) }

func sameBlockID(a, b types.BlockID) bool {
	return a.Hash == b.Hash && a.PartsHeader.Total == b.PartsHeader.Total && a.PartsHeader.Hash == b.PartsHeader.Hash
}

func sameCons(a, b consensus.Message) bool {
	switch x := a.(type) {
	case *consensus.ProposalMessage:
		y, ok := b.(*consensus.ProposalMessage)
		if !ok || x.Proposal == nil || y.Proposal == nil {
			return false
		}
		p, q := x.Proposal, y.Proposal
		return p.Height == q.Height && p.Round == q.Round && p.POLRound == q.POLRound && sameTime(p.Timestamp, q.Timestamp) &&
			sameBlockID(p.POLBlockID, q.POLBlockID) && bytes.Equal(p.Signature, q.Signature)
	case *consensus.BlockPartMessage:
		y, ok := b.(*consensus.BlockPartMessage)
		if !ok || x.Part == nil || y.Part == nil {
			return false
		}
		p, q := x.Part, y.Part
		if x.Height != y.Height || x.Round != y.Round || p.Index != q.Index || !bytes.Equal(p.Bytes, q.Bytes) ||
			p.Proof.Total != q.Proof.Total || p.Proof.Index != q.Proof.Index || !bytes.Equal(p.Proof.LeafHash, q.Proof.LeafHash) ||
			len(p.Proof.Aunts) != len(q.Proof.Aunts) {
			return false
		}
		for i := range p.Proof.Aunts {
			if !bytes.Equal(p.Proof.Aunts[i], q.Proof.Aunts[i]) {
				return false
			}
		}
		return true
	case *consensus.VoteMessage:
		y, ok := b.(*consensus.VoteMessage)
		if !ok || x.Vote == nil || y.Vote == nil {
			return false
		}
		p, q := x.Vote, y.Vote
		return p.ValidatorAddress == q.ValidatorAddress && p.ValidatorIndex == q.ValidatorIndex && p.Height == q.Height && p.Round == q.Round &&
			sameTime(p.Timestamp, q.Timestamp) && p.Type == q.Type && sameBlockID(p.BlockID, q.BlockID) && bytes.Equal(p.Signature, q.Signature)
	}
	return false
}

// sameMsg compares a written message with a decoded one, field by field (the private RoundState pointer of
// EventDataRoundState is not part of the log).
func sameMsg(a, b consensus.WALMessage) bool {
	switch x := a.(type) {
	case consensus.EndHeightMessage:
		y, ok := b.(consensus.EndHeightMessage)
		return ok && x.Height == y.Height
	case types.EventDataRoundState:
		y, ok := b.(types.EventDataRoundState)
		return ok && x.Height == y.Height && x.Round == y.Round && x.Step == y.Step
	case timeoutInfo:
		y, ok := b.(timeoutInfo)
		return ok && x.Duration == y.Duration && x.Height == y.Height && x.Round == y.Round && x.Step == y.Step
	case msgInfo:
		y, ok := b.(msgInfo)
		return ok && x.PeerID == y.PeerID && x.Msg != nil && y.Msg != nil && sameCons(x.Msg, y.Msg)
	}
	return false
}

func sameTimed(a, b *timed, cmpTime bool) bool {
	if a == nil || b == nil {
		return false
	}
	if cmpTime && !sameTime(a.Time, b.Time) {
		return false
	}
	return sameMsg(a.Msg, b.Msg)
}

func showBytes(b []byte) string {
	if len(b) <= 40 {
		return fmt.Sprintf("%x", b)
	}
	h := fnv.New64a()
	h.Write(b)
	return fmt.Sprintf("%x..(len=%d fnv=%x)", b[:8], len(b), h.Sum64())
}

func showTime(t time.Time) string { return fmt.Sprintf("%d.%09d", t.Unix(), t.Nanosecond()) }

func showID(id types.BlockID) string {
	if id.IsZero() {
		return "nil"
	}
	return fmt.Sprintf("%x/%d/%x", id.Hash[:], id.PartsHeader.Total, id.PartsHeader.Hash[:])
}

func showStr(s string) string {
	if len(s) <= 48 {
		return fmt.Sprintf("%q", s)
	}
	h := fnv.New64a()
	h.Write([]byte(s))
	return fmt.Sprintf("%q..(len=%d fnv=%x)", s[:16], len(s), h.Sum64())
}

// render is the canonical text of a WAL message (all stored fields).
func render(m consensus.WALMessage) string {
	switch x := m.(type) {
	case consensus.EndHeightMessage:
		return fmt.Sprintf("END %d", x.Height)
	case types.EventDataRoundState:
		return fmt.Sprintf("RS %d/%d/%s", x.Height, x.Round, showStr(x.Step))
	case timeoutInfo:
		return fmt.Sprintf("TO %d %d/%d/%d", int64(x.Duration), x.Height, x.Round, x.Step)
	case msgInfo:
		peer := showStr(string(x.PeerID))
		switch c := x.Msg.(type) {
		case *consensus.ProposalMessage:
			if c.Proposal == nil {
				return "PROP <nil> from " + peer
			}
			p := c.Proposal
			return fmt.Sprintf("PROP %d/%d pol=%d t=%s id=%s sig=%s from %s", p.Height, p.Round, p.POLRound, showTime(p.Timestamp), showID(p.POLBlockID), showBytes(p.Signature), peer)
		case *consensus.BlockPartMessage:
			if c.Part == nil {
				return "PART <nil> from " + peer
			}
			var au []string
			for _, a := range c.Part.Proof.Aunts {
				au = append(au, showBytes(a))
			}
			return fmt.Sprintf("PART %d/%d #%d bytes=%s proof=%d/%d/%s/[%s] from %s", c.Height, c.Round, c.Part.Index, showBytes(c.Part.Bytes),
				c.Part.Proof.Total, c.Part.Proof.Index, showBytes(c.Part.Proof.LeafHash), strings.Join(au, ","), peer)
		case *consensus.VoteMessage:
			if c.Vote == nil {
				return "VOTE <nil> from " + peer
			}
			v := c.Vote
			return fmt.Sprintf("VOTE type=%d %d/%d val=%x#%d t=%s id=%s sig=%s from %s", v.Type, v.Height, v.Round, v.ValidatorAddress[:], v.ValidatorIndex,
				showTime(v.Timestamp), showID(v.BlockID), showBytes(v.Signature), peer)
		}
		return fmt.Sprintf("MSG %T from %s", x.Msg, peer)
	}
	return fmt.Sprintf("?%T %+v", m, m)
}

func renderTimed(m *timed, withTime bool) string {
	if m == nil {
		return "<nil>"
	}
	if withTime {
		return "@" + showTime(m.Time) + " " + render(m.Msg)
	}
	return render(m.Msg)
}

func renderAll(ms []*timed, withTime bool) string {
	var sb strings.Builder
	for i, m := range ms {
		fmt.Fprintf(&sb, "%d: %s\n", i, renderTimed(m, withTime))
	}
	return sb.String()
}

// ---------------------------------------------------------------- the harness's own view of the on-disk format

var castagnoli = crc32.MakeTable(crc32.Castagnoli)

// parseValid walks b with the documented framing (4 bytes CRC-32C of the payload, 4 bytes big-endian payload
// length, payload) and returns the end offsets of the leading records that are complete, not longer than the
// size limit, non-empty and whose checksum matches. clean reports that b ends exactly after them.
//
// zeroExt selects the reader semantics of bytes.Reader and *os.File, where the final short read leaves the rest of
// the decoder's zeroed buffer untouched: a log whose last record lost only trailing zero bytes still checks out
// (the message it yields is the written one). The group reader fills a read completely or fails, so it is strict.
func parseValid(b []byte, zeroExt bool) (ends []int, clean bool) {
	pos := 0
	for {
		if pos == len(b) {
			return ends, true
		}
		if len(b)-pos < 8 {
			return ends, false
		}
		crc := binary.BigEndian.Uint32(b[pos:])
		length := int(binary.BigEndian.Uint32(b[pos+4:]))
		if length == 0 || length > maxSize {
			return ends, false
		}
		if pos+8+length > len(b) {
			have := len(b) - pos - 8
			if !zeroExt || have < 1 {
				return ends, false
			}
			pad := make([]byte, length)
			copy(pad, b[pos+8:])
			if crc32.Checksum(pad, castagnoli) != crc {
				return ends, false
			}
			return append(ends, len(b)), true
		}
		if crc32.Checksum(b[pos+8:pos+8+length], castagnoli) != crc {
			return ends, false
		}
		pos += 8 + length
		ends = append(ends, pos)
	}
}

// refLog is an undamaged log: its bytes, the record boundaries found by parseValid and the messages the harness
// wrote (its own values, not decoder output).
type refLog struct {
	b       []byte
	off     []int // off[i] = start of record i, off[n] = len(b)
	msgs    []*timed
	cmpTime bool   // Time was chosen by the harness (bare encoder) and must come back
	base    uint64 // bytes allocated by decoding the intact log once (calibrates the allocation bound)
}

func (r *refLog) n() int { return len(r.msgs) }

// recordAt returns the index of the record containing byte offset pos.
func (r *refLog) recordAt(pos int) int {
	lo, hi := 0, len(r.off)-1
	for lo+1 < hi {
		mid := (lo + hi) / 2
		if r.off[mid] <= pos {
			lo = mid
		} else {
			hi = mid
		}
	}
	return lo
}

// expectation for decoding dmg, a damaged version of ref.
type expectation struct {
	k       int  // records of ref that lie completely inside the common prefix of ref and dmg (untouched by the damage)
	v       int  // leading records of dmg that are valid by the harness's parser
	clean   bool // dmg ends exactly after them
	foreign bool // a valid record of dmg beyond k is not record-for-record the original one: CRC-valid re-framing, outside this property
	intact  bool // dmg == ref
}

func expectFor(ref *refLog, dmg []byte, zeroExt bool) expectation {
	lcp := 0
	for lcp < len(dmg) && lcp < len(ref.b) && dmg[lcp] == ref.b[lcp] {
		lcp++
	}
	e := expectation{intact: lcp == len(ref.b) && len(dmg) == len(ref.b)}
	for e.k < ref.n() && ref.off[e.k+1] <= lcp {
		e.k++
	}
	ends, clean := parseValid(dmg, zeroExt)
	e.v, e.clean = len(ends), clean
	start := 0
	for i, end := range ends {
		if i >= e.k {
			if i >= ref.n() {
				e.foreign = true
				break
			}
			orig := ref.b[ref.off[i]:ref.off[i+1]]
			got := dmg[start:end]
			// a zero-extended last record must be the original one minus trailing zeros
			if len(got) > len(orig) || !bytes.Equal(got, orig[:len(got)]) || start != ref.off[i] || !allZero(orig[len(got):]) {
				e.foreign = true
				break
			}
		}
		start = end
	}
	return e
}

func allZero(b []byte) bool {
	for _, c := range b {
		if c != 0 {
			return false
		}
	}
	return true
}

// ---------------------------------------------------------------- running the product decoder

var errRunaway = errors.New("harness: decoder returned more messages than the log can hold")
var errNilNil = errors.New("harness: Decode returned (nil, nil)")

// decodeAll drives the product decoder until it reports something other than a message.
func decodeAll(rd io.Reader, cap int) (out []*timed, err error) {
	dec := consensus.NewWALDecoder(rd)
	for {
		m, e := dec.Decode()
		if e != nil {
			return out, e
		}
		if m == nil {
			return out, errNilNil
		}
		out = append(out, m)
		if len(out) > cap {
			return out, errRunaway
		}
	}
}

func allocDelta(f func()) uint64 {
	var a, b runtime.MemStats
	runtime.ReadMemStats(&a)
	f()
	runtime.ReadMemStats(&b)
	return b.TotalAlloc - a.TotalAlloc
}

const allocSlack = 96 << 10

// allocBound: decoding a damaged log does at most the work of decoding the intact one plus one record buffer of at
// most the size limit (plus bufio buffers of the files read).
func (r *refLog) allocBound(files int) uint64 {
	return r.base + r.base/2 + uint64(maxSize) + allocSlack + uint64(files)*(16<<10)
}

// checkDecoded judges what the product decoder returned for dmg against the expectation.
// It returns false when the case is outside the property's domain (CRC-valid foreign record).
func checkDecoded(t ev.TB, ref *refLog, e expectation, got []*timed, err error, via string, what func() string) bool {
	if e.foreign {
		ev.Class("out-of-domain:crc-valid-foreign-record")
		return false
	}
	ct := func() string { return what() + "\nwritten:\n" + renderAll(ref.msgs, ref.cmpTime) }
	lim := len(got)
	if lim > e.v {
		lim = e.v
	}
	for i := 0; i < lim; i++ {
		if !sameTimed(ref.msgs[i], got[i], ref.cmpTime) {
			key := "corrupt.different-message"
			if e.intact {
				key = "roundtrip.differs." + kname(ref.msgs[i].Msg)
			}
			ev.Violation(t, key, ct(), "%s: message %d read back differs from what was written\n  written: %s\n  read:    %s", via, i,
				renderTimed(ref.msgs[i], ref.cmpTime), renderTimed(got[i], ref.cmpTime))
			return true
		}
	}
	if len(got) > e.v {
		if e.intact {
			ev.Violation(t, "roundtrip.extra-message", ct(), "%s: the intact log of %d messages decoded to %d; extra: %s", via, ref.n(), len(got), renderTimed(got[e.v], true))
		} else {
			ev.Violation(t, "corrupt.accepted-damaged-record", ct(), "%s: only the first %d records of the damaged log are valid (first %d untouched) but the decoder returned %d messages; message %d: %s",
				via, e.v, e.k, len(got), e.v, renderTimed(got[e.v], true))
		}
		return true
	}
	if len(got) < e.v {
		if e.intact {
			ev.Violation(t, "roundtrip.lost-message", ct(), "%s: the intact log of %d messages decoded to %d messages, then %v", via, ref.n(), len(got), err)
		} else {
			ev.Violation(t, "corrupt.lost-valid-prefix", ct(), "%s: the first %d records of the damaged log are valid but the decoder returned only %d messages, then %v", via, e.v, len(got), err)
		}
		return true
	}
	switch {
	case err == io.EOF:
	case consensus.IsDataCorruptionError(err):
		if e.intact {
			ev.Violation(t, "roundtrip.intact-log-reported-corrupt", ct(), "%s: the intact log ended with %v instead of io.EOF", via, err)
		}
	default:
		ev.Violation(t, "corrupt.untyped-error", ct(), "%s: after %d messages the decoder returned %T %v (neither io.EOF nor a DataCorruptionError)", via, len(got), err, err)
	}
	return true
}
