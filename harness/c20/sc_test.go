package c20

// SecretConnection between two honest ends with a frame-level man in the middle.
//
// Oracle, per direction.  Without tampering: bytes read == bytes written, in order, once, for every chunking of
// writes and reads; with several concurrent writers the stream is a concatenation of whole Write payloads (no
// interleaving inside a Write), each writer's payloads in its order; the reader then sees io.EOF when the writer is
// closed; both ends learn the other's true public key.  With a manipulated frame: what the reader delivers is a
// prefix of the genuine stream that ends at or before the first affected frame, and its reading ends in an error.
// Cases end by closing the writer (half-close), never by a deadline.

import (
	"bytes"
	"crypto/sha256"
	"encoding/binary"
	"fmt"
	"io"
	"strings"
	"sync"
	"testing"

	"github.com/kardiachain/go-kardia/lib/p2p/conn"
	"pgregory.net/rapid"

	"verifharness/internal/ev"
)

// ---------------------------------------------------------------- plan

type tamper struct {
	Op    string // flip drop dup swap trunc cut inject-random inject-zero inject-auth replay-earlier replay-other-insert replay-other-replace
	Frame int    // data frame the operation is applied at (0-based, the AuthSigMessage frame is not counted)
	Arg   int    // flip: bit index; trunc/cut: bytes kept; replay-earlier: distance back; inject-random: seed
}

type hsTamper struct {
	Dir int    // direction of the manipulated handshake message (0: A->B)
	Op  string // eph-flip eph-replace auth-flip auth-reflect
	Arg int
}

type dirPlan struct {
	Chunks []int   // single writer: sizes of the successive Write calls
	Recs   [][]int // or: concurrent writers, each writing tagged records (one Write each) of these sizes
	Bufs   []int   // read buffer sizes, cycled
	Cuts   []int   // sizes of the pieces in which the man in the middle forwards bytes, cycled
	Tamper *tamper
}

type scPlan struct {
	KeyA, KeyB int
	Dir        [2]dirPlan
	HS         *hsTamper
}

func (d *dirPlan) writes() [][]int {
	if d.Recs != nil {
		return d.Recs
	}
	return [][]int{d.Chunks}
}

func framesOf(n int) int { return (n + frameData - 1) / frameData }

func (d *dirPlan) nframes() int {
	n := 0
	for _, w := range d.writes() {
		for _, c := range w {
			n += framesOf(c)
		}
	}
	return n
}

func (d *dirPlan) total() int {
	n := 0
	for _, w := range d.writes() {
		for _, c := range w {
			n += c
		}
	}
	return n
}

func (d *dirPlan) String() string {
	var sb strings.Builder
	if d.Recs != nil {
		sb.WriteString("writers=[")
		for i, w := range d.Recs {
			if i > 0 {
				sb.WriteByte(' ')
			}
			sb.WriteString("(" + rle(w) + ")")
		}
		sb.WriteString("]")
	} else {
		sb.WriteString("writes=(" + rle(d.Chunks) + ")")
	}
	fmt.Fprintf(&sb, " readbufs=(%s) wire-pieces=(%s)", joinInts(d.Bufs), joinInts(d.Cuts))
	if d.Tamper != nil {
		fmt.Fprintf(&sb, " tamper=%s@frame%d/%d arg=%d", d.Tamper.Op, d.Tamper.Frame, d.nframes(), d.Tamper.Arg)
	}
	return sb.String()
}

func (p *scPlan) String() string {
	s := fmt.Sprintf("keys=%d,%d A->B{%s} B->A{%s}", p.KeyA, p.KeyB, p.Dir[0].String(), p.Dir[1].String())
	if p.HS != nil {
		s += fmt.Sprintf(" handshake-tamper=%s dir=%d arg=%d", p.HS.Op, p.HS.Dir, p.HS.Arg)
	}
	return s
}

// streamByte is byte i of the single-writer stream of direction dir.
func streamByte(dir, i int) byte { return byte(i*7 + i/251 + i/65521 + dir*83 + 1) }

func streamBytes(dir, from, n int) []byte {
	b := make([]byte, n)
	for i := range b {
		b[i] = streamByte(dir, from+i)
	}
	return b
}

const recHeader = 8

// record is the payload of record number seq of writer w: an 8-byte header naming writer, sequence number and length,
// then a body that depends on all three.
func record(dir, w, seq, size int) []byte {
	b := make([]byte, size)
	for j := recHeader; j < size; j++ {
		b[j] = byte(w*57 + seq*13 + j*3 + (j >> 8) + dir*29)
	}
	h := []byte{0xA0 + byte(w), byte(seq >> 8), byte(seq), byte(size >> 16), byte(size >> 8), byte(size), 0x5A ^ byte(dir), 0xC3}
	copy(b, h)
	return b
}

// ---------------------------------------------------------------- man in the middle (one per direction)

type mitmDir struct {
	out  *io.PipeWriter
	peer *mitmDir
	cuts []int

	mu      sync.Mutex // the write path (one writer at a time anyway: SecretConnection serialises its writes)
	armed   bool       // data phase
	hsN     int        // handshake-phase Write calls seen
	hs      *hsTamper
	buf     []byte
	frameNo int
	op      *tamper
	held    []byte
	cutIdx  int
	dead    bool // after "cut": the rest of the stream is swallowed
	applied bool

	fwd []byte // data phase: every byte forwarded to the reader, in order

	logMu   sync.Mutex
	log     [][]byte   // genuine sealed frames seen in this direction: [0] is the AuthSigMessage frame
	logCond *sync.Cond // signalled when log grows
}

func newMitmDir(out *io.PipeWriter, cuts []int) *mitmDir {
	m := &mitmDir{out: out, cuts: cuts}
	m.logCond = sync.NewCond(&m.logMu)
	return m
}

func (m *mitmDir) record(f []byte) {
	m.logMu.Lock()
	m.log = append(m.log, append([]byte{}, f...))
	m.logCond.Broadcast()
	m.logMu.Unlock()
}

// untouched compares what was forwarded with what the writer sent, frame by frame: n is the number of leading frames
// that reached the reader exactly as sent (the reader may deliver their bytes and nothing more), same reports that
// the whole stream did (then the direction counts as clean whatever was planned, e.g. a cut byte that happens to be
// followed by an equal one).
func (m *mitmDir) untouched() (n int, same bool) {
	m.mu.Lock()
	defer m.mu.Unlock()
	m.logMu.Lock()
	defer m.logMu.Unlock()
	g := m.log[1:]
	for n < len(g) && len(m.fwd) >= (n+1)*frameSealed && bytes.Equal(m.fwd[n*frameSealed:(n+1)*frameSealed], g[n]) {
		n++
	}
	return n, n == len(g) && len(m.fwd) == n*frameSealed
}

// emit forwards bytes in pieces of the planned sizes.
func (m *mitmDir) emit(b []byte) error {
	if m.armed {
		m.fwd = append(m.fwd, b...)
	}
	for len(b) > 0 {
		n := len(b)
		if len(m.cuts) > 0 {
			if c := m.cuts[m.cutIdx%len(m.cuts)]; c > 0 && c < n {
				n = c
			}
			m.cutIdx++
		}
		if _, err := m.out.Write(b[:n]); err != nil {
			return err
		}
		b = b[n:]
	}
	return nil
}

func forged(seed int) []byte {
	out := make([]byte, 0, frameSealed+32)
	for i := 0; len(out) < frameSealed; i++ {
		var s [8]byte
		binary.LittleEndian.PutUint64(s[:], uint64(seed)<<16|uint64(i))
		h := sha256.Sum256(s[:])
		out = append(out, h[:]...)
	}
	return out[:frameSealed]
}

func (m *mitmDir) Write(p []byte) (int, error) {
	m.mu.Lock()
	defer m.mu.Unlock()
	if m.dead {
		return len(p), nil
	}
	if !m.armed {
		return m.handshakeWrite(p)
	}
	m.buf = append(m.buf, p...)
	for len(m.buf) >= frameSealed {
		f := append([]byte{}, m.buf[:frameSealed]...)
		m.buf = m.buf[frameSealed:]
		if err := m.frame(f); err != nil {
			return 0, err
		}
		if m.dead {
			break
		}
	}
	return len(p), nil
}

func (m *mitmDir) frame(f []byte) error {
	k := m.frameNo
	m.frameNo++
	m.record(f)
	tp := m.op
	if tp == nil || (k != tp.Frame && !(tp.Op == "swap" && k == tp.Frame+1)) {
		return m.emit(f)
	}
	m.applied = true
	switch tp.Op {
	case "flip":
		g := append([]byte{}, f...)
		g[(tp.Arg/8)%frameSealed] ^= 1 << uint(tp.Arg%8)
		return m.emit(g)
	case "drop":
		return nil
	case "dup":
		if err := m.emit(f); err != nil {
			return err
		}
		return m.emit(f)
	case "swap":
		if k == tp.Frame {
			m.held = f
			return nil
		}
		h := m.held
		m.held = nil
		if err := m.emit(f); err != nil {
			return err
		}
		return m.emit(h)
	case "trunc":
		return m.emit(f[:tp.Arg%frameSealed])
	case "cut":
		err := m.emit(f[:tp.Arg%frameSealed])
		m.dead = true
		m.out.Close()
		return err
	case "inject-random":
		if err := m.emit(forged(tp.Arg)); err != nil {
			return err
		}
		return m.emit(f)
	case "inject-zero":
		if err := m.emit(make([]byte, frameSealed)); err != nil {
			return err
		}
		return m.emit(f)
	case "inject-auth", "replay-earlier":
		// an earlier genuine frame of the same direction (the handshake's AuthSigMessage frame, nonce 0, or a data frame)
		m.logMu.Lock()
		idx := 0
		if tp.Op == "replay-earlier" {
			idx = k - tp.Arg%(k+1) // log[0] is the AuthSigMessage frame, log[i+1] data frame i, log[k+1] f itself
		}
		old := m.log[idx]
		m.logMu.Unlock()
		if err := m.emit(old); err != nil {
			return err
		}
		return m.emit(f)
	case "replay-other-insert", "replay-other-replace":
		// a genuine frame of the opposite direction: the one with the same counter if it has passed already, else
		// the latest (at least the peer's AuthSigMessage frame has: the handshake is over)
		m.peer.logMu.Lock()
		idx := k + 1
		if idx >= len(m.peer.log) {
			idx = len(m.peer.log) - 1
		}
		other := m.peer.log[idx]
		m.peer.logMu.Unlock()
		if err := m.emit(other); err != nil {
			return err
		}
		if tp.Op == "replay-other-insert" {
			return m.emit(f)
		}
		return nil
	}
	panic("unknown tamper op " + tp.Op)
}

// handshakeWrite: call 0 is the ephemeral key message (1 length byte, 2 header bytes, 32 key bytes), call 1 the sealed
// AuthSigMessage frame.
func (m *mitmDir) handshakeWrite(p []byte) (int, error) {
	n := m.hsN
	m.hsN++
	q := append([]byte{}, p...)
	if n == 1 && len(p) == frameSealed {
		m.record(p)
	}
	if h := m.hs; h != nil {
		switch {
		case h.Op == "eph-flip" && n == 0 && len(q) == 35:
			q[3+(h.Arg/8)%32] ^= 1 << uint(h.Arg%8)
			m.applied = true
		case h.Op == "eph-replace" && n == 0 && len(q) == 35:
			s := sha256.Sum256([]byte(fmt.Sprintf("eph-replace-%d", h.Arg)))
			copy(q[3:], s[:])
			m.applied = true
		case h.Op == "auth-flip" && n == 1:
			q[(h.Arg/8)%len(q)] ^= 1 << uint(h.Arg%8)
			m.applied = true
		case h.Op == "auth-reflect" && n == 1:
			// give the receiver its own AuthSigMessage frame back instead of the sender's
			m.peer.logMu.Lock()
			for len(m.peer.log) == 0 {
				m.peer.logCond.Wait()
			}
			q = append([]byte{}, m.peer.log[0]...)
			m.peer.logMu.Unlock()
			m.applied = true
		}
	}
	if err := m.emit(q); err != nil {
		return 0, err
	}
	return len(p), nil
}

func (m *mitmDir) Close() error {
	if !m.mu.TryLock() {
		// a Write is still in flight (a handshake that was given up): make it fail, then finish
		m.out.CloseWithError(io.ErrClosedPipe)
		m.mu.Lock()
	}
	defer m.mu.Unlock()
	if m.dead {
		return nil
	}
	m.dead = true
	if m.held != nil { // a swap whose second frame never came: nothing was manipulated
		m.emit(m.held)
		m.held = nil
		m.applied = false
	}
	if len(m.buf) > 0 {
		m.emit(m.buf)
	}
	return m.out.Close()
}

// ---------------------------------------------------------------- running a case

type scDirResult struct {
	got       []byte
	readErr   error
	writeErrs []string
	applied   bool // the planned manipulation was carried out
	tampered  bool // the forwarded stream differs from the stream sent
	limit     int  // leading frames that were forwarded exactly as sent
}

type scResult struct {
	harness   string
	pp        *productPanic
	errA      error
	errB      error
	okA, okB  bool
	pubOK     [2]bool
	hsApplied bool
	dir       [2]scDirResult
}

func runSC(p *scPlan) (res scResult) {
	var mu sync.Mutex
	abR, abW := io.Pipe() // A -> B
	baR, baW := io.Pipe() // B -> A
	mAB, mBA := newMitmDir(abW, p.Dir[0].Cuts), newMitmDir(baW, p.Dir[1].Cuts)
	mAB.peer, mBA.peer = mBA, mAB
	if p.HS != nil {
		if p.HS.Dir == 0 {
			mAB.hs = p.HS
		} else {
			mBA.hs = p.HS
		}
	}
	rawA := &halfConn{r: baR, w: mAB}
	rawB := &halfConn{r: abR, w: mBA}
	defer func() { rawA.Close(); rawB.Close() }()

	var sa, sb *conn.SecretConnection
	var wg sync.WaitGroup
	goGuard(&wg, &mu, &res.pp, func() {
		sa, res.errA = conn.MakeSecretConnection(rawA, key(p.KeyA))
		if res.errA != nil || sa == nil {
			rawA.Close() // what every caller does after a failed handshake; lets the peer's handshake end too
		}
	})
	goGuard(&wg, &mu, &res.pp, func() {
		sb, res.errB = conn.MakeSecretConnection(rawB, key(p.KeyB))
		if res.errB != nil || sb == nil {
			rawB.Close()
		}
	})
	wg.Wait()
	res.hsApplied = mAB.applied || mBA.applied
	if res.pp != nil {
		rawA.Close()
		rawB.Close()
		return
	}
	res.okA, res.okB = res.errA == nil && sa != nil, res.errB == nil && sb != nil
	if res.okA {
		res.pubOK[0] = samePub(sa.RemotePubKey(), key(p.KeyB).PublicKey)
	}
	if res.okB {
		res.pubOK[1] = samePub(sb.RemotePubKey(), key(p.KeyA).PublicKey)
	}
	if !res.okA || !res.okB || p.HS != nil {
		return
	}

	// ---- data phase
	for d, m := range []*mitmDir{mAB, mBA} {
		m.logMu.Lock()
		nlog := len(m.log)
		m.logMu.Unlock()
		if nlog != 1 {
			res.harness = fmt.Sprintf("expected exactly one sealed frame (AuthSigMessage) per direction during the handshake, saw %d", nlog)
			return
		}
		m.mu.Lock()
		m.armed = true
		m.op = p.Dir[d].Tamper
		m.mu.Unlock()
	}
	ends := [2]struct {
		sc  *conn.SecretConnection
		raw *halfConn
	}{{sa, rawA}, {sb, rawB}}
	for d := 0; d < 2; d++ {
		d := d
		dp := &p.Dir[d]
		from, to := ends[d], ends[1-d]
		dr := &res.dir[d]
		// writers of direction d; when all are done the outgoing half is closed
		var wwg sync.WaitGroup
		for w, sizes := range dp.writes() {
			w, sizes := w, sizes
			goGuard(&wwg, &mu, &res.pp, func() {
				off := 0
				for seq, n := range sizes {
					var data []byte
					if dp.Recs != nil {
						data = record(d, w, seq, n)
					} else {
						data = streamBytes(d, off, n)
					}
					off += n
					wn, err := from.sc.Write(data)
					if err != nil || wn != n {
						mu.Lock()
						dr.writeErrs = append(dr.writeErrs, fmt.Sprintf("writer %d write %d of %d bytes: n=%d err=%v", w, seq, n, wn, err))
						mu.Unlock()
						return
					}
				}
			})
		}
		wg.Add(1)
		go func() {
			defer wg.Done()
			wwg.Wait()
			from.raw.CloseWrite()
		}()
		// reader of direction d
		goGuard(&wg, &mu, &res.pp, func() {
			var got []byte
			var rerr error
			for i := 0; rerr == nil; i++ {
				buf := make([]byte, dp.Bufs[i%len(dp.Bufs)])
				var n int
				n, rerr = to.sc.Read(buf)
				if n < 0 || n > len(buf) {
					rerr = fmt.Errorf("harness-visible contract breach: Read returned n=%d for a buffer of %d", n, len(buf))
					break
				}
				got = append(got, buf[:n]...)
			}
			to.raw.CloseRead() // refuse the rest so that blocked writers end
			mu.Lock()
			dr.got, dr.readErr = got, rerr
			mu.Unlock()
		})
	}
	wg.Wait()
	for d, m := range []*mitmDir{mAB, mBA} {
		n, same := m.untouched()
		res.dir[d].applied, res.dir[d].tampered, res.dir[d].limit = m.applied, !same, n
	}
	sa.Close()
	sb.Close()
	return
}

// ---------------------------------------------------------------- oracle

// parseRecords checks that got is a prefix of a concatenation of whole records, each writer's in order, and returns
// the number of frames the delivered bytes occupy and whether every record was delivered completely.
func parseRecords(dir int, recs [][]int, got []byte) (frames int, complete bool, bad string) {
	next := make([]int, len(recs))
	pos := 0
	for pos < len(got) {
		rem := got[pos:]
		if len(rem) < recHeader {
			ok := false
			for w := range recs {
				if next[w] < len(recs[w]) && bytes.HasPrefix(record(dir, w, next[w], recs[w][next[w]])[:recHeader], rem) {
					ok = true
				}
			}
			if !ok {
				return frames, false, fmt.Sprintf("at offset %d: %x is not the beginning of any writer's next record", pos, rem)
			}
			return frames + 1, false, ""
		}
		w := int(rem[0]) - 0xA0
		if w < 0 || w >= len(recs) || next[w] >= len(recs[w]) {
			return frames, false, fmt.Sprintf("at offset %d: header %x names no writer with a record outstanding (a Write was split, repeated or corrupted)", pos, rem[:recHeader])
		}
		want := record(dir, w, next[w], recs[w][next[w]])
		avail := len(want)
		if avail > len(rem) {
			avail = len(rem)
		}
		if !bytes.Equal(rem[:avail], want[:avail]) {
			i := 0
			for i < avail && rem[i] == want[i] {
				i++
			}
			return frames, false, fmt.Sprintf("at offset %d: record %d of writer %d (%d bytes) differs at its byte %d (header read %x, expected %x): not the next record of that writer in one piece", pos, next[w], w, len(want), i, rem[:recHeader], want[:recHeader])
		}
		frames += framesOf(avail)
		if avail < len(want) {
			return frames, false, ""
		}
		next[w]++
		pos += len(want)
	}
	for w := range recs {
		if next[w] != len(recs[w]) {
			return frames, false, ""
		}
	}
	return frames, true, ""
}

// judgeDir applies the oracle to one direction and returns findings.
func judgeDir(d int, dp *dirPlan, dr *scDirResult) (out []finding) {
	name := []string{"A->B", "B->A"}[d]
	total := dp.total()
	add := func(key, format string, args ...interface{}) {
		out = append(out, finding{key, name + ": " + fmt.Sprintf(format, args...)})
	}
	// 1. everything delivered is genuine, in order, once
	frames, complete := 0, false
	if dp.Recs != nil {
		var bad string
		frames, complete, bad = parseRecords(d, dp.Recs, dr.got)
		if bad != "" {
			k := "sc.clean.stream-not-whole-writes-in-order"
			if dr.tampered && dp.Tamper != nil {
				k = "sc.tamper." + dp.Tamper.Op + ".delivered-not-genuine"
			}
			add(k, "%s", bad)
			return
		}
	} else {
		n := len(dr.got)
		if n > total {
			n = total
		}
		want := streamBytes(d, 0, n)
		if !bytes.Equal(dr.got[:n], want) || len(dr.got) > total {
			i := 0
			for i < n && dr.got[i] == want[i] {
				i++
			}
			k := "sc.clean.bytes-differ"
			if dr.tampered && dp.Tamper != nil {
				k = "sc.tamper." + dp.Tamper.Op + ".delivered-not-genuine"
			}
			add(k, "%d bytes written, %d delivered, first difference at offset %d", total, len(dr.got), i)
			return
		}
		complete = len(dr.got) == total
		// frames occupied by the delivered prefix: every Write starts a new frame
		left := len(dr.got)
		for _, c := range dp.Chunks {
			if left <= 0 {
				break
			}
			if c > left {
				c = left
			}
			frames += framesOf(c)
			left -= c
		}
	}
	if !dr.tampered || dp.Tamper == nil {
		// 2. clean direction: complete, ended by io.EOF, no write failed
		if !complete {
			add("sc.clean.incomplete", "%d bytes written but only %d delivered before the reader got %v", total, len(dr.got), dr.readErr)
		} else if dr.readErr != io.EOF {
			add("sc.clean.spurious-read-error", "all %d bytes delivered but the reader then got %v instead of io.EOF after the writer was closed", total, dr.readErr)
		}
		if len(dr.writeErrs) > 0 {
			add("sc.clean.write-failed", "%v", dr.writeErrs)
		}
		return
	}
	// 3. manipulated direction: nothing at or behind the first affected frame is delivered
	if frames > dr.limit {
		add("sc.tamper."+dp.Tamper.Op+".undetected", "%s at frame %d of %d: %d bytes spanning %d frames were delivered although only the first %d frames reached the reader as they were sent; reader ended with %v",
			dp.Tamper.Op, dp.Tamper.Frame, dp.nframes(), len(dr.got), frames, dr.limit, dr.readErr)
	}
	if dr.readErr == nil {
		add("sc.tamper."+dp.Tamper.Op+".no-error", "reader ended without an error")
	}
	return
}

func judgeSC(p *scPlan, res *scResult) (out []finding) {
	if p.HS == nil {
		if !res.okA || !res.okB {
			return []finding{{"sc.honest-handshake-failed", fmt.Sprintf("handshake between two honest ends over an untouched link failed: A: %v, B: %v", res.errA, res.errB)}}
		}
	} else if res.hsApplied {
		// the receiver of a manipulated handshake message must fail; a changed ephemeral key makes both ends derive
		// different secrets, so both must fail
		mustFail := [2]bool{}
		mustFail[1-p.HS.Dir] = true
		if strings.HasPrefix(p.HS.Op, "eph-") {
			mustFail = [2]bool{true, true}
		}
		for side, ok := range []bool{res.okA, res.okB} {
			if ok && mustFail[side] {
				out = append(out, finding{"sc.handshake-tamper." + p.HS.Op + ".accepted", fmt.Sprintf("side %s completed the handshake although a handshake message it received (or the key exchange) was manipulated", []string{"A", "B"}[side])})
			}
		}
	}
	for side, ok := range []bool{res.okA, res.okB} {
		if ok && !res.pubOK[side] {
			out = append(out, finding{"sc.remote-pubkey-wrong", fmt.Sprintf("side %s completed the handshake but RemotePubKey is not the peer's key", []string{"A", "B"}[side])})
		}
	}
	if len(out) > 0 || p.HS != nil {
		return
	}
	for d := 0; d < 2; d++ {
		out = append(out, judgeDir(d, &p.Dir[d], &res.dir[d])...)
	}
	return
}

// ---------------------------------------------------------------- generator

var (
	chunkSizes = []int{0, 1, 2, 100, 1023, 1024, 1025, 2047, 2048, 2049, 3000, 5000}
	bigChunks  = []int{1024, 4096, 10000, 65536, 70000}
	recSizes   = []int{8, 9, 100, 1023, 1024, 1025, 2048, 2049, 3000, 5000}
	bufSizes   = []int{0, 1, 2, 10, 1023, 1024, 1025, 4096, 70000}
	cutSizes   = []int{0, 0, 1, 7, 500, 1043, 1044, 1045, 3000}
	dataOps    = []string{"flip", "flip", "drop", "dup", "swap", "trunc", "cut", "inject-random", "inject-zero", "inject-auth", "replay-earlier", "replay-other-insert", "replay-other-replace"}
	hsOps      = []string{"eph-flip", "eph-replace", "auth-flip", "auth-reflect"}
)

func drawDir(t *rapid.T, label string, maxBytes int) dirPlan {
	var d dirPlan
	shape := rapid.SampledFrom([]string{"empty", "small", "small", "small", "records", "records", "medium", "large"}).Draw(t, label+"shape")
	switch shape {
	case "empty":
		d.Chunks = []int{}
		if rapid.Bool().Draw(t, label+"zero") {
			d.Chunks = []int{0, 0}
		}
	case "small":
		n := rapid.IntRange(1, 8).Draw(t, label+"nw")
		for i := 0; i < n; i++ {
			d.Chunks = append(d.Chunks, rapid.SampledFrom(chunkSizes).Draw(t, label+"chunk"))
		}
	case "medium":
		n := rapid.IntRange(5, 30).Draw(t, label+"nw")
		for i := 0; i < n; i++ {
			d.Chunks = append(d.Chunks, rapid.SampledFrom(chunkSizes).Draw(t, label+"chunk"))
		}
	case "large":
		left := rapid.IntRange(20000, maxBytes).Draw(t, label+"total")
		for left > 0 {
			c := rapid.SampledFrom(bigChunks).Draw(t, label+"chunk")
			if c > left {
				c = left
			}
			d.Chunks = append(d.Chunks, c)
			left -= c
		}
	case "records":
		nw := rapid.IntRange(2, 3).Draw(t, label+"writers")
		d.Recs = make([][]int, nw)
		for w := range d.Recs {
			n := rapid.IntRange(1, 12).Draw(t, label+"nrec")
			for i := 0; i < n; i++ {
				d.Recs[w] = append(d.Recs[w], rapid.SampledFrom(recSizes).Draw(t, label+"rec"))
			}
		}
	}
	big := d.total() > 20000
	nb := rapid.IntRange(1, 3).Draw(t, label+"nbuf")
	positive := false
	for i := 0; i < nb; i++ {
		b := rapid.SampledFrom(bufSizes).Draw(t, label+"buf")
		if big && b < 10 {
			b = 1024
		}
		positive = positive || b > 0
		d.Bufs = append(d.Bufs, b)
	}
	if !positive {
		d.Bufs = append(d.Bufs, 1024)
	}
	nc := rapid.IntRange(1, 3).Draw(t, label+"ncut")
	for i := 0; i < nc; i++ {
		c := rapid.SampledFrom(cutSizes).Draw(t, label+"cut")
		if big && c > 0 && c < 500 {
			c = 500
		}
		d.Cuts = append(d.Cuts, c)
	}
	return d
}

func drawTamper(t *rapid.T, label string, d *dirPlan) *tamper {
	nf := d.nframes()
	if nf == 0 {
		return nil
	}
	op := rapid.SampledFrom(dataOps).Draw(t, label+"op")
	if op == "swap" && nf < 2 {
		op = "drop"
	}
	tp := &tamper{Op: op}
	hi := nf - 1
	if op == "swap" {
		hi = nf - 2
	}
	// first, last and any frame
	tp.Frame = rapid.SampledFrom([]int{0, hi, rapid.IntRange(0, hi).Draw(t, label+"anyframe")}).Draw(t, label+"frame")
	switch op {
	case "flip":
		tp.Arg = rapid.IntRange(0, frameSealed*8-1).Draw(t, label+"bit")
	case "trunc", "cut":
		tp.Arg = rapid.SampledFrom([]int{0, 1, 16, 1043, rapid.IntRange(0, frameSealed-1).Draw(t, label+"anykeep")}).Draw(t, label+"keep")
	case "replay-earlier":
		tp.Arg = rapid.IntRange(0, 5).Draw(t, label+"back")
	case "inject-random":
		tp.Arg = rapid.IntRange(0, 1<<20).Draw(t, label+"seed")
	}
	return tp
}

func drawSCPlan(t *rapid.T) *scPlan {
	p := &scPlan{KeyA: rapid.IntRange(0, 7).Draw(t, "keyA")}
	p.KeyB = (p.KeyA + rapid.IntRange(1, 7).Draw(t, "keyB")) % 8
	maxBytes := ev.Scale("MAXBYTES", 200000)
	p.Dir[0] = drawDir(t, "ab.", maxBytes)
	p.Dir[1] = drawDir(t, "ba.", maxBytes)
	switch rapid.SampledFrom([]string{"clean", "tamper", "tamper", "tamper", "handshake"}).Draw(t, "mode") {
	case "tamper":
		which := rapid.IntRange(0, 2).Draw(t, "tamperdir") // 0, 1, or both directions
		if which != 1 {
			p.Dir[0].Tamper = drawTamper(t, "ab.", &p.Dir[0])
		}
		if which != 0 {
			p.Dir[1].Tamper = drawTamper(t, "ba.", &p.Dir[1])
		}
	case "handshake":
		p.HS = &hsTamper{Dir: rapid.IntRange(0, 1).Draw(t, "hsdir"), Op: rapid.SampledFrom(hsOps).Draw(t, "hsop"), Arg: rapid.IntRange(0, frameSealed*8-1).Draw(t, "hsarg")}
	}
	return p
}

// nontrivialSC: a stream spans >= 3 frames and has a Write that straddles a frame boundary (handshake cases: a
// handshake message was manipulated).
func nontrivialSC(p *scPlan) bool {
	for d := range p.Dir {
		if p.Dir[d].nframes() < 3 {
			continue
		}
		for _, w := range p.Dir[d].writes() {
			for _, c := range w {
				if c > frameData {
					return true
				}
			}
		}
	}
	return false
}

func scClasses(p *scPlan, res *scResult) []string {
	cl := []string{"sc"}
	switch {
	case p.HS != nil:
		cl = append(cl, "sc.handshake-tamper."+p.HS.Op)
		if !res.hsApplied {
			cl = append(cl, "sc.handshake-tamper.not-applied")
		}
	case p.Dir[0].Tamper == nil && p.Dir[1].Tamper == nil:
		cl = append(cl, "sc.clean")
	}
	for d := range p.Dir {
		dp := &p.Dir[d]
		if dp.Tamper != nil && p.HS == nil {
			cl = append(cl, "sc.tamper."+dp.Tamper.Op)
			if !res.dir[d].tampered {
				cl = append(cl, "sc.tamper.without-effect")
			}
			switch dp.Tamper.Frame {
			case 0:
				cl = append(cl, "sc.tamper.at-first-frame")
			case dp.nframes() - 1:
				cl = append(cl, "sc.tamper.at-last-frame")
			}
		}
		if dp.Recs != nil {
			cl = append(cl, fmt.Sprintf("sc.concurrent-writers=%d", len(dp.Recs)))
		}
		switch n := dp.total(); {
		case n == 0:
			cl = append(cl, "sc.stream.empty")
		case n <= 3*frameData:
			cl = append(cl, "sc.stream.upto3frames")
		case n <= 20000:
			cl = append(cl, "sc.stream.upto20KB")
		default:
			cl = append(cl, "sc.stream.upto200KB")
		}
	}
	return cl
}

func scProperty(t *rapid.T) {
	p := drawSCPlan(t)
	text := p.String()
	res := runSC(p)
	if res.pp != nil {
		ev.Violation(t, "panic:"+res.pp.frame, text, "panic in product code: %s", res.pp.msg)
		return
	}
	if res.harness != "" {
		t.Fatalf("harness: %s\ncase: %s", res.harness, text)
	}
	nt := nontrivialSC(p) || res.hsApplied
	cl := scClasses(p, &res)
	ev.Case(nt, text, cl...)
	sc := "sc.clean"
	if p.HS != nil {
		sc = "sc.handshake-tamper"
	} else if p.Dir[0].Tamper != nil || p.Dir[1].Tamper != nil {
		sc = "sc.tamper"
	}
	if nt && len(text) < 600 && ev.WantSample(sc) {
		ev.Sample(sc, text)
	}
	for _, f := range judgeSC(p, &res) {
		ev.Violation(t, f.key, text, "%s", f.msg)
	}
}

func TestSecretConn(t *testing.T) { rapid.Check(t, scProperty) }

// TestSecretConnRace is TestSecretConn built with the race detector (thorough tier).
func TestSecretConnRace(t *testing.T) { rapid.Check(t, scProperty) }

// ---------------------------------------------------------------- exhaustive: every frame x every operation on small streams

// TestSecretConnExhaustive enumerates, for a few small chunkings, every data frame x every manipulation (flip: every
// bit of the sealed frame in the thorough tier; in the quick tier every 8th byte with a bit chosen from the seed), in
// the A->B direction with clean traffic flowing B->A, plus every handshake manipulation at every byte (quick: every
// 8th).  The enumeration is split over the shards.
func TestSecretConnExhaustive(t *testing.T) {
	seed := int(ev.Seed() & 0xffff)
	step := 8
	if ev.Thorough() {
		step = 1
	}
	chunkings := [][]int{{1}, {1024}, {1025}, {3000}, {1023, 1, 1024, 2}, {0, 2049, 0, 1}}
	back := dirPlan{Chunks: []int{5, 1025}, Bufs: []int{1024}, Cuts: []int{0}}
	n, idx := 0, 0
	shard, shards := shardInfo()
	run := func(p *scPlan) {
		idx++
		if idx%shards != shard%shards {
			return
		}
		res := runSC(p)
		text := p.String()
		if res.pp != nil {
			ev.Violation(t, "panic:"+res.pp.frame, text, "panic in product code: %s", res.pp.msg)
			return
		}
		if res.harness != "" {
			t.Fatalf("harness: %s\ncase: %s", res.harness, text)
		}
		ev.Case(true, text, "sc.exhaustive")
		n++
		for _, f := range judgeSC(p, &res) {
			ev.Violation(t, f.key, text, "%s", f.msg)
		}
		if p.HS == nil && p.Dir[0].Tamper != nil && !(res.dir[0].applied && res.dir[0].tampered) {
			t.Fatalf("harness: manipulation was not applied in %s", text)
		}
		if p.HS != nil && !res.hsApplied {
			t.Fatalf("harness: handshake manipulation was not applied in %s", text)
		}
	}
	for ci, chunks := range chunkings {
		fwd := dirPlan{Chunks: chunks, Bufs: []int{[]int{1, 1024, 4096, 10, 1025, 2}[ci]}, Cuts: []int{0}}
		nf := fwd.nframes()
		for k := 0; k < nf; k++ {
			for _, op := range dataOps[1:] {
				if op == "swap" && k+1 >= nf {
					continue
				}
				args := []int{0}
				switch op {
				case "flip":
					args = args[:0]
					for b := (seed + k) % step; b < frameSealed; b += step {
						if ev.Thorough() {
							for bit := 0; bit < 8; bit++ {
								args = append(args, b*8+bit)
							}
						} else {
							args = append(args, b*8+(seed+b)%8)
						}
					}
				case "trunc", "cut":
					args = []int{0, 1, 15, 16, 17, 522, 1043}
				case "replay-earlier":
					args = []int{0, 1, 2}
				case "inject-random":
					args = []int{seed, seed + 1}
				}
				for _, a := range args {
					f := fwd
					f.Tamper = &tamper{Op: op, Frame: k, Arg: a}
					run(&scPlan{KeyA: ci, KeyB: ci + 1, Dir: [2]dirPlan{f, back}})
				}
			}
		}
	}
	for dir := 0; dir < 2; dir++ {
		for b := seed % step; b < 32; b += step {
			run(&scPlan{KeyA: 2, KeyB: 5, Dir: [2]dirPlan{back, back}, HS: &hsTamper{Dir: dir, Op: "eph-flip", Arg: b*8 + (seed+b)%8}})
		}
		for b := seed % step; b < frameSealed; b += step {
			run(&scPlan{KeyA: 2, KeyB: 5, Dir: [2]dirPlan{back, back}, HS: &hsTamper{Dir: dir, Op: "auth-flip", Arg: b*8 + (seed+b)%8}})
		}
		run(&scPlan{KeyA: 2, KeyB: 5, Dir: [2]dirPlan{back, back}, HS: &hsTamper{Dir: dir, Op: "auth-reflect"}})
		run(&scPlan{KeyA: 2, KeyB: 5, Dir: [2]dirPlan{back, back}, HS: &hsTamper{Dir: dir, Op: "eph-replace", Arg: seed}})
	}
	ev.Exhaustive()
	ev.Note("sc_exhaustive_sessions", n)
}
