package c20

// lib/p2p transport.go upgrade + key.go: what Accept/Dial run on every raw connection.  The node ends up with a peer
// only if the key authenticated by the secret connection is the identity the peer reports in its NodeInfo and, for an
// outgoing connection, the identity that was dialed.  A party holding key E can therefore never be taken for V.

import (
	"fmt"
	"net"
	"sync"
	"testing"
	"time"

	"github.com/kardiachain/go-kardia/lib/p2p"
	"github.com/kardiachain/go-kardia/lib/p2p/conn"
	"pgregory.net/rapid"

	"verifharness/internal/ev"
)

func nodeInfo(id p2p.ID, moniker string) p2p.DefaultNodeInfo {
	return p2p.DefaultNodeInfo{
		ProtocolVersion: p2p.NewProtocolVersion(1, 1, 0),
		DefaultNodeID:   id,
		ListenAddr:      "127.0.0.1:26656",
		Network:         "verif-c20",
		Version:         "1.0.0",
		Channels:        []byte{0x20, 0x40},
		Moniker:         moniker,
	}
}

func newTransport(keyIdx int, claimed p2p.ID, name string) *p2p.MultiplexTransport {
	mt := p2p.NewMultiplexTransport(nodeInfo(claimed, name), p2p.NodeKey{PrivKey: key(keyIdx)}, conn.DefaulKAIConnConfig())
	mt.VerifSetHandshakeTimeout(time.Hour)
	return mt
}

func TestTransportUpgrade(t *testing.T) {
	rapid.Check(t, func(t *rapid.T) {
		T := rapid.IntRange(0, 7).Draw(t, "T")                    // the honest node
		V := (T + rapid.IntRange(1, 7).Draw(t, "V")) % 8          // the identity it wants / is told
		peerKey := (T + rapid.IntRange(1, 7).Draw(t, "peer")) % 8 // the key the peer really holds
		claim := rapid.SampledFrom([]string{"own", "victim"}).Draw(t, "claim")
		dialed := rapid.Bool().Draw(t, "dialed")
		idOf := func(i int) p2p.ID { return p2p.PubKeyToID(key(i).PublicKey) }
		claimed := idOf(peerKey)
		if claim == "victim" {
			claimed = idOf(V)
		}
		text := fmt.Sprintf("transport T=key%d dialed=%v wants=key%d peer-holds=key%d peer-claims=%s", T, dialed, V, peerKey, map[bool]string{true: "its own id", false: "the victim's id"}[claimed == idOf(peerKey)])
		genuine := peerKey == V // the peer is who it says / who was dialed
		class := "transport.impostor"
		if genuine || (!dialed && claimed == idOf(peerKey)) {
			class = "transport.honest-peer"
		}
		ev.Case(class == "transport.impostor", text, "transport", class)
		if ev.WantSample("transport") {
			ev.Sample("transport", text)
		}

		// an in-memory connection (deadlines supported); the transport never looks at the addresses during upgrade
		c1, c2 := net.Pipe()
		defer c1.Close()
		defer c2.Close()
		mtT := newTransport(T, idOf(T), "honest")
		mtP := newTransport(peerKey, claimed, "peer")
		var dialAddr *p2p.NetAddress
		if dialed {
			dialAddr = p2p.NewNetAddressIPPort(net.IPv4(127, 0, 0, 1), 26656)
			dialAddr.ID = idOf(V)
		}
		var mu sync.Mutex
		var pp *productPanic
		var wg sync.WaitGroup
		var sc *conn.SecretConnection
		var ni p2p.NodeInfo
		var errT error
		goGuard(&wg, &mu, &pp, func() {
			sc, ni, errT = mtT.VerifUpgrade(c1, dialAddr)
			if errT != nil {
				c1.Close()
			}
		})
		goGuard(&wg, &mu, &pp, func() {
			if _, _, err := mtP.VerifUpgrade(c2, nil); err != nil {
				c2.Close()
			}
		})
		wg.Wait()
		if pp != nil {
			ev.Violation(t, "panic:"+pp.frame, text, "panic in product code: %s", pp.msg)
			return
		}
		if errT == nil {
			connID := p2p.PubKeyToID(sc.RemotePubKey())
			switch {
			case connID != idOf(peerKey):
				ev.Violation(t, "transport.authenticated-key-wrong", text, "upgrade succeeded with RemotePubKey id %s, the peer holds %s", connID, idOf(peerKey))
			case ni.ID() != connID:
				ev.Violation(t, "transport.nodeinfo-id-not-bound-to-key", text, "upgrade succeeded: peer authenticated as %s but is registered under the NodeInfo id %s", connID, ni.ID())
			case dialed && connID != idOf(V):
				ev.Violation(t, "transport.dialed-id-not-enforced", text, "dialed %s, upgrade succeeded with a peer authenticated as %s", idOf(V), connID)
			}
			return
		}
		// completeness: an honest peer reporting its own identity (and being the one dialed) is accepted
		if claimed == idOf(peerKey) && (!dialed || genuine) {
			ev.Violation(t, "transport.honest-upgrade-refused", text, "upgrade with an honest peer failed: %v", errT)
		}
	})
}
