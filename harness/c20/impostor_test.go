package c20

// Active impostor: E completes the ephemeral exchange itself (independent implementation in ref_test.go) against an
// honest end H running the real MakeSecretConnection, and then claims the public key of a victim V whose private key
// it does not use for the session's challenge.  H must return an error.  Controls with a genuine key must succeed,
// H must learn exactly that key, and data must flow both ways between the real and the independent implementation.

import (
	"bytes"
	"crypto/ecdsa"
	"crypto/sha256"
	"fmt"
	"io"
	"sync"
	"sync/atomic"
	"testing"

	"github.com/kardiachain/go-kardia/lib/p2p/conn"
	"pgregory.net/rapid"

	"verifharness/internal/ev"
)

var impostorVariants = []string{
	"control.genuine-key",            // E really is V (independent implementation of an honest peer): must succeed
	"sig-by-other-key",               // AuthSig{V.pub, Sign(challenge, E.priv)}
	"sig-over-other-challenge",       // AuthSig{V.pub, Sign(challenge', V.priv)}: a signature V made over something else
	"replayed-auth-parallel-session", // V's genuine AuthSigMessage captured in a parallel honest session V<->E
	"random-sig",                     // AuthSig{V.pub, random bytes}
	"random-auth-bytes",              // a correctly sealed frame with random bytes instead of an AuthSigMessage
	"random-frame",                   // 1044 random bytes instead of a sealed frame
	"wrong-key-frame",                // AuthSig{V.pub, Sign(challenge, V.priv)} sealed with the key of the other direction
	"reflection",                     // E sends H's own handshake bytes back
	"low-order-eph.claim-victim",     // small-order ephemeral key, AuthSig{V.pub, Sign(challenge, E.priv)}
	"low-order-eph.own-identity",     // small-order ephemeral key and a genuine AuthSig of E's own key: the session key is public
}

type impPlan struct {
	Variant string
	H, V, E int    // key indices: honest end, victim, impostor's own key
	EphSeed int    // E's ephemeral scalar
	Arg     int    // variant parameter
	Rand    []byte // drawn random bytes
	DataE   []int  // control: chunk sizes E sends after the handshake
	DataH   []int  // control: chunk sizes H sends
}

func (p *impPlan) String() string {
	return fmt.Sprintf("impostor variant=%s H=key%d V=key%d E=key%d eph=%d arg=%d rand=%x dataE=(%s) dataH=(%s)", p.Variant, p.H, p.V, p.E, p.EphSeed, p.Arg, p.Rand, joinInts(p.DataE), joinInts(p.DataH))
}

type impResult struct {
	pp        *productPanic
	hErr      error
	hOK       bool
	hRemote   ecdsa.PublicKey
	hGot      []byte // control: what H read
	hReadErr  error
	hWriteErr error
	eGot      []byte // control: what E decrypted
	eErr      error  // E's own failure (tolerated in attack variants: H may hang up at any time)
	hAuthOK   bool   // E verified H's AuthSigMessage against H's true key and the challenge
	hAuthSeen bool
	harness   string
	skipped   bool // the attack could not be mounted (nothing captured in the parallel session)
}

func ephScalar(seed int) (out [32]byte) {
	return sha256.Sum256([]byte(fmt.Sprintf("verif-c20-eph-%d", seed)))
}

func pipePair() (*halfConn, *halfConn) {
	abR, abW := io.Pipe()
	baR, baW := io.Pipe()
	return &halfConn{r: baR, w: abW}, &halfConn{r: abR, w: baW}
}

// captureAuth runs a complete honest session between the real code (as V) and the independent implementation (as E,
// under E's own key) and returns V's AuthSigMessage as V sent it.
func captureAuth(p *impPlan, res *impResult, mu *sync.Mutex) []byte {
	cv, ce := pipePair()
	defer func() { cv.Close(); ce.Close() }()
	var wg sync.WaitGroup
	var vErr error
	var vsc *conn.SecretConnection
	goGuard(&wg, mu, &res.pp, func() {
		vsc, vErr = conn.MakeSecretConnection(cv, key(p.V))
		if vErr != nil {
			cv.Close()
		}
	})
	s, err := refStart(ce, ephScalar(p.EphSeed+1000), nil)
	var raw []byte
	if err == nil {
		_, err = ce.Write(s.seal(authMessage(pubBytes(key(p.E)), mustSign(s.challenge[:], key(p.E)))))
	}
	if err == nil {
		raw, _, _, err = s.readAuth()
	}
	if err != nil {
		ce.Close()
	}
	wg.Wait()
	if res.pp != nil {
		return nil
	}
	if err != nil || vErr != nil || vsc == nil || !samePub(vsc.RemotePubKey(), key(p.E).PublicKey) {
		// An honest session between the real code and the independent implementation did not complete: the run
		// is inconclusive (reported when the test ends).  V sends its AuthSigMessage before it judges ours, so the
		// attacker may hold it all the same and the attack goes on with it.
		atomic.AddInt64(&controlFailed, 1)
		controlDetail.Store(fmt.Sprintf("parallel honest session V<->E: E: %v, V: %v, case: %s", err, vErr, p.String()))
	}
	return raw
}

func runImpostor(p *impPlan) (res impResult) {
	var mu sync.Mutex
	var replayed []byte
	if p.Variant == "replayed-auth-parallel-session" {
		replayed = captureAuth(p, &res, &mu)
		if res.pp != nil || replayed == nil {
			res.skipped = replayed == nil
			return
		}
	}
	ch, ce := pipePair()
	defer func() { ch.Close(); ce.Close() }()
	control := p.Variant == "control.genuine-key"

	totalE, totalH := 0, 0
	for _, n := range p.DataE {
		totalE += n
	}
	for _, n := range p.DataH {
		totalH += n
	}

	var wg sync.WaitGroup
	goGuard(&wg, &mu, &res.pp, func() {
		sc, err := conn.MakeSecretConnection(ch, key(p.H))
		res.hErr, res.hOK = err, err == nil && sc != nil
		if !res.hOK {
			ch.Close()
			return
		}
		res.hRemote = sc.RemotePubKey()
		if !control {
			ch.Close()
			return
		}
		// control: exchange data with the independent implementation
		var iwg sync.WaitGroup
		iwg.Add(1)
		go func() {
			defer iwg.Done()
			off := 0
			for _, n := range p.DataH {
				if _, err := sc.Write(streamBytes(1, off, n)); err != nil {
					res.hWriteErr = err
					return
				}
				off += n
			}
		}()
		buf := make([]byte, 700)
		for len(res.hGot) < totalE {
			n, err := sc.Read(buf)
			res.hGot = append(res.hGot, buf[:n]...)
			if err != nil {
				res.hReadErr = err
				ch.CloseRead() // refuse the rest, so that a peer still writing to us ends too
				break
			}
		}
		iwg.Wait()
	})

	// ---- the impostor (sequential: H writes and reads in tandem, so each of our steps finds its counterpart)
	func() {
		eph := ephScalar(p.EphSeed)
		if p.Variant == "reflection" {
			first := make([]byte, 35)
			if _, res.eErr = io.ReadFull(ce, first); res.eErr != nil {
				return
			}
			if _, res.eErr = ce.Write(first); res.eErr != nil {
				return
			}
			frame := make([]byte, frameSealed)
			if _, res.eErr = io.ReadFull(ce, frame); res.eErr != nil {
				return
			}
			_, res.eErr = ce.Write(frame)
			return
		}
		var sendPub *[32]byte
		if p.Variant == "low-order-eph.claim-victim" || p.Variant == "low-order-eph.own-identity" {
			lo := lowOrder()
			if len(lo) == 0 {
				res.harness = "no usable low-order point"
				return
			}
			pt := lo[p.Arg%len(lo)]
			sendPub = &pt
		}
		s, err := refStart(ce, eph, sendPub)
		if err != nil {
			res.eErr = err
			return
		}
		vPub := pubBytes(key(p.V))
		var frame []byte
		switch p.Variant {
		case "control.genuine-key":
			frame = s.seal(authMessage(vPub, mustSign(s.challenge[:], key(p.V))))
		case "sig-by-other-key", "low-order-eph.claim-victim":
			frame = s.seal(authMessage(vPub, mustSign(s.challenge[:], key(p.E))))
		case "low-order-eph.own-identity":
			frame = s.seal(authMessage(pubBytes(key(p.E)), mustSign(s.challenge[:], key(p.E))))
		case "sig-over-other-challenge":
			other := s.challenge
			switch p.Arg % 3 {
			case 0:
				other[(p.Arg/3)%32] ^= 1 << uint(p.Arg%8)
			case 1:
				other = sha256.Sum256(s.challenge[:])
			case 2:
				copy(other[:], bytes.Repeat([]byte{byte(p.Arg)}, 32))
			}
			frame = s.seal(authMessage(vPub, mustSign(other[:], key(p.V))))
		case "replayed-auth-parallel-session":
			frame = s.seal(replayed)
		case "random-sig":
			frame = s.seal(authMessage(vPub, p.Rand))
		case "random-auth-bytes":
			frame = s.seal(p.Rand)
		case "random-frame":
			frame = forged(p.Arg)
		case "wrong-key-frame":
			s.sendAead, s.recvAead = s.recvAead, s.sendAead
			frame = s.seal(authMessage(vPub, mustSign(s.challenge[:], key(p.V))))
			s.sendAead, s.recvAead = s.recvAead, s.sendAead
		default:
			panic("unknown impostor variant " + p.Variant)
		}
		if _, err := ce.Write(frame); err != nil {
			res.eErr = err
			return
		}
		// H's own AuthSigMessage, seen from an independent implementation
		_, hp, hs, err := s.readAuth()
		if err != nil {
			res.eErr = err
			return
		}
		res.hAuthSeen = true
		if k, err := cryptoUnmarshal(hp); err == nil && samePub(*k, key(p.H).PublicKey) {
			res.hAuthOK = verifySig(key(p.H), s.challenge[:], hs)
		}
		if !control {
			return
		}
		off := 0
		for _, n := range p.DataE {
			if err := s.write(streamBytes(0, off, n)); err != nil {
				res.eErr = err
				return
			}
			off += n
		}
		for len(res.eGot) < totalH {
			chunk, err := s.readFrame()
			if err != nil {
				res.eErr = err
				return
			}
			res.eGot = append(res.eGot, chunk...)
		}
	}()
	if !control || res.eErr != nil {
		ce.Close() // the impostor hangs up: a handshake still waiting for bytes ends with an error
	}
	wg.Wait()
	return
}

func judgeImpostor(t ev.TB, p *impPlan, res *impResult) {
	text := p.String()
	if res.pp != nil {
		ev.Violation(t, "panic:"+res.pp.frame, text, "panic in product code: %s", res.pp.msg)
		return
	}
	if res.harness != "" {
		t.Fatalf("harness: %s\ncase: %s", res.harness, text)
	}
	if res.skipped {
		return
	}
	if p.Variant == "control.genuine-key" {
		// A harness that cannot complete an honest handshake proves nothing about impostors.  That is not a violation
		// (the property does not promise interoperability with another implementation) but it makes the run
		// inconclusive; it is reported when the test ends so that the search for accepted impostors goes on.
		if !res.hOK || res.eErr != nil {
			atomic.AddInt64(&controlFailed, 1)
			controlDetail.Store(fmt.Sprintf("H: %v, ref: %v, case: %s", res.hErr, res.eErr, text))
			return
		}
		if !samePub(res.hRemote, key(p.V).PublicKey) {
			ev.Violation(t, "sc.remote-pubkey-wrong", text, "honest peer authenticated with key%d but RemotePubKey differs", p.V)
		}
		// H has just accepted our signature over the challenge as we computed it, so that is H's challenge too: its
		// own AuthSigMessage must carry its key and a signature over the same value
		if !res.hAuthOK {
			ev.Violation(t, "sc.auth-message-not-verifiable", text, "the real code accepted a signature over the session challenge but its own AuthSigMessage does not carry its public key with a signature over that challenge")
		}
		totalE, totalH := 0, 0
		for _, n := range p.DataE {
			totalE += n
		}
		for _, n := range p.DataH {
			totalH += n
		}
		if !bytes.Equal(res.hGot, streamBytes(0, 0, totalE)) || res.hReadErr != nil {
			ev.Violation(t, "sc.interop.read-differs", text, "real code read %d bytes (err %v) of the %d an independent implementation sent, or they differ", len(res.hGot), res.hReadErr, totalE)
		}
		if !bytes.Equal(res.eGot, streamBytes(1, 0, totalH)) || res.hWriteErr != nil {
			ev.Violation(t, "sc.interop.write-differs", text, "an independent implementation decrypted %d bytes of the %d the real code wrote (write err %v), or they differ", len(res.eGot), totalH, res.hWriteErr)
		}
		return
	}
	if res.hOK {
		who := "another key"
		if samePub(res.hRemote, key(p.V).PublicKey) {
			who = "the victim's key"
		}
		key := "sc.impostor." + p.Variant + ".accepted"
		ev.Violation(t, key, text, "the honest end completed the handshake (RemotePubKey = %s) with a peer that %s", who, map[bool]string{true: "offered a small-order ephemeral key (shared secret all zero)", false: "never proved possession of the claimed key"}[p.Variant == "low-order-eph.own-identity"])
	}
}

func drawImpostor(t *rapid.T) *impPlan {
	p := &impPlan{Variant: rapid.SampledFrom(impostorVariants).Draw(t, "variant")}
	p.H = rapid.IntRange(0, 7).Draw(t, "H")
	p.V = (p.H + rapid.IntRange(1, 7).Draw(t, "V")) % 8
	p.E = p.V
	for p.E == p.V { // the impostor's own key is anybody's but the victim's (it may be H's: irrelevant)
		p.E = rapid.IntRange(0, 7).Draw(t, "E")
	}
	p.EphSeed = rapid.IntRange(0, 1<<30).Draw(t, "eph")
	p.Arg = rapid.IntRange(0, 1<<16).Draw(t, "arg")
	switch p.Variant {
	case "random-sig":
		n := rapid.SampledFrom([]int{0, 1, 32, 64, 65, 65, 65, 66, 130}).Draw(t, "siglen")
		p.Rand = rapid.SliceOfN(rapid.Byte(), n, n).Draw(t, "sig")
	case "random-auth-bytes":
		p.Rand = rapid.SliceOfN(rapid.Byte(), 0, 300).Draw(t, "auth")
	case "control.genuine-key":
		p.DataE = rapid.SliceOfN(rapid.SampledFrom([]int{1, 100, 1023, 1024, 1025, 3000}), 0, 4).Draw(t, "dataE")
		p.DataH = rapid.SliceOfN(rapid.SampledFrom([]int{1, 100, 1023, 1024, 1025, 3000}), 0, 4).Draw(t, "dataH")
	}
	return p
}

var (
	controlFailed int64
	controlDetail atomic.Value
)

func TestImpostor(t *testing.T) {
	defer func() {
		if n := atomic.LoadInt64(&controlFailed); n > 0 && !t.Failed() {
			t.Fatalf("harness: inconclusive: the independent implementation could not complete %d honest sessions with the real code (%v)", n, controlDetail.Load())
		}
	}()
	rapid.Check(t, func(t *rapid.T) {
		p := drawImpostor(t)
		res := runImpostor(p)
		nt := p.Variant != "control.genuine-key"
		ev.Case(nt, p.String(), "impostor", "impostor."+p.Variant)
		if nt && ev.WantSample("impostor") {
			ev.Sample("impostor", p.String()+fmt.Sprintf(" => honest end: ok=%v err=%v", res.hOK, res.hErr))
		}
		judgeImpostor(t, p, &res)
	})
}
