package c20

// An independent implementation of the station-to-station handshake and of the frame format of SecretConnection,
// written from the protocol description (Tendermint secret-connection spec, which secret_connection.go says it
// implements): X25519 ephemeral exchange, Merlin transcript -> 32-byte challenge, HKDF-SHA256 -> two ChaCha20-Poly1305
// keys, 1028-byte frames (4-byte little-endian length + 1024 data bytes) sealed with a 96-bit nonce whose last 8 bytes
// count frames, AuthSigMessage{pub_key, sig} sent as the first sealed message.  It is used (a) as the ACTIVE IMPOSTOR
// and (b), with a real key, as a positive control showing that the impostor is refused for what it forges and not
// because the harness speaks the protocol wrongly.  Nothing here calls into lib/p2p/conn.

import (
	"crypto/cipher"
	"crypto/ecdsa"
	"crypto/sha256"
	"encoding/binary"
	"errors"
	"fmt"
	"io"

	"github.com/gtank/merlin"
	"golang.org/x/crypto/chacha20poly1305"
	"golang.org/x/crypto/curve25519"
	"golang.org/x/crypto/hkdf"

	"github.com/kardiachain/go-kardia/lib/crypto"
)

const (
	frameData   = 1024
	framePlain  = 4 + frameData
	frameSealed = framePlain + 16
)

type refSession struct {
	rw                   io.ReadWriter
	ephPub, remEph       [32]byte
	dh                   [32]byte
	challenge            [32]byte
	sendAead, recvAead   cipher.AEAD
	sendNonce, recvNonce uint64
}

func uvarint(n int) []byte {
	var b [binary.MaxVarintLen64]byte
	return append([]byte{}, b[:binary.PutUvarint(b[:], uint64(n))]...)
}

// ephMessage is the varint-delimited google.protobuf.BytesValue carrying an ephemeral public key.
func ephMessage(pub []byte) []byte {
	body := append([]byte{0x0a, byte(len(pub))}, pub...)
	return append(uvarint(len(body)), body...)
}

func readByte(r io.Reader) (byte, error) {
	var b [1]byte
	_, err := io.ReadFull(r, b[:])
	return b[0], err
}

func readDelimited(r io.Reader, max int) ([]byte, error) {
	var n uint64
	for shift := uint(0); ; shift += 7 {
		if shift > 28 {
			return nil, errors.New("ref: length prefix too long")
		}
		b, err := readByte(r)
		if err != nil {
			return nil, err
		}
		n |= uint64(b&0x7f) << shift
		if b < 0x80 {
			break
		}
	}
	if int(n) > max {
		return nil, fmt.Errorf("ref: message of %d bytes", n)
	}
	buf := make([]byte, n)
	_, err := io.ReadFull(r, buf)
	return buf, err
}

// protoBytesField returns the bytes of field number `field` (wire type 2) of a flat protobuf message.
func protoBytesField(msg []byte, field int) ([]byte, error) {
	for len(msg) > 0 {
		tag, n := binary.Uvarint(msg)
		if n <= 0 {
			return nil, errors.New("ref: bad tag")
		}
		msg = msg[n:]
		if tag&7 != 2 {
			return nil, fmt.Errorf("ref: unexpected wire type %d", tag&7)
		}
		l, n := binary.Uvarint(msg)
		if n <= 0 || int(l) > len(msg)-n {
			return nil, errors.New("ref: bad length")
		}
		val := msg[n : n+int(l)]
		msg = msg[n+int(l):]
		if int(tag>>3) == field {
			return val, nil
		}
	}
	return nil, nil
}

// refStart does the ephemeral exchange and derives keys and challenge.  sendPub, when non-nil, is sent instead of the
// genuine ephemeral public key (a low-order point); the shared secret is then taken to be all zero, which is what
// X25519 yields for such a point.
func refStart(rw io.ReadWriter, ephPriv [32]byte, sendPub *[32]byte) (*refSession, error) {
	s := &refSession{rw: rw}
	pub, err := curve25519.X25519(ephPriv[:], curve25519.Basepoint)
	if err != nil {
		return nil, err
	}
	copy(s.ephPub[:], pub)
	if sendPub != nil {
		s.ephPub = *sendPub
	}
	if _, err := rw.Write(ephMessage(s.ephPub[:])); err != nil {
		return nil, err
	}
	body, err := readDelimited(rw, 1<<20)
	if err != nil {
		return nil, err
	}
	rem, err := protoBytesField(body, 1)
	if err != nil {
		return nil, err
	}
	copy(s.remEph[:], rem)
	if sendPub == nil {
		dh, err := curve25519.X25519(ephPriv[:], s.remEph[:])
		if err != nil {
			return nil, err
		}
		copy(s.dh[:], dh)
	}
	s.derive()
	return s, nil
}

func (s *refSession) derive() {
	lo, hi := s.ephPub, s.remEph
	locIsLeast := true
	if string(lo[:]) > string(hi[:]) {
		lo, hi = hi, lo
		locIsLeast = false
	}
	tr := merlin.NewTranscript("TENDERMINT_SECRET_CONNECTION_TRANSCRIPT_HASH")
	tr.AppendMessage([]byte("EPHEMERAL_LOWER_PUBLIC_KEY"), lo[:])
	tr.AppendMessage([]byte("EPHEMERAL_UPPER_PUBLIC_KEY"), hi[:])
	tr.AppendMessage([]byte("DH_SECRET"), s.dh[:])
	copy(s.challenge[:], tr.ExtractBytes([]byte("SECRET_CONNECTION_MAC"), 32))

	kdf := hkdf.New(sha256.New, s.dh[:], nil, []byte("TENDERMINT_SECRET_CONNECTION_KEY_AND_CHALLENGE_GEN"))
	var res [96]byte
	if _, err := io.ReadFull(kdf, res[:]); err != nil {
		panic(err)
	}
	k1, _ := chacha20poly1305.New(res[0:32])
	k2, _ := chacha20poly1305.New(res[32:64])
	if locIsLeast {
		s.recvAead, s.sendAead = k1, k2
	} else {
		s.sendAead, s.recvAead = k1, k2
	}
}

func nonce(n uint64) []byte {
	var b [12]byte
	binary.LittleEndian.PutUint64(b[4:], n)
	return b[:]
}

// seal returns the next sealed frame carrying chunk (<= 1024 bytes).
func (s *refSession) seal(chunk []byte) []byte {
	var plain [framePlain]byte
	binary.LittleEndian.PutUint32(plain[:], uint32(len(chunk)))
	copy(plain[4:], chunk)
	out := s.sendAead.Seal(nil, nonce(s.sendNonce), plain[:], nil)
	s.sendNonce++
	return out
}

func (s *refSession) write(data []byte) error {
	for len(data) > 0 {
		n := len(data)
		if n > frameData {
			n = frameData
		}
		if _, err := s.rw.Write(s.seal(data[:n])); err != nil {
			return err
		}
		data = data[n:]
	}
	return nil
}

// readFrame reads and opens the next frame and returns its data bytes.
func (s *refSession) readFrame() ([]byte, error) {
	var sealed [frameSealed]byte
	if _, err := io.ReadFull(s.rw, sealed[:]); err != nil {
		return nil, err
	}
	plain, err := s.recvAead.Open(nil, nonce(s.recvNonce), sealed[:], nil)
	if err != nil {
		return nil, err
	}
	s.recvNonce++
	n := binary.LittleEndian.Uint32(plain)
	if n > frameData {
		return nil, errors.New("ref: frame length field too large")
	}
	return plain[4 : 4+n], nil
}

// authMessage is the varint-delimited AuthSigMessage{pub_key: PublicKey{ecdsa: pub}, sig: sig}.
func authMessage(pub, sig []byte) []byte {
	pk := append([]byte{0x0a}, uvarint(len(pub))...)
	pk = append(pk, pub...)
	body := append([]byte{0x0a}, uvarint(len(pk))...)
	body = append(body, pk...)
	body = append(body, 0x12)
	body = append(body, uvarint(len(sig))...)
	body = append(body, sig...)
	return append(uvarint(len(body)), body...)
}

// readAuth reads the peer's AuthSigMessage (it fits one frame) and returns it raw (delimited) and parsed.
func (s *refSession) readAuth() (raw, pub, sig []byte, err error) {
	raw, err = s.readFrame()
	if err != nil {
		return
	}
	l, n := binary.Uvarint(raw)
	if n <= 0 || int(l) != len(raw)-n {
		return raw, nil, nil, errors.New("ref: auth message is not one delimited message in one frame")
	}
	body := raw[n:]
	pk, err := protoBytesField(body, 1)
	if err != nil {
		return raw, nil, nil, err
	}
	pub, err = protoBytesField(pk, 1)
	if err != nil {
		return raw, nil, nil, err
	}
	sig, err = protoBytesField(body, 2)
	return
}

func pubBytes(k *ecdsa.PrivateKey) []byte { return crypto.FromECDSAPub(&k.PublicKey) }

func mustSign(hash []byte, k *ecdsa.PrivateKey) []byte {
	sig, err := crypto.Sign(hash, k)
	if err != nil {
		panic(err)
	}
	return sig
}

// Points of small order on Curve25519 (and non-canonical encodings of them): X25519 maps each to the all-zero
// shared secret, so a session keyed from one is readable by anybody.
var lowOrderPoints = [][32]byte{
	{},
	{1},
	{0xe0, 0xeb, 0x7a, 0x7c, 0x3b, 0x41, 0xb8, 0xae, 0x16, 0x56, 0xe3, 0xfa, 0xf1, 0x9f, 0xc4, 0x6a, 0xda, 0x09, 0x8d, 0xeb, 0x9c, 0x32, 0xb1, 0xfd, 0x86, 0x62, 0x05, 0x16, 0x5f, 0x49, 0xb8, 0x00},
	{0x5f, 0x9c, 0x95, 0xbc, 0xa3, 0x50, 0x8c, 0x24, 0xb1, 0xd0, 0xb1, 0x55, 0x9c, 0x83, 0xef, 0x5b, 0x04, 0x44, 0x5c, 0xc4, 0x58, 0x1c, 0x8e, 0x86, 0xd8, 0x22, 0x4e, 0xdd, 0xd0, 0x9f, 0x11, 0x57},
	{0xec, 0xff, 0xff, 0xff, 0xff, 0xff, 0xff, 0xff, 0xff, 0xff, 0xff, 0xff, 0xff, 0xff, 0xff, 0xff, 0xff, 0xff, 0xff, 0xff, 0xff, 0xff, 0xff, 0xff, 0xff, 0xff, 0xff, 0xff, 0xff, 0xff, 0xff, 0x7f},
	{0xed, 0xff, 0xff, 0xff, 0xff, 0xff, 0xff, 0xff, 0xff, 0xff, 0xff, 0xff, 0xff, 0xff, 0xff, 0xff, 0xff, 0xff, 0xff, 0xff, 0xff, 0xff, 0xff, 0xff, 0xff, 0xff, 0xff, 0xff, 0xff, 0xff, 0xff, 0x7f},
	{0xee, 0xff, 0xff, 0xff, 0xff, 0xff, 0xff, 0xff, 0xff, 0xff, 0xff, 0xff, 0xff, 0xff, 0xff, 0xff, 0xff, 0xff, 0xff, 0xff, 0xff, 0xff, 0xff, 0xff, 0xff, 0xff, 0xff, 0xff, 0xff, 0xff, 0xff, 0x7f},
}

// lowOrder returns the usable low-order encodings: the list above plus each with the ignored top bit set, keeping
// only those that an independent X25519 (golang.org/x/crypto) really maps to zero for an arbitrary scalar.
func lowOrder() [][32]byte {
	var out [][32]byte
	scalar := sha256.Sum256([]byte("verif-c20-scalar"))
	for _, p := range lowOrderPoints {
		for _, top := range []byte{0, 0x80} {
			q := p
			q[31] |= top
			if _, err := curve25519.X25519(scalar[:], q[:]); err != nil {
				out = append(out, q)
			}
		}
	}
	return out
}

func cryptoUnmarshal(pub []byte) (*ecdsa.PublicKey, error) { return crypto.UnmarshalPubkey(pub) }

// verifySig reports whether sig is k's signature over hash (public-key recovery, as everywhere in go-kardia).
func verifySig(k *ecdsa.PrivateKey, hash, sig []byte) bool {
	if len(sig) != 65 {
		return false
	}
	return crypto.VerifySignature(crypto.PubkeyToAddress(k.PublicKey), hash, sig)
}
