// Package c20 checks property C20: peer connections are authenticated, tamper-evident, ordered and exactly-once
// (lib/p2p/conn SecretConnection + MConnection, lib/p2p transport upgrade, lib/protoio).
//
// This is the one property where the harness does not own the schedule: the product runs real goroutines.  Every
// oracle below is therefore schedule-independent (it only judges facts that hold under every interleaving), every
// case stops its goroutines and closes its connections before it returns, and the only wall-clock wait (the sentinel
// stall rule of the MConnection check) can end a run as "inconclusive", never as a violation, unless it repeats in
// isolation.
package c20

import (
	"crypto/ecdsa"
	"crypto/sha256"
	"fmt"
	"io"
	"os"
	"runtime"
	"strconv"
	"strings"
	"sync"
	"testing"
	"time"

	"github.com/kardiachain/go-kardia/lib/crypto"
	"github.com/kardiachain/go-kardia/lib/log"

	"verifharness/internal/ev"
)

func TestMain(m *testing.M) {
	ev.Init("C20")
	log.Root().SetHandler(log.DiscardHandler())
	rc := m.Run()
	// every case stops what it started; a count that grows with the number of cases would show a leak
	ev.Note("goroutines_alive_at_exit_sum_over_processes", runtime.NumGoroutine())
	ev.Flush()
	os.Exit(rc)
}

// ---------------------------------------------------------------- keys

var (
	keyOnce sync.Once
	keyPool []*ecdsa.PrivateKey
)

// key returns the i-th long-term key of a fixed pool (deterministic: sha256 of a label).
func key(i int) *ecdsa.PrivateKey {
	keyOnce.Do(func() {
		for n := 0; len(keyPool) < 8; n++ {
			h := sha256.Sum256([]byte(fmt.Sprintf("verif-c20-node-key-%d", n)))
			k, err := crypto.ToECDSA(h[:])
			if err != nil {
				continue
			}
			keyPool = append(keyPool, k)
		}
	})
	return keyPool[i%len(keyPool)]
}

func samePub(a, b ecdsa.PublicKey) bool {
	return a.X != nil && b.X != nil && a.Y != nil && b.Y != nil && a.X.Cmp(b.X) == 0 && a.Y.Cmp(b.Y) == 0
}

// ---------------------------------------------------------------- product calls on harness goroutines

// productPanic describes a panic that unwound through go-kardia code on a goroutine started by the harness.
type productPanic struct {
	msg, frame string
}

// goGuard runs f on a new goroutine. A panic with a go-kardia frame is recorded in *pp (the caller turns it into a
// violation with key panic:<frame> on the test goroutine); any other panic is a harness bug and is re-raised.
func goGuard(wg *sync.WaitGroup, mu *sync.Mutex, pp **productPanic, f func()) {
	wg.Add(1)
	go func() {
		defer wg.Done()
		msg, frame := ev.Try(f)
		if msg != "" {
			mu.Lock()
			if *pp == nil {
				*pp = &productPanic{msg: msg, frame: frame}
			}
			mu.Unlock()
		}
	}()
}

// ---------------------------------------------------------------- a duplex in-memory connection with half-close

// halfConn is one end of an in-memory duplex connection made of two io.Pipes.  Unlike net.Pipe each direction can be
// ended on its own: CloseWrite ends the outgoing stream (the peer reads EOF after the last byte, as after a TCP FIN),
// CloseRead refuses further incoming bytes (the peer's writes fail, as after a TCP RST).  Like net.Pipe it is
// synchronous: a Write returns when the peer has consumed the bytes.  SecretConnection only needs io.ReadWriteCloser.
type halfConn struct {
	r *io.PipeReader
	w io.WriteCloser // *io.PipeWriter, or a man in the middle in front of it
}

func (c *halfConn) Read(p []byte) (int, error)  { return c.r.Read(p) }
func (c *halfConn) Write(p []byte) (int, error) { return c.w.Write(p) }
func (c *halfConn) CloseWrite() error           { return c.w.Close() }
func (c *halfConn) CloseRead() error            { return c.r.CloseWithError(io.ErrClosedPipe) }
func (c *halfConn) Close() error {
	c.r.CloseWithError(io.ErrClosedPipe) // first: lets a peer blocked in a Write to us go
	return c.w.Close()
}

// ---------------------------------------------------------------- misc

// shardInfo returns this process's shard number and the number of shards (set by the driver).
func shardInfo() (shard, shards int) {
	shard, _ = strconv.Atoi(os.Getenv("VERIF_SHARD"))
	shards, _ = strconv.Atoi(os.Getenv("VERIF_SHARDS"))
	if shards < 1 {
		shard, shards = 0, 1
	}
	return
}

func envDuration(name string, def time.Duration) time.Duration {
	return time.Duration(ev.Scale(name, int(def/time.Millisecond))) * time.Millisecond
}

func joinInts(v []int) string {
	var sb strings.Builder
	for i, x := range v {
		if i > 0 {
			sb.WriteByte(',')
		}
		fmt.Fprintf(&sb, "%d", x)
	}
	return sb.String()
}

// rle renders a list of ints with run-length compression ("1024x12,3,0x2").
func rle(v []int) string {
	var sb strings.Builder
	for i := 0; i < len(v); {
		j := i
		for j < len(v) && v[j] == v[i] {
			j++
		}
		if sb.Len() > 0 {
			sb.WriteByte(',')
		}
		if j-i > 1 {
			fmt.Fprintf(&sb, "%dx%d", v[i], j-i)
		} else {
			fmt.Fprintf(&sb, "%d", v[i])
		}
		i = j
	}
	return sb.String()
}
