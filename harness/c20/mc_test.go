package c20

// MConnection: per channel the onReceive sequence equals the accepted-send sequence (exactly once, intact, in order)
// for any mix of message sizes across channels; a message above RecvMessageCapacity is refused with onError.
//
// Completion is decided by a SENTINEL sent last on each channel.  Once the sentinel of channel c has arrived, a
// missing or reordered earlier message of c is a definite violation whatever the schedule was.

import (
	"bytes"
	"fmt"
	"net"
	"strings"
	"sync"
	"sync/atomic"
	"testing"
	"time"

	"github.com/kardiachain/go-kardia/lib/log"
	"github.com/kardiachain/go-kardia/lib/p2p/conn"
	"pgregory.net/rapid"

	"verifharness/internal/ev"
)

const (
	sentinelByte  = 0xEE // the sentinel message is exactly [0xEE]
	afterOverByte = 0xEF // sent behind an oversized message: its arrival proves the oversized one was not refused
	keyZeroLength = "mconn.zero-length"
	// maxPacketMsgSize() is computed with ChannelID 0x01 (one varint byte); a full packet of a channel whose id is
	// >= 0x80 is one byte longer and the receiving side refuses it ("message exceeds max size") and drops the peer.
	keyHighID = "mconn.high-channel-id.full-packet-refused"
)

type chanSpec struct {
	ID      byte
	Prio    int
	SendCap int
	RecvCap int
	RecvBuf int
}

type sendOp struct {
	G    int  // sending goroutine (concurrent shape)
	Ch   int  // index into Chans
	Size int  // payload size
	Try  bool // TrySend instead of Send
	Nil  bool // size 0 only: pass nil instead of an empty non-nil slice
}

type mcPlan struct {
	Secret  bool // over a SecretConnection pair instead of the bare pipe
	Packet  int  // MaxPacketMsgPayloadSize
	FlushUS int  // flush throttle in microseconds
	Chans   []chanSpec
	Senders int        // concurrent shape: number of sending goroutines (0 = batched shape)
	Ops     []sendOp   // concurrent shape
	Batches [][]sendOp // batched shape: each batch is queued while the link is stalled, then the link is released
	Back    []sendOp   // traffic in the other direction (one goroutine, blocking Send)
	Over    *overPlan  // optional epilogue: an oversized message
}

type overPlan struct {
	Ch     int      // channel that gets a message of RecvCap+1 bytes
	Before []sendOp // TrySend'ed just before it (so that other channels are mid-message when the error strikes)
}

// fullPacketOnHighID reports whether the plan puts a message of at least one full packet on a channel whose id needs
// two varint bytes (the precondition of the known finding keyHighID; independent of the schedule).
func (p *mcPlan) fullPacketOnHighID() bool {
	hit := func(ops []sendOp) bool {
		for _, o := range ops {
			if p.Chans[o.Ch].ID >= 0x80 && o.Size >= p.Packet {
				return true
			}
		}
		return false
	}
	for _, b := range p.Batches {
		if hit(b) {
			return true
		}
	}
	return hit(p.Ops) || hit(p.Back)
}

func (p *mcPlan) String() string {
	var sb strings.Builder
	fmt.Fprintf(&sb, "secret=%v packet=%d flush=%dus chans=[", p.Secret, p.Packet, p.FlushUS)
	for i, c := range p.Chans {
		if i > 0 {
			sb.WriteByte(' ')
		}
		fmt.Fprintf(&sb, "{id=%d prio=%d sendq=%d recvcap=%d recvbuf=%d}", c.ID, c.Prio, c.SendCap, c.RecvCap, c.RecvBuf)
	}
	sb.WriteString("]")
	op := func(o sendOp, withG bool) string {
		s := fmt.Sprintf("ch%d:%d", p.Chans[o.Ch].ID, o.Size)
		if o.Nil {
			s += "nil"
		}
		if o.Try {
			s += "?"
		}
		if withG {
			s = fmt.Sprintf("g%d/", o.G) + s
		}
		return s
	}
	if p.Senders > 0 {
		fmt.Fprintf(&sb, " concurrent senders=%d ops=[", p.Senders)
		for i, o := range p.Ops {
			if i > 0 {
				sb.WriteByte(' ')
			}
			sb.WriteString(op(o, true))
		}
		sb.WriteString("]")
	} else {
		sb.WriteString(" batched")
		for _, b := range p.Batches {
			sb.WriteString(" [")
			for i, o := range b {
				if i > 0 {
					sb.WriteByte(' ')
				}
				sb.WriteString(op(o, false))
			}
			sb.WriteString("]")
		}
	}
	if len(p.Back) > 0 {
		sb.WriteString(" back=[")
		for i, o := range p.Back {
			if i > 0 {
				sb.WriteByte(' ')
			}
			sb.WriteString(op(o, false))
		}
		sb.WriteString("]")
	}
	if p.Over != nil {
		fmt.Fprintf(&sb, " oversize=ch%d:%d before=[", p.Chans[p.Over.Ch].ID, p.Chans[p.Over.Ch].RecvCap+1)
		for i, o := range p.Over.Before {
			if i > 0 {
				sb.WriteByte(' ')
			}
			sb.WriteString(op(o, false))
		}
		sb.WriteString("]")
	}
	return sb.String()
}

// payload is the content of message number serial of direction dir on channel ch: a pure function of its arguments.
// The first byte is never the sentinel byte; messages of 4 bytes or more carry their serial number, so they are
// pairwise different within a direction.
func payload(dir int, ch byte, serial, size int, nilMsg bool) []byte {
	if size == 0 {
		if nilMsg {
			return nil
		}
		return []byte{}
	}
	b := make([]byte, size)
	for j := range b {
		b[j] = byte(serial*31 + j*7 + (j >> 8) + int(ch)*13 + dir*101)
	}
	b[0] = byte(serial % 200) // 0..199, never 0xEE / 0xEF
	if size >= 4 {
		b[1], b[2], b[3] = byte(serial>>8), byte(serial), ch^byte(0x50+dir)
	}
	return b
}

// plausible reports whether b can be a payload (or sentinel/marker) of direction dir on channel ch.  Messages of 4
// bytes or more name their serial number, so they are checked completely.  It only serves to end the wait for
// sentinels early when something has already gone wrong; the verdict comes from the sequence comparison.
func plausible(dir int, ch byte, b []byte) bool {
	switch {
	case len(b) == 0:
		return true
	case len(b) == 1:
		return b[0] < 200 || b[0] == sentinelByte || b[0] == afterOverByte
	case len(b) < 4:
		// the first byte is the serial number modulo 200; a direction has well under 1000 messages
		for s := int(b[0]); b[0] < 200 && s < 1000; s += 200 {
			if bytes.Equal(b, payload(dir, ch, s, len(b), false)) {
				return true
			}
		}
		return false
	}
	return bytes.Equal(b, payload(dir, ch, int(b[1])<<8|int(b[2]), len(b), false))
}

// ---------------------------------------------------------------- a link that can be stalled

// gateConn lets the harness stall the sender's link: when armed, the next Write blocks (and reports that it did) until
// the gate is opened.  While the sendRoutine is blocked in that Write nothing leaves the send queues, so messages
// queued meanwhile are scheduled across channels by one uninterrupted run of sendSomePacketMsgs.
type gateConn struct {
	net.Conn
	mu      sync.Mutex
	armed   bool
	entered chan struct{}
	release chan struct{}
	opened  bool
}

func (g *gateConn) arm() {
	g.mu.Lock()
	g.armed, g.opened = true, false
	g.entered, g.release = make(chan struct{}), make(chan struct{})
	g.mu.Unlock()
}

func (g *gateConn) open() {
	g.mu.Lock()
	g.armed = false
	if g.release != nil && !g.opened {
		g.opened = true
		close(g.release)
	}
	g.mu.Unlock()
}

func (g *gateConn) Write(p []byte) (int, error) {
	g.mu.Lock()
	if g.armed {
		g.armed = false
		ent, rel := g.entered, g.release
		g.mu.Unlock()
		close(ent)
		<-rel
	} else {
		g.mu.Unlock()
	}
	return g.Conn.Write(p)
}

// ---------------------------------------------------------------- receiving endpoint

type endpoint struct {
	name  string
	mc    *conn.MConnection
	chans []chanSpec

	mu         sync.Mutex
	got        map[byte][][]byte
	expectSen  int           // sentinels (one per channel) this endpoint waits for
	haveSen    map[byte]bool // channels whose sentinel has arrived
	done       chan struct{} // closed when all expected sentinels have arrived
	doneOnce   sync.Once
	errs       []string
	errCh      chan struct{} // closed on the first onError
	errOnce    sync.Once
	mark       map[byte]int  // epilogue: len(got[ch]) when it began
	afterOver  chan struct{} // closed when the message sent behind the oversized one arrives
	afterOnce  sync.Once
	dir        int           // the direction this endpoint receives
	bad        chan struct{} // closed when a delivered message cannot be any message of this direction and channel
	badOnce    sync.Once
	tooBig     chan struct{} // closed when a message longer than its channel's RecvMessageCapacity is delivered
	tooBigOnce sync.Once
	caps       map[byte]int
	inEpi      bool
}

func newEndpoint(name string, dir int, chans []chanSpec, expectSen int) *endpoint {
	e := &endpoint{name: name, dir: dir, bad: make(chan struct{}), chans: chans, got: map[byte][][]byte{}, expectSen: expectSen, haveSen: map[byte]bool{},
		done: make(chan struct{}), errCh: make(chan struct{}), afterOver: make(chan struct{}), tooBig: make(chan struct{}), caps: map[byte]int{}}
	for _, c := range chans {
		e.caps[c.ID] = c.RecvCap
	}
	if expectSen == 0 {
		e.doneOnce.Do(func() { close(e.done) })
	}
	return e
}

func (e *endpoint) onReceive(ch byte, b []byte) {
	cp := append([]byte{}, b...) // the slice belongs to the connection
	e.mu.Lock()
	e.got[ch] = append(e.got[ch], cp)
	if c, ok := e.caps[ch]; ok && len(cp) > c {
		e.tooBigOnce.Do(func() { close(e.tooBig) })
	}
	if !plausible(e.dir, ch, cp) {
		e.badOnce.Do(func() { close(e.bad) }) // no need to wait for sentinels: the sequence check will name it
	}
	if e.inEpi {
		if len(cp) == 1 && cp[0] == afterOverByte {
			e.afterOnce.Do(func() { close(e.afterOver) })
		}
	} else if len(cp) == 1 && cp[0] == sentinelByte && !e.haveSen[ch] {
		e.haveSen[ch] = true
		if len(e.haveSen) == e.expectSen {
			e.doneOnce.Do(func() { close(e.done) })
		}
	}
	e.mu.Unlock()
}

func (e *endpoint) onError(r interface{}) {
	e.mu.Lock()
	e.errs = append(e.errs, fmt.Sprint(r))
	e.mu.Unlock()
	e.errOnce.Do(func() { close(e.errCh) })
}

// snapshot returns what has been delivered so far and, consistently with it, which channels have seen their sentinel.
func (e *endpoint) snapshot() (map[byte][][]byte, map[byte]bool) {
	e.mu.Lock()
	defer e.mu.Unlock()
	out := map[byte][][]byte{}
	for k, v := range e.got {
		out[k] = append([][]byte{}, v...)
	}
	sen := map[byte]bool{}
	for k, v := range e.haveSen {
		sen[k] = v
	}
	return out, sen
}

// ---------------------------------------------------------------- sequence oracle

type finding struct{ key, msg string }

func short(b []byte) string {
	if len(b) <= 6 {
		return fmt.Sprintf("%d:%x", len(b), b)
	}
	return fmt.Sprintf("%d:%x…", len(b), b[:6])
}

func shortSeq(s [][]byte) string {
	var sb strings.Builder
	sb.WriteByte('[')
	for i, b := range s {
		if i > 0 {
			sb.WriteByte(' ')
		}
		if i >= 40 {
			fmt.Fprintf(&sb, "… %d more", len(s)-i)
			break
		}
		sb.WriteString(short(b))
	}
	sb.WriteByte(']')
	return sb.String()
}

// classify compares what a channel delivered (got) with what was accepted for it (want).  With prefixOK the delivery
// may stop early (connection ended by an error), otherwise it must be complete.  It returns "" when the delivery is
// right, else the finding key suffix:
//
//	zero-length  got is want with only zero-length messages missing (and nothing else wrong)
//	lost         got is want with some non-empty message missing
//	corrupted    a delivered message was never sent on this channel
//	duplicated   a message was delivered more often than it was sent
//	reordered    the same messages in another order
func classify(want, got [][]byte, prefixOK bool) string {
	// is got a subsequence of want? (greedy matching is exact: the only messages that compare equal to each other
	// are the tiny ones, and skipping an equal candidate never helps)
	i, sub := 0, true
	skippedNonEmpty, skipped := false, false
	for _, g := range got {
		for i < len(want) && !bytes.Equal(want[i], g) {
			skipped = true
			if len(want[i]) != 0 {
				skippedNonEmpty = true
			}
			i++
		}
		if i == len(want) {
			sub = false
			break
		}
		i++
	}
	if sub {
		if !prefixOK {
			for ; i < len(want); i++ {
				skipped = true
				if len(want[i]) != 0 {
					skippedNonEmpty = true
				}
			}
		}
		switch {
		case !skipped:
			return ""
		case skippedNonEmpty:
			return "lost"
		default:
			return "zero-length"
		}
	}
	count := map[string]int{}
	for _, w := range want {
		count[string(w)]++
	}
	dup := false
	for _, g := range got {
		if _, ok := count[string(g)]; !ok {
			return "corrupted"
		}
		count[string(g)]--
		if count[string(g)] < 0 {
			dup = true
		}
	}
	if dup {
		return "duplicated"
	}
	return "reordered"
}

// ---------------------------------------------------------------- running one case

type mcResult struct {
	findings []finding
	stall    string // non-empty: a completion signal did not arrive within the stall limit
	harness  string // non-empty: the harness could not drive the case
	pp       *productPanic
	accepted int
	rejected int
	zeroAcc  int // accepted zero-length messages
	multiCh  int // channels (forward direction) with an accepted multi-packet message
}

type direction struct {
	dir      int
	from     *conn.MConnection
	chans    []chanSpec
	chmu     []sync.Mutex
	accepted [][][]byte // per channel index: payloads in acceptance order
	serial   int
	smu      sync.Mutex
	res      *mcResult
	rmu      *sync.Mutex
	degraded int32       // a blocking Send timed out (10 s): the rest of the case uses TrySend so that it still ends
	abort    func() bool // the connection has failed (or the case has run out of time): stop sending
}

func (d *direction) send(o sendOp) bool {
	if d.abort != nil && d.abort() {
		return false // nothing is judged about sends that were never made
	}
	d.smu.Lock()
	serial := d.serial
	d.serial++
	d.smu.Unlock()
	c := d.chans[o.Ch]
	msg := payload(d.dir, c.ID, serial, o.Size, o.Nil)
	// The per-channel lock makes "acceptance order on this channel" observable: the order of the Send calls that
	// returned true.  Senders on other channels are not serialised.
	d.chmu[o.Ch].Lock()
	var ok bool
	if o.Try || atomic.LoadInt32(&d.degraded) != 0 {
		ok = d.from.TrySend(c.ID, msg)
	} else {
		ok = d.from.Send(c.ID, msg)
		if !ok {
			atomic.StoreInt32(&d.degraded, 1)
		}
	}
	if ok {
		d.accepted[o.Ch] = append(d.accepted[o.Ch], msg)
	}
	d.chmu[o.Ch].Unlock()
	d.rmu.Lock()
	if ok {
		d.res.accepted++
		if o.Size == 0 {
			d.res.zeroAcc++
		}
	} else {
		d.res.rejected++
	}
	d.rmu.Unlock()
	return ok
}

// sendSentinels sends the sentinel on every channel.  It polls TrySend instead of blocking in Send so that a
// connection that has already failed (abort) ends the case at once instead of after Send's 10 s timeout; whether and
// when a sentinel is accepted is never judged.
func (d *direction) sendSentinels(abort func() bool) string {
	for i, c := range d.chans {
		ok := false
		for !ok {
			d.chmu[i].Lock()
			ok = d.from.TrySend(c.ID, []byte{sentinelByte})
			if ok {
				d.accepted[i] = append(d.accepted[i], []byte{sentinelByte})
			}
			d.chmu[i].Unlock()
			if ok {
				break
			}
			if abort() || !d.from.IsRunning() {
				return fmt.Sprintf("sentinel of channel %d (direction %d) could not be queued", c.ID, d.dir)
			}
			time.Sleep(50 * time.Microsecond)
		}
	}
	return ""
}

func newDirection(dir int, from *conn.MConnection, chans []chanSpec, res *mcResult, rmu *sync.Mutex) *direction {
	return &direction{dir: dir, from: from, chans: chans, chmu: make([]sync.Mutex, len(chans)), accepted: make([][][]byte, len(chans)), res: res, rmu: rmu}
}

func mcConfig(p *mcPlan) conn.MConnConfig {
	cfg := conn.DefaulKAIConnConfig()
	cfg.FlushThrottle = time.Duration(p.FlushUS) * time.Microsecond
	cfg.MaxPacketMsgPayloadSize = p.Packet
	cfg.SendRate = 1 << 32 // no rate limiting inside a case (the limiter sleeps on the wall clock)
	cfg.RecvRate = 1 << 32
	return cfg
}

func runMConn(p *mcPlan, stallAfter time.Duration) (res mcResult) {
	var rmu sync.Mutex
	c1, c2 := net.Pipe()
	gate := &gateConn{Conn: c1}
	var connA, connB net.Conn = gate, c2
	defer func() { gate.open(); c1.Close(); c2.Close() }()

	if p.Secret {
		var wg sync.WaitGroup
		var sa, sb *conn.SecretConnection
		var ea, eb error
		goGuard(&wg, &rmu, &res.pp, func() {
			if sa, ea = conn.MakeSecretConnection(connA, key(0)); ea != nil {
				c1.Close() // as callers do; lets the other end's handshake finish too
			}
		})
		goGuard(&wg, &rmu, &res.pp, func() {
			if sb, eb = conn.MakeSecretConnection(connB, key(1)); eb != nil {
				c2.Close()
			}
		})
		wg.Wait()
		if res.pp != nil {
			return
		}
		if ea != nil || eb != nil {
			res.findings = append(res.findings, finding{"sc.honest-handshake-failed", fmt.Sprintf("handshake between two honest ends failed: %v / %v", ea, eb)})
			return
		}
		connA, connB = sa, sb
	}

	descs := make([]*conn.ChannelDescriptor, len(p.Chans))
	for i, c := range p.Chans {
		descs[i] = &conn.ChannelDescriptor{ID: c.ID, Priority: c.Prio, SendQueueCapacity: c.SendCap, RecvMessageCapacity: c.RecvCap, RecvBufferCapacity: c.RecvBuf}
	}
	backSen := 0
	if len(p.Back) > 0 {
		backSen = len(p.Chans)
	}
	epA := newEndpoint("A", 1, p.Chans, backSen)
	epB := newEndpoint("B", 0, p.Chans, len(p.Chans))
	cfg := mcConfig(p)
	var a, b *conn.MConnection
	if msg, frame := ev.Try(func() {
		a = conn.NewMConnectionWithConfig(connA, descs, epA.onReceive, epA.onError, cfg)
		b = conn.NewMConnectionWithConfig(connB, descs, epB.onReceive, epB.onError, cfg)
	}); msg != "" {
		res.pp = &productPanic{msg, frame}
		return
	}
	epA.mc, epB.mc = a, b
	// like p2p.peer.SetLogger does for every peer's connection (Channel.Logger is nil until then)
	a.SetLogger(log.New("mconn", "A"))
	b.SetLogger(log.New("mconn", "B"))
	if err := a.Start(); err != nil {
		res.harness = "start A: " + err.Error()
		return
	}
	if err := b.Start(); err != nil {
		a.Stop()
		res.harness = "start B: " + err.Error()
		return
	}
	// Stop both ends whatever happens; product panics on the harness goroutine are caught by the caller's Guard.
	defer func() {
		gate.open()
		a.Stop()
		b.Stop()
	}()

	fwd := newDirection(0, a, p.Chans, &res, &rmu)
	back := newDirection(1, b, p.Chans, &res, &rmu)
	timer := time.NewTimer(stallAfter)
	defer timer.Stop()
	deadline := time.Now().Add(stallAfter)
	errored := func() bool {
		select {
		case <-epA.errCh:
			return true
		case <-epB.errCh:
			return true
		default:
			return false
		}
	}
	abort := func() bool { return errored() || time.Now().After(deadline) }
	fwd.abort, back.abort = abort, abort

	var wg sync.WaitGroup
	var senMu sync.Mutex
	var senErr string
	// reverse direction
	if len(p.Back) > 0 {
		goGuard(&wg, &rmu, &res.pp, func() {
			for _, o := range p.Back {
				back.send(o)
			}
			if s := back.sendSentinels(abort); s != "" {
				senMu.Lock()
				senErr = s
				senMu.Unlock()
			}
		})
	}
	// forward direction
	if p.Senders > 0 {
		var swg sync.WaitGroup
		for g := 0; g < p.Senders; g++ {
			g := g
			goGuard(&swg, &rmu, &res.pp, func() {
				for _, o := range p.Ops {
					if o.G == g {
						fwd.send(o)
					}
				}
			})
		}
		swg.Wait()
	} else {
		for _, batch := range p.Batches {
			if len(batch) == 0 {
				continue
			}
			gate.arm()
			var stalled bool
			if msg, frame := ev.Try(func() {
				fwd.send(batch[0])
				// The link had nothing to do or was busy; either way a Write follows and hits the gate.
				select {
				case <-gate.entered:
				case <-epB.errCh:
				case <-epA.errCh:
				case <-timer.C:
					stalled = true
				}
				if !stalled {
					for _, o := range batch[1:] {
						fwd.send(o)
					}
				}
			}); msg != "" {
				rmu.Lock()
				res.pp = &productPanic{msg, frame}
				rmu.Unlock()
			}
			gate.open()
			if stalled {
				res.stall = "the sending side never wrote to the link after a message had been accepted"
				break
			}
			rmu.Lock()
			panicked := res.pp != nil
			rmu.Unlock()
			if panicked {
				break
			}
		}
	}
	rmu.Lock()
	panicked := res.pp != nil
	rmu.Unlock()
	if !panicked && res.stall == "" {
		if msg, frame := ev.Try(func() {
			if s := fwd.sendSentinels(abort); s != "" {
				senMu.Lock()
				senErr = s
				senMu.Unlock()
			}
		}); msg != "" {
			rmu.Lock()
			res.pp = &productPanic{msg, frame}
			rmu.Unlock()
		}
	}
	wg.Wait()
	if res.pp != nil || res.stall != "" {
		return
	}

	// ---- wait for the sentinels (or an error, which ends the case at once)
	waitDone := func(e *endpoint) {
		select {
		case <-e.done:
		case <-epA.errCh:
		case <-epB.errCh:
		case <-epA.bad:
		case <-epB.bad:
		case <-timer.C:
			res.stall = "sentinel"
		}
	}
	if senErr == "" {
		waitDone(epB)
		if res.stall == "" {
			waitDone(epA)
		}
	}
	gotB, senB := epB.snapshot()
	gotA, senA := epA.snapshot()
	if errored() {
		epA.mu.Lock()
		epB.mu.Lock()
		msg := fmt.Sprintf("onError before the sentinels arrived although every message fits its channel: A=%v B=%v", epA.errs, epB.errs)
		k := "mconn.error-on-valid-traffic"
		if strings.Contains(msg, "message exceeds max size") && p.fullPacketOnHighID() {
			k = keyHighID
		}
		epB.mu.Unlock()
		epA.mu.Unlock()
		res.findings = append(res.findings, finding{k, msg})
	} else if senErr != "" {
		res.stall = senErr
	}

	// ---- per channel: delivered == accepted.  Only channels whose sentinel has arrived are judged for completeness;
	// the others (stall or error) must still show a prefix.
	check := func(d *direction, got map[byte][][]byte, sen map[byte]bool) {
		known := map[byte]bool{}
		for i, c := range d.chans {
			known[c.ID] = true
			d.chmu[i].Lock()
			want := append([][]byte{}, d.accepted[i]...)
			d.chmu[i].Unlock()
			g := got[c.ID]
			// With the sentinel in hand the delivery must be complete.  Without it (stall, error) messages behind
			// the last delivered one may still be on their way, but a gap before it is just as definite.
			if cl := classify(want, g, !sen[c.ID]); cl != "" {
				res.findings = append(res.findings, finding{"mconn." + cl, fmt.Sprintf("direction %d channel %d (sentinel seen: %v): accepted %s delivered %s", d.dir, c.ID, sen[c.ID], shortSeq(want), shortSeq(g))})
			}
		}
		for id, g := range got {
			if !known[id] && len(g) > 0 {
				res.findings = append(res.findings, finding{"mconn.corrupted", fmt.Sprintf("direction %d: %d messages delivered on channel %d which does not exist", d.dir, len(g), id)})
			}
		}
	}
	check(fwd, gotB, senB)
	check(back, gotA, senA)
	for i := range fwd.accepted {
		for _, w := range fwd.accepted[i] {
			if len(w) > p.Packet {
				res.multiCh++
				break
			}
		}
	}
	if res.stall != "" || len(res.findings) > 0 || p.Over == nil {
		return
	}

	// ---- epilogue: an oversized message is refused with onError and never delivered
	over := p.Chans[p.Over.Ch]
	epB.mu.Lock()
	epB.inEpi = true
	epB.mark = map[byte]int{}
	for _, c := range p.Chans {
		epB.mark[c.ID] = len(epB.got[c.ID])
	}
	epB.mu.Unlock()
	epi := newDirection(0, a, p.Chans, &res, &rmu)
	epi.serial = fwd.serial
	var overMsg []byte
	overAccepted := false
	if msg, frame := ev.Try(func() {
		for _, o := range p.Over.Before {
			o.Try = true
			epi.send(o)
		}
		overMsg = payload(0, over.ID, epi.serial, over.RecvCap+1, false)
		overAccepted = a.Send(over.ID, overMsg)
		for overAccepted && !a.TrySend(over.ID, []byte{afterOverByte}) {
			// the marker behind it: queued as soon as there is room, unless the connection has ended meanwhile
			if abort() || !a.IsRunning() {
				break
			}
			time.Sleep(50 * time.Microsecond)
		}
	}); msg != "" {
		res.pp = &productPanic{msg, frame}
		return
	}
	if !overAccepted {
		res.harness = "the oversized message was not accepted by Send"
		return
	}
	definite := ""
	select {
	case <-epB.errCh:
	case <-epB.tooBig:
	case <-epB.afterOver:
		definite = "the message sent behind it on the same channel arrived and no error was raised"
	case <-timer.C:
		res.stall = "neither onError nor any later message after an oversized message"
		return
	}
	gotB, _ = epB.snapshot()
	for i, c := range p.Chans {
		g := gotB[c.ID][epB.mark[c.ID]:]
		for _, m := range g {
			if len(m) > c.RecvCap || (len(m) >= 4 && len(overMsg) >= 4 && c.ID == over.ID && bytes.Equal(m[:4], overMsg[:4])) {
				res.findings = append(res.findings, finding{"mconn.oversize.delivered", fmt.Sprintf("channel %d (RecvMessageCapacity %d): a message of %d bytes was sent and %s was delivered", c.ID, c.RecvCap, len(overMsg), short(m))})
				return
			}
		}
		want := epi.accepted[i]
		if c.ID == over.ID {
			// what was accepted before the oversized message may arrive; the trailing marker only without an error
			want = append(append([][]byte{}, want...), []byte{afterOverByte})
		}
		if cl := classify(want, g, true); cl != "" {
			res.findings = append(res.findings, finding{"mconn.oversize.around." + cl, fmt.Sprintf("channel %d while an oversized message was refused: accepted %s delivered %s", c.ID, shortSeq(want), shortSeq(g))})
		}
	}
	if definite != "" {
		res.findings = append(res.findings, finding{"mconn.oversize.not-refused", fmt.Sprintf("channel %d (RecvMessageCapacity %d): a message of %d bytes was sent; %s", over.ID, over.RecvCap, len(overMsg), definite)})
	}
	return
}

// ---------------------------------------------------------------- generator

// Channel ids: the ones the reactors of go-kardia register (pex 0x00, consensus 0x20-0x23, tx pool 0x30, evidence
// 0x38, block sync 0x40) plus neighbours; in one case out of ten one channel gets an id >= 0x80, which the byte-typed
// ChannelDescriptor.ID allows although no reactor uses one.
var (
	lowIDs  = []byte{0x00, 0x01, 0x20, 0x21, 0x22, 0x23, 0x30, 0x38, 0x40, 0x7f}
	highIDs = []byte{0x80, 0xff}
)

func drawChans(t *rapid.T, n int) []chanSpec {
	chans := make([]chanSpec, n)
	off := rapid.IntRange(0, len(lowIDs)-1).Draw(t, "idoff")
	for i := range chans {
		chans[i] = chanSpec{
			ID:      lowIDs[(off+i*3)%len(lowIDs)],
			Prio:    rapid.SampledFrom([]int{1, 1, 2, 5, 10, 100}).Draw(t, "prio"),
			SendCap: rapid.SampledFrom([]int{1, 2, 10, 100}).Draw(t, "sendq"),
			RecvCap: rapid.SampledFrom([]int{1, 5, 1023, 1024, 1025, 2048, 3000, 5000, 20000}).Draw(t, "recvcap"),
			RecvBuf: rapid.SampledFrom([]int{0, 0, 1, 64}).Draw(t, "recvbuf"),
		}
	}
	if rapid.IntRange(0, 9).Draw(t, "highid") == 0 {
		chans[rapid.IntRange(0, n-1).Draw(t, "highch")].ID = rapid.SampledFrom(highIDs).Draw(t, "hid")
	}
	return chans
}

// drawSize draws a message size for a channel from the boundary set of the property, never above its capacity.
func drawSize(t *rapid.T, packet, capacity int) int {
	cands := []int{0, 0, 1, 1, packet - 1, packet, packet + 1, 2 * packet, 3*packet + 5, capacity, capacity - 1, rapid.IntRange(0, 4*packet).Draw(t, "anysize")}
	s := rapid.SampledFrom(cands).Draw(t, "size")
	if s > capacity {
		s = capacity
	}
	if s < 0 {
		s = 0
	}
	return s
}

func drawOp(t *rapid.T, p *mcPlan, g int, tryP int) sendOp {
	ch := rapid.IntRange(0, len(p.Chans)-1).Draw(t, "ch")
	o := sendOp{G: g, Ch: ch, Size: drawSize(t, p.Packet, p.Chans[ch].RecvCap)}
	o.Try = rapid.IntRange(0, 99).Draw(t, "try") < tryP
	if o.Size == 0 {
		o.Nil = rapid.Bool().Draw(t, "nil")
	}
	return o
}

func drawPlan(t *rapid.T, maxMsgs int) *mcPlan {
	p := &mcPlan{
		Secret:  rapid.IntRange(0, 2).Draw(t, "secret") == 0,
		Packet:  rapid.SampledFrom([]int{1024, 1024, 1024, 64, 10}).Draw(t, "packet"),
		FlushUS: rapid.SampledFrom([]int{50, 200, 1000}).Draw(t, "flush"),
	}
	p.Chans = drawChans(t, rapid.SampledFrom([]int{1, 2, 2, 2, 3, 3, 4}).Draw(t, "nchan"))
	n := rapid.IntRange(20, maxMsgs).Draw(t, "nmsg")
	if rapid.Bool().Draw(t, "batched") {
		nb := rapid.IntRange(1, 6).Draw(t, "nbatch")
		p.Batches = make([][]sendOp, nb)
		for i := 0; i < n; i++ {
			b := i * nb / n
			o := drawOp(t, p, 0, 100)
			o.Try = true // never block while the link is stalled
			p.Batches[b] = append(p.Batches[b], o)
		}
	} else {
		p.Senders = rapid.IntRange(1, 3).Draw(t, "senders")
		for i := 0; i < n; i++ {
			p.Ops = append(p.Ops, drawOp(t, p, rapid.IntRange(0, p.Senders-1).Draw(t, "g"), 30))
		}
	}
	if rapid.IntRange(0, 3).Draw(t, "duplex") == 0 {
		nb := rapid.IntRange(1, 30).Draw(t, "nback")
		for i := 0; i < nb; i++ {
			o := drawOp(t, p, 0, 0)
			p.Back = append(p.Back, o)
		}
	}
	if rapid.IntRange(0, 3).Draw(t, "oversize") == 0 {
		ov := &overPlan{Ch: rapid.IntRange(0, len(p.Chans)-1).Draw(t, "overch")}
		nb := rapid.IntRange(0, 6).Draw(t, "nbefore")
		for i := 0; i < nb; i++ {
			ov.Before = append(ov.Before, drawOp(t, p, 0, 100))
		}
		p.Over = ov
	}
	return p
}

// ---------------------------------------------------------------- the generated check

// stallLimit is how long a case may wait for its completion signal.  Once a double stall has been confirmed in this
// process (a violation is on record) the repetitions rapid makes while shrinking use a short limit: they can only
// change which case is shown as the minimal one, not the verdict.
func stallLimit() time.Duration {
	if atomic.LoadInt32(&stallConfirmed) != 0 {
		return 2 * time.Second
	}
	return time.Duration(ev.Scale("STALL_S", 60)) * time.Second
}

var stallConfirmed int32

// settle turns the result of one run into violations / harness failures, applying the double-stall rule.
func settle(t ev.TB, p *mcPlan, res mcResult, rerun func() mcResult) {
	text := p.String()
	if res.pp != nil {
		ev.Violation(t, "panic:"+res.pp.frame, text, "panic in product code: %s", res.pp.msg)
		return
	}
	if res.harness != "" {
		t.Fatalf("harness: %s\ncase: %s", res.harness, text)
	}
	for _, f := range res.findings {
		ev.Violation(t, f.key, text, "%s", f.msg)
	}
	if res.stall != "" {
		// Not a timing judgement yet: run the same case once more with nothing else going on in this process.
		ev.Class("mconn.stalled-once")
		res2 := rerun()
		if res2.stall != "" {
			lim := stallLimit()
			atomic.StoreInt32(&stallConfirmed, 1)
			ev.Violation(t, "mconn.stall", text, "no completion within %v twice in a row (second time in isolation): %s / %s", lim, res.stall, res2.stall)
			return
		}
		t.Fatalf("harness: inconclusive: case stalled once (%s) and completed when repeated in isolation\ncase: %s", res.stall, text)
	}
}

func mconnProperty(t *rapid.T) {
	p := drawPlan(t, ev.Scale("MSGS", 200))
	text := p.String()
	res := runMConn(p, stallLimit())
	classes := []string{"mconn"}
	if p.Secret {
		classes = append(classes, "mconn.over-secret-connection")
	} else {
		classes = append(classes, "mconn.over-pipe")
	}
	if p.Senders > 0 {
		classes = append(classes, fmt.Sprintf("mconn.concurrent.senders=%d", p.Senders))
	} else {
		classes = append(classes, "mconn.batched")
	}
	classes = append(classes, fmt.Sprintf("mconn.channels=%d", len(p.Chans)))
	if len(p.Back) > 0 {
		classes = append(classes, "mconn.duplex")
	}
	if p.Over != nil {
		classes = append(classes, "mconn.oversize-epilogue")
	}
	if res.zeroAcc > 0 {
		classes = append(classes, "mconn.zero-length-accepted")
	}
	if res.rejected > 0 {
		classes = append(classes, "mconn.some-sends-rejected")
	}
	nontrivial := res.multiCh >= 2
	ev.Case(nontrivial, text, classes...)
	if nontrivial && len(text) < 900 && ev.WantSample("mconn") {
		ev.Sample("mconn", text)
	}
	settle(t, p, res, func() mcResult { return runMConn(p, stallLimit()) })
}

func TestMConn(t *testing.T) { rapid.Check(t, mconnProperty) }

// TestMConnRace is TestMConn built with the race detector (thorough tier).
func TestMConnRace(t *testing.T) { rapid.Check(t, mconnProperty) }

// ---------------------------------------------------------------- directed reproducer of D19

// d19Plan is the minimal schedule that loses a zero-length message: two channels; while the link is stalled the
// sender queues [01] [] [02] on channel 1 and one byte on channel 2.  sendPacketMsg then sends [01] (channel 1 has
// sent nothing yet and wins), dequeues [] into ch.sending, lets channel 2 win the next packet slot (channel 1 has
// just sent), and on the following call isSendPending sees len(ch.sending)==0, takes that for "nothing pending" and
// overwrites the dequeued empty message with [02].
func d19Plan(nilMsg bool) *mcPlan {
	return &mcPlan{
		Packet: 1024, FlushUS: 200,
		Chans: []chanSpec{{ID: 1, Prio: 1, SendCap: 10, RecvCap: 1024}, {ID: 2, Prio: 10, SendCap: 10, RecvCap: 1024}},
		Batches: [][]sendOp{{
			{Ch: 1, Size: 1, Try: true}, // gets the sendRoutine into the stalled Write
			{Ch: 0, Size: 1, Try: true},
			{Ch: 0, Size: 0, Try: true, Nil: nilMsg},
			{Ch: 0, Size: 1, Try: true},
			{Ch: 1, Size: 1, Try: true},
		}},
	}
}

func TestKnownZeroLength(t *testing.T) {
	lostAny := false
	detail := ""
	for _, nilMsg := range []bool{false, true} {
		p := d19Plan(nilMsg)
		res := runMConn(p, stallLimit())
		if res.pp != nil {
			ev.Violation(t, "panic:"+res.pp.frame, p.String(), "panic in product code: %s", res.pp.msg)
			return
		}
		if res.harness != "" || res.stall != "" {
			t.Fatalf("harness: directed zero-length case could not be driven: %s %s", res.harness, res.stall)
		}
		ev.Case(true, "directed:"+p.String(), "known-reproducer")
		for _, f := range res.findings {
			if f.key != keyZeroLength {
				ev.Violation(t, f.key, p.String(), "%s", f.msg) // anything else is not D19
				continue
			}
			lostAny = true
			if detail == "" {
				detail = f.msg
			}
		}
	}
	ev.Sample("known-reproducer", "two channels, link stalled while ch1 gets [01] [] [02] and ch2 gets one byte; then sentinels. "+detail)
	if ev.Known(keyZeroLength) {
		ev.KnownReproduced(keyZeroLength, lostAny)
		return
	}
	if lostAny {
		ev.Violation(t, keyZeroLength, d19Plan(false).String(), "%s", detail)
	}
}

// TestKnownHighChannelID: one channel, one message of exactly one full packet, then the sentinel.  With id 0x7f it is
// delivered; with id 0x80 the receiving side refuses the packet and reports an error.
func TestKnownHighChannelID(t *testing.T) {
	run := func(id byte) (mcResult, *mcPlan) {
		p := &mcPlan{Packet: 1024, FlushUS: 200, Senders: 1,
			Chans: []chanSpec{{ID: id, Prio: 1, SendCap: 10, RecvCap: 4096}},
			Ops:   []sendOp{{Ch: 0, Size: 1}, {Ch: 0, Size: 1024}}}
		res := runMConn(p, stallLimit())
		if res.pp != nil {
			ev.Violation(t, "panic:"+res.pp.frame, p.String(), "panic in product code: %s", res.pp.msg)
		}
		if res.harness != "" || res.stall != "" {
			t.Fatalf("harness: directed high-channel-id case could not be driven: %s %s", res.harness, res.stall)
		}
		ev.Case(true, "directed:"+p.String(), "known-reproducer")
		return res, p
	}
	ctl, pc := run(0x7f)
	for _, f := range ctl.findings {
		ev.Violation(t, f.key, pc.String(), "control with channel id 0x7f: %s", f.msg)
	}
	res, p := run(0x80)
	hit, detail := false, ""
	for _, f := range res.findings {
		if f.key != keyHighID {
			ev.Violation(t, f.key, p.String(), "%s", f.msg)
			continue
		}
		hit, detail = true, f.msg
	}
	ev.Sample("known-reproducer", "channel id 0x80, one message of 1024 bytes (= MaxPacketMsgPayloadSize): "+detail)
	if ev.Known(keyHighID) {
		ev.KnownReproduced(keyHighID, hit)
		return
	}
	if hit {
		ev.Violation(t, keyHighID, p.String(), "%s", detail)
	}
}
