package c20

// lib/protoio: the varint-delimited framing both layers rest on (ephemeral keys and AuthSigMessage in the handshake,
// every packet of MConnection).  Messages written are read back identical, in order, however the byte stream is cut
// into reads; the reader consumes exactly the bytes of the messages it returns (the handshake reads one message
// straight from the connection and sealed frames follow on the same connection); WriteMsg reports the bytes it
// wrote; a message longer than maxSize is refused, one of exactly maxSize is read.

import (
	"bytes"
	"fmt"
	"io"
	"testing"

	"github.com/gogo/protobuf/proto"
	"github.com/kardiachain/go-kardia/lib/protoio"
	kp2p "github.com/kardiachain/go-kardia/proto/kardiachain/p2p"
	"pgregory.net/rapid"

	"verifharness/internal/ev"
)

type pieceReader struct {
	data  []byte
	pos   int
	sizes []int
	i     int
}

func (r *pieceReader) Read(p []byte) (int, error) {
	if r.pos >= len(r.data) {
		return 0, io.EOF
	}
	n := r.sizes[r.i%len(r.sizes)]
	r.i++
	if n > len(p) {
		n = len(p)
	}
	if n > len(r.data)-r.pos {
		n = len(r.data) - r.pos
	}
	copy(p, r.data[r.pos:r.pos+n])
	r.pos += n
	return n, nil
}

func TestProtoIO(t *testing.T) {
	rapid.Check(t, func(t *rapid.T) {
		n := rapid.IntRange(1, 12).Draw(t, "n")
		var msgs []*kp2p.Packet
		var sizes []int
		for i := 0; i < n; i++ {
			switch rapid.IntRange(0, 5).Draw(t, "kind") {
			case 0:
				msgs = append(msgs, &kp2p.Packet{Sum: &kp2p.Packet_PacketPing{PacketPing: &kp2p.PacketPing{}}})
			case 1:
				msgs = append(msgs, &kp2p.Packet{Sum: &kp2p.Packet_PacketPong{PacketPong: &kp2p.PacketPong{}}})
			default:
				sz := rapid.SampledFrom([]int{0, 1, 100, 117, 118, 119, 127, 128, 1024, 16370, 16384, 20000}).Draw(t, "size")
				data := make([]byte, sz)
				for j := range data {
					data[j] = byte(i*11 + j*5 + j>>8)
				}
				msgs = append(msgs, &kp2p.Packet{Sum: &kp2p.Packet_PacketMsg{PacketMsg: &kp2p.PacketMsg{
					ChannelID: int32(rapid.SampledFrom([]int{0, 1, 0x40, 0x7f, 0x80, 0xff}).Draw(t, "ch")), EOF: rapid.Bool().Draw(t, "eof"), Data: data}}})
			}
			sizes = append(sizes, proto.Size(msgs[i]))
		}
		pieces := rapid.SliceOfN(rapid.SampledFrom([]int{1, 1, 2, 3, 7, 64, 1000, 100000}), 1, 4).Draw(t, "pieces")
		// maxSize relative to the largest message: below, exactly at, above
		largest := 0
		for _, s := range sizes {
			if s > largest {
				largest = s
			}
		}
		maxSize := largest + rapid.SampledFrom([]int{-1, 0, 0, 1, 1000}).Draw(t, "maxdelta")
		if maxSize < 0 {
			maxSize = 0
		}
		text := fmt.Sprintf("protoio sizes=(%s) pieces=(%s) max=%d", joinInts(sizes), joinInts(pieces), maxSize)
		ev.Case(len(msgs) >= 2 && largest >= 128, text, "protoio")

		var buf bytes.Buffer
		var ends []int
		ev.Guard(t, func() string { return text }, func() {
			w := protoio.NewDelimitedWriter(&buf)
			for i, m := range msgs {
				before := buf.Len()
				wn, err := w.WriteMsg(m)
				if err != nil {
					ev.Violation(t, "protoio.write-failed", text, "message %d: %v", i, err)
				}
				if wn != buf.Len()-before {
					ev.Violation(t, "protoio.write-count-wrong", text, "message %d: WriteMsg returned %d but wrote %d bytes", i, wn, buf.Len()-before)
				}
				ends = append(ends, buf.Len())
			}
			src := &pieceReader{data: buf.Bytes(), sizes: pieces}
			r := protoio.NewDelimitedReader(src, maxSize)
			for i, m := range msgs {
				var got kp2p.Packet
				err := r.ReadMsg(&got)
				if sizes[i] > maxSize {
					if err == nil {
						ev.Violation(t, "protoio.oversize-accepted", text, "message %d of %d bytes was read with maxSize %d", i, sizes[i], maxSize)
					}
					return // the stream is not usable behind a refused message
				}
				if err != nil {
					ev.Violation(t, "protoio.read-failed", text, "message %d of %d bytes (maxSize %d): %v", i, sizes[i], maxSize, err)
				}
				if gb, _ := proto.Marshal(&got); !bytes.Equal(gb, mustMarshal(m)) || !samePacket(&got, m) {
					ev.Violation(t, "protoio.roundtrip-differs", text, "message %d read back differently", i)
				}
				if src.pos != ends[i] {
					ev.Violation(t, "protoio.reader-consumed-too-much", text, "after message %d the reader has consumed %d bytes of the stream, the message ends at %d", i, src.pos, ends[i])
				}
			}
			var extra kp2p.Packet
			if err := r.ReadMsg(&extra); err != io.EOF {
				ev.Violation(t, "protoio.no-eof", text, "reading behind the last message gave %v, not io.EOF", err)
			}
		})
	})
}

func mustMarshal(m proto.Message) []byte {
	b, err := proto.Marshal(m)
	if err != nil {
		panic(err)
	}
	return b
}

// samePacket compares two packets field by field (independent of the marshaller).
func samePacket(a, b *kp2p.Packet) bool {
	switch x := a.Sum.(type) {
	case *kp2p.Packet_PacketPing:
		_, ok := b.Sum.(*kp2p.Packet_PacketPing)
		return ok
	case *kp2p.Packet_PacketPong:
		_, ok := b.Sum.(*kp2p.Packet_PacketPong)
		return ok
	case *kp2p.Packet_PacketMsg:
		y, ok := b.Sum.(*kp2p.Packet_PacketMsg)
		return ok && x.PacketMsg.ChannelID == y.PacketMsg.ChannelID && x.PacketMsg.EOF == y.PacketMsg.EOF && bytes.Equal(x.PacketMsg.Data, y.PacketMsg.Data)
	}
	return false
}
