package c04

import (
	"fmt"
	"strings"
	"testing"
	"time"

	"pgregory.net/rapid"

	"github.com/kardiachain/go-kardia/consensus"
	cstypes "github.com/kardiachain/go-kardia/consensus/types"
	"github.com/kardiachain/go-kardia/lib/log"

	"verifharness/internal/ev"
)

// TestTickerFires: the simulator owns the clock, i.e. it replaces the product's timeout ticker by its own - so the
// ticker itself is checked here, alone, with real (millisecond) timers. Every liveness argument of the state machine
// rests on one obligation: a timeout scheduled for a later height/round/step than anything scheduled before fires.
// Generated: sequences of schedule requests as the state machine issues them (steps NewHeight, Propose, PrevoteWait,
// PrecommitWait; rounds and heights that mostly advance, sometimes repeat or go back; durations 0-2 ms). Each request
// that is later than the last one that fired must come back on the ticker's channel; nothing is demanded of requests
// that are not later (one-directional).
func TestTickerFires(t *testing.T) {
	steps := []cstypes.RoundStepType{cstypes.RoundStepNewHeight, cstypes.RoundStepPropose, cstypes.RoundStepPrevoteWait, cstypes.RoundStepPrecommitWait}
	wait := time.Duration(ev.Scale("TICK_WAIT_S", 20)) * time.Second
	rapid.Check(t, func(t *rapid.T) {
		tk := consensus.NewTimeoutTicker()
		tk.SetLogger(log.New())
		if err := tk.Start(); err != nil {
			t.Fatalf("harness: %v", err)
		}
		defer tk.Stop()
		last := *consensus.EmptyTimeoutInfo()
		var logv []string
		text := func() string { return strings.Join(logv, " ") }
		h, r := uint64(rapid.IntRange(1, 3).Draw(t, "h0")), uint32(1)
		failedRounds, demanded := 0, 0
		for i, n := 0, rapid.IntRange(3, 14).Draw(t, "n"); i < n; i++ {
			// how the position moves: mostly the next step of the same round, sometimes the next round / height,
			// sometimes an arbitrary earlier or later one
			st := steps[rapid.IntRange(0, len(steps)-1).Draw(t, "step")]
			switch rapid.IntRange(0, 9).Draw(t, "move") {
			case 0, 1, 2:
				r++
				failedRounds++
			case 3:
				h++
				r = 1
			case 4:
				r = uint32(rapid.IntRange(1, 5).Draw(t, "round"))
			}
			ti := consensus.VerifTimeoutInfo{Duration: time.Duration(rapid.IntRange(0, 2).Draw(t, "ms")) * time.Millisecond, Height: h, Round: r, Step: st}
			later := ti.Height > last.Height || (ti.Height == last.Height && (ti.Round > last.Round || (ti.Round == last.Round && ti.Step > last.Step)))
			logv = append(logv, fmt.Sprintf("%d/%d/%d(%v)", ti.Height, ti.Round, ti.Step, later))
			tk.ScheduleTimeout(ti)
			if !later {
				// may or may not fire; give a stale one a moment so that it cannot be mistaken for a later request
				select {
				case <-tk.Chan():
				case <-time.After(3 * time.Millisecond):
				}
				continue
			}
			demanded++
			deadline := time.After(wait)
			fired := false
			for !fired {
				select {
				case got := <-tk.Chan():
					if got.Height == ti.Height && got.Round == ti.Round && got.Step == ti.Step {
						fired = true
					}
				case <-deadline:
					ev.Violation(t, "ticker.scheduled-timeout-never-fired", text(), "timeout %d/%d/%v (%v) was scheduled after %d/%d/%v had fired and did not come back within %v", ti.Height, ti.Round, ti.Step, ti.Duration, last.Height, last.Round, last.Step, wait)
					return
				}
			}
			last = ti
		}
		ev.Case(failedRounds >= 2 && demanded >= 3, text(), "ticker")
	})
}
