package c04

import (
	"fmt"
	"strings"
	"testing"
	"time"

	"pgregory.net/rapid"

	"github.com/kardiachain/go-kardia/consensus"
	cstypes "github.com/kardiachain/go-kardia/consensus/types"
	"github.com/kardiachain/go-kardia/lib/log"

	"verifharness/internal/ev"
)

// TestTickerFires: the simulator owns the clock, i.e. it replaces the product's timeout ticker by its own - so the
// ticker itself is checked here, alone, with real (millisecond) timers. Every liveness argument of the state machine
// rests on one obligation: a timeout scheduled for a later height/round/step than anything scheduled before fires.
// Generated: sequences of schedule requests as the state machine issues them (steps NewHeight, Propose, PrevoteWait,
// PrecommitWait; rounds and heights that mostly advance, sometimes repeat or go back; durations 0-2 ms). Each request
// that is later than the last one that fired must come back on the ticker's channel; nothing is demanded of requests
// that are not later (one-directional).
// runTicks feeds the requests to a fresh product ticker, waiting for every request that must fire; it returns the index
// of the first one that did not come back within wait, or -1.
func runTicks(seq []consensus.VerifTimeoutInfo, wait time.Duration) int {
	tk := consensus.NewTimeoutTicker()
	tk.SetLogger(log.New())
	if err := tk.Start(); err != nil {
		panic("harness: " + err.Error())
	}
	defer tk.Stop()
	last := *consensus.EmptyTimeoutInfo()
	for i, ti := range seq {
		tk.ScheduleTimeout(ti)
		if !laterThan(ti, last) {
			// may or may not fire; give a stale one a moment so that it cannot be mistaken for a later request
			select {
			case <-tk.Chan():
			case <-time.After(3 * time.Millisecond):
			}
			continue
		}
		deadline := time.After(wait)
		for fired := false; !fired; {
			select {
			case got := <-tk.Chan():
				fired = got.Height == ti.Height && got.Round == ti.Round && got.Step == ti.Step
			case <-deadline:
				return i
			}
		}
		last = ti
	}
	return -1
}

func laterThan(ti, last consensus.VerifTimeoutInfo) bool {
	return ti.Height > last.Height || (ti.Height == last.Height && (ti.Round > last.Round || (ti.Round == last.Round && ti.Step > last.Step)))
}

func TestTickerFires(t *testing.T) {
	steps := []cstypes.RoundStepType{cstypes.RoundStepNewHeight, cstypes.RoundStepPropose, cstypes.RoundStepPrevoteWait, cstypes.RoundStepPrecommitWait}
	wait := time.Duration(ev.Scale("TICK_WAIT_S", 20)) * time.Second
	rapid.Check(t, func(t *rapid.T) {
		var seq []consensus.VerifTimeoutInfo
		var logv []string
		text := func() string { return strings.Join(logv, " ") }
		h, r := uint64(rapid.IntRange(1, 3).Draw(t, "h0")), uint32(1)
		failedRounds, demanded := 0, 0
		last := *consensus.EmptyTimeoutInfo()
		for i, n := 0, rapid.IntRange(3, 14).Draw(t, "n"); i < n; i++ {
			// how the position moves: mostly the next step of the same round, sometimes the next round / height,
			// sometimes an arbitrary earlier or later one
			st := steps[rapid.IntRange(0, len(steps)-1).Draw(t, "step")]
			switch rapid.IntRange(0, 9).Draw(t, "move") {
			case 0, 1, 2:
				r++
				failedRounds++
			case 3:
				h++
				r = 1
			case 4:
				r = uint32(rapid.IntRange(1, 5).Draw(t, "round"))
			}
			ti := consensus.VerifTimeoutInfo{Duration: time.Duration(rapid.IntRange(0, 2).Draw(t, "ms")) * time.Millisecond, Height: h, Round: r, Step: st}
			later := laterThan(ti, last)
			if later {
				demanded++
				last = ti
			}
			logv = append(logv, fmt.Sprintf("%d/%d/%d(%v)", ti.Height, ti.Round, ti.Step, later))
			seq = append(seq, ti)
		}
		if bad := runTicks(seq, wait); bad >= 0 {
			// a millisecond timer that has not fired after this long: ask again, alone and much more patiently, before
			// calling it lost (a starved machine delays, it does not lose)
			if again := runTicks(seq[:bad+1], 6*wait); again == bad {
				ti := seq[bad]
				ev.Violation(t, "ticker.scheduled-timeout-never-fired", text(), "timeout %d/%d/%v (%v), request #%d of the sequence and later than everything before it, did not come back (waited %v, then %v on a fresh ticker)", ti.Height, ti.Round, ti.Step, ti.Duration, bad, wait, 6*wait)
				return
			}
			ev.Class("ticker:slow-machine-retry-passed")
		}
		ev.Case(failedRounds >= 2 && demanded >= 3, text(), "ticker")
	})
}
