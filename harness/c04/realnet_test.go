package c04

import (
	"fmt"
	"sync"
	"sync/atomic"
	"testing"
	"time"

	"pgregory.net/rapid"

	"github.com/kardiachain/go-kardia/configs"
	"github.com/kardiachain/go-kardia/consensus"
	"github.com/kardiachain/go-kardia/lib/crypto"
	"github.com/kardiachain/go-kardia/lib/log"
	"github.com/kardiachain/go-kardia/lib/p2p"
	"github.com/kardiachain/go-kardia/lib/p2p/mock"
	"github.com/kardiachain/go-kardia/mainchain/blockchain"

	"verifharness/internal/ev"
	"verifharness/internal/netsim"
)

// ---------------------------------------------------------------- the product's reactors, routines and timers together
//
// Everything else in this check drives the state machine through a MODEL of the gossip layer. Here nothing is
// modelled: each validator is a real node with the product's ConsensusManager (its Receive, its three gossip routines
// per peer, its event broadcasts), the product's receive routine and the product's timeout ticker, on the test
// configuration's millisecond timeouts. Only the wire is the harness's: a peer object hands the bytes of Send to the
// other side's Receive, in order, on its own goroutine - like the TCP connection it stands for it never loses or
// reorders anything, but a link may hold everything back for a drawn time at the start (the adversarial prefix: a peer
// that is slow, a congested connection; a full queue pushes back on the sender exactly as a full socket does). After
// that delivery is prompt.
// Oracle: every node keeps committing - judged without a clock race: a violation is a node whose chain does not grow
// for a very long time (two minutes, where blocks take a fraction of a second) while every routine and timer is running
// and all links are open, or a height that has gone through an absurd number of rounds; a run that is merely slow is
// inconclusive.

type wire struct {
	ch byte
	b  []byte
}

type bridgePeer struct {
	*mock.Peer
	q      chan wire
	hold   time.Duration // nothing is delivered on this link before start+hold
	closed atomic.Bool
}

func (p *bridgePeer) Send(ch byte, b []byte) bool {
	if p.closed.Load() || !p.IsRunning() {
		return false
	}
	select {
	case p.q <- wire{ch, append([]byte{}, b...)}:
		return true
	case <-time.After(2 * time.Second):
		return false
	}
}
func (p *bridgePeer) TrySend(ch byte, b []byte) bool {
	if p.closed.Load() || !p.IsRunning() {
		return false
	}
	select {
	case p.q <- wire{ch, append([]byte{}, b...)}:
		return true
	default:
		return false
	}
}
func (p *bridgePeer) FlushStop() { _ = p.Stop() }

type rnode struct {
	nd   *netsim.Node
	conR *consensus.ConsensusManager
	sw   *p2p.Switch
}

func realSwitch(r p2p.Reactor) *p2p.Switch {
	priv, err := crypto.GenerateKey()
	if err != nil {
		panic(err)
	}
	nk := p2p.NodeKey{PrivKey: priv}
	cfg := configs.DefaultP2PConfig()
	ni := p2p.DefaultNodeInfo{DefaultNodeID: nk.ID(), ListenAddr: "127.0.0.1:26656", Network: "verif", Version: "1.0.0", Moniker: "n"}
	sw := p2p.NewSwitch(cfg, p2p.NewMultiplexTransport(ni, nk, p2p.MConnConfig(cfg)))
	sw.SetLogger(log.New())
	sw.AddReactor("CONSENSUS", r)
	return sw
}

func TestRealReactors(t *testing.T) {
	stall := time.Duration(ev.Scale("REALNET_STALL_S", 120)) * time.Second
	cap := time.Duration(ev.Scale("REALNET_CAP_S", 420)) * time.Second
	rapid.Check(t, func(t *rapid.T) {
		n := rapid.SampledFrom([]int{2, 3, 4, 4, 4, 5}).Draw(t, "n")
		powers := make([]int64, n)
		for i := range powers {
			powers[i] = int64(rapid.SampledFrom([]int{15, 15, 30}).Draw(t, "p"))
		}
		target := uint64(rapid.IntRange(3, 5).Draw(t, "heights"))
		g, keys := netsim.MakeGenesis(powers, 2)
		text := fmt.Sprintf("real reactors: powers=%v target height %d", powers, target)
		nodes := make([]*rnode, n)
		var all []*bridgePeer
		var wg sync.WaitGroup
		cleanup := func() {
			for _, p := range all {
				p.closed.Store(true)
			}
			for _, rn := range nodes {
				if rn != nil && rn.conR != nil {
					_ = rn.conR.Stop()
				}
			}
			for _, p := range all {
				close(p.q)
				_ = p.Stop()
			}
			wg.Wait()
			for _, rn := range nodes {
				if rn != nil {
					rn.nd.Close()
				}
			}
		}
		defer cleanup()
		for i := 0; i < n; i++ {
			nd, err := netsim.NewNode(i, g, keys[i], netsim.NodeOpts{RealTicker: true, WAL: netsim.NewMemWAL(nil),
				Cache: &blockchain.CacheConfig{TrieCleanLimit: 0, TrieDirtyLimit: 256, TrieTimeLimit: 5 * time.Minute, SnapshotLimit: 0}})
			if err != nil {
				t.Fatalf("harness: %v", err)
			}
			conR := consensus.NewConsensusManager(nd.CS, &configs.FastSyncConfig{Enable: false})
			conR.SetLogger(log.New())
			nodes[i] = &rnode{nd: nd, conR: conR, sw: realSwitch(conR)}
		}
		// links: peers[i][j] is node j as seen by node i
		peers := make([][]*bridgePeer, n)
		for i := range peers {
			peers[i] = make([]*bridgePeer, n)
			for j := 0; j < n; j++ {
				if i == j {
					continue
				}
				p := &bridgePeer{Peer: mock.NewPeer(nil), q: make(chan wire, 4096)}
				if rapid.IntRange(0, 2).Draw(t, "slow") > 0 {
					p.hold = time.Duration(rapid.SampledFrom([]int{20, 100, 400, 1500}).Draw(t, "hold")) * time.Millisecond
					text += fmt.Sprintf(" link %d->%d holds back for %v;", i, j, p.hold)
				}
				peers[i][j] = p
				all = append(all, p)
			}
		}
		for i, rn := range nodes {
			if err := rn.conR.Start(); err != nil {
				t.Fatalf("harness: reactor %d: %v", i, err)
			}
		}
		for i := 0; i < n; i++ {
			for j := 0; j < n; j++ {
				if i == j {
					continue
				}
				p, back, dst := peers[i][j], peers[j][i], nodes[j]
				// what node i sends to "j" arrives at node j from "i"
				wg.Add(1)
				go func() {
					defer wg.Done()
					if p.hold > 0 {
						time.Sleep(p.hold)
					}
					for w := range p.q {
						if p.closed.Load() {
							continue
						}
						func() {
							defer func() { recover() }() // a reactor stopped under our feet at shutdown
							dst.conR.Receive(w.ch, back, w.b)
						}()
					}
				}()
			}
		}
		for i := 0; i < n; i++ {
			for j := 0; j < n; j++ {
				if i != j {
					_ = nodes[i].sw.VerifC18AddPeer(peers[i][j])
					nodes[i].conR.InitPeer(peers[i][j])
					nodes[i].conR.AddPeer(peers[i][j])
				}
			}
		}
		// watch
		start := time.Now()
		lastH := make([]uint64, n)
		lastChange := make([]time.Time, n)
		for i := range lastChange {
			lastChange[i] = start
		}
		maxRound := uint32(0)
		verdict := ""
		for verdict == "" {
			fp := ""
			minH := uint64(1 << 62)
			for i, rn := range nodes {
				rs := rn.nd.CS.GetRoundState()
				fp += fmt.Sprintf("%d/%d/%d ", rs.Height, rs.Round, rs.Step)
				h := rn.nd.BOps.Height()
				if h < minH {
					minH = h
				}
				if h != lastH[i] {
					lastH[i], lastChange[i] = h, time.Now()
				}
				if rs.Round > maxRound {
					maxRound = rs.Round
				}
			}
			if minH >= target {
				break
			}
			for i := range nodes {
				// every node is connected to every other one and nothing is held back any more: a node whose chain does not
				// grow for this long (blocks take a fraction of a second here) is not coming back
				if time.Since(lastChange[i]) > stall {
					verdict = fmt.Sprintf("node %d has not committed anything for %v (height/round/step per node: %s)", i, stall, fp)
				}
			}
			if maxRound > 150 {
				verdict = fmt.Sprintf("a height went through more than 150 rounds (%s)", fp)
			}
			if verdict == "" && time.Since(start) > cap {
				t.Fatalf("harness: the real network did not reach height %d within %v (%s) - inconclusive", target, cap, fp)
			}
			time.Sleep(10 * time.Millisecond)
		}
		if verdict != "" {
			key := "realnet.stalled"
			if maxRound > 150 {
				key = "realnet.livelock"
			}
			ev.Violation(t, key, text, "the product's reactors, routines and timers together stopped making progress: %s", verdict)
			return
		}
		// agreement on everything every node has
		for h := uint64(1); h <= target; h++ {
			ref := nodes[0].nd.BOps.LoadBlock(h)
			for i := 1; i < n; i++ {
				if b := nodes[i].nd.BOps.LoadBlock(h); ref != nil && b != nil && b.Hash() != ref.Hash() {
					ev.Violation(t, "realnet.agreement", text, "nodes 0 and %d committed different blocks at height %d", i, h)
				}
			}
		}
		slow := 0
		for _, p := range all {
			if p.hold > 0 {
				slow++
			}
		}
		ev.Case(slow > 0 && n >= 3, text, "real-reactors", fmt.Sprintf("real-reactors:n=%d", n))
		if maxRound > 1 {
			ev.Class("real-reactors:some-height-needed-more-than-one-round")
		}
	})
}
