package c04

import (
	"fmt"
	"math/big"
	"strings"
	"sync"
	"sync/atomic"
	"testing"
	"time"

	"pgregory.net/rapid"

	bcreactor "github.com/kardiachain/go-kardia/blockchain"
	"github.com/kardiachain/go-kardia/configs"
	"github.com/kardiachain/go-kardia/consensus"
	"github.com/kardiachain/go-kardia/lib/common"
	"github.com/kardiachain/go-kardia/lib/crypto"
	"github.com/kardiachain/go-kardia/lib/log"
	"github.com/kardiachain/go-kardia/lib/p2p"
	"github.com/kardiachain/go-kardia/lib/p2p/mock"
	"github.com/kardiachain/go-kardia/mainchain/blockchain"
	"github.com/kardiachain/go-kardia/types"

	"verifharness/internal/ev"
	"verifharness/internal/netsim"
)

// ---------------------------------------------------------------- the product's reactors, routines and timers together
//
// Everything else in this check drives the state machine through a MODEL of the gossip layer. Here nothing is
// modelled: each validator is a real node with the product's ConsensusManager (its Receive, its three gossip routines
// per peer, its event broadcasts), the product's receive routine and the product's timeout ticker, on the test
// configuration's millisecond timeouts. Only the wire is the harness's: a peer object hands the bytes of Send to the
// other side's Receive, in order, on its own goroutine - like the TCP connection it stands for it never loses or
// reorders anything, but a link may hold everything back for a drawn time at the start (the adversarial prefix: a peer
// that is slow, a congested connection; a full queue pushes back on the sender exactly as a full socket does). After
// that delivery is prompt.
// Oracle: every node keeps committing - judged without a clock race: a violation is a node whose chain does not grow
// for a very long time (two minutes, where blocks take a fraction of a second) while every routine and timer is running
// and all links are open, or a height that has gone through an absurd number of rounds; a run that is merely slow is
// inconclusive.

type wire struct {
	ch byte
	b  []byte
}

type bridgePeer struct {
	*mock.Peer
	q      chan wire
	done   chan struct{} // closed when the link is taken down (q itself is never closed: senders may still be running)
	hold   time.Duration // nothing is delivered on this link before start+hold
	closed atomic.Bool
	kv     sync.Map
	// counters for the diagnostics of a stall
	queued, delivered, skipped, refused atomic.Int64
}

// Get / Set: the product's peer keeps these values in a concurrent map; mock.Peer uses a plain one, which the reactors'
// goroutines would race on.
func (p *bridgePeer) Get(k string) interface{} {
	v, _ := p.kv.Load(k)
	return v
}
func (p *bridgePeer) Set(k string, v interface{}) { p.kv.Store(k, v) }

func (p *bridgePeer) down() {
	if p.closed.CompareAndSwap(false, true) {
		close(p.done)
	}
	_ = p.Stop() // the gossip routines for this peer end when they see it is not running
}

func (p *bridgePeer) Send(ch byte, b []byte) bool {
	if p.closed.Load() || !p.IsRunning() {
		return false
	}
	select {
	case p.q <- wire{ch, append([]byte{}, b...)}:
		p.queued.Add(1)
		return true
	case <-p.done:
		p.refused.Add(1)
		return false
	case <-time.After(2 * time.Second):
		p.refused.Add(1)
		return false
	}
}
func (p *bridgePeer) TrySend(ch byte, b []byte) bool {
	if p.closed.Load() || !p.IsRunning() {
		return false
	}
	select {
	case p.q <- wire{ch, append([]byte{}, b...)}:
		p.queued.Add(1)
		return true
	default:
		p.refused.Add(1)
		return false
	}
}
func (p *bridgePeer) FlushStop() { _ = p.Stop() }

type rnode struct {
	nd   *netsim.Node
	conR *consensus.ConsensusManager
	bcR  *bcreactor.BlockchainReactor
	sw   *p2p.Switch
}

// receive routes a message the way the switch does: by channel to the reactor that registered it.
func (rn *rnode) receive(ch byte, src p2p.Peer, b []byte) {
	if ch == bcreactor.BlockchainChannel {
		rn.bcR.Receive(ch, src, b)
		return
	}
	rn.conR.Receive(ch, src, b)
}

func realSwitch(r p2p.Reactor, bc p2p.Reactor) *p2p.Switch {
	priv, err := crypto.GenerateKey()
	if err != nil {
		panic(err)
	}
	nk := p2p.NodeKey{PrivKey: priv}
	cfg := configs.DefaultP2PConfig()
	ni := p2p.DefaultNodeInfo{DefaultNodeID: nk.ID(), ListenAddr: "127.0.0.1:26656", Network: "verif", Version: "1.0.0", Moniker: "n"}
	sw := p2p.NewSwitch(cfg, p2p.NewMultiplexTransport(ni, nk, p2p.MConnConfig(cfg)))
	sw.SetLogger(log.New())
	sw.AddReactor("BLOCKCHAIN", bc)
	sw.AddReactor("CONSENSUS", r)
	return sw
}

// draws records the values rapid chose for a case, so that the very same case can be executed again (a stall is only
// reported if it happens every time the case is run).
type draws struct {
	t      *rapid.T
	vals   []int
	replay bool
	pos    int
}

func (d *draws) next(f func() int) int {
	if d.replay {
		v := d.vals[d.pos]
		d.pos++
		return v
	}
	v := f()
	d.vals = append(d.vals, v)
	return v
}
func (d *draws) intRange(lo, hi int, label string) int {
	return d.next(func() int { return rapid.IntRange(lo, hi).Draw(d.t, label) })
}
func (d *draws) sampled(from []int, label string) int {
	return d.next(func() int { return rapid.SampledFrom(from).Draw(d.t, label) })
}
func (d *draws) boolean(label string) bool {
	return d.next(func() int {
		if rapid.Bool().Draw(d.t, label) {
			return 1
		}
		return 0
	}) == 1
}

func TestRealReactors(t *testing.T) {
	stall := time.Duration(ev.Scale("REALNET_STALL_S", 120)) * time.Second
	cap := time.Duration(ev.Scale("REALNET_CAP_S", 420)) * time.Second
	caseText := ""
	cache := func() *blockchain.CacheConfig {
		return &blockchain.CacheConfig{TrieCleanLimit: 0, TrieDirtyLimit: 256, TrieTimeLimit: 5 * time.Minute, SnapshotLimit: 0}
	}
	// the nodes log through loggers made before this point or through the root: count the one message that tells what
	// a stalled restarted validator ran into
	var ownConflicts atomic.Int64
	netsim.Quiet()
	log.Root().SetHandler(log.FuncHandler(func(r *log.Record) error {
		if strings.Contains(r.Msg, "conflicting vote from ourselves") {
			ownConflicts.Add(1)
		}
		return nil
	}))
	defer log.Root().SetHandler(log.DiscardHandler())
	body := func(t *rapid.T, d *draws) (stalled string) {
		ownConflicts.Store(0)
		n := d.sampled([]int{2, 3, 4, 4, 4, 5}, "n")
		powers := make([]int64, n)
		for i := range powers {
			powers[i] = int64(d.sampled([]int{15, 15, 30}, "p"))
		}
		target := uint64(d.intRange(3, 6, "heights"))
		g, keys := netsim.MakeGenesis(powers, 2)
		text := fmt.Sprintf("real reactors: powers=%v target height %d", powers, target)
		nodes := make([]*rnode, n)
		peers := make([][]*bridgePeer, n) // peers[i][j] is node j as seen by node i
		for i := range peers {
			peers[i] = make([]*bridgePeer, n)
		}
		var all []*bridgePeer
		var wg sync.WaitGroup
		var recvPanics atomic.Value
		var mu sync.Mutex // guards nodes[] against the pumps during a restart
		nodeAt := func(i int) *rnode {
			mu.Lock()
			defer mu.Unlock()
			return nodes[i]
		}
		cleanup := func() {
			for _, p := range all {
				p.down()
			}
			for i := range nodes {
				if rn := nodeAt(i); rn != nil && rn.conR != nil {
					_ = rn.conR.Stop()
					_ = rn.bcR.Stop()
				}
			}
			wg.Wait()
			for i := range nodes {
				if rn := nodeAt(i); rn != nil {
					rn.nd.Close()
				}
			}
		}
		defer cleanup()
		boot := func(i int, o netsim.NodeOpts, fastSync bool) *rnode {
			o.RealTicker, o.Cache = true, cache()
			nd, err := netsim.NewNode(i, g, keys[i], o)
			if err != nil {
				t.Fatalf("harness: %v", err)
			}
			// as mainchain/backend.go wires them: one fast-sync configuration for the block-sync reactor and the
			// consensus reactor (which then waits for the switch-over)
			fs := &configs.FastSyncConfig{ServiceName: "BCR", Enable: fastSync, MaxPeers: 10, TargetPending: 10, SyncTimeout: 10 * time.Second, PeerTimeout: 5 * time.Second}
			conR := consensus.NewConsensusManager(nd.CS, fs)
			conR.SetLogger(log.New())
			bcR := bcreactor.NewBlockchainReactor(nd.CS.VerifState(), nd.Exec, nd.BOps, fs)
			bcR.SetLogger(log.New())
			return &rnode{nd: nd, conR: conR, bcR: bcR, sw: realSwitch(conR, bcR)}
		}
		startNode := func(rn *rnode) error {
			if err := rn.bcR.Start(); err != nil {
				return err
			}
			return rn.conR.Start()
		}
		// link makes the two peer objects of the pair (i, j) and their pumps, and introduces them to the reactors
		link := func(i, j int, holdIJ, holdJI time.Duration) {
			pij := &bridgePeer{Peer: mock.NewPeer(nil), q: make(chan wire, 4096), done: make(chan struct{}), hold: holdIJ}
			pji := &bridgePeer{Peer: mock.NewPeer(nil), q: make(chan wire, 4096), done: make(chan struct{}), hold: holdJI}
			peers[i][j], peers[j][i] = pij, pji
			all = append(all, pij, pji)
			pump := func(p, back *bridgePeer, to int) {
				defer wg.Done()
				if p.hold > 0 {
					select {
					case <-time.After(p.hold):
					case <-p.done:
						return
					}
				}
				for {
					select {
					case <-p.done:
						return
					case w := <-p.q:
						if !back.IsRunning() || !p.IsRunning() {
							p.skipped.Add(1)
							continue // the switch on one side has dropped this peer: the connection is gone (see the watch loop)
						}
						p.delivered.Add(1)
						func() {
							defer func() {
								// MConnection's recvRoutine recovers a panic of Receive and drops the peer; here it is a
								// finding unless the link is being taken down under the reactor's feet
								if r := recover(); r != nil && !p.closed.Load() && !back.closed.Load() {
									recvPanics.Store(fmt.Sprintf("Receive on node %d panicked: %v", to, r))
								}
							}()
							nodeAt(to).receive(w.ch, back, w.b)
						}()
					}
				}
			}
			// as the switch does on both sides of a new connection: every reactor gets to initialise the peer before the
			// connection carries anything, and only then the peer is added (which starts the gossip routines and sends the
			// first NewRoundStep)
			ni, nj := nodeAt(i), nodeAt(j)
			ni.conR.InitPeer(pij)
			nj.conR.InitPeer(pji)
			_ = ni.sw.VerifC18AddPeer(pij)
			_ = nj.sw.VerifC18AddPeer(pji)
			wg.Add(2)
			go pump(pij, pji, j) // what node i sends to "j" arrives at node j from "i"
			go pump(pji, pij, i)
			ni.bcR.AddPeer(pij)
			nj.bcR.AddPeer(pji)
			ni.conR.AddPeer(pij)
			nj.conR.AddPeer(pji)
		}
		// optionally one validator joins late: the others (who hold +2/3 without it) run ahead, then it starts with an
		// empty database in fast-sync mode, fetches the chain through the product's block-sync reactor, switches over to
		// consensus and has to keep up from there
		joiner, joinAt, joined := -1, uint64(0), false
		if n >= 3 && d.intRange(0, 2, "latejoin") == 0 {
			cand := d.intRange(0, n-1, "joiner")
			var total int64
			for _, p := range powers {
				total += p
			}
			if (total-powers[cand])*3 > total*2 {
				joiner, joinAt = cand, uint64(d.intRange(2, 5, "joinat"))
				text += fmt.Sprintf(" node %d joins by block sync once the others are at height %d;", joiner, joinAt)
			}
		}
		for i := 0; i < n; i++ {
			if i == joiner {
				continue
			}
			nodes[i] = boot(i, netsim.NodeOpts{WAL: netsim.NewMemWAL(nil)}, false)
		}
		for i := range nodes {
			if nodes[i] == nil {
				continue
			}
			if err := startNode(nodes[i]); err != nil {
				t.Fatalf("harness: node %d: %v", i, err)
			}
		}
		slow := 0
		drawHold := func(i, j int) time.Duration {
			if d.intRange(0, 2, "slow") == 0 {
				return 0
			}
			slow++
			h := time.Duration(d.sampled([]int{20, 100, 400, 1500}, "hold")) * time.Millisecond
			text += fmt.Sprintf(" link %d->%d holds back for %v;", i, j, h)
			return h
		}
		for i := 0; i < n; i++ {
			for j := i + 1; j < n; j++ {
				if i != joiner && j != joiner {
					link(i, j, drawHold(i, j), drawHold(j, i))
				}
			}
		}
		if joiner >= 0 {
			target += joinAt // it has to catch up and then keep up for a few heights
		}

		// optionally a few signed transfers sit in one node's pool, so that some blocks carry transactions
		withTxs := 0
		if d.boolean("txs") {
			at := d.intRange(0, n-1, "txnode")
			if rn := nodeAt(at); rn != nil {
				for k := uint64(0); k < uint64(d.intRange(1, 5, "ntx")); k++ {
					tx, err := types.SignTx(types.HomesteadSigner{}, types.NewTransaction(k, common.BytesToAddress([]byte{0xc0, 0x04}), big.NewInt(1000), 40000, big.NewInt(1), nil), netsim.Key(100))
					if err == nil && rn.nd.TxPool.AddLocal(tx) == nil {
						withTxs++
					}
				}
				text += fmt.Sprintf(" %d transfers in node %d's pool;", withTxs, at)
			}
		}
		// optionally one node is stopped and started again on its own database and log while the others go on
		restartNode, restartAfter, restarted := -1, time.Duration(0), false
		if d.boolean("restart") {
			restartNode = d.intRange(0, n-1, "restartnode")
			if restartNode == joiner {
				restartNode = (restartNode + 1) % n
			}
			restartAfter = time.Duration(d.sampled([]int{30, 150, 600}, "restartafter")) * time.Millisecond
			text += fmt.Sprintf(" node %d restarts after %v;", restartNode, restartAfter)
		}
		doRestart := func(k int) {
			old := nodeAt(k)
			for j := 0; j < n; j++ {
				if j == k || peers[k][j] == nil || nodeAt(j) == nil {
					continue
				}
				peers[k][j].down()
				peers[j][k].down()
				nodeAt(j).conR.RemovePeer(peers[j][k], "peer restarts")
				nodeAt(j).bcR.RemovePeer(peers[j][k], "peer restarts")
			}
			_ = old.conR.Stop()
			_ = old.bcR.Stop()
			var img []byte
			if mw, ok := old.nd.CS.VerifWAL().(*netsim.MemWAL); ok {
				img = mw.Image("all")
			}
			old.nd.Close()
			nw := boot(k, netsim.NodeOpts{DB: old.nd.DB, WAL: netsim.NewMemWALFrom(img, nil)}, false)
			mu.Lock()
			nodes[k] = nw
			mu.Unlock()
			if err := startNode(nw); err != nil {
				ev.Violation(t, "realnet.restart-failed", text, "node %d could not be started again on its own database and log: %v", k, err)
				return
			}
			for j := 0; j < n; j++ {
				if j != k && nodeAt(j) != nil {
					link(k, j, 0, 0)
				}
			}
		}
		doJoin := func(k int) {
			nw := boot(k, netsim.NodeOpts{WAL: netsim.NewMemWAL(nil)}, true)
			mu.Lock()
			nodes[k] = nw
			mu.Unlock()
			if err := startNode(nw); err != nil {
				ev.Violation(t, "realnet.join-failed", text, "node %d could not be started in fast-sync mode: %v", k, err)
				return
			}
			for j := 0; j < n; j++ {
				if j != k && nodeAt(j) != nil {
					link(k, j, 0, 0)
				}
			}
		}
		// watch
		start := time.Now()
		lastH := make([]uint64, n)
		lastChange := make([]time.Time, n)
		for i := range lastChange {
			lastChange[i] = start
		}
		maxRound := uint32(0)
		verdict := ""
		dropped := 0
		for verdict == "" {
			if restartNode >= 0 && !restarted && time.Since(start) > restartAfter {
				restarted = true
				msg, frame := ev.Try(func() { doRestart(restartNode) })
				if msg != "" {
					ev.Violation(t, "panic:"+frame, text, "restart of node %d panicked: %s", restartNode, msg)
					return ""
				}
				lastChange[restartNode] = time.Now()
			}
			// a switch that drops a peer (StopPeerForError: some reactor reported it) ends the connection; a node redials
			// its persistent peers, so the pair is connected again with fresh peer objects on both sides
			for i := 0; i < n; i++ {
				for j := i + 1; j < n; j++ {
					a, b := peers[i][j], peers[j][i]
					if a == nil || b == nil || a.closed.Load() || b.closed.Load() || nodeAt(i) == nil || nodeAt(j) == nil {
						continue
					}
					if !a.IsRunning() || !b.IsRunning() {
						a.down()
						b.down()
						for _, e := range []struct {
							at int
							p  *bridgePeer
						}{{i, a}, {j, b}} {
							nodeAt(e.at).conR.RemovePeer(e.p, "connection ended")
							nodeAt(e.at).bcR.RemovePeer(e.p, "connection ended")
						}
						dropped++
						link(i, j, 0, 0)
					}
				}
			}
			fp := ""
			minH := uint64(1 << 62)
			if joiner >= 0 && !joined {
				others := uint64(1 << 62)
				for i := range nodes {
					if rn := nodeAt(i); rn != nil {
						if h := rn.nd.BOps.Height(); h < others {
							others = h
						}
					}
				}
				if others >= joinAt {
					joined = true
					msg, frame := ev.Try(func() { doJoin(joiner) })
					if msg != "" {
						ev.Violation(t, "panic:"+frame, text, "start of the late joiner panicked: %s", msg)
						return ""
					}
					lastChange[joiner] = time.Now()
				}
			}
			for i := range nodes {
				rn := nodeAt(i)
				if rn == nil {
					lastChange[i] = time.Now() // not there yet
					continue
				}
				rs := rn.nd.CS.GetRoundState()
				fp += fmt.Sprintf("%d/%d/%d ", rs.Height, rs.Round, rs.Step)
				h := rn.nd.BOps.Height()
				if h < minH {
					minH = h
				}
				if h != lastH[i] {
					lastH[i], lastChange[i] = h, time.Now()
				}
				if rs.Round > maxRound {
					maxRound = rs.Round
				}
			}
			if minH >= target && (restartNode < 0 || restarted) && (joiner < 0 || joined) {
				break
			}
			for i := range nodes {
				// every node is connected to every other one and nothing is held back any more: a node whose chain does not
				// grow for this long (blocks take a fraction of a second here) is not coming back
				if time.Since(lastChange[i]) > stall {
					verdict = fmt.Sprintf("node %d has not committed anything for %v (height/round/step per node: %s)", i, stall, fp)
					verdict += fmt.Sprintf("\n \"Found conflicting vote from ourselves\" logged %d times in this run", ownConflicts.Load())
					// every node's own votes of its current round, every live link's counters, and every view of every node
					for a := 0; a < n; a++ {
						if ra := nodeAt(a); ra != nil {
							rs := ra.nd.CS.GetRoundState()
							verdict += fmt.Sprintf("\n n%d %d/%d/%v own prevotes=%v precommits=%v lastCommit=%v", a, rs.Height, rs.Round, rs.Step, rs.Votes.Prevotes(rs.Round).BitArray(), rs.Votes.Precommits(rs.Round).BitArray(), rs.LastCommit != nil)
						}
						for b := 0; b < n; b++ {
							if pl := peers[a][b]; pl != nil && !pl.closed.Load() {
								view := "no peer state"
								if ps, ok := pl.Get(types.PeerStateKey).(*consensus.PeerState); ok {
									prs := ps.GetRoundState()
									view = fmt.Sprintf("%d/%d/%v prevotes=%v precommits=%v", prs.Height, prs.Round, prs.Step, prs.Prevotes, prs.Precommits)
								}
								verdict += fmt.Sprintf("\n   link n%d->n%d queued=%d delivered=%d skipped=%d refused=%d inqueue=%d; n%d believes n%d is at %s", a, b, pl.queued.Load(), pl.delivered.Load(), pl.skipped.Load(), pl.refused.Load(), len(pl.q), a, b, view)
							}
						}
					}
					// what the stalled node holds, and what its peers believe about it
					if rn := nodeAt(i); rn != nil {
						rs := rn.nd.CS.GetRoundState()
						verdict += fmt.Sprintf("\n node %d: commitRound=%d proposal=%v block=%v parts=%s locked=%v valid=%v", i, rs.CommitRound, rs.Proposal != nil, rs.ProposalBlock != nil, rs.ProposalBlockParts.StringShort(), rs.LockedBlock != nil, rs.ValidBlock != nil)
						for j := 0; j < n; j++ {
							if pj := peers[j][i]; pj != nil {
								if ps, ok := pj.Get(types.PeerStateKey).(*consensus.PeerState); ok {
									prs := ps.GetRoundState()
									verdict += fmt.Sprintf("\n node %d's view of it: %d/%d/%v partsHeader=%v parts=%v proposal=%v catchupCommitRound=%d running=%v", j, prs.Height, prs.Round, prs.Step, prs.ProposalBlockPartsHeader, prs.ProposalBlockParts, prs.Proposal, prs.CatchupCommitRound, pj.IsRunning())
								} else {
									verdict += fmt.Sprintf("\n node %d holds no peer state for it (running=%v)", j, pj.IsRunning())
								}
							}
						}
					}
				}
			}
			if maxRound > 150 {
				verdict = fmt.Sprintf("a height went through more than 150 rounds (%s)", fp)
			}
			if v := recvPanics.Load(); v != nil {
				ev.Violation(t, "realnet.receive-panicked", text, "%s", v.(string))
				return ""
			}
			if verdict == "" && time.Since(start) > cap {
				// every node is still committing, only slowly (a starved machine): no verdict on this case
				ev.Class("real-reactors:inconclusive-slow")
				ev.Note("real-reactors inconclusive", fmt.Sprintf("did not reach height %d within %v: %s", target, cap, fp))
				return ""
			}
			time.Sleep(10 * time.Millisecond)
		}
		if verdict != "" {
			caseText = text
			return verdict // judged by the caller: only a case that stalls every time it is run is reported
		}
		// agreement on everything every node has
		for h := uint64(1); h <= target; h++ {
			ref := nodeAt(0).nd.BOps.LoadBlock(h)
			for i := 1; i < n; i++ {
				if b := nodeAt(i).nd.BOps.LoadBlock(h); ref != nil && b != nil && b.Hash() != ref.Hash() {
					ev.Violation(t, "realnet.agreement", text, "nodes 0 and %d committed different blocks at height %d", i, h)
				}
			}
		}
		ev.Case((slow > 0 || restarted || joined) && n >= 3, text, "real-reactors", fmt.Sprintf("real-reactors:n=%d", n))
		if maxRound > 1 {
			ev.Class("real-reactors:some-height-needed-more-than-one-round")
		}
		if restarted {
			ev.Class("real-reactors:node-restarted")
		}
		if joined {
			ev.Class("real-reactors:late-joiner-synced-and-switched-to-consensus")
		}
		if withTxs > 0 {
			ev.Class("real-reactors:blocks-with-transactions")
		}
		if dropped > 0 {
			ev.Class("real-reactors:a-switch-dropped-a-peer-and-the-pair-reconnected")
		}
		// same application state everywhere at the last common height
		for i := 1; i < n; i++ {
			a, b := nodeAt(0).nd.BOps.LoadBlock(target), nodeAt(i).nd.BOps.LoadBlock(target)
			if a != nil && b != nil && a.AppHash() != b.AppHash() {
				ev.Violation(t, "realnet.apphash", text, "nodes 0 and %d hold different application hashes in block %d", i, target)
			}
		}
		return ""
	}
	rapid.Check(t, func(t *rapid.T) {
		d := &draws{t: t}
		verdict := body(t, d)
		if verdict == "" {
			return
		}
		// the case stalled. A broken send condition or hand-over stalls every time; a stall that depends on how the
		// goroutines happened to be scheduled does not. Run the same case (same drawn values) twice more.
		first := verdict
		for again := 0; again < 2; again++ {
			r := &draws{t: t, vals: d.vals, replay: true}
			if verdict = body(t, r); verdict == "" {
				fmt.Printf("VERIF-NOTE stall seen once, not on re-run: %s => %s\n", caseText, first)
				ev.Class("real-reactors:stall-not-reproduced-on-rerun")
				ev.Note("real-reactors stall seen once, not on re-run", caseText+" => "+first)
				return
			}
		}
		key := "realnet.stalled"
		if strings.Contains(verdict, "more than 150 rounds") {
			key = "realnet.livelock"
		}
		ev.Violation(t, key, caseText, "the product's reactors, routines and timers together stopped making progress, three runs out of three: %s", verdict)
	})
}
