// C04 — liveness: with a correct +2/3 and timely delivery every height commits.
package c04

import (
	"fmt"
	"os"
	"regexp"
	"strings"
	"testing"

	"pgregory.net/rapid"

	"verifharness/internal/ev"
	"verifharness/internal/netsim"
)

func TestMain(m *testing.M) {
	ev.Init("C04")
	rc := m.Run()
	ev.Flush()
	os.Exit(rc)
}

// drawNetwork draws validator powers and a Byzantine subset holding strictly less than 1/3 of the power.
func drawNetwork(t *rapid.T) (powers []int64, byz []int) {
	n := rapid.SampledFrom([]int{1, 2, 3, 4, 4, 4, 5, 6, 7}).Draw(t, "n")
	shape := rapid.IntRange(0, 3).Draw(t, "shape")
	powers = make([]int64, n)
	for i := range powers {
		switch shape {
		case 0: // equal
			powers[i] = 15
		case 1: // small mixed
			powers[i] = int64(rapid.SampledFrom([]int{15, 30, 45}).Draw(t, "p"))
		case 2: // one dominant
			powers[i] = 15
			if i == 0 {
				powers[i] = int64(15 * rapid.IntRange(2, 6).Draw(t, "dom"))
			}
		default: // arbitrary
			powers[i] = int64(rapid.IntRange(15, 100).Draw(t, "p"))
		}
	}
	var total int64
	for _, p := range powers {
		total += p
	}
	// Byzantine subset: greedily add drawn validators while 3*byz < total
	var bp int64
	order := rapid.Permutation(seq(n)).Draw(t, "byzorder")
	want := rapid.IntRange(0, n).Draw(t, "nbyz")
	for _, i := range order {
		if len(byz) >= want {
			break
		}
		if (bp+powers[i])*3 < total {
			byz = append(byz, i)
			bp += powers[i]
		}
	}
	return powers, byz
}

func seq(n int) []int {
	s := make([]int, n)
	for i := range s {
		s[i] = i
	}
	return s
}

func TestLiveness(t *testing.T) {
	maxPrefix := ev.Scale("PREFIX", 80)
	rapid.Check(t, func(t *rapid.T) {
		powers, byz := drawNetwork(t)
		var s *netsim.Sim
		var err error
		ev.Guard(t, func() string { return fmt.Sprintf("net powers=%v byz=%v", powers, byz) }, func() { s, err = netsim.NewSim(powers, byz, nil) })
		if err != nil {
			t.Fatalf("harness: NewSim: %v", err)
		}
		defer s.Close()
		s.TraceOn = true
		s.AllowInvalidProposals = true
		s.Tracef("net powers=%v byz=%v", powers, byz)
		caseText := func() string { return s.TraceText() }
		ev.Guard(t, caseText, func() { s.Start() })
		n := rapid.IntRange(0, maxPrefix).Draw(t, "prefix")
		for i := 0; i < n; i++ {
			ev.Guard(t, caseText, func() { s.Step(t) })
		}
		// state at the start of the synchronous suffix
		var classes []string
		locked, partial, maxR := false, false, uint32(0)
		for _, i := range s.Correct {
			cs := s.Nodes[i].CS
			if cs.LockedBlock != nil {
				locked = true
			}
			if cs.ProposalBlockParts != nil && !cs.ProposalBlockParts.IsComplete() {
				partial = true
			}
			if cs.Round > maxR {
				maxR = cs.Round
			}
		}
		spread := s.MaxHeight(s.Correct) - s.MinHeight(s.Correct)
		if locked {
			classes = append(classes, "suffix-starts-with-lock")
		}
		if partial {
			classes = append(classes, "suffix-starts-with-partial-partset")
		}
		if spread > 0 {
			classes = append(classes, "suffix-starts-with-height-spread")
		}
		if maxR > 1 {
			classes = append(classes, "suffix-starts-in-round>1")
		}
		if len(byz) > 0 {
			classes = append(classes, "byzantine-present")
		}
		classes = append(classes, fmt.Sprintf("validators=%d", len(powers)))
		start := s.MaxHeight(s.Correct)
		target := start + 2
		// bound: 20 x rotation length rounds per height, 3 timeouts per round and node
		var total, minCorrect int64
		minCorrect = 1 << 62
		for i, p := range powers {
			total += p
			isB := false
			for _, b := range byz {
				if b == i {
					isB = true
				}
			}
			if !isB && p < minCorrect {
				minCorrect = p
			}
		}
		rotation := int((total + minCorrect - 1) / minCorrect)
		if rotation > 40 {
			rotation = 40
		}
		bound := 20 * rotation * 3 * len(s.Correct) * int(target-s.MinHeight(s.Correct)+1)
		s.Tracef("suffix target=%d bound=%d", target, bound)
		var ok bool
		var why string
		var timeouts int
		ev.Guard(t, caseText, func() { ok, timeouts, why = s.SyncRun(s.Correct, target, bound) })
		if !ok {
			if strings.HasPrefix(why, "gossip did not") {
				t.Fatalf("harness: %s", why)
			}
			key := "liveness.no-progress"
			if strings.HasPrefix(why, "deadlock") {
				key = "liveness.deadlock"
			}
			ev.Violation(t, key, s.TraceText(), "synchronous suffix did not reach height %d from %d after %d timeouts: %s", target, start, timeouts, why)
		}
		if v := s.AgreementViolation(); v != "" {
			ev.Violation(t, "agreement", s.TraceText(), "%s", v)
		}
		nontrivial := locked || partial || spread > 0
		ev.Case(nontrivial, s.TraceText(), classes...)
		for k, v := range s.Stat {
			ev.ClassN("step:"+k, int64(v))
		}
		if nontrivial && ev.WantSample("schedule") {
			ev.Sample("schedule", strings.Split(s.TraceText(), "\n"))
		}
	})
}

// ---------------------------------------------------------------- fresh networks commit their first blocks

var reVal = regexp.MustCompile(`(?m)^\s+- Name: (\S+)\s*\n(?:\s+\w+: .*\n)*?\s+SelfDelegate: (\d+)`)

// devnetValidators parses the validator names and self delegations of the repository's devnet genesis file.
func devnetValidators() (names, self []string) {
	b, err := os.ReadFile(os.Getenv("VERIF_REPO") + "/deployment/local/genesis_devnet.yaml")
	if err != nil {
		return nil, nil
	}
	for _, m := range reVal.FindAllStringSubmatch(string(b), -1) {
		names = append(names, m[1])
		self = append(self, m[2])
	}
	return
}

func genesisKey(frame string) string {
	switch {
	case strings.Contains(frame, "CreateGenesisValidator"):
		return "genesis.validator-name-slice"
	case strings.Contains(frame, "ValidatorSet).Copy") || strings.Contains(frame, "LatestBlockState.Copy"):
		return "genesis.first-block-nil-lastvalidators"
	}
	return "panic:" + frame
}

// TestGenesisFirstBlocks: a fresh network started from its genesis commits its first blocks. Covers the repository's
// own devnet validator entries and names of every length class; regression test for the two fixed start-up defects.
func TestGenesisFirstBlocks(t *testing.T) {
	type variant struct {
		desc  string
		n     int
		names []string
		self  []string
	}
	var vs []variant
	if names, self := devnetValidators(); len(names) > 0 {
		vs = append(vs, variant{"devnet-yaml", len(names), names, self})
	} else {
		t.Fatalf("harness: could not read devnet genesis validators")
	}
	long := strings.Repeat("n", 64)
	for _, l := range []int{0, 1, 4, 31, 32, 33, 64} {
		vs = append(vs, variant{fmt.Sprintf("name-len-%d", l), 4, []string{long[:l], long[:l] + "", long[:l], long[:l]}, nil})
	}
	for n := 1; n <= 7; n++ {
		vs = append(vs, variant{fmt.Sprintf("n=%d", n), n, nil, nil})
	}
	for _, v := range vs {
		powers := make([]int64, v.n)
		for i := range powers {
			powers[i] = 15
		}
		var s *netsim.Sim
		var err error
		desc := "genesis variant " + v.desc
		if p, frame := ev.Try(func() {
			s, err = netsim.NewSimWith(powers, nil, nil, netsim.GenesisOpts{Names: v.names, SelfDelegate: v.self})
		}); p != "" {
			ev.Violation(t, genesisKey(frame), desc, "node construction from genesis panicked: %s (in %s)", p, frame)
			continue
		}
		if err != nil {
			ev.Violation(t, "genesis.start-error", desc, "node construction from genesis failed: %v", err)
			continue
		}
		var ok bool
		var why string
		p, frame := ev.Try(func() {
			s.Start()
			ok, _, why = s.SyncRun(s.Correct, 4, 400)
		})
		if p != "" {
			ev.Violation(t, genesisKey(frame), desc, "fresh network panicked before height 4: %s (in %s)", p, frame)
		} else if !ok {
			ev.Violation(t, "genesis.no-first-blocks", desc, "fresh network did not reach height 4: %s", why)
		}
		s.Close()
		ev.Case(true, desc, "genesis-variant")
		ev.Sample("genesis-variant", desc)
	}
}
