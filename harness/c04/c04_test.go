// C04 — liveness: with a correct +2/3 and timely delivery every height commits.
package c04

import (
	"fmt"
	"os"
	"regexp"
	"strings"
	"testing"

	"pgregory.net/rapid"

	"github.com/kardiachain/go-kardia/consensus"
	kproto "github.com/kardiachain/go-kardia/proto/kardiachain/types"
	"github.com/kardiachain/go-kardia/types"

	"verifharness/internal/ev"
	"verifharness/internal/netsim"
)

func TestMain(m *testing.M) {
	ev.Init("C04")
	rc := m.Run()
	ev.Flush()
	os.Exit(rc)
}

// drawNetwork draws validator powers and a Byzantine subset holding strictly less than 1/3 of the power.
func drawNetwork(t *rapid.T) (powers []int64, byz []int) {
	n := rapid.SampledFrom([]int{1, 2, 3, 4, 4, 4, 5, 6, 7}).Draw(t, "n")
	shape := rapid.IntRange(0, 3).Draw(t, "shape")
	powers = make([]int64, n)
	for i := range powers {
		switch shape {
		case 0: // equal
			powers[i] = 15
		case 1: // small mixed
			powers[i] = int64(rapid.SampledFrom([]int{15, 30, 45}).Draw(t, "p"))
		case 2: // one dominant
			powers[i] = 15
			if i == 0 {
				powers[i] = int64(15 * rapid.IntRange(2, 6).Draw(t, "dom"))
			}
		default: // arbitrary
			powers[i] = int64(rapid.IntRange(15, 100).Draw(t, "p"))
		}
	}
	var total int64
	for _, p := range powers {
		total += p
	}
	// Byzantine subset: greedily add drawn validators while 3*byz < total
	var bp int64
	order := rapid.Permutation(seq(n)).Draw(t, "byzorder")
	want := rapid.IntRange(0, n).Draw(t, "nbyz")
	for _, i := range order {
		if len(byz) >= want {
			break
		}
		if (bp+powers[i])*3 < total {
			byz = append(byz, i)
			bp += powers[i]
		}
	}
	return powers, byz
}

func seq(n int) []int {
	s := make([]int, n)
	for i := range s {
		s[i] = i
	}
	return s
}

func TestLiveness(t *testing.T) {
	maxPrefix := ev.Scale("PREFIX", 80)
	rapid.Check(t, func(t *rapid.T) {
		powers, byz := drawNetwork(t)
		var s *netsim.Sim
		var err error
		ev.Guard(t, func() string { return fmt.Sprintf("net powers=%v byz=%v", powers, byz) }, func() { s, err = netsim.NewSim(powers, byz, nil) })
		if err != nil {
			t.Fatalf("harness: NewSim: %v", err)
		}
		defer s.Close()
		s.TraceOn = true
		s.AllowInvalidProposals = true
		s.Tracef("net powers=%v byz=%v", powers, byz)
		caseText := func() string { return s.TraceText() }
		// one case in three: correct nodes may be restarted during the prefix (graceful stop, new process on the same
		// database and consensus log through the product's own ConsensusState.Start with WAL catch-up)
		withRestarts := rapid.IntRange(0, 2).Draw(t, "restarts") == 0
		if withRestarts {
			s.EnableRestarts()
			s.Tracef("restarts enabled")
		}
		ev.Guard(t, caseText, func() { s.Start() })
		n := rapid.IntRange(0, maxPrefix).Draw(t, "prefix")
		for i := 0; i < n; i++ {
			ev.Guard(t, caseText, func() { s.Step(t) })
		}
		if s.RestartErr != nil {
			ev.Violation(t, "liveness.restart-failed", caseText(), "a correct node could not be restarted on its own files: %v", s.RestartErr)
		}
		// state at the start of the synchronous suffix
		var classes []string
		locked, partial, maxR := false, false, uint32(0)
		for _, i := range s.Correct {
			cs := s.Nodes[i].CS
			if cs.LockedBlock != nil {
				locked = true
			}
			if cs.ProposalBlockParts != nil && !cs.ProposalBlockParts.IsComplete() {
				partial = true
			}
			if cs.Round > maxR {
				maxR = cs.Round
			}
		}
		spread := s.MaxHeight(s.Correct) - s.MinHeight(s.Correct)
		if locked {
			classes = append(classes, "suffix-starts-with-lock")
		}
		if partial {
			classes = append(classes, "suffix-starts-with-partial-partset")
		}
		if spread > 0 {
			classes = append(classes, "suffix-starts-with-height-spread")
		}
		if maxR > 1 {
			classes = append(classes, "suffix-starts-in-round>1")
		}
		if len(byz) > 0 {
			classes = append(classes, "byzantine-present")
		}
		if s.Stat["restart"] > 0 {
			classes = append(classes, "node-restarted-in-prefix")
			if s.Stat["restart"] > 1 {
				classes = append(classes, "several-restarts-in-prefix")
			}
		}
		classes = append(classes, fmt.Sprintf("validators=%d", len(powers)))
		start := s.MaxHeight(s.Correct)
		target := start + 2
		// bound: 20 x rotation length rounds per height, 3 timeouts per round and node
		var total, minCorrect int64
		minCorrect = 1 << 62
		for i, p := range powers {
			total += p
			isB := false
			for _, b := range byz {
				if b == i {
					isB = true
				}
			}
			if !isB && p < minCorrect {
				minCorrect = p
			}
		}
		rotation := int((total + minCorrect - 1) / minCorrect)
		if rotation > 40 {
			rotation = 40
		}
		bound := 20 * rotation * 3 * len(s.Correct) * int(target-s.MinHeight(s.Correct)+1)
		// gossip in the suffix: (0) the simulator's superset rule throughout - everything a node holds and the other
		// lacks, i.e. every delayed message of the prefix eventually arrives; (1) the backlog of the prefix is delivered
		// once, from then on only what the product's gossip routines send to a peer in the receiver's CURRENT state
		// (its own round, its POL round, the previous commit while it is in the new-height step); (2) that rule from the
		// start (connections were re-established: the backlog is lost, peers start from each other's current state).
		suffixGossip := rapid.SampledFrom([]string{"superset", "backlog-then-reactor", "reactor"}).Draw(t, "suffixgossip")
		classes = append(classes, "suffix-gossip:"+suffixGossip)
		s.Tracef("suffix target=%d bound=%d gossip=%s", target, bound, suffixGossip)
		var ok bool
		var why string
		var timeouts int
		ev.Guard(t, caseText, func() {
			switch suffixGossip {
			case "backlog-then-reactor":
				s.GossipToFixpoint(s.Correct)
				s.ReactorGossip = true
			case "reactor":
				s.ReactorGossip = true
			}
			ok, timeouts, why = s.SyncRun(s.Correct, target, bound)
		})
		if !ok {
			if strings.HasPrefix(why, "gossip did not") {
				t.Fatalf("harness: %s", why)
			}
			key := "liveness.no-progress"
			if strings.HasPrefix(why, "deadlock") {
				key = "liveness.deadlock"
			}
			if k := stuckKind(s, powers); k != "" {
				key = "liveness.stuck:" + k
			}
			dbg := ""
			if os.Getenv("C04_DEBUG") != "" {
				for _, i := range s.Correct {
					cs := s.Nodes[i].CS
					if cs.Height == s.MinHeight(s.Correct) {
						dbg += fmt.Sprintf("\n n%d lockedRound=%d validRound=%d validBlock=%v commitRound=%d proposer=%x", i, cs.LockedRound, cs.ValidRound, cs.ValidBlock != nil, cs.CommitRound, cs.Validators.GetProposer().Address.Bytes()[:3])
						for r := uint32(1); r <= 5; r++ {
							dbg += fmt.Sprintf("\n   prevotes(%d)=%s\n   precommits(%d)=%s", r, cs.Votes.Prevotes(r).StringShort(), r, cs.Votes.Precommits(r).StringShort())
						}
					}
				}
				for i := range s.Keys {
					dbg += fmt.Sprintf("\n validator %d = %x", i, s.Addr(i).Bytes()[:3])
				}
			}
			ev.Violation(t, key, s.TraceText(), "synchronous suffix did not reach height %d from %d after %d timeouts: %s\nstill on offer: %s%s", target, start, timeouts, why, s.DescribeOffers(s.Correct), dbg)
		}
		if v := s.AgreementViolation(); v != "" {
			ev.Violation(t, "agreement", s.TraceText(), "%s", v)
		}
		nontrivial := locked || partial || spread > 0 || s.Stat["restart"] > 0
		ev.Case(nontrivial, s.TraceText(), classes...)
		for k, v := range s.Stat {
			ev.ClassN("step:"+k, int64(v))
		}
		if nontrivial && ev.WantSample("schedule") {
			ev.Sample("schedule", strings.Split(s.TraceText(), "\n"))
		}
	})
}

// ---------------------------------------------------------------- fresh networks commit their first blocks

var reVal = regexp.MustCompile(`(?m)^\s+- Name: (\S+)\s*\n(?:\s+\w+: .*\n)*?\s+SelfDelegate: (\d+)`)

// devnetValidators parses the validator names and self delegations of the repository's devnet genesis file.
func devnetValidators() (names, self []string) {
	b, err := os.ReadFile(os.Getenv("VERIF_REPO") + "/deployment/local/genesis_devnet.yaml")
	if err != nil {
		return nil, nil
	}
	for _, m := range reVal.FindAllStringSubmatch(string(b), -1) {
		names = append(names, m[1])
		self = append(self, m[2])
	}
	return
}

func genesisKey(frame string) string {
	switch {
	case strings.Contains(frame, "CreateGenesisValidator"):
		return "genesis.validator-name-slice"
	case strings.Contains(frame, "ValidatorSet).Copy") || strings.Contains(frame, "LatestBlockState.Copy"):
		return "genesis.first-block-nil-lastvalidators"
	}
	return "panic:" + frame
}

// TestGenesisFirstBlocks: a fresh network started from its genesis commits its first blocks. Covers the repository's
// own devnet validator entries and names of every length class; regression test for the two fixed start-up defects.
func TestGenesisFirstBlocks(t *testing.T) {
	type variant struct {
		desc  string
		n     int
		names []string
		self  []string
	}
	var vs []variant
	if names, self := devnetValidators(); len(names) > 0 {
		vs = append(vs, variant{"devnet-yaml", len(names), names, self})
	} else {
		t.Fatalf("harness: could not read devnet genesis validators")
	}
	long := strings.Repeat("n", 64)
	for _, l := range []int{0, 1, 4, 31, 32, 33, 64} {
		vs = append(vs, variant{fmt.Sprintf("name-len-%d", l), 4, []string{long[:l], long[:l] + "", long[:l], long[:l]}, nil})
	}
	for n := 1; n <= 7; n++ {
		vs = append(vs, variant{fmt.Sprintf("n=%d", n), n, nil, nil})
	}
	for _, v := range vs {
		powers := make([]int64, v.n)
		for i := range powers {
			powers[i] = 15
		}
		var s *netsim.Sim
		var err error
		desc := "genesis variant " + v.desc
		if p, frame := ev.Try(func() {
			s, err = netsim.NewSimWith(powers, nil, nil, netsim.GenesisOpts{Names: v.names, SelfDelegate: v.self})
		}); p != "" {
			ev.Violation(t, genesisKey(frame), desc, "node construction from genesis panicked: %s (in %s)", p, frame)
			continue
		}
		if err != nil {
			ev.Violation(t, "genesis.start-error", desc, "node construction from genesis failed: %v", err)
			continue
		}
		var ok bool
		var why string
		p, frame := ev.Try(func() {
			s.Start()
			ok, _, why = s.SyncRun(s.Correct, 4, 400)
		})
		if p != "" {
			ev.Violation(t, genesisKey(frame), desc, "fresh network panicked before height 4: %s (in %s)", p, frame)
		} else if !ok {
			ev.Violation(t, "genesis.no-first-blocks", desc, "fresh network did not reach height 4: %s", why)
		}
		s.Close()
		ev.Case(true, desc, "genesis-variant")
		ev.Sample("genesis-variant", desc)
	}
}

// ---------------------------------------------------------------- known finding: decided node waits for the block

const keyStuck = "liveness.stuck:decided-without-block,rest-below-quorum"

// stuckKind classifies a no-progress state: "decided-without-block,rest-below-quorum" when a correct node sits in the
// commit step without the block while the correct nodes still voting at that height hold no more than 2/3 of the
// power; "" otherwise.
func stuckKind(s *netsim.Sim, powers []int64) string {
	var total int64
	for _, p := range powers {
		total += p
	}
	h := s.MinHeight(s.Correct)
	waiting := false
	var voting int64
	for _, i := range s.Correct {
		cs := s.Nodes[i].CS
		if cs.Height != h {
			continue
		}
		if cs.Step.String() == "RoundStepCommit" && (cs.ProposalBlockParts == nil || !cs.ProposalBlockParts.IsComplete()) {
			waiting = true
		} else {
			voting += powers[i]
		}
	}
	if waiting && voting*3 <= total*2 {
		return "decided-without-block,rest-below-quorum"
	}
	// a node that holds +2/3 precommits for a block of its height in some round but is not in the commit step: it was
	// pulled into a later round (enterNewRound has no guard for the commit step) and nothing will re-trigger the commit,
	// because every peer sees that it already has those votes
	for _, i := range s.Correct {
		cs := s.Nodes[i].CS
		if cs.Height != h || cs.Step.String() == "RoundStepCommit" {
			continue
		}
		for r := uint32(1); r <= cs.Round; r++ {
			if pc := cs.Votes.Precommits(r); pc != nil {
				if id, ok := pc.TwoThirdsMajority(); ok && !id.IsZero() {
					return "commit-quorum-held-outside-commit-step"
				}
			}
		}
	}
	// a locked node whose own vote set holds a complete polka for ANOTHER block in a round after its lock round that it
	// has already reached: the unlock rule is only evaluated at the moment a prevote completes a polka, and only if the
	// node is in that round or a later one by then; a polka that completed while the node was still behind - and whose
	// round the node then skipped without prevoting in it - never releases the lock
	for _, i := range s.Correct {
		cs := s.Nodes[i].CS
		if cs.Height != h || cs.LockedBlock == nil {
			continue
		}
		for r := cs.LockedRound + 1; r <= cs.Round; r++ {
			if pv := cs.Votes.Prevotes(r); pv != nil {
				if id, ok := pv.TwoThirdsMajority(); ok && !id.IsZero() && !cs.LockedBlock.HashesTo(id.Hash) {
					return "lock-not-released-by-held-polka"
				}
			}
		}
	}
	// two correct nodes locked on different blocks, and the polka behind the LATER lock cannot be completed at the node
	// with the earlier lock: a validator whose prevote is part of that polka has equivocated, and the earlier-locked node
	// holds its other prevote for that round. A conflicting vote is only accepted after a peer has claimed +2/3 for its
	// block, and such claims are made for the receiver's current round and for the POL round of the proposal it holds -
	// which is the proposer's ValidRound (updated only if the polka completed while the proposer was IN that round), not
	// its lock round. So the claim for the round of the later lock never comes.
	for _, j := range s.Correct {
		cj := s.Nodes[j].CS
		if cj.Height != h || cj.LockedBlock == nil {
			continue
		}
		pj := cj.Votes.Prevotes(cj.LockedRound)
		if pj == nil {
			continue
		}
		idj, ok := pj.TwoThirdsMajority()
		if !ok || !cj.LockedBlock.HashesTo(idj.Hash) {
			continue
		}
		for _, i := range s.Correct {
			ci := s.Nodes[i].CS
			if i == j || ci.Height != h || ci.LockedBlock == nil || ci.LockedRound >= cj.LockedRound || ci.LockedBlock.HashesTo(idj.Hash) {
				continue
			}
			pi := ci.Votes.Prevotes(cj.LockedRound)
			if pi == nil {
				continue
			}
			if id, ok := pi.TwoThirdsMajority(); ok && id.Equal(idj) {
				continue // it holds the polka (the previous kind)
			}
			forJ := pj.BitArrayByBlockID(idj)
			for k := 0; forJ != nil && k < pj.Size(); k++ {
				if !forJ.GetIndex(k) {
					continue
				}
				if vi := pi.GetByIndex(uint32(k)); vi != nil && !vi.BlockID.Equal(idj) {
					return "split-locks,polka-hidden-by-equivocation"
				}
			}
		}
	}
	return ""
}

const keyLeft = "liveness.stuck:commit-quorum-held-outside-commit-step"

// TestKnownLeftCommitStep: four equal validators, one Byzantine (B). Round 1 as in TestKnownDecidedWithoutBlock, except
// that B first hides its precommit from everybody, so that C and D go on to round 2 and prevote there. Then B shows its
// precommit for X to A: A holds +2/3 precommits for X (C, D, B) and enters the commit step without the block. The
// round-2 prevotes of C, D and B now reach A: +2/3 of anything in a later round pulls A out of the commit step into
// round 2 (its part set is reset). Finally B shows its precommit to C and D, which commit X and go to height 2. From
// here on delivery is synchronous and B is silent: A already holds every precommit of the commit, so nothing triggers
// it again; it never fetches the block; C and D cannot decide height 2 without A.
func TestKnownLeftCommitStep(t *testing.T) {
	powers := []int64{15, 15, 15, 15}
	s, err := netsim.NewSim(powers, nil, nil)
	if err != nil {
		t.Fatalf("harness: %v", err)
	}
	defer s.Close()
	vs := s.Nodes[0].CS.Validators.Copy()
	p1 := vs.GetProposer().Address
	vs.IncrementProposerPriority(1)
	p2 := vs.GetProposer().Address
	C, B := -1, -1
	for i := range s.Keys {
		if s.Addr(i) == p1 {
			C = i
		}
		if s.Addr(i) == p2 {
			B = i
		}
	}
	A, D := -1, -1
	for i := range s.Keys {
		if i != C && i != B {
			if A < 0 {
				A = i
			} else {
				D = i
			}
		}
	}
	s.Down[B] = true
	s.Byz = []int{B}
	s.Correct = []int{A, C, D}
	desc := fmt.Sprintf("scripted: A=n%d C=n%d(proposer r1) D=n%d B=n%d(Byzantine, proposer r2)", A, C, D, B)
	relay := func(to int, from []int, typ kproto.SignedMsgType, round uint32) {
		for _, j := range from {
			for _, m := range netsim.Offers(s.Nodes[j], s.Nodes[to]) {
				if vm, ok := m.(*consensus.VoteMessage); ok && vm.Vote.Type == typ && vm.Vote.Round == round {
					s.Deliver(to, j, m)
				}
			}
		}
		s.DrainOwn(to)
	}
	var reached bool
	var why string
	msg, frame := ev.Try(func() {
		s.Start()
		for _, i := range s.Correct {
			s.FireTimeoutNoDrain(i)
		}
		s.DrainOwn(C)
		s.RegisterFromNodes()
		for pass := 0; pass < 2; pass++ {
			for _, m := range netsim.Offers(s.Nodes[C], s.Nodes[D]) {
				switch m.(type) {
				case *consensus.ProposalMessage, *consensus.BlockPartMessage:
					s.Deliver(D, C, m)
				}
			}
		}
		s.DrainOwn(D)
		s.FireTimeout(A) // propose timeout -> prevote nil
		X := s.Cands[1][0].ID
		s.ByzVoteTo([]int{C, D}, kproto.PrevoteType, 1, X, 1)
		relay(C, []int{D}, kproto.PrevoteType, 1)
		relay(D, []int{C}, kproto.PrevoteType, 1) // C and D: polka -> lock, precommit X
		relay(A, []int{C, D}, kproto.PrevoteType, 1)
		s.FireTimeout(A) // prevote-wait -> precommit nil
		// precommits among the correct nodes; B shows nil to C and D: 2/3-any, no decision
		s.ByzVoteTo([]int{C, D}, kproto.PrecommitType, 1, types.BlockID{}, 1)
		relay(C, []int{A, D}, kproto.PrecommitType, 1)
		relay(D, []int{A, C}, kproto.PrecommitType, 1)
		s.FireTimeout(C) // precommit-wait -> round 2
		s.FireTimeout(D)
		s.FireTimeout(C) // silent proposer -> prevote X (locked)
		s.FireTimeout(D)
		// A learns the precommits for X: C's, D's and (only now) B's -> commit step without the block
		s.ByzVoteTo([]int{A}, kproto.PrecommitType, 1, X, 1) // first: afterwards C and D would relay B's nil precommit
		relay(A, []int{C, D}, kproto.PrecommitType, 1)
		desc += fmt.Sprintf(" | A after the precommits: %s", netsim.Fingerprint(s.Nodes[A]))
		// the round-2 prevotes reach A: pulled into round 2
		relay(A, []int{C, D}, kproto.PrevoteType, 2)
		s.ByzVoteTo([]int{A}, kproto.PrevoteType, 2, types.BlockID{}, 1)
		desc += fmt.Sprintf(" | A after the round-2 prevotes: %s", netsim.Fingerprint(s.Nodes[A]))
		// B's precommit for X reaches C and D as well (conflicting with its nil one: needs the +2/3 claim first)
		for _, i := range []int{C, D} {
			s.Deliver(i, A, &consensus.VoteSetMaj23Message{Height: 1, Round: 1, Type: kproto.PrecommitType, BlockID: X})
		}
		s.ByzVoteTo([]int{C, D}, kproto.PrecommitType, 1, X, 1)
		desc += " | before suffix: " + s.Describe(s.Correct)
		reached, _, why = s.SyncRun(s.Correct, 3, 600)
	})
	if msg != "" {
		ev.Violation(t, "panic:"+frame, desc, "panic in the scripted schedule: %s", msg)
		return
	}
	kind := ""
	if !reached {
		kind = stuckKind(s, powers)
	}
	ev.Case(true, desc, "known-reproducer")
	ev.Sample("known-reproducer", desc+" => reached="+fmt.Sprint(reached)+" "+why)
	if ev.Known(keyLeft) {
		ev.KnownReproduced(keyLeft, !reached && kind == "commit-quorum-held-outside-commit-step")
		return
	}
	if !reached {
		key := "liveness.deadlock"
		if kind != "" {
			key = "liveness.stuck:" + kind
		}
		ev.Violation(t, key, desc, "no progress under synchronous delivery: %s", why)
	}
}

// TestKnownDecidedWithoutBlock: four equal validators, one Byzantine (B). Round 1: the proposal X reaches C and D but
// not A; C, D and B prevote X (B only towards C and D), so C and D lock and precommit X; A prevotes and precommits nil.
// B shows its precommit for X to A only and a nil precommit to C and D. A now holds +2/3 precommits for X and enters
// the commit step without the block; C and D see no decision and move to round 2, whose proposer is B (silent). From
// here on delivery is synchronous and B stays silent: C and D (locked on X) hold 2 of 4 votes, never see +2/3 of
// anything, never time out again; the reactor only forwards votes of the receiver's current round and parts of the
// sender's current proposal, so A never gets X and C and D never learn of the round-1 decision.
func TestKnownDecidedWithoutBlock(t *testing.T) {
	powers := []int64{15, 15, 15, 15}
	s, err := netsim.NewSim(powers, nil, nil)
	if err != nil {
		t.Fatalf("harness: %v", err)
	}
	defer s.Close()
	// roles from the proposer order
	vs := s.Nodes[0].CS.Validators.Copy()
	p1 := vs.GetProposer().Address
	vs.IncrementProposerPriority(1)
	p2 := vs.GetProposer().Address
	idx := func(a interface{ Hex() string }) int {
		for i := range s.Keys {
			if s.Addr(i).Hex() == a.Hex() {
				return i
			}
		}
		return -1
	}
	C, B := idx(p1), idx(p2)
	if C == B {
		t.Fatalf("harness: same proposer in rounds 1 and 2")
	}
	var A, D = -1, -1
	for i := range s.Keys {
		if i != C && i != B {
			if A < 0 {
				A = i
			} else {
				D = i
			}
		}
	}
	s.Down[B] = true
	s.Byz = []int{B}
	s.Correct = []int{A, C, D}
	desc := fmt.Sprintf("scripted: A=n%d C=n%d(proposer r1) D=n%d B=n%d(Byzantine, proposer r2)", A, C, D, B)
	var reached bool
	var why string
	msg, frame := ev.Try(func() {
		s.Start()
		for _, i := range s.Correct {
			s.FireTimeoutNoDrain(i) // NewHeight -> round 1
		}
		s.DrainOwn(C) // C proposes X and prevotes it
		s.RegisterFromNodes()
		// proposal + parts to D only
		for pass := 0; pass < 2; pass++ { // the proposal first, then the parts (offered once D knows the part-set header)
			for _, m := range netsim.Offers(s.Nodes[C], s.Nodes[D]) {
				switch m.(type) {
				case *consensus.ProposalMessage, *consensus.BlockPartMessage:
					s.Deliver(D, C, m)
				}
			}
		}
		s.DrainOwn(D)    // D prevotes X
		s.FireTimeout(A) // A: propose timeout -> prevote nil
		X := s.Cands[1][0].ID
		// prevotes: C and D see each other's and B's prevote for X -> polka -> lock + precommit X
		s.ByzVoteTo([]int{C, D}, kproto.PrevoteType, 1, X, 1)
		for _, pair := range [][2]int{{C, D}, {D, C}} {
			for _, m := range netsim.Offers(s.Nodes[pair[1]], s.Nodes[pair[0]]) {
				if vm, ok := m.(*consensus.VoteMessage); ok && vm.Vote.Type == kproto.PrevoteType {
					s.Deliver(pair[0], pair[1], m)
				}
			}
			s.DrainOwn(pair[0])
		}
		// A sees all prevotes it can get (2 for X + its own nil: 2/3-any), times out, precommits nil
		for _, j := range []int{C, D} {
			for _, m := range netsim.Offers(s.Nodes[j], s.Nodes[A]) {
				if vm, ok := m.(*consensus.VoteMessage); ok && vm.Vote.Type == kproto.PrevoteType {
					s.Deliver(A, j, m)
				}
			}
		}
		s.DrainOwn(A)
		s.FireTimeout(A) // prevote-wait -> precommit nil
		// B equivocates on the precommit: X towards A, nil towards C and D
		s.ByzVoteTo([]int{A}, kproto.PrecommitType, 1, X, 1)
		s.ByzVoteTo([]int{C, D}, kproto.PrecommitType, 1, types.BlockID{}, 1)
		// precommits flow between the correct nodes
		for _, i := range []int{A, C, D} {
			for _, j := range []int{A, C, D} {
				if i == j {
					continue
				}
				for _, m := range netsim.Offers(s.Nodes[j], s.Nodes[i]) {
					if vm, ok := m.(*consensus.VoteMessage); ok && vm.Vote.Type == kproto.PrecommitType {
						s.Deliver(i, j, m)
					}
				}
				s.DrainOwn(i)
			}
		}
		// still in the asynchronous prefix: C and D time out of round 1 and of the (silent) proposal of round 2
		for k := 0; k < 2; k++ {
			s.FireTimeout(C)
			s.FireTimeout(D)
		}
		// from here on: synchronous, B silent
		desc += " | before suffix: " + s.Describe(s.Correct)
		reached, _, why = s.SyncRun(s.Correct, 3, 600)
	})
	if msg != "" {
		ev.Violation(t, "panic:"+frame, desc, "panic in the scripted schedule: %s", msg)
		return
	}
	kind := ""
	if !reached {
		kind = stuckKind(s, powers)
	}
	ev.Case(true, desc, "known-reproducer")
	ev.Sample("known-reproducer", desc+" => reached="+fmt.Sprint(reached)+" "+why)
	if ev.Known(keyStuck) {
		ev.KnownReproduced(keyStuck, !reached && kind != "")
		return
	}
	if !reached {
		key := "liveness.deadlock"
		if kind != "" {
			key = keyStuck
		}
		ev.Violation(t, key, desc, "no progress under synchronous delivery: %s", why)
	}
}

// ---------------------------------------------------------------- known finding: a held polka does not release the lock

const keyHeldPolka = "liveness.stuck:lock-not-released-by-held-polka"

// TestKnownLockNotReleased: four equal validators, one Byzantine (D, proposer of round 2). Round 1: C proposes X, all
// three correct nodes prevote it, only A sees the polka and locks X; B and C see +2/3 of anything, precommit nil and move
// on. Round 2: D proposes Y, B and C prevote it, D adds its prevote: B and C lock Y; nobody decides; round 3 begins. Now
// the round-2 prevotes reach A while it is still in round 1 (the polka for Y completes: A is behind, so the unlock rule
// does not apply "yet", and A is pulled into round 2), and before A has prevoted in round 2 the round-3 prevotes pull it
// into round 3. From here on delivery is synchronous and D is silent: A holds everything that entitles it to unlock, but
// the rule is never evaluated again; A prevotes X, B and C prevote Y, all three are needed for +2/3.
func TestKnownLockNotReleased(t *testing.T) {
	powers := []int64{15, 15, 15, 15}
	s, err := netsim.NewSim(powers, nil, nil)
	if err != nil {
		t.Fatalf("harness: %v", err)
	}
	defer s.Close()
	vs := s.Nodes[0].CS.Validators.Copy()
	p1 := vs.GetProposer().Address
	vs.IncrementProposerPriority(1)
	p2 := vs.GetProposer().Address
	A, B, C, D := -1, -1, -1, -1
	for i := range s.Keys {
		switch {
		case s.Addr(i) == p1:
			C = i
		case s.Addr(i) == p2:
			D = i
		case A < 0:
			A = i
		default:
			B = i
		}
	}
	s.Down[D] = true
	s.Byz = []int{D}
	s.Correct = []int{A, B, C}
	desc := fmt.Sprintf("scripted: A=n%d B=n%d C=n%d(proposer r1) D=n%d(Byzantine, proposer r2)", A, B, C, D)
	relay := func(to int, from []int, typ kproto.SignedMsgType, round uint32) {
		for _, j := range from {
			for _, m := range netsim.Offers(s.Nodes[j], s.Nodes[to]) {
				if vm, ok := m.(*consensus.VoteMessage); ok && vm.Vote.Type == typ && vm.Vote.Round == round {
					s.Deliver(to, j, m)
				}
			}
		}
		s.DrainOwn(to)
	}
	data := func(to, from int) {
		for pass := 0; pass < 2; pass++ {
			for _, m := range netsim.Offers(s.Nodes[from], s.Nodes[to]) {
				switch m.(type) {
				case *consensus.ProposalMessage, *consensus.BlockPartMessage:
					s.Deliver(to, from, m)
				}
			}
		}
		s.DrainOwn(to)
	}
	inStep := func(i int, step string) bool { return s.Nodes[i].CS.Step.String() == step }
	var reached bool
	var why string
	msg, frame := ev.Try(func() {
		s.Start()
		for _, i := range s.Correct {
			s.FireTimeoutNoDrain(i)
		}
		s.DrainOwn(C) // proposes X, prevotes it
		s.RegisterFromNodes()
		data(A, C)
		data(B, C) // A and B prevote X
		nilID := types.BlockID{}
		// round 1: only A sees the polka
		relay(A, []int{B, C}, kproto.PrevoteType, 1) // A: lock X, precommit X
		s.ByzVoteTo([]int{B, C}, kproto.PrevoteType, 1, nilID, 1)
		relay(B, []int{C}, kproto.PrevoteType, 1)
		relay(C, []int{B}, kproto.PrevoteType, 1)
		s.FireTimeout(B) // prevote-wait -> precommit nil
		s.FireTimeout(C)
		s.ByzVoteTo([]int{B, C}, kproto.PrecommitType, 1, nilID, 1)
		relay(B, []int{C}, kproto.PrecommitType, 1)
		relay(C, []int{B}, kproto.PrecommitType, 1)
		s.FireTimeout(B) // precommit-wait -> round 2
		s.FireTimeout(C)
		desc += " | after round 1: " + s.Describe(s.Correct)
		// round 2: D proposes Y to B and C, who lock it with D's prevote
		Y := s.MakeCand(B, D, 0, "")
		if Y == nil {
			panic("harness: no candidate for round 2")
		}
		prop := s.SignProposal(D, 1, 2, 0, Y.ID)
		for _, j := range []int{B, C} {
			s.Deliver(j, D, &consensus.ProposalMessage{Proposal: prop})
			for k := 0; k < int(Y.Parts.Total()); k++ {
				s.Deliver(j, D, &consensus.BlockPartMessage{Height: 1, Round: 2, Part: Y.Parts.GetPart(k)})
			}
			s.DrainOwn(j) // prevotes Y
		}
		s.ByzVoteTo([]int{B, C}, kproto.PrevoteType, 2, Y.ID, 1)
		relay(B, []int{C}, kproto.PrevoteType, 2) // polka: lock Y, precommit Y
		relay(C, []int{B}, kproto.PrevoteType, 2)
		s.ByzVoteTo([]int{B, C}, kproto.PrecommitType, 2, nilID, 1)
		relay(B, []int{C}, kproto.PrecommitType, 2)
		relay(C, []int{B}, kproto.PrecommitType, 2)
		s.FireTimeout(B) // precommit-wait -> round 3
		s.FireTimeout(C)
		// round 3: B and C prevote their locked block (after the proposal, if one of them proposes, or the timeout)
		s.DrainOwn(B)
		s.DrainOwn(C)
		data(B, C)
		data(C, B)
		for _, i := range []int{B, C} {
			if inStep(i, "RoundStepPropose") {
				s.FireTimeout(i)
			}
		}
		desc += " | B and C in round 3: " + s.Describe(s.Correct)
		// A (still in round 1) gets the round-2 prevotes: polka for Y while it is behind; pulled into round 2 ...
		relay(A, []int{B, C}, kproto.PrevoteType, 2)
		s.ByzVoteTo([]int{A}, kproto.PrevoteType, 2, Y.ID, 1)
		desc += " | A after the round-2 prevotes: " + netsim.Fingerprint(s.Nodes[A])
		// ... and, before it has prevoted there, into round 3
		relay(A, []int{B, C}, kproto.PrevoteType, 3)
		s.ByzVoteTo([]int{A}, kproto.PrevoteType, 3, nilID, 1)
		desc += " | before suffix: " + s.Describe(s.Correct)
		reached, _, why = s.SyncRun(s.Correct, 3, 600)
	})
	if msg != "" {
		ev.Violation(t, "panic:"+frame, desc, "panic in the scripted schedule: %s", msg)
		return
	}
	kind := ""
	if !reached {
		kind = stuckKind(s, powers)
	}
	ev.Case(true, desc, "known-reproducer")
	ev.Sample("known-reproducer", desc+" => reached="+fmt.Sprint(reached)+" "+first(why, 300))
	if ev.Known(keyHeldPolka) {
		ev.KnownReproduced(keyHeldPolka, !reached && kind == "lock-not-released-by-held-polka")
		return
	}
	if !reached {
		key := "liveness.deadlock"
		if kind != "" {
			key = "liveness.stuck:" + kind
		}
		ev.Violation(t, key, desc, "no progress under synchronous delivery: %s", first(why, 600))
	}
}

func first(s string, n int) string {
	if len(s) > n {
		return s[:n]
	}
	return s
}
