package c14

// The light driver: a chain of states is produced with the product's own rules (MakeGenesisState for height 0,
// updateState for every block) and persisted the way a node persists it (block + head marker + app hash through
// rawdb, then Store.Save), without consensus or a VM behind it.

import (
	"fmt"
	"math/big"
	"sort"
	"strings"
	"testing"
	"time"

	"pgregory.net/rapid"

	"github.com/kardiachain/go-kardia/configs"
	"github.com/kardiachain/go-kardia/kai/kaidb"
	"github.com/kardiachain/go-kardia/kai/kaidb/memorydb"
	"github.com/kardiachain/go-kardia/kai/rawdb"
	"github.com/kardiachain/go-kardia/kai/state/cstate"
	"github.com/kardiachain/go-kardia/lib/common"
	"github.com/kardiachain/go-kardia/lib/log"
	"github.com/kardiachain/go-kardia/mainchain/genesis"
	kproto "github.com/kardiachain/go-kardia/proto/kardiachain/types"
	"github.com/kardiachain/go-kardia/trie"
	"github.com/kardiachain/go-kardia/types"

	"verifharness/internal/ev"
)

type member struct {
	addr  common.Address
	power int64
}

func membersText(ms []member) string {
	var b strings.Builder
	for i, m := range ms {
		if i > 0 {
			b.WriteByte(' ')
		}
		fmt.Fprintf(&b, "%x:%d", m.addr[:2], m.power)
	}
	return b.String()
}

func addrN(i int) common.Address {
	var a common.Address
	a[0] = 0xA0
	a[1] = byte(i + 1)
	a[19] = byte(0x10 + i)
	return a
}

// chain is one database with everything the harness knows about what was saved into it.
type chain struct {
	db      kaidb.Database
	store   cstate.Store
	logger  log.Logger
	cur     cstate.LatestBlockState // the live in-memory state, as a running node holds it
	saved   map[uint64]*stateSnap
	model   writeModel
	head    uint64
	genesis types.BlockID
	genApp  common.Hash
	pruned  map[uint64]bool
	maxTo   uint64 // largest end of a non-empty pruned range so far
	deleted map[string]delInfo // membership fingerprint -> the PruneState call that deleted its record last
	ops     []string
	hits    map[string]int
}

// delInfo describes the PruneState call that removed a validator-set record.
type delInfo struct {
	from, to  uint64
	protected bool // the genesis state or the state at `to` (present at that time) had this set as last, current or next set
}

func (c *chain) text() string { return strings.Join(c.ops, "\n") }

func (c *chain) logf(f string, a ...interface{}) { c.ops = append(c.ops, fmt.Sprintf(f, a...)) }

func (c *chain) ctx(t ev.TB, where string, head bool) *cmpCtx {
	return &cmpCtx{t: t, caseText: c.text, where: where, model: c.model, genesis: c.genesis, genesisA: c.genApp, head: head, hits: c.hits}
}

func nonZeroHash(tag string, h uint64, salt byte) common.Hash {
	var x common.Hash
	copy(x[:], tag)
	x[29] = salt
	x[30] = byte(h >> 8)
	x[31] = byte(h) | 1
	return x
}

// writeBlock stores block h the way Genesis.Commit / BlockChain.SaveBlock + writeBlockWithState do: meta, parts,
// commits, canonical hash, head marker, app hash of that height.
func (c *chain) writeBlock(hd *types.Header, root common.Hash) types.BlockID {
	lc := &types.Commit{}
	if hd.Height >= 1 {
		// a well-formed commit for block h-1 (the store never verifies it; reading the head block decodes it)
		var sigs []types.CommitSig
		if hd.Height >= 2 {
			for _, v := range c.cur.LastValidators.Validators {
				sigs = append(sigs, types.CommitSig{BlockIDFlag: types.BlockIDFlagCommit, ValidatorAddress: v.Address, Timestamp: c.cur.LastBlockTime, Signature: make([]byte, 65)})
			}
		}
		lc = types.NewCommit(hd.Height-1, 0, hd.LastBlockID, sigs)
	}
	b := types.NewBlock(hd, nil, lc, nil, trie.NewStackTrie(nil))
	ps := b.MakePartSet(types.BlockPartSizeBytes)
	rawdb.WriteBlock(c.db, b, ps, types.NewCommit(hd.Height, 0, types.BlockID{Hash: b.Hash(), PartsHeader: ps.Header()}, nil))
	rawdb.WriteCanonicalHash(c.db, b.Hash(), hd.Height)
	rawdb.WriteHeadBlockHash(c.db, b.Hash())
	rawdb.WriteAppHash(c.db, hd.Height, root)
	return types.BlockID{Hash: b.Hash(), PartsHeader: ps.Header()}
}

// newChain commits a genesis block and saves the genesis state made by the product's MakeGenesisState.
func newChain(t ev.TB, vals []member, params kproto.ConsensusParams, ts time.Time, salt byte) *chain {
	c := &chain{db: memorydb.New(), logger: log.New(), saved: map[uint64]*stateSnap{}, model: writeModel{}, pruned: map[uint64]bool{}, hits: map[string]int{}}
	c.logger.SetHandler(log.DiscardHandler())
	c.store = cstate.NewStore(c.db)
	doc := &genesis.Genesis{ChainID: "c14", Timestamp: ts, ConsensusParams: &params}
	for _, m := range vals {
		self := new(big.Int).Mul(big.NewInt(m.power), configs.PowerReduction)
		doc.Validators = append(doc.Validators, &genesis.GenesisValidator{Name: "v", Address: m.addr.Hex(), SelfDelegate: self.String(), StartWithGenesis: true})
	}
	c.genApp = nonZeroHash("root", 0, salt)
	c.genesis = c.writeBlock(&types.Header{Height: 0, Time: ts, GasLimit: configs.GenesisGasLimit, AppHash: c.genApp}, c.genApp)
	c.logf("genesis %s ts=%d", membersText(vals), ts.Unix())
	var st cstate.LatestBlockState
	var err error
	ev.Guard(t, c.text, func() {
		st, err = cstate.MakeGenesisState(doc)
		if err == nil {
			c.save(t, st)
		}
	})
	if err != nil {
		t.Fatalf("harness: MakeGenesisState: %v", err)
	}
	return c
}

func (c *chain) save(t ev.TB, st cstate.LatestBlockState) {
	snap := snapState(st)
	c.store.Save(st)
	c.saved[st.LastBlockHeight] = snap
	c.model.saved(snap)
	c.cur = st
	c.head = st.LastBlockHeight
	delete(c.pruned, c.head)
}

// nextMembers is the membership of the live NextValidators.
func (c *chain) nextMembers() []member {
	var ms []member
	for _, v := range c.cur.NextValidators.Validators {
		ms = append(ms, member{v.Address, v.VotingPower})
	}
	return ms
}

// diff derives the change set updateState receives from calculateValidatorSetUpdates (deterministic order here).
func diff(from, to []member) []*types.Validator {
	old := map[common.Address]int64{}
	for _, m := range from {
		old[m.addr] = m.power
	}
	var out []*types.Validator
	seen := map[common.Address]bool{}
	for _, m := range to {
		seen[m.addr] = true
		if p, ok := old[m.addr]; !ok || p != m.power {
			out = append(out, types.NewValidator(m.addr, m.power))
		}
	}
	var gone []member
	for _, m := range from {
		if !seen[m.addr] {
			gone = append(gone, m)
		}
	}
	sort.Slice(gone, func(i, j int) bool { return string(gone[i].addr[:]) < string(gone[j].addr[:]) })
	for _, m := range gone {
		out = append(out, &types.Validator{Address: m.addr, VotingPower: 0})
	}
	return out
}

// block applies one block on top of the live state: target == nil keeps the membership.
func (c *chain) block(t ev.TB, target []member, dt time.Duration, salt byte) {
	h := c.head + 1
	var updates []*types.Validator
	if target != nil {
		updates = diff(c.nextMembers(), target)
	}
	hd := &types.Header{Height: h, Time: c.cur.LastBlockTime.Add(dt), LastBlockID: c.cur.LastBlockID, AppHash: c.cur.AppHash,
		ValidatorsHash: c.cur.Validators.Hash(), NextValidatorsHash: c.cur.NextValidators.Hash(), GasLimit: configs.GenesisGasLimit}
	root := nonZeroHash("root", h, salt)
	id := c.writeBlock(hd, root)
	if len(updates) > 0 {
		c.logf("block %d dt=%s -> next members %s", h, dt, membersText(target))
	} else {
		c.logf("block %d dt=%s", h, dt)
	}
	ev.Guard(t, c.text, func() {
		st, err := cstate.VerifC14UpdateState(c.logger, c.cur, id, hd, updates)
		if err != nil {
			t.Fatalf("harness: generated change set rejected by updateState: %v\n%s", err, c.text())
		}
		st.AppHash = root
		c.save(t, st)
	})
}

// restart is what a node does at start-up: a new store object over the same database, Load().
func (c *chain) restart(t ev.TB) {
	want := c.saved[c.head]
	var got cstate.LatestBlockState
	where := fmt.Sprintf("Load at head %d", c.head)
	if msg, frame := ev.Try(func() { got = cstate.NewStore(c.db).Load() }); msg != "" {
		if key, d := c.lostSet(c.head); key != "" {
			c.ctx(t, where, true).fail(key, "Load panics in %s (%s): %s", frame, msg, d)
		} else {
			c.ctx(t, where, true).fail("panic:"+frame, "Load panics: %s", msg)
		}
		return
	}
	if got.IsEmpty() {
		c.ctx(t, fmt.Sprintf("Load at head %d", c.head), true).fail("load.head-state-missing", "Load returned the empty state although a state was saved for the head height")
		return
	}
	c.ctx(t, fmt.Sprintf("Load at head %d", c.head), true).state(&got, want)
}

// missingSetRecord names the first validator-set record the state record of height h points at that does not exist
// ("" if the state record is absent or all are there). Used only to file a failed load under the right key.
func (c *chain) missingSetRecord(h uint64) string {
	sp := rawdb.ReadConsensusStateHeight(c.db, h)
	if sp == nil {
		return ""
	}
	if h > 0 && rawdb.ReadConsensusValidatorsInfo(c.db, common.BytesToHash(sp.LastValidatorsInfoHash)) == nil {
		return "LastValidators"
	}
	if rawdb.ReadConsensusValidatorsInfo(c.db, common.BytesToHash(sp.ValidatorsInfoHash)) == nil {
		return "Validators"
	}
	if rawdb.ReadConsensusValidatorsInfo(c.db, common.BytesToHash(sp.NextValidatorsInfoHash)) == nil {
		return "NextValidators"
	}
	return ""
}

// hasTwin: two saved sets have equal members and powers but different priorities or proposer.
func (c *chain) hasTwin() bool {
	seen := map[string]setSnap{}
	for h := uint64(0); h <= c.head; h++ {
		st, ok := c.saved[h]
		if !ok {
			continue
		}
		for _, s := range []setSnap{st.Last, st.Cur, st.Next} {
			if s.Nil {
				continue
			}
			if o, ok := seen[s.fp()]; ok && (!o.samePriorities(s) || o.Proposer != s.Proposer) {
				return true
			}
			seen[s.fp()] = s
		}
	}
	return false
}

// lostSet files a load of height h that failed: "" when every set record its state record points at exists, else the
// finding key. The listed prune finding is exactly: PruneState deleted the record of a set that neither the genesis
// state nor the state at `to` mentions, and a kept state above still needs it. A deleted record that genesis or the
// state at `to` did mention is another defect, and a record missing without any PruneState call yet another.
func (c *chain) lostSet(h uint64) (key, detail string) {
	role := c.missingSetRecord(h)
	if role == "" {
		return "", ""
	}
	want := map[string]setSnap{"LastValidators": c.saved[h].Last, "Validators": c.saved[h].Cur, "NextValidators": c.saved[h].Next}[role]
	info, ok := c.deleted[want.fp()]
	switch {
	case !ok:
		return "load.set-record-missing", fmt.Sprintf("the record of its %s does not exist (no PruneState call removed it)", role)
	case info.protected:
		return "prune.removes-protected-set", fmt.Sprintf("the record of its %s was deleted by PruneState(%d,%d) although genesis or the state at %d refers to that set", role, info.from, info.to, info.to)
	}
	return keyPrune, fmt.Sprintf("the record of its %s was deleted by PruneState(%d,%d)", role, info.from, info.to)
}

func (c *chain) kept(h uint64) bool { _, ok := c.saved[h]; return ok && !c.pruned[h] }

// prune calls PruneState and records, independently of the store, which heights the caller asked to drop, and which
// validator-set records the call removed (only used to file a later failure under the right key).
func (c *chain) prune(t ev.TB, from, to uint64) {
	c.logf("prune [%d,%d)", from, to)
	sets := map[string]common.Hash{}
	protected := map[string]bool{}
	for h, st := range c.saved {
		for _, s := range []setSnap{st.Last, st.Cur, st.Next} {
			if s.Nil {
				continue
			}
			sets[s.fp()] = s.RecKey
			if h == 0 || h == to && c.kept(to) {
				protected[s.fp()] = true
			}
		}
	}
	before := map[string]bool{}
	for fp, k := range sets {
		before[fp] = rawdb.ReadConsensusValidatorsInfo(c.db, k) != nil
	}
	ev.Guard(t, c.text, func() { c.store.PruneState(from, to) })
	if c.deleted == nil {
		c.deleted = map[string]delInfo{}
	}
	for fp, k := range sets {
		if before[fp] && rawdb.ReadConsensusValidatorsInfo(c.db, k) == nil {
			c.deleted[fp] = delInfo{from, to, protected[fp]}
		}
	}
	for h := from; h < to; h++ {
		if h >= 1 {
			c.pruned[h] = true
			if to > c.maxTo {
				c.maxTo = to
			}
		}
	}
}

// checkAll reads back everything the property speaks about.
//
// Hard clauses (violations): the head state through Load; the state, LoadValidators and LoadConsensusParams of every
// height that is outside all pruned ranges and at or above the end of every pruned range ("after pruning [from,to)
// everything at >= to still loads and equals"), and of height 0 ("genesis still loads"). Before any prune that is every
// saved height. A state record that is still there BELOW or BETWEEN pruned ranges is read as well, but only what it
// returns is judged (a set that comes back must be the right one); that it can no longer be read is counted as a class,
// not as a violation: a pruner that walks upwards never keeps such a height, and the property only promises
// the kept suffix and genesis.
func (c *chain) checkAll(t ev.TB) {
	afterPrune := c.maxTo > 0
	c.restart(t)
	store := cstate.NewStore(c.db)
	for h := uint64(0); h <= c.head+1; h++ {
		kept := c.kept(h)
		hard := kept && (h == 0 || h >= c.maxTo)
		// whole state at a kept height (what Load does when that height is the head)
		if kept {
			var got *cstate.LatestBlockState
			msg, frame := ev.Try(func() { got = cstate.VerifC14LoadStateAtHeight(c.db, h) })
			where := fmt.Sprintf("state at kept height %d (head %d)", h, c.head)
			switch {
			case (msg != "" || got == nil) && !hard:
				ev.Class("soft:state-below-pruned-range-unloadable")
			case msg != "":
				if key, d := c.lostSet(h); key != "" {
					c.ctx(t, where, false).fail(key, "loading panics in %s (%s): %s", frame, msg, d)
				} else {
					c.ctx(t, where, false).fail("panic:"+frame, "loading panics: %s", msg)
				}
			case got == nil && afterPrune:
				c.ctx(t, where, false).fail("prune.kept-state-record-missing", "no state record although the height is at or above the end of every pruned range")
			case got == nil:
				c.ctx(t, where, false).fail("load.state-missing", "no state record for a saved height")
			default:
				c.ctx(t, where, h == c.head).state(got, c.saved[h])
			}
		}
		// validator set entitled to sign height h
		var vs *types.ValidatorSet
		var err error
		ev.Guard(t, c.text, func() { vs, err = store.LoadValidators(h) })
		if kept && h >= 1 {
			where := fmt.Sprintf("LoadValidators(%d) (head %d)", h, c.head)
			want := c.saved[h].Last
			switch {
			case err != nil && !hard:
				ev.Class("soft:validators-below-pruned-range-unloadable")
			case err != nil && c.missingSetRecord(h) == "LastValidators":
				key, d := c.lostSet(h)
				c.ctx(t, where, false).fail(key, "error %v: %s", err, d)
			case err != nil && afterPrune:
				c.ctx(t, where, false).fail("prune.kept-validators-unloadable", "error %v although the height is at or above the end of every pruned range", err)
			case err != nil:
				c.ctx(t, where, false).fail("loadvalidators.missing", "error %v for a saved height", err)
			default:
				// members, powers, order, and (as for the sets of a loaded state) priorities and proposer
				c.ctx(t, where, false).set("loadvalidators", "the set", vs, want)
				ev.Class("loadvalidators.compared")
			}
		} else if !kept && h >= 1 && err == nil && vs != nil {
			// a pruned or never saved height that still answers: whatever comes back must be right
			if s, ok := c.saved[h]; ok {
				c.ctx(t, fmt.Sprintf("LoadValidators(%d) of a pruned height", h), false).members("loadvalidators", vs, s.Last)
			} else {
				c.ctx(t, fmt.Sprintf("LoadValidators(%d)", h), false).fail("loadvalidators.future-height-answers", "a set is returned for a height above the head %d", c.head)
			}
		}
		// consensus params of a kept height (absent heights are not called: the function dereferences the missing
		// record, and no caller exists that could tell what it should do instead)
		if kept {
			var p kproto.ConsensusParams
			ev.Guard(t, c.text, func() { p, err = store.LoadConsensusParams(h) })
			where := fmt.Sprintf("LoadConsensusParams(%d)", h)
			if err != nil {
				key := "loadparams.missing"
				if afterPrune {
					key = "prune.kept-params-unloadable"
				}
				c.ctx(t, where, false).fail(key, "error %v", err)
			} else if pb, _ := p.Marshal(); string(pb) != string(c.saved[h].ParamsBytes) {
				c.ctx(t, where, false).fail("loadparams.differ", "params %+v, saved %+v", p, c.saved[h].Params)
			}
		}
	}
}

// ---------------------------------------------------------------- generator

var scenarios = []string{"static-unequal", "static-equal", "consecutive", "return", "random", "return-far", "consecutive"}

func genPower(t *rapid.T, bigp bool, label string) int64 {
	if bigp {
		return int64(rapid.IntRange(1, 9).Draw(t, label)) * 100000000000000
	}
	return int64(rapid.IntRange(1, 12).Draw(t, label))
}

// mutate draws a valid new membership that differs from cur: add / remove / re-power, one to three of them.
func mutate(t *rapid.T, cur []member, bigp bool) []member {
	out := append([]member(nil), cur...)
	k := rapid.IntRange(1, 3).Draw(t, "nchg")
	touched := map[common.Address]bool{}
	for i := 0; i < k; i++ {
		switch op := rapid.IntRange(0, 2).Draw(t, "op"); {
		case op == 0 && len(out) < 7: // add
			var free []int
			for a := 0; a < 10; a++ {
				f := true
				for _, m := range out {
					if m.addr == addrN(a) {
						f = false
					}
				}
				if f && !touched[addrN(a)] {
					free = append(free, a)
				}
			}
			if len(free) == 0 {
				continue
			}
			a := addrN(rapid.SampledFrom(free).Draw(t, "add"))
			touched[a] = true
			out = append(out, member{a, genPower(t, bigp, "addpower")})
		case op == 1 && len(out) > 1: // remove
			i := rapid.IntRange(0, len(out)-1).Draw(t, "rm")
			if touched[out[i].addr] {
				continue
			}
			touched[out[i].addr] = true
			out = append(out[:i:i], out[i+1:]...)
		default: // re-power
			i := rapid.IntRange(0, len(out)-1).Draw(t, "rp")
			if touched[out[i].addr] {
				continue
			}
			touched[out[i].addr] = true
			p := genPower(t, bigp, "newpower")
			if p == out[i].power {
				p++
			}
			out[i].power = p
		}
	}
	return out
}

func sameMembersList(a, b []member) bool {
	if len(a) != len(b) {
		return false
	}
	am := map[common.Address]int64{}
	for _, m := range a {
		am[m.addr] = m.power
	}
	for _, m := range b {
		if p, ok := am[m.addr]; !ok || p != m.power {
			return false
		}
	}
	return true
}

func genParams(t *rapid.T) kproto.ConsensusParams {
	p := *configs.DefaultConsensusParams()
	switch rapid.IntRange(0, 3).Draw(t, "params") {
	case 1:
		p = *configs.TestConsensusParams()
	case 2:
		p.Block.MaxBytes = int64(rapid.IntRange(1, 1<<22).Draw(t, "maxbytes"))
		p.Block.MaxGas = uint64(rapid.IntRange(0, 1<<30).Draw(t, "maxgas"))
		p.Evidence.MaxAgeNumBlocks = int64(rapid.IntRange(1, 1000000).Draw(t, "agenb"))
		p.Evidence.MaxAgeDuration = time.Duration(rapid.IntRange(1, 1000000).Draw(t, "agedur")) * time.Second
	case 3:
		p.Block.TimeIotaMs = int64(rapid.IntRange(1, 5000).Draw(t, "iota"))
		p.Evidence.MaxBytes = int64(rapid.IntRange(0, 1<<21).Draw(t, "evbytes"))
	}
	return p
}

// TestStoreChain: generated chains through the light driver.
func TestStoreChain(t *testing.T) {
	maxH := ev.Scale("MAXH", 15)
	rapid.Check(t, func(t *rapid.T) {
		scen := rapid.SampledFrom(scenarios).Draw(t, "scenario")
		bigp := rapid.IntRange(0, 4).Draw(t, "big") == 0
		n := rapid.IntRange(1, 5).Draw(t, "n")
		if scen == "static-unequal" && n < 2 {
			n = 2
		}
		var vals []member
		for i := 0; i < n; i++ {
			p := genPower(t, bigp, "power")
			switch scen {
			case "static-equal":
				if i > 0 {
					p = vals[0].power
				}
			case "static-unequal":
				for _, m := range vals {
					if m.power == p {
						p = m.power + int64(i)*vals[0].power + 1
					}
				}
			}
			vals = append(vals, member{addrN(i), p})
		}
		H := rapid.IntRange(3, maxH).Draw(t, "H")
		salt := rapid.Byte().Draw(t, "salt")
		ts := time.Unix(int64(1600000000+rapid.IntRange(0, 1<<26).Draw(t, "ts")), int64(rapid.SampledFrom([]int{0, 0, 1, 999999999, 123456789}).Draw(t, "ns"))).UTC()
		c := newChain(t, vals, genParams(t), ts, salt)
		c.restart(t) // a node stopped before block 1

		// scenario plan
		hist := [][]member{c.nextMembers()} // memberships seen so far (to return to)
		changeAt := map[int]string{}
		switch scen {
		case "consecutive":
			h0 := rapid.IntRange(1, H-1).Draw(t, "h0")
			k := rapid.IntRange(2, 5).Draw(t, "run")
			for i := 0; i < k && h0+i <= H; i++ {
				changeAt[h0+i] = "new"
			}
		case "return":
			h1 := rapid.IntRange(1, H-1).Draw(t, "h1")
			h2 := rapid.IntRange(h1+1, H).Draw(t, "h2")
			changeAt[h1] = "new"
			changeAt[h2] = "back"
			if h2+1 <= H && rapid.Bool().Draw(t, "again") {
				changeAt[rapid.IntRange(h2+1, H).Draw(t, "h3")] = "back"
			}
			if rapid.Bool().Draw(t, "mid") && h2-h1 > 1 {
				changeAt[rapid.IntRange(h1+1, h2-1).Draw(t, "hm")] = "new"
			}
		}
		if scen == "return-far" {
			// A, then B for at least three heights, then A again (the shape in which only records keep A alive)
			if H < 7 {
				H = 7
			}
			h1 := rapid.IntRange(1, H-5).Draw(t, "h1")
			h2 := rapid.IntRange(h1+1, H-4).Draw(t, "h2")
			h3 := rapid.IntRange(h2+3, H).Draw(t, "h3")
			changeAt[h1], changeAt[h2], changeAt[h3] = "new", "back", "back"
		}
		returned := false
		step := func(h int, allowPlan bool) {
			kind := ""
			if allowPlan {
				kind = changeAt[h]
			}
			if scen == "random" || !allowPlan && !strings.HasPrefix(scen, "static") {
				switch rapid.IntRange(0, 5).Draw(t, "rnd") {
				case 0, 1:
					kind = "new"
				case 2:
					kind = "back"
				}
			}
			var target []member
			switch kind {
			case "new":
				target = mutate(t, c.nextMembers(), bigp)
			case "back":
				// an earlier membership that differs from the current one
				var cands [][]member
				for _, m := range hist {
					if !sameMembersList(m, c.nextMembers()) {
						cands = append(cands, m)
					}
				}
				if len(cands) > 0 {
					target = cands[rapid.IntRange(0, len(cands)-1).Draw(t, "backto")]
					returned = true
				}
			}
			if target != nil && sameMembersList(target, c.nextMembers()) {
				target = nil
			}
			dt := time.Duration(rapid.SampledFrom([]int{1, 5000, 5001, 1000000007, 60000}).Draw(t, "dt")) * time.Millisecond
			c.block(t, target, dt, salt)
			if target != nil {
				hist = append(hist, c.nextMembers())
			}
			if rapid.IntRange(0, 2).Draw(t, "restart") == 0 {
				c.restart(t)
			}
		}
		for h := 1; h <= H; h++ {
			step(h, true)
		}
		c.checkAll(t)

		// heights whose state mentions one membership only although the membership changed before (a prune range that
		// ends there leaves only genesis and that state to protect older sets)
		var memberStretches []uint64
		for h := uint64(1); h <= c.head && len(hist) > 1; h++ {
			if st := c.saved[h]; st.Last.fp() == st.Cur.fp() && st.Cur.fp() == st.Next.fp() {
				memberStretches = append(memberStretches, h)
			}
		}
		// pruning
		np := rapid.SampledFrom([]int{0, 1, 1, 1, 2, 2, 3}).Draw(t, "nprune")
		pruneBelowKept := false
		var lastTo uint64
		for i := 0; i < np; i++ {
			// PruneState keeps what "the next state", the one at `to`, refers to: a caller has to name a `to` whose
			// state exists (the head always does). Everything else about the range is arbitrary.
			var keptHs []int
			for h := 1; h <= int(c.head); h++ {
				if c.kept(uint64(h)) {
					keptHs = append(keptHs, h)
				}
			}
			var from, to uint64
			switch style := rapid.IntRange(0, 6).Draw(t, "style"); {
			case style == 0: // up to the head
				from, to = uint64(rapid.IntRange(0, int(c.head)).Draw(t, "from")), c.head
			case style == 1 && i > 0 && lastTo <= c.head: // progressive, like a periodic pruner
				from, to = lastTo, uint64(rapid.SampledFrom(keptHs).Draw(t, "to"))
			case style == 2: // inverted or empty: nothing may happen, whatever `to` is
				to = uint64(rapid.IntRange(0, int(c.head)+1).Draw(t, "to"))
				from = uint64(rapid.IntRange(int(to), int(c.head)+2).Draw(t, "from"))
				if to == 0 {
					from = uint64(rapid.IntRange(0, int(c.head)+2).Draw(t, "from0"))
				}
			case style == 3 && len(memberStretches) > 0: // ends inside a stretch of constant membership
				st := memberStretches[rapid.IntRange(0, len(memberStretches)-1).Draw(t, "stretch")]
				to = st
				for !c.kept(to) && to < c.head {
					to++
				}
				from = uint64(rapid.IntRange(0, int(to)).Draw(t, "from"))
			default:
				to = uint64(rapid.SampledFrom(keptHs).Draw(t, "to"))
				from = uint64(rapid.IntRange(0, int(to)).Draw(t, "from"))
			}
			wasKept := to >= 2 && c.kept(to-1)
			c.prune(t, from, to)
			if wasKept && from < to && c.kept(to) && !c.kept(to-1) {
				pruneBelowKept = true
			}
			lastTo = to
			if rapid.IntRange(0, 2).Draw(t, "growbetween") == 0 {
				step(int(c.head)+1, false)
			}
		}
		if np > 0 {
			ext := rapid.IntRange(0, 3).Draw(t, "ext")
			for i := 0; i < ext; i++ {
				step(int(c.head)+1, false)
			}
			c.checkAll(t)
		}

		// non-trivial: two saved sets with equal members and powers but different priorities, or a prune range that
		// ends one below a kept state
		twin := c.hasTwin()
		classes := []string{"light:" + scen, fmt.Sprintf("prunes=%d", np)}
		if bigp {
			classes = append(classes, "powers=1e14-scale")
		}
		if twin {
			classes = append(classes, "equal-members-different-priorities")
		}
		if pruneBelowKept {
			classes = append(classes, "prune-ends-below-kept-state")
		}
		if returned {
			classes = append(classes, "returned-to-earlier-membership")
		}
		if len(hist) > 1 {
			classes = append(classes, "membership-changed")
		}
		for k := range c.hits {
			classes = append(classes, "deviation:"+k)
		}
		sort.Strings(classes)
		ev.Case(twin || pruneBelowKept, c.text(), classes...)
		if ev.WantSample("light:" + scen) {
			ev.Sample("light:"+scen, c.text())
		}
	})
}
