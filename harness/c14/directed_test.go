package c14

// Directed reproducers / regression tests of the listed findings. Each decides "does the deviation show" on a minimal
// input against the real code; ev.Known(key) decides whether that is reported as a reproduced known finding or - once
// the line is flipped to fixed: - as a violation (regression).

import (
	"fmt"
	"testing"
	"time"

	"github.com/kardiachain/go-kardia/configs"
	"github.com/kardiachain/go-kardia/kai/state/cstate"
	"github.com/kardiachain/go-kardia/lib/log"

	"verifharness/internal/ev"
	"verifharness/internal/netsim"
)

// decide files the outcome of one directed scenario. A key may have several scenarios; a known finding counts as
// reproduced when any of them shows it (reported once, by report()).
var shown = map[string]bool{}
var shownOrder []string

func decide(t *testing.T, key string, shows bool, caseText, detail string) {
	ev.Case(true, key+"\n"+caseText, "directed:"+key)
	ev.Sample("directed:"+key, caseText+"\n=> "+detail)
	if _, ok := shown[key]; !ok {
		shownOrder = append(shownOrder, key)
	}
	shown[key] = shown[key] || shows
	if shows && !ev.Known(key) {
		ev.Violation(t, key, caseText, "%s", detail)
	}
}

func report() {
	for _, key := range shownOrder {
		if ev.Known(key) {
			ev.KnownReproduced(key, shown[key])
		}
	}
}

// setsDiffer describes the first of last/current/next whose priorities or proposer differ from the saved ones ("" if
// none; members are expected equal here).
func setsDiffer(got *cstate.LatestBlockState, want *stateSnap) string {
	for _, p := range []struct {
		name string
		g    setSnap
		w    setSnap
	}{{"LastValidators", snapSet(got.LastValidators), want.Last}, {"Validators", snapSet(got.Validators), want.Cur}, {"NextValidators", snapSet(got.NextValidators), want.Next}} {
		if p.w.Nil {
			continue
		}
		if !p.g.sameMembers(p.w) || !p.g.samePriorities(p.w) || p.g.Proposer != p.w.Proposer {
			return fmt.Sprintf("%s loaded as [%s], saved [%s]", p.name, p.g, p.w)
		}
	}
	return ""
}

var directedTS = time.Unix(1700000000, 0).UTC()

func TestKnown(t *testing.T) {
	defer report()
	params := *configs.DefaultConsensusParams()
	two := []member{{addrN(0), 1}, {addrN(1), 2}}

	// ---- D4 (a): the smallest input there is - the genesis state of two validators, saved, loaded.
	{
		c := newChain(t, two, params, directedTS, 1)
		got := cstate.NewStore(c.db).Load()
		d := setsDiffer(&got, c.saved[0])
		// (b): a static set after two blocks through updateState: last, current and next all come back as next
		c.block(t, nil, time.Second, 1)
		c.block(t, nil, time.Second, 1)
		got2 := cstate.NewStore(c.db).Load()
		d2 := setsDiffer(&got2, c.saved[2])
		detail := "loaded sets equal the saved ones"
		if d != "" || d2 != "" {
			detail = fmt.Sprintf("genesis: %s; after two blocks: %s", d, d2)
		}
		decide(t, keyD4, d != "" || d2 != "", "light driver: genesis a001:1 a002:2, Save, Load; then two blocks without changes, Load", detail)
	}
	// ---- D4 (c): the same through real nodes: ApplyBlock saved it, a restart loads it.
	{
		s, err := netsim.NewSim([]int64{15, 16, 17}, nil, nil)
		if err != nil {
			t.Fatalf("harness: %v", err)
		}
		s.Start()
		if ok, _, why := s.SyncRun(s.Correct, 4, 2000); !ok {
			s.Close()
			t.Fatalf("harness: %s", why)
		}
		nd := s.Nodes[0]
		mem := nd.CS.VerifState()
		got := cstate.NewStore(nd.DB).Load()
		d := setsDiffer(&got, snapState(mem))
		detail := "loaded sets equal the state the node holds in memory"
		if d != "" {
			gp, mp := snapSet(got.Validators).Proposer, snapSet(mem.Validators).Proposer
			detail = fmt.Sprintf("after block %d: %s - a restarted node expects proposer %x for the next height, the running ones %x", mem.LastBlockHeight, d, gp[:3], mp[:3])
		}
		s.Close()
		decide(t, keyD4, d != "", "real nodes, powers 15/16/17, three blocks, node 0: new store over its database, Load", detail)
	}

	// ---- D17: a node stopped before block 1.
	{
		c := newChain(t, two, params, directedTS, 1)
		got := cstate.NewStore(c.db).Load()
		decide(t, keyD17, !zeroID(got.LastBlockID), "light driver: genesis saved, Load at head 0",
			fmt.Sprintf("LastBlockID loaded %v, saved %v", got.LastBlockID, c.saved[0].BlockID))
		decide(t, keyGenesisAppHash, got.AppHash != c.saved[0].AppHash, "light driver: genesis saved, Load at head 0",
			fmt.Sprintf("AppHash loaded %x, saved %x", got.AppHash[:], c.saved[0].AppHash[:]))
	}
	{
		// real nodes: the others build block 1 on the state they hold in memory; does a restarted node accept it?
		s, err := netsim.NewSim([]int64{15, 15, 15, 15}, nil, nil)
		if err != nil {
			t.Fatalf("harness: %v", err)
		}
		stopped := s.Nodes[3]
		mem := stopped.CS.VerifState()
		loaded := cstate.NewStore(stopped.DB).Load()
		s.Down[3] = true
		s.Start()
		if ok, _, why := s.SyncRun([]int{0, 1, 2}, 2, 2000); !ok {
			s.Close()
			t.Fatalf("harness: %s", why)
		}
		b1 := s.Nodes[0].BOps.LoadBlock(1)
		if b1 == nil {
			s.Close()
			t.Fatalf("harness: no block 1")
		}
		errMem := stopped.Exec.ValidateBlock(mem, b1)
		errLoaded := cstate.NewBlockExecutor(stopped.Store, quietLogger(), stopped.EvPool, stopped.BOps).ValidateBlock(loaded, b1)
		s.Close()
		if errMem != nil {
			t.Fatalf("harness: the state in memory rejects the committed block 1: %v", errMem)
		}
		text := "real nodes 15/15/15/15: node 3 is stopped before block 1 (state = Load()), nodes 0-2 commit block 1; ValidateBlock(loaded state, block 1)"
		decide(t, keyD17, !zeroID(loaded.LastBlockID), text, fmt.Sprintf("LastBlockID loaded %v, in memory %v; ValidateBlock: %v", loaded.LastBlockID, mem.LastBlockID, errLoaded))
		decide(t, keyGenesisAppHash, loaded.AppHash != mem.AppHash, text, fmt.Sprintf("AppHash loaded %x, in memory %x; ValidateBlock: %v", loaded.AppHash[:6], mem.AppHash[:6], errLoaded))
		if errLoaded != nil && zeroID(loaded.LastBlockID) && loaded.AppHash == mem.AppHash {
			ev.Violation(t, "load.genesis-state-rejects-block-1", text, "the loaded genesis state rejects the block 1 the network committed: %v", errLoaded)
		}
	}

	// ---- prune: the set returns to an earlier membership above the pruned range.
	{
		c := newChain(t, []member{{addrN(0), 1}}, params, directedTS, 1)
		A := []member{{addrN(0), 2}}
		G := []member{{addrN(0), 1}}
		c.block(t, A, time.Second, 1)   // height 3 on: A
		c.block(t, G, time.Second, 1)   // height 4 on: the genesis set again
		c.block(t, nil, time.Second, 1) //
		c.block(t, nil, time.Second, 1) //
		c.block(t, A, time.Second, 1)   // height 7 on: A again; head state 5 = (G, G, A)
		c.prune(t, 3, 4)                // state 3 = (A, G, G) goes; state 4 = (G, G, G) and genesis do not mention A
		msg, frame := ev.Try(func() { cstate.NewStore(c.db).Load() })
		key, d := c.lostSet(c.head)
		detail := "Load at the head works"
		if msg != "" {
			detail = fmt.Sprintf("Load at head 5 panics in %s (%s): %s", frame, msg, d)
		}
		decide(t, keyPrune, msg != "" && key == keyPrune, c.text(), detail)
		if msg != "" && key != keyPrune {
			if key == "" {
				key = "panic:" + frame
			}
			ev.Violation(t, key, c.text(), "Load panics: %s %s", msg, d)
		}
	}
	{
		// the same with LoadValidators as the observer: the kept height whose LastValidators record is deleted
		c := newChain(t, []member{{addrN(0), 1}}, params, directedTS, 1)
		A := []member{{addrN(0), 2}}
		G := []member{{addrN(0), 1}}
		c.block(t, A, time.Second, 1)
		c.block(t, G, time.Second, 1)
		c.block(t, nil, time.Second, 1)
		c.block(t, nil, time.Second, 1)
		c.block(t, A, time.Second, 1)
		c.block(t, nil, time.Second, 1)
		c.block(t, nil, time.Second, 1) // head 7 = (A, A, A)
		c.prune(t, 1, 4)
		vs, err := c.store.LoadValidators(7)
		key, d := c.lostSet(7)
		detail := fmt.Sprintf("LoadValidators(7) = %s", snapSet(vs))
		if err != nil {
			detail = fmt.Sprintf("LoadValidators(7): %v; %s", err, d)
		}
		decide(t, keyPrune, err != nil && key == keyPrune, c.text()+"\nLoadValidators(7)", detail)
		if err != nil && key != keyPrune {
			ev.Violation(t, "prune.kept-validators-unloadable", c.text(), "LoadValidators(7): %v %s", err, d)
		}
	}
}

func quietLogger() log.Logger {
	l := log.New()
	l.SetHandler(log.DiscardHandler())
	return l
}
