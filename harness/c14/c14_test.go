// Package c14 decides property C14: the consensus state loaded from disk equals the state that was saved.
//
// Oracle: the harness keeps its own deep snapshot (plain values, no go-kardia pointers) of every LatestBlockState at the
// moment it is handed to Store.Save and compares what Load / loadStateAtHeight / LoadValidators / LoadConsensusParams
// return with it, field by field.  Nothing of the store's keying or encoding is re-used by the oracle.  The only
// place where the harness mirrors the store is the CLASSIFICATION of one listed deviation (D4): a loaded set whose
// priorities are wrong is filed under load.priorities-lost only if it is exactly the set that was written last with the
// same members and powers; any other wrong priority vector gets another key.
package c14

import (
	"fmt"
	"os"
	"reflect"
	"strings"
	"testing"
	"time"

	"github.com/kardiachain/go-kardia/kai/state/cstate"
	"github.com/kardiachain/go-kardia/lib/common"
	kproto "github.com/kardiachain/go-kardia/proto/kardiachain/types"
	"github.com/kardiachain/go-kardia/types"

	"verifharness/internal/ev"
)

func TestMain(m *testing.M) {
	ev.Init("C14")
	rc := m.Run()
	ev.Flush()
	os.Exit(rc)
}

// finding keys
const (
	keyD4             = "load.priorities-lost"     // listed (D4)
	keyD17            = "load.genesis-lastblockid" // listed (D17)
	keyGenesisAppHash = "load.genesis-apphash"
	keyPrune          = "prune.removes-set-of-kept-state"
)

// ---------------------------------------------------------------- harness-owned snapshots

type valSnap struct {
	Addr  common.Address
	Power int64
	Prio  int64
}

type setSnap struct {
	Nil      bool
	Vals     []valSnap
	Proposer common.Address
	Total    int64       // own sum of the powers
	RecKey   common.Hash // ValidatorSet.Hash() at snapshot time: where the store keeps the record (used only to file prune findings)
}

// fp is the membership fingerprint (members, powers, order) - priorities and proposer excluded.
func (s setSnap) fp() string {
	if s.Nil {
		return "nil"
	}
	var b strings.Builder
	for _, v := range s.Vals {
		fmt.Fprintf(&b, "%x:%d,", v.Addr[:], v.Power)
	}
	return b.String()
}

func (s setSnap) String() string {
	if s.Nil {
		return "nil"
	}
	var b strings.Builder
	for _, v := range s.Vals {
		fmt.Fprintf(&b, "%x:%d@%d ", v.Addr[:3], v.Power, v.Prio)
	}
	fmt.Fprintf(&b, "proposer=%x", s.Proposer[:3])
	return b.String()
}

func (s setSnap) sameMembers(o setSnap) bool { return s.fp() == o.fp() }

func (s setSnap) samePriorities(o setSnap) bool {
	if s.Nil || o.Nil || len(s.Vals) != len(o.Vals) {
		return s.Nil == o.Nil && len(s.Vals) == len(o.Vals)
	}
	for i := range s.Vals {
		if s.Vals[i].Prio != o.Vals[i].Prio {
			return false
		}
	}
	return true
}

// snapSet reads the exported fields only (GetProposer / TotalVotingPower would fill caches of the live object).
func snapSet(vs *types.ValidatorSet) setSnap {
	if vs == nil {
		return setSnap{Nil: true}
	}
	s := setSnap{}
	for _, v := range vs.Validators {
		s.Vals = append(s.Vals, valSnap{v.Address, v.VotingPower, v.ProposerPriority})
		s.Total += v.VotingPower
	}
	if vs.Proposer != nil {
		s.Proposer = vs.Proposer.Address
	}
	s.RecKey = vs.Hash()
	return s
}

type stateSnap struct {
	ChainID       string
	InitialHeight uint64
	Height        uint64
	BlockID       types.BlockID
	Time          time.Time
	AppHash       common.Hash
	Params        kproto.ConsensusParams
	ParamsBytes   []byte
	LHVC          uint64
	Last          setSnap
	Cur           setSnap
	Next          setSnap
}

func snapState(st cstate.LatestBlockState) *stateSnap {
	pb, err := st.ConsensusParams.Marshal()
	if err != nil {
		panic("harness: params do not marshal: " + err.Error())
	}
	return &stateSnap{
		ChainID: st.ChainID, InitialHeight: st.InitialHeight, Height: st.LastBlockHeight,
		BlockID: types.BlockID{Hash: st.LastBlockID.Hash, PartsHeader: types.PartSetHeader{Total: st.LastBlockID.PartsHeader.Total, Hash: st.LastBlockID.PartsHeader.Hash}},
		Time:    st.LastBlockTime, AppHash: st.AppHash, Params: st.ConsensusParams, ParamsBytes: pb,
		LHVC: st.LastHeightValidatorsChanged,
		Last: snapSet(st.LastValidators), Cur: snapSet(st.Validators), Next: snapSet(st.NextValidators),
	}
}

func sameID(a, b types.BlockID) bool {
	return a.Hash == b.Hash && a.PartsHeader.Total == b.PartsHeader.Total && a.PartsHeader.Hash == b.PartsHeader.Hash
}

func zeroID(a types.BlockID) bool { return sameID(a, types.BlockID{}) }

// ---------------------------------------------------------------- the D4 classification model

// writeModel mirrors ONE fact about the store, needed only to recognise the listed deviation D4 exactly: records of
// validator sets are addressed by (members, powers), so the set written last under a fingerprint is what every later
// read of that fingerprint returns.  At height 0 Save writes Validators and then NextValidators, afterwards only
// NextValidators.
type writeModel map[string]setSnap

func (m writeModel) saved(s *stateSnap) {
	if s.Height == 0 {
		m[s.Cur.fp()] = s.Cur
	}
	m[s.Next.fp()] = s.Next
}

// ---------------------------------------------------------------- comparison

type cmpCtx struct {
	t        ev.TB
	caseText func() string
	where    string // "restart@h", "kept@h after prune", ...
	model    writeModel
	genesis  types.BlockID // id of the height-0 block in the database
	genesisA common.Hash   // app hash stored for height 0
	head     bool          // LastHeightValidatorsChanged is asserted for the head state only
	hits     map[string]int
}

func (c *cmpCtx) fail(key, format string, a ...interface{}) {
	if c.hits != nil {
		c.hits[key]++
	}
	ev.Violation(c.t, key, c.caseText(), c.where+": "+format, a...)
}

func (c *cmpCtx) state(got *cstate.LatestBlockState, want *stateSnap) {
	if got.ChainID != want.ChainID {
		c.fail("load.chainid-differs", "chain id %q, saved %q", got.ChainID, want.ChainID)
	}
	if got.InitialHeight != want.InitialHeight {
		c.fail("load.initialheight-differs", "initial height %d, saved %d", got.InitialHeight, want.InitialHeight)
	}
	if got.LastBlockHeight != want.Height {
		c.fail("load.height-differs", "last block height %d, saved %d", got.LastBlockHeight, want.Height)
	}
	if !sameID(got.LastBlockID, want.BlockID) {
		if want.Height == 0 && zeroID(want.BlockID) && sameID(got.LastBlockID, c.genesis) {
			c.fail(keyD17, "the state saved at genesis has the zero LastBlockID, the loaded one has the id of the height-0 block %v", got.LastBlockID)
		} else {
			c.fail("load.lastblockid-differs", "last block id %v, saved %v", got.LastBlockID, want.BlockID)
		}
	}
	if !got.LastBlockTime.Equal(want.Time) {
		c.fail("load.lastblocktime-differs", "last block time %v, saved %v", got.LastBlockTime.UTC(), want.Time.UTC())
	}
	if got.AppHash != want.AppHash {
		if want.Height == 0 && want.AppHash == (common.Hash{}) && got.AppHash == c.genesisA {
			c.fail(keyGenesisAppHash, "the state saved at genesis has the zero AppHash, the loaded one has the height-0 block's state root %x", got.AppHash[:6])
		} else {
			c.fail("load.apphash-differs", "app hash %x, saved %x", got.AppHash, want.AppHash)
		}
	}
	gb, _ := got.ConsensusParams.Marshal()
	if !reflect.DeepEqual(got.ConsensusParams, want.Params) || string(gb) != string(want.ParamsBytes) {
		c.fail("load.params-differ", "consensus params %+v, saved %+v", got.ConsensusParams, want.Params)
	}
	if c.head && got.LastHeightValidatorsChanged != want.LHVC {
		c.fail("load.lastheightvalidatorschanged-differs", "LastHeightValidatorsChanged %d, saved %d", got.LastHeightValidatorsChanged, want.LHVC)
	}
	c.set("load.lastvalidators", "LastValidators", got.LastValidators, want.Last)
	c.set("load.validators", "Validators", got.Validators, want.Cur)
	c.set("load.nextvalidators", "NextValidators", got.NextValidators, want.Next)
}

// members compares members, powers, order and the total; it reports under prefix+"-membership-differs" /
// "-totalpower-differs" and returns false when the priority comparison makes no sense any more.
func (c *cmpCtx) members(prefix string, got *types.ValidatorSet, want setSnap) bool {
	g := snapSet(got)
	if !g.sameMembers(want) {
		c.fail(prefix+"-membership-differs", "members/powers %s, saved %s", g, want)
		return false
	}
	if got != nil {
		if tp := got.TotalVotingPower(); tp != want.Total {
			c.fail(prefix+"-totalpower-differs", "total voting power %d, the powers add up to %d", tp, want.Total)
		}
	}
	return true
}

// set compares one validator set completely; keys are prefix + "-membership-differs" / "-totalpower-differs" /
// "-priorities-differ" / "-proposer-differs", except for the one listed deviation D4.
func (c *cmpCtx) set(prefix, which string, got *types.ValidatorSet, want setSnap) {
	if !c.members(prefix, got, want) || want.Nil {
		return
	}
	g := snapSet(got)
	if g.samePriorities(want) && g.Proposer == want.Proposer {
		return
	}
	// listed deviation D4, exactly: the loaded set is the one written last with these members and powers
	if last, ok := c.model[want.fp()]; ok && g.samePriorities(last) && g.Proposer == last.Proposer {
		c.fail(keyD4, "%s came back as the set written last with the same members (%s), saved was %s", which, g, want)
		return
	}
	if !g.samePriorities(want) {
		c.fail(prefix+"-priorities-differ", "%s priorities %s, saved %s", which, g, want)
		return
	}
	c.fail(prefix+"-proposer-differs", "%s proposer %x, saved %x", which, g.Proposer, want.Proposer)
}
