package c14

// Chains produced by the real thing: simulated nodes (harness/internal/netsim) run real consensus, real block
// execution with the staking contract, BlockExecutor.ApplyBlock and its Store.Save.  The state a node holds in memory
// after a commit (ConsensusState.state, the value ApplyBlock saved and returned) is snapshotted by the harness after
// every simulator primitive; "restart" = a new store over the node's database + Load().

import (
	"fmt"
	"math/big"
	"sort"
	"strings"
	"testing"

	"pgregory.net/rapid"

	"github.com/kardiachain/go-kardia/kai/rawdb"
	"github.com/kardiachain/go-kardia/kvm"
	"github.com/kardiachain/go-kardia/lib/common"
	"github.com/kardiachain/go-kardia/mainchain/staking"
	"github.com/kardiachain/go-kardia/types"

	"verifharness/internal/ev"
	"verifharness/internal/netsim"
)

// realViews attaches one chain view per node of the simulation and keeps them up to date.
type realViews struct {
	s     *netsim.Sim
	views []*chain
	ops   *[]string
}

func attach(t ev.TB, s *netsim.Sim, ops *[]string) *realViews {
	r := &realViews{s: s, ops: ops}
	for _, nd := range s.Nodes {
		if nd == nil {
			r.views = append(r.views, nil)
			continue
		}
		meta := rawdb.ReadBlockMeta(nd.DB, 0)
		if meta == nil {
			t.Fatalf("harness: node %d has no genesis block", nd.Index)
		}
		c := &chain{db: nd.DB, store: nd.Store, saved: map[uint64]*stateSnap{}, model: writeModel{}, pruned: map[uint64]bool{}, hits: map[string]int{},
			genesis: meta.BlockID, genApp: rawdb.ReadAppHash(nd.DB, 0)}
		r.views = append(r.views, c)
	}
	prev := s.Net.After
	s.Net.After = func() {
		if prev != nil {
			prev()
		}
		r.capture()
	}
	r.capture()
	return r
}

// capture snapshots every node's in-memory state the first time it is seen at a height.
func (r *realViews) capture() {
	for i, nd := range r.s.Nodes {
		if nd == nil {
			continue
		}
		st := nd.CS.VerifState()
		c := r.views[i]
		if _, ok := c.saved[st.LastBlockHeight]; !ok {
			c.saved[st.LastBlockHeight] = snapState(st)
		}
		c.head = st.LastBlockHeight
	}
}

// sync prepares view i for checking: shared text, and the D4 classification model replayed in save order. It returns
// false when a height was missed (a primitive advanced the node by more than one height) - then nothing is judged.
func (r *realViews) sync(i int) bool {
	c := r.views[i]
	c.ops = append(append([]string(nil), *r.ops...), fmt.Sprintf("node %d", i))
	c.model = writeModel{}
	for h := uint64(0); h <= c.head; h++ {
		s, ok := c.saved[h]
		if !ok {
			return false
		}
		c.model.saved(s)
	}
	return true
}

// staker sends real staking transactions (delegate / undelegate to a validator's contract) from the two funded
// non-validator accounts of the simulated genesis; the next proposer includes them and the staking contract reports
// the new powers at the end of that block, which is how a validator set changes on a real chain.
type staker struct {
	s      *netsim.Sim
	valSmc []common.Address
	nonce  [2]uint64
	staked [2]map[int]bool // delegator -> validator index it has a delegation with
	abi    *staking.ValidatorSmcUtil
}

func newStaker(t ev.TB, s *netsim.Sim) *staker {
	k := &staker{s: s, staked: [2]map[int]bool{{}, {}}}
	su, err := staking.NewSmcStakingUtil()
	if err != nil {
		t.Fatalf("harness: %v", err)
	}
	if k.abi, err = staking.NewSmcValidatorUtil(); err != nil {
		t.Fatalf("harness: %v", err)
	}
	nd := s.Nodes[s.Correct[0]]
	sdb, err := nd.BC.State()
	if err != nil {
		t.Fatalf("harness: %v", err)
	}
	for i := range s.Keys {
		a, err := su.GetValFromOwner(sdb, nd.BC.CurrentBlock().Header(), nd.BC, kvm.Config{}, s.Addr(i))
		if err != nil {
			t.Fatalf("harness: validator contract of %d: %v", i, err)
		}
		k.valSmc = append(k.valSmc, a)
	}
	return k
}

// send signs and hands the transaction to every node's pool. units: delegation in 1e24 wei (= 1e14 voting power),
// 0 = undelegate everything.
func (k *staker) send(t ev.TB, delegator, val int, units int64) {
	var payload []byte
	var err error
	value := new(big.Int)
	if units > 0 {
		payload, err = k.abi.Abi.Pack("delegate")
		unit, _ := new(big.Int).SetString("1000000000000000000000000", 10)
		value.Mul(unit, big.NewInt(units))
		k.staked[delegator][val] = true
	} else {
		payload, err = k.abi.Abi.Pack("undelegate")
		delete(k.staked[delegator], val)
	}
	if err != nil {
		t.Fatalf("harness: %v", err)
	}
	one := uint64(1)
	tx, err := types.SignTx(types.MakeSigner(k.s.G.Config, &one), types.NewTransaction(k.nonce[delegator], k.valSmc[val], value, 5000000, big.NewInt(1), payload), netsim.Key(100+delegator))
	if err != nil {
		t.Fatalf("harness: %v", err)
	}
	k.nonce[delegator]++
	for _, i := range k.s.Correct {
		if err := k.s.Nodes[i].TxPool.AddLocal(tx); err != nil {
			t.Fatalf("harness: tx pool of node %d refuses the staking transaction: %v", i, err)
		}
	}
}

func TestRealChain(t *testing.T) {
	maxH := ev.Scale("MAXH", 6)
	rapid.Check(t, func(t *rapid.T) {
		n := rapid.SampledFrom([]int{1, 2, 2, 3, 3, 4, 4}).Draw(t, "n")
		powers := make([]int64, n)
		shape := rapid.SampledFrom([]string{"unequal", "unequal", "equal", "any"}).Draw(t, "shape")
		for i := range powers {
			switch shape {
			case "unequal":
				powers[i] = int64(15 + i + rapid.IntRange(0, 1).Draw(t, "p")*n*7) // >= the staking contract's minimum self delegation
			case "equal":
				powers[i] = 15
			default:
				powers[i] = int64(rapid.IntRange(15, 100).Draw(t, "p"))
			}
		}
		H := uint64(rapid.IntRange(3, maxH).Draw(t, "H"))
		scen := rapid.SampledFrom([]string{"static", "consecutive", "return", "return", "random"}).Draw(t, "scenario")
		ops := []string{fmt.Sprintf("real chain (%s): powers %v (x1e14), %d blocks", scen, powers, H)}
		text := func() string { return strings.Join(ops, "\n") }
		var s *netsim.Sim
		var err error
		ev.Guard(t, text, func() { s, err = netsim.NewSim(powers, nil, nil) })
		if err != nil {
			t.Fatalf("harness: %v", err)
		}
		defer s.Close()
		r := attach(t, s, &ops)
		hits := map[string]int{}
		judged := 0
		check := func(i int, all bool) {
			if !r.sync(i) {
				ev.Class("real:height-missed-by-capture")
				return
			}
			c := r.views[i]
			c.hits = hits
			if hb := rawdb.ReadHeadBlock(c.db); hb == nil || hb.Height() != c.head {
				ev.Class("real:head-block-behind-state")
				return
			}
			judged++
			if all {
				c.checkAll(t)
			} else {
				c.restart(t)
			}
		}
		// every node stopped before block 1
		for _, i := range s.Correct {
			check(i, false)
		}
		// staking transactions per block height
		type act struct {
			del, val int
			units int64
		}
		plan := map[uint64][]act{}
		switch scen {
		case "consecutive":
			h0 := uint64(rapid.IntRange(1, int(H)-1).Draw(t, "h0"))
			for h := h0; h <= H && h < h0+3; h++ {
				plan[h] = []act{{int(h % 2), rapid.IntRange(0, n-1).Draw(t, "val"), int64(rapid.IntRange(1, 9).Draw(t, "units"))}}
			}
		case "return":
			h1 := uint64(rapid.IntRange(1, int(H)-1).Draw(t, "h1"))
			h2 := uint64(rapid.IntRange(int(h1)+1, int(H)).Draw(t, "h2"))
			v := rapid.IntRange(0, n-1).Draw(t, "val")
			plan[h1] = []act{{0, v, int64(rapid.IntRange(1, 9).Draw(t, "units"))}}
			plan[h2] = []act{{0, v, 0}}
		}
		st := newStaker(t, s)
		changed := false
		inject := func(h uint64) {
			acts := plan[h]
			if scen == "random" && rapid.IntRange(0, 2).Draw(t, "rnd") == 0 {
				d, v := rapid.IntRange(0, 1).Draw(t, "del"), rapid.IntRange(0, n-1).Draw(t, "val")
				if st.staked[d][v] && rapid.Bool().Draw(t, "undelegate") {
					acts = append(acts, act{d, v, 0})
				} else {
					acts = append(acts, act{d, v, int64(rapid.IntRange(1, 9).Draw(t, "units"))})
				}
			}
			for _, a := range acts {
				st.send(t, a.del, a.val, a.units)
				changed = true
				if a.units > 0 {
					ops = append(ops, fmt.Sprintf("block %d: account %d delegates %d to validator %d", h, a.del, a.units, a.val))
				} else {
					ops = append(ops, fmt.Sprintf("block %d: account %d undelegates from validator %d", h, a.del, a.val))
				}
			}
		}
		s.Start()
		for target := uint64(2); target <= H+1; target++ {
			inject(target - 1)
			var ok bool
			var why string
			ev.Guard(t, text, func() { ok, _, why = s.SyncRun(s.Correct, target, 2000) })
			if !ok {
				t.Fatalf("harness: the network did not reach height %d: %s", target, why)
			}
			// a drawn node is stopped and started again here
			check(s.Correct[rapid.IntRange(0, len(s.Correct)-1).Draw(t, "restart")], false)
		}
		for _, i := range s.Correct {
			check(i, true)
		}
		// pruning on one node
		pn := s.Correct[rapid.IntRange(0, len(s.Correct)-1).Draw(t, "prunenode")]
		c := r.views[pn]
		pruneBelowKept := false
		if r.sync(pn) && rapid.IntRange(0, 3).Draw(t, "prune") > 0 {
			from := uint64(rapid.IntRange(0, int(c.head)).Draw(t, "from"))
			to := uint64(rapid.IntRange(int(from), int(c.head)).Draw(t, "to"))
			wasKept := to >= 2 && c.kept(to-1)
			ops = append(ops, fmt.Sprintf("node %d:", pn))
			c.ops = ops
			c.prune(t, from, to)
			ops = c.ops
			pruneBelowKept = wasKept && from < to
			if rapid.Bool().Draw(t, "grow") {
				// the node keeps running after the prune
				var ok bool
				var why string
				ev.Guard(t, text, func() { ok, _, why = s.SyncRun(s.Correct, H+2, 2000) })
				if !ok {
					t.Fatalf("harness: the network did not reach height %d: %s", H+2, why)
				}
				ops = append(ops, "one more block")
			}
			check(pn, true)
		}
		twin := c.hasTwin()
		classes := []string{"real:" + shape, "real:" + scen, fmt.Sprintf("real:n=%d", n)}
		if changed {
			// did a set really change (the transaction was executed and the contract reported new powers)?
			if len(c.saved) > 0 && c.saved[c.head] != nil && c.saved[0] != nil {
				fps := map[string]bool{}
				for _, sn := range c.saved {
					fps[sn.Next.fp()] = true
				}
				if len(fps) > 1 {
					classes = append(classes, "membership-changed")
				} else {
					classes = append(classes, "real:staking-tx-without-effect")
				}
			}
		}
		if pruneBelowKept {
			classes = append(classes, "prune-ends-below-kept-state")
		}
		if twin {
			classes = append(classes, "equal-members-different-priorities")
		}
		for k := range hits {
			classes = append(classes, "deviation:"+k)
		}
		sort.Strings(classes)
		ev.Case((twin || pruneBelowKept) && judged > 0, text(), classes...)
		if ev.WantSample("real:" + shape) {
			ev.Sample("real:"+shape, text())
		}
	})
}
