// Independent RLP model used by every C16 oracle: a strict header reader, a type-directed reference decoder and a
// reference encoder, all written from the yellow-paper definition of RLP and the rules in lib/rlp/doc.go.
// Nothing in this file calls go-kardia's or go-ethereum's rlp package.
package c16

import (
	"fmt"
	"math/big"
	"reflect"
	"strings"
)

// ---------------------------------------------------------------- strict header reader (the "60-line parser")

const (
	hByte = iota // a single byte < 0x80 that is its own encoding
	hStr
	hList
)

type hd struct {
	kind    int
	payload []byte
	raw     []byte // header + payload
	rest    []byte
	wrapped bool // one-byte string < 0x80 written with a 0x81 header (non-canonical for every string consumer)
}

// next reads one value header from b. ok is false when the header is not canonical (long form for a payload < 56,
// leading zero in the length) or claims more bytes than b holds, or b is empty.
func next(b []byte) (h hd, ok bool) {
	if len(b) == 0 {
		return h, false
	}
	t := b[0]
	var hl int
	var size uint64
	switch {
	case t < 0x80:
		return hd{kind: hByte, payload: b[:1], raw: b[:1], rest: b[1:]}, true
	case t < 0xb8:
		h.kind, hl, size = hStr, 1, uint64(t-0x80)
	case t < 0xc0:
		h.kind, hl = hStr, 1+int(t-0xb7)
	case t < 0xf8:
		h.kind, hl, size = hList, 1, uint64(t-0xc0)
	default:
		h.kind, hl = hList, 1+int(t-0xf7)
	}
	if hl > 1 { // long form: big-endian length, no leading zero, value >= 56
		if len(b) < hl || b[1] == 0 {
			return h, false
		}
		for _, x := range b[1:hl] {
			size = size<<8 | uint64(x)
		}
		if size < 56 {
			return h, false
		}
	}
	if size > uint64(len(b)-hl) {
		return h, false
	}
	end := hl + int(size)
	h.payload, h.raw, h.rest = b[hl:end], b[:end], b[end:]
	h.wrapped = h.kind == hStr && size == 1 && h.payload[0] < 0x80
	return h, true
}

// strictItem parses one complete canonical item (recursively) and returns it as generic tree.
type gitem struct {
	list bool
	str  []byte
	kids []*gitem
}

func strictItem(b []byte) (it *gitem, rest []byte, ok bool) {
	h, ok := next(b)
	if !ok || h.wrapped {
		return nil, nil, false
	}
	if h.kind != hList {
		return &gitem{str: h.payload}, h.rest, true
	}
	it = &gitem{list: true}
	for p := h.payload; len(p) > 0; {
		var k *gitem
		if k, p, ok = strictItem(p); !ok {
			return nil, nil, false
		}
		it.kids = append(it.kids, k)
	}
	return it, h.rest, true
}

// strictWhole: b is exactly one canonical item.
func strictWhole(b []byte) (*gitem, bool) {
	it, rest, ok := strictItem(b)
	if !ok || len(rest) != 0 {
		return nil, false
	}
	return it, true
}

func (g *gitem) String() string {
	if !g.list {
		return fmt.Sprintf("%x", g.str)
	}
	var sb strings.Builder
	sb.WriteByte('[')
	for i, k := range g.kids {
		if i > 0 {
			sb.WriteByte(',')
		}
		sb.WriteString(k.String())
	}
	sb.WriteByte(']')
	return sb.String()
}

// ---------------------------------------------------------------- type descriptors and model values

type kind uint8

const (
	kUint kind = iota // n = bits
	kBool
	kBig    // *big.Int
	kBigVal // big.Int
	kString
	kBytes
	kByteArr // [n]byte
	kSlice
	kArray // [n]elem
	kStruct
	kPtr
	kRaw
	kIface
)

type fieldDesc struct {
	d          *desc
	nilTag     string // "", "nil", "nilString", "nilList"
	optional   bool
	tail       bool
	ignore     bool
	unexported bool // static types only: implies ignore
}

func (f fieldDesc) tag() string {
	var p []string
	if f.ignore {
		p = append(p, "-")
	}
	if f.nilTag != "" {
		p = append(p, f.nilTag)
	}
	if f.optional {
		p = append(p, "optional")
	}
	if f.tail {
		p = append(p, "tail")
	}
	return strings.Join(p, ",")
}

type desc struct {
	k      kind
	n      int
	uname  string // Go name of a uint kind
	elem   *desc
	fields []fieldDesc
	name   string // set for static (possibly recursive) types: printed instead of the structure

	rt [2]reflect.Type // materialised Go type per flavour (0 go-kardia, 1 go-ethereum)
}

func (d *desc) String() string {
	if d.name != "" {
		return d.name
	}
	switch d.k {
	case kUint:
		return d.uname
	case kBool:
		return "bool"
	case kBig:
		return "*big"
	case kBigVal:
		return "big"
	case kString:
		return "string"
	case kBytes:
		return "[]byte"
	case kByteArr:
		return fmt.Sprintf("[%d]byte", d.n)
	case kSlice:
		return "[]" + d.elem.String()
	case kArray:
		return fmt.Sprintf("[%d]%s", d.n, d.elem.String())
	case kPtr:
		return "*" + d.elem.String()
	case kRaw:
		return "Raw"
	case kIface:
		return "any"
	case kStruct:
		var sb strings.Builder
		sb.WriteString("S{")
		for i, f := range d.fields {
			if i > 0 {
				sb.WriteByte(';')
			}
			sb.WriteString(f.d.String())
			if tg := f.tag(); tg != "" {
				sb.WriteString("`" + tg + "`")
			}
		}
		sb.WriteByte('}')
		return sb.String()
	}
	return "?"
}

// walk visits d and everything below it once (static recursive types are cut by the seen set).
func (d *desc) walk(seen map[*desc]bool, f func(*desc, *fieldDesc)) {
	if seen[d] {
		return
	}
	seen[d] = true
	f(d, nil)
	if d.elem != nil {
		d.elem.walk(seen, f)
	}
	for i := range d.fields {
		f(nil, &d.fields[i])
		d.fields[i].d.walk(seen, f)
	}
}

// features of a type that decide which oracle clauses apply.
type feat struct {
	optional, tail, raw, iface bool
	byteArr1                   bool // holds a [1]byte: go-ethereum v1.9.15 mis-decodes [1]byte{0} (ignores the error of s.Uint() and desynchronises)
	nestLSL                    bool // a list inside a struct inside a list (the DESIGN non-trivial rule)
}

func (d *desc) features() feat {
	var ft feat
	d.walk(map[*desc]bool{}, func(x *desc, f *fieldDesc) {
		if f != nil {
			ft.optional = ft.optional || (f.optional && !f.ignore)
			ft.tail = ft.tail || (f.tail && !f.ignore)
			return
		}
		switch x.k {
		case kRaw:
			ft.raw = true
		case kIface:
			ft.iface = true
		case kByteArr:
			ft.byteArr1 = ft.byteArr1 || x.n == 1
		}
	})
	ft.nestLSL = d.nest(false, map[*desc]bool{})
	return ft
}

func (d *desc) isListKind() bool {
	for d.k == kPtr {
		d = d.elem
	}
	return d.k == kSlice || d.k == kArray || d.k == kStruct
}

// nest: inList says that d sits (possibly through pointers) directly inside a list-like value.
func (d *desc) nest(inList bool, seen map[*desc]bool) bool {
	if seen[d] {
		return false
	}
	seen[d] = true
	defer delete(seen, d)
	switch d.k {
	case kPtr:
		return d.elem.nest(inList, seen)
	case kSlice, kArray:
		return d.elem.nest(true, seen)
	case kStruct:
		for _, f := range d.fields {
			if f.ignore {
				continue
			}
			if inList && f.d.isListKind() {
				return true
			}
			if f.d.nest(true, seen) {
				return true
			}
		}
	}
	return false
}

// mval is a value of a described type, independent of Go's reflect representation.
type mval struct {
	u   uint64   // kUint, kBool (0/1), iface uint
	big *big.Int // kBig (nil = nil pointer), kBigVal
	b   []byte   // kString, kBytes, kByteArr, kRaw, iface bytes/string
	l   []*mval  // kSlice, kArray, kStruct (one per field, ignored ones included), iface list
	p   *mval    // kPtr target, nil = nil pointer
	ik  int      // kIface dynamic kind: 0 nil, 1 []byte, 2 []interface{}, 3 uint64, 4 string
	nn  bool     // empty but non-nil slice (matters only for "optional": Go zero value is the nil slice)
}

var ifaceDesc = &desc{k: kIface}

// render prints v canonically (nil and empty slices alike, ignored fields skipped).
func render(d *desc, v *mval, sb *strings.Builder) {
	switch d.k {
	case kUint:
		fmt.Fprintf(sb, "%d", v.u)
	case kBool:
		fmt.Fprintf(sb, "b%d", v.u)
	case kBig, kBigVal:
		if v.big == nil {
			sb.WriteString("nilbig")
		} else {
			sb.WriteString("#" + v.big.Text(16))
		}
	case kString, kBytes, kByteArr, kRaw:
		fmt.Fprintf(sb, "x%x", v.b)
	case kSlice, kArray:
		sb.WriteByte('[')
		for i, e := range v.l {
			if i > 0 {
				sb.WriteByte(',')
			}
			render(d.elem, e, sb)
		}
		sb.WriteByte(']')
	case kStruct:
		sb.WriteByte('{')
		for i, f := range d.fields {
			if f.ignore {
				continue
			}
			render(f.d, v.l[i], sb)
			sb.WriteByte(';')
		}
		sb.WriteByte('}')
	case kPtr:
		if v.p == nil {
			sb.WriteString("nil")
		} else {
			sb.WriteByte('&')
			render(d.elem, v.p, sb)
		}
	case kIface:
		switch v.ik {
		case 0:
			sb.WriteString("inil")
		case 1:
			fmt.Fprintf(sb, "x%x", v.b)
		case 2:
			sb.WriteByte('[')
			for i, e := range v.l {
				if i > 0 {
					sb.WriteByte(',')
				}
				render(ifaceDesc, e, sb)
			}
			sb.WriteByte(']')
		case 3:
			fmt.Fprintf(sb, "u%d", v.u)
		case 4:
			fmt.Fprintf(sb, "s%x", v.b)
		}
	}
}

func renderS(d *desc, v *mval) string {
	var sb strings.Builder
	render(d, v, &sb)
	return sb.String()
}

func zeroVal(d *desc) *mval {
	switch d.k {
	case kBigVal:
		return &mval{big: new(big.Int)}
	case kByteArr:
		return &mval{b: make([]byte, d.n)}
	case kArray:
		v := &mval{}
		for i := 0; i < d.n; i++ {
			v.l = append(v.l, zeroVal(d.elem))
		}
		return v
	case kStruct:
		v := &mval{}
		for _, f := range d.fields {
			v.l = append(v.l, zeroVal(f.d))
		}
		return v
	}
	return &mval{}
}

// isZero: Go zero value, for the kinds the generator allows under an "optional" tag.
func isZero(d *desc, v *mval) bool {
	switch d.k {
	case kUint, kBool:
		return v.u == 0
	case kBig:
		return v.big == nil
	case kString:
		return len(v.b) == 0
	case kBytes, kRaw:
		return len(v.b) == 0 && !v.nn
	case kSlice:
		return len(v.l) == 0 && !v.nn
	case kByteArr:
		for _, x := range v.b {
			if x != 0 {
				return false
			}
		}
		return true
	case kPtr:
		return v.p == nil
	case kIface:
		return v.ik == 0
	}
	panic("isZero: kind not allowed under optional: " + d.String())
}

// nilIsString: does a nil pointer to d encode as the empty string (else: the empty list)? doc.go, "Struct Tags".
func nilIsString(elem *desc, nilTag string) bool {
	switch nilTag {
	case "nilString":
		return true
	case "nilList":
		return false
	}
	switch elem.k {
	case kUint, kBool, kString, kBytes, kByteArr, kRaw: // RawValue is a byte slice type
		return true
	}
	return false
}

// ---------------------------------------------------------------- reference encoder (with single-fault injection)

type fault int

const (
	fNone        fault = iota
	fLongForm          // long-form header (1 length byte) for a payload < 56
	fLongFormZ         // long-form header, 2 length bytes with a leading zero, for a payload < 256
	fLeadZeroLen       // long-form payload >= 56 with an extra leading zero byte in the length
	fWrap1             // single byte < 0x80 written as 0x81 xx
	fIntLeadZero       // integer with a zero byte prepended
	fHuge              // header claims a huge size
	fSizePlus          // header claims one byte more than present
	fSizeMinus         // header claims one byte less than present
	fKindSwap          // string written with a list header or the reverse
	nHeaderFaults
	fTrunc // applied after serialisation
	fTrail
	fEdit
	fRandom
)

var faultNames = map[fault]string{fNone: "valid", fLongForm: "longform-short-payload", fLongFormZ: "longform-leading-zero-short",
	fLeadZeroLen: "length-leading-zero", fWrap1: "single-byte-wrapped", fIntLeadZero: "integer-leading-zero", fHuge: "huge-claimed-size",
	fSizePlus: "size-plus-one", fSizeMinus: "size-minus-one", fKindSwap: "kind-swapped", fTrunc: "truncated", fTrail: "trailing-bytes",
	fEdit: "byte-edit", fRandom: "random-bytes"}

var hugeSizes = []uint64{1<<64 - 1, 1 << 63, 1 << 40, 1 << 32, 1<<31 - 1, 1 << 27, 1 << 24, 1 << 16, 300}

type encCtx struct {
	count   int   // headers emitted so far
	faultAt int   // index of the emission that gets the fault (-1: none)
	f       fault // which fault
	huge    uint64
	applied fault    // what was really applied (a non-applicable fault falls back)
	info    []emInfo // recorded when faultAt < 0: what each emission looks like (to aim faults)
}

type emInfo struct {
	single, isInt, list bool
	n                   int
}

// applicable: can fault f be injected at an emission of this shape without falling back?
func (e emInfo) applicable(f fault) bool {
	switch f {
	case fLongForm:
		return e.n < 56 && !e.single
	case fLongFormZ:
		return e.n < 256 && !e.single
	case fLeadZeroLen:
		return e.n >= 56
	case fWrap1:
		return e.single
	case fIntLeadZero:
		return e.isInt
	case fSizeMinus:
		return e.n > 0
	}
	return true
}

func beLen(n uint64) []byte {
	var out []byte
	for ; n > 0; n >>= 8 {
		out = append([]byte{byte(n)}, out...)
	}
	return out
}

func header(base byte, size uint64) []byte {
	if size < 56 {
		return []byte{base + byte(size)}
	}
	l := beLen(size)
	return append([]byte{base + 55 + byte(len(l))}, l...)
}

// emit writes one value (string when !list) and injects the configured fault if this is the chosen emission.
func (c *encCtx) emit(list bool, isInt bool, payload []byte) []byte {
	base := byte(0x80)
	if list {
		base = 0xc0
	}
	idx := c.count
	c.count++
	single := !list && len(payload) == 1 && payload[0] < 0x80
	if c.faultAt < 0 {
		c.info = append(c.info, emInfo{single: single, isInt: isInt, list: list, n: len(payload)})
	}
	if idx != c.faultAt || c.f == fNone {
		if single {
			return []byte{payload[0]}
		}
		return append(header(base, uint64(len(payload))), payload...)
	}
	f := c.f
	// fall back when the drawn fault does not apply at this emission
	switch {
	case f == fLongForm && (len(payload) >= 56 || single):
		f = fHuge
	case f == fLongFormZ && (len(payload) >= 256 || single):
		f = fHuge
	case f == fLeadZeroLen && len(payload) < 56:
		f = fLongForm
		if single {
			f = fWrap1
		}
	case f == fWrap1 && !single:
		f = fSizePlus
	case f == fIntLeadZero && !isInt:
		f = fKindSwap
	case f == fSizeMinus && len(payload) == 0:
		f = fSizePlus
	}
	c.applied = f
	n := uint64(len(payload))
	switch f {
	case fLongForm:
		return append([]byte{base + 56, byte(n)}, payload...)
	case fLongFormZ:
		return append([]byte{base + 57, 0, byte(n)}, payload...)
	case fLeadZeroLen:
		l := beLen(n)
		return append(append([]byte{base + 55 + byte(len(l)+1), 0}, l...), payload...)
	case fWrap1:
		return []byte{0x81, payload[0]}
	case fIntLeadZero:
		p := append([]byte{0}, payload...)
		if len(p) == 1 {
			return []byte{0x00}
		}
		return append(header(base, uint64(len(p))), p...)
	case fHuge:
		return append(header(base, c.huge), payload...)
	case fSizePlus:
		return append(header(base, n+1), payload...)
	case fSizeMinus:
		return append(header(base, n-1), payload...)
	case fKindSwap:
		if list {
			if single = len(payload) == 1 && payload[0] < 0x80; single {
				return []byte{payload[0]}
			}
			return append(header(0x80, n), payload...)
		}
		return append(header(0xc0, n), payload...)
	}
	panic("emit: unknown fault")
}

func (c *encCtx) str(b []byte) []byte { return c.emit(false, false, b) }

func (c *encCtx) uint(u uint64) []byte { return c.emit(false, true, beLen(u)) }

// enc is the reference encoder. Rules: doc.go "Encoding Rules" and "Struct Tags".
func (c *encCtx) enc(d *desc, v *mval) []byte {
	switch d.k {
	case kUint, kBool:
		return c.uint(v.u)
	case kBig, kBigVal:
		if v.big == nil {
			return c.str(nil)
		}
		return c.emit(false, true, v.big.Bytes())
	case kString, kBytes, kByteArr:
		return c.str(v.b)
	case kRaw:
		return v.b
	case kSlice, kArray:
		var p []byte
		for _, e := range v.l {
			p = append(p, c.enc(d.elem, e)...)
		}
		return c.emit(true, false, p)
	case kStruct:
		last := len(d.fields) - 1
		for ; last >= 0; last-- { // trailing zero-valued optional fields are omitted
			f := d.fields[last]
			if f.ignore {
				continue
			}
			// (a tail slice takes part in the scan like an optional field: go zero value = nil slice)
			if !(f.optional || f.tail) || !isZero(f.d, v.l[last]) {
				break
			}
		}
		var p []byte
		for i := 0; i <= last; i++ {
			f := d.fields[i]
			switch {
			case f.ignore:
			case f.tail:
				for _, e := range v.l[i].l {
					p = append(p, c.enc(f.d.elem, e)...)
				}
			case f.d.k == kPtr && v.l[i].p == nil:
				p = append(p, c.nilPtr(f.d.elem, f.nilTag)...)
			default:
				p = append(p, c.enc(f.d, v.l[i])...)
			}
		}
		return c.emit(true, false, p)
	case kPtr:
		if v.p == nil {
			return c.nilPtr(d.elem, "")
		}
		return c.enc(d.elem, v.p)
	case kIface:
		switch v.ik {
		case 0:
			return c.emit(true, false, nil)
		case 1, 4:
			return c.str(v.b)
		case 2:
			var p []byte
			for _, e := range v.l {
				p = append(p, c.enc(ifaceDesc, e)...)
			}
			return c.emit(true, false, p)
		case 3:
			return c.uint(v.u)
		}
	}
	panic("enc: unknown kind")
}

func (c *encCtx) nilPtr(elem *desc, nilTag string) []byte {
	return c.emit(!nilIsString(elem, nilTag), false, nil)
}

func refEncode(d *desc, v *mval) []byte {
	c := &encCtx{faultAt: -1}
	return c.enc(d, v)
}

// ---------------------------------------------------------------- reference decoder

const (
	stOK = iota
	stReject
	stUnspec // behaviour not fixed by the documentation (RawValue holding a wrapped single byte)
)

// refDecodeWhole: the model of DecodeBytes(b, *T): exactly one value, nothing after it.
func refDecodeWhole(d *desc, b []byte) (*mval, int) {
	v, rest, st := refDec(d, b, "")
	if st == stOK && len(rest) != 0 {
		return nil, stReject
	}
	return v, st
}

func decUint(h hd, bits int) (uint64, bool) {
	if h.kind == hList || h.wrapped || len(h.payload) > bits/8 {
		return 0, false
	}
	if len(h.payload) > 0 && h.payload[0] == 0 { // includes the single byte 0x00: zero is the empty string
		return 0, false
	}
	var u uint64
	for _, x := range h.payload {
		u = u<<8 | uint64(x)
	}
	return u, true
}

func refDec(d *desc, b []byte, nilTag string) (v *mval, rest []byte, st int) {
	h, ok := next(b)
	if !ok {
		return nil, nil, stReject
	}
	rest = h.rest
	if d.k == kPtr {
		if nilTag != "" && h.kind != hByte && len(h.payload) == 0 {
			if (h.kind == hStr) != nilIsString(d.elem, nilTag) {
				return nil, nil, stReject // wrong kind of empty value
			}
			return &mval{}, rest, stOK
		}
		e, rest, st := refDec(d.elem, b, "")
		if st != stOK {
			return nil, nil, st
		}
		return &mval{p: e}, rest, stOK
	}
	isStr := h.kind != hList && !h.wrapped
	switch d.k {
	case kUint:
		u, ok := decUint(h, d.n)
		if !ok {
			return nil, nil, stReject
		}
		return &mval{u: u}, rest, stOK
	case kBool:
		u, ok := decUint(h, 8)
		if !ok || u > 1 {
			return nil, nil, stReject
		}
		return &mval{u: u}, rest, stOK
	case kBig, kBigVal:
		if !isStr || (len(h.payload) > 0 && h.payload[0] == 0) {
			return nil, nil, stReject
		}
		return &mval{big: new(big.Int).SetBytes(h.payload)}, rest, stOK
	case kString, kBytes:
		if !isStr {
			return nil, nil, stReject
		}
		return &mval{b: h.payload}, rest, stOK
	case kByteArr:
		if !isStr || len(h.payload) != d.n {
			return nil, nil, stReject
		}
		return &mval{b: h.payload}, rest, stOK
	case kRaw:
		if h.wrapped {
			return nil, nil, stUnspec
		}
		return &mval{b: h.raw}, rest, stOK
	case kIface:
		it, _, ok := strictItem(h.raw)
		if !ok {
			return nil, nil, stReject
		}
		return gitemVal(it), rest, stOK
	case kSlice, kArray:
		if h.kind != hList {
			return nil, nil, stReject
		}
		v = &mval{}
		for p := h.payload; len(p) > 0; {
			var e *mval
			if e, p, st = refDec(d.elem, p, ""); st != stOK {
				return nil, nil, st
			}
			v.l = append(v.l, e)
		}
		if d.k == kArray && len(v.l) != d.n {
			return nil, nil, stReject
		}
		return v, rest, stOK
	case kStruct:
		if h.kind != hList {
			return nil, nil, stReject
		}
		v = &mval{l: make([]*mval, len(d.fields))}
		p := h.payload
		for i, f := range d.fields {
			switch {
			case f.ignore:
				v.l[i] = zeroVal(f.d)
			case f.tail:
				tv := &mval{}
				for len(p) > 0 {
					var e *mval
					if e, p, st = refDec(f.d.elem, p, ""); st != stOK {
						return nil, nil, st
					}
					tv.l = append(tv.l, e)
				}
				v.l[i] = tv
			case len(p) == 0:
				if !f.optional {
					return nil, nil, stReject // too few elements
				}
				v.l[i] = zeroVal(f.d)
			default:
				if v.l[i], p, st = refDec(f.d, p, f.nilTag); st != stOK {
					return nil, nil, st
				}
			}
		}
		if len(p) != 0 {
			return nil, nil, stReject // too many elements
		}
		return v, rest, stOK
	}
	panic("refDec: unknown kind")
}

func gitemVal(it *gitem) *mval {
	if !it.list {
		return &mval{ik: 1, b: it.str}
	}
	v := &mval{ik: 2}
	for _, k := range it.kids {
		v.l = append(v.l, gitemVal(k))
	}
	return v
}

// lossless: is decode(encode(v)) == v promised for this value? Not for nil pointers without a "nil" tag (they come
// back as pointers to the zero value, or are not decodable at all), nil *big.Int (comes back as 0), nil interfaces
// (come back as an empty list), interface values other than []byte / []interface{}, tagged pointers to a value whose
// encoding is empty (come back nil), RawValues that are not one well-formed item.
func lossless(d *desc, v *mval, tagged bool) bool {
	switch d.k {
	case kBig:
		return v.big != nil
	case kPtr:
		if v.p == nil {
			return tagged
		}
		if tagged {
			if e := refEncode(d.elem, v.p); len(e) == 1 && (e[0] == 0x80 || e[0] == 0xc0) {
				return false
			}
		}
		return lossless(d.elem, v.p, false)
	case kRaw:
		_, ok := strictWhole(v.b)
		return ok
	case kIface:
		switch v.ik {
		case 1:
			return true
		case 2:
			for _, e := range v.l {
				if !lossless(ifaceDesc, e, false) {
					return false
				}
			}
			return true
		}
		return false
	case kSlice, kArray:
		for _, e := range v.l {
			if !lossless(d.elem, e, false) {
				return false
			}
		}
	case kStruct:
		for i, f := range d.fields {
			if f.ignore {
				continue
			}
			fd, fv := f.d, v.l[i]
			if f.tail {
				for _, e := range fv.l {
					if !lossless(fd.elem, e, false) {
						return false
					}
				}
				continue
			}
			if !lossless(fd, fv, f.nilTag != "") {
				return false
			}
		}
	}
	return true
}
