// Native fuzz target (thorough tier): arbitrary bytes into interface{}, a rich struct, optional/tail, recursive and
// RawValue targets, with the same oracles as the rapid tests.
package c16

import (
	"encoding/hex"
	"fmt"
	"os"
	"path/filepath"
	"reflect"
	"regexp"
	"strconv"
	"strings"
	"testing"

	"verifharness/internal/ev"
)

var fuzzTargets = []*target{tgIface, tgRich, tgOpt, tgRec, staticTargets[22] /* rawS */, tgRaw, tgU64, tgBigV, tgBytes, staticTargets[15] /* [][]byte */, staticTargets[30] /* privT */}

// fuzzOne judges one byte string. Allocation is measured once around a first pass over every product entry point
// (the per-call measurement of the rapid tests would cost ~20 stop-the-world pauses per input).
func fuzzOne(t ev.TB, b []byte) {
	if len(b) > 1<<14 {
		return
	}
	ct := func() string { return fmt.Sprintf("fuzz input=%x", b) }
	measureAlloc = false
	defer func() { measureAlloc = true }()
	var delta uint64
	ev.Guard(t, ct, func() {
		delta = allocDeltaAlways(func() {
			for _, tg := range fuzzTargets {
				kDecode(t, ct, tg, b)
			}
			checkStreams(t, b, 64)
		})
	})
	if lim := uint64(len(fuzzTargets)+3) * uint64(allocPerByte*len(b)+allocSlack); delta > lim {
		ev.Violation(t, "alloc.decodebytes-unbounded", ct(), "decoding a %d-byte input into %d targets and walking it as a stream allocated %d bytes (bound %d)", len(b), len(fuzzTargets), delta, lim)
	}
	acc := 0
	for _, tg := range fuzzTargets {
		if checkDecode(t, tg, b, "fuzz") {
			acc++
		}
	}
	checkRawHelpers(t, b)
	checkStreamScalars(t, b)
	cl := "fuzz-rejected-by-all"
	if acc > 0 {
		cl = "fuzz-accepted-by-some"
	}
	ev.Case(acc > 0, fmt.Sprintf("fuzz|%x", b), cl)
}

func fuzzSeeds() [][]byte {
	seeds := [][]byte{{}, {0x80}, {0xc0}, {0x00}, {0x81, 0x00}, {0xb8, 0x38}, {0xf8, 0x38}, {0xbf, 0xff, 0xff, 0xff, 0xff, 0xff, 0xff, 0xff, 0xff},
		{0xc1, 0x80}, {0xc4, 0x83, 0, 0, 0}, {0xc2, 0x01, 0xc0}, {0xc3, 0x05, 0xc0, 0xc0}, {0xc8, 0x05, 0xc1, 0xc3, 0x01, 0xc0, 0xc0, 0xc0, 0xc0}}
	// valid encodings of the zero and of a filled value of each struct target
	for _, tg := range fuzzTargets {
		seeds = append(seeds, refEncode(tg.d, zeroVal(tg.d)))
	}
	bad := ""
	u := uint32(0x01020304)
	rich := richT{U8: 0x80, U16: 0x100, U64: 1 << 40, S: "string", Bs: []byte{0x7f}, Arr: [3]byte{1, 2, 3}, L: []uint16{1, 0x80, 0xffff},
		In: innerT{A: 1, B: []byte{0x80}, C: bigOne(65)}, P: &innerT{C: bigOne(0)}, PS: &u, PL: &[2]byte{9, 9}, Big: bigOne(255), B: true,
		LL: [][]byte{{}, {1}, make([]byte, 56)}, Any: []interface{}{[]byte{1}, []interface{}{}}, Fix: [2]innerT{{C: bigOne(1)}, {C: bigOne(8)}}}
	seeds = append(seeds, refEncode(tgRich.d, readback(tgRich.d, reflect.ValueOf(rich), &bad)))
	c := uint16(0x1234)
	opt := optT{A: 7, B: []byte{1, 2}, C: &c, D: 9, E: &innerT{A: 3, C: bigOne(3)}, T: []uint{1, 2, 300}}
	seeds = append(seeds, refEncode(tgOpt.d, readback(tgOpt.d, reflect.ValueOf(opt), &bad)))
	rec := recT{V: 1, Kids: []recT{{V: 2}, {V: 3, Next: &recT{V: 4}}}, Next: &recT{V: 5, Next: &recT{V: 6}}}
	seeds = append(seeds, refEncode(tgRec.d, readback(tgRec.d, reflect.ValueOf(rec), &bad)))
	return seeds
}

func FuzzDecode(f *testing.F) {
	for _, s := range fuzzSeeds() {
		f.Add(s)
	}
	f.Fuzz(func(t *testing.T, b []byte) { fuzzOne(t, b) })
}

// TestFuzzSeeds runs the fuzz oracle on the seed corpus (so that the oracle itself is exercised in the quick tier).
func TestFuzzSeeds(t *testing.T) {
	for _, s := range fuzzSeeds() {
		fuzzOne(t, s)
		for i := range s { // and on every truncation and single-byte bump of each seed
			fuzzOne(t, s[:i])
			m := append([]byte{}, s...)
			m[i]++
			fuzzOne(t, m)
		}
	}
}

// ---------------------------------------------------------------- crasher replay in the coordinator (see TestMain)

type recordTB struct{}

type recordStop struct{}

func (recordTB) Helper()                                   {}
func (recordTB) Fatalf(format string, args ...interface{}) { panic(recordStop{}) }

// replayCrashers re-runs the oracle, inside the coordinator process, on every corpus file the fuzzing engine wrote
// into testdata/fuzz/FuzzDecode, so that a violation found by a worker is recorded by ev (key, message, case) in
// the coordinator's evidence file. The driver reads violations only from there.
func replayCrashers() {
	judge := func(name string, b []byte) {
		defer func() {
			if r := recover(); r != nil {
				if _, ok := r.(recordStop); !ok {
					fmt.Printf("replayCrashers: %s: panic outside the oracle: %v\n", name, r)
				}
			}
		}()
		fuzzOne(recordTB{}, b)
	}
	for i, s := range fuzzSeeds() { // a failing f.Add seed is reported by the engine without a file
		judge(fmt.Sprintf("seed#%d", i), s)
	}
	dir := filepath.Join("testdata", "fuzz", "FuzzDecode")
	ents, err := os.ReadDir(dir)
	if err != nil {
		return
	}
	for _, e := range ents {
		raw, err := os.ReadFile(filepath.Join(dir, e.Name()))
		if err != nil {
			continue
		}
		lines := strings.Split(strings.TrimSpace(string(raw)), "\n")
		if len(lines) < 2 || !strings.HasPrefix(lines[0], "go test fuzz v1") {
			continue
		}
		arg := strings.TrimSpace(lines[1])
		if !strings.HasPrefix(arg, "[]byte(") || !strings.HasSuffix(arg, ")") {
			continue
		}
		s, err := strconv.Unquote(arg[len("[]byte(") : len(arg)-1])
		if err != nil {
			continue
		}
		judge(e.Name(), []byte(s))
	}
}

// TestReplay re-judges the byte string recorded in a crash report (VERIF_REPLAY_FILE, written by the driver when a
// shard died): the last "input=<hex>" of the file is run through the fuzz oracle (all hand-written targets).
func TestReplay(t *testing.T) {
	path := os.Getenv("VERIF_REPLAY_FILE")
	if path == "" {
		t.Skip("no VERIF_REPLAY_FILE")
	}
	raw, err := os.ReadFile(path)
	if err != nil {
		t.Fatalf("harness: %v", err)
	}
	m := replayInputRE.FindAllStringSubmatch(string(raw), -1)
	if len(m) == 0 {
		t.Skip("no input=<hex> in the replay file")
	}
	b, err := hex.DecodeString(m[len(m)-1][1])
	if err != nil {
		t.Fatalf("harness: %v", err)
	}
	fuzzOne(t, b)
}

var replayInputRE = regexp.MustCompile(`input=([0-9a-f]*)`)
