// Generated Go types (reflect.StructOf) with generated values and single-fault encodings, checked against the model,
// go-ethereum's rlp and the inverse round trip.
package c16

import (
	"bytes"
	"fmt"
	"io"
	"math/big"
	"reflect"
	"runtime"
	"strings"
	"testing"

	grlp "github.com/ethereum/go-ethereum/rlp"
	"pgregory.net/rapid"

	krlp "github.com/kardiachain/go-kardia/lib/rlp"

	"verifharness/internal/ev"
)

// ---------------------------------------------------------------- descriptors <-> reflect types

var (
	bigValT = reflect.TypeOf(big.Int{})
	bigPtrT = reflect.TypeOf((*big.Int)(nil))
	ifaceT  = reflect.TypeOf((*interface{})(nil)).Elem()
	rawT    = [2]reflect.Type{reflect.TypeOf(krlp.RawValue{}), reflect.TypeOf(grlp.RawValue{})}
	uintT   = map[string]reflect.Type{"uint8": reflect.TypeOf(uint8(0)), "uint16": reflect.TypeOf(uint16(0)), "uint32": reflect.TypeOf(uint32(0)),
		"uint64": reflect.TypeOf(uint64(0)), "uint": reflect.TypeOf(uint(0))}
	uintBits = map[string]int{"uint8": 8, "uint16": 16, "uint32": 32, "uint64": 64, "uint": 64}
)

const (
	flK = 0 // go-kardia flavour
	flG = 1 // go-ethereum flavour (differs only in the RawValue type)
)

func (d *desc) rtype(fl int) reflect.Type {
	if d.rt[fl] != nil {
		return d.rt[fl]
	}
	var rt reflect.Type
	switch d.k {
	case kUint:
		rt = uintT[d.uname]
	case kBool:
		rt = reflect.TypeOf(false)
	case kBig:
		rt = bigPtrT
	case kBigVal:
		rt = bigValT
	case kString:
		rt = reflect.TypeOf("")
	case kBytes:
		rt = reflect.TypeOf([]byte(nil))
	case kByteArr:
		rt = reflect.ArrayOf(d.n, reflect.TypeOf(byte(0)))
	case kSlice:
		rt = reflect.SliceOf(d.elem.rtype(fl))
	case kArray:
		rt = reflect.ArrayOf(d.n, d.elem.rtype(fl))
	case kPtr:
		rt = reflect.PtrTo(d.elem.rtype(fl))
	case kRaw:
		rt = rawT[fl]
	case kIface:
		rt = ifaceT
	case kStruct:
		fs := make([]reflect.StructField, len(d.fields))
		for i, f := range d.fields {
			fs[i] = reflect.StructField{Name: fmt.Sprintf("F%d", i), Type: f.d.rtype(fl)}
			if tg := f.tag(); tg != "" {
				fs[i].Tag = reflect.StructTag(`rlp:"` + tg + `"`)
			}
		}
		rt = reflect.StructOf(fs)
	}
	d.rt[fl] = rt
	return rt
}

// descFor describes a static Go type (used for hand-written targets, including recursive ones).
func descFor(rt reflect.Type) *desc { return descForM(rt, map[reflect.Type]*desc{}) }

func descForM(rt reflect.Type, memo map[reflect.Type]*desc) *desc {
	if d := memo[rt]; d != nil {
		return d
	}
	d := &desc{}
	memo[rt] = d
	d.rt[flK] = rt
	switch {
	case rt == rawT[flK]:
		d.k = kRaw
	case rt == bigPtrT:
		d.k = kBig
	case rt == bigValT:
		d.k = kBigVal
	case rt == ifaceT:
		d.k = kIface
	case rt.Kind() == reflect.Bool:
		d.k = kBool
	case rt.Kind() == reflect.String:
		d.k = kString
	case rt.Kind() >= reflect.Uint && rt.Kind() <= reflect.Uint64:
		d.k, d.uname, d.n = kUint, rt.Kind().String(), rt.Bits()
	case rt.Kind() == reflect.Slice && rt.Elem().Kind() == reflect.Uint8:
		d.k = kBytes
	case rt.Kind() == reflect.Array && rt.Elem().Kind() == reflect.Uint8:
		d.k, d.n = kByteArr, rt.Len()
	case rt.Kind() == reflect.Slice:
		d.k, d.elem = kSlice, descForM(rt.Elem(), memo)
	case rt.Kind() == reflect.Array:
		d.k, d.n, d.elem = kArray, rt.Len(), descForM(rt.Elem(), memo)
	case rt.Kind() == reflect.Ptr:
		d.k, d.elem = kPtr, descForM(rt.Elem(), memo)
	case rt.Kind() == reflect.Struct:
		d.k = kStruct
		if rt.Name() != "" {
			d.name = rt.Name()
		}
		for i := 0; i < rt.NumField(); i++ {
			sf := rt.Field(i)
			f := fieldDesc{d: descForM(sf.Type, memo)}
			if sf.PkgPath != "" { // unexported: not part of the encoding, not touched by the decoder
				f.ignore, f.unexported = true, true
			}
			for _, tg := range strings.Split(sf.Tag.Get("rlp"), ",") {
				switch tg {
				case "-":
					f.ignore = true
				case "nil", "nilString", "nilList":
					f.nilTag = tg
				case "optional":
					f.optional = true
				case "tail":
					f.tail = true
				}
			}
			d.fields = append(d.fields, f)
		}
	default:
		panic("descFor: unsupported " + rt.String())
	}
	return d
}

// build stores v into the settable rv of type d.rtype(fl).
func build(d *desc, rv reflect.Value, v *mval) {
	switch d.k {
	case kUint:
		rv.SetUint(v.u)
	case kBool:
		rv.SetBool(v.u == 1)
	case kBig:
		if v.big != nil {
			rv.Set(reflect.ValueOf(new(big.Int).Set(v.big)))
		}
	case kBigVal:
		rv.Set(reflect.ValueOf(*new(big.Int).Set(v.big)))
	case kString:
		rv.SetString(string(v.b))
	case kBytes, kRaw:
		if len(v.b) > 0 || v.nn {
			rv.SetBytes(append(make([]byte, 0, len(v.b)), v.b...))
		}
	case kByteArr:
		reflect.Copy(rv, reflect.ValueOf(v.b))
	case kSlice:
		if len(v.l) > 0 || v.nn {
			s := reflect.MakeSlice(rv.Type(), len(v.l), len(v.l))
			for i, e := range v.l {
				build(d.elem, s.Index(i), e)
			}
			rv.Set(s)
		}
	case kArray:
		for i, e := range v.l {
			build(d.elem, rv.Index(i), e)
		}
	case kStruct:
		for i, f := range d.fields {
			if !f.unexported {
				build(f.d, rv.Field(i), v.l[i])
			}
		}
	case kPtr:
		if v.p != nil {
			p := reflect.New(rv.Type().Elem())
			build(d.elem, p.Elem(), v.p)
			rv.Set(p)
		}
	case kIface:
		if x := ifaceGo(v); x != nil {
			rv.Set(reflect.ValueOf(x))
		}
	}
}

func ifaceGo(v *mval) interface{} {
	switch v.ik {
	case 1:
		return append([]byte{}, v.b...)
	case 2:
		l := make([]interface{}, len(v.l))
		for i, e := range v.l {
			l[i] = ifaceGo(e)
			if l[i] == nil {
				l[i] = []interface{}{} // keep nil interfaces out of nested lists: same encoding, simpler read-back
			}
		}
		return l
	case 3:
		return v.u
	case 4:
		return string(v.b)
	}
	return nil
}

// readback converts a decoded Go value into a model value. bad != "" reports a field that must have stayed untouched.
func readback(d *desc, rv reflect.Value, bad *string) *mval {
	switch d.k {
	case kUint:
		return &mval{u: rv.Uint()}
	case kBool:
		if rv.Bool() {
			return &mval{u: 1}
		}
		return &mval{}
	case kBig:
		if rv.IsNil() {
			return &mval{}
		}
		return &mval{big: rv.Interface().(*big.Int)}
	case kBigVal:
		x := rv.Interface().(big.Int)
		return &mval{big: &x}
	case kString:
		return &mval{b: []byte(rv.String())}
	case kBytes, kRaw:
		return &mval{b: rv.Bytes()}
	case kByteArr:
		b := make([]byte, rv.Len())
		reflect.Copy(reflect.ValueOf(b), rv)
		return &mval{b: b}
	case kSlice, kArray:
		v := &mval{}
		for i := 0; i < rv.Len(); i++ {
			v.l = append(v.l, readback(d.elem, rv.Index(i), bad))
		}
		return v
	case kStruct:
		v := &mval{}
		for i, f := range d.fields {
			if f.ignore && !rv.Field(i).IsZero() {
				*bad = fmt.Sprintf("field %d (tagged \"-\" or unexported) was written by the decoder", i)
			}
			if f.unexported {
				v.l = append(v.l, zeroVal(f.d))
				continue
			}
			v.l = append(v.l, readback(f.d, rv.Field(i), bad))
		}
		return v
	case kPtr:
		if rv.IsNil() {
			return &mval{}
		}
		return &mval{p: readback(d.elem, rv.Elem(), bad)}
	case kIface:
		if rv.IsNil() {
			return &mval{}
		}
		return goIface(rv.Elem().Interface(), bad)
	}
	panic("readback")
}

func goIface(x interface{}, bad *string) *mval {
	switch x := x.(type) {
	case []byte:
		return &mval{ik: 1, b: x}
	case []interface{}:
		v := &mval{ik: 2}
		for _, e := range x {
			v.l = append(v.l, goIface(e, bad))
		}
		return v
	case nil:
		return &mval{}
	}
	*bad = fmt.Sprintf("interface{} holds a %T after decoding (documented: []byte or []interface{})", x)
	return &mval{}
}

// ---------------------------------------------------------------- type generator

var uintNames = []string{"uint8", "uint16", "uint32", "uint64", "uint64", "uint"}

type tgen struct {
	t      *rapid.T
	budget int
}

func (g *tgen) leaf() *desc {
	switch rapid.IntRange(0, 17).Draw(g.t, "leaf") {
	case 0, 1, 2, 3, 4:
		n := rapid.SampledFrom(uintNames).Draw(g.t, "uname")
		return &desc{k: kUint, uname: n, n: uintBits[n]}
	case 5:
		return &desc{k: kBool}
	case 6, 7:
		return &desc{k: kString}
	case 8, 9, 10:
		return &desc{k: kBytes}
	case 11, 12:
		return &desc{k: kByteArr, n: rapid.SampledFrom([]int{0, 1, 1, 2, 3, 20, 32, 33}).Draw(g.t, "balen")}
	case 13, 14:
		return &desc{k: kBig}
	case 15:
		return &desc{k: kBigVal}
	case 16:
		return &desc{k: kRaw}
	default:
		return &desc{k: kIface}
	}
}

func (g *tgen) typ(depth int) *desc {
	g.budget--
	if depth >= 4 || g.budget <= 0 || rapid.IntRange(0, 9).Draw(g.t, "composite") < 4 {
		return g.leaf()
	}
	switch rapid.IntRange(0, 9).Draw(g.t, "ckind") {
	case 0, 1, 2:
		return &desc{k: kSlice, elem: g.elemNoByte(depth + 1)}
	case 3:
		return &desc{k: kArray, n: rapid.IntRange(0, 3).Draw(g.t, "alen"), elem: g.elemNoByte(depth + 1)}
	case 4, 5:
		return g.ptr(depth)
	default:
		return g.strct(depth, false)
	}
}

// elemNoByte: element type of a list-like; uint8 elements would make it a byte string, which kBytes/kByteArr cover.
func (g *tgen) elemNoByte(depth int) *desc {
	e := g.typ(depth)
	if e.k == kUint && e.uname == "uint8" {
		e.uname, e.n = "uint16", 16
	}
	return e
}

func (g *tgen) ptr(depth int) *desc {
	for {
		e := g.typ(depth + 1)
		switch e.k {
		case kUint, kBool, kString, kBytes, kByteArr, kStruct, kSlice, kArray:
			return &desc{k: kPtr, elem: e}
		}
		g.budget++ // redraw: pointer to big/raw/interface/pointer is out of the grammar
		if g.budget > 64 {
			return &desc{k: kPtr, elem: &desc{k: kUint, uname: "uint64", n: 64}}
		}
	}
}

func optionalOK(d *desc) bool {
	switch d.k {
	case kUint, kBool, kBig, kString, kBytes, kRaw, kSlice, kByteArr, kPtr, kIface:
		return true
	}
	return false
}

func (g *tgen) strct(depth int, wantList bool) *desc {
	d := &desc{k: kStruct}
	nf := rapid.IntRange(0, 6).Draw(g.t, "nfields")
	if wantList && nf == 0 {
		nf = 1
	}
	optFrom := nf
	if nf > 0 && rapid.IntRange(0, 3).Draw(g.t, "hasopt") == 0 {
		optFrom = rapid.IntRange(0, nf-1).Draw(g.t, "optfrom")
	}
	hasTail := nf > 0 && rapid.IntRange(0, 4).Draw(g.t, "hastail") == 0
	listAt := -1
	if wantList {
		listAt = rapid.IntRange(0, nf-1).Draw(g.t, "listat")
	}
	for i := 0; i < nf; i++ {
		var f fieldDesc
		switch {
		case hasTail && i == nf-1:
			f = fieldDesc{d: &desc{k: kSlice, elem: g.elemNoByte(depth + 1)}, tail: true}
		case i == listAt:
			f.d = &desc{k: kSlice, elem: g.elemNoByte(depth + 1)}
			if rapid.Bool().Draw(g.t, "liststruct") {
				f.d = g.strct(depth+1, false)
			}
		default:
			f.d = g.typ(depth + 1)
		}
		if !f.tail && rapid.IntRange(0, 11).Draw(g.t, "ignore") == 0 {
			f.ignore = true
		}
		if i >= optFrom && !f.tail && !f.ignore {
			for !optionalOK(f.d) {
				f.d = g.leaf()
			}
			f.optional = true
		}
		if f.d.k == kPtr && !f.ignore {
			f.nilTag = rapid.SampledFrom([]string{"", "nil", "nil", "nilString", "nilList"}).Draw(g.t, "niltag")
		}
		d.fields = append(d.fields, f)
	}
	return d
}

func genType(t *rapid.T) *desc {
	g := &tgen{t: t, budget: 28}
	switch rapid.IntRange(0, 9).Draw(t, "top") {
	case 0, 1, 2, 3: // a list of structs that hold a list: the DESIGN "non-trivial" nesting
		s := g.strct(1, true)
		if rapid.IntRange(0, 3).Draw(t, "toparr") == 0 {
			return &desc{k: kArray, n: rapid.IntRange(1, 2).Draw(t, "alen"), elem: s}
		}
		if rapid.IntRange(0, 3).Draw(t, "topptr") == 0 {
			return &desc{k: kSlice, elem: &desc{k: kPtr, elem: s}}
		}
		return &desc{k: kSlice, elem: s}
	case 4, 5, 6:
		return g.strct(0, false)
	default:
		return g.typ(0)
	}
}

// ---------------------------------------------------------------- value generator

var uintEdges = []uint64{0, 0, 1, 0x7f, 0x80, 0xff, 0x100, 0xffff, 0x10000, 1 << 24, 1<<32 - 1, 1 << 32, 1 << 56, 1 << 63, 1<<64 - 1}
var strLens = []int{0, 0, 1, 1, 1, 2, 3, 8, 20, 32, 54, 55, 56, 57, 60}
var strLensRare = []int{255, 256, 300, 1024}
var byteEdges = []byte{0x00, 0x01, 0x7f, 0x80, 0x81, 0xb7, 0xb8, 0xc0, 0xf7, 0xf8, 0xff}

type vgen struct {
	t      *rapid.T
	budget int
}

func (g *vgen) bytesN(n int) []byte {
	if n == 0 {
		return nil
	}
	var first byte
	if rapid.Bool().Draw(g.t, "edgebyte") {
		first = rapid.SampledFrom(byteEdges).Draw(g.t, "b0")
	} else {
		first = rapid.Byte().Draw(g.t, "b0")
	}
	b := make([]byte, n)
	for i := range b {
		b[i] = first + byte(i*37)
	}
	return b
}

func (g *vgen) strlen() int {
	if rapid.IntRange(0, 24).Draw(g.t, "rarelen") == 0 {
		return rapid.SampledFrom(strLensRare).Draw(g.t, "slen")
	}
	return rapid.SampledFrom(strLens).Draw(g.t, "slen")
}

func (g *vgen) bigint() *big.Int {
	switch rapid.IntRange(0, 5).Draw(g.t, "bigkind") {
	case 0:
		return new(big.Int)
	case 1:
		return new(big.Int).SetUint64(rapid.SampledFrom(uintEdges).Draw(g.t, "bigu"))
	case 2:
		return new(big.Int).Lsh(big.NewInt(1), uint(rapid.SampledFrom([]int{64, 65, 128, 255, 256, 257}).Draw(g.t, "bigsh")))
	default:
		return new(big.Int).SetBytes(g.bytesN(rapid.SampledFrom([]int{1, 2, 8, 9, 20, 32, 33, 40}).Draw(g.t, "biglen")))
	}
}

func (g *vgen) iface(depth int) *mval {
	k := rapid.IntRange(0, 11).Draw(g.t, "ikind")
	g.budget--
	switch {
	case k == 0:
		return &mval{}
	case k == 1:
		return &mval{ik: 3, u: rapid.SampledFrom(uintEdges).Draw(g.t, "iu")}
	case k == 2:
		return &mval{ik: 4, b: g.bytesN(g.strlen())}
	case k <= 6 || depth >= 3 || g.budget <= 0:
		return &mval{ik: 1, b: g.bytesN(g.strlen())}
	default:
		v := &mval{ik: 2}
		n := rapid.IntRange(0, 4).Draw(g.t, "ilen")
		for i := 0; i < n; i++ {
			e := g.iface(depth + 1)
			if e.ik == 0 {
				e = &mval{ik: 2} // see ifaceGo: nested nil interfaces are written as empty lists
			}
			v.l = append(v.l, e)
		}
		return v
	}
}

// item: a generic valid item (used for RawValue contents and as base of the byte-string test).
func (g *vgen) item(depth int) *mval {
	g.budget--
	if depth >= 3 || g.budget <= 0 || rapid.IntRange(0, 2).Draw(g.t, "itemleaf") > 0 {
		return &mval{ik: 1, b: g.bytesN(g.strlen())}
	}
	v := &mval{ik: 2}
	n := rapid.IntRange(0, 4).Draw(g.t, "ilen")
	for i := 0; i < n; i++ {
		v.l = append(v.l, g.item(depth+1))
	}
	return v
}

func (g *vgen) val(d *desc) *mval {
	g.budget--
	switch d.k {
	case kUint:
		var u uint64
		if rapid.IntRange(0, 3).Draw(g.t, "urand") == 0 {
			u = rapid.Uint64().Draw(g.t, "u")
		} else {
			u = rapid.SampledFrom(uintEdges).Draw(g.t, "u")
		}
		if d.n < 64 {
			u &= 1<<uint(d.n) - 1
		}
		return &mval{u: u}
	case kBool:
		return &mval{u: uint64(rapid.IntRange(0, 1).Draw(g.t, "bool"))}
	case kBig:
		if rapid.IntRange(0, 11).Draw(g.t, "nilbig") == 0 {
			return &mval{}
		}
		return &mval{big: g.bigint()}
	case kBigVal:
		return &mval{big: g.bigint()}
	case kString:
		return &mval{b: g.bytesN(g.strlen())}
	case kBytes:
		n := g.strlen()
		return &mval{b: g.bytesN(n), nn: n == 0 && rapid.Bool().Draw(g.t, "nn")}
	case kByteArr:
		if d.n == 0 || rapid.IntRange(0, 3).Draw(g.t, "zeroarr") == 0 {
			return &mval{b: make([]byte, d.n)}
		}
		return &mval{b: g.bytesN(d.n)}
	case kSlice:
		n := rapid.SampledFrom([]int{0, 0, 1, 1, 2, 3, 4}).Draw(g.t, "len")
		if g.budget <= 0 {
			n = 0
		} else if rapid.IntRange(0, 30).Draw(g.t, "longlist") == 0 {
			n = 20
		}
		v := &mval{nn: n == 0 && rapid.Bool().Draw(g.t, "nn")}
		for i := 0; i < n; i++ {
			v.l = append(v.l, g.val(d.elem))
		}
		return v
	case kArray:
		v := &mval{}
		for i := 0; i < d.n; i++ {
			v.l = append(v.l, g.val(d.elem))
		}
		return v
	case kStruct:
		v := &mval{}
		for _, f := range d.fields {
			if f.optional && rapid.IntRange(0, 2).Draw(g.t, "optzero") == 0 {
				v.l = append(v.l, zeroVal(f.d))
				continue
			}
			v.l = append(v.l, g.val(f.d))
		}
		return v
	case kPtr:
		if g.budget <= -40 || rapid.IntRange(0, 3).Draw(g.t, "nilptr") == 0 {
			return &mval{}
		}
		return &mval{p: g.val(d.elem)}
	case kRaw:
		switch rapid.IntRange(0, 11).Draw(g.t, "rawkind") {
		case 0:
			n := rapid.IntRange(0, 4).Draw(g.t, "rawlen")
			return &mval{b: g.bytesN(n), nn: n == 0 && rapid.Bool().Draw(g.t, "nn")}
		default:
			return &mval{b: refEncode(ifaceDesc, g.item(1))}
		}
	case kIface:
		return g.iface(0)
	}
	panic("val")
}

// ---------------------------------------------------------------- faulty encodings

type input struct {
	b      []byte
	f      fault
	single bool // exactly one fault/edit on top of a valid encoding
	desc   string
}

func editBytes(t *rapid.T, b []byte) ([]byte, string) {
	b = append([]byte{}, b...)
	if len(b) == 0 {
		x := rapid.Byte().Draw(t, "ib")
		return []byte{x}, fmt.Sprintf("ins0=%02x", x)
	}
	pos := rapid.IntRange(0, len(b)-1).Draw(t, "pos")
	switch rapid.IntRange(0, 3).Draw(t, "edit") {
	case 0:
		x := rapid.SampledFrom(byteEdges).Draw(t, "hb")
		b[pos] = x
		return b, fmt.Sprintf("set%d=%02x", pos, x)
	case 1:
		return append(b[:pos], b[pos+1:]...), fmt.Sprintf("del%d", pos)
	case 2:
		x := rapid.SampledFrom(byteEdges).Draw(t, "ib")
		return append(b[:pos], append([]byte{x}, b[pos:]...)...), fmt.Sprintf("ins%d=%02x", pos, x)
	default:
		bit := uint(rapid.IntRange(0, 7).Draw(t, "bit"))
		b[pos] ^= 1 << bit
		return b, fmt.Sprintf("flip%d.%d", pos, bit)
	}
}

// genInput derives one adversarial byte string from the value v of type d (valid encoding enc).
func genInput(t *rapid.T, d *desc, v *mval, enc []byte, info []emInfo) input {
	w := rapid.IntRange(0, 19).Draw(t, "fclass")
	switch {
	case w < 11 && len(info) > 0:
		f := fault(rapid.IntRange(1, int(nHeaderFaults)-1).Draw(t, "fault"))
		var cand []int
		for i, e := range info {
			if e.applicable(f) {
				cand = append(cand, i)
			}
		}
		at := 0
		if len(cand) > 0 {
			at = rapid.SampledFrom(cand).Draw(t, "faultat")
		} else {
			at = rapid.IntRange(0, len(info)-1).Draw(t, "faultat")
		}
		c := &encCtx{faultAt: at, f: f, huge: rapid.SampledFrom(hugeSizes).Draw(t, "huge")}
		b := c.enc(d, v)
		in := input{b: b, f: c.applied, single: true, desc: fmt.Sprintf("%s@%d", faultNames[c.applied], c.faultAt)}
		if c.applied == fHuge {
			in.desc += fmt.Sprintf("=%d", c.huge)
		}
		if c.applied == fNone { // the chosen emission was never reached (cannot happen) – keep the valid encoding
			in.f, in.single = fNone, false
		}
		return in
	case w < 13:
		if len(enc) == 0 {
			return input{b: enc, f: fNone, desc: "valid"}
		}
		cut := rapid.IntRange(1, len(enc)).Draw(t, "cut")
		return input{b: enc[:len(enc)-cut], f: fTrunc, single: true, desc: fmt.Sprintf("truncated-%d", cut)}
	case w < 15:
		n := rapid.IntRange(1, 3).Draw(t, "ntrail")
		tr := make([]byte, n)
		for i := range tr {
			tr[i] = rapid.SampledFrom(byteEdges).Draw(t, "tb")
		}
		return input{b: append(append([]byte{}, enc...), tr...), f: fTrail, single: true, desc: fmt.Sprintf("trailing-%x", tr)}
	case w < 19:
		n := rapid.SampledFrom([]int{1, 1, 1, 2, 3}).Draw(t, "nedits")
		b, ds := enc, []string{}
		for i := 0; i < n; i++ {
			var s string
			b, s = editBytes(t, b)
			ds = append(ds, s)
		}
		return input{b: b, f: fEdit, single: n == 1, desc: "edit:" + strings.Join(ds, ",")}
	default:
		n := rapid.IntRange(0, 12).Draw(t, "rlen")
		b := make([]byte, n)
		for i := range b {
			if rapid.Bool().Draw(t, "redge") {
				b[i] = rapid.SampledFrom(byteEdges).Draw(t, "rb")
			} else {
				b[i] = rapid.Byte().Draw(t, "rb")
			}
		}
		return input{b: b, f: fRandom, desc: "random"}
	}
}

// ---------------------------------------------------------------- measured, guarded product calls

const (
	allocPerByte = 512
	allocSlack   = 256 << 10
)

// measureAlloc is switched off by the exhaustive enumeration and the fuzz target, which measure a whole batch of
// product calls at once instead (ReadMemStats stops the world: ~15 µs per call).
var measureAlloc = true

func allocDelta(f func()) uint64 {
	if !measureAlloc {
		f()
		return 0
	}
	return allocDeltaAlways(f)
}

func allocDeltaAlways(f func()) uint64 {
	var a, b runtime.MemStats
	runtime.ReadMemStats(&a)
	f()
	runtime.ReadMemStats(&b)
	return b.TotalAlloc - a.TotalAlloc
}

// kDecode: go-kardia DecodeBytes into a fresh value of rt, guarded and measured.
func kDecode(t ev.TB, ct func() string, tg *target, b []byte) (reflect.Value, error) {
	rt := tg.d.rtype(flK)
	ptr := reflect.New(rt)
	var err error
	var delta uint64
	ev.Guard(t, ct, func() {
		delta = allocDelta(func() { err = krlp.DecodeBytes(b, ptr.Interface()) })
	})
	// per input byte: 512 bytes of bookkeeping plus (slice growth included) four values of the largest type involved
	if lim := uint64(len(b))*(allocPerByte+4*tg.maxSize) + allocSlack + 4*tg.maxSize; delta > lim {
		ev.Violation(t, "alloc.decodebytes-unbounded", ct(), "DecodeBytes allocated %d bytes for a %d-byte input (bound %d) err=%v", delta, len(b), lim, err)
	}
	return ptr.Elem(), err
}

// readChunks drains r through a buffer of n bytes.
func readChunks(r io.Reader, n int) ([]byte, error) {
	var out []byte
	buf := make([]byte, n)
	for i := 0; i < 1<<20; i++ {
		k, err := r.Read(buf)
		out = append(out, buf[:k]...)
		if err == io.EOF {
			return out, nil
		}
		if err != nil {
			return out, err
		}
	}
	return out, fmt.Errorf("reader does not end")
}

type plainReader struct{ r io.Reader } // hides ReadByte: the Stream wraps it in a bufio.Reader

func (p plainReader) Read(b []byte) (int, error) { return p.r.Read(b) }

// ---------------------------------------------------------------- the typed check, shared by the rapid test and the fuzz target

type target struct {
	d       *desc
	ft      feat
	maxSize uint64 // largest Go size of the type or any type below it: what one input byte may legitimately allocate
	geth    bool   // type is in the subset go-ethereum v1.9.15 supports (no "optional")
	gethDec bool   // ... and its decoder is usable as acceptance oracle (no [1]byte, see feat.byteArr1)
}

func newTarget(d *desc) *target {
	ft := d.features()
	tg := &target{d: d, ft: ft, geth: !ft.optional, gethDec: !ft.optional && !ft.byteArr1}
	d.walk(map[*desc]bool{}, func(x *desc, f *fieldDesc) {
		if x != nil {
			if sz := uint64(x.rtype(flK).Size()); sz > tg.maxSize {
				tg.maxSize = sz
			}
		}
	})
	return tg
}

// checkDecode runs one byte string against one target type: acceptance and value against the model, the inverse
// round trip, go-ethereum's acceptance, no panic, bounded allocation. It returns whether go-kardia accepted.
func checkDecode(t ev.TB, tg *target, b []byte, what string) bool {
	d := tg.d
	ct := func() string { return fmt.Sprintf("type=%s input=%x (%s)", d, b, what) }
	want, st := refDecodeWhole(d, b)
	got, err := kDecode(t, ct, tg, b)
	switch {
	case st == stUnspec:
	case err == nil && st == stReject:
		key := "accept.not-canonical-encoding-of-any-value"
		if _, ok := strictWhole(b); ok && !tg.ft.raw {
			key = "accept.value-not-in-type"
		}
		ev.Violation(t, key, ct(), "DecodeBytes accepted %x into %s; the reference decoder (doc.go rules, strict headers) rejects it", b, d)
		return true
	case err != nil && st == stOK:
		ev.Violation(t, "reject.valid-encoding", ct(), "DecodeBytes rejected %x for %s with %q; the reference decoder accepts it as %s", b, d, err, renderS(d, want))
		return false
	case err == nil:
		bad := ""
		gv := readback(d, got, &bad)
		if bad != "" {
			ev.Violation(t, "decode.untouchable-written", ct(), "%s", bad)
		}
		if g, w := renderS(d, gv), renderS(d, want); g != w {
			ev.Violation(t, "decode.value-differs-from-model", ct(), "decoded %s, reference decoder says %s", g, w)
		}
	}
	if err == nil && !tg.ft.optional && !tg.ft.tail && !tg.ft.raw {
		// canonicity as the inverse round trip (independent of the model)
		var re []byte
		var eerr error
		ev.Guard(t, ct, func() { re, eerr = krlp.EncodeToBytes(got.Addr().Interface()) })
		if eerr != nil || !bytes.Equal(re, b) {
			ev.Violation(t, "canon.accepted-input-is-not-the-encoding-of-its-value", ct(), "accepted %x but the decoded value encodes to %x (err %v)", b, re, eerr)
		}
	}
	if tg.gethDec {
		gp := reflect.New(d.rtype(flG))
		gerr := grlp.DecodeBytes(b, gp.Interface())
		if (gerr == nil) != (err == nil) && st != stUnspec {
			ev.Violation(t, "accept.differs-from-geth", ct(), "go-kardia err=%v, go-ethereum v1.9.15 err=%v", err, gerr)
		}
	}
	return err == nil
}

func TestTypedValues(t *testing.T) {
	perType := ev.Scale("INPUTS", 6)
	rapid.Check(t, func(t *rapid.T) {
		d := genType(t)
		tg := newTarget(d)
		vg := &vgen{t: t, budget: 60}
		mv := vg.val(d)
		ts := d.String()
		vs := renderS(d, mv)
		ct := func() string { return "type=" + ts + " value=" + vs }

		// ---- encode: go-kardia vs reference encoder vs go-ethereum; deterministic through every entry point
		rtK := d.rtype(flK)
		pk := reflect.New(rtK)
		build(d, pk.Elem(), mv)
		arg := pk.Interface()
		byValue := rapid.Bool().Draw(t, "byvalue") && !(d.k == kIface && mv.ik == 0) // EncodeToBytes(nil) is a usage error
		if byValue {
			arg = pk.Elem().Interface()
		}
		cnt := &encCtx{faultAt: -1}
		ref := cnt.enc(d, mv)
		var enc []byte
		var err error
		ev.Guard(t, ct, func() { enc, err = krlp.EncodeToBytes(arg) })
		if err != nil {
			ev.Violation(t, "encode.error", ct(), "EncodeToBytes: %v", err)
		}
		if !bytes.Equal(enc, ref) {
			ev.Violation(t, "encode.differs-from-reference-encoder", ct(), "go-kardia %x, reference encoder %x", enc, ref)
		}
		if tg.geth {
			pg := reflect.New(d.rtype(flG))
			build(d, pg.Elem(), mv)
			garg := pg.Interface()
			if byValue {
				garg = pg.Elem().Interface()
			}
			genc, gerr := grlp.EncodeToBytes(garg)
			if gerr != nil || !bytes.Equal(enc, genc) {
				ev.Violation(t, "encode.differs-from-geth", ct(), "go-kardia %x, go-ethereum v1.9.15 %x (err %v)", enc, genc, gerr)
			}
		}
		chunk := rapid.IntRange(1, 9).Draw(t, "chunk")
		var enc2 []byte
		var buf bytes.Buffer
		var rdSize int
		var rdBytes []byte
		var e2, e3, e4 error
		ev.Guard(t, ct, func() {
			enc2, e2 = krlp.EncodeToBytes(arg)
			e3 = krlp.Encode(&buf, arg)
			var r io.Reader
			if rdSize, r, e4 = krlp.EncodeToReader(arg); e4 == nil {
				rdBytes, e4 = readChunks(r, chunk)
			}
		})
		if e2 != nil || !bytes.Equal(enc2, enc) {
			ev.Violation(t, "encode.not-deterministic", ct(), "second EncodeToBytes gives %x (err %v), first %x", enc2, e2, enc)
		}
		if e3 != nil || !bytes.Equal(buf.Bytes(), enc) {
			ev.Violation(t, "encode.writer-differs", ct(), "Encode(io.Writer) gives %x (err %v), EncodeToBytes %x", buf.Bytes(), e3, enc)
		}
		if e4 != nil || rdSize != len(enc) || !bytes.Equal(rdBytes, enc) {
			ev.Violation(t, "encode.reader-differs", ct(), "EncodeToReader gives size %d %x (err %v), EncodeToBytes %x", rdSize, rdBytes, e4, enc)
		}

		// ---- round trip
		ll := lossless(d, mv, false)
		if ll {
			want, st := refDecodeWhole(d, ref)
			if st != stOK || renderS(d, want) != vs {
				t.Fatalf("harness: reference decoder does not invert the reference encoder: %s -> %x -> %v (st %d)", ct(), ref, want, st)
			}
			got, derr := kDecode(t, ct, tg, enc)
			if derr != nil {
				ev.Violation(t, "roundtrip.own-encoding-rejected", ct(), "DecodeBytes(EncodeToBytes(v)) = %v for %x", derr, enc)
			} else {
				bad := ""
				if g := renderS(d, readback(d, got, &bad)); g != vs {
					ev.Violation(t, "roundtrip.value-changed", ct(), "decode(encode(v)) = %s, v = %s (encoding %x)", g, vs, enc)
				}
			}
		}

		// ---- byte strings: the valid encoding and single-fault / edited / random variants
		classes := []string{"type-top-" + kindName(d)}
		if tg.ft.nestLSL {
			classes = append(classes, "type-list-in-struct-in-list")
		}
		for _, c := range []struct {
			on   bool
			name string
		}{{tg.ft.optional, "type-has-optional"}, {tg.ft.tail, "type-has-tail"}, {tg.ft.raw, "type-has-rawvalue"}, {tg.ft.iface, "type-has-interface"},
			{ll, "value-lossless-roundtrip"}, {!ll, "value-nil-or-lossy"}, {tg.geth, "in-geth-subset"}} {
			if c.on {
				classes = append(classes, c.name)
			}
		}
		inputs := []input{{b: enc, f: fNone, desc: "valid"}}
		for i := 1; i < perType; i++ {
			inputs = append(inputs, genInput(t, d, mv, ref, cnt.info))
		}
		_, baseValid := refDecodeWhole(d, ref)
		for _, in := range inputs {
			if in.f == fHuge {
				ev.Inflight("TestTypedValues " + ct() + " input=" + fmt.Sprintf("%x", in.b))
			}
			_, st := refDecodeWhole(d, in.b)
			// self-check of the model: these faults are invalid by construction whenever the base encoding was valid
			if baseValid == stOK && st == stOK && in.single && !tg.ft.raw && !bytes.Equal(in.b, ref) {
				switch in.f {
				case fIntLeadZero:
					if tg.ft.iface { // an interface{} holding a uint: the zero-prefixed string is a valid string
						break
					}
					fallthrough
				case fLongForm, fLongFormZ, fLeadZeroLen, fWrap1, fTrunc, fTrail:
					t.Fatalf("harness: reference decoder accepts a %s input: %s input=%x", faultNames[in.f], ct(), in.b)
				}
			}
			acc := checkDecode(t, tg, in.b, in.desc)
			cl := append([]string{"input-" + faultNames[in.f]}, classes...)
			if acc {
				cl = append(cl, "accepted")
			} else {
				cl = append(cl, "rejected")
			}
			if in.f != fNone && acc {
				cl = append(cl, "accepted-after-fault")
			}
			canon := fmt.Sprintf("%s|%x", ts, in.b)
			nontrivial := tg.ft.nestLSL || in.single
			ev.Case(nontrivial, canon, cl...)
			if nontrivial && ev.WantSample("typed-"+faultNames[in.f]) {
				ev.Sample("typed-"+faultNames[in.f], fmt.Sprintf("type=%s input=%x (%s) accepted=%v", ts, in.b, in.desc, acc))
			}
		}
	})
}

func kindName(d *desc) string {
	switch d.k {
	case kStruct:
		return "struct"
	case kSlice:
		return "slice"
	case kArray:
		return "array"
	case kPtr:
		return "pointer"
	}
	return "scalar"
}
