// C16 — RLP encoding is canonical, round-trips, and rejects everything else.
//
//	model_test.go     independent model: strict header reader, reference encoder (with single-fault injection),
//	                  type-directed reference decoder written from lib/rlp/doc.go
//	typed_test.go     TestTypedValues: generated Go types (reflect.StructOf) x generated values x faulty encodings
//	bytes_test.go     TestByteStrings: hand-written targets, raw.go helpers, Stream API, EncoderBuffer
//	domain_test.go    TestDomainTypes: transactions, receipts, block info, accounts, header-by-RLP
//	directed_test.go  TestDirected: exhaustive short strings, huge claims, doc examples, known-finding reproducers
//	fuzz_test.go      FuzzDecode: native fuzzing with the same oracles (thorough tier)
package c16

import (
	"os"
	"strings"
	"testing"

	"verifharness/internal/ev"
)

func TestMain(m *testing.M) {
	worker, fuzzing := false, false
	for _, a := range os.Args {
		worker = worker || strings.HasPrefix(a, "-test.fuzzworker")
		fuzzing = fuzzing || strings.HasPrefix(a, "-test.fuzz=") || a == "-test.fuzz"
	}
	if worker {
		// fuzz workers share the coordinator's environment: keep them from overwriting its evidence file. What a
		// worker finds reaches the coordinator as a crasher file, which replayCrashers() below re-judges.
		os.Unsetenv("VERIF_EV_OUT")
	}
	ev.Init("C16")
	rc := m.Run()
	if fuzzing && !worker && rc != 0 {
		replayCrashers()
	}
	ev.Flush()
	os.Exit(rc)
}
