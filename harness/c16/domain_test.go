// Domain types: transactions, receipts (consensus and storage form), block info, state accounts, headers-by-RLP keep
// their bytes, hashes and senders across encode -> decode; their encodings equal the reference encoder applied to a
// mirror struct written from the field lists; mutated encodings are accepted only when canonical.
package c16

import (
	"bytes"
	"crypto/ecdsa"
	"fmt"
	"math/big"
	"reflect"
	"testing"
	"time"

	"golang.org/x/crypto/sha3"
	"pgregory.net/rapid"

	"github.com/kardiachain/go-kardia/lib/common"
	"github.com/kardiachain/go-kardia/lib/crypto"
	krlp "github.com/kardiachain/go-kardia/lib/rlp"
	"github.com/kardiachain/go-kardia/types"

	"verifharness/internal/ev"
)

func keccak(b []byte) (h common.Hash) {
	k := sha3.NewLegacyKeccak256()
	k.Write(b)
	k.Sum(h[:0])
	return h
}

// mirrors: the wire layout of each domain type, written from the struct definitions / EncodeRLP bodies.
type txMirror struct {
	Nonce   uint64
	Price   *big.Int
	Gas     uint64
	To      *[20]byte `rlp:"nil"`
	Amount  *big.Int
	Payload []byte
	V, R, S *big.Int
}

type logMirror struct {
	Address [20]byte
	Topics  [][32]byte
	Data    []byte
}

type receiptMirror struct { // consensus form
	StatusOrPostState []byte
	CumulativeGasUsed uint64
	Bloom             [256]byte
	Logs              []logMirror
}

type receiptStorageMirror struct {
	StatusOrPostState []byte
	CumulativeGasUsed uint64
	Bloom             [256]byte
	TxHash            [32]byte
	ContractAddress   [20]byte
	Logs              []logMirror
	GasUsed           uint64
}

type blockInfoMirror struct {
	GasUsed  uint64
	Rewards  *big.Int
	Receipts []receiptStorageMirror
	Bloom    [256]byte
}

type headerMirror struct { // gen_header_rlp.go
	Height   uint64
	Time     struct{} // time.Time has no exported fields: written as an empty list
	NumTxs   uint64
	GasLimit uint64
	LastID   struct {
		Hash  [32]byte
		Parts struct {
			Total uint32
			Hash  [32]byte
		}
	}
	Proposer                                                             [20]byte
	LastCommit, Tx, Validators, NextValidators, Consensus, App, Evidence [32]byte
}

var (
	tgTx        = newStaticTarget(txMirror{})
	tgReceipt   = newStaticTarget(receiptMirror{})
	tgReceiptSt = newStaticTarget(receiptStorageMirror{})
	tgBlockInfo = newStaticTarget(blockInfoMirror{})
	tgHeader    = newStaticTarget(headerMirror{})
	tgAccount   = newStaticTarget(types.StateAccount{})
	tgSlim      = newStaticTarget(types.SlimAccount{})
)

// mirrorEnc: reference encoding of a mirror value.
func mirrorEnc(tg *target, x interface{}) []byte {
	bad := ""
	return refEncode(tg.d, readback(tg.d, reflect.ValueOf(x), &bad))
}

func mirrorRender(tg *target, x interface{}) string {
	bad := ""
	return renderS(tg.d, readback(tg.d, reflect.ValueOf(x), &bad))
}

func txToMirror(tx *types.Transaction) txMirror {
	v, r, s := tx.RawSignatureValues()
	m := txMirror{Nonce: tx.Nonce(), Price: tx.GasPrice(), Gas: tx.Gas(), Amount: tx.Value(), Payload: tx.Data(), V: v, R: r, S: s}
	if to := tx.To(); to != nil {
		a := [20]byte(*to)
		m.To = &a
	}
	return m
}

func logsToMirror(logs []*types.Log) []logMirror {
	var out []logMirror
	for _, l := range logs {
		m := logMirror{Address: [20]byte(l.Address), Data: l.Data}
		for _, tp := range l.Topics {
			m.Topics = append(m.Topics, [32]byte(tp))
		}
		out = append(out, m)
	}
	return out
}

func statusBytes(r *types.Receipt) []byte {
	if len(r.PostState) > 0 {
		return r.PostState
	}
	if r.Status == types.ReceiptStatusFailed {
		return nil
	}
	return []byte{1}
}

func receiptToStorageMirror(r *types.Receipt) receiptStorageMirror {
	return receiptStorageMirror{StatusOrPostState: statusBytes(r), CumulativeGasUsed: r.CumulativeGasUsed, Bloom: [256]byte(r.Bloom),
		TxHash: [32]byte(r.TxHash), ContractAddress: [20]byte(r.ContractAddress), Logs: logsToMirror(r.Logs), GasUsed: r.GasUsed}
}

var domainKeys = func() []*ecdsa.PrivateKey {
	var ks []*ecdsa.PrivateKey
	for _, s := range []string{"c16-key-a", "c16-key-b", "c16-key-c"} {
		k, err := crypto.ToECDSA(crypto.Keccak256([]byte(s)))
		if err != nil {
			panic(err)
		}
		ks = append(ks, k)
	}
	return ks
}()

func genBigAmount(t *rapid.T, label string) *big.Int {
	switch rapid.IntRange(0, 4).Draw(t, label+"kind") {
	case 0:
		return new(big.Int)
	case 1:
		return new(big.Int).SetUint64(rapid.SampledFrom(uintEdges).Draw(t, label))
	case 2:
		return new(big.Int).Lsh(big.NewInt(1), uint(rapid.SampledFrom([]int{64, 80, 128, 255}).Draw(t, label+"sh")))
	default:
		return new(big.Int).SetUint64(rapid.Uint64().Draw(t, label))
	}
}

func genPayload(t *rapid.T, label string) []byte {
	n := rapid.SampledFrom([]int{0, 0, 1, 1, 4, 32, 55, 56, 68, 100, 300}).Draw(t, label+"len")
	if n == 0 {
		return nil
	}
	b0 := rapid.SampledFrom(byteEdges).Draw(t, label+"b0")
	b := make([]byte, n)
	for i := range b {
		b[i] = b0 + byte(i*13)
	}
	return b
}

func genHash(t *rapid.T, label string) (h common.Hash) {
	switch rapid.IntRange(0, 2).Draw(t, label+"kind") {
	case 0:
	case 1:
		h[31] = rapid.Byte().Draw(t, label)
	default:
		h = keccak([]byte{rapid.Byte().Draw(t, label)})
	}
	return h
}

func genLogs(t *rapid.T) []*types.Log {
	var logs []*types.Log
	n := rapid.IntRange(0, 3).Draw(t, "nlogs")
	for i := 0; i < n; i++ {
		l := &types.Log{Address: common.BytesToAddress(genPayload(t, "logaddr")), Data: genPayload(t, "logdata")}
		nt := rapid.IntRange(0, 4).Draw(t, "ntopics")
		for j := 0; j < nt; j++ {
			l.Topics = append(l.Topics, genHash(t, "topic"))
		}
		// derived (non-consensus) fields: must not leak into either encoding
		l.BlockHeight, l.TxIndex, l.Index = rapid.Uint64().Draw(t, "logheight"), uint(i), uint(i)
		logs = append(logs, l)
	}
	return logs
}

func genReceipt(t *rapid.T, txh common.Hash) *types.Receipt {
	r := &types.Receipt{CumulativeGasUsed: rapid.SampledFrom(uintEdges).Draw(t, "cumgas"), GasUsed: rapid.SampledFrom(uintEdges).Draw(t, "gasused"),
		TxHash: txh, Logs: genLogs(t)}
	switch rapid.IntRange(0, 2).Draw(t, "status") {
	case 0:
		r.Status = types.ReceiptStatusFailed
	case 1:
		r.Status = types.ReceiptStatusSuccessful
	default:
		h := genHash(t, "poststate")
		r.PostState = h[:]
	}
	if rapid.Bool().Draw(t, "hascontract") {
		r.ContractAddress = common.BytesToAddress(keccak([]byte{rapid.Byte().Draw(t, "contract")}).Bytes())
	}
	r.Bloom = types.CreateBloom(types.Receipts{r})
	// inclusion fields are not part of either encoding
	r.BlockHash, r.BlockHeight, r.TransactionIndex = genHash(t, "rblock"), big.NewInt(7), 3
	return r
}

// decodeVsMirror decodes b into the product type through dec and compares acceptance (and, when accepted, the value
// extracted by toMirror and the re-encoding) with the reference decoder on the mirror type.
func decodeVsMirror(t *rapid.T, what string, tg *target, b []byte, desc string, dec func() error, toMirror func() interface{}, reenc func() ([]byte, error), valid func(*mval) bool) bool {
	ct := func() string { return fmt.Sprintf("%s input=%x (%s)", what, b, desc) }
	want, st := refDecodeWhole(tg.d, b)
	if st == stOK && valid != nil && !valid(want) {
		st = stReject // well-formed for the layout, but not a legal value of the domain type
	}
	var err error
	var delta uint64
	ev.Guard(t, ct, func() { delta = allocDelta(func() { err = dec() }) })
	if lim := uint64(allocPerByte*len(b) + allocSlack); delta > lim {
		ev.Violation(t, "alloc.decodebytes-unbounded", ct(), "decoding allocated %d bytes for a %d-byte input (bound %d)", delta, len(b), lim)
	}
	switch {
	case err == nil && st == stReject:
		ev.Violation(t, what+".accepts-non-canonical-or-malformed", ct(), "accepted; the reference decoder on the mirror layout rejects it")
		return true
	case err != nil && st == stOK:
		ev.Violation(t, what+".rejects-valid-encoding", ct(), "rejected with %q; the reference decoder on the mirror layout accepts it", err)
		return false
	case err != nil:
		return false
	}
	if g, w := mirrorRender(tg, toMirror()), renderS(tg.d, want); g != w {
		ev.Violation(t, what+".decoded-value-differs", ct(), "decoded fields %s, reference decoder %s", g, w)
	}
	{
		var re []byte
		var eerr error
		ev.Guard(t, ct, func() { re, eerr = reenc() })
		if eerr != nil || !bytes.Equal(re, b) {
			ev.Violation(t, what+".accepted-input-is-not-its-encoding", ct(), "accepted %x, re-encodes to %x (err %v)", b, re, eerr)
		}
	}
	return true
}

func mutateValid(t *rapid.T, tg *target, x interface{}, enc []byte) input {
	bad := ""
	mv := readback(tg.d, reflect.ValueOf(x), &bad)
	cnt := &encCtx{faultAt: -1}
	cnt.enc(tg.d, mv)
	return genInput(t, tg.d, mv, enc, cnt.info)
}

func TestDomainTypes(t *testing.T) {
	rapid.Check(t, func(t *rapid.T) {
		classes := []string{}
		canon := ""
		nontrivial := false

		// ------------------------------------------------------------ transaction
		var tx *types.Transaction
		nonce, gas := rapid.SampledFrom(uintEdges).Draw(t, "nonce"), rapid.SampledFrom(uintEdges).Draw(t, "gas")
		amount, price, data := genBigAmount(t, "amount"), genBigAmount(t, "price"), genPayload(t, "data")
		create := rapid.IntRange(0, 3).Draw(t, "create") == 0
		if create {
			tx = types.NewContractCreation(nonce, amount, gas, price, data)
			classes = append(classes, "tx-contract-creation")
		} else {
			tx = types.NewTransaction(nonce, common.BytesToAddress(genPayload(t, "to")), amount, gas, price, data)
		}
		var signer types.Signer = types.HomesteadSigner{}
		sigKind := rapid.IntRange(0, 2).Draw(t, "signer")
		key := rapid.SampledFrom(domainKeys).Draw(t, "key")
		switch sigKind {
		case 1:
			signer = types.NewChainIDSigner(big.NewInt(int64(rapid.SampledFrom([]int{1, 24, 69, 242, 100000}).Draw(t, "chainid"))))
			classes = append(classes, "tx-chainid-signed")
		case 2:
			classes = append(classes, "tx-unsigned")
		}
		if sigKind != 2 {
			var err error
			ev.Guard(t, nil, func() { tx, err = types.SignTx(signer, tx, key) })
			if err != nil {
				t.Fatalf("harness: SignTx: %v", err)
			}
		}
		txm := txToMirror(tx)
		txs := mirrorRender(tgTx, txm)
		ctTx := func() string { return "tx " + txs }
		var enc []byte
		var err error
		ev.Guard(t, ctTx, func() { enc, err = krlp.EncodeToBytes(tx) })
		want := mirrorEnc(tgTx, txm)
		if err != nil || !bytes.Equal(enc, want) {
			ev.Violation(t, "tx.encoding-differs-from-reference-encoder", ctTx(), "EncodeToBytes(tx) = %x (err %v), reference encoder on the field list %x", enc, err, want)
		}
		var h0 common.Hash
		ev.Guard(t, ctTx, func() { h0 = tx.Hash() })
		if h0 != keccak(want) {
			ev.Violation(t, "tx.hash-is-not-keccak-of-rlp", ctTx(), "Hash() = %x, keccak256(reference encoding) = %x", h0, keccak(want))
		}
		back := new(types.Transaction)
		ev.Guard(t, ctTx, func() { err = krlp.DecodeBytes(enc, back) })
		if err != nil {
			ev.Violation(t, "tx.roundtrip-rejected", ctTx(), "DecodeBytes(EncodeToBytes(tx)): %v", err)
		} else {
			var enc2 []byte
			var h1 common.Hash
			var size float64
			var f0, f1 common.Address
			var e0, e1 error
			ev.Guard(t, ctTx, func() {
				enc2, _ = krlp.EncodeToBytes(back)
				h1 = back.Hash()
				size = float64(back.Size())
				if sigKind != 2 {
					f0, e0 = types.Sender(signer, tx)
					f1, e1 = types.Sender(signer, back)
				}
			})
			if !bytes.Equal(enc, enc2) {
				ev.Violation(t, "tx.roundtrip-bytes-changed", ctTx(), "encode(decode(encode(tx))) = %x, encode(tx) = %x", enc2, enc)
			}
			if h1 != h0 {
				ev.Violation(t, "tx.roundtrip-hash-changed", ctTx(), "hash %x -> %x", h0, h1)
			}
			if int(size) != len(enc) {
				ev.Violation(t, "tx.size-after-decode", ctTx(), "decoded tx reports Size() %v, encoding has %d bytes", size, len(enc))
			}
			if sigKind != 2 && (e0 != nil || e1 != nil || f0 != f1 || f0 != crypto.PubkeyToAddress(key.PublicKey)) {
				ev.Violation(t, "tx.roundtrip-sender-changed", ctTx(), "sender before %x (%v), after %x (%v), key address %x", f0, e0, f1, e1, crypto.PubkeyToAddress(key.PublicKey))
			}
			if g := mirrorRender(tgTx, txToMirror(back)); g != txs {
				ev.Violation(t, "tx.roundtrip-fields-changed", ctTx(), "fields after round trip %s", g)
			}
		}
		// proto container keeps hashes
		var viaProto types.Transactions
		ev.Guard(t, ctTx, func() {
			pd := types.Transactions{tx}.ToProto()
			viaProto, err = types.DataFromProto(&pd)
		})
		if err != nil || len(viaProto) != 1 || viaProto[0].Hash() != h0 {
			ev.Violation(t, "tx.proto-container-hash-changed", ctTx(), "Transactions.ToProto -> DataFromProto: err %v", err)
		}
		// mutated encoding
		in := mutateValid(t, tgTx, txm, enc)
		mut := new(types.Transaction)
		accTx := decodeVsMirror(t, "tx", tgTx, in.b, in.desc, func() error { return krlp.DecodeBytes(in.b, mut) },
			func() interface{} { return txToMirror(mut) }, func() ([]byte, error) { return krlp.EncodeToBytes(mut) }, nil)
		classes = append(classes, "tx-input-"+faultNames[in.f])
		if accTx {
			classes = append(classes, "tx-mutant-accepted")
		}
		nontrivial = nontrivial || in.single
		canon += fmt.Sprintf("tx|%x|", in.b)

		// ------------------------------------------------------------ receipts, block info
		r := genReceipt(t, h0)
		rsm := receiptToStorageMirror(r)
		rcm := receiptMirror{StatusOrPostState: statusBytes(r), CumulativeGasUsed: r.CumulativeGasUsed, Bloom: [256]byte(r.Bloom), Logs: logsToMirror(r.Logs)}
		ctR := func() string { return "receipt " + mirrorRender(tgReceiptSt, rsm) }
		var encS, encC []byte
		var errS, errC error
		ev.Guard(t, ctR, func() {
			encS, errS = krlp.EncodeToBytes((*types.ReceiptForStorage)(r))
			encC, errC = krlp.EncodeToBytes(r)
		})
		if w := mirrorEnc(tgReceiptSt, rsm); errS != nil || !bytes.Equal(encS, w) {
			ev.Violation(t, "receipt.storage-encoding-differs-from-reference-encoder", ctR(), "got %x (err %v), reference %x", encS, errS, w)
		}
		if w := mirrorEnc(tgReceipt, rcm); errC != nil || !bytes.Equal(encC, w) {
			ev.Violation(t, "receipt.consensus-encoding-differs-from-reference-encoder", ctR(), "got %x (err %v), reference %x", encC, errC, w)
		}
		var rs types.ReceiptForStorage
		var rc types.Receipt
		ev.Guard(t, ctR, func() {
			errS = krlp.DecodeBytes(encS, &rs)
			errC = krlp.DecodeBytes(encC, &rc)
		})
		if errS != nil || errC != nil {
			ev.Violation(t, "receipt.roundtrip-rejected", ctR(), "storage: %v, consensus: %v", errS, errC)
		} else {
			var reS, reC []byte
			ev.Guard(t, ctR, func() {
				reS, _ = krlp.EncodeToBytes(&rs)
				reC, _ = krlp.EncodeToBytes(&rc)
			})
			if !bytes.Equal(reS, encS) || !bytes.Equal(reC, encC) {
				ev.Violation(t, "receipt.roundtrip-bytes-changed", ctR(), "storage %x -> %x, consensus %x -> %x", encS, reS, encC, reC)
			}
			if g, w := mirrorRender(tgReceiptSt, receiptToStorageMirror((*types.Receipt)(&rs))), mirrorRender(tgReceiptSt, rsm); g != w {
				ev.Violation(t, "receipt.roundtrip-fields-changed", ctR(), "storage form after round trip %s, before %s", g, w)
			}
			if rc.Status != r.Status || !bytes.Equal(rc.PostState, r.PostState) || rc.CumulativeGasUsed != r.CumulativeGasUsed || rc.Bloom != r.Bloom || len(rc.Logs) != len(r.Logs) {
				ev.Violation(t, "receipt.roundtrip-fields-changed", ctR(), "consensus form after round trip differs")
			}
		}
		// mutated consensus receipt (the storage form accepts a legacy log layout as well: no inverse clause there)
		inR := mutateValid(t, tgReceipt, rcm, encC)
		var mr types.Receipt
		decodeVsMirror(t, "receipt", tgReceipt, inR.b, inR.desc, func() error { return krlp.DecodeBytes(inR.b, &mr) },
			func() interface{} {
				return receiptMirror{StatusOrPostState: statusBytes(&mr), CumulativeGasUsed: mr.CumulativeGasUsed, Bloom: [256]byte(mr.Bloom), Logs: logsToMirror(mr.Logs)}
			}, func() ([]byte, error) { return krlp.EncodeToBytes(&mr) },
			func(v *mval) bool { // setStatus: empty = failed, 0x01 = successful, 32 bytes = pre-byzantium post state
				s := v.l[0].b
				return len(s) == 0 || (len(s) == 1 && s[0] == 1) || len(s) == 32
			})
		classes = append(classes, "receipt-input-"+faultNames[inR.f])
		nontrivial = nontrivial || inR.single
		canon += fmt.Sprintf("rc|%x|", inR.b)

		bi := &types.BlockInfo{GasUsed: r.CumulativeGasUsed, Rewards: genBigAmount(t, "rewards"), Bloom: r.Bloom}
		nr := rapid.IntRange(0, 2).Draw(t, "nreceipts")
		bim := blockInfoMirror{GasUsed: bi.GasUsed, Rewards: bi.Rewards, Bloom: [256]byte(bi.Bloom)}
		for i := 0; i < nr; i++ {
			bi.Receipts = append(bi.Receipts, r)
			bim.Receipts = append(bim.Receipts, rsm)
		}
		var encB []byte
		ev.Guard(t, ctR, func() { encB, err = krlp.EncodeToBytes(bi) })
		if w := mirrorEnc(tgBlockInfo, bim); err != nil || !bytes.Equal(encB, w) {
			ev.Violation(t, "blockinfo.encoding-differs-from-reference-encoder", ctR(), "got %x (err %v), reference %x", encB, err, w)
		}
		var bi2 types.BlockInfo
		var reB []byte
		ev.Guard(t, ctR, func() {
			if err = krlp.DecodeBytes(encB, &bi2); err == nil {
				reB, err = krlp.EncodeToBytes(&bi2)
			}
		})
		if err != nil || !bytes.Equal(reB, encB) {
			ev.Violation(t, "blockinfo.roundtrip-bytes-changed", ctR(), "err %v, %x -> %x", err, encB, reB)
		}

		// ------------------------------------------------------------ state account (full and slim form)
		acc := types.StateAccount{Nonce: rapid.SampledFrom(uintEdges).Draw(t, "accnonce"), Balance: genBigAmount(t, "balance"), Root: types.EmptyRootHash,
			CodeHash: types.EmptyCodeHash.Bytes()}
		if rapid.Bool().Draw(t, "hasstorage") {
			acc.Root = keccak([]byte{1, rapid.Byte().Draw(t, "root")})
		}
		if rapid.Bool().Draw(t, "hascode") {
			acc.CodeHash = keccak([]byte{2, rapid.Byte().Draw(t, "code")}).Bytes()
		}
		ctA := func() string { return "account " + mirrorRender(tgAccount, acc) }
		var encA, slim, full []byte
		var acc2 *types.StateAccount
		ev.Guard(t, ctA, func() {
			encA, err = krlp.EncodeToBytes(&acc)
			slim = types.SlimAccountRLP(acc)
		})
		if w := mirrorEnc(tgAccount, acc); err != nil || !bytes.Equal(encA, w) {
			ev.Violation(t, "account.encoding-differs-from-reference-encoder", ctA(), "got %x (err %v), reference %x", encA, err, w)
		}
		var err2 error
		ev.Guard(t, ctA, func() {
			full, err = types.FullAccountRLP(slim)
			acc2, err2 = types.FullAccount(slim)
		})
		if err != nil || err2 != nil || !bytes.Equal(full, encA) || mirrorRender(tgAccount, *acc2) != mirrorRender(tgAccount, acc) {
			ev.Violation(t, "account.slim-roundtrip-changed", ctA(), "FullAccountRLP(SlimAccountRLP(a)) = %x (err %v %v), encode(a) = %x", full, err, err2, encA)
		}
		inA := mutateValid(t, tgAccount, acc, encA)
		accA := checkDecode(t, tgAccount, inA.b, inA.desc)
		inS := mutateValid(t, tgSlim, types.SlimAccount{Nonce: acc.Nonce, Balance: acc.Balance, Root: acc.Root[:], CodeHash: acc.CodeHash}, slim)
		ev.Guard(t, ctA, func() { _, err = types.FullAccount(inS.b) })
		if _, st := refDecodeWhole(tgSlim.d, inS.b); (err == nil) != (st == stOK) {
			ev.Violation(t, "account.slim-acceptance", ctA(), "FullAccount(%x) err=%v, reference decoder accepts: %v", inS.b, err, st == stOK)
		}
		classes = append(classes, "account-input-"+faultNames[inA.f])
		if accA {
			classes = append(classes, "account-mutant-accepted")
		}
		nontrivial = nontrivial || inA.single
		canon += fmt.Sprintf("acc|%x|%x", inA.b, inS.b)

		// ------------------------------------------------------------ header by RLP
		hd := &types.Header{Height: rapid.SampledFrom(uintEdges).Draw(t, "height"), NumTxs: uint64(rapid.IntRange(0, 300).Draw(t, "numtxs")),
			GasLimit: rapid.SampledFrom(uintEdges).Draw(t, "gaslimit"), ProposerAddress: common.BytesToAddress(genPayload(t, "proposer")),
			LastCommitHash: genHash(t, "lc"), TxHash: genHash(t, "txh"), ValidatorsHash: genHash(t, "vh"), NextValidatorsHash: genHash(t, "nvh"),
			ConsensusHash: genHash(t, "ch"), AppHash: genHash(t, "ah"), EvidenceHash: genHash(t, "eh")}
		hd.LastBlockID.Hash = genHash(t, "lbh")
		hd.LastBlockID.PartsHeader.Total = uint32(rapid.SampledFrom(uintEdges).Draw(t, "total"))
		hd.LastBlockID.PartsHeader.Hash = genHash(t, "psh")
		zeroTime := rapid.IntRange(0, 3).Draw(t, "zerotime") == 0
		if !zeroTime {
			hd.Time = time.Unix(int64(rapid.IntRange(1, 1<<31).Draw(t, "time")), 0).UTC()
		}
		ctH := func() string { return fmt.Sprintf("header %+v", *hd) }
		var encH, reH []byte
		var hb types.Header
		var hh0, hh1 common.Hash
		ev.Guard(t, ctH, func() {
			if encH, err = krlp.EncodeToBytes(hd); err != nil {
				return
			}
			if err = krlp.DecodeBytes(encH, &hb); err != nil {
				return
			}
			reH, err = krlp.EncodeToBytes(&hb)
			hh0, hh1 = hd.Hash(), hb.Hash()
		})
		hm := headerMirror{Height: hd.Height, NumTxs: hd.NumTxs, GasLimit: hd.GasLimit, Proposer: [20]byte(hd.ProposerAddress), LastCommit: [32]byte(hd.LastCommitHash),
			Tx: [32]byte(hd.TxHash), Validators: [32]byte(hd.ValidatorsHash), NextValidators: [32]byte(hd.NextValidatorsHash), Consensus: [32]byte(hd.ConsensusHash),
			App: [32]byte(hd.AppHash), Evidence: [32]byte(hd.EvidenceHash)}
		hm.LastID.Hash, hm.LastID.Parts.Total, hm.LastID.Parts.Hash = [32]byte(hd.LastBlockID.Hash), hd.LastBlockID.PartsHeader.Total, [32]byte(hd.LastBlockID.PartsHeader.Hash)
		if w := mirrorEnc(tgHeader, hm); err != nil || !bytes.Equal(encH, w) || !bytes.Equal(reH, encH) {
			ev.Violation(t, "header.rlp-bytes", ctH(), "err %v; encode %x, re-encode after decode %x, reference encoder on the generated coder's layout %x", err, encH, reH, w)
		} else if hh0 != hh1 {
			withTime := hb
			withTime.Time = hd.Time
			if withTime.Hash() == hh0 {
				// only the time was lost: the generated coder writes time.Time as an empty list
				ev.Violation(t, "header.rlp-drops-time", ctH(), "Header hash %x before, %x after RLP encode->decode: Time %v came back as %v", hh0, hh1, hd.Time, hb.Time)
			} else {
				ev.Violation(t, "header.rlp-field-changed", ctH(), "Header hash %x before, %x after RLP encode->decode; decoded %+v", hh0, hh1, hb)
			}
		}
		if zeroTime {
			classes = append(classes, "header-zero-time")
		} else {
			classes = append(classes, "header-with-time")
		}
		ev.Case(nontrivial, canon, classes...)
		if nontrivial && ev.WantSample("domain") {
			ev.Sample("domain", fmt.Sprintf("tx input %x (%s) accepted=%v", in.b, in.desc, accTx))
		}
	})
}
