// Directed and exhaustive parts: every byte string of length <= 2 (and a boundary alphabet at length 3) against the
// scalar targets, huge claimed sizes at every nesting position, the documentation's examples, and the reproducers of
// the known findings of C16.
package c16

import (
	"bytes"
	"fmt"
	"math/big"
	"reflect"
	"testing"
	"time"

	"github.com/kardiachain/go-kardia/lib/common"
	krlp "github.com/kardiachain/go-kardia/lib/rlp"
	"github.com/kardiachain/go-kardia/types"

	"verifharness/internal/ev"
)

func TestDirected(t *testing.T) {
	t.Run("known-header-rlp-drops-time", func(t *testing.T) {
		h := &types.Header{Height: 5, Time: time.Unix(1700000000, 0).UTC(), NumTxs: 2, GasLimit: 7, ProposerAddress: common.Address{1}, AppHash: common.Hash{9}}
		enc, err := krlp.EncodeToBytes(h)
		if err != nil {
			t.Fatalf("harness: encode header: %v", err)
		}
		var back types.Header
		if err := krlp.DecodeBytes(enc, &back); err != nil {
			t.Fatalf("harness: decode header: %v", err)
		}
		h2 := *h
		h2.Time = h.Time.Add(time.Hour)
		enc2, _ := krlp.EncodeToBytes(&h2)
		reproduced := back.Hash() != h.Hash() && back.Time.IsZero() && bytes.Equal(enc, enc2)
		ev.KnownReproduced("header.rlp-drops-time", reproduced)
		ev.Case(true, "directed header time", "directed")
	})

	t.Run("doc-examples", func(t *testing.T) {
		ct := func() string { return "doc.go examples" }
		var v docNilT
		var e1, e2 error
		var nilAfterFirst bool
		ev.Guard(t, ct, func() {
			e1 = krlp.DecodeBytes([]byte{0xc1, 0x80}, &v)
			nilAfterFirst = v.Field == nil
			e2 = krlp.DecodeBytes([]byte{0xc4, 0x83, 0, 0, 0}, &v)
		})
		if e1 != nil || e2 != nil || !nilAfterFirst || v.Field == nil || *v.Field != [3]byte{} {
			ev.Violation(t, "doc.nil-tag-example", ct(), "0xC180 -> err %v nil=%v; 0xC483000000 -> err %v field %v", e1, nilAfterFirst, e2, v.Field)
		}
		var err error
		ev.Guard(t, ct, func() { _, err = krlp.EncodeToBytes(big.NewInt(-1)) })
		if err == nil {
			ev.Violation(t, "encode.negative-bigint-accepted", ct(), "EncodeToBytes(-1) returned no error (documented: ErrNegativeBigInt)")
		}
		type signed struct{ A int }
		ev.Guard(t, ct, func() { _, err = krlp.EncodeToBytes(signed{1}) })
		if err == nil {
			ev.Violation(t, "encode.signed-integer-accepted", ct(), "a struct with an int field was encoded (documented: signed integers are not supported)")
		}
		ev.Case(true, "directed doc examples", "directed")
	})

	t.Run("typecache-concurrent-first-use", func(t *testing.T) {
		// 8 goroutines meet 64 types that the process has never seen (unique array lengths), each in another order;
		// every encode/decode must equal the reference encoder / the value, whoever generated the type info.
		const K, G = 64, 8
		descs := make([]*desc, K)
		vals := make([]*mval, K)
		for i := range descs {
			in := &desc{k: kStruct, fields: []fieldDesc{{d: &desc{k: kByteArr, n: 41 + i}}, {d: &desc{k: kPtr, elem: &desc{k: kUint, uname: "uint16", n: 16}}, nilTag: "nil"}}}
			descs[i] = &desc{k: kStruct, fields: []fieldDesc{{d: &desc{k: kUint, uname: "uint64", n: 64}}, {d: &desc{k: kByteArr, n: 40 + i}},
				{d: &desc{k: kSlice, elem: in}}, {d: &desc{k: kBytes}, optional: true}}}
			e := func(x byte, p *mval) *mval {
				return &mval{l: []*mval{{b: bytes.Repeat([]byte{x}, 41+i)}, {p: p}}}
			}
			vals[i] = &mval{l: []*mval{{u: uint64(i) << 20}, {b: bytes.Repeat([]byte{byte(i)}, 40+i)}, {l: []*mval{e(1, nil), e(0x80, &mval{u: 300})}}, {b: []byte{byte(i)}}}}
			descs[i].rtype(flK) // reflect.StructOf is done up front: only lib/rlp's cache is raced
		}
		errs := make(chan string, K*G)
		done := make(chan bool)
		for g := 0; g < G; g++ {
			go func(g int) {
				defer func() {
					if r := recover(); r != nil {
						errs <- fmt.Sprintf("goroutine %d: panic: %v", g, r)
					}
					done <- true
				}()
				for j := 0; j < K; j++ {
					i := (j*7 + g*8) % K
					d := descs[i]
					pk := reflect.New(d.rtype(flK))
					build(d, pk.Elem(), vals[i])
					enc, err := krlp.EncodeToBytes(pk.Interface())
					if want := refEncode(d, vals[i]); err != nil || !bytes.Equal(enc, want) {
						errs <- fmt.Sprintf("goroutine %d type %d: encode %x (err %v), reference %x", g, i, enc, err, want)
						continue
					}
					back := reflect.New(d.rtype(flK))
					bad := ""
					if err := krlp.DecodeBytes(enc, back.Interface()); err != nil {
						errs <- fmt.Sprintf("goroutine %d type %d: decode own encoding: %v", g, i, err)
					} else if gv, w := renderS(d, readback(d, back.Elem(), &bad)), renderS(d, vals[i]); gv != w {
						errs <- fmt.Sprintf("goroutine %d type %d: round trip %s, want %s", g, i, gv, w)
					}
				}
			}(g)
		}
		for g := 0; g < G; g++ {
			<-done
		}
		close(errs)
		for e := range errs {
			ev.Violation(t, "typecache.concurrent-first-use", "64 fresh types x 8 goroutines", "%s", e)
		}
		ev.Count(K * G)
		ev.ClassN("directed-concurrent-first-use", K*G)
	})

	t.Run("huge-claims-everywhere", func(t *testing.T) {
		targets := []*target{tgIface, tgBytes, staticTargets[2], tgU64, tgBigV, tgRaw, staticTargets[15], staticTargets[16], tgRich, tgOpt, tgRec, staticTargets[22]}
		n := 0
		for _, base := range []byte{0xb7, 0xf7} {
			for ll := 1; ll <= 8; ll++ {
				for _, size := range hugeSizes {
					l := beLen(size)
					if len(l) > ll {
						continue
					}
					hdr := append([]byte{base + byte(ll)}, append(make([]byte, ll-len(l)), l...)...) // possibly with leading zeros
					for depth := 0; depth <= 3; depth++ {
						for _, fill := range []int{0, 3, 60} {
							b := append(append([]byte{}, hdr...), bytes.Repeat([]byte{0x01}, fill)...)
							for i := 0; i < depth; i++ { // wrap in lists whose headers are honest about what is present
								b = append(header(0xc0, uint64(len(b))), b...)
							}
							ev.Inflight(fmt.Sprintf("TestDirected huge-claims input=%x", b))
							for _, tg := range targets {
								if checkDecode(t, tg, b, "huge claim") && !tg.ft.raw { // (a RawValue takes a list without looking inside)
									ev.Violation(t, "accept.not-canonical-encoding-of-any-value", fmt.Sprintf("type=%s input=%x", tg.d, b), "a value claiming %d bytes was accepted from a %d-byte input", size, len(b))
								}
							}
							checkStreams(t, b, 1000)
							checkRawHelpers(t, b)
							checkStreamScalars(t, b)
							n++
						}
					}
				}
			}
		}
		ev.ClassN("directed-huge-claim", int64(n))
		ev.Count(int64(n))
	})

	t.Run("exhaustive-short-strings", func(t *testing.T) {
		targets := []*target{tgIface, tgBytes, staticTargets[2], staticTargets[3], staticTargets[4], tgU64, staticTargets[8], tgBigV,
			staticTargets[10], staticTargets[11], staticTargets[12], staticTargets[14], staticTargets[15], tgRaw, staticTargets[23], staticTargets[17]}
		measureAlloc = false
		defer func() { measureAlloc = true }()
		var n int64
		run := func(b []byte) {
			delta := allocDeltaAlways(func() {
				for _, tg := range targets {
					checkDecode(t, tg, b, "exhaustive")
				}
				checkRawHelpers(t, b)
				checkStreamScalars(t, b)
				checkStreams(t, b, 5)
			})
			if lim := uint64(len(targets)+4) * allocSlack; delta > lim {
				ev.Violation(t, "alloc.decodebytes-unbounded", fmt.Sprintf("input=%x", b), "decoding a %d-byte input into %d targets allocated %d bytes", len(b), len(targets), delta)
			}
			n++
		}
		run(nil)
		for a := 0; a < 256; a++ {
			run([]byte{byte(a)})
			for b := 0; b < 256; b++ {
				run([]byte{byte(a), byte(b)})
			}
		}
		alpha := []byte{0x00, 0x01, 0x38, 0x7f, 0x80, 0x81, 0x82, 0xb8, 0xc0, 0xc1, 0xc2, 0xf8, 0xff}
		for a := 0; a < 256; a++ {
			for _, b := range alpha {
				for _, c := range alpha {
					run([]byte{byte(a), b, c})
				}
			}
		}
		ev.Count(n)
		ev.ClassN("exhaustive-short-string", n)
		ev.Note("exhaustive_strings", n)
		ev.Exhaustive()
	})
}
