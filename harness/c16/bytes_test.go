// Adversarial byte strings against hand-written target types, the raw.go helpers (Split*, CountValues, list
// iterator), the Stream API (bytes.Reader, non-ByteReader with an input limit) and the EncoderBuffer API.
package c16

import (
	"bytes"
	"fmt"
	"io"
	"math/big"
	"reflect"
	"testing"

	"pgregory.net/rapid"

	krlp "github.com/kardiachain/go-kardia/lib/rlp"

	"verifharness/internal/ev"
)

type innerT struct {
	A uint64
	B []byte
	C *big.Int
}

type richT struct {
	U8  uint8
	U16 uint16
	U64 uint64
	S   string
	Bs  []byte
	Arr [3]byte
	H   [32]byte
	L   []uint16
	In  innerT
	P   *innerT  `rlp:"nil"`
	PS  *uint32  `rlp:"nilString"`
	PL  *[2]byte `rlp:"nilList"`
	Big *big.Int
	BV  big.Int
	B   bool
	LL  [][]byte
	Any interface{}
	Ig  uint `rlp:"-"`
	Fix [2]innerT
}

type optT struct {
	A uint64
	B []byte  `rlp:"optional"`
	C *uint16 `rlp:"optional"`
	D uint8   `rlp:"optional"`
	E *innerT `rlp:"optional,nil"`
	T []uint  `rlp:"tail"`
}

type recT struct {
	V    uint16
	Kids []recT
	Next *recT `rlp:"nil"`
}

type rawS struct {
	K uint8
	V krlp.RawValue
	W []krlp.RawValue
}

type privT struct { // unexported and ignored fields between exported ones
	A uint32
	b uint32
	C []byte
	d []byte  `rlp:"-"`
	E []uint8 `rlp:"-"`
	F bool
}

type docNilT struct { // doc.go, "Struct Tags"
	Field *[3]byte `rlp:"nil"`
}

func bigOne(shift uint) *big.Int { return new(big.Int).Lsh(big.NewInt(1), shift) }

func newStaticTarget(x interface{}) *target {
	rt := reflect.TypeOf(x)
	if rt.Kind() == reflect.Ptr && rt != bigPtrT {
		rt = rt.Elem() // pass (*T)(nil) for interface types
	}
	d := descFor(rt)
	tg := newTarget(d)
	if tg.ft.raw {
		tg.geth, tg.gethDec = false, false
	}
	if tg.geth { // no RawValue inside: the same Go type serves go-ethereum
		d.walk(map[*desc]bool{}, func(x *desc, f *fieldDesc) {
			if x != nil {
				x.rt[flG] = x.rt[flK]
			}
		})
	}
	return tg
}

var staticTargets = func() []*target {
	var out []*target
	for _, x := range []interface{}{(*interface{})(nil), []byte(nil), "", uint8(0), uint16(0), uint32(0), uint64(0), uint(0), false,
		big.Int{}, [0]byte{}, [1]byte{}, [2]byte{}, [32]byte{}, []uint64(nil), [][]byte(nil), []interface{}(nil), [2]uint16{},
		krlp.RawValue(nil), richT{}, optT{}, recT{}, rawS{}, docNilT{}, innerT{}, []innerT(nil), []*innerT(nil), []string(nil), []bool(nil), [][]uint32(nil), privT{}, []privT(nil)} {
		out = append(out, newStaticTarget(x))
	}
	return out
}()

var (
	tgIface = staticTargets[0]
	tgBytes = staticTargets[1]
	tgU64   = staticTargets[6]
	tgBigV  = staticTargets[9]
	tgRaw   = staticTargets[18]
	tgRich  = staticTargets[19]
	tgOpt   = staticTargets[20]
	tgRec   = staticTargets[21]
)

// ---------------------------------------------------------------- Stream walkers

func walkStream(s *krlp.Stream) (*gitem, error) {
	k, _, err := s.Kind()
	if err != nil {
		return nil, err
	}
	if k != krlp.List {
		b, err := s.Bytes()
		if err != nil {
			return nil, err
		}
		return &gitem{str: b}, nil
	}
	if _, err := s.List(); err != nil {
		return nil, err
	}
	it := &gitem{list: true}
	for {
		kid, err := walkStream(s)
		if err == krlp.EOL {
			break
		}
		if err != nil {
			return nil, err
		}
		it.kids = append(it.kids, kid)
	}
	return it, s.ListEnd()
}

// strictSeq: b as a sequence of complete canonical items.
func strictSeq(b []byte) (items []*gitem, ok bool) {
	for len(b) > 0 {
		it, rest, ok := strictItem(b)
		if !ok {
			return items, false
		}
		items = append(items, it)
		b = rest
	}
	return items, true
}

// checkStreams: walking b with the Stream API (three reader set-ups) finds exactly the leading canonical items the
// strict parser finds, and ends with io.EOF iff all of b is a sequence of canonical items.
func checkStreams(t ev.TB, b []byte, extraLimit uint64) {
	want, wantAll := strictSeq(b)
	for mode := 0; mode < 3; mode++ {
		var s *krlp.Stream
		limit := uint64(len(b))
		name := ""
		switch mode {
		case 0:
			name = "bytes.Reader, automatic limit"
		case 1:
			name = "non-ByteReader, limit=len"
		case 2:
			name = fmt.Sprintf("non-ByteReader, limit=len+%d", extraLimit)
			limit += extraLimit
		}
		if mode > 0 && limit == 0 {
			continue // limit 0 means "no limit" for a plain reader: documented as unprotected
		}
		ct := func() string { return fmt.Sprintf("stream walk (%s) input=%x", name, b) }
		var got []*gitem
		var last error
		var delta uint64
		ev.Guard(t, ct, func() {
			delta = allocDelta(func() {
				if mode == 0 {
					s = krlp.NewStream(bytes.NewReader(b), 0)
				} else {
					s = krlp.NewStream(plainReader{bytes.NewReader(b)}, limit)
				}
				for {
					it, err := walkStream(s)
					if err != nil {
						last = err
						return
					}
					got = append(got, it)
				}
			})
		})
		if lim := 2*limit + uint64(allocPerByte*len(b)+allocSlack); delta > lim {
			ev.Violation(t, "alloc.stream-with-limit-unbounded", ct(), "walking the stream allocated %d bytes (input %d bytes, limit %d, bound %d)", delta, len(b), limit, lim)
		}
		if len(got) != len(want) {
			key := "stream.accepts-invalid-item"
			if len(got) < len(want) {
				key = "stream.rejects-valid-item"
			}
			ev.Violation(t, key, ct(), "Stream yields %d items before %v, the strict parser %d (all valid: %v)", len(got), last, len(want), wantAll)
			continue
		}
		for i := range got {
			if got[i].String() != want[i].String() {
				ev.Violation(t, "stream.item-differs", ct(), "item %d: Stream %s, strict parser %s", i, got[i], want[i])
			}
		}
		if (last == io.EOF) != wantAll {
			ev.Violation(t, "stream.end-condition", ct(), "Stream ended with %v; input is a sequence of canonical items: %v", last, wantAll)
		}
	}
}

// ---------------------------------------------------------------- raw.go helpers against the strict header reader

func kindOf(h hd) krlp.Kind {
	switch h.kind {
	case hByte:
		return krlp.Byte
	case hStr:
		return krlp.String
	}
	return krlp.List
}

func checkRawHelpers(t ev.TB, b []byte) {
	ct := func() string { return fmt.Sprintf("raw helpers input=%x", b) }
	h, ok := next(b)
	ok = ok && !h.wrapped
	var k krlp.Kind
	var content, rest []byte
	var err error
	ev.Guard(t, ct, func() { k, content, rest, err = krlp.Split(b) })
	switch {
	case (err == nil) != ok:
		ev.Violation(t, "split.acceptance", ct(), "Split err=%v, strict header reader ok=%v", err, ok)
	case ok && (k != kindOf(h) || !bytes.Equal(content, h.payload) || !bytes.Equal(rest, h.rest)):
		ev.Violation(t, "split.result", ct(), "Split = %v %x %x, strict header reader = %v %x %x", k, content, rest, kindOf(h), h.payload, h.rest)
	}
	ev.Guard(t, ct, func() { content, rest, err = krlp.SplitString(b) })
	if want := ok && h.kind != hList; (err == nil) != want || (want && (!bytes.Equal(content, h.payload) || !bytes.Equal(rest, h.rest))) {
		ev.Violation(t, "split.string", ct(), "SplitString = %x %x %v, want ok=%v %x %x", content, rest, err, want, h.payload, h.rest)
	}
	ev.Guard(t, ct, func() { content, rest, err = krlp.SplitList(b) })
	if want := ok && h.kind == hList; (err == nil) != want || (want && (!bytes.Equal(content, h.payload) || !bytes.Equal(rest, h.rest))) {
		ev.Violation(t, "split.list", ct(), "SplitList = %x %x %v, want ok=%v %x %x", content, rest, err, want, h.payload, h.rest)
	}
	var u uint64
	ev.Guard(t, ct, func() { u, rest, err = krlp.SplitUint64(b) })
	wu, wok := uint64(0), false
	if ok {
		wu, wok = decUint(h, 64)
	}
	if (err == nil) != wok || (wok && (u != wu || !bytes.Equal(rest, h.rest))) {
		ev.Violation(t, "split.uint64", ct(), "SplitUint64 = %d %x %v, want ok=%v %d", u, rest, err, wok, wu)
	}
	// CountValues: b as a sequence of values with canonical headers (contents of lists are not looked at)
	n, allOK := 0, true
	var elems [][]byte
	for p := b; len(p) > 0; n++ {
		hh, ok := next(p)
		if !ok || hh.wrapped {
			allOK = false
			break
		}
		elems = append(elems, hh.raw)
		p = hh.rest
	}
	var cnt int
	ev.Guard(t, ct, func() { cnt, err = krlp.CountValues(b) })
	if (err == nil) != allOK || (allOK && cnt != n) {
		ev.Violation(t, "countvalues", ct(), "CountValues = %d %v, strict header reader: ok=%v count=%d", cnt, err, allOK, n)
	}
	// list iterator over the first value
	var itErr error
	var got [][]byte
	var newErr error
	ev.Guard(t, ct, func() {
		it, e := krlp.NewListIterator(krlp.RawValue(b))
		if newErr = e; e != nil {
			return
		}
		for i := 0; it.Next(); i++ {
			if itErr = it.Err(); itErr != nil || i > len(b) {
				break
			}
			got = append(got, it.Value())
		}
	})
	if want := ok && h.kind == hList; (newErr == nil) != want {
		ev.Violation(t, "iterator.new", ct(), "NewListIterator err=%v, input starts with a canonical list header: %v", newErr, want)
	} else if want {
		var wantElems [][]byte
		wantOK := true
		for p := h.payload; len(p) > 0; {
			hh, ok := next(p)
			if !ok || hh.wrapped {
				wantOK = false
				break
			}
			wantElems = append(wantElems, hh.raw)
			p = hh.rest
		}
		if (itErr == nil) != wantOK || len(got) != len(wantElems) {
			ev.Violation(t, "iterator.elements", ct(), "iterator yields %d elements, err %v; strict header reader %d elements, ok=%v", len(got), itErr, len(wantElems), wantOK)
		} else {
			for i := range got {
				if !bytes.Equal(got[i], wantElems[i]) {
					ev.Violation(t, "iterator.elements", ct(), "element %d: iterator %x, strict header reader %x", i, got[i], wantElems[i])
				}
			}
		}
	}
}

// checkStreamScalars: the typed Stream readers on the first value of b against the strict header reader.
func checkStreamScalars(t ev.TB, b []byte) {
	ct := func() string { return fmt.Sprintf("stream scalars input=%x", b) }
	h, ok := next(b)
	var u uint64
	var bv bool
	var raw []byte
	var eU, eB, eR, eRB error
	n := 1
	if ok {
		n = len(h.payload)
	}
	buf := make([]byte, n)
	ev.Guard(t, ct, func() {
		u, eU = krlp.NewStream(bytes.NewReader(b), 0).Uint64()
		bv, eB = krlp.NewStream(bytes.NewReader(b), 0).Bool()
		raw, eR = krlp.NewStream(bytes.NewReader(b), 0).Raw()
		eRB = krlp.NewStream(bytes.NewReader(b), 0).ReadBytes(buf)
	})
	wu, wok := uint64(0), false
	if ok {
		wu, wok = decUint(h, 64)
	}
	if (eU == nil) != wok || (wok && u != wu) {
		ev.Violation(t, "stream.uint64", ct(), "Stream.Uint64 = %d, %v; strict reader: ok=%v value %d", u, eU, wok, wu)
	}
	wb := wok && wu <= 1 && len(h.payload) <= 1
	if (eB == nil) != wb || (wb && bv != (wu == 1)) {
		ev.Violation(t, "stream.bool", ct(), "Stream.Bool = %v, %v; strict reader: ok=%v value %d", bv, eB, wb, wu)
	}
	if !(ok && h.wrapped) { // Raw on a wrapped single byte: unspecified (see the model)
		if (eR == nil) != ok || (ok && !bytes.Equal(raw, h.raw)) {
			ev.Violation(t, "stream.raw", ct(), "Stream.Raw = %x, %v; strict reader: ok=%v %x", raw, eR, ok, h.raw)
		}
	}
	wrb := ok && h.kind != hList && !h.wrapped
	if (eRB == nil) != wrb || (wrb && !bytes.Equal(buf, h.payload)) {
		ev.Violation(t, "stream.readbytes", ct(), "Stream.ReadBytes(len %d) = %x, %v; strict reader: ok=%v %x", n, buf, eRB, wrb, h.payload)
	}
}

// ---------------------------------------------------------------- EncoderBuffer

func ebWrite(w krlp.EncoderBuffer, v *mval) {
	switch v.ik {
	case 0:
		w.ListEnd(w.List())
	case 1:
		w.WriteBytes(v.b)
	case 2:
		i := w.List()
		for _, e := range v.l {
			ebWrite(w, e)
		}
		w.ListEnd(i)
	case 3:
		w.WriteUint64(v.u)
	case 4:
		w.WriteString(string(v.b))
	}
}

func checkEncoderBuffer(t *rapid.T, vg *vgen) {
	v := vg.iface(0)
	u := rapid.SampledFrom(uintEdges).Draw(t, "ebu")
	bi := vg.bigint()
	flag := rapid.Bool().Draw(t, "ebbool")
	c := &encCtx{faultAt: -1}
	var payload []byte
	payload = append(payload, c.enc(ifaceDesc, v)...)
	payload = append(payload, c.uint(u)...)
	payload = append(payload, c.emit(false, true, bi.Bytes())...)
	if flag {
		payload = append(payload, 0x01)
	} else {
		payload = append(payload, 0x80)
	}
	want := c.emit(true, false, payload)
	ct := func() string {
		return fmt.Sprintf("EncoderBuffer list(%s, %d, %s, %v)", renderS(ifaceDesc, v), u, bi, flag)
	}
	var toBytes, appended, flushed []byte
	var ferr error
	ev.Guard(t, ct, func() {
		var out bytes.Buffer
		w := krlp.NewEncoderBuffer(&out)
		l := w.List()
		ebWrite(w, v)
		w.WriteUint64(u)
		w.WriteBigInt(bi)
		w.WriteBool(flag)
		w.ListEnd(l)
		toBytes = w.ToBytes()
		appended = w.AppendToBytes([]byte{0xaa, 0xbb})
		ferr = w.Flush()
		flushed = out.Bytes()
	})
	if !bytes.Equal(toBytes, want) || !bytes.Equal(appended, append([]byte{0xaa, 0xbb}, want...)) || ferr != nil || !bytes.Equal(flushed, want) {
		ev.Violation(t, "encoderbuffer.differs-from-reference-encoder", ct(), "ToBytes %x AppendToBytes %x Flush %x (err %v), reference %x", toBytes, appended, flushed, ferr, want)
	}
	var app []byte
	var isz int
	var lsz uint64
	n := uint64(rapid.SampledFrom([]int{0, 1, 55, 56, 255, 256, 65535, 65536}).Draw(t, "lsz"))
	ev.Guard(t, ct, func() { app, isz, lsz = krlp.AppendUint64([]byte{1}, u), krlp.IntSize(u), krlp.ListSize(n) })
	ue := refEncode(&desc{k: kUint, n: 64}, &mval{u: u})
	if !bytes.Equal(app, append([]byte{1}, ue...)) || isz != len(ue) || lsz != uint64(len(header(0xc0, n)))+n {
		ev.Violation(t, "rawhelpers.sizes", ct(), "AppendUint64(%d)=%x IntSize=%d ListSize(%d)=%d; reference %x", u, app, isz, n, lsz, ue)
	}
	ev.Class("encoderbuffer")
}

// ---------------------------------------------------------------- the test

func TestByteStrings(t *testing.T) {
	rapid.Check(t, func(t *rapid.T) {
		vg := &vgen{t: t, budget: 40}
		tg := staticTargets[rapid.IntRange(0, len(staticTargets)-1).Draw(t, "target")]
		if rapid.IntRange(0, 3).Draw(t, "richer") == 0 { // the rich hand-written structs more often
			tg = rapid.SampledFrom([]*target{tgRich, tgOpt, tgRec, tgIface}).Draw(t, "target2")
		}
		d := tg.d
		mv := vg.val(d)
		cnt := &encCtx{faultAt: -1}
		ref := cnt.enc(d, mv)
		ct := func() string { return "type=" + d.String() + " value=" + renderS(d, mv) }

		// encode of the hand-written type
		pk := reflect.New(d.rtype(flK))
		build(d, pk.Elem(), mv)
		var enc []byte
		var err error
		ev.Guard(t, ct, func() { enc, err = krlp.EncodeToBytes(pk.Interface()) })
		if err != nil || !bytes.Equal(enc, ref) {
			ev.Violation(t, "encode.differs-from-reference-encoder", ct(), "go-kardia %x (err %v), reference encoder %x", enc, err, ref)
		}
		if lossless(d, mv, false) {
			got, derr := kDecode(t, ct, tg, ref)
			bad := ""
			if derr != nil {
				ev.Violation(t, "roundtrip.own-encoding-rejected", ct(), "DecodeBytes(EncodeToBytes(v)) = %v for %x", derr, ref)
			} else if g, w := renderS(d, readback(d, got, &bad)), renderS(d, mv); g != w {
				ev.Violation(t, "roundtrip.value-changed", ct(), "decode(encode(v)) = %s, v = %s (encoding %x)", g, w, ref)
			}
		}

		in := input{b: ref, f: fNone, desc: "valid"}
		if rapid.IntRange(0, 5).Draw(t, "mutate") > 0 {
			in = genInput(t, d, mv, ref, cnt.info)
		}
		if in.f == fHuge {
			ev.Inflight("TestByteStrings " + ct() + " input=" + fmt.Sprintf("%x", in.b))
		}
		acc := checkDecode(t, tg, in.b, in.desc)
		// every byte string is also an input for the generic targets
		others := []*target{tgIface, staticTargets[rapid.IntRange(1, len(staticTargets)-1).Draw(t, "other")]}
		nacc := 0
		for _, o := range others {
			if o != tg && checkDecode(t, o, in.b, in.desc+", generated for "+d.String()) {
				nacc++
			}
		}
		checkRawHelpers(t, in.b)
		checkStreamScalars(t, in.b)
		checkStreams(t, in.b, uint64(rapid.SampledFrom([]int{1, 3, 100, 4096, 70000}).Draw(t, "extralimit")))
		if rapid.IntRange(0, 3).Draw(t, "eb") == 0 {
			checkEncoderBuffer(t, vg)
		}

		cl := []string{"input-" + faultNames[in.f], "target-" + d.String()}
		if acc {
			cl = append(cl, "accepted")
		} else {
			cl = append(cl, "rejected")
		}
		if nacc > 0 {
			cl = append(cl, "accepted-by-generic-target")
		}
		ev.Case(in.single, fmt.Sprintf("%s|%x", d, in.b), cl...)
		if in.single && ev.WantSample("bytes-"+faultNames[in.f]) {
			ev.Sample("bytes-"+faultNames[in.f], fmt.Sprintf("target=%s input=%x (%s) accepted=%v", d, in.b, in.desc, acc))
		}
	})
}
