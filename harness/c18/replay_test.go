package c18

import (
	"encoding/hex"
	"fmt"
	"os"
	"regexp"
	"strconv"
	"strings"
	"testing"

	"verifharness/internal/ev"
)

var caseRe = regexp.MustCompile(`scn=([a-z-]+)@h(\d+)((?: [0-9a-f]{2}:[0-9a-f]*)+)`)

// parseCase reads the canonical text of a consensus case: "scn=<kind>@h<height> <ch>:<hex> <ch>:<hex> …".
func parseCase(text string) (scenario, []wire, error) {
	m := caseRe.FindStringSubmatch(text)
	if m == nil {
		return scenario{}, nil, fmt.Errorf("no consensus case text found")
	}
	h, _ := strconv.ParseUint(m[2], 10, 64)
	sc := scenario{height: h, kind: m[1]}
	var ws []wire
	for _, f := range strings.Fields(m[3]) {
		ch, _ := strconv.ParseUint(f[:2], 16, 8)
		data, err := hex.DecodeString(f[3:])
		if err != nil {
			return sc, nil, err
		}
		ws = append(ws, wire{ch: byte(ch), data: data, desc: "replayed"})
	}
	return sc, ws, nil
}

// replayConsensus runs a recorded consensus case on a fresh victim and returns the keys that fire.
func replayConsensus(t *testing.T, text string) (*collector, seqInfo, *victim) {
	sc, ws, err := parseCase(text)
	if err != nil {
		t.Fatalf("harness: %v", err)
	}
	v, err := buildVictim(sc)
	if err != nil {
		t.Fatalf("harness: %v", err)
	}
	c := &collector{}
	info := v.runSequence(t, c.report, ws, func() string { return "scn=" + sc.String() + " " + wiresText(ws) })
	return c, info, v
}

// TestReplay re-runs the case stored in the file named by VERIF_REPLAY_FILE (a found-*.txt written by the driver: the
// canonical case text follows "case:" or "in-flight case:"); `./verif replay C18 <file>`.
func TestReplay(t *testing.T) {
	p := os.Getenv("VERIF_REPLAY_FILE")
	if p == "" {
		t.Skip("VERIF_REPLAY_FILE not set")
	}
	b, err := os.ReadFile(p)
	if err != nil {
		t.Fatalf("harness: %v", err)
	}
	c, info, v := replayConsensus(t, string(b))
	defer v.close()
	t.Logf("victim %s decoded=%v queued=%d dropped=%v keys=%v", v.state, info.decoded, info.queued, info.dropped, c.keys)
	for i, k := range c.keys {
		ev.Violation(t, k, string(b), "%s", c.msgs[i])
	}
}
