package c18

import (
	"strings"
	"testing"

	"pgregory.net/rapid"

	"github.com/kardiachain/go-kardia/consensus"
	kcons "github.com/kardiachain/go-kardia/proto/kardiachain/consensus"

	"verifharness/internal/ev"
)

// victims are reused between cases as long as a case did not change the node (most adversarial input is refused);
// a changed victim is rebuilt, so that every case starts from a state that depends on its scenario only.
var (
	victims   = map[scenario]*victim{}
	victimCtx = map[scenario]*cctx{}
)

const victimMaxUses = 400

func getVictim(t ev.TB, sc scenario) (*victim, *cctx) {
	v := victims[sc]
	if v != nil && v.uses >= victimMaxUses {
		dropVictim(sc)
		v = nil
	}
	if v == nil {
		var err error
		var nv *victim
		if msg, frame := ev.Try(func() { nv, err = buildVictim(sc) }); frame != "" {
			t.Fatalf("harness: building the victim for %v panicked in %s: %s", sc, frame, msg)
		}
		if err != nil {
			t.Fatalf("harness: building the victim for %v: %v", sc, err)
		}
		v = nv
		victims[sc] = v
		victimCtx[sc] = newCtx(v)
		ev.Class("victim-built")
	}
	return v, victimCtx[sc]
}

func dropVictim(sc scenario) {
	if v := victims[sc]; v != nil {
		v.close()
	}
	delete(victims, sc)
	delete(victimCtx, sc)
}

func closeVictims() {
	for sc := range victims {
		dropVictim(sc)
	}
}

// drawSequence draws the 1-4 messages one peer sends: either independent messages, or (40%) a template in which each
// message builds on what the previous ones did to the peer state (round step, then a claim, then bits for the claim …).
func drawSequence(t *rapid.T, c *cctx) []wire {
	var ws []wire
	prelude := func() wire {
		// the peer first tells where it is: at or next to the height and round its messages are about
		h := pick(t, "pre.h", c.fH, c.fH, c.fH, c.fH, c.fH, c.fH, c.fH, c.fH-1, c.fH+1, c.H)
		r := pick(t, "pre.r", c.fR, c.fR, c.fR, c.fR, c.fR, c.fR, c.fR, c.fR-1, c.fR+1, c.R)
		w := c.v.roundStepWire(h, r, pick(t, "pre.step", uint32(1), 2, 3, 4, 5, 6, 7, 8))
		w.desc = "prelude"
		return w
	}
	if weighted(t, "template", 60, 40) == 1 {
		c.stick = 88
		tp := templates[spread(t, "template.i", len(templates))]
		ws = append(ws, prelude())
		for _, k := range tp {
			w := c.structuredType(t, k)
			w.desc = "t:" + w.desc
			ws = append(ws, w)
		}
		return ws
	}
	n := weighted(t, "n", 20, 35, 30, 15) + 1
	for i := 0; i < n; i++ {
		var w wire
		kind := weighted(t, "kind", 50, 12, 18, 8, 6, 6)
		if i == 0 && n > 1 && weighted(t, "prelude", 70, 30) == 0 {
			w = prelude()
		} else {
			switch kind {
			case 0:
				w = c.structured(t)
			case 1:
				w = c.seeds[rapid.IntRange(0, len(c.seeds)-1).Draw(t, "seed")]
			case 2:
				s := c.seeds[rapid.IntRange(0, len(c.seeds)-1).Draw(t, "seed")]
				w = wire{ch: s.ch, data: mutate(t, s.data), desc: "mutated:" + strings.TrimPrefix(s.desc, "seed:")}
			case 3:
				s := c.seeds[rapid.IntRange(0, len(c.seeds)-1).Draw(t, "seed")]
				w = wire{ch: s.ch, data: unknownField(t, s.data), desc: "unknown-field:" + strings.TrimPrefix(s.desc, "seed:")}
			case 4:
				w = wire{ch: pick(t, "rand.ch", consensus.StateChannel, consensus.DataChannel, consensus.VoteChannel, consensus.VoteSetBitsChannel), data: randomBytes(t), desc: "random"}
			case 5:
				w = nilSubMessage(t)
			}
		}
		// mostly the channel the type belongs to; sometimes another consensus channel or one nobody registered
		switch weighted(t, "ch", 88, 8, 4) {
		case 1:
			w.ch = pick(t, "ch.other", consensus.StateChannel, consensus.DataChannel, consensus.VoteChannel, consensus.VoteSetBitsChannel)
			w.desc += "@other-channel"
		case 2:
			w.ch = pick(t, "ch.unknown", byte(0x00), 0x1f, 0x24, 0x30, 0x38, 0x40, 0xff)
			w.desc += "@unknown-channel"
		}
		if len(w.data) > 1048576 { // what MConnection delivers on these channels at most (RecvMessageCapacity)
			w.data = w.data[:1048576]
		}
		ws = append(ws, w)
	}
	return ws
}

// nilSubMessage: a oneof member without its payload, or with an absent nested message.
func nilSubMessage(t *rapid.T) wire {
	m := &kcons.Message{}
	ch := consensus.StateChannel
	switch rapid.IntRange(0, 9).Draw(t, "nil.k") {
	case 0:
		m.Sum = &kcons.Message_NewRoundStep{NewRoundStep: &kcons.NewRoundStep{}}
	case 1:
		m.Sum = &kcons.Message_NewValidBlock{NewValidBlock: &kcons.NewValidBlock{}}
	case 2:
		m.Sum, ch = &kcons.Message_Proposal{Proposal: &kcons.Proposal{}}, consensus.DataChannel
	case 3:
		m.Sum, ch = &kcons.Message_ProposalPol{ProposalPol: &kcons.ProposalPOL{}}, consensus.DataChannel
	case 4:
		m.Sum, ch = &kcons.Message_BlockPart{BlockPart: &kcons.BlockPart{}}, consensus.DataChannel
	case 5:
		m.Sum, ch = &kcons.Message_Vote{Vote: &kcons.Vote{}}, consensus.VoteChannel
	case 6:
		m.Sum = &kcons.Message_HasVote{HasVote: &kcons.HasVote{}}
	case 7:
		m.Sum = &kcons.Message_VoteSetMaj23{VoteSetMaj23: &kcons.VoteSetMaj23{}}
	case 8:
		m.Sum, ch = &kcons.Message_VoteSetBits{VoteSetBits: &kcons.VoteSetBits{}}, consensus.VoteSetBitsChannel
	case 9:
		// no oneof member at all
	}
	return wire{ch: ch, data: mustMarshal(m), desc: "empty-submessage"}
}

func descClass(d string) string {
	d = strings.TrimPrefix(d, "t:")
	if i := strings.IndexAny(d, "/:@"); i > 0 {
		return d[:i]
	}
	return d
}

// TestConsensus: sequences of 1-4 messages from one peer to the consensus reactor of a node stopped at a drawn
// point, five-stage oracle.
func TestConsensus(t *testing.T) {
	defer closeVictims()
	rapid.Check(t, func(t *rapid.T) {
		sc := scenario{height: pick(t, "scn.h", uint64(1), 2), kind: pick(t, "scn.kind", scenarioKinds...)}
		v, base := getVictim(t, sc)
		c := *base
		others := []int{}
		for i := range v.s.Keys {
			if i != v.V {
				others = append(others, i)
			}
		}
		c.attacker = pick(t, "attacker", others...)
		if c.proposer != v.V && c.proposer >= 0 && rapid.Bool().Draw(t, "attacker-is-proposer") {
			c.attacker = c.proposer
		}
		c.drawFocus(t)
		ws := drawSequence(t, &c)
		text := func() string { return "scn=" + sc.String() + " " + wiresText(ws) }
		// an allocation alarm is confirmed on victims built afresh for the same scenario (a victim's state depends on
		// its scenario only, so the drawn messages mean the same to each of them)
		var info seqInfo
		passes := 0
		confirmAlloc(evReporter(t), text, func(rep reporter) {
			pv := v
			if passes > 0 {
				dropVictim(sc)
				pv, _ = getVictim(t, sc)
			}
			pi := pv.runSequence(t, rep, ws, text)
			if passes == 0 {
				info = pi
			} else {
				dropVictim(sc)
			}
			passes++
		})
		if passes == 1 && (info.changed || info.abandoned) {
			dropVictim(sc)
		}
		nontrivial := false
		classes := []string{"consensus", "scn:" + v.state}
		for i, w := range ws {
			if i >= len(info.decoded) {
				break
			}
			cl := "msg:" + descClass(w.desc)
			classes = append(classes, cl)
			if info.decoded[i] {
				classes = append(classes, "accepted-by-decoder", cl+":accepted")
				if !c.isSeed(w.data) {
					nontrivial = true
				}
			}
		}
		if info.queued > 0 {
			classes = append(classes, "reached-handleMsg")
		}
		if info.dropped {
			classes = append(classes, "peer-dropped")
		}
		if info.gossiped {
			classes = append(classes, "gossip-stage")
			if info.sends > 0 {
				classes = append(classes, "gossip-sent-something")
			}
		}
		if info.changed {
			classes = append(classes, "victim-state-changed")
		}
		if info.abandoned {
			classes = append(classes, "abandoned-known")
		}
		ev.Case(nontrivial, text(), classes...)
		if nontrivial {
			for _, w := range ws {
				if cl := "consensus:" + descClass(w.desc); ev.WantSample(cl) {
					ev.Sample(cl, trunc(sc.String()+" "+w.desc+" "+wiresText([]wire{w}), 400))
				}
			}
		}
	})
}
