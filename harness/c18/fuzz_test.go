// Native fuzz targets (thorough tier), one per reactor channel, with the same oracle as the rapid tests inside.
// The driver builds the test binary without coverage instrumentation, so the engine mutates the seed corpus blindly.
package c18

import (
	"fmt"
	"os"
	"path/filepath"
	"strconv"
	"strings"
	"testing"

	bc "github.com/kardiachain/go-kardia/blockchain"
	"github.com/kardiachain/go-kardia/consensus"
	"github.com/kardiachain/go-kardia/lib/log"
	"github.com/kardiachain/go-kardia/lib/p2p"
	"github.com/kardiachain/go-kardia/lib/p2p/pex"
	"github.com/kardiachain/go-kardia/mainchain/tx_pool"
	bcproto "github.com/kardiachain/go-kardia/proto/kardiachain/blockchain"
	kp2p "github.com/kardiachain/go-kardia/proto/kardiachain/p2p"
	prototx "github.com/kardiachain/go-kardia/proto/kardiachain/txpool"
	kproto "github.com/kardiachain/go-kardia/proto/kardiachain/types"
	"github.com/kardiachain/go-kardia/types/evidence"

	"verifharness/internal/ev"
)

var consChans = []byte{consensus.StateChannel, consensus.DataChannel, consensus.VoteChannel, consensus.VoteSetBitsChannel}

var fuzzScn = scenario{2, "prevote"}

// fuzzConsensus: the peer reports the victim's height/round, then sends the fuzzed bytes on the channel selected by
// the first byte; five-stage oracle. The victim holds a complete proposal and has prevoted.
func fuzzConsensus(t ev.TB, b []byte) {
	if len(b) < 1 || len(b) > 1<<16 {
		return
	}
	v, _ := getVictim(t, fuzzScn)
	cs := v.nd.CS
	ws := []wire{v.roundStepWire(cs.Height, cs.Round, 4), {ch: consChans[int(b[0])%4], data: b[1:], desc: "fuzz"}}
	text := func() string { return "scn=" + fuzzScn.String() + " " + wiresText(ws) }
	info := v.runSequence(t, evReporter(t), ws, text)
	if info.changed || info.abandoned {
		dropVictim(fuzzScn)
	}
	cl := "fuzz:consensus:rejected"
	if len(info.decoded) > 1 && info.decoded[1] {
		cl = "fuzz:consensus:accepted"
	}
	ev.Case(cl == "fuzz:consensus:accepted", text(), "fuzz", cl)
}

func fuzzConsensusSeeds() [][]byte {
	v, c := getVictim(fatalTB{}, fuzzScn)
	_ = v
	var out [][]byte
	for _, s := range c.seeds {
		k := 0
		for i, ch := range consChans {
			if ch == s.ch {
				k = i
			}
		}
		out = append(out, append([]byte{byte(k)}, s.data...))
	}
	return out
}

func fuzzBlockSync(t ev.TB, b []byte) {
	if len(b) > 1<<20 {
		return
	}
	w := getBSWorld(t)
	acct = newAccount(false)
	ws := []wire{{ch: bc.BlockchainChannel, desc: "StatusResponse", data: encBC(&bcproto.StatusResponse{Height: w.H, Base: 1})}, {ch: bc.BlockchainChannel, desc: "fuzz", data: b}}
	_, classes, nontrivial := bsExecute(t, w, true, ws)
	_ = classes
	cl := "fuzz:blocksync:rejected"
	if nontrivial {
		cl = "fuzz:blocksync:accepted"
	}
	ev.Case(nontrivial, "blocksync mode=syncing "+wiresText(ws), "fuzz", cl)
}

func fuzzBlockSyncSeeds() [][]byte {
	w := getBSWorld(fatalTB{})
	out := [][]byte{encBC(&bcproto.StatusRequest{}), encBC(&bcproto.StatusResponse{Height: 9, Base: 1}), encBC(&bcproto.BlockRequest{Height: 1}), encBC(&bcproto.NoBlockResponse{Height: 1})}
	for h := uint64(1); h <= w.H; h++ {
		out = append(out, encBC(&bcproto.BlockResponse{Block: w.blocks[h]}))
	}
	return out
}

func fuzzTxPool(t ev.TB, b []byte) {
	if len(b) > 1<<20 {
		return
	}
	w := getTxWorld(t)
	peer := newPeer()
	peer.stopDelay = 3e6
	_ = w.sw.VerifC18AddPeer(peer)
	w.txR.AddPeer(peer)
	ws := []wire{{ch: tx_pool.TxpoolChannel, data: b, desc: "fuzz"}}
	text := func() string { return "txpool " + wiresText(ws) }
	acct = newAccount(true)
	simpleRun(t, evReporter(t), "txpool", w.txR.Receive, peer, w.probes, ws, text)
	if peer.IsRunning() {
		w.leaving = append(w.leaving, leavingPeer{peer, timeNow()})
	}
	w.release(timeNow(), false)
	var dm interface{}
	ev.Try(func() { dm, _ = tx_pool.VerifC18DecodeMsg(b) })
	ev.Case(dm != nil, text(), "fuzz", fmt.Sprintf("fuzz:txpool:accepted=%v", dm != nil))
}

func fuzzTxPoolSeeds() [][]byte {
	h := make([]byte, 32)
	h[0] = 1
	return [][]byte{encTx(&prototx.PooledTransactionHashes{Hashes: [][]byte{h}}), encTx(&prototx.RequestPooledTransactions{Hashes: [][]byte{h}}),
		encTx(&prototx.Txs{Txs: [][]byte{{0xc0}}}), encTx(&prototx.PooledTransactions{Txs: [][]byte{{0xc0}}})}
}

func fuzzEvidence(t ev.TB, b []byte) {
	if len(b) > 1<<20 {
		return
	}
	w := getEvWorld(t)
	peer := newPeer()
	_ = w.sw.VerifC18AddPeer(peer)
	ws := []wire{{ch: evidence.EvidenceChannel, data: b, desc: "fuzz"}}
	text := func() string { return "evidence " + wiresText(ws) }
	acct = newAccount(false)
	n0 := w.nd.EvPool.Size()
	simpleRun(t, evReporter(t), "evidence", w.evR.Receive, peer, w.probes, ws, text)
	if peer.IsRunning() {
		w.sw.StopPeerGracefully(peer)
	}
	if w.nd.EvPool.Size() != n0 {
		closeEvWorld()
	}
	var derr error
	ev.Try(func() { _, derr = evidence.VerifC18DecodeMsg(b) })
	ev.Case(derr == nil, text(), "fuzz", fmt.Sprintf("fuzz:evidence:accepted=%v", derr == nil))
}

func fuzzEvidenceSeeds() [][]byte {
	return [][]byte{mustMarshalList([]*kproto.Evidence{{}}), mustMarshalList([]*kproto.Evidence{{Sum: &kproto.Evidence_DuplicateVoteEvidence{DuplicateVoteEvidence: &kproto.DuplicateVoteEvidence{
		VoteA: &kproto.Vote{Type: 1, Height: 2, Round: 1, ValidatorAddress: make([]byte, 20), Signature: []byte{1}},
		VoteB: &kproto.Vote{Type: 1, Height: 2, Round: 1, ValidatorAddress: make([]byte, 20), Signature: []byte{1}}, TotalVotingPower: 4, ValidatorPower: 1}}}})}
}

var fuzzPexDir string

func fuzzPex(t ev.TB, b []byte) {
	if len(b) > 64000 {
		return
	}
	if fuzzPexDir == "" {
		d, err := os.MkdirTemp("", "c18-pex")
		if err != nil {
			t.Fatalf("harness: %v", err)
		}
		fuzzPexDir = d
	}
	book := pex.NewAddrBook(filepath.Join(fuzzPexDir, "book.json"), true)
	book.SetLogger(log.New())
	r := pex.NewReactor(book, &pex.ReactorConfig{})
	sw := newSwitch(map[string]p2p.Reactor{"PEX": r})
	r.SetLogger(log.New())
	peer := newPeer()
	_ = sw.VerifC18AddPeer(peer)
	r.AddPeer(peer)
	r.RequestAddrs(peer)
	ws := []wire{{ch: pex.PexChannel, data: b, desc: "fuzz"}}
	text := func() string { return "pex seed=false outbound=false asked=true " + wiresText(ws) }
	acct = newAccount(false)
	simpleRun(t, evReporter(t), "pex", r.Receive, peer, []lockProbe{probeMutex("pex.addrBook.mtx", &pex.VerifC18BookMtx(book).Mutex)}, ws, text)
	if peer.IsRunning() {
		sw.StopPeerGracefully(peer)
	}
	var derr error
	ev.Try(func() { _, derr = pex.VerifC18DecodeMsg(b) })
	ev.Case(derr == nil, text(), "fuzz", fmt.Sprintf("fuzz:pex:accepted=%v", derr == nil))
}

func fuzzPexSeeds() [][]byte {
	return [][]byte{encPex(&kp2p.PexRequest{}), encPex(&kp2p.PexAddrs{Addrs: []kp2p.NetAddress{{ID: "deadbeefdeadbeefdeadbeefdeadbeefdeadbeef", IP: "8.8.8.8", Port: 26656}}})}
}

type fuzzTarget struct {
	seeds func() [][]byte
	one   func(ev.TB, []byte)
}

var fuzzTargets = map[string]fuzzTarget{
	"FuzzConsensus": {fuzzConsensusSeeds, fuzzConsensus},
	"FuzzBlockSync": {fuzzBlockSyncSeeds, fuzzBlockSync},
	"FuzzTxPool":    {fuzzTxPoolSeeds, fuzzTxPool},
	"FuzzEvidence":  {fuzzEvidenceSeeds, fuzzEvidence},
	"FuzzPex":       {fuzzPexSeeds, fuzzPex},
}

func runFuzz(f *testing.F, name string) {
	tg := fuzzTargets[name]
	for _, s := range tg.seeds() {
		f.Add(s)
	}
	f.Fuzz(func(t *testing.T, b []byte) { tg.one(t, b) })
}

func FuzzConsensus(f *testing.F) { runFuzz(f, "FuzzConsensus") }
func FuzzBlockSync(f *testing.F) { runFuzz(f, "FuzzBlockSync") }
func FuzzTxPool(f *testing.F)    { runFuzz(f, "FuzzTxPool") }
func FuzzEvidence(f *testing.F)  { runFuzz(f, "FuzzEvidence") }
func FuzzPex(f *testing.F)       { runFuzz(f, "FuzzPex") }

// TestFuzzSeeds runs every fuzz oracle on its seed corpus and on single-byte edits of the seeds (so that the fuzz
// oracles themselves are exercised in the quick tier).
func TestFuzzSeeds(t *testing.T) {
	defer closeVictims()
	defer closeBSWorld()
	defer closeTxWorld()
	defer closeEvWorld()
	for _, name := range []string{"FuzzConsensus", "FuzzBlockSync", "FuzzTxPool", "FuzzEvidence", "FuzzPex"} {
		tg := fuzzTargets[name]
		for _, s := range tg.seeds() {
			tg.one(t, s)
			for i := 0; i < len(s) && i < 48; i++ {
				m := append([]byte{}, s...)
				m[i] ^= 0x41
				tg.one(t, m)
				tg.one(t, s[:i])
			}
		}
	}
}

// ---------------------------------------------------------------- crasher replay in the coordinator (see TestMain)

type fatalTB struct{}

func (fatalTB) Helper() {}
func (fatalTB) Fatalf(format string, args ...interface{}) {
	panic(fmt.Sprintf("harness: "+format, args...))
}

type recordTB struct{}
type recordStop struct{}

func (recordTB) Helper()                                   {}
func (recordTB) Fatalf(format string, args ...interface{}) { panic(recordStop{}) }

// replayCrashers re-runs the oracle inside the coordinator process on every corpus file the fuzzing engine wrote under
// testdata/fuzz/<target>, so that a violation found by a worker reaches the coordinator's evidence file (the driver
// reads violations only from there).
func replayCrashers() {
	for name, tg := range fuzzTargets {
		ents, err := os.ReadDir(filepath.Join("testdata", "fuzz", name))
		if err != nil {
			continue
		}
		for _, e := range ents {
			raw, err := os.ReadFile(filepath.Join("testdata", "fuzz", name, e.Name()))
			if err != nil {
				continue
			}
			lines := strings.Split(strings.TrimSpace(string(raw)), "\n")
			if len(lines) < 2 || !strings.HasPrefix(lines[0], "go test fuzz v1") {
				continue
			}
			arg := strings.TrimSpace(lines[1])
			if !strings.HasPrefix(arg, "[]byte(") || !strings.HasSuffix(arg, ")") {
				continue
			}
			s, err := strconv.Unquote(arg[len("[]byte(") : len(arg)-1])
			if err != nil {
				continue
			}
			func() {
				defer func() {
					if r := recover(); r != nil {
						if _, ok := r.(recordStop); !ok {
							fmt.Printf("replayCrashers: %s/%s: panic outside the oracle: %v\n", name, e.Name(), r)
						}
					}
				}()
				tg.one(recordTB{}, []byte(s))
			}()
		}
	}
}
