package c18

import (
	"bytes"
	"fmt"
	"net"
	"strings"
	"sync"
	"sync/atomic"
	"testing"
	"time"

	"pgregory.net/rapid"

	"github.com/kardiachain/go-kardia/lib/log"
	"github.com/kardiachain/go-kardia/lib/p2p/conn"
	"github.com/kardiachain/go-kardia/lib/protoio"
	kp2p "github.com/kardiachain/go-kardia/proto/kardiachain/p2p"

	"verifharness/internal/ev"
)

func delimited(p *kp2p.Packet) []byte {
	bz, err := protoio.MarshalDelimited(p)
	if err != nil {
		panic(err)
	}
	return bz
}

func varint(x uint64) []byte {
	var f []byte
	for x >= 0x80 {
		f = append(f, byte(x)|0x80)
		x >>= 7
	}
	return append(f, byte(x))
}

const framingAllocPerByte = 1024

var framingSentinel = []byte("\x00verif-end-of-stream\x00")

// framingChannels: what the node registers (ids and receive capacities of the consensus, tx-pool and block-sync
// channels, scaled down so that "more than the capacity" is cheap to send).
var framingChannels = []*conn.ChannelDescriptor{
	{ID: 0x20, Priority: 5, SendQueueCapacity: 4, RecvMessageCapacity: 4096, RecvBufferCapacity: 1024},
	{ID: 0x30, Priority: 5, SendQueueCapacity: 4, RecvMessageCapacity: 20000, RecvBufferCapacity: 4096},
	{ID: 0x40, Priority: 5, SendQueueCapacity: 4, RecvMessageCapacity: 1 << 20, RecvBufferCapacity: 4096},
}

// genFrames draws the raw bytes a peer writes into the connection. Alongside it keeps a small reference model of the
// receive side: per channel, the bytes of the message under assembly (+= len(Data) for every well-formed PacketMsg,
// reset at EOF). As long as every earlier frame of the stream is a well-formed kind, the first moment an unterminated
// message exceeds its channel's RecvMessageCapacity the connection MUST refuse (mustReject). The model is one-directional:
// it never demands acceptance.
func genFrames(t *rapid.T) ([]byte, []string, bool) {
	var out []byte
	var descs []string
	capOf := map[int32]int{}
	for _, d := range framingChannels {
		capOf[int32(d.ID)] = d.RecvMessageCapacity
	}
	pending := map[int32]int{}
	clean, mustReject := true, false
	account := func(ch int32, n int, eof bool) {
		if !clean || mustReject {
			return
		}
		pending[ch] += n
		if pending[ch] > capOf[ch] {
			mustReject = true
			return
		}
		if eof {
			pending[ch] = 0
		}
	}
	for i, n := 0, 1+spread(t, "frames", 8); i < n; i++ {
		var b []byte
		d := ""
		switch weighted(t, "frame", 30, 8, 6, 8, 8, 8, 6, 6, 6, 6, 8) {
		case 0:
			ch := pick(t, "f.ch", int32(0x20), 0x20, 0x30, 0x40)
			sz := pick(t, "f.size", 0, 1, 10, 1000, 1024, 1025, 2000)
			eof := rapid.Bool().Draw(t, "f.eof")
			b = delimited(&kp2p.Packet{Sum: &kp2p.Packet_PacketMsg{PacketMsg: &kp2p.PacketMsg{ChannelID: ch, EOF: eof, Data: make([]byte, sz)}}})
			d = fmt.Sprintf("msg(ch %#x,%d bytes)", ch, sz)
			if sz > 1024 { // larger than the largest packet: refused for another reason, the model stops here
				clean = false
			}
			account(ch, sz, eof)
		case 1:
			reps := pick(t, "f.pings", 1, 10, 1000, 20000)
			one := delimited(&kp2p.Packet{Sum: &kp2p.Packet_PacketPing{PacketPing: &kp2p.PacketPing{}}})
			for j := 0; j < reps; j++ {
				b = append(b, one...)
			}
			d = fmt.Sprintf("ping x%d", reps)
		case 2:
			b = delimited(&kp2p.Packet{Sum: &kp2p.Packet_PacketPong{PacketPong: &kp2p.PacketPong{}}})
			d = "pong"
		case 3:
			ch := pick(t, "f.badch", int32(0), 0x21, 0x7f, 0x80, 0xff, 0x100, 0x120, -1, 1<<31-1, -1<<31)
			b = delimited(&kp2p.Packet{Sum: &kp2p.Packet_PacketMsg{PacketMsg: &kp2p.PacketMsg{ChannelID: ch, EOF: true, Data: []byte{1}}}})
			d = fmt.Sprintf("msg(unknown ch %d)", ch)
			clean = false
		case 4: // a message longer than its channel allows, in maximal packets without EOF
			ch := pick(t, "f.fill", int32(0x20), 0x30)
			for j, k := 0, pick(t, "f.fill.n", 3, 5, 21, 64); j < k; j++ {
				b = append(b, delimited(&kp2p.Packet{Sum: &kp2p.Packet_PacketMsg{PacketMsg: &kp2p.PacketMsg{ChannelID: ch, Data: make([]byte, 1024)}}})...)
				account(ch, 1024, false)
				if mustReject {
					break // the stream ends with the packet at which the connection must refuse
				}
			}
			d = "over-capacity"
		case 5: // length prefix only
			b = varint(pick(t, "f.len", uint64(0), 1, 1034, 1035, 1036, 1<<20, 1<<31, 1<<32, 1<<62, 1<<63, ^uint64(0)))
			d = "absurd-length"
			clean = false
		case 6:
			b = []byte{0xff, 0xff, 0xff, 0xff, 0xff, 0xff, 0xff, 0xff, 0xff, 0xff, 0xff, 0x01}
			d = "overlong-varint"
			clean = false
		case 7:
			b = delimited(&kp2p.Packet{})
			d = "empty-packet"
			clean = false
		case 8:
			s := delimited(&kp2p.Packet{Sum: &kp2p.Packet_PacketMsg{PacketMsg: &kp2p.PacketMsg{ChannelID: 0x20, EOF: true, Data: []byte("hello")}}})
			b = mutate(t, s)
			d = "mutated"
			clean = false
		case 9:
			b = randomBytes(t)
			d = "random"
			clean = false
		case 10:
			s := delimited(&kp2p.Packet{Sum: &kp2p.Packet_PacketMsg{PacketMsg: &kp2p.PacketMsg{ChannelID: 0x20, EOF: true, Data: make([]byte, 100)}}})
			b = s[:spread(t, "f.cut", len(s))]
			d = "truncated"
			clean = false
		}
		out = append(out, b...)
		descs = append(descs, d)
		if mustReject {
			break // nothing after the packet at which the connection must refuse (the sentinel follows it directly)
		}
	}
	return out, descs, mustReject
}

// TestMConnFraming: raw bytes written into one end of a pipe with an MConnection on the other end. The connection
// either reports an error (the switch then drops the peer) or consumes the bytes; it does not panic (recvRoutine turns
// a panic into an error that starts with "recovered from panic") and does not allocate beyond the bound.
func TestMConnFraming(t *testing.T) {
	rapid.Check(t, func(t *rapid.T) {
		raw, descs, mustReject := genFrames(t)
		text := func() string { return fmt.Sprintf("mconn %x", raw) }
		client, server := net.Pipe()
		var received atomic.Int64
		var recvBytes atomic.Int64
		var mu sync.Mutex
		var onErr interface{}
		errc := make(chan struct{}) // closed at the first onError
		var once sync.Once
		cfg := conn.DefaulKAIConnConfig()
		cfg.RecvRate, cfg.SendRate = 1<<40, 1<<40
		acct = nil
		a0 := totalAlloc()
		// When the model says the stream must be refused, the stream is well-formed up to and including the packet that
		// crosses the capacity, and a sentinel message on another channel follows it directly: its delivery proves that
		// the connection worked through everything before it without refusing (no timing involved).
		sentc := make(chan struct{})
		var sentOnce sync.Once
		if mustReject {
			raw = append(raw, delimited(&kp2p.Packet{Sum: &kp2p.Packet_PacketMsg{PacketMsg: &kp2p.PacketMsg{ChannelID: 0x40, EOF: true, Data: framingSentinel}}})...)
		}
		mc := conn.NewMConnectionWithConfig(server, framingChannels, func(ch byte, b []byte) {
			if mustReject && ch == 0x40 && bytes.Equal(b, framingSentinel) {
				sentOnce.Do(func() { close(sentc) })
				return
			}
			received.Add(1)
			recvBytes.Add(int64(len(b)))
		}, func(r interface{}) {
			mu.Lock()
			if onErr == nil {
				onErr = r
			}
			mu.Unlock()
			once.Do(func() { close(errc) })
		}, cfg)
		mc.SetLogger(log.New())
		if err := mc.Start(); err != nil {
			t.Fatalf("harness: %v", err)
		}
		// the peer: writes everything, then waits a moment and closes; whatever the node sends back is discarded
		go func() {
			buf := make([]byte, 4096)
			for {
				if _, err := client.Read(buf); err != nil {
					return
				}
			}
		}()
		wrote := make(chan struct{})
		go func() {
			defer close(wrote)
			_ = client.SetWriteDeadline(time.Now().Add(hangGuard))
			_, _ = client.Write(raw)
		}()
		hung := false
		select {
		case <-wrote:
		case <-errc:
		case <-time.After(hangGuard):
			hung = true
		}
		// All bytes have been handed over (or the connection gave up). Closing our end now could make a pong reply fail
		// first and mask the verdict on the bytes still buffered, so: where the model demands a refusal, wait for the
		// refusal or for the sentinel behind the offending packet; otherwise give the connection a moment.
		sentinelDelivered := false
		if mustReject {
			select {
			case <-errc:
			case <-sentc:
				sentinelDelivered = true
			case <-time.After(hangGuard):
				hung = true
			}
		} else {
			select {
			case <-errc:
			case <-time.After(5 * time.Millisecond):
			}
		}
		// closing makes recvRoutine see EOF, so onError always fires
		_ = client.Close()
		select {
		case <-errc:
		case <-time.After(hangGuard):
			hung = true
		}
		_ = mc.Stop()
		used := totalAlloc() - a0
		if hung {
			t.Fatalf("harness: MConnection neither consumed %d bytes nor reported an error within %v (inconclusive)\n%s", len(raw), hangGuard, trunc(text(), 1500))
		}
		mu.Lock()
		e := fmt.Sprint(onErr)
		mu.Unlock()
		classes := []string{"mconn"}
		for _, d := range descs {
			classes = append(classes, "mconn:"+strings.SplitN(d, "(", 2)[0])
		}
		if received.Load() > 0 {
			classes = append(classes, "mconn:delivered-a-message")
		}
		consumed := strings.Contains(e, "EOF") || strings.Contains(e, "closed pipe")
		if consumed {
			classes = append(classes, "mconn:consumed-everything")
		} else {
			classes = append(classes, "mconn:rejected")
		}
		if mustReject {
			classes = append(classes, "mconn:model-says-must-reject")
			if sentinelDelivered {
				if ev.Violation(t, "mconn.over-capacity-not-refused", text(), "an unterminated message grew past RecvMessageCapacity and the peer was not dropped: the message sent behind the offending packet was delivered (connection ended with %q after consuming all %d bytes)", e, len(raw)) {
					return
				}
			}
		}
		if strings.HasPrefix(e, "recovered from panic") {
			if ev.Violation(t, "panic:lib/p2p/conn.(*MConnection).recvRoutine", text(), "recvRoutine panicked on peer bytes: %s", e) {
				return
			}
		}
		// framing: a packet can be 3 bytes long and costs the reader a fixed ~1.2 KB (packet struct, log fields), so the
		// per-byte allowance is larger here; what the bound is after is an allocation driven by a length PREFIX
		if bound := uint64(allocSlack + framingAllocPerByte*len(raw)); used > bound {
			if ev.Violation(t, "alloc.mconn.recv", text(), "MConnection allocated %d bytes for %d bytes from the peer (bound %d)", used, len(raw), bound) {
				return
			}
		}
		if recvBytes.Load() > int64(len(raw)) {
			ev.Violation(t, "mconn.delivered-more-than-sent", text(), "%d message bytes delivered for %d bytes on the wire", recvBytes.Load(), len(raw))
		}
		ev.Case(len(descs) > 1 || descs[0] != "pong", text(), classes...)
		if ev.WantSample("mconn") {
			ev.Sample("mconn", trunc(strings.Join(descs, " | ")+" -> "+e, 300))
		}
	})
}
