package c18

import (
	"fmt"
	"testing"
	"time"

	"pgregory.net/rapid"

	bc "github.com/kardiachain/go-kardia/blockchain"
	"github.com/kardiachain/go-kardia/configs"
	"github.com/kardiachain/go-kardia/lib/log"
	"github.com/kardiachain/go-kardia/lib/p2p"
	bcproto "github.com/kardiachain/go-kardia/proto/kardiachain/blockchain"
	kproto "github.com/kardiachain/go-kardia/proto/kardiachain/types"

	"verifharness/internal/ev"
	"verifharness/internal/netsim"
)

// bsWorld: a source network with a real chain, and a fresh node (same genesis, empty store) that block-syncs.
type bsWorld struct {
	s      *netsim.Sim
	H      uint64                   // blocks 1..H exist on the source
	blocks map[uint64]*kproto.Block // genuine blocks
	fresh  *netsim.Node
}

var bsw *bsWorld

const bsChainHeight = 4

func getBSWorld(t ev.TB) *bsWorld {
	if bsw == nil {
		s, err := netsim.NewSim([]int64{15, 15, 15, 15}, nil, func(int) netsim.NodeOpts { return netsim.NodeOpts{Cache: leanCache()} })
		if err != nil {
			t.Fatalf("harness: %v", err)
		}
		s.Start()
		if ok, _, why := s.SyncRun(s.Correct, bsChainHeight+1, 300); !ok {
			t.Fatalf("harness: could not build the chain: %s", why)
		}
		w := &bsWorld{s: s, H: bsChainHeight, blocks: map[uint64]*kproto.Block{}}
		for h := uint64(1); h <= w.H; h++ {
			b := s.Nodes[0].BOps.LoadBlock(h)
			if b == nil {
				t.Fatalf("harness: source has no block %d", h)
			}
			pb, err := b.ToProto()
			if err != nil {
				t.Fatalf("harness: %v", err)
			}
			w.blocks[h] = pb
		}
		bsw = w
	}
	if bsw.fresh == nil {
		nd, err := netsim.NewNode(99, bsw.s.G, netsim.Key(50), netsim.NodeOpts{Cache: leanCache()})
		if err != nil {
			t.Fatalf("harness: %v", err)
		}
		bsw.fresh = nd
		ev.Class("blocksync:fresh-node-built")
	}
	return bsw
}

func closeBSWorld() {
	if bsw != nil {
		if bsw.fresh != nil {
			bsw.fresh.Close()
		}
		bsw.s.Close()
		bsw = nil
	}
}

func cloneBlock(b *kproto.Block) *kproto.Block {
	out := new(kproto.Block)
	if err := out.Unmarshal(mustMarshal(b)); err != nil {
		panic(err)
	}
	return out
}

func encBC(sum interface{}) []byte {
	m := &bcproto.Message{}
	switch x := sum.(type) {
	case *bcproto.BlockRequest:
		m.Sum = &bcproto.Message_BlockRequest{BlockRequest: x}
	case *bcproto.NoBlockResponse:
		m.Sum = &bcproto.Message_NoBlockResponse{NoBlockResponse: x}
	case *bcproto.BlockResponse:
		m.Sum = &bcproto.Message_BlockResponse{BlockResponse: x}
	case *bcproto.StatusRequest:
		m.Sum = &bcproto.Message_StatusRequest{StatusRequest: x}
	case *bcproto.StatusResponse:
		m.Sum = &bcproto.Message_StatusResponse{StatusResponse: x}
	default:
		panic(fmt.Sprintf("encBC %T", sum))
	}
	return mustMarshal(m)
}

// mutateBlock applies field-level mutations to a genuine block.
func mutateBlock(t *rapid.T, w *bsWorld, b *kproto.Block) string {
	desc := ""
	for i, n := 0, weighted(t, "blk.nm", 30, 45, 25); i < n; i++ {
		switch weighted(t, "blk.m", 8, 8, 6, 6, 6, 6, 6, 6, 6, 6, 6, 6, 6, 5, 5, 4) {
		case 0:
			b.LastCommit = nil
			desc += "+no-lastcommit"
		case 1:
			b.Header.Height = genU64Near(t, "blk.h", b.Header.Height)
			desc += "+height"
		case 2:
			if b.LastCommit != nil {
				b.LastCommit.Signatures = nil
				desc += "+no-signatures"
			}
		case 3:
			if b.LastCommit != nil && len(b.LastCommit.Signatures) > 0 {
				k := spread(t, "blk.sig", len(b.LastCommit.Signatures))
				sg := &b.LastCommit.Signatures[k]
				switch spread(t, "blk.sigm", 6) {
				case 0:
					sg.BlockIdFlag = kproto.BlockIDFlag(pick(t, "blk.flag", 0, 1, 2, 3, 4, -1, 255))
				case 1:
					sg.Signature = genSigGarbage(t, "blk.gsig")
				case 2:
					sg.ValidatorAddress = pick(t, "blk.addr", []byte(nil), make([]byte, 19), make([]byte, 21))
				case 3:
					sg.Timestamp = genTime(t, "blk.ts")
				case 4:
					*sg = kproto.CommitSig{}
				case 5:
					b.LastCommit.Signatures = append(b.LastCommit.Signatures, *sg)
				}
				desc += "+commitsig"
			}
		case 4:
			if b.LastCommit != nil {
				b.LastCommit.Height = genU64Near(t, "blk.lch", b.LastCommit.Height)
				desc += "+lastcommit.height"
			}
		case 5:
			if b.LastCommit != nil {
				b.LastCommit.Round = genU32Near(t, "blk.lcr", b.LastCommit.Round)
				desc += "+lastcommit.round"
			}
		case 6:
			if b.LastCommit != nil {
				b.LastCommit.BlockID.PartSetHeader.Total = genTotal(t, "blk.lct", b.LastCommit.BlockID.PartSetHeader.Total, 1<<32-1)
				b.LastCommit.BlockID.Hash = genHash(t, "blk.lchash", b.LastCommit.BlockID.Hash)
				desc += "+lastcommit.blockid"
			}
		case 7:
			b.Data.Txs = append(b.Data.Txs, pick(t, "blk.tx", []byte{}, []byte{0xc0}, []byte{0xff, 0xff}, make([]byte, 100)))
			desc += "+tx"
		case 8:
			b.Header.NumTxs = pick(t, "blk.numtxs", uint64(0), 1, 1<<31, 1<<63, ^uint64(0))
			desc += "+numtxs"
		case 9:
			h := pick(t, "blk.which", &b.Header.LastCommitHash, &b.Header.DataHash, &b.Header.ValidatorsHash, &b.Header.NextValidatorsHash, &b.Header.ConsensusHash, &b.Header.AppHash, &b.Header.EvidenceHash, &b.Header.LastBlockId.Hash)
			*h = genHash(t, "blk.hash", *h)
			desc += "+hash"
		case 10:
			b.Header.ProposerAddress = pick(t, "blk.prop", []byte(nil), make([]byte, 19), make([]byte, 20), make([]byte, 21))
			desc += "+proposer"
		case 11:
			b.Header.Time = genTime(t, "blk.time")
			desc += "+time"
		case 12:
			b.Evidence.Evidence = append(b.Evidence.Evidence, kproto.Evidence{})
			desc += "+empty-evidence"
		case 13:
			b.Header.ChainID = pick(t, "blk.chain", "", "other", string(make([]byte, 100)))
			desc += "+chainid"
		case 14:
			b.Header.GasLimit = pick(t, "blk.gas", uint64(0), 1, 1<<63, ^uint64(0))
			desc += "+gaslimit"
		case 15:
			*b = kproto.Block{}
			desc += "+empty"
		}
	}
	if desc == "" {
		desc = "genuine"
	}
	return desc
}

func (w *bsWorld) genBSMessage(t *rapid.T, k int) wire {
	ch := bc.BlockchainChannel
	switch k {
	case 0:
		h := genU64Near(t, "sr.h", w.H)
		base := pick(t, "sr.base", uint64(0), 0, 1, 1, h, h+1, 1<<63)
		return wire{ch: ch, desc: "StatusResponse", data: encBC(&bcproto.StatusResponse{Height: h, Base: base})}
	case 1:
		h := uint64(1 + spread(t, "br.h", int(w.H)))
		b := cloneBlock(w.blocks[h])
		d := mutateBlock(t, w, b)
		var pb *kproto.Block = b
		if weighted(t, "br.nil", 95, 5) == 1 {
			pb, d = nil, "nil-block"
		}
		return wire{ch: ch, desc: "BlockResponse/" + d, data: encBC(&bcproto.BlockResponse{Block: pb})}
	case 2:
		return wire{ch: ch, desc: "BlockRequest", data: encBC(&bcproto.BlockRequest{Height: genU64Near(t, "bq.h", w.H)})}
	case 3:
		return wire{ch: ch, desc: "NoBlockResponse", data: encBC(&bcproto.NoBlockResponse{Height: genU64Near(t, "nb.h", 1)})}
	case 4:
		return wire{ch: ch, desc: "StatusRequest", data: encBC(&bcproto.StatusRequest{})}
	}
	return wire{ch: ch, desc: "empty-message", data: mustMarshal(&bcproto.Message{})}
}

// bsRun holds one block-sync reactor under test.
type bsRun struct {
	t       ev.TB
	rep     reporter
	r       *bc.BlockchainReactor
	sw      *p2p.Switch
	events  chan bc.VerifC18Event
	probes  []lockProbe
	text    func() string
	steps   int
	done    bool // pcFinished seen
	stopped bool // oracle said abandon
	applied int
	classes map[string]bool
}

func (b *bsRun) call(stage string, n int, f func()) bool {
	r := guarded(f)
	if !oracle(b.t, b.rep, stage, "alloc.blocksync."+stage, r, n, b.probes, b.text) {
		b.stopped = true
	}
	return !b.stopped
}

// feed routes one event the way demux does: reactor events and ticks to the scheduler, scheduler output to the
// processor / the peer, processor output back to the scheduler.
func (b *bsRun) sched(e bc.VerifC18Event, n int) {
	if b.stopped || b.done || b.steps > 200 {
		return
	}
	b.steps++
	if h, ok := bc.VerifC18StatusHeight(e); ok {
		b.r.VerifC18SetMaxPeerHeight(h)
	}
	var out bc.VerifC18Event
	if !b.call(fmt.Sprintf("scheduler.handle(%T)", e), n, func() { out, _ = b.r.VerifC18Scheduler(e) }) {
		return
	}
	switch name := fmt.Sprintf("%T", out); name {
	case "blockchain.scBlockReceived", "blockchain.scPeerError", "blockchain.scFinishedEv":
		b.classes["sched:"+name[len("blockchain."):]] = true
		b.proc(out, n)
	case "blockchain.scBlockRequest":
		b.classes["sched:scBlockRequest"] = true
		b.call("io.sendBlockRequest", n, func() { _ = b.r.VerifC18SendBlockRequest(out) })
	}
}

func (b *bsRun) proc(e bc.VerifC18Event, n int) {
	if b.stopped || b.done {
		return
	}
	b.steps++
	var out bc.VerifC18Event
	if !b.call(fmt.Sprintf("processor.handle(%T)", e), n, func() { out, _ = b.r.VerifC18Processor(e) }) {
		return
	}
	if h, ok := bc.VerifC18Processed(out); ok {
		b.applied++
		b.classes["proc:block-applied"] = true
		b.r.VerifC18SetSyncHeight(h)
		b.sched(out, n)
		return
	}
	if _, _, ok := bc.VerifC18Finished(out); ok {
		b.classes["proc:finished"] = true
		b.done = true
		return
	}
	if fmt.Sprintf("%T", out) == "blockchain.pcBlockVerificationFailure" {
		b.classes["proc:verification-failure"] = true
		b.sched(out, n)
	}
}

// settle drains what Receive queued and fires the reactor's own tickers a few times.
func (b *bsRun) settle(n int) {
	drain := func() {
		for b.events != nil {
			select {
			case e := <-b.events:
				b.sched(e, n)
			default:
				return
			}
		}
	}
	drain()
	if b.events == nil {
		return
	}
	for i := 0; i < 4 && !b.stopped && !b.done; i++ {
		b.sched(bc.VerifC18TrySchedule(time.Now()), n)
		b.proc(bc.VerifC18ProcessBlock(), n)
		drain()
	}
}

// bsExecute runs the given messages of one peer against a fresh block-sync reactor (syncing: around the fresh node
// with events flowing to the real scheduler/processor; serving: around a node with a chain).
func bsExecute(t ev.TB, w *bsWorld, syncing bool, ws []wire) (run *bsRun, classes []string, nontrivial bool) {
	// an allocation alarm is confirmed by executing the case again (new reactor each time; the fresh node is rebuilt
	// whenever a pass advanced its store)
	passes := 0
	text := func() string { return run.text() }
	confirmAlloc(evReporter(t), text, func(rep reporter) {
		if passes > 0 {
			w = getBSWorld(t)
			acct = newAccount(true)
		}
		r, c, n := bsExecuteOnce(t, rep, w, syncing, ws)
		if passes == 0 {
			run, classes, nontrivial = r, c, n
		}
		passes++
	})
	return run, classes, nontrivial
}

func bsExecuteOnce(t ev.TB, rep reporter, w *bsWorld, syncing bool, ws []wire) (run *bsRun, classes []string, nontrivial bool) {
	nd := w.s.Nodes[0]
	if syncing {
		nd = w.fresh
	}
	h0 := nd.BOps.Height()
	fs := configs.DefaultFastSyncConfig()
	r := bc.NewBlockchainReactor(nd.CS.VerifState(), nd.Exec, nd.BOps, fs)
	sw := newSwitch(map[string]p2p.Reactor{"BLOCKCHAIN": r})
	r.SetLogger(log.New())
	r.VerifC18UseSwitchReporter()
	run = &bsRun{t: t, rep: rep, r: r, sw: sw, classes: map[string]bool{},
		probes: []lockProbe{probeRW("blockchain.reactor.mtx", &r.VerifC18Mtx().RWMutex)}}
	if syncing {
		run.events = make(chan bc.VerifC18Event, 1000)
		r.VerifC18SetEvents(run.events)
	}
	peer := newPeer()
	if err := sw.VerifC18AddPeer(peer); err != nil {
		t.Fatalf("harness: %v", err)
	}
	mode := "serving"
	if syncing {
		mode = "syncing"
	}
	run.text = func() string { return "blocksync mode=" + mode + " " + wiresText(ws) }
	classes = []string{"blocksync", "blocksync:" + mode}
	ok := run.call("AddPeer", 0, func() { r.AddPeer(peer) })
	if ok {
		run.settle(0)
	}
	for i, wr := range ws {
		if run.stopped {
			break
		}
		var dm interface{}
		var derr error
		ev.Try(func() {
			pm, err := bc.DecodeMsg(wr.data)
			if err == nil {
				err = bc.ValidateMsg(pm)
			}
			dm, derr = pm, err
		})
		accepted := dm != nil && derr == nil
		cl := "blocksync:msg:" + descClass(wr.desc)
		classes = append(classes, cl)
		if accepted {
			classes = append(classes, cl+":accepted")
			if wr.desc != "BlockResponse/genuine" && wr.desc != "StatusRequest" {
				nontrivial = true
			}
		}
		wr := wr
		if !run.call(fmt.Sprintf("blocksync Receive(message %d)", i), len(wr.data), func() { r.Receive(wr.ch, peer, wr.data) }) {
			break
		}
		run.settle(0)
		if !peer.IsRunning() {
			classes = append(classes, "blocksync:peer-dropped")
			break
		}
	}
	if peer.IsRunning() {
		run.call("StopPeerGracefully", 0, func() { sw.StopPeerGracefully(peer) })
		run.settle(0)
	}
	for c := range run.classes {
		classes = append(classes, "blocksync:"+c)
	}
	if syncing && nd.BOps.Height() != h0 {
		classes = append(classes, "blocksync:store-advanced")
		w.fresh.Close()
		w.fresh = nil
	}
	return run, classes, nontrivial
}

// TestBlockSync: 1-5 block-sync messages to a reactor that is either syncing (fresh node, events flowing to the real
// scheduler and processor, driven by the harness instead of demux) or serving (node with a chain).
func TestBlockSync(t *testing.T) {
	defer closeBSWorld()
	rapid.Check(t, func(t *rapid.T) {
		w := getBSWorld(t)
		acct = newAccount(false)
		syncing := weighted(t, "mode", 70, 30) == 0
		// the messages
		var ws []wire
		if weighted(t, "template", 45, 55) == 1 && syncing {
			// the peer announces a chain and answers the requests it gets
			ws = append(ws, wire{ch: bc.BlockchainChannel, desc: "StatusResponse", data: encBC(&bcproto.StatusResponse{Height: pick(t, "tp.h", w.H, w.H, w.H-1, w.H+3, 2), Base: pick(t, "tp.base", uint64(0), 1)})})
			for i, n := 0, 1+spread(t, "tp.n", 4); i < n; i++ {
				b := cloneBlock(w.blocks[uint64(1+(i%int(w.H)))])
				d := "genuine"
				if weighted(t, "tp.mut", 45, 55) == 1 {
					d = mutateBlock(t, w, b)
				}
				ws = append(ws, wire{ch: bc.BlockchainChannel, desc: "BlockResponse/" + d, data: encBC(&bcproto.BlockResponse{Block: b})})
			}
		} else {
			for i, n := 0, 1+spread(t, "n", 4); i < n; i++ {
				var wr wire
				switch weighted(t, "kind", 60, 15, 10, 8, 7) {
				case 0:
					wr = w.genBSMessage(t, weighted(t, "type", 20, 45, 15, 10, 5, 5))
				case 1:
					s := w.genBSMessage(t, weighted(t, "type", 20, 45, 15, 10, 5, 5))
					wr = wire{ch: s.ch, data: mutate(t, s.data), desc: "mutated"}
				case 2:
					s := w.genBSMessage(t, weighted(t, "type", 20, 45, 15, 10, 5, 5))
					wr = wire{ch: s.ch, data: unknownField(t, s.data), desc: "unknown-field"}
				case 3:
					wr = wire{ch: bc.BlockchainChannel, data: randomBytes(t), desc: "random"}
				case 4:
					wr = wire{ch: pick(t, "ch", byte(0x20), 0x00, 0xff), data: w.genBSMessage(t, 0).data, desc: "other-channel"}
				}
				ws = append(ws, wr)
			}
		}
		run, classes, nontrivial := bsExecute(t, w, syncing, ws)
		mode := "serving"
		if syncing {
			mode = "syncing"
		}
		ev.Case(nontrivial, run.text(), classes...)
		if nontrivial {
			for _, wr := range ws {
				if cl := "blocksync:" + descClass(wr.desc); ev.WantSample(cl) {
					ev.Sample(cl, trunc(mode+" "+wr.desc+" "+wiresText([]wire{wr}), 300))
				}
			}
		}
	})
}
