package c18

import (
	"fmt"
	"os"
	"runtime"
	"strings"
	"testing"
	"time"
)

func vm() string {
	b, _ := os.ReadFile("/proc/self/status")
	var out []string
	for _, l := range strings.Split(string(b), "\n") {
		if strings.HasPrefix(l, "VmSize") || strings.HasPrefix(l, "VmRSS") || strings.HasPrefix(l, "Threads") {
			out = append(out, strings.Join(strings.Fields(l), " "))
		}
	}
	return strings.Join(out, " | ")
}

func TestDiagRebuild(t *testing.T) {
	for i := 0; i < 60; i++ {
		t0 := time.Now()
		v, err := buildVictim(scenario{uint64(1 + i%2), scenarioKinds[i%len(scenarioKinds)]})
		if err != nil {
			t.Fatal(err)
		}
		d := time.Since(t0)
		c := newCtx(v)
		t1 := time.Now()
		v.close()
		if i%5 == 0 {
			runtime.GC()
			fmt.Printf("%d %s build=%v close=%v seeds=%d goroutines=%d %s\n", i, v.state, d, time.Since(t1), len(c.seeds), runtime.NumGoroutine(), vm())
		}
	}
}
