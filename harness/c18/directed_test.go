package c18

import (
	"fmt"
	"os"
	"os/exec"
	"strings"
	"testing"

	"github.com/gogo/protobuf/proto"

	bc "github.com/kardiachain/go-kardia/blockchain"
	"github.com/kardiachain/go-kardia/configs"
	"github.com/kardiachain/go-kardia/consensus"
	"github.com/kardiachain/go-kardia/lib/common"
	"github.com/kardiachain/go-kardia/lib/log"
	"github.com/kardiachain/go-kardia/lib/p2p"
	bcproto "github.com/kardiachain/go-kardia/proto/kardiachain/blockchain"
	kcons "github.com/kardiachain/go-kardia/proto/kardiachain/consensus"
	kbits "github.com/kardiachain/go-kardia/proto/kardiachain/libs/bits"
	prototx "github.com/kardiachain/go-kardia/proto/kardiachain/txpool"
	kproto "github.com/kardiachain/go-kardia/proto/kardiachain/types"
	"github.com/kardiachain/go-kardia/types"

	"verifharness/internal/ev"
)

func mustMarshal(m proto.Message) []byte {
	bz, err := proto.Marshal(m)
	if err != nil {
		panic(err)
	}
	return bz
}

func encCons(sum interface{}) []byte {
	m := &kcons.Message{}
	switch x := sum.(type) {
	case *kcons.NewRoundStep:
		m.Sum = &kcons.Message_NewRoundStep{NewRoundStep: x}
	case *kcons.NewValidBlock:
		m.Sum = &kcons.Message_NewValidBlock{NewValidBlock: x}
	case *kcons.Proposal:
		m.Sum = &kcons.Message_Proposal{Proposal: x}
	case *kcons.ProposalPOL:
		m.Sum = &kcons.Message_ProposalPol{ProposalPol: x}
	case *kcons.BlockPart:
		m.Sum = &kcons.Message_BlockPart{BlockPart: x}
	case *kcons.Vote:
		m.Sum = &kcons.Message_Vote{Vote: x}
	case *kcons.HasVote:
		m.Sum = &kcons.Message_HasVote{HasVote: x}
	case *kcons.VoteSetMaj23:
		m.Sum = &kcons.Message_VoteSetMaj23{VoteSetMaj23: x}
	case *kcons.VoteSetBits:
		m.Sum = &kcons.Message_VoteSetBits{VoteSetBits: x}
	default:
		panic(fmt.Sprintf("encCons: %T", sum))
	}
	return mustMarshal(m)
}

// lastCommitRound is what an honest peer at the victim's height reports in NewRoundStep.
func (v *victim) lastCommitRound() uint32 {
	if v.nd.CS.LastCommit != nil {
		return v.nd.CS.LastCommit.GetRound()
	}
	return 0
}

func (v *victim) roundStepWire(h uint64, r uint32, step uint32) wire {
	lcr := uint32(0)
	if h > 1 {
		lcr = 1
		if h == v.nd.CS.Height {
			lcr = v.lastCommitRound()
		}
	}
	return wire{ch: consensus.StateChannel, desc: "NewRoundStep",
		data: encCons(&kcons.NewRoundStep{Height: h, Round: r, Step: step, SecondsSinceStartTime: 1, LastCommitRound: lcr})}
}

// ---------------------------------------------------------------- D12: bit array whose Bits and Elems disagree

const keyD12 = "panic:lib/common.(*BitArray).and"

// d12Wires is the minimal input: the peer says it is at the victim's height/round, then announces a "valid block"
// whose part bit array claims Total bits and carries no words.
func d12Wires(v *victim) []wire {
	cs := v.nd.CS
	hdr := cs.ProposalBlockParts.Header()
	return []wire{
		v.roundStepWire(cs.Height, cs.Round, 3),
		{ch: consensus.StateChannel, desc: "NewValidBlock{bits without words}", data: encCons(&kcons.NewValidBlock{Height: cs.Height, Round: cs.Round,
			BlockPartSetHeader: kproto.PartSetHeader{Total: hdr.Total, Hash: hdr.Hash.Bytes()}, BlockParts: &kbits.BitArray{Bits: int64(hdr.Total), Elems: nil}})},
	}
}

func TestKnownD12BitArray(t *testing.T) {
	v, err := buildVictim(scenario{1, "prevote"})
	if err != nil {
		t.Fatalf("harness: %v", err)
	}
	defer v.close()
	if v.nd.CS.ProposalBlockParts == nil || !v.nd.CS.ProposalBlockParts.IsComplete() {
		t.Fatalf("harness: victim holds no complete proposal (%s)", v.state)
	}
	ws := d12Wires(v)
	text := func() string { return "scn=" + v.sc.String() + " " + wiresText(ws) }
	var c collector
	info := v.runSequence(t, c.report, ws, text)
	ev.Case(true, text(), "directed", "directed:D12")
	ev.Sample("directed:D12", fmt.Sprintf("NewRoundStep(h,r) then NewValidBlock{Total:%d, BlockParts{Bits:%d, Elems:[]}}: decoded=%v dropped=%v keys=%v",
		v.nd.CS.ProposalBlockParts.Total(), v.nd.CS.ProposalBlockParts.Total(), info.decoded, info.dropped, c.keys))
	reproduced := c.has(keyD12)
	if ev.Known(keyD12) {
		ev.KnownReproduced(keyD12, reproduced)
		return
	}
	for i, k := range c.keys {
		ev.Violation(t, k, text(), "%s", c.msgs[i])
	}
	// regression form (after the fix): the message must be refused at the door and the peer dropped
	if info.decoded[1] {
		t.Logf("note: the mismatched bit array still decodes; the gossip stage did not panic")
	}
}

// TestD12KillsProcess shows the production consequence with the reactor's own AddPeer (which starts the gossip
// routines on goroutines without recover): a child process that receives the two messages dies. Runs only while D12 is
// a listed known finding; afterwards the in-process oracle above is the regression test.
func TestD12KillsProcess(t *testing.T) {
	if os.Getenv("VERIF_C18_CHILD") == "d12" {
		v, err := buildVictim(scenario{1, "prevote"})
		if err != nil {
			fmt.Println("CHILD-HARNESS-ERROR", err)
			os.Exit(3)
		}
		peer := newPeer()
		v.conR.InitPeer(peer)
		_ = v.sw.VerifC18AddPeer(peer)
		v.conR.AddPeer(peer) // go gossipDataRoutine / gossipVotesRoutine / queryMaj23Routine
		for _, w := range d12Wires(v) {
			v.conR.Receive(w.ch, peer, w.data)
		}
		fmt.Println("CHILD-RECEIVED peer running:", peer.IsRunning())
		waitFor(func() bool { return false }, 3000)
		fmt.Println("CHILD-SURVIVED")
		os.Exit(0)
	}
	if !ev.Known(keyD12) {
		t.Skip("D12 is not a listed known finding; TestKnownD12BitArray is its regression test")
	}
	cmd := exec.Command(os.Args[0], "-test.run", "^TestD12KillsProcess$")
	cmd.Env = append(os.Environ(), "VERIF_C18_CHILD=d12", "VERIF_EV_OUT=", "VERIF_INFLIGHT=")
	out, err := cmd.CombinedOutput()
	s := string(out)
	died := err != nil && strings.Contains(s, "BitArray).and") && strings.Contains(s, "gossipDataRoutine") && !strings.Contains(s, "CHILD-SURVIVED")
	if strings.Contains(s, "CHILD-HARNESS-ERROR") {
		t.Fatalf("harness: child could not build the victim:\n%s", trunc(s, 3000))
	}
	ev.Sample("directed:D12", fmt.Sprintf("child process with the reactor's own AddPeer goroutines: died=%v (%v)", died, err))
	t.Logf("child died=%v err=%v", died, err)
	if !died {
		t.Logf("child output:\n%s", trunc(s, 3000))
	}
}

func waitFor(cond func() bool, ms int) {
	for i := 0; i < ms && !cond(); i++ {
		sleepMs(1)
	}
}

// ---------------------------------------------------------------- D10: proposal with an absurd part count

const keyD10 = "alloc.proposal-partset-total"

func (v *victim) proposerIndex() int {
	addr := v.nd.CS.Validators.GetProposer().Address
	for i := range v.s.Keys {
		if v.s.Addr(i) == addr {
			return i
		}
	}
	return -1
}

func proposalWire(p *types.Proposal) wire {
	return wire{ch: consensus.DataChannel, desc: "Proposal", data: encCons(&kcons.Proposal{Proposal: *p.ToProto()})}
}

func TestKnownD10ProposalTotal(t *testing.T) {
	v, err := buildVictim(scenario{1, "propose"})
	if err != nil {
		t.Fatalf("harness: %v", err)
	}
	defer v.close()
	cs := v.nd.CS
	pi := v.proposerIndex()
	if pi < 0 || pi == v.V || cs.Proposal != nil {
		t.Fatalf("harness: scenario not usable: proposer %d victim %d proposal %v", pi, v.V, cs.Proposal)
	}
	id := types.BlockID{Hash: common.BytesToHash([]byte{1}), PartsHeader: types.PartSetHeader{Total: 1 << 26, Hash: common.BytesToHash([]byte{2})}}
	p := v.s.SignProposal(pi, cs.Height, cs.Round, 0, id)
	ws := []wire{proposalWire(p)}
	text := func() string { return "scn=" + v.sc.String() + " " + wiresText(ws) }
	var c collector
	info := v.runSequence(t, c.report, ws, text)
	ev.Case(true, text(), "directed", "directed:D10")
	ev.Sample("directed:D10", fmt.Sprintf("%d-byte proposal for (%d,%d) signed by the round's proposer with PartSetHeader.Total=2^26: decoded=%v queued=%d keys=%v msgs=%v",
		len(ws[0].data), cs.Height, cs.Round, info.decoded, info.queued, c.keys, c.msgs))
	reproduced := c.has(keyD10)
	if ev.Known(keyD10) {
		ev.KnownReproduced(keyD10, reproduced)
		return
	}
	for i, k := range c.keys {
		ev.Violation(t, k, text(), "%s", c.msgs[i])
	}
}

// ---------------------------------------------------------------- BitArray.Or with a shorter operand

const keyOr = "panic:lib/common.(*BitArray).Or"

// orWires: the peer is at the victim's height/round, any vote makes the reactor allocate the peer's vote bit arrays,
// then VoteSetBits for a block the victim holds prevotes for, with an EMPTY bit array - which is exactly what an honest
// node answers to a VoteSetMaj23 claim when it has no vote for that block.
func orWires(v *victim, id types.BlockID) []wire {
	cs := v.nd.CS
	c := newCtx(v)
	c.attacker = (v.V + 1) % len(v.s.Keys)
	vt := v.s.SignVote(c.attacker, v.nd, kproto.PrevoteType, cs.Height, cs.Round, types.BlockID{})
	return []wire{
		v.roundStepWire(cs.Height, cs.Round, 4),
		{ch: consensus.VoteChannel, desc: "Vote", data: encCons(&kcons.Vote{Vote: vt.ToProto()})},
		{ch: consensus.VoteSetBitsChannel, desc: "VoteSetBits{empty}", data: encCons(&kcons.VoteSetBits{Height: cs.Height, Round: cs.Round, Type: kproto.PrevoteType, BlockID: id.ToProto()})},
	}
}

func TestKnownBitArrayOr(t *testing.T) {
	v, err := buildVictim(scenario{2, "locked"})
	if err != nil {
		t.Fatalf("harness: %v", err)
	}
	defer v.close()
	cs := v.nd.CS
	if cs.LockedBlock == nil {
		t.Fatalf("harness: victim is not locked (%s)", v.state)
	}
	id := types.BlockID{Hash: cs.LockedBlock.Hash(), PartsHeader: cs.LockedBlockParts.Header()}
	ws := orWires(v, id)
	text := func() string { return "scn=" + v.sc.String() + " " + wiresText(ws) }
	var c collector
	info := v.runSequence(t, c.report, ws, text)
	ev.Case(true, text(), "directed", "directed:BitArray.Or")
	ev.Sample("directed:BitArray.Or", fmt.Sprintf("NewRoundStep(h,r), a prevote, VoteSetBits{h,r,prevote,<locked block>,Votes:{}}: decoded=%v dropped=%v keys=%v", info.decoded, info.dropped, c.keys))
	if ev.Known(keyOr) {
		ev.KnownReproduced(keyOr, c.has(keyOr))
		return
	}
	for i, k := range c.keys {
		ev.Violation(t, k, text(), "%s", c.msgs[i])
	}
}

// ---------------------------------------------------------------- precommit for height 0 at the initial height

const keyAddVoteNil = "panic:types.(*VoteSet).AddVote"

func TestKnownPrecommitHeightZero(t *testing.T) {
	v, err := buildVictim(scenario{1, "newheight"})
	if err != nil {
		t.Fatalf("harness: %v", err)
	}
	defer v.close()
	if v.nd.CS.Height != 1 || v.nd.CS.Step != 1 {
		t.Fatalf("harness: victim not in NewHeight of height 1 (%s)", v.state)
	}
	// no key needed: the signature only has to be non-empty for ValidateBasic
	ws := []wire{{ch: consensus.VoteChannel, desc: "Vote{precommit, height 0}", data: encCons(&kcons.Vote{Vote: &kproto.Vote{Type: kproto.PrecommitType, Height: 0, Round: 1,
		ValidatorAddress: make([]byte, 20), Signature: []byte{1}}})}}
	text := func() string { return "scn=" + v.sc.String() + " " + wiresText(ws) }
	var c collector
	info := v.runSequence(t, c.report, ws, text)
	ev.Case(true, text(), "directed", "directed:precommit-height-0")
	ev.Sample("directed:precommit-height-0", fmt.Sprintf("one %d-byte VoteMessage{precommit, Height 0, 1-byte signature} to a node in NewHeight of height 1: decoded=%v queued=%d keys=%v",
		len(ws[0].data), info.decoded, info.queued, c.keys))
	if ev.Known(keyAddVoteNil) {
		ev.KnownReproduced(keyAddVoteNil, c.has(keyAddVoteNil))
		return
	}
	for i, k := range c.keys {
		ev.Violation(t, k, text(), "%s", c.msgs[i])
	}
}

// ---------------------------------------------------------------- proposal with a POL round that has no vote set

const keyPOLRound = "panic:consensus.MsgToProto"

func TestKnownProposalPOLRound(t *testing.T) {
	v, err := buildVictim(scenario{1, "propose"})
	if err != nil {
		t.Fatalf("harness: %v", err)
	}
	defer v.close()
	cs := v.nd.CS
	pi := v.proposerIndex()
	if pi < 0 || pi == v.V || cs.Proposal != nil {
		t.Fatalf("harness: scenario not usable: proposer %d victim %d proposal %v", pi, v.V, cs.Proposal)
	}
	id := types.BlockID{Hash: common.BytesToHash([]byte{1}), PartsHeader: types.PartSetHeader{Total: 1, Hash: common.BytesToHash([]byte{2})}}
	p := v.s.SignProposal(pi, cs.Height, cs.Round, cs.Round+5, id)
	ws := []wire{proposalWire(p), v.roundStepWire(cs.Height, cs.Round, 3)}
	text := func() string { return "scn=" + v.sc.String() + " " + wiresText(ws) }
	var c collector
	info := v.runSequence(t, c.report, ws, text)
	ev.Case(true, text(), "directed", "directed:proposal-polround")
	ev.Sample("directed:proposal-polround", fmt.Sprintf("proposal for (%d,%d) signed by the round's proposer with POLRound=%d, then NewRoundStep(%d,%d) from a peer without the proposal: accepted=%v keys=%v",
		cs.Height, cs.Round, cs.Round+5, cs.Height, cs.Round, cs.Proposal != nil, c.keys))
	_ = info
	if ev.Known(keyPOLRound) {
		ev.KnownReproduced(keyPOLRound, c.has(keyPOLRound))
		return
	}
	for i, k := range c.keys {
		ev.Violation(t, k, text(), "%s", c.msgs[i])
	}
	if cs.Proposal != nil {
		ev.Violation(t, "proposal.polround-not-before-round.accepted", text(), "a proposal with POLRound %d >= Round %d was accepted", p.POLRound, p.Round)
	}
}

// ---------------------------------------------------------------- tx fetch callback for a peer that has left

const keyFetchGone = "panic:mainchain/tx_pool.(*peer).RequestTxs"

// TestKnownTxFetchPeerGone: the transaction fetcher retrieves announced hashes on goroutines of its own through the
// callback the reactor gave it (txR.fetchTx) and expects an error "in case of a request failure (e.g. peer
// disconnected)". A peer that announces hashes and leaves before that goroutine runs makes the callback dereference a
// nil peer - on a goroutine without recover. The callback is called here directly (under recover) with the id of a peer
// that has been removed, which is what the fetcher does in that interleaving.
func TestKnownTxFetchPeerGone(t *testing.T) {
	w := getTxWorld(t)
	defer closeTxWorld()
	peer := newPeer()
	_ = w.sw.VerifC18AddPeer(peer)
	w.txR.AddPeer(peer)
	h := common.BytesToHash([]byte("announced"))
	w.txR.Receive(0x30, peer, encTx(&prototx.PooledTransactionHashes{Hashes: [][]byte{h.Bytes()}}))
	w.sw.StopPeerGracefully(peer) // the peer disconnects: RemovePeer -> peers.Unregister + fetcher.Drop
	var err error
	acct = newAccount(true)
	r := guarded(func() { err = w.txR.VerifC18FetchTx(string(peer.ID()), []common.Hash{h}) })
	var c collector
	text := func() string { return "txpool fetch callback for a removed peer" }
	oracle(t, c.report, "txR.fetchTx (called by TxFetcher.scheduleFetches on its own goroutine)", "alloc.txpool.fetch", r, 32, w.probes, text)
	ev.Case(true, text(), "directed", "directed:tx-fetch-peer-gone")
	ev.Sample("directed:tx-fetch-peer-gone", fmt.Sprintf("announce one hash, disconnect, fetch callback runs afterwards: err=%v keys=%v", err, c.keys))
	if ev.Known(keyFetchGone) {
		ev.KnownReproduced(keyFetchGone, c.has(keyFetchGone))
		return
	}
	for i, k := range c.keys {
		ev.Violation(t, k, text(), "%s", c.msgs[i])
	}
	if err == nil && len(c.keys) == 0 {
		ev.Violation(t, "txpool.fetch-callback.no-error-for-gone-peer", text(), "fetchTx returned nil for a peer that has been removed; the fetcher then waits for a delivery that cannot come")
	}
}

// ---------------------------------------------------------------- D15 (fixed): block response that does not decode

const keyD15 = "lock-left-held:blockchain.reactor.mtx"

// TestFixedD15BlockResponseLock: block responses whose block does not convert (BlockFromProto fails in several ways) to
// a syncing block-sync reactor; afterwards the reactor's lock must be free (stage 5) - the writer that updates the sync
// height would otherwise block forever. Regression test of ae19df8.
func TestFixedD15BlockResponseLock(t *testing.T) {
	w := getBSWorld(t)
	defer closeBSWorld()
	bad := map[string]func(b *kproto.Block){
		"nil-block":            nil,
		"no-lastcommit":        func(b *kproto.Block) { b.LastCommit = nil },
		"short-validatorshash": func(b *kproto.Block) { b.Header.ValidatorsHash = b.Header.ValidatorsHash[:5] },
		"bad-commitsig-flag":   func(b *kproto.Block) { b.LastCommit.Signatures[0].BlockIdFlag = 9 },
		"empty":                func(b *kproto.Block) { *b = kproto.Block{} },
		"junk-tx":              func(b *kproto.Block) { b.Data.Txs = [][]byte{{0xff, 0xff}} },
	}
	for name, f := range bad {
		r := bc.NewBlockchainReactor(w.fresh.CS.VerifState(), w.fresh.Exec, w.fresh.BOps, configs.DefaultFastSyncConfig())
		sw := newSwitch(map[string]p2p.Reactor{"BLOCKCHAIN": r})
		r.SetLogger(log.New())
		events := make(chan bc.VerifC18Event, 100)
		r.VerifC18SetEvents(events)
		peer := newPeer()
		_ = sw.VerifC18AddPeer(peer)
		var pb *kproto.Block
		if f != nil {
			pb = cloneBlock(w.blocks[2])
			f(pb)
		}
		data := encBC(&bcproto.BlockResponse{Block: pb})
		probes := []lockProbe{probeRW("blockchain.reactor.mtx", &r.VerifC18Mtx().RWMutex)}
		text := func() string { return fmt.Sprintf("blocksync mode=syncing BlockResponse/%s 40:%x", name, data) }
		acct = nil
		var c collector
		res := guarded(func() { r.Receive(bc.BlockchainChannel, peer, data) })
		oracle(t, c.report, "blocksync Receive(BlockResponse/"+name+")", "alloc.blocksync.receive", res, len(data), probes, text)
		ev.Case(true, text(), "directed", "directed:D15")
		for i, k := range c.keys {
			ev.Violation(t, k, text(), "%s", c.msgs[i])
		}
	}
	ev.Sample("directed:D15", fmt.Sprintf("%d malformed block responses to a syncing reactor, reactor lock free after each", len(bad)))
}
