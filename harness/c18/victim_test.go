package c18

import (
	"fmt"
	"io"
	"time"

	"github.com/kardiachain/go-kardia/configs"
	"github.com/kardiachain/go-kardia/consensus"
	cstypes "github.com/kardiachain/go-kardia/consensus/types"
	"github.com/kardiachain/go-kardia/lib/p2p"
	"github.com/kardiachain/go-kardia/mainchain/blockchain"
	kproto "github.com/kardiachain/go-kardia/proto/kardiachain/types"
	"github.com/kardiachain/go-kardia/types"

	"verifharness/internal/netsim"
)

// A scenario names the point at which the victim node is stopped: the height it works on and what it has been
// starved of so far (the other three nodes keep running normally and hold everything the victim lacks).
type scenario struct {
	height uint64 // 1 = initial height (no LastCommit), 2 = a later height
	kind   string
}

// scenario kinds: what the victim does NOT receive at `height`, and where it is frozen.
var scenarioKinds = []string{
	"newheight",       // just moved to the height, round-0 timeout not fired
	"propose",         // in the propose step, nothing received
	"proposal-only",   // holds the signed proposal, no block part
	"prevote",         // complete block, own prevote cast, no other vote seen
	"polka-no-block",  // saw +2/3 prevotes for a block it never received
	"locked",          // locked on the block, own precommit cast, no precommit of others seen
	"commit-no-block", // +2/3 precommits for a block it does not hold: commit step, waiting for parts
	"lagging",         // the others committed the height (and the next) without it
}

func (sc scenario) String() string { return fmt.Sprintf("%s@h%d", sc.kind, sc.height) }

// victim is one simulated network with the consensus reactor wrapped around node V.
type victim struct {
	sc      scenario
	s       *netsim.Sim
	V       int // index of the wrapped node
	nd      *netsim.Node
	conR    *consensus.ConsensusManager
	sw      *p2p.Switch
	walEnc  *consensus.WALEncoder
	probes  []lockProbe
	uses    int
	fp      string
	state   string // class label: what state the freeze really produced
	evSize0 int
}

const victimIdx = 3

func msgKind(m consensus.Message) string {
	switch x := m.(type) {
	case *consensus.ProposalMessage:
		return "proposal"
	case *consensus.BlockPartMessage:
		return "part"
	case *consensus.VoteMessage:
		if x.Vote.Type == kproto.PrevoteType {
			return "prevote"
		}
		return "precommit"
	case *consensus.VoteSetMaj23Message:
		return "maj23"
	}
	return "other"
}

// buildVictim runs a 4-validator network (equal powers, all correct) up to the scenario's height and then drives that
// height with a delivery filter towards node V until the scenario's predicate holds on V.
func buildVictim(sc scenario) (*victim, error) {
	s, err := netsim.NewSim([]int64{15, 15, 15, 15}, nil, func(int) netsim.NodeOpts { return netsim.NodeOpts{Cache: leanCache()} })
	if err != nil {
		return nil, err
	}
	V := victimIdx
	s.Start()
	if sc.height > 1 {
		if ok, _, why := s.SyncRun(s.Correct, sc.height, 200); !ok {
			s.Close()
			return nil, fmt.Errorf("could not reach height %d: %s", sc.height, why)
		}
	}
	nd := s.Nodes[V]
	cs := nd.CS
	drop := map[string]bool{}
	var pred func() bool
	atH := func() bool { return cs.Height == sc.height }
	switch sc.kind {
	case "newheight":
		pred = func() bool { return atH() }
	case "propose":
		drop["proposal"], drop["part"], drop["prevote"], drop["precommit"], drop["maj23"] = true, true, true, true, true
		pred = func() bool { return atH() && cs.Step == cstypes.RoundStepPropose }
	case "proposal-only":
		drop["part"], drop["prevote"], drop["precommit"], drop["maj23"] = true, true, true, true
		pred = func() bool { return atH() && cs.Proposal != nil }
	case "prevote":
		drop["prevote"], drop["precommit"], drop["maj23"] = true, true, true
		pred = func() bool { return atH() && cs.Step == cstypes.RoundStepPrevote && cs.ProposalBlock != nil }
	case "polka-no-block":
		drop["proposal"], drop["part"], drop["precommit"] = true, true, true
		pred = func() bool { return atH() && cs.Step >= cstypes.RoundStepPrecommit }
	case "locked":
		drop["precommit"], drop["maj23"] = true, true
		pred = func() bool { return atH() && cs.LockedBlock != nil }
	case "commit-no-block":
		drop["proposal"], drop["part"] = true, true
		pred = func() bool { return atH() && cs.Step == cstypes.RoundStepCommit }
	case "lagging":
		drop["proposal"], drop["part"], drop["prevote"], drop["precommit"], drop["maj23"] = true, true, true, true, true
		pred = func() bool {
			return atH() && s.Nodes[0].CS.Height >= sc.height+2 && cs.Step >= cstypes.RoundStepPropose
		}
	default:
		s.Close()
		return nil, fmt.Errorf("unknown scenario kind %q", sc.kind)
	}
	if !pred() {
		old := s.Net.After
		s.Net.After = func() {
			if old != nil {
				old()
			}
			if pred() {
				s.Halted = true
			}
		}
		s.Filter = func(to, from int, m consensus.Message) bool { return to == V && drop[msgKind(m)] }
		s.SyncRun(s.Correct, sc.height+3, 12)
		s.Halted = false
		s.Filter = nil
		s.Net.After = old
	}
	// the reactor: waitSync keeps Start() from launching the consensus goroutines - the harness stays the only driver
	conR := consensus.NewConsensusManager(cs, &configs.FastSyncConfig{Enable: true})
	sw := newSwitch(map[string]p2p.Reactor{"CONSENSUS": conR})
	conR.SetLogger(sw.Logger)
	if err := conR.Start(); err != nil {
		s.Close()
		return nil, err
	}
	cfg := cs.VerifC18Config()
	cfg.PeerGossipSleepDuration = 200 * time.Microsecond
	cfg.PeerQueryMaj23SleepDuration = 200 * time.Microsecond
	v := &victim{sc: sc, s: s, V: V, nd: nd, conR: conR, sw: sw, walEnc: consensus.NewWALEncoder(io.Discard)}
	v.probes = []lockProbe{
		probeRW("consensus.ConsensusManager.mtx", conR.VerifC18Mtx()),
		probeRW("consensus.ConsensusState.mtx", cs.VerifC18Mtx()),
	}
	v.fp = v.fingerprint()
	v.state = fmt.Sprintf("%s:%s", sc.kind, stateClass(nd))
	return v, nil
}

// leanCache: no fastcache-backed caches (trie clean cache, snapshot tree). They are mmap'ed outside the Go heap and are
// not returned when a simulated node is closed; a shard rebuilds hundreds of networks. Caching does not change what a
// node computes.
func leanCache() *blockchain.CacheConfig {
	return &blockchain.CacheConfig{TrieCleanLimit: 0, TrieDirtyLimit: 256, TrieTimeLimit: 5 * time.Minute, SnapshotLimit: 0}
}

func stateClass(nd *netsim.Node) string {
	cs := nd.CS
	s := cs.Step.String()[len("RoundStep"):]
	if cs.Proposal != nil {
		s += "+proposal"
	}
	if cs.ProposalBlock != nil {
		s += "+block"
	} else if cs.ProposalBlockParts != nil {
		s += "+partset"
	}
	if cs.LockedBlock != nil {
		s += "+locked"
	}
	return s
}

func (v *victim) close() {
	_ = v.conR.Stop()
	v.s.Close()
}

// fingerprint is what decides whether a case changed the victim (it is then rebuilt before its next use, so that
// every case starts from a state that depends on the scenario only).
func (v *victim) fingerprint() string {
	cs := v.nd.CS
	pid := ""
	if cs.Proposal != nil {
		pid = netsim.ExactKey(cs.Proposal.POLBlockID)
	}
	ph := ""
	if cs.ProposalBlockParts != nil {
		ph = fmt.Sprintf("%v/%d", cs.ProposalBlockParts.Header(), cs.ProposalBlockParts.Count())
	}
	return fmt.Sprintf("%s prop=%s parts=%s lock=%d valid=%d commitR=%d ev=%d pendingTO=%v", netsim.Fingerprint(v.nd), pid, ph, cs.LockedRound, cs.ValidRound,
		cs.CommitRound, v.nd.EvPool.Size(), v.nd.Tick.Pending)
}

// knownIDs lists block ids that mean something to the victim at its height: the proposal it holds, candidates the
// other nodes hold, the id of the previous block.
func (v *victim) knownIDs() []types.BlockID {
	var ids []types.BlockID
	seen := map[string]bool{}
	add := func(id types.BlockID) {
		if k := netsim.ExactKey(id); !seen[k] {
			seen[k] = true
			ids = append(ids, id)
		}
	}
	for _, nd := range v.s.Nodes {
		cs := nd.CS
		if cs.Proposal != nil {
			add(cs.Proposal.POLBlockID)
		}
	}
	for _, c := range v.s.Cands[v.nd.CS.Height] {
		add(c.ID)
	}
	if h := v.nd.CS.Height; h > 1 {
		if m := v.nd.BOps.LoadBlockMeta(h - 1); m != nil {
			add(m.BlockID)
		}
	}
	return ids
}
