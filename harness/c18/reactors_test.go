package c18

import (
	"bytes"
	"fmt"
	"math/big"
	"path/filepath"
	"strings"
	"testing"
	"time"

	"pgregory.net/rapid"

	"github.com/kardiachain/go-kardia/lib/common"
	"github.com/kardiachain/go-kardia/lib/crypto"
	"github.com/kardiachain/go-kardia/lib/log"
	"github.com/kardiachain/go-kardia/lib/p2p"
	"github.com/kardiachain/go-kardia/lib/p2p/pex"
	"github.com/kardiachain/go-kardia/lib/rlp"
	"github.com/kardiachain/go-kardia/mainchain/tx_pool"
	ep "github.com/kardiachain/go-kardia/proto/kardiachain/evidence"
	kp2p "github.com/kardiachain/go-kardia/proto/kardiachain/p2p"
	prototx "github.com/kardiachain/go-kardia/proto/kardiachain/txpool"
	kproto "github.com/kardiachain/go-kardia/proto/kardiachain/types"
	"github.com/kardiachain/go-kardia/types"
	"github.com/kardiachain/go-kardia/types/evidence"

	"verifharness/internal/ev"
	"verifharness/internal/netsim"
)

// ---------------------------------------------------------------- a node with a short chain, shared by the three tests

type world struct {
	s  *netsim.Sim
	nd *netsim.Node
}

func newWorld(t ev.TB, height uint64) *world {
	s, err := netsim.NewSim([]int64{15, 15, 15, 15}, nil, func(int) netsim.NodeOpts { return netsim.NodeOpts{Cache: leanCache()} })
	if err != nil {
		t.Fatalf("harness: %v", err)
	}
	s.Start()
	if ok, _, why := s.SyncRun(s.Correct, height, 300); !ok {
		t.Fatalf("harness: could not reach height %d: %s", height, why)
	}
	return &world{s: s, nd: s.Nodes[0]}
}

// simpleRun feeds wires to one reactor's Receive with stages 1, 4 and 5 of the oracle.
//
// The allocation stage reads the process-wide allocation counter, so whatever a background goroutine of the node (pool
// loop, fetcher, an earlier case's aftermath) allocates while a call runs is charged to that call. An exceeded bound is
// therefore confirmed before it is reported: the same messages are fed again, twice, each time on a settled process,
// and only a bound that is exceeded every time is a finding (an allocation driven by the peer's bytes is; a burst in
// the background is not).
func simpleRun(t ev.TB, rep reporter, name string, recv func(byte, p2p.Peer, []byte), peer *tpeer, probes []lockProbe, ws []wire, text func() string) (abandoned, dropped bool) {
	run := func(r reporter) (bool, bool) {
		for i, w := range ws {
			w := w
			res := guarded(func() { recv(w.ch, peer, w.data) })
			if !oracle(t, r, fmt.Sprintf("%s Receive(message %d)", name, i), "alloc."+name+".receive", res, len(w.data), probes, text) {
				return true, false
			}
			if !peer.IsRunning() {
				return false, true
			}
		}
		return false, false
	}
	suspectKey, suspectMsg := "", ""
	hold := func(key, c, msg string) bool {
		if strings.HasPrefix(key, "alloc.") {
			suspectKey, suspectMsg = key, msg
			return true // abandon this pass; judged below
		}
		return rep(key, c, msg)
	}
	abandoned, dropped = run(hold)
	if suspectKey == "" {
		return abandoned, dropped
	}
	first := suspectMsg
	for again := 0; again < 2; again++ {
		acct = newAccount(true)
		suspectKey = ""
		run(func(key, c, msg string) bool {
			if strings.HasPrefix(key, "alloc.") {
				suspectKey, suspectMsg = key, msg
			}
			return true
		})
		if suspectKey == "" {
			ev.Class("alloc-bound-exceeded-once-not-when-fed-again")
			ev.Note("allocation bound exceeded once, not when the same messages were fed again", first)
			return abandoned, dropped
		}
	}
	rep("alloc."+name+".receive", text(), "three passes out of three: "+suspectMsg)
	return true, dropped
}

// ---------------------------------------------------------------- transaction pool

type txWorld struct {
	*world
	txR    *tx_pool.Reactor
	sw     *p2p.Switch
	probes []lockProbe
	nonce  [2]uint64
	uses   int
	// leaving: peers whose cases are over but that stay registered for a moment. The reactor's fetch callback
	// dereferences a peer that has left (known finding, see TestKnownTxFetchPeerGone) and the fetcher calls it on a
	// goroutine of its own, where no recover can protect the shard; a peer is therefore only removed once everything the
	// fetcher may have started for it has run, and before its announcements leave the fetcher's 500 ms wait list.
	leaving []leavingPeer
}

type leavingPeer struct {
	p  *tpeer
	at time.Time
}

func (w *txWorld) release(now time.Time, all bool) {
	k := 0
	for _, lp := range w.leaving {
		if all || now.Sub(lp.at) > 60*time.Millisecond {
			if lp.p.IsRunning() {
				w.sw.StopPeerGracefully(lp.p)
			}
			continue
		}
		w.leaving[k] = lp
		k++
	}
	w.leaving = w.leaving[:k]
}

var txw *txWorld

func getTxWorld(t ev.TB) *txWorld {
	if txw != nil && txw.uses > 3000 {
		closeTxWorld()
	}
	if txw == nil {
		w := newWorld(t, 2)
		cfg := netsim.TxPoolConfig()
		cfg.Broadcast = true
		txR := tx_pool.NewReactor(cfg, w.nd.TxPool)
		sw := newSwitch(map[string]p2p.Reactor{"TXPOOL": txR})
		txR.SetLogger(log.New())
		if err := txR.Start(); err != nil {
			t.Fatalf("harness: %v", err)
		}
		txw = &txWorld{world: w, txR: txR, sw: sw}
		txw.probes = []lockProbe{probeRW("tx_pool.Reactor.mtx", &txR.VerifC18Mtx().RWMutex), probeRW("tx_pool.peerSet.lock", txR.VerifC18PeersLock()), probeRW("tx_pool.TxPool.mu", w.nd.TxPool.VerifC18Mu())}
		ev.Class("txpool:world-built")
	}
	txw.uses++
	return txw
}

func closeTxWorld() {
	if txw != nil {
		time.Sleep(20 * time.Millisecond)
		txw.release(time.Now(), true)
		_ = txw.txR.Stop()
		txw.s.Close()
		txw = nil
	}
}

func encTx(sum interface{}) []byte {
	m := &prototx.Message{}
	switch x := sum.(type) {
	case *prototx.Txs:
		m.Sum = &prototx.Message_Txs{Txs: x}
	case *prototx.PooledTransactionHashes:
		m.Sum = &prototx.Message_PooledTransactionHashes{PooledTransactionHashes: x}
	case *prototx.PooledTransactions:
		m.Sum = &prototx.Message_PooledTransactions{PooledTransactions: x}
	case *prototx.RequestPooledTransactions:
		m.Sum = &prototx.Message_RequestPooledTransactions{RequestPooledTransactions: x}
	default:
		panic(fmt.Sprintf("encTx %T", sum))
	}
	return mustMarshal(m)
}

// genTxBytes: one transaction as it travels (RLP), from a funded account (netsim keys 100/101) or malformed.
func (w *txWorld) genTxBytes(t *rapid.T) ([]byte, string) {
	from := spread(t, "tx.from", 2)
	key := netsim.Key(100 + from)
	next := w.nd.TxPool.Nonce(common.BytesToAddress(crypto.PubkeyToAddress(key.PublicKey).Bytes()))
	nonce := pick(t, "tx.nonce", next, next, next, next, next+1, next+2, 0, next+70, 1<<32, 1<<63, ^uint64(0))
	gas := pick(t, "tx.gas", uint64(21000), 21000, 30000, 100000, 0, 20999, 1<<40, ^uint64(0))
	price := pick(t, "tx.price", big.NewInt(1), big.NewInt(1), big.NewInt(2), big.NewInt(0), new(big.Int).Lsh(big.NewInt(1), 255), new(big.Int).Lsh(big.NewInt(1), 300))
	amount := pick(t, "tx.amount", big.NewInt(1), big.NewInt(0), new(big.Int).Lsh(big.NewInt(1), 90), new(big.Int).Lsh(big.NewInt(1), 256), new(big.Int).Lsh(big.NewInt(1), 2000))
	data := make([]byte, pick(t, "tx.data", 0, 0, 0, 0, 4, 4, 1000, 1000, 40000, 140000))
	var tx *types.Transaction
	if weighted(t, "tx.create", 85, 15) == 1 {
		tx = types.NewContractCreation(nonce, amount, gas, price, data)
	} else {
		tx = types.NewTransaction(nonce, common.BytesToAddress([]byte{9}), amount, gas, price, data)
	}
	signer := pick(t, "tx.signer", []types.Signer{types.HomesteadSigner{}, types.HomesteadSigner{}, types.LatestSigner(w.nd.BC.Config()), types.NewChainIDSigner(big.NewInt(7))}...)
	desc := "signed"
	stx, err := types.SignTx(signer, tx, key)
	if err != nil {
		stx, desc = tx, "unsigned"
	}
	bz, err := rlp.EncodeToBytes(stx)
	if err != nil {
		return []byte{0xc0}, "unencodable"
	}
	switch weighted(t, "tx.raw", 75, 8, 6, 5, 3, 3) {
	case 1:
		return mutate(t, bz), "mutated-rlp"
	case 2:
		return bz[:len(bz)/2], "truncated-rlp"
	case 3:
		return pick(t, "tx.junk", []byte{}, []byte{0xc0}, []byte{0x80}, []byte{0xf8, 0xff}, []byte{0xbf, 0xff, 0xff, 0xff, 0xff, 0xff, 0xff, 0xff, 0xff}, bytes.Repeat([]byte{0xc1}, 2000)), "junk-rlp"
	case 4: // deep nesting
		return append(bytes.Repeat([]byte{0xf8, 0x7f}, 40), bz...), "nested-rlp"
	case 5:
		return append(append([]byte{}, bz...), 0), "trailing-byte"
	}
	return bz, desc
}

func genHashes(t *rapid.T, known [][]byte) [][]byte {
	n := pick(t, "hs.n", 0, 1, 1, 1, 2, 2, 3, 3, 100, 100, 5000)
	if weighted(t, "hs.huge", 98, 2) == 1 {
		n = 40000
	}
	out := make([][]byte, 0, n)
	for i := 0; i < n; i++ {
		if i < 4 {
			switch weighted(t, "hs.k", 40, 30, 10, 10, 10) {
			case 0:
				if len(known) > 0 {
					out = append(out, known[spread(t, "hs.known", len(known))])
					continue
				}
				fallthrough
			case 1:
				h := make([]byte, 32)
				h[0], h[31] = byte(i), byte(spread(t, "hs.b", 256))
				out = append(out, h)
			case 2:
				out = append(out, nil)
			case 3:
				out = append(out, make([]byte, 31))
			case 4:
				out = append(out, make([]byte, 33))
			}
			continue
		}
		h := make([]byte, 32)
		h[0], h[1], h[2] = byte(i), byte(i>>8), byte(i>>16)
		out = append(out, h)
	}
	return out
}

// TestTxPool: 1-4 transaction-pool messages to the pool reactor of a live node (fetcher and pool loops running).
func TestTxPool(t *testing.T) {
	defer closeTxWorld()
	rapid.Check(t, func(t *rapid.T) {
		w := getTxWorld(t)
		peer := newPeer()
		// A peer that announces a hash other peers announced before and is dropped microseconds later (next message
		// malformed) loses the race described at txWorld.leaving when, as with the stub, stopping it takes no time.
		peer.stopDelay = 3 * time.Millisecond
		if err := w.sw.VerifC18AddPeer(peer); err != nil {
			t.Fatalf("harness: %v", err)
		}
		w.txR.InitPeer(peer)
		var known [][]byte
		if pend, _ := w.nd.TxPool.Pending(); len(pend) > 0 {
			for _, txs := range pend {
				for _, tx := range txs {
					known = append(known, tx.Hash().Bytes())
				}
			}
		}
		var ws []wire
		nontrivial := false
		classes := []string{"txpool"}
		for i, n := 0, 1+spread(t, "n", 4); i < n; i++ {
			var wr wire
			switch weighted(t, "type", 35, 15, 20, 15, 5, 5, 5) {
			case 0, 1:
				k := pick(t, "txs.n", 1, 1, 1, 2, 2, 3, 3, 0, 50, 600)
				var raw [][]byte
				d := ""
				for j := 0; j < k; j++ {
					if j < 3 {
						bz, dd := w.genTxBytes(t)
						raw = append(raw, bz)
						d += "+" + dd
					} else if len(raw[j%3]) < 2000 {
						raw = append(raw, raw[j%3])
					}
				}
				if i%2 == 0 {
					wr = wire{ch: tx_pool.TxpoolChannel, desc: "Txs/" + d, data: encTx(&prototx.Txs{Txs: raw})}
				} else {
					wr = wire{ch: tx_pool.TxpoolChannel, desc: "PooledTransactions/" + d, data: encTx(&prototx.PooledTransactions{Txs: raw})}
				}
			case 2:
				wr = wire{ch: tx_pool.TxpoolChannel, desc: "PooledTransactionHashes", data: encTx(&prototx.PooledTransactionHashes{Hashes: genHashes(t, known)})}
			case 3:
				wr = wire{ch: tx_pool.TxpoolChannel, desc: "RequestPooledTransactions", data: encTx(&prototx.RequestPooledTransactions{Hashes: genHashes(t, known)})}
			case 4:
				s := encTx(&prototx.PooledTransactionHashes{Hashes: genHashes(t, known)})
				if len(s) > 4000 {
					s = s[:4000]
				}
				wr = wire{ch: tx_pool.TxpoolChannel, desc: "mutated", data: mutate(t, s)}
			case 5:
				wr = wire{ch: tx_pool.TxpoolChannel, desc: "random", data: randomBytes(t)}
			case 6:
				wr = wire{ch: tx_pool.TxpoolChannel, desc: "unknown-field", data: unknownField(t, encTx(&prototx.RequestPooledTransactions{Hashes: genHashes(t, known)}))}
			}
			if len(wr.data) > 2097152 {
				wr.data = wr.data[:2097152]
			}
			ws = append(ws, wr)
			var dm interface{}
			ev.Try(func() { dm, _ = tx_pool.VerifC18DecodeMsg(wr.data) })
			cl := "txpool:msg:" + descClass(wr.desc)
			classes = append(classes, cl)
			if dm != nil {
				classes = append(classes, cl+":accepted")
				nontrivial = true
			}
		}
		text := func() string { return "txpool " + wiresText(ws) }
		acct = newAccount(true)
		p0, q0 := w.nd.TxPool.Stats()
		r := guarded(func() { w.txR.AddPeer(peer) })
		if oracle(t, evReporter(t), "txpool AddPeer", "alloc.txpool.addpeer", r, 0, w.probes, text) {
			ab, dropped := simpleRun(t, evReporter(t), "txpool", w.txR.Receive, peer, w.probes, ws, text)
			if dropped {
				classes = append(classes, "txpool:peer-dropped")
			}
			if ab {
				classes = append(classes, "abandoned-known")
			}
		}
		if peer.IsRunning() {
			w.leaving = append(w.leaving, leavingPeer{peer, time.Now()})
		}
		w.release(time.Now(), false)
		if p1, q1 := w.nd.TxPool.Stats(); p1 != p0 || q1 != q0 {
			classes = append(classes, "txpool:pool-changed")
		}
		if peer.sends.Load() > 0 {
			classes = append(classes, "txpool:node-answered")
		}
		ev.Case(nontrivial, text(), classes...)
		if nontrivial {
			for _, wr := range ws {
				if cl := "txpool:" + descClass(wr.desc); ev.WantSample(cl) {
					ev.Sample(cl, trunc(wr.desc+" "+wiresText([]wire{wr}), 300))
				}
			}
		}
	})
}

// ---------------------------------------------------------------- evidence

type evWorld struct {
	*world
	evR    *evidence.Reactor
	sw     *p2p.Switch
	probes []lockProbe
	uses   int
}

var evw *evWorld

func getEvWorld(t ev.TB) *evWorld {
	if evw != nil && evw.uses > 2000 {
		closeEvWorld()
	}
	if evw == nil {
		w := newWorld(t, 4)
		evR := evidence.NewReactor(w.nd.EvPool)
		sw := newSwitch(map[string]p2p.Reactor{"EVIDENCE": evR})
		evR.SetLogger(log.New())
		if err := evR.Start(); err != nil {
			t.Fatalf("harness: %v", err)
		}
		evw = &evWorld{world: w, evR: evR, sw: sw, probes: []lockProbe{probeMutex("evidence.Pool.mtx", w.nd.EvPool.VerifC18Mtx())}}
		ev.Class("evidence:world-built")
	}
	evw.uses++
	return evw
}

func closeEvWorld() {
	if evw != nil {
		_ = evw.evR.Stop()
		evw.s.Close()
		evw = nil
	}
}

func (w *evWorld) signedVote(t *rapid.T, label string, signer int, h uint64, r uint32, typ kproto.SignedMsgType, id kproto.BlockID, ts time.Time) *kproto.Vote {
	idx, _ := w.nd.CS.Validators.GetByAddress(w.s.Addr(signer))
	pv := &kproto.Vote{Type: typ, Height: h, Round: r, BlockID: id, Timestamp: ts, ValidatorAddress: w.s.Addr(signer).Bytes(), ValidatorIndex: uint32(idx)}
	if weighted(t, label+".sig", 93, 7) == 0 {
		if err := types.NewDefaultPrivValidator(w.s.Keys[signer]).SignVote(w.s.G.ChainID, pv); err != nil {
			pv.Signature = []byte{1}
		}
	} else {
		pv.Signature = genSigGarbage(t, label+".gsig")
	}
	return pv
}

func (w *evWorld) genEvidence(t *rapid.T) (*kproto.Evidence, string) {
	H := w.nd.CS.Height
	signer := 1 + spread(t, "ev.signer", 3)
	h := pick(t, "ev.h", H-1, H-1, H-1, H-2, H-2, 1, 1, H, H+1, 0, 1<<63)
	r := pick(t, "ev.r", uint32(1), 1, 1, 1, 2, 2, 0, 1<<32-1)
	typ := kproto.SignedMsgType(pick(t, "ev.type", 1, 1, 1, 2, 2, 2, 0, 3))
	idA := kproto.BlockID{Hash: common.BytesToHash([]byte{1}).Bytes(), PartSetHeader: kproto.PartSetHeader{Total: 1, Hash: common.BytesToHash([]byte{2}).Bytes()}}
	idB := kproto.BlockID{Hash: common.BytesToHash([]byte{3}).Bytes(), PartSetHeader: kproto.PartSetHeader{Total: 1, Hash: common.BytesToHash([]byte{4}).Bytes()}}
	if weighted(t, "ev.nilb", 80, 20) == 1 {
		idB = kproto.BlockID{}
	}
	var ts time.Time
	if m := w.nd.BOps.LoadBlockMeta(h); m != nil {
		ts = m.Header.Time
	} else {
		ts = time.Unix(1700000000, 0).UTC()
	}
	a := w.signedVote(t, "ev.a", signer, h, r, typ, idA, ts)
	b := w.signedVote(t, "ev.b", signer, h, r, typ, idB, ts)
	d := &kproto.DuplicateVoteEvidence{VoteA: a, VoteB: b, TotalVotingPower: w.nd.CS.Validators.TotalVotingPower(), Timestamp: ts}
	_, val := w.nd.CS.Validators.GetByAddress(w.s.Addr(signer))
	if val != nil {
		d.ValidatorPower = val.VotingPower
	}
	desc := "equivocation"
	for i, n := 0, weighted(t, "ev.nm", 55, 33, 12); i < n; i++ {
		switch weighted(t, "ev.m", 8, 8, 8, 8, 8, 8, 8, 8, 8, 8, 6) {
		case 0:
			d.VoteA = nil
			desc += "+no-voteA"
		case 1:
			d.VoteB = nil
			desc += "+no-voteB"
		case 2:
			d.VoteA, d.VoteB = d.VoteB, d.VoteA
			desc += "+swapped"
		case 3:
			d.VoteB = d.VoteA
			desc += "+same-vote"
		case 4:
			d.TotalVotingPower = pick(t, "ev.tvp", int64(0), -1, 1, 1<<62, -1<<63)
			desc += "+total-power"
		case 5:
			d.ValidatorPower = pick(t, "ev.vp", int64(0), -1, 1, 1<<62, -1<<63)
			desc += "+validator-power"
		case 6:
			d.Timestamp = genTime(t, "ev.ts")
			desc += "+timestamp"
		case 7:
			if d.VoteB != nil {
				v := *d.VoteB
				v.ValidatorIndex = genIndex(t, "ev.idx", 4)
				d.VoteB = &v
				desc += "+index"
			}
		case 8:
			if d.VoteB != nil {
				v := *d.VoteB
				v.ValidatorAddress = pick(t, "ev.addr", []byte(nil), make([]byte, 20), make([]byte, 19), w.s.Addr(0).Bytes())
				d.VoteB = &v
				desc += "+address"
			}
		case 9:
			if d.VoteB != nil {
				v := *d.VoteB
				v.Height = genU64Near(t, "ev.bh", v.Height)
				d.VoteB = &v
				desc += "+voteB.height"
			}
		case 10:
			if d.VoteA != nil {
				v := *d.VoteA
				v.BlockID.PartSetHeader.Total = genTotal(t, "ev.total", 1, 1<<32-1)
				v.BlockID.Hash = genHash(t, "ev.hash", v.BlockID.Hash)
				d.VoteA = &v
				desc += "+voteA.blockid"
			}
		}
	}
	if weighted(t, "ev.empty", 95, 5) == 1 {
		return &kproto.Evidence{}, "empty-oneof"
	}
	return &kproto.Evidence{Sum: &kproto.Evidence_DuplicateVoteEvidence{DuplicateVoteEvidence: d}}, desc
}

// TestEvidence: evidence lists to the evidence reactor of a node with a chain of three blocks.
func TestEvidence(t *testing.T) {
	defer closeEvWorld()
	rapid.Check(t, func(t *rapid.T) {
		w := getEvWorld(t)
		peer := newPeer()
		if err := w.sw.VerifC18AddPeer(peer); err != nil {
			t.Fatalf("harness: %v", err)
		}
		var ws []wire
		nontrivial := false
		classes := []string{"evidence"}
		for i, n := 0, 1+spread(t, "n", 3); i < n; i++ {
			var wr wire
			switch weighted(t, "kind", 70, 12, 8, 5, 5) {
			case 0:
				k := pick(t, "list.n", 1, 1, 1, 2, 3, 0, 300)
				var l []*kproto.Evidence
				d := ""
				for j := 0; j < k; j++ {
					if j < 3 {
						e, dd := w.genEvidence(t)
						if weighted(t, "list.nil", 97, 3) == 1 {
							e, dd = nil, "nil-item"
						}
						l = append(l, e)
						d += "+" + dd
					} else {
						l = append(l, l[j%3])
					}
				}
				wr = wire{ch: evidence.EvidenceChannel, desc: "List/" + strings.TrimPrefix(d, "+"), data: mustMarshalList(l)}
			case 1:
				e, _ := w.genEvidence(t)
				wr = wire{ch: evidence.EvidenceChannel, desc: "mutated", data: mutate(t, mustMarshalList([]*kproto.Evidence{e}))}
			case 2:
				e, _ := w.genEvidence(t)
				wr = wire{ch: evidence.EvidenceChannel, desc: "unknown-field", data: unknownField(t, mustMarshalList([]*kproto.Evidence{e}))}
			case 3:
				wr = wire{ch: evidence.EvidenceChannel, desc: "random", data: randomBytes(t)}
			case 4:
				e, _ := w.genEvidence(t)
				wr = wire{ch: pick(t, "ch", byte(0x20), 0x00, 0xff), desc: "other-channel", data: mustMarshalList([]*kproto.Evidence{e})}
			}
			if len(wr.data) > 1048576 {
				wr.data = wr.data[:1048576]
			}
			ws = append(ws, wr)
			var dm []types.Evidence
			var derr error
			ev.Try(func() { dm, derr = evidence.VerifC18DecodeMsg(wr.data) })
			cl := "evidence:msg:" + descClass(wr.desc)
			classes = append(classes, cl)
			if derr == nil && len(dm) > 0 {
				classes = append(classes, cl+":accepted")
				nontrivial = true
			}
		}
		text := func() string { return "evidence " + wiresText(ws) }
		acct = newAccount(true)
		n0 := w.nd.EvPool.Size()
		ab, dropped := simpleRun(t, evReporter(t), "evidence", w.evR.Receive, peer, w.probes, ws, text)
		if dropped {
			classes = append(classes, "evidence:peer-dropped")
		}
		if ab {
			classes = append(classes, "abandoned-known")
		}
		if peer.IsRunning() {
			w.sw.StopPeerGracefully(peer)
		}
		if w.nd.EvPool.Size() != n0 {
			classes = append(classes, "evidence:added-to-pool")
			closeEvWorld() // the next case starts from an empty pool again
		}
		ev.Case(nontrivial, text(), classes...)
		if nontrivial {
			for _, wr := range ws {
				if cl := "evidence:" + descClass(wr.desc); ev.WantSample(cl) {
					ev.Sample(cl, trunc(wr.desc+" "+wiresText([]wire{wr}), 300))
				}
			}
		}
	})
}

// mustMarshalList: a nil item has no wire form (an absent element is an empty embedded message): it is sent as that.
func mustMarshalList(l []*kproto.Evidence) []byte {
	l2 := make([]*kproto.Evidence, len(l))
	for i, e := range l {
		if e == nil {
			e = &kproto.Evidence{}
		}
		l2[i] = e
	}
	bz, err := (&ep.List{Evidence: l2}).Marshal()
	if err != nil {
		panic(err)
	}
	return bz
}

// ---------------------------------------------------------------- peer exchange

func encPex(sum interface{}) []byte {
	m := &kp2p.Message{}
	switch x := sum.(type) {
	case *kp2p.PexRequest:
		m.Sum = &kp2p.Message_PexRequest{PexRequest: x}
	case *kp2p.PexAddrs:
		m.Sum = &kp2p.Message_PexAddrs{PexAddrs: x}
	}
	return mustMarshal(m)
}

func genNetAddr(t *rapid.T, self p2p.ID) kp2p.NetAddress {
	id := pick(t, "na.id", "deadbeefdeadbeefdeadbeefdeadbeefdeadbeef", "0123456789012345678901234567890123456789", "", "xyz", string(self), strings.Repeat("a", 41), strings.Repeat("f", 200))
	ip := pick(t, "na.ip", "8.8.8.8", "1.2.3.4", "192.168.1.1", "127.0.0.1", "0.0.0.0", "255.255.255.255", "::1", "2001:db8::1", "", "not an ip", "1.2.3", "999.1.1.1", strings.Repeat("1", 300), "fe80::1%eth0")
	port := pick(t, "na.port", uint32(26656), 1, 0, 65535, 65536, 1<<31, 1<<32-1)
	return kp2p.NetAddress{ID: id, IP: ip, Port: port}
}

// TestPex: PEX requests and address lists to a PEX reactor (regular and seed mode) with an address book in a
// temporary directory.
func TestPex(t *testing.T) {
	dir := t.TempDir()
	n := 0
	rapid.Check(t, func(t *rapid.T) {
		n++
		seed := weighted(t, "seedmode", 75, 25) == 1
		book := pex.NewAddrBook(filepath.Join(dir, fmt.Sprintf("book-%d.json", n%16)), pick(t, "strict", true, false))
		book.SetLogger(log.New())
		r := pex.NewReactor(book, &pex.ReactorConfig{SeedMode: seed})
		sw := newSwitch(map[string]p2p.Reactor{"PEX": r})
		r.SetLogger(log.New())
		probes := []lockProbe{probeMutex("pex.addrBook.mtx", &pex.VerifC18BookMtx(book).Mutex)}
		peer := newPeer()
		peer.Outbound = rapid.Bool().Draw(t, "outbound")
		if err := sw.VerifC18AddPeer(peer); err != nil {
			t.Fatalf("harness: %v", err)
		}
		asked := rapid.Bool().Draw(t, "asked")
		var ws []wire
		nontrivial := false
		classes := []string{"pex"}
		if seed {
			classes = append(classes, "pex:seed-mode")
		}
		for i, k := 0, 1+spread(t, "n", 4); i < k; i++ {
			var wr wire
			switch weighted(t, "kind", 25, 50, 10, 8, 7) {
			case 0:
				wr = wire{ch: pex.PexChannel, desc: "PexRequest", data: encPex(&kp2p.PexRequest{})}
			case 1:
				cnt := pick(t, "addrs.n", 1, 1, 2, 3, 0, 100, 249, 250, 251, 2000)
				var as []kp2p.NetAddress
				for j := 0; j < cnt; j++ {
					if j < 4 {
						as = append(as, genNetAddr(t, sw.NodeInfo().ID()))
					} else {
						a := as[j%4]
						a.IP = fmt.Sprintf("8.%d.%d.%d", j>>16&255, j>>8&255, j&255)
						as = append(as, a)
					}
				}
				wr = wire{ch: pex.PexChannel, desc: "PexAddrs", data: encPex(&kp2p.PexAddrs{Addrs: as})}
			case 2:
				wr = wire{ch: pex.PexChannel, desc: "mutated", data: mutate(t, encPex(&kp2p.PexAddrs{Addrs: []kp2p.NetAddress{genNetAddr(t, "")}}))}
			case 3:
				wr = wire{ch: pex.PexChannel, desc: "random", data: randomBytes(t)}
			case 4:
				wr = wire{ch: pex.PexChannel, desc: "unknown-field", data: unknownField(t, encPex(&kp2p.PexRequest{}))}
			}
			if len(wr.data) > 64000 { // maxMsgSize of the channel
				wr.data = wr.data[:64000]
			}
			ws = append(ws, wr)
			var derr error
			ev.Try(func() { _, derr = pex.VerifC18DecodeMsg(wr.data) })
			cl := "pex:msg:" + descClass(wr.desc)
			classes = append(classes, cl)
			if derr == nil {
				classes = append(classes, cl+":accepted")
				if i > 0 || wr.desc != "PexRequest" {
					nontrivial = true
				}
			}
		}
		text := func() string {
			return fmt.Sprintf("pex seed=%v outbound=%v asked=%v %s", seed, peer.Outbound, asked, wiresText(ws))
		}
		rep := evReporter(t)
		acct = newAccount(false)
		r0 := guarded(func() {
			r.AddPeer(peer)
			if asked {
				r.RequestAddrs(peer)
			}
		})
		if oracle(t, rep, "pex AddPeer", "alloc.pex.addpeer", r0, 0, probes, text) {
			ab, dropped := simpleRun(t, rep, "pex", r.Receive, peer, probes, ws, text)
			if dropped {
				classes = append(classes, "pex:peer-dropped")
			}
			if ab {
				classes = append(classes, "abandoned-known")
			}
		}
		if !book.Empty() {
			classes = append(classes, "pex:book-not-empty")
		}
		if seed { // the seed-mode branch stops the peer on a goroutine of its own
			waitFor(func() bool { return !peer.IsRunning() || peer.sends.Load() == 0 }, 50)
		}
		if peer.IsRunning() {
			sw.StopPeerGracefully(peer)
		}
		ev.Case(nontrivial, text(), classes...)
		if nontrivial {
			for _, wr := range ws {
				if cl := "pex:" + descClass(wr.desc); ev.WantSample(cl) {
					ev.Sample(cl, trunc(wr.desc+" "+wiresText([]wire{wr}), 300))
				}
			}
		}
	})
}
