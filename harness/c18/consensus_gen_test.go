package c18

import (
	"bytes"
	"fmt"
	"time"

	"pgregory.net/rapid"

	"github.com/kardiachain/go-kardia/consensus"
	"github.com/kardiachain/go-kardia/lib/common"
	kcons "github.com/kardiachain/go-kardia/proto/kardiachain/consensus"
	kcrypto "github.com/kardiachain/go-kardia/proto/kardiachain/crypto"
	kbits "github.com/kardiachain/go-kardia/proto/kardiachain/libs/bits"
	kproto "github.com/kardiachain/go-kardia/proto/kardiachain/types"
	"github.com/kardiachain/go-kardia/types"

	"verifharness/internal/netsim"
)

// ---------------------------------------------------------------- boundary-biased scalars

// spread draws a number in [0,n). rapid's integer generators favour small values; the drawn 64-bit value is therefore
// mixed before it is reduced, so that the alternatives of pick/weighted are close to uniformly (resp. weight-
// proportionally) likely while a shrunk case (value 0) still takes the first alternative.
func spread(t *rapid.T, label string, n int) int {
	x := rapid.Uint64().Draw(t, label)
	x *= 0x9E3779B97F4A7C15
	x ^= x >> 29
	return int((x >> 11) % uint64(n))
}

func pick[T any](t *rapid.T, label string, xs ...T) T { return xs[spread(t, label, len(xs))] }

// weighted draws an index with the given weights.
func weighted(t *rapid.T, label string, w ...int) int {
	sum := 0
	for _, x := range w {
		sum += x
	}
	n := spread(t, label, sum)
	for i, x := range w {
		if n < x {
			return i
		}
		n -= x
	}
	return len(w) - 1
}

func genU64Near(t *rapid.T, label string, base uint64) uint64 {
	switch weighted(t, label+".k", 70, 6, 6, 3, 3, 2, 2, 2, 2, 2, 2, 8, 4) {
	case 0:
		return base
	case 1:
		return base - 1
	case 2:
		return base + 1
	case 3:
		return base + 2
	case 4:
		return 0
	case 5:
		return 1
	case 6:
		return 1 << 31
	case 7:
		return 1<<32 - 1
	case 8:
		return 1 << 32
	case 9:
		return 1 << 63
	case 10:
		return ^uint64(0)
	case 11:
		// every order of magnitude: large enough to hurt if it sizes an allocation, small enough to pass a sanity cap
		// (half of the draws between 1 Mi and 16 Gi, where an element count turns into 8 MiB .. 128 GiB)
		lo, hi := 4, 62
		if rapid.Bool().Draw(t, label+".mid") {
			lo, hi = 20, 34
		}
		return uint64(1)<<uint(rapid.IntRange(lo, hi).Draw(t, label+".mag")) + uint64(rapid.IntRange(-1, 1).Draw(t, label+".off"))
	}
	return uint64(rapid.IntRange(0, 12).Draw(t, label+".small"))
}

func genU32Near(t *rapid.T, label string, base uint32) uint32 {
	switch weighted(t, label+".k", 70, 6, 6, 3, 3, 3, 2, 2, 2, 2, 6, 4) {
	case 0:
		return base
	case 1:
		return base - 1
	case 2:
		return base + 1
	case 3:
		return base + 2
	case 4:
		return 0
	case 5:
		return 1
	case 6:
		return 1 << 31
	case 7:
		return 1<<31 - 1
	case 8:
		return 1<<32 - 1
	case 9:
		return 1<<32 - 2
	case 10:
		// every order of magnitude (see genU64Near)
		return uint32(1)<<uint(rapid.IntRange(4, 30).Draw(t, label+".mag")) + uint32(rapid.IntRange(-1, 1).Draw(t, label+".off"))
	}
	return uint32(rapid.IntRange(0, 12).Draw(t, label+".small"))
}

// genIndex: an index into a set of n members, with the off-by-one and word-boundary values.
func (c *cctx) genIndex(t *rapid.T, label string, n int) uint32 {
	if c.nat(t, label) {
		if n <= 0 {
			return 0
		}
		return uint32(rapid.IntRange(0, n-1).Draw(t, label+".in"))
	}
	return genIndex(t, label, n)
}

func genIndex(t *rapid.T, label string, n int) uint32 {
	switch weighted(t, label+".k", 55, 6, 6, 4, 4, 4, 4, 4, 4, 4, 5) {
	case 0:
		if n <= 0 {
			return 0
		}
		return uint32(rapid.IntRange(0, n-1).Draw(t, label+".in"))
	case 1:
		return uint32(n)
	case 2:
		return uint32(n + 1)
	case 3:
		return 63
	case 4:
		return 64
	case 5:
		return 65
	case 6:
		return 1 << 16
	case 7:
		return 1 << 31
	case 8:
		return 1<<32 - 1
	case 9:
		return 1<<31 - 1
	}
	return uint32(rapid.IntRange(0, 200).Draw(t, label+".small"))
}

// genTotal: a part count around the real one; huge values only when the caller can afford what the node does with them.
func (c *cctx) genTotal(t *rapid.T, label string, real uint32, maxHuge uint32) uint32 {
	if c.nat(t, label) {
		return real
	}
	return genTotal(t, label, real, maxHuge)
}

func genTotal(t *rapid.T, label string, real uint32, maxHuge uint32) uint32 {
	switch weighted(t, label+".k", 55, 6, 6, 4, 3, 3, 3, 3, 3, 3, 2, 2, 2) {
	case 0:
		return real
	case 1:
		return 0
	case 2:
		return real + 1
	case 3:
		return 2
	case 4:
		return 64
	case 5:
		return 65
	case 6:
		return types.MaxBlockPartsCount
	case 7:
		return types.MaxBlockPartsCount + 1
	case 8:
		return 1 << 16
	case 9:
		return 1 << 20
	case 10:
		return min32(1<<26, maxHuge)
	case 11:
		return min32(1<<28, maxHuge)
	}
	return min32(1<<32-1, maxHuge)
}

func min32(a, b uint32) uint32 {
	if a < b {
		return a
	}
	return b
}

// genHash: the real 32 bytes, or a hash of another length (ValidateHash accepts 0 or 32), or other 32 bytes.
func (c *cctx) genHash(t *rapid.T, label string, real []byte) []byte {
	if c.nat(t, label) && len(real) > 0 {
		return real
	}
	return genHash(t, label, real)
}

func genHash(t *rapid.T, label string, real []byte) []byte {
	if len(real) == 0 {
		real = make([]byte, 32)
	}
	switch weighted(t, label+".k", 70, 8, 5, 5, 8, 4) {
	case 0:
		return real
	case 1:
		return nil
	case 2:
		return append([]byte{}, real[:len(real)-1]...)
	case 3:
		return append(append([]byte{}, real...), 0)
	case 4:
		b := make([]byte, 32)
		b[31] = byte(rapid.IntRange(1, 255).Draw(t, label+".b"))
		return b
	}
	return bytes.Repeat([]byte{0xff}, 32)
}

// genBits: a bit array for a set of n members. Consistent ones (len(Elems) == ceil(Bits/64)) of the natural and of
// other sizes, and inconsistent ones: bits without words, a word too few or too many, negative / enormous Bits.
func (c *cctx) genBits(t *rapid.T, label string, n int) (*kbits.BitArray, string) {
	if c.nat(t, label) && n > 0 {
		e := make([]uint64, (n+63)/64)
		for i := range e {
			e[i] = rapid.Uint64().Draw(t, label+".w")
		}
		return &kbits.BitArray{Bits: int64(n), Elems: e}, "natural"
	}
	return genBits(t, label, n)
}

func genBits(t *rapid.T, label string, n int) (*kbits.BitArray, string) {
	words := func(bits int64) int { return int((bits + 63) / 64) }
	fill := func(k int) []uint64 {
		e := make([]uint64, k)
		mode := rapid.IntRange(0, 2).Draw(t, label+".fill")
		for i := range e {
			switch mode {
			case 1:
				e[i] = ^uint64(0)
			case 2:
				e[i] = rapid.Uint64().Draw(t, label+".w")
			}
		}
		return e
	}
	switch weighted(t, label+".k", 30, 10, 6, 6, 8, 8, 6, 6, 5, 5, 4, 3, 3) {
	case 0:
		return &kbits.BitArray{Bits: int64(n), Elems: fill(words(int64(n)))}, "natural"
	case 1:
		b := int64(pick(t, label+".sz", 1, 2, 63, 64, 65, 127, 128, 129, 1000, types.MaxVotesCount, types.MaxVotesCount+1, types.MaxBlockPartsCount, types.MaxBlockPartsCount+1))
		return &kbits.BitArray{Bits: b, Elems: fill(words(b))}, "other-size"
	case 2:
		return &kbits.BitArray{}, "empty"
	case 3:
		return nil, "nil"
	case 4:
		return &kbits.BitArray{Bits: int64(n), Elems: nil}, "bits-without-words"
	case 5:
		b := int64(pick(t, label+".sz", 1, 64, 65, 128, 129, 1000))
		return &kbits.BitArray{Bits: b, Elems: fill(words(b) - 1)}, "one-word-short"
	case 6:
		return &kbits.BitArray{Bits: int64(n), Elems: fill(words(int64(n)) + 1)}, "one-word-long"
	case 7:
		return &kbits.BitArray{Bits: 0, Elems: fill(1)}, "words-without-bits"
	case 8:
		return &kbits.BitArray{Bits: -1, Elems: fill(pick(t, label+".neg", 0, 1, 2))}, "negative-bits"
	case 9:
		return &kbits.BitArray{Bits: pick(t, label+".huge", int64(1)<<26, int64(1)<<31, int64(1)<<32, int64(1)<<62, int64(9223372036854775807)), Elems: fill(pick(t, label+".hw", 0, 1, 2))}, "huge-bits-few-words"
	case 10:
		b := int64(n + pick(t, label+".d", -1, 1, 64))
		if b < 1 {
			b = 1
		}
		return &kbits.BitArray{Bits: b, Elems: fill(words(b))}, "near-natural"
	case 11:
		return &kbits.BitArray{Bits: int64(n), Elems: fill(words(int64(n)) + 100)}, "many-extra-words"
	}
	b := int64(pick(t, label+".big", 1<<16, 1<<20))
	return &kbits.BitArray{Bits: b, Elems: make([]uint64, words(b))}, "large-consistent"
}

func bitsVal(b *kbits.BitArray) kbits.BitArray {
	if b == nil {
		return kbits.BitArray{}
	}
	return *b
}

// ---------------------------------------------------------------- context of a case

// cctx is what the attacker knows about the victim and its network when it builds messages.
type cctx struct {
	v        *victim
	H        uint64
	R        uint32
	nVals    int
	ids      []types.BlockID
	parts    []*types.Part // genuine parts of blocks proposed at H
	attacker int           // genesis index of the validator whose key the attacker holds
	proposer int           // genesis index of the proposer of (H,R)
	seeds    []wire
	// focus: the height / round / vote type / block id this peer's messages are mostly about, drawn once per case so
	// that the messages of a sequence refer to each other (a claim, then bits for the same claim, …)
	fH    uint64
	fR    uint32
	fType kproto.SignedMsgType
	fID   *kproto.BlockID
	stick int // 0..100: how strongly generated fields keep to the focus (templates raise it)
	calm  int // 0..100: probability that a generated field takes its natural (well-formed) value; drawn per message
}

// nat decides, per field, whether the natural value is used (see calm).
func (c *cctx) nat(t *rapid.T, label string) bool {
	return c.calm > 0 && weighted(t, label+".nat", c.calm, 100-c.calm) == 0
}

func (c *cctx) drawFocus(t *rapid.T) {
	c.fH, c.fR = c.H, c.R
	c.fH = genU64Near(t, "focus.h", c.H)
	c.fR = genU32Near(t, "focus.r", c.R)
	c.fType = pick(t, "focus.type", kproto.PrevoteType, kproto.PrecommitType)
	c.fID = nil
	id := c.genBlockID(t, "focus.id", 1<<26)
	c.fID = &id
	c.stick = 65
}

// near: the focus height/round with the case's stickiness, otherwise a value around it.
func (c *cctx) nearH(t *rapid.T, label string) uint64 {
	if weighted(t, label+".stick", c.stick, 100-c.stick) == 0 {
		return c.fH
	}
	return genU64Near(t, label, c.fH)
}
func (c *cctx) nearR(t *rapid.T, label string) uint32 {
	if weighted(t, label+".stick", c.stick, 100-c.stick) == 0 {
		return c.fR
	}
	return genU32Near(t, label, c.fR)
}

func chanOf(m consensus.Message) byte {
	switch m.(type) {
	case *consensus.NewRoundStepMessage, *consensus.NewValidBlockMessage, *consensus.HasVoteMessage, *consensus.VoteSetMaj23Message:
		return consensus.StateChannel
	case *consensus.ProposalMessage, *consensus.ProposalPOLMessage, *consensus.BlockPartMessage:
		return consensus.DataChannel
	case *consensus.VoteMessage:
		return consensus.VoteChannel
	case *consensus.VoteSetBitsMessage:
		return consensus.VoteSetBitsChannel
	}
	return 0
}

func newCtx(v *victim) *cctx {
	cs := v.nd.CS
	c := &cctx{v: v, H: cs.Height, R: cs.Round, nVals: cs.Validators.Size(), ids: v.knownIDs(), proposer: v.proposerIndex()}
	// genuine parts
	seenPart := map[string]bool{}
	for i, nd := range v.s.Nodes {
		if i == v.V || nd.CS.Height != c.H || nd.CS.ProposalBlockParts == nil {
			continue
		}
		ps := nd.CS.ProposalBlockParts
		for k := 0; k < int(ps.Total()); k++ {
			if p := ps.GetPart(k); p != nil {
				key := fmt.Sprintf("%x/%d", ps.Hash().Bytes(), k)
				if !seenPart[key] {
					seenPart[key] = true
					c.parts = append(c.parts, p)
				}
			}
		}
	}
	if c.H > 1 {
		if m := v.nd.BOps.LoadBlockMeta(c.H - 1); m != nil {
			for k := 0; k < int(m.BlockID.PartsHeader.Total) && k < 2; k++ {
				if p := v.nd.BOps.LoadBlockPart(c.H-1, k); p != nil {
					c.parts = append(c.parts, p)
				}
			}
		}
	}
	// seed messages: what the honest nodes would send the victim now, plus one well-formed message of every other type
	add := func(m consensus.Message, desc string) {
		c.seeds = append(c.seeds, wire{ch: chanOf(m), data: consensus.MustEncode(m), desc: "seed:" + desc})
	}
	seen := map[string]bool{}
	for i, nd := range v.s.Nodes {
		if i == v.V {
			continue
		}
		for _, m := range netsim.Offers(nd, v.nd) {
			bz := consensus.MustEncode(m)
			if !seen[string(bz)] {
				seen[string(bz)] = true
				c.seeds = append(c.seeds, wire{ch: chanOf(m), data: bz, desc: "seed:offer:" + msgKind(m)})
			}
		}
	}
	id := types.BlockID{Hash: common.BytesToHash([]byte("some block")), PartsHeader: types.PartSetHeader{Total: 1, Hash: common.BytesToHash([]byte("some parts"))}}
	if len(c.ids) > 0 {
		id = c.ids[0]
	}
	lcr := uint32(0)
	if c.H > 1 {
		lcr = v.lastCommitRound()
	}
	add(&consensus.NewRoundStepMessage{Height: c.H, Round: c.R, Step: 3, SecondsSinceStartTime: 1, LastCommitRound: lcr}, "NewRoundStep")
	full := common.NewBitArray(int(id.PartsHeader.Total))
	for i := 0; i < int(id.PartsHeader.Total); i++ {
		full.SetIndex(i, true)
	}
	add(&consensus.NewValidBlockMessage{Height: c.H, Round: c.R, BlockPartsHeader: id.PartsHeader, BlockParts: full}, "NewValidBlock")
	add(&consensus.HasVoteMessage{Height: c.H, Round: c.R, Type: kproto.PrevoteType, Index: 0}, "HasVote")
	add(&consensus.VoteSetMaj23Message{Height: c.H, Round: c.R, Type: kproto.PrevoteType, BlockID: id}, "VoteSetMaj23")
	vb := common.NewBitArray(c.nVals)
	vb.SetIndex(0, true)
	add(&consensus.VoteSetBitsMessage{Height: c.H, Round: c.R, Type: kproto.PrevoteType, BlockID: id, Votes: vb}, "VoteSetBits")
	add(&consensus.ProposalPOLMessage{Height: c.H, ProposalPOLRound: 1, ProposalPOL: vb}, "ProposalPOL")
	return c
}

func (c *cctx) isSeed(b []byte) bool {
	for _, s := range c.seeds {
		if bytes.Equal(s.data, b) {
			return true
		}
	}
	return false
}

// ---------------------------------------------------------------- structure-aware messages

func (c *cctx) genBlockID(t *rapid.T, label string, maxHuge uint32) kproto.BlockID {
	if c.fID != nil && weighted(t, label+".focus", c.stick, 100-c.stick) == 0 {
		return *c.fID
	}
	var base types.BlockID
	switch k := weighted(t, label+".k", 60, 10, 15, 15); {
	case k == 0 && len(c.ids) > 0:
		base = c.ids[rapid.IntRange(0, len(c.ids)-1).Draw(t, label+".id")]
	case k == 1:
		return kproto.BlockID{} // nil block
	case k == 2:
		base = types.BlockID{Hash: common.BytesToHash([]byte{byte(rapid.IntRange(1, 3).Draw(t, label+".x"))}), PartsHeader: types.PartSetHeader{Total: 1, Hash: common.BytesToHash([]byte{9})}}
	default:
		base = types.BlockID{Hash: common.BytesToHash([]byte{7}), PartsHeader: types.PartSetHeader{Total: 1, Hash: common.BytesToHash([]byte{8})}}
		if len(c.ids) > 0 {
			base = c.ids[0]
		}
	}
	return kproto.BlockID{Hash: c.genHash(t, label+".hash", base.Hash.Bytes()),
		PartSetHeader: kproto.PartSetHeader{Total: c.genTotal(t, label+".total", base.PartsHeader.Total, maxHuge), Hash: c.genHash(t, label+".phash", base.PartsHeader.Hash.Bytes())}}
}

func (c *cctx) genType(t *rapid.T, label string) kproto.SignedMsgType {
	if weighted(t, label+".focus", c.stick, 100-c.stick) == 0 {
		return c.fType
	}
	return genType(t, label)
}

func genType(t *rapid.T, label string) kproto.SignedMsgType {
	return kproto.SignedMsgType(pick(t, label, 1, 1, 1, 2, 2, 2, 0, 3, 32, -1, 1<<31-1))
}

func (c *cctx) genTime(t *rapid.T, label string) time.Time {
	if c.nat(t, label) {
		return time.Now().UTC()
	}
	return genTime(t, label)
}

func genTime(t *rapid.T, label string) time.Time {
	switch weighted(t, label, 70, 6, 6, 6, 6, 6) {
	case 1:
		return time.Time{} // year 1: the smallest protobuf timestamp
	case 2:
		return time.Unix(0, 0).UTC()
	case 3:
		return time.Date(9999, 12, 31, 23, 59, 59, 999999999, time.UTC)
	case 4:
		return time.Unix(1700000000, 0).UTC()
	case 5:
		return time.Now().Add(100 * 365 * 24 * time.Hour).UTC()
	}
	return time.Now().UTC()
}

func genSigGarbage(t *rapid.T, label string) []byte {
	switch weighted(t, label, 40, 10, 10, 10, 10, 10, 10) {
	case 1:
		return nil
	case 2:
		return make([]byte, 64)
	case 3:
		return make([]byte, 65)
	case 4:
		return bytes.Repeat([]byte{0xff}, 65)
	case 5:
		return make([]byte, 66)
	case 6:
		return []byte{1}
	}
	b := make([]byte, 65)
	for i := range b {
		b[i] = byte(i*7 + 3)
	}
	b[64] = byte(rapid.IntRange(0, 5).Draw(t, label+".v"))
	return b
}

// genVote: a vote, validly signed by the attacker's validator key unless a garbage signature is drawn.
func (c *cctx) genVote(t *rapid.T) (*kproto.Vote, string) {
	if weighted(t, "vote.nil", 95, 5) == 1 {
		return nil, "nil-vote"
	}
	idx, val := c.v.nd.CS.Validators.GetByAddress(c.v.s.Addr(c.attacker))
	vidx := uint32(idx)
	addr := c.v.s.Addr(c.attacker).Bytes()
	if val == nil {
		vidx = 0
	}
	desc := "signed"
	who := 0
	if !c.nat(t, "vote.who") {
		who = weighted(t, "vote.who", 40, 25, 20, 15)
	}
	switch who {
	case 1:
		vidx = c.genIndex(t, "vote.idx", c.nVals)
		desc += "+other-index"
	case 2:
		addr = pick(t, "vote.addr", []byte(nil), make([]byte, 20), make([]byte, 19), make([]byte, 21), c.v.nd.Addr.Bytes())
		desc += "+other-address"
	case 3:
		vidx, addr = uint32(c.v.nd.ValidatorIndex()), c.v.nd.Addr.Bytes() // claims to be the victim itself
		desc += "+as-victim"
	}
	pv := &kproto.Vote{Type: c.genType(t, "vote.type"), Height: c.nearH(t, "vote.h"), Round: c.nearR(t, "vote.r"),
		BlockID: c.genBlockID(t, "vote.id", 1<<32-1), Timestamp: c.genTime(t, "vote.ts"), ValidatorAddress: addr, ValidatorIndex: vidx}
	if c.nat(t, "vote.sig") || weighted(t, "vote.sig", 50, 50) == 0 {
		if err := types.NewDefaultPrivValidator(c.v.s.Keys[c.attacker]).SignVote(c.v.s.G.ChainID, pv); err != nil {
			pv.Signature = genSigGarbage(t, "vote.gsig")
			desc = "unsignable"
		}
	} else {
		pv.Signature = genSigGarbage(t, "vote.gsig")
		desc = "garbage-sig"
	}
	return pv, desc
}

// genProposal: signed by the proposer of the victim's round (if the attacker holds that key) or by the attacker's own
// key, or carrying garbage. Part counts above 2^26 are only drawn together with a signature the victim cannot accept:
// with a valid one the node would try to allocate tens of GiB (D10) and the shard would be killed by the memory limit.
func (c *cctx) genProposal(t *rapid.T) (*kproto.Proposal, string) {
	signer := c.attacker
	desc := "by-attacker"
	byProposer := c.attacker == c.proposer
	if byProposer {
		desc = "by-proposer"
	}
	garbage := !c.nat(t, "prop.sig") && weighted(t, "prop.sig", 50, 50) == 1
	maxHuge := uint32(1 << 26)
	if garbage || !byProposer {
		maxHuge = 1<<32 - 1
	}
	pp := &kproto.Proposal{Type: genType(t, "prop.type"), Height: c.nearH(t, "prop.h"), Round: c.nearR(t, "prop.r"),
		PolRound: pick(t, "prop.pol", 0, 0, 0, 1, c.R-1, c.R, c.R+1, 1<<32-1), BlockID: c.genBlockID(t, "prop.id", maxHuge), Timestamp: c.genTime(t, "prop.ts")}
	if garbage {
		pp.Signature = genSigGarbage(t, "prop.gsig")
		return pp, "garbage-sig"
	}
	if err := types.NewDefaultPrivValidator(c.v.s.Keys[signer]).SignProposal(c.v.s.G.ChainID, pp); err != nil {
		pp.Signature = genSigGarbage(t, "prop.gsig")
		return pp, "unsignable"
	}
	return pp, desc
}

func (c *cctx) genPart(t *rapid.T) (kproto.Part, string) {
	var base kproto.Part
	desc := "synthetic"
	if len(c.parts) > 0 && weighted(t, "part.src", 85, 15) == 0 {
		p := c.parts[rapid.IntRange(0, len(c.parts)-1).Draw(t, "part.i")]
		pb, _ := p.ToProto()
		base = *pb
		base.Bytes = append([]byte{}, pb.Bytes...)
		base.Proof.Aunts = append([][]byte{}, pb.Proof.Aunts...)
		desc = "genuine"
	} else {
		base = kproto.Part{Index: 0, Bytes: []byte("part bytes"), Proof: kcrypto.Proof{Total: 1, Index: 0, LeafHash: make([]byte, 32)}}
	}
	nm := 0
	if !c.nat(t, "part.nm") {
		nm = weighted(t, "part.nm", 10, 60, 30)
	}
	for i := 0; i < nm; i++ {
		switch weighted(t, "part.m", 10, 10, 10, 10, 8, 8, 6, 6, 6, 6) {
		case 0:
			base.Index = c.genIndex(t, "part.index", int(base.Proof.Total))
			desc += "+index"
		case 1:
			base.Proof.Index = genU64Near(t, "part.pindex", uint64(base.Index))
			desc += "+proof.index"
		case 2:
			base.Proof.Total = genU64Near(t, "part.ptotal", base.Proof.Total)
			desc += "+proof.total"
		case 3:
			base.Proof.LeafHash = c.genHash(t, "part.leaf", base.Proof.LeafHash)
			desc += "+leaf"
		case 4:
			k := pick(t, "part.aunts", 1, 2, 30, 100, 101, 1000)
			a := make([][]byte, k)
			for j := range a {
				a[j] = make([]byte, 32)
			}
			base.Proof.Aunts = a
			desc += "+aunts"
		case 5:
			base.Proof.Aunts = [][]byte{{1, 2, 3}}
			desc += "+short-aunt"
		case 6:
			base.Bytes = make([]byte, pick(t, "part.big", types.BlockPartSizeBytes-1, types.BlockPartSizeBytes, types.BlockPartSizeBytes+1, 4*types.BlockPartSizeBytes))
			desc += "+size"
		case 7:
			base.Bytes = nil
			desc += "+empty"
		case 8:
			if len(base.Bytes) > 0 {
				base.Bytes[rapid.IntRange(0, len(base.Bytes)-1).Draw(t, "part.flip")] ^= 1
			}
			desc += "+flip"
		case 9:
			base.Proof = kcrypto.Proof{}
			desc += "+no-proof"
		}
	}
	return base, desc
}

// structured draws one structure-aware message.
func (c *cctx) structured(t *rapid.T) wire {
	return c.structuredType(t, weighted(t, "type", 12, 14, 14, 10, 12, 14, 8, 8, 12))
}

// message type numbers of structuredType
const (
	mNewRoundStep = iota
	mNewValidBlock
	mProposal
	mProposalPOL
	mBlockPart
	mVote
	mHasVote
	mVoteSetMaj23
	mVoteSetBits
)

// templates: message-type sequences in which each message builds on what the previous ones did to the peer state.
var templates = [][]int{
	{mVote, mVoteSetBits},
	{mVote, mVoteSetMaj23, mVoteSetBits},
	{mVoteSetMaj23, mVoteSetBits, mVoteSetBits},
	{mProposal, mProposalPOL, mHasVote},
	{mProposal, mProposalPOL, mVote},
	{mNewValidBlock, mBlockPart},
	{mNewValidBlock, mHasVote, mVoteSetBits},
	{mProposal, mBlockPart, mBlockPart},
	{mVote, mHasVote, mVoteSetBits},
	{mVoteSetMaj23, mVoteSetMaj23, mVote},
	{mProposal, mNewValidBlock, mProposalPOL},
	{mVote, mVote, mVote},
}

func (c *cctx) structuredType(t *rapid.T, k int) wire {
	// most messages deviate from a well-formed one in one or two fields only, some in many
	c.calm = pick(t, "calm", 96, 96, 92, 85, 70, 40, 0)
	switch k {
	case 0:
		step := pick(t, "nrs.step", uint32(1), 2, 3, 4, 5, 6, 7, 8, 0, 9, 255, 256+3, 1<<32-1)
		h := c.nearH(t, "nrs.h")
		lcr := genU32Near(t, "nrs.lcr", c.v.lastCommitRound())
		if weighted(t, "nrs.lcrfit", 70, 30) == 0 { // what ValidateHeight demands
			if h <= 1 {
				lcr = 0
			} else if lcr == 0 {
				lcr = 1
			}
		}
		return wire{ch: consensus.StateChannel, desc: "NewRoundStep", data: encCons(&kcons.NewRoundStep{Height: h, Round: c.nearR(t, "nrs.r"), Step: step,
			SecondsSinceStartTime: pick(t, "nrs.secs", uint64(0), 1, 1<<31, 1<<63, ^uint64(0)), LastCommitRound: lcr})}
	case 1:
		id := c.genBlockID(t, "nvb.id", 1<<32-1)
		nat := int(id.PartSetHeader.Total)
		if nat > 1<<20 {
			nat = 1 << 20
		}
		b, bd := c.genBits(t, "nvb.bits", nat)
		return wire{ch: consensus.StateChannel, desc: "NewValidBlock/" + bd, data: encCons(&kcons.NewValidBlock{Height: c.nearH(t, "nvb.h"), Round: c.nearR(t, "nvb.r"),
			BlockPartSetHeader: id.PartSetHeader, BlockParts: b, IsCommit: rapid.Bool().Draw(t, "nvb.commit")})}
	case 2:
		pp, d := c.genProposal(t)
		return wire{ch: consensus.DataChannel, desc: "Proposal/" + d, data: encCons(&kcons.Proposal{Proposal: *pp})}
	case 3:
		b, bd := c.genBits(t, "pol.bits", c.nVals)
		return wire{ch: consensus.DataChannel, desc: "ProposalPOL/" + bd, data: encCons(&kcons.ProposalPOL{Height: c.nearH(t, "pol.h"),
			ProposalPolRound: pick(t, "pol.r", 0, 1, 1, c.R-1, c.R, c.R+1, 1<<32-1), ProposalPol: bitsVal(b)})}
	case 4:
		p, d := c.genPart(t)
		return wire{ch: consensus.DataChannel, desc: "BlockPart/" + d, data: encCons(&kcons.BlockPart{Height: c.nearH(t, "bp.h"), Round: c.nearR(t, "bp.r"), Part: p})}
	case 5:
		pv, d := c.genVote(t)
		return wire{ch: consensus.VoteChannel, desc: "Vote/" + d, data: encCons(&kcons.Vote{Vote: pv})}
	case 6:
		return wire{ch: consensus.StateChannel, desc: "HasVote", data: encCons(&kcons.HasVote{Height: c.nearH(t, "hv.h"), Round: c.nearR(t, "hv.r"),
			Type: c.genType(t, "hv.type"), Index: c.genIndex(t, "hv.idx", c.nVals)})}
	case 7:
		return wire{ch: consensus.StateChannel, desc: "VoteSetMaj23", data: encCons(&kcons.VoteSetMaj23{Height: c.nearH(t, "m23.h"), Round: c.nearR(t, "m23.r"),
			Type: c.genType(t, "m23.type"), BlockID: c.genBlockID(t, "m23.id", 1<<32-1)})}
	}
	b, bd := c.genBits(t, "vsb.bits", c.nVals)
	return wire{ch: consensus.VoteSetBitsChannel, desc: "VoteSetBits/" + bd, data: encCons(&kcons.VoteSetBits{Height: c.nearH(t, "vsb.h"), Round: c.nearR(t, "vsb.r"),
		Type: c.genType(t, "vsb.type"), BlockID: c.genBlockID(t, "vsb.id", 1<<32-1), Votes: bitsVal(b)})}
}

// ---------------------------------------------------------------- byte-level generators (shared by all channels)

// mutate applies 1-3 byte-level mutations to a valid encoding.
func mutate(t *rapid.T, in []byte) []byte {
	data := append([]byte{}, in...)
	for i, n := 0, rapid.IntRange(1, 3).Draw(t, "mut.n"); i < n && len(data) > 0; i++ {
		pos := rapid.IntRange(0, len(data)-1).Draw(t, "mut.pos")
		switch rapid.IntRange(0, 7).Draw(t, "mut.k") {
		case 0:
			data[pos] = pick(t, "mut.b", byte(0), 1, 0x7f, 0x80, 0xff)
		case 1:
			data = append(data[:pos], data[pos+1:]...)
		case 2:
			data[pos] ^= 1 << uint(rapid.IntRange(0, 7).Draw(t, "mut.bit"))
		case 3:
			data = data[:pos]
		case 4: // a varint that runs on
			data = append(data[:pos], append([]byte{0xff, 0xff, 0xff, 0xff, 0xff, 0xff, 0xff, 0xff, 0xff, 0x01}, data[pos:]...)...)
		case 5: // duplicate a slice (repeated fields, a oneof set twice)
			end := pos + rapid.IntRange(1, 40).Draw(t, "mut.len")
			if end > len(data) {
				end = len(data)
			}
			data = append(data[:end], append(append([]byte{}, data[pos:end]...), data[end:]...)...)
		case 6:
			data[pos]++
		case 7:
			data[pos]--
		}
	}
	return data
}

// unknownField appends (or prepends) a field no message of ours declares, in a drawn wire type.
func unknownField(t *rapid.T, in []byte) []byte {
	num := pick(t, "unk.num", 10, 15, 16, 99, 536870911)
	var f []byte
	putVarint := func(x uint64) {
		for x >= 0x80 {
			f = append(f, byte(x)|0x80)
			x >>= 7
		}
		f = append(f, byte(x))
	}
	switch wt := pick(t, "unk.wt", 0, 1, 2, 5, 3, 4, 6, 7); wt {
	case 0:
		putVarint(uint64(num)<<3 | 0)
		putVarint(pick(t, "unk.v", uint64(0), 1, 1<<63))
	case 1:
		putVarint(uint64(num)<<3 | 1)
		f = append(f, 1, 2, 3, 4, 5, 6, 7, 8)
	case 2:
		putVarint(uint64(num)<<3 | 2)
		n := pick(t, "unk.len", 0, 3, 200)
		putVarint(uint64(n))
		f = append(f, make([]byte, n)...)
	case 5:
		putVarint(uint64(num)<<3 | 5)
		f = append(f, 1, 2, 3, 4)
	default: // groups and reserved wire types
		putVarint(uint64(num)<<3 | uint64(wt))
	}
	if rapid.Bool().Draw(t, "unk.front") {
		return append(f, in...)
	}
	return append(append([]byte{}, in...), f...)
}

func randomBytes(t *rapid.T) []byte {
	return rapid.SliceOfN(rapid.Byte(), 0, 64).Draw(t, "rand")
}
