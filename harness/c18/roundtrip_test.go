package c18

import (
	"bytes"
	"fmt"
	"math/big"
	"reflect"
	"testing"
	"time"

	"github.com/gogo/protobuf/proto"
	"pgregory.net/rapid"

	bc "github.com/kardiachain/go-kardia/blockchain"
	"github.com/kardiachain/go-kardia/consensus"
	cstypes "github.com/kardiachain/go-kardia/consensus/types"
	"github.com/kardiachain/go-kardia/lib/common"
	"github.com/kardiachain/go-kardia/lib/merkle"
	"github.com/kardiachain/go-kardia/lib/p2p"
	"github.com/kardiachain/go-kardia/lib/p2p/pex"
	"github.com/kardiachain/go-kardia/mainchain/tx_pool"
	bcproto "github.com/kardiachain/go-kardia/proto/kardiachain/blockchain"
	kp2p "github.com/kardiachain/go-kardia/proto/kardiachain/p2p"
	kproto "github.com/kardiachain/go-kardia/proto/kardiachain/types"
	"github.com/kardiachain/go-kardia/trie"
	"github.com/kardiachain/go-kardia/types"
	"github.com/kardiachain/go-kardia/types/evidence"

	"verifharness/internal/ev"
	"verifharness/internal/netsim"
)

// ---------------------------------------------------------------- well-formed messages

func rtHash(t *rapid.T, label string) common.Hash {
	b := rapid.SliceOfN(rapid.Byte(), 32, 32).Draw(t, label)
	if bytes.Equal(b, make([]byte, 32)) {
		b[0] = 1
	}
	return common.BytesToHash(b)
}

func rtTime(t *rapid.T, label string) time.Time {
	// any instant a protobuf timestamp can carry, UTC (the decoder yields UTC)
	return time.Unix(rapid.Int64Range(-62135596800, 253402300799).Draw(t, label+".s"), rapid.Int64Range(0, 999999999).Draw(t, label+".n")).UTC()
}

func rtBlockID(t *rapid.T, label string) types.BlockID {
	return types.BlockID{Hash: rtHash(t, label+".h"), PartsHeader: types.PartSetHeader{Total: rapid.Uint32Range(1, types.MaxBlockPartsCount).Draw(t, label+".t"), Hash: rtHash(t, label+".ph")}}
}

func rtBits(t *rapid.T, label string, n int) *common.BitArray {
	ba := common.NewBitArray(n)
	for i := 0; i < n; i++ {
		if rapid.Bool().Draw(t, label) {
			ba.SetIndex(i, true)
		}
	}
	return ba
}

func rtVote(t *rapid.T) *types.Vote {
	v := &types.Vote{Type: kproto.SignedMsgType(rapid.IntRange(1, 2).Draw(t, "v.type")), Height: rapid.Uint64().Draw(t, "v.h"), Round: rapid.Uint32().Draw(t, "v.r"),
		Timestamp: rtTime(t, "v.ts"), ValidatorAddress: common.BytesToAddress(rapid.SliceOfN(rapid.Byte(), 20, 20).Draw(t, "v.addr")),
		ValidatorIndex: rapid.Uint32().Draw(t, "v.idx"), Signature: rapid.SliceOfN(rapid.Byte(), 1, 80).Draw(t, "v.sig")}
	if rapid.Bool().Draw(t, "v.forblock") {
		v.BlockID = rtBlockID(t, "v.id")
	}
	return v
}

// rtConsensus draws one well-formed message of the given kind (0..8).
func rtConsensus(t *rapid.T, k int) consensus.Message {
	h, r := rapid.Uint64().Draw(t, "h"), rapid.Uint32().Draw(t, "r")
	typ := kproto.SignedMsgType(rapid.IntRange(1, 2).Draw(t, "type"))
	switch k {
	case 0:
		return &consensus.NewRoundStepMessage{Height: h, Round: r, Step: cstypes.RoundStepType(rapid.IntRange(1, 8).Draw(t, "step")),
			SecondsSinceStartTime: rapid.Uint64().Draw(t, "secs"), LastCommitRound: rapid.Uint32().Draw(t, "lcr")}
	case 1:
		id := rtBlockID(t, "id")
		return &consensus.NewValidBlockMessage{Height: h, Round: r, BlockPartsHeader: id.PartsHeader, BlockParts: rtBits(t, "bits", int(id.PartsHeader.Total)), IsCommit: rapid.Bool().Draw(t, "commit")}
	case 2:
		return &consensus.ProposalMessage{Proposal: &types.Proposal{Height: h, Round: r, POLRound: rapid.Uint32().Draw(t, "pol"), Timestamp: rtTime(t, "ts"),
			POLBlockID: rtBlockID(t, "id"), Signature: rapid.SliceOfN(rapid.Byte(), 1, 80).Draw(t, "sig")}}
	case 3:
		return &consensus.ProposalPOLMessage{Height: h, ProposalPOLRound: r, ProposalPOL: rtBits(t, "bits", rapid.IntRange(1, 300).Draw(t, "n"))}
	case 4:
		n := rapid.IntRange(1, 5).Draw(t, "parts")
		items := make([][]byte, n)
		for i := range items {
			items[i] = rapid.SliceOfN(rapid.Byte(), 1, 200).Draw(t, "part")
		}
		_, proofs := merkle.SimpleProofsFromByteSlices(items)
		i := rapid.IntRange(0, n-1).Draw(t, "i")
		return &consensus.BlockPartMessage{Height: h, Round: r, Part: &types.Part{Index: uint32(i), Bytes: items[i], Proof: *proofs[i]}}
	case 5:
		return &consensus.VoteMessage{Vote: rtVote(t)}
	case 6:
		return &consensus.HasVoteMessage{Height: h, Round: r, Type: typ, Index: rapid.Uint32().Draw(t, "idx")}
	case 7:
		return &consensus.VoteSetMaj23Message{Height: h, Round: r, Type: typ, BlockID: rtBlockID(t, "id")}
	}
	m := &consensus.VoteSetBitsMessage{Height: h, Round: r, Type: typ, BlockID: rtBlockID(t, "id")}
	if rapid.Bool().Draw(t, "hasvotes") {
		m.Votes = rtBits(t, "bits", rapid.IntRange(1, 300).Draw(t, "n"))
	} // else: no votes for that block, what an honest node answers to an unfounded claim
	return m
}

// normalise maps the two representations of "no bits" (nil and a zero-size array) to one, and drops wall-clock
// readings; everything else is compared as is.
func normalise(m consensus.Message) consensus.Message {
	if x, ok := m.(*consensus.VoteSetBitsMessage); ok && x.Votes.Size() == 0 {
		c := *x
		c.Votes = nil
		return &c
	}
	if x, ok := m.(*consensus.BlockPartMessage); ok && len(x.Part.Proof.Aunts) == 0 && x.Part.Proof.Aunts != nil {
		c, p := *x, *x.Part
		p.Proof.Aunts = nil // an empty list of aunts (single-part block) has one wire form
		c.Part = &p
		return &c
	}
	return m
}

// TestRoundTrip: decode(encode(m)) == m for every message type of every channel.
func TestRoundTrip(t *testing.T) {
	var w *world
	defer func() {
		if w != nil {
			w.s.Close()
		}
	}()
	rapid.Check(t, func(t *rapid.T) {
		switch ch := pick(t, "channel", "consensus", "consensus", "consensus", "blocksync", "txpool", "evidence", "pex"); ch {
		case "consensus":
			k := spread(t, "kind", 9)
			m := rtConsensus(t, k)
			name := msgTypeName(m)
			text := fmt.Sprintf("roundtrip consensus %s %+v", name, m)
			var bz []byte
			var back consensus.Message
			var err error
			ev.Guard(t, func() string { return text }, func() {
				if err = m.ValidateBasic(); err != nil {
					return
				}
				bz = consensus.MustEncode(m)
				back, err = consensus.VerifC18DecodeMsg(bz)
			})
			if err != nil {
				ev.Violation(t, "roundtrip.consensus."+name+".rejected", text, "a well-formed %s does not survive: %v", name, err)
				return
			}
			if !reflect.DeepEqual(normalise(m), normalise(back)) {
				ev.Violation(t, "roundtrip.consensus."+name+".changed", text, "decode(encode(m)) != m:\n sent %+v\n got  %+v", m, back)
				return
			}
			if bz2 := consensus.MustEncode(back); !bytes.Equal(bz, bz2) {
				ev.Violation(t, "roundtrip.consensus."+name+".reencode-differs", text, "encode(decode(encode(m))) != encode(m)")
			}
			ev.Case(true, text, "roundtrip", "roundtrip:consensus:"+name)
		case "blocksync":
			var pb proto.Message
			switch spread(t, "kind", 5) {
			case 0:
				pb = &bcproto.BlockRequest{Height: rapid.Uint64Min(1).Draw(t, "h")}
			case 1:
				pb = &bcproto.NoBlockResponse{Height: rapid.Uint64Min(1).Draw(t, "h")}
			case 2:
				pb = &bcproto.StatusRequest{}
			case 3:
				h := rapid.Uint64().Draw(t, "h")
				pb = &bcproto.StatusResponse{Height: h, Base: rapid.Uint64Range(0, h).Draw(t, "base")}
			case 4:
				if w == nil {
					w = newWorld(t, 4)
				}
				b := w.nd.BOps.LoadBlock(uint64(1 + spread(t, "blk", 3)))
				bp, err := b.ToProto()
				if err != nil {
					t.Fatalf("harness: %v", err)
				}
				pb = &bcproto.BlockResponse{Block: bp}
			}
			name := fmt.Sprintf("%T", pb)[len("*blockchain."):]
			text := fmt.Sprintf("roundtrip blocksync %s %v", name, trunc(fmt.Sprint(pb), 300))
			var back proto.Message
			var err error
			ev.Guard(t, func() string { return text }, func() {
				var bz []byte
				if bz, err = bc.EncodeMsg(pb); err == nil {
					if back, err = bc.DecodeMsg(bz); err == nil {
						err = bc.ValidateMsg(back)
					}
				}
			})
			if err != nil {
				ev.Violation(t, "roundtrip.blocksync."+name+".rejected", text, "a well-formed %s does not survive: %v", name, err)
				return
			}
			if !proto.Equal(pb, back) {
				ev.Violation(t, "roundtrip.blocksync."+name+".changed", text, "decode(encode(m)) != m")
				return
			}
			if br, ok := back.(*bcproto.BlockResponse); ok {
				b0, _ := types.BlockFromProto(pb.(*bcproto.BlockResponse).Block, trie.NewStackTrie(nil))
				b1, err := types.BlockFromProto(br.Block, trie.NewStackTrie(nil))
				if err != nil || b0.Hash() != b1.Hash() {
					ev.Violation(t, "roundtrip.blocksync.block.hash-changed", text, "block hash differs after the round trip (%v)", err)
				}
			}
			ev.Case(true, text, "roundtrip", "roundtrip:blocksync:"+name)
		case "txpool":
			n := rapid.IntRange(1, 4).Draw(t, "n")
			kind := spread(t, "kind", 3)
			var msg tx_pool.Message
			var want []common.Hash
			if kind == 0 {
				var txs tx_pool.PooledTransactions
				for i := 0; i < n; i++ {
					tx := types.NewTransaction(rapid.Uint64().Draw(t, "nonce"), common.BytesToAddress([]byte{byte(i + 1)}), big.NewInt(rapid.Int64Min(0).Draw(t, "amt")),
						rapid.Uint64().Draw(t, "gas"), big.NewInt(rapid.Int64Min(0).Draw(t, "price")), rapid.SliceOfN(rapid.Byte(), 0, 100).Draw(t, "data"))
					stx, err := types.SignTx(types.HomesteadSigner{}, tx, netsim.Key(100))
					if err != nil {
						t.Fatalf("harness: %v", err)
					}
					txs = append(txs, stx)
					want = append(want, stx.Hash())
				}
				msg = txs
			} else {
				for i := 0; i < n; i++ {
					want = append(want, rtHash(t, "hash"))
				}
				if kind == 1 {
					msg = tx_pool.NewPooledTransactionHashes(want)
				} else {
					msg = tx_pool.RequestPooledTransactionHashes(want)
				}
			}
			name := fmt.Sprintf("%T", msg)[len("tx_pool."):]
			text := fmt.Sprintf("roundtrip txpool %s %x", name, want)
			var back interface{}
			var err error
			ev.Guard(t, func() string { return text }, func() { back, err = tx_pool.VerifC18DecodeMsg(tx_pool.MustEncode(msg)) })
			if err != nil {
				ev.Violation(t, "roundtrip.txpool."+name+".rejected", text, "a well-formed %s does not survive: %v", name, err)
				return
			}
			var got []common.Hash
			switch x := back.(type) {
			case tx_pool.PooledTransactions:
				for _, tx := range x {
					got = append(got, tx.Hash())
				}
			case tx_pool.NewPooledTransactionHashes:
				got = x
			case tx_pool.RequestPooledTransactionHashes:
				got = x
			}
			if fmt.Sprintf("%T", back) != fmt.Sprintf("%T", msg) || !reflect.DeepEqual(got, want) {
				ev.Violation(t, "roundtrip.txpool."+name+".changed", text, "decode(encode(m)) != m: got %T %x", back, got)
			}
			ev.Case(true, text, "roundtrip", "roundtrip:txpool:"+name)
		case "evidence":
			n := rapid.IntRange(1, 3).Draw(t, "n")
			var evs []types.Evidence
			for i := 0; i < n; i++ {
				a, b := rtVote(t), rtVote(t)
				a.BlockID, b.BlockID = rtBlockID(t, "ida"), rtBlockID(t, "idb")
				b.Type, b.Height, b.Round, b.ValidatorAddress, b.ValidatorIndex = a.Type, a.Height, a.Round, a.ValidatorAddress, a.ValidatorIndex
				if a.BlockID.Key() > b.BlockID.Key() { // ValidateBasic wants them ordered
					a, b = b, a
				}
				evs = append(evs, &types.DuplicateVoteEvidence{VoteA: a, VoteB: b, TotalVotingPower: rapid.Int64Min(1).Draw(t, "tvp"), ValidatorPower: rapid.Int64Min(1).Draw(t, "vp"), Timestamp: rtTime(t, "ts")})
			}
			text := fmt.Sprintf("roundtrip evidence %v", evs)
			var back []types.Evidence
			var err error
			ev.Guard(t, func() string { return text }, func() {
				for _, e := range evs {
					if err = e.ValidateBasic(); err != nil {
						return
					}
				}
				var bz []byte
				if bz, err = evidence.VerifC18EncodeMsg(evs); err == nil {
					back, err = evidence.VerifC18DecodeMsg(bz)
				}
			})
			if err != nil {
				ev.Violation(t, "roundtrip.evidence.rejected", text, "a well-formed evidence list does not survive: %v", err)
				return
			}
			if !reflect.DeepEqual(evs, back) {
				ev.Violation(t, "roundtrip.evidence.changed", text, "decode(encode(m)) != m:\n sent %v\n got  %v", evs, back)
			}
			ev.Case(true, text, "roundtrip", "roundtrip:evidence:List")
		case "pex":
			var pb proto.Message = &kp2p.PexRequest{}
			if rapid.Bool().Draw(t, "addrs") {
				var as []*p2p.NetAddress
				for i, n := 0, rapid.IntRange(0, 5).Draw(t, "n"); i < n; i++ {
					ip := rapid.SliceOfN(rapid.Byte(), 4, 4).Draw(t, "ip")
					if rapid.Bool().Draw(t, "v6") {
						ip = rapid.SliceOfN(rapid.Byte(), 16, 16).Draw(t, "ip6")
					}
					as = append(as, &p2p.NetAddress{ID: p2p.ID(fmt.Sprintf("%040x", rapid.Uint64().Draw(t, "id"))), IP: ip, Port: rapid.Uint16().Draw(t, "port")})
				}
				pb = &kp2p.PexAddrs{Addrs: p2p.NetAddressesToProto(as)}
				back, err := p2p.NetAddressesFromProto(pb.(*kp2p.PexAddrs).Addrs)
				if err != nil || len(back) != len(as) {
					ev.Violation(t, "roundtrip.pex.netaddress.rejected", fmt.Sprint(as), "NetAddress does not survive ToProto/FromProto: %v", err)
					return
				}
				for i := range as {
					if !as[i].Equals(back[i]) || as[i].Port != back[i].Port {
						ev.Violation(t, "roundtrip.pex.netaddress.changed", fmt.Sprint(as), "address %v came back as %v", as[i], back[i])
						return
					}
				}
			}
			name := fmt.Sprintf("%T", pb)[len("*p2p."):]
			text := fmt.Sprintf("roundtrip pex %s %v", name, pb)
			var back proto.Message
			var err error
			ev.Guard(t, func() string { return text }, func() { back, err = pex.VerifC18DecodeMsg(pex.VerifC18MustEncode(pb)) })
			if err != nil {
				ev.Violation(t, "roundtrip.pex."+name+".rejected", text, "a well-formed %s does not survive: %v", name, err)
				return
			}
			if !proto.Equal(pb, back) {
				ev.Violation(t, "roundtrip.pex."+name+".changed", text, "decode(encode(m)) != m")
			}
			ev.Case(true, text, "roundtrip", "roundtrip:pex:"+name)
		}
	})
}
