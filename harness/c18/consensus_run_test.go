package c18

import (
	"fmt"
	"sync"
	"time"

	"github.com/kardiachain/go-kardia/consensus"
	"github.com/kardiachain/go-kardia/lib/common"
	"github.com/kardiachain/go-kardia/lib/log"
	"github.com/kardiachain/go-kardia/types"

	"verifharness/internal/ev"
)

// seqInfo is what running one message sequence against a victim tells the generator-health statistics.
type seqInfo struct {
	decoded   []bool // per message: decodeMsg+ValidateBasic accepted it (it reached handler logic)
	queued    int    // messages that went on to handleMsg
	dropped   bool   // the peer was stopped by the node
	gossiped  bool   // stage 3 ran
	sends     int64  // messages the node sent to the peer
	abandoned bool   // a known finding was hit
	changed   bool   // the victim's consensus state changed
}

const gossipIters = 3

func msgTypeName(m consensus.Message) string {
	return fmt.Sprintf("%T", m)[len("*consensus."):]
}

// runSequence feeds the messages of one peer to the victim's consensus reactor and applies the five-stage oracle.
func (v *victim) runSequence(t ev.TB, rep reporter, ws []wire, caseText func() string) (info seqInfo) {
	cs := v.nd.CS
	acct = newAccount(false)
	peer := newPeer()
	v.conR.InitPeer(peer)
	if err := v.sw.VerifC18AddPeer(peer); err != nil {
		t.Fatalf("harness: add peer: %v", err)
	}
	ps, ok := peer.Get(types.PeerStateKey).(*consensus.PeerState)
	if !ok {
		t.Fatalf("harness: InitPeer left no peer state")
	}
	defer func() {
		if peer.IsRunning() {
			v.sw.StopPeerGracefully(peer)
		}
		v.uses++
		info.changed = v.fingerprint() != v.fp
	}()
	probes := append([]lockProbe{probeMutex("consensus.PeerState.mtx", ps.VerifC18Mtx())}, v.probes...)
	for i, w := range ws {
		// what the product's decoder makes of it (generator health only; Receive decodes again itself)
		var dm consensus.Message
		if _, fr := ev.Try(func() { dm, _ = consensus.VerifC18DecodeMsg(w.data) }); fr != "" {
			dm = nil
		}
		info.decoded = append(info.decoded, dm != nil)
		// stage 1: Receive returns
		w := w
		r := guarded(func() { v.conR.Receive(w.ch, peer, w.data) })
		akey := "alloc.consensus.receive"
		if dm != nil {
			akey += ":" + msgTypeName(dm)
		}
		if !oracle(t, rep, fmt.Sprintf("consensus Receive(ch %#x, message %d)", w.ch, i), akey, r, len(w.data), probes, caseText) {
			info.abandoned = true
			return
		}
		// stage 2: what Receive queued goes through WAL encoding and handleMsg, as in receiveRoutine
		for {
			mi, ok := cs.VerifC18PopPeerMsg()
			if !ok {
				break
			}
			info.queued++
			r := guarded(func() {
				_ = v.walEnc.Encode(&consensus.TimedWALMessage{Time: time.Now(), Msg: mi})
				cs.VerifC18HandleMsg(mi)
				v.s.DrainOwn(v.V)
			})
			akey := "alloc.consensus.handleMsg:" + msgTypeName(mi.Msg)
			if pm, ok := mi.Msg.(*consensus.ProposalMessage); ok && uint64(pm.Proposal.POLBlockID.PartsHeader.Total)*8 > allocSlack && r.alloc >= uint64(pm.Proposal.POLBlockID.PartsHeader.Total)*8 {
				akey = "alloc.proposal-partset-total"
			}
			if !oracle(t, rep, fmt.Sprintf("handleMsg(%s) of message %d", msgTypeName(mi.Msg), i), akey, r, 0, probes, caseText) {
				info.abandoned = true
				return
			}
		}
		if !peer.IsRunning() {
			info.dropped = true
			break
		}
	}
	if info.dropped {
		return // the node removed the peer: its gossip routines end, nothing consumes the peer state any more
	}
	// stage 3: the product's gossip code consumes the peer state
	info.gossiped = true
	ev.Inflight(caseText())
	for _, ba := range []struct {
		n string
		b *common.BitArray
	}{{"ProposalBlockParts", ps.PRS.ProposalBlockParts}, {"ProposalPOL", ps.PRS.ProposalPOL}, {"Prevotes", ps.PRS.Prevotes}, {"Precommits", ps.PRS.Precommits},
		{"LastCommit", ps.PRS.LastCommit}, {"CatchupCommit", ps.PRS.CatchupCommit}} {
		if ba.b != nil {
			probes = append(probes, probeMutex("common.BitArray.mtx(PeerRoundState."+ba.n+")", ba.b.VerifC18Mtx()))
		}
	}
	r := guarded(func() {
		rs, prs := cs.GetRoundState(), ps.GetRoundState()
		if rs.Height == prs.Height { // the condition under which gossipVotesRoutine calls it
			v.conR.VerifC18GossipVotesForHeight(log.New(), rs, prs, ps)
		}
		if prs.Height > 0 && prs.Height < rs.Height && prs.Height >= v.nd.BOps.Base() && prs.ProposalBlockParts != nil { // as in gossipDataRoutine
			v.conR.VerifC18GossipDataForCatchup(rs, prs, ps, peer)
		}
	})
	if !oracle(t, rep, "gossip helpers (gossipVotesForHeight / gossipDataForCatchup)", "alloc.consensus.gossip", r, 0, probes, caseText) {
		info.abandoned = true
		return
	}
	lps := [3]*loopPeer{{tpeer: peer, limit: gossipIters}, {tpeer: peer, limit: gossipIters}, {tpeer: peer, limit: gossipIters}}
	names := [3]string{"gossipDataRoutine", "gossipVotesRoutine", "queryMaj23Routine"}
	bodies := [3]func(){
		func() { v.conR.VerifC18GossipData(lps[0], ps) },
		func() { v.conR.VerifC18GossipVotes(lps[1], ps) },
		func() { v.conR.VerifC18QueryMaj23(lps[2], ps) },
	}
	var res [3]callResult
	var wg sync.WaitGroup
	for i := range bodies {
		wg.Add(1)
		go func(i int) {
			defer wg.Done()
			res[i] = guarded(bodies[i])
		}(i)
	}
	wg.Wait()
	for i := range res {
		if !oracle(t, rep, names[i]+" (runs without recover in production: a panic kills the node)", "alloc.consensus."+names[i], res[i], 0, probes, caseText) {
			info.abandoned = true
			return
		}
	}
	info.sends = peer.sends.Load()
	return
}
