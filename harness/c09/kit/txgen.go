package kit

import (
	"crypto/ecdsa"
	"fmt"
	"math/big"
	"strings"

	"pgregory.net/rapid"

	"github.com/kardiachain/go-kardia/lib/common"
	"github.com/kardiachain/go-kardia/types"
)

// View is the state as the generator sees it when it draws the next transaction (the live scratch state of the
// sequential application), used to aim at the boundaries: current nonce, exact balance.
type View interface {
	GetBalance(common.Address) *big.Int
	GetNonce(common.Address) uint64
}

// Target is an additional prepared call (e.g. into the staking contracts).
type Target struct {
	Name  string
	Addr  common.Address
	Data  []byte
	Value *big.Int
	Gas   uint64
	From  *ecdsa.PrivateKey // nil: any drawn sender
}

// GenCtx is what the transaction grammar draws from.
type GenCtx struct {
	T        []*Template
	Senders  []*ecdsa.PrivateKey
	ChainID  *big.Int
	Galaxias bool                                    // rules in force at the block's height (intrinsic gas 21 000 vs 29 000, signer)
	Extra    []Target                                // optional prepared calls
	ExtraPct int                                     // share of transactions (percent) drawn from Extra when it is non-empty (default 8)
	BigLate  bool                                    // allow late rejections (intrinsic / transfer) with a gas limit close to what is left in the block: the D11 shape
	Collide  func(from common.Address, nonce uint64) // optional: called when a creation is drawn with aim "collision" so that the caller can pre-place a contract at the derived address
}

// TxDraw is one drawn transaction.
type TxDraw struct {
	Tx    *types.Transaction
	From  common.Address
	Key   *ecdsa.PrivateKey
	Text  string // canonical text of the drawn transaction
	Shape string // plain / leaf:<t> / nest / create:<init> / extra:<name>
	Depth int    // call depth the call data asks for (1 = only the top-level call)
	Aim   string // what the generator aimed at (the oracle decides what it really is)
	Sig   string // homestead / chainid / wrongchain
	Path  []string
}

// Intrinsic is the harness's own intrinsic gas formula: 21 000 (29 000 before Galaxias) for a call, 53 000 for a
// creation, 68 per non-zero and 4 per zero byte of data.
func Intrinsic(data []byte, create, galaxias bool) uint64 {
	g := uint64(29000)
	if galaxias {
		g = 21000
	}
	if create {
		g = 53000
	}
	for _, b := range data {
		if b != 0 {
			g += 68
		} else {
			g += 4
		}
	}
	return g
}

func word(a common.Address) []byte { return common.LeftPadBytes(a[:], 32) }
func wordN(v int64) []byte         { return common.LeftPadBytes(big.NewInt(v).Bytes(), 32) }

func (c *GenCtx) leaves() []*Template {
	var out []*Template
	for _, t := range c.T {
		if !t.Router {
			out = append(out, t)
		}
	}
	return out
}
func (c *GenCtx) routers() []*Template {
	var out []*Template
	for _, t := range c.T {
		if t.Router {
			out = append(out, t)
		}
	}
	return out
}

var nestValues = []int64{0, 0, 1, 5, 50, 99, 100, 101, 150, 1000}

// Draw draws one transaction. poolLeft is the gas left in the block.
func (c *GenCtx) Draw(t *rapid.T, v View, poolLeft uint64) TxDraw {
	var d TxDraw
	si := rapid.IntRange(0, len(c.Senders)-1).Draw(t, "sender")
	d.Key = c.Senders[si]
	d.From = Addr(d.Key)
	bal := v.GetBalance(d.From)
	cur := v.GetNonce(d.From)

	// ---- shape: recipient and data
	var to *common.Address
	var data []byte
	create := false
	shapeW := rapid.IntRange(0, 99).Draw(t, "shape")
	if len(c.Extra) > 0 && c.ExtraPct > 8 && rapid.IntRange(0, 99).Draw(t, "extrapct") < c.ExtraPct {
		shapeW = 99
	}
	pad := func() []byte {
		n := rapid.SampledFrom([]int{0, 0, 0, 1, 4, 32, 80, 250}).Draw(t, "padlen")
		if n == 0 {
			return nil
		}
		nz := rapid.SampledFrom([]int{0, 50, 100}).Draw(t, "padnz")
		out := make([]byte, n)
		for i := range out {
			if (i*37+n)%100 < nz {
				out[i] = byte(1 + i%250)
			}
		}
		return out
	}
	switch {
	case shapeW < 18: // plain transfer
		kinds := []string{"sink", "fresh1", "fresh2", "new", "sender", "self", "precompile", "zero"}
		k := rapid.SampledFrom(kinds).Draw(t, "plainto")
		var a common.Address
		switch k {
		case "sink":
			a = Sink
		case "fresh1":
			a = Fresh1
		case "fresh2":
			a = Fresh2
		case "new":
			a = common.BytesToAddress([]byte{0xee, byte(rapid.IntRange(0, 255).Draw(t, "newaddr"))})
		case "sender":
			a = Addr(c.Senders[rapid.IntRange(0, len(c.Senders)-1).Draw(t, "tosender")])
		case "self":
			a = d.From
		case "precompile":
			a = common.BytesToAddress([]byte{byte(rapid.IntRange(1, 4).Draw(t, "pc"))})
		case "zero":
			a = common.Address{}
		}
		to, data = &a, pad()
		d.Shape, d.Depth = "plain", 1
		d.Path = []string{"plain:" + k}
	case shapeW < 40: // leaf template
		lt := rapid.SampledFrom(c.leaves()).Draw(t, "leaf")
		a := lt.Addr
		to, data = &a, pad()
		d.Shape, d.Depth = "leaf:"+lt.Name, 1
		d.Path = []string{lt.Name}
	case shapeW < 78: // nested calls through routers
		depth := rapid.IntRange(1, 3).Draw(t, "depth")
		rs := c.routers()
		first := rapid.SampledFrom(rs).Draw(t, "router")
		a := first.Addr
		to = &a
		d.Path = []string{first.Name}
		for lvl := 1; lvl <= depth; lvl++ {
			val := rapid.SampledFrom(nestValues).Draw(t, "nval")
			var tgt common.Address
			var name string
			if lvl < depth {
				r := rapid.SampledFrom(rs).Draw(t, "router")
				tgt, name = r.Addr, r.Name
			} else {
				switch rapid.IntRange(0, 9).Draw(t, "last") {
				case 0:
					tgt, name = Sink, "sink"
				case 1:
					tgt, name = Fresh1, "fresh1"
				case 2:
					tgt, name = d.From, "origin"
				default:
					lt := rapid.SampledFrom(c.leaves()).Draw(t, "leaf")
					tgt, name = lt.Addr, lt.Name
				}
			}
			data = append(data, word(tgt)...)
			data = append(data, wordN(val)...)
			d.Path = append(d.Path, fmt.Sprintf("%s:%d", name, val))
		}
		if rapid.IntRange(0, 19).Draw(t, "short") == 0 {
			data = data[:rapid.IntRange(0, 63).Draw(t, "shortlen")] // router underflows its size computation and fails
			d.Path = append(d.Path, "short-calldata")
		}
		d.Shape, d.Depth = "nest", depth+1
	case shapeW < 92 || len(c.Extra) == 0: // contract creation
		name := rapid.SampledFrom(InitCodeNames).Draw(t, "init")
		data = InitCodes[name]
		create = true
		d.Shape, d.Depth = "create:"+name, 1
		d.Path = []string{"create:" + name}
	default:
		x := c.Extra[rapid.IntRange(0, len(c.Extra)-1).Draw(t, "extra")]
		if x.From != nil {
			d.Key, d.From = x.From, Addr(x.From)
			bal, cur = v.GetBalance(d.From), v.GetNonce(d.From)
			si = -1
		}
		a := x.Addr
		to, data = &a, x.Data
		d.Shape, d.Depth = "extra:"+x.Name, 1
		d.Path = []string{"extra:" + x.Name}
		d.Aim = "extra"
	}
	intr := Intrinsic(data, create, c.Galaxias)

	// ---- aim: nonce / gas / price / value
	aims := []string{"ok", "ok", "ok", "ok", "ok", "ok", "ok", "ok", "ok", "ok", "ok", "ok", "nonce-low", "nonce-high", "funds", "funds-edge", "intrinsic", "intrinsic-edge", "transfer", "transfer-edge", "pool", "pool-edge", "sig-chainid", "sig-wrongchain"}
	if c.BigLate {
		aims = append(aims, "late-big")
	}
	if create && c.Collide != nil {
		aims = append(aims, "collision")
	}
	aim := rapid.SampledFrom(aims).Draw(t, "aim")
	nonce := cur
	execChoices := []int{0, 1, 700, 2300, 25000}
	switch {
	case d.Shape == "nest":
		execChoices = []int{700, 9000, 40000, 100000, 100000, 300000, 300000, 1000000}
	case strings.HasPrefix(d.Shape, "leaf"):
		execChoices = []int{0, 1, 700, 5000, 25000, 60000, 60000, 200000}
	case create:
		execChoices = []int{0, 1, 5000, 32000, 60000, 200000, 200000, 1000000}
	}
	exec := uint64(rapid.SampledFrom(execChoices).Draw(t, "execgas"))
	gas := intr + exec
	price := big.NewInt(int64(rapid.SampledFrom([]int{0, 1, 1, 2, 7, 1000000000}).Draw(t, "price")))
	value := big.NewInt(int64(rapid.SampledFrom([]int{0, 0, 1, 50, 1000000}).Draw(t, "value")))
	d.Sig = "homestead"
	if d.Aim == "extra" {
		x := c.Extra[0]
		for _, e := range c.Extra {
			if "extra:"+e.Name == d.Shape {
				x = e
			}
		}
		if x.Value != nil {
			value = new(big.Int).Set(x.Value)
		}
		if x.Gas != 0 {
			gas = x.Gas
		}
		price = big.NewInt(1)
		if aim != "nonce-low" && aim != "intrinsic" && aim != "ok" {
			aim = "ok"
		}
	}
	cost := func() *big.Int { return new(big.Int).Mul(new(big.Int).SetUint64(gas), price) }
	switch aim {
	case "nonce-low":
		if cur > 0 {
			nonce = cur - 1
		} else {
			nonce = cur + 1
		}
	case "nonce-high":
		nonce = cur + uint64(rapid.SampledFrom([]int{1, 2, 9}).Draw(t, "gap"))
	case "funds", "funds-edge":
		// gas*price just above (or exactly at) the balance
		p := new(big.Int).Div(bal, new(big.Int).SetUint64(gas))
		if aim == "funds" {
			p.Add(p, big.NewInt(1))
		}
		price, value = p, big.NewInt(0)
	case "intrinsic":
		gas = intr - uint64(rapid.SampledFrom([]int{1, 1, 2, 1000}).Draw(t, "below"))
	case "intrinsic-edge":
		gas = intr
	case "transfer", "transfer-edge":
		room := new(big.Int).Sub(bal, cost())
		if room.Sign() < 0 {
			price = big.NewInt(0)
			room = new(big.Int).Set(bal)
		}
		value = room
		if aim == "transfer" {
			value = new(big.Int).Add(room, big.NewInt(int64(rapid.SampledFrom([]int{1, 1, 2, 1000000}).Draw(t, "above"))))
		}
	case "pool":
		gas = poolLeft + uint64(rapid.SampledFrom([]int{1, 1, 2, 100000}).Draw(t, "over"))
		price = big.NewInt(int64(rapid.IntRange(0, 1).Draw(t, "p01")))
	case "pool-edge":
		if poolLeft >= intr {
			gas = poolLeft
		}
		price = big.NewInt(int64(rapid.IntRange(0, 1).Draw(t, "p01")))
	case "late-big":
		// rejected after the gas was bought, with (nearly) everything that is left in the block as its gas limit
		price = big.NewInt(int64(rapid.IntRange(0, 1).Draw(t, "p01")))
		if poolLeft > intr+100000 {
			gas = poolLeft - uint64(rapid.SampledFrom([]int{0, 1, 20999, 21000, 29000, 60000}).Draw(t, "leave"))
		}
		value = new(big.Int).Add(bal, big.NewInt(1)) // more than the sender owns
	case "sig-chainid":
		d.Sig = "chainid"
	case "sig-wrongchain":
		d.Sig = "wrongchain"
	case "collision":
		c.Collide(d.From, nonce)
	}
	// an endless loop is only ever given a few million gas (a block-sized loop would dominate the run time)
	if gas > 3000000 {
		for _, p := range d.Path {
			if strings.HasPrefix(p, "loop") {
				if aim == "late-big" {
					value = big.NewInt(0)
				}
				gas, aim = intr+exec, "ok"
				break
			}
		}
	}
	d.Aim = aim
	var tx *types.Transaction
	if create {
		tx = types.NewContractCreation(nonce, value, gas, price, data)
	} else {
		tx = types.NewTransaction(nonce, *to, value, gas, price, data)
	}
	var signer types.Signer = types.HomesteadSigner{}
	switch d.Sig {
	case "chainid":
		signer = types.NewChainIDSigner(c.ChainID)
	case "wrongchain":
		signer = types.NewChainIDSigner(new(big.Int).Add(c.ChainID, big.NewInt(1)))
	}
	stx, err := types.SignTx(signer, tx, d.Key)
	if err != nil {
		panic(fmt.Sprintf("kit: SignTx: %v", err))
	}
	d.Tx = stx
	toS := "create"
	if to != nil {
		toS = fmt.Sprintf("%x", to[:])
	}
	d.Text = fmt.Sprintf("tx{from=s%d nonce=%d(cur %d) to=%s path=%s value=%v gas=%d(intr %d) price=%v data=%dB sig=%s aim=%s}", si, nonce, cur, toS, strings.Join(d.Path, ">"), value, gas, intr, price, len(data), d.Sig, aim)
	return d
}
