// Package kit builds real go-kardia chains for the block-execution checks (C09, C06) without running consensus:
// every block comes out of a node's own CreateProposalBlock (optionally with a harness-chosen transaction list put into
// that header), the validators of the generated genesis really sign the commit (the harness holds all keys), and blocks
// are stored and executed through the product's own SaveBlock + cstate.BlockExecutor.ApplyBlock exactly as
// consensus.finalizeCommit / the block-sync processor do. Vote timestamps are a function of the height only, so a chain
// is a deterministic function of the drawn case (ECDSA signing in go-kardia is RFC 6979).
package kit

import (
	"crypto/ecdsa"
	"fmt"
	"math/big"
	"time"

	"github.com/kardiachain/go-kardia/configs"
	"github.com/kardiachain/go-kardia/kai/kaidb"
	"github.com/kardiachain/go-kardia/kai/rawdb"
	"github.com/kardiachain/go-kardia/kai/state"
	"github.com/kardiachain/go-kardia/kai/state/cstate"
	"github.com/kardiachain/go-kardia/kvm"
	"github.com/kardiachain/go-kardia/lib/common"
	"github.com/kardiachain/go-kardia/lib/crypto"
	"github.com/kardiachain/go-kardia/lib/log"
	"github.com/kardiachain/go-kardia/lib/rlp"
	"github.com/kardiachain/go-kardia/mainchain/blockchain"
	"github.com/kardiachain/go-kardia/mainchain/genesis"
	vm "github.com/kardiachain/go-kardia/mainchain/kvm"
	stypes "github.com/kardiachain/go-kardia/mainchain/staking/types"
	kproto "github.com/kardiachain/go-kardia/proto/kardiachain/types"
	"github.com/kardiachain/go-kardia/trie"
	"github.com/kardiachain/go-kardia/types"

	"verifharness/internal/netsim"
)

// World is a generated genesis plus every key in it.
type World struct {
	G       *genesis.Genesis
	ValKeys []*ecdsa.PrivateKey // genesis validators
	Funded  []*ecdsa.PrivateKey // extra funded externally owned accounts (1e27 wei each)
}

// NewWorld builds a genesis with len(powers) validators and `funded` extra funded accounts. galaxias != nil sets the
// Galaxias fork height on a private copy of the chain configuration (0 = from genesis on).
func NewWorld(powers []int64, funded int, galaxias *uint64) *World {
	g, keys := netsim.MakeGenesis(powers, funded)
	cfg := *g.Config // the genesis helper hands out the package-level TestnetChainConfig: never mutate it
	cfg.GalaxiasBlock = nil
	if galaxias != nil {
		v := *galaxias
		cfg.GalaxiasBlock = &v
	}
	g.Config = &cfg
	w := &World{G: g, ValKeys: keys}
	for i := 0; i < funded; i++ {
		w.Funded = append(w.Funded, netsim.Key(100+i))
	}
	return w
}

// Addr is the address of a key.
func Addr(k *ecdsa.PrivateKey) common.Address { return crypto.PubkeyToAddress(k.PublicKey) }

func (w *World) keyOf(a common.Address) *ecdsa.PrivateKey {
	for _, k := range w.ValKeys {
		if Addr(k) == a {
			return k
		}
	}
	for _, k := range w.Funded {
		if Addr(k) == a {
			return k
		}
	}
	return nil
}

// Entry is one block of a chain together with what a node stores next to it.
type Entry struct {
	Block *types.Block
	Parts *types.PartSet
	ID    types.BlockID
	Seen  *types.Commit // +2/3 precommits for Block, really signed by the validators of its height
}

// Result is what the application returned for one block (observed at the BlockStore interface the BlockExecutor calls).
type Result struct {
	Called bool
	Vals   []*types.Validator // validator list returned by CommitAndValidateBlockTxs (before calculateValidatorSetUpdates)
	Root   common.Hash        // application hash returned by CommitAndValidateBlockTxs
	Err    error
	Commit stypes.LastCommitInfo // what the executor handed to the application
}

// recStore forwards to the node's BlockOperations and records the call.
type recStore struct {
	inner *blockchain.BlockOperations
	last  Result
}

func (r *recStore) CommitAndValidateBlockTxs(b *types.Block, lc stypes.LastCommitInfo, byz []stypes.Evidence) ([]*types.Validator, common.Hash, error) {
	vals, root, err := r.inner.CommitAndValidateBlockTxs(b, lc, byz)
	r.last = Result{Called: true, Vals: vals, Root: root, Err: err, Commit: lc}
	return vals, root, err
}
func (r *recStore) Config() *configs.ChainConfig { return r.inner.Config() }

// Replica is a node (built exactly like mainchain/backend.go builds one) that follows a chain block by block.
type Replica struct {
	*netsim.Node
	W     *World
	State cstate.LatestBlockState // consensus-level state after the last applied block
	Exec  *cstate.BlockExecutor   // the product's executor, over a recording BlockStore
	rec   *recStore
	Tip   *Entry // last applied entry (nil at genesis)
}

// NewReplica builds a fresh node on the world's genesis with the given cache configuration (nil = product default).
func (w *World) NewReplica(idx int, cache *blockchain.CacheConfig, db kaidb.Database) (*Replica, error) {
	key := netsim.Key(50)
	if idx < len(w.ValKeys) {
		key = w.ValKeys[idx]
	}
	nd, err := netsim.NewNode(idx, w.G, key, netsim.NodeOpts{Cache: cache, DB: db})
	if err != nil {
		return nil, err
	}
	rec := &recStore{inner: nd.BOps}
	ex := cstate.NewBlockExecutor(nd.Store, log.New(), nd.EvPool, rec)
	ex.SetEventBus(nd.CS.VerifEventBus())
	return &Replica{Node: nd, W: w, State: nd.CS.VerifState(), Exec: ex, rec: rec}, nil
}

// Height of the last applied block.
func (r *Replica) Height() uint64 { return r.State.LastBlockHeight }

// voteTime is the (deterministic) timestamp of every precommit for a block of the given height.
func (w *World) voteTime(height uint64) time.Time {
	return w.G.Timestamp.Add(time.Duration(height) * 5 * time.Second)
}

// SignCommit makes the validators of vals precommit id at height/round; absent(i) leaves validator i out (the caller
// keeps +2/3).
func (w *World) SignCommit(vals *types.ValidatorSet, height uint64, round uint32, id types.BlockID, absent func(i int) bool) (*types.Commit, error) {
	sigs := make([]types.CommitSig, vals.Size())
	ts := w.voteTime(height)
	var have int64
	for i := 0; i < vals.Size(); i++ {
		_, v := vals.GetByIndex(uint32(i))
		if absent != nil && absent(i) {
			sigs[i] = types.NewCommitSigAbsent()
			continue
		}
		k := w.keyOf(v.Address)
		if k == nil {
			return nil, fmt.Errorf("no key for validator %x", v.Address)
		}
		vote := &types.Vote{ValidatorAddress: v.Address, ValidatorIndex: uint32(i), Height: height, Round: round, Timestamp: ts, Type: kproto.PrecommitType, BlockID: id}
		pv := vote.ToProto()
		if err := types.NewDefaultPrivValidator(k).SignVote(w.G.ChainID, pv); err != nil {
			return nil, err
		}
		sigs[i] = types.CommitSig{BlockIDFlag: types.BlockIDFlagCommit, ValidatorAddress: v.Address, Timestamp: ts, Signature: pv.Signature}
		have += v.VotingPower
	}
	if have*3 <= vals.TotalVotingPower()*2 {
		return nil, fmt.Errorf("commit without +2/3: %d of %d", have, vals.TotalVotingPower())
	}
	return types.NewCommit(height, round, id, sigs), nil
}

// ProposeOpts says how the next block is made.
type ProposeOpts struct {
	Txs       []*types.Transaction // nil: whatever CreateProposalBlock takes from the node's tx pool; non-nil: exactly these
	UseTxs    bool                 // Txs is authoritative (also when empty)
	Proposer  int                  // index into State.Validators (−1: the set's current proposer)
	AbsentLC  func(i int) bool     // signatures removed from the LastCommit put into the block (caller keeps +2/3)
	Round     uint32               // round of the commit that will be signed for this block
	AbsentNew func(i int) bool     // validators that do not sign this block's own (seen) commit
}

// Draft is a block in the making: the product's own proposal block (header, LastCommit) for the next height.
type Draft struct {
	Block *types.Block // what CreateProposalBlock returned (transactions taken from the node's pool)
	Parts *types.PartSet
	LC    *types.Commit
	opts  ProposeOpts
}

// Draft runs CreateProposalBlock on this replica for height r.Height()+1.
func (r *Replica) Draft(o ProposeOpts) (*Draft, error) {
	h := r.Height() + 1
	var lc *types.Commit
	if r.Tip == nil {
		lc = types.NewCommit(0, 0, types.BlockID{}, nil)
	} else {
		lc = deepCommit(r.Tip.Seen)
		if o.AbsentLC != nil {
			total := r.State.LastValidators.TotalVotingPower()
			var have int64
			for i, sg := range lc.Signatures {
				if sg.ForBlock() {
					_, v := r.State.LastValidators.GetByIndex(uint32(i))
					have += v.VotingPower
				}
			}
			for i := range lc.Signatures {
				if !lc.Signatures[i].ForBlock() || !o.AbsentLC(i) {
					continue
				}
				_, v := r.State.LastValidators.GetByIndex(uint32(i))
				if (have-v.VotingPower)*3 > total*2 {
					lc.Signatures[i] = types.NewCommitSigAbsent()
					have -= v.VotingPower
				}
			}
		}
	}
	var proposer common.Address
	if o.Proposer >= 0 && o.Proposer < r.State.Validators.Size() {
		_, v := r.State.Validators.GetByIndex(uint32(o.Proposer))
		proposer = v.Address
	} else {
		proposer = r.State.Validators.GetProposer().Address
	}
	block, parts := r.BOps.CreateProposalBlock(h, r.State, proposer, lc)
	if block == nil {
		return nil, fmt.Errorf("CreateProposalBlock returned nil")
	}
	return &Draft{Block: block, Parts: parts, LC: lc, opts: o}, nil
}

// Seal turns the draft into a committed entry: with UseTxs the harness-chosen transaction list is put into the
// product-made header (what a proposer whose pool held exactly these transactions in this order would have built),
// then the validators sign the commit.
func (r *Replica) Seal(d *Draft) (*Entry, error) {
	o := d.opts
	block, parts := d.Block, d.Parts
	if o.UseTxs {
		block = types.NewBlock(block.Header(), o.Txs, d.LC, nil, trie.NewStackTrie(nil))
		parts = block.MakePartSet(types.BlockPartSizeBytes)
	}
	id := types.BlockID{Hash: block.Hash(), PartsHeader: parts.Header()}
	seen, err := r.W.SignCommit(r.State.Validators, block.Height(), o.Round, id, o.AbsentNew)
	if err != nil {
		return nil, err
	}
	return &Entry{Block: block, Parts: parts, ID: id, Seen: seen}, nil
}

// SealWith is Seal with the given transaction list.
func (r *Replica) SealWith(d *Draft, txs []*types.Transaction) (*Entry, error) {
	d.opts.UseTxs, d.opts.Txs = true, txs
	return r.Seal(d)
}

// Propose makes the block for height r.Height()+1 on this replica (CreateProposalBlock on its current state), then has
// the validators sign it. The replica itself does not apply it.
func (r *Replica) Propose(o ProposeOpts) (*Entry, error) {
	d, err := r.Draft(o)
	if err != nil {
		return nil, err
	}
	return r.Seal(d)
}

// Received returns the entry as a node that got it from the network holds it: block rebuilt from its parts' bytes.
func (e *Entry) Received() (*Entry, error) {
	pb, err := e.Block.ToProto()
	if err != nil {
		return nil, err
	}
	b, err := types.BlockFromProto(pb, trie.NewStackTrie(nil))
	if err != nil {
		return nil, err
	}
	parts := b.MakePartSet(types.BlockPartSizeBytes)
	if !parts.Header().Equals(e.ID.PartsHeader) || b.Hash() != e.ID.Hash {
		return nil, fmt.Errorf("block changed identity through proto round trip")
	}
	return &Entry{Block: b, Parts: parts, ID: e.ID, Seen: deepCommit(e.Seen)}, nil
}

// Apply stores and executes the entry exactly like finalizeCommit: ValidateBlock, SaveBlock, ApplyBlock.
func (r *Replica) Apply(e *Entry) (Result, error) {
	if err := r.Exec.ValidateBlock(r.State, e.Block); err != nil {
		return Result{}, fmt.Errorf("ValidateBlock: %w", err)
	}
	r.BOps.SaveBlock(e.Block, e.Parts, e.Seen)
	r.rec.last = Result{}
	poolState := r.TxPool.State()
	st, _, err := r.Exec.ApplyBlock(r.State.Copy(), e.ID, e.Block)
	if err != nil {
		return r.rec.last, fmt.Errorf("ApplyBlock: %w", err)
	}
	// the pool follows head events on its own goroutine; wait until it has switched to the new head's state
	for i := 0; r.TxPool.State() == poolState; i++ {
		if i > 100000 {
			return r.rec.last, fmt.Errorf("harness: transaction pool did not follow the new head")
		}
		time.Sleep(50 * time.Microsecond)
	}
	r.State = st
	r.Tip = e
	return r.rec.last, nil
}

// BlockInfo reads the stored block info (gas used, reward, receipts with their storage fields, bloom) of a block
// without the derived fields (ReadBlockInfo refuses blocks whose receipt count differs from the tx count).
func (r *Replica) BlockInfo(e *Entry) (*types.BlockInfo, error) {
	data, _ := r.DB.Get(rawdb.VerifBlockInfoKey(e.Block.Height(), e.Block.Hash()))
	if len(data) == 0 {
		return nil, fmt.Errorf("no block info stored for height %d", e.Block.Height())
	}
	bi := &types.BlockInfo{}
	if err := rlp.DecodeBytes(data, bi); err != nil {
		return nil, err
	}
	return bi, nil
}

// StateAt opens the application state with the given root on the replica's state database.
func (r *Replica) StateAt(root common.Hash) (*state.StateDB, error) {
	s, err := r.BC.State()
	if err != nil {
		return nil, err
	}
	return state.New(root, s.Database(), nil)
}

// Account is one leaf of the account trie.
type Account struct {
	Nonce    uint64
	Balance  *big.Int
	Root     common.Hash
	CodeHash common.Hash
}

// Accounts walks the whole account trie under root (StateDB.RawDump panics in this port) and returns every account keyed
// by the hash of its address, plus the sum of all balances.
func Accounts(db state.Database, root common.Hash) (map[common.Hash]Account, *big.Int, error) {
	tr, err := db.OpenTrie(root)
	if err != nil {
		return nil, nil, err
	}
	out := map[common.Hash]Account{}
	sum := new(big.Int)
	it := trie.NewIterator(tr.NodeIterator(nil))
	for it.Next() {
		var acc types.StateAccount
		if err := rlp.DecodeBytes(it.Value, &acc); err != nil {
			return nil, nil, err
		}
		out[common.BytesToHash(it.Key)] = Account{Nonce: acc.Nonce, Balance: new(big.Int).Set(acc.Balance), Root: acc.Root, CodeHash: common.BytesToHash(acc.CodeHash)}
		sum.Add(sum, acc.Balance)
	}
	if it.Err != nil {
		return nil, nil, it.Err
	}
	return out, sum, nil
}

// AddrHash is the account-trie key of an address.
func AddrHash(a common.Address) common.Hash { return crypto.Keccak256Hash(a[:]) }

func deepCommit(c *types.Commit) *types.Commit {
	if c == nil {
		return nil
	}
	sigs := make([]types.CommitSig, len(c.Signatures))
	for i, sg := range c.Signatures {
		sigs[i] = sg
		sigs[i].Signature = common.CopyBytes(sg.Signature)
	}
	return types.NewCommit(c.Height, c.Round, c.BlockID, sigs)
}

// HeadRoot is the application state root the node's chain head points to (what BlockChain.State() opens; at genesis
// the consensus-level state carries no application hash yet).
func (r *Replica) HeadRoot() common.Hash {
	return rawdb.ReadAppHash(r.DB, r.BC.CurrentBlock().Height())
}

// DraftFromPool builds the next proposal the way a proposer does: the given transactions are submitted to the node's
// own transaction pool and the node's own BlockOperations runs CreateProposalBlock over it (so that anything the
// proposer keeps from making the proposal is still there when it commits the block). Returns the pool's verdict per
// submitted transaction. Apply waits until the pool has followed the new head, which keeps the pool's view a function
// of the chain and not of goroutine timing.
func (r *Replica) DraftFromPool(txs []*types.Transaction, local bool, o ProposeOpts) (*Draft, []error, error) {
	var errs []error
	if len(txs) > 0 {
		if local {
			errs = r.TxPool.AddLocals(txs)
		} else {
			errs = r.TxPool.AddRemotesSync(txs)
		}
	}
	d, err := r.Draft(o)
	return d, errs, err
}

// Advance applies tx to the scratch state the generator looks at, the way commitBlock would (no oracle; used only to
// keep the generator's view of nonces and balances exact). Returns whether it was executed.
func Advance(cfg *configs.ChainConfig, chain vm.ChainContext, st *state.StateDB, gp *types.GasPool, header *types.Header, tx *types.Transaction, idx int) (executed bool, receipt *types.Receipt) {
	st.Prepare(tx.Hash(), header.Hash(), idx)
	snap := st.Snapshot()
	pool0 := gp.Gas()
	used := new(uint64)
	rc, _, err := blockchain.ApplyTransaction(cfg, log.New(), chain, gp, st, header, tx, used, kvm.Config{})
	if err != nil {
		st.RevertToSnapshot(snap)
		*gp = types.GasPool(pool0)
		return false, nil
	}
	return true, rc
}
