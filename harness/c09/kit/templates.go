package kit

import (
	"math/big"

	"github.com/kardiachain/go-kardia/lib/common"
	"github.com/kardiachain/go-kardia/mainchain/genesis"
)

// Template is a contract the generated transactions call into. Leaves ignore their call data; routers read
// calldata[0:32] = target, calldata[32:64] = value, forward calldata[64:] to the target with all remaining gas, and
// then do what their name says. A chain of routers therefore nests calls to any drawn depth, with a value transfer and
// an outcome (return, revert, invalid, self-destruct, second call) drawn per level.
type Template struct {
	Name    string
	Addr    common.Address
	Code    []byte
	Balance int64
	Storage map[common.Hash]common.Hash
	Router  bool
}

// Fixed addresses that are not contracts.
var (
	Sink   = common.HexToAddress("0x5100000000000000000000000000000000000051") // receives value from templates; funded dust
	Fresh1 = common.HexToAddress("0xf1000000000000000000000000000000000000f1") // does not exist before a template pays it
	Fresh2 = common.HexToAddress("0xf2000000000000000000000000000000000000f2")
)

func taddr(b byte) common.Address {
	var a common.Address
	a[0], a[1], a[19] = 0xc0, b, b
	return a
}

func cat(parts ...[]byte) []byte {
	var out []byte
	for _, p := range parts {
		out = append(out, p...)
	}
	return out
}

func push20(a common.Address) []byte { return append([]byte{0x73}, a[:]...) }

// callPrefix: mem[0:size] = calldata[64:]; CALL(gas=all, calldata[0:32], calldata[32:64], 0, size, 0, 0). Leaves [size, ok].
var copyArgs = []byte{0x60, 0x40, 0x36, 0x03, 0x80, 0x60, 0x40, 0x60, 0x00, 0x37}
var doCall = []byte{0x60, 0x00, 0x60, 0x00, 0x82, 0x60, 0x00, 0x60, 0x20, 0x35, 0x60, 0x00, 0x35, 0x5a, 0xf1}
var doCallCode = []byte{0x60, 0x00, 0x60, 0x00, 0x82, 0x60, 0x00, 0x60, 0x20, 0x35, 0x60, 0x00, 0x35, 0x5a, 0xf2}
var doDelegate = []byte{0x60, 0x00, 0x60, 0x00, 0x82, 0x60, 0x00, 0x60, 0x00, 0x35, 0x5a, 0xf4}
var doStatic = []byte{0x60, 0x00, 0x60, 0x00, 0x82, 0x60, 0x00, 0x60, 0x00, 0x35, 0x5a, 0xfa}

func slot(i byte) common.Hash { return common.Hash{31: i} }

// Templates returns the fixed template set.
func Templates() []*Template {
	ts := []*Template{
		// ---- leaves
		{Name: "stop", Code: []byte{0x00}},
		{Name: "revert", Code: []byte{0x60, 0x00, 0x60, 0x00, 0xfd}},
		{Name: "invalid", Code: []byte{0xfe}},
		{Name: "loop", Code: []byte{0x5b, 0x60, 0x00, 0x56}},
		// SSTORE(0, CALLVALUE+1); SSTORE(3, SLOAD(3)+1); LOG1(topic 0x42)
		{Name: "store", Code: []byte{0x34, 0x60, 0x01, 0x01, 0x60, 0x00, 0x55, 0x60, 0x03, 0x54, 0x60, 0x01, 0x01, 0x60, 0x03, 0x55, 0x60, 0x42, 0x60, 0x00, 0x60, 0x00, 0xa1, 0x00}},
		// SSTORE(1,0); SSTORE(2,0): refund larger than half of the gas used by a plain call
		{Name: "clear2", Code: []byte{0x60, 0x00, 0x60, 0x01, 0x55, 0x60, 0x00, 0x60, 0x02, 0x55, 0x00}, Storage: map[common.Hash]common.Hash{slot(1): slot(9), slot(2): slot(9)}},
		// SSTORE(1,0): refund below or above half depending on the call data length
		{Name: "clear1", Code: []byte{0x60, 0x00, 0x60, 0x01, 0x55, 0x00}, Storage: map[common.Hash]common.Hash{slot(1): slot(9)}},
		// CALL(0xffff gas, Sink, 5)
		{Name: "pay5", Code: cat([]byte{0x60, 0x00, 0x60, 0x00, 0x60, 0x00, 0x60, 0x00, 0x60, 0x05}, push20(Sink), []byte{0x61, 0xff, 0xff, 0xf1, 0x00})},
		// CALL(all gas, Fresh2, 7): pays an account that does not exist yet
		{Name: "payfresh", Code: cat([]byte{0x60, 0x00, 0x60, 0x00, 0x60, 0x00, 0x60, 0x00, 0x60, 0x07}, push20(Fresh2), []byte{0x5a, 0xf1, 0x00})},
		{Name: "sd-sink", Code: cat(push20(Sink), []byte{0xff})},
		{Name: "sd-self", Code: []byte{0x30, 0xff}},
		{Name: "sd-fresh", Code: cat(push20(Fresh1), []byte{0xff})},
		{Name: "sd-caller", Code: []byte{0x33, 0xff}},
		// CREATE(value 3, empty init code)
		{Name: "create", Code: []byte{0x60, 0x00, 0x60, 0x00, 0x60, 0x03, 0xf0, 0x00}},
		// CREATE(value 3, init code = REVERT)
		{Name: "create-revert", Code: []byte{0x64, 0x60, 0x00, 0x60, 0x00, 0xfd, 0x60, 0x00, 0x52, 0x60, 0x05, 0x60, 0x1b, 0x60, 0x03, 0xf0, 0x00}},
		// CREATE(value 3, init code = ADDRESS SELFDESTRUCT): the created contract burns its endowment in its constructor
		{Name: "create-sdself", Code: []byte{0x61, 0x30, 0xff, 0x60, 0x00, 0x52, 0x60, 0x02, 0x60, 0x1e, 0x60, 0x03, 0xf0, 0x00}},
		// ---- routers
		{Name: "r-stop", Router: true, Code: cat(copyArgs, doCall, []byte{0x00})},
		{Name: "r-revert", Router: true, Code: cat(copyArgs, doCall, []byte{0x60, 0x00, 0x60, 0x00, 0xfd})},
		{Name: "r-invalid", Router: true, Code: cat(copyArgs, doCall, []byte{0xfe})},
		{Name: "r-sd-target", Router: true, Code: cat(copyArgs, doCall, []byte{0x60, 0x00, 0x35, 0xff})},
		{Name: "r-twice", Router: true, Code: cat(copyArgs, doCall, []byte{0x50}, doCall, []byte{0x00})},
		{Name: "r-store-call", Router: true, Code: cat([]byte{0x60, 0x07, 0x60, 0x00, 0x55}, copyArgs, doCall, []byte{0x00})},
		{Name: "r-delegate", Router: true, Code: cat(copyArgs, doDelegate, []byte{0x00})},
		{Name: "r-callcode", Router: true, Code: cat(copyArgs, doCallCode, []byte{0x00})},
		{Name: "r-static", Router: true, Code: cat(copyArgs, doStatic, []byte{0x00})},
	}
	for i, t := range ts {
		t.Addr = taddr(byte(i + 1))
		if t.Balance == 0 {
			t.Balance = 100
		}
	}
	return ts
}

// InitCodes are creation payloads for contract-creation transactions.
var InitCodes = map[string][]byte{
	"empty":      {},
	"stop":       {0x00},
	"store-ret":  {0x60, 0x01, 0x60, 0x00, 0x55, 0x60, 0x02, 0x60, 0x01, 0x55, 0x60, 0x00, 0x60, 0x00, 0xf3},                             // two SSTOREs, return empty code
	"deploy-sd":  {0x61, 0x30, 0xff, 0x60, 0x00, 0x52, 0x60, 0x02, 0x60, 0x1e, 0xf3},                                                     // returns runtime "ADDRESS SELFDESTRUCT"
	"revert":     {0x60, 0x00, 0x60, 0x00, 0xfd},                                                                                         // constructor reverts: endowment returns to the sender
	"invalid":    {0xfe},                                                                                                                 // constructor fails, all gas consumed
	"sd-sink":    append(append([]byte{0x73}, Sink[:]...), 0xff),                                                                         // constructor self-destructs to Sink
	"sd-self":    {0x30, 0xff},                                                                                                           // constructor burns the endowment
	"big-return": {0x61, 0x10, 0x00, 0x60, 0x00, 0xf3},                                                                                   // returns 4096 zero bytes of code: 819 200 code-deposit gas
	"pay-sink":   append(append([]byte{0x60, 0x00, 0x60, 0x00, 0x60, 0x00, 0x60, 0x00, 0x60, 0x02, 0x73}, Sink[:]...), 0x5a, 0xf1, 0x00), // constructor pays 2 to Sink
}

// InitCodeNames in a fixed order (map iteration must not influence generation).
var InitCodeNames = []string{"empty", "stop", "store-ret", "deploy-sd", "revert", "invalid", "sd-sink", "sd-self", "big-return", "pay-sink"}

// InstallGenesis puts the templates and the dust accounts into a genesis allocation.
func InstallGenesis(g *genesis.Genesis, ts []*Template) {
	for _, t := range ts {
		g.Alloc[t.Addr] = genesis.GenesisAccount{Code: t.Code, Balance: big.NewInt(t.Balance), Storage: t.Storage, Nonce: 1}
	}
	g.Alloc[Sink] = genesis.GenesisAccount{Balance: big.NewInt(1000)}
}
