package c09

import (
	"fmt"
	"math/big"
	"testing"

	"github.com/kardiachain/go-kardia/lib/common"
	"github.com/kardiachain/go-kardia/types"

	"verifharness/c09/kit"
	"verifharness/internal/ev"
	"verifharness/internal/netsim"
)

// d11Roots executes three one-block chains on three fresh nodes of the same genesis: [tx1, tx2], [tx2] and [],
// where tx1 is rejected AFTER its gas was bought (it transfers more than the sender owns) and has nearly the whole block
// gas limit as its gas limit, and tx2 is a plain transfer of the same sender with the same nonce.
func d11Roots() (with, without, empty common.Hash, executedWith int, err error) {
	w := kit.NewWorld([]int64{15}, 1, nil)
	k := w.Funded[0]
	signer := types.HomesteadSigner{}
	run := func(mk func(gasLimit uint64) []*types.Transaction) (common.Hash, int, error) {
		r, err := w.NewReplica(0, nil, nil)
		if err != nil {
			return common.Hash{}, 0, err
		}
		defer r.Close()
		d, err := r.Draft(kit.ProposeOpts{Proposer: -1})
		if err != nil {
			return common.Hash{}, 0, err
		}
		e, err := r.SealWith(d, mk(d.Block.Header().GasLimit))
		if err != nil {
			return common.Hash{}, 0, err
		}
		res, err := r.Apply(e)
		if err != nil {
			return common.Hash{}, 0, err
		}
		bi, err := r.BlockInfo(e)
		if err != nil {
			return common.Hash{}, 0, err
		}
		return res.Root, len(bi.Receipts), nil
	}
	tooMuch, _ := new(big.Int).SetString("2000000000000000000000000000", 10) // the account holds 1e27
	tx1 := func(limit uint64) *types.Transaction {
		tx, _ := types.SignTx(signer, types.NewTransaction(0, common.Address{9}, tooMuch, limit-100000, big.NewInt(1), nil), k)
		return tx
	}
	tx2, _ := types.SignTx(signer, types.NewTransaction(0, common.Address{9}, big.NewInt(12345), 200000, big.NewInt(1), nil), k)
	if with, executedWith, err = run(func(l uint64) []*types.Transaction { return []*types.Transaction{tx1(l), tx2} }); err != nil {
		return
	}
	if without, _, err = run(func(uint64) []*types.Transaction { return []*types.Transaction{tx2} }); err != nil {
		return
	}
	empty, _, err = run(func(uint64) []*types.Transaction { return nil })
	return
}

// TestKnownD11 is the directed reproducer of the known finding gaspool.not-restored-after-late-rejection.
func TestKnownD11(t *testing.T) {
	netsim.Quiet()
	var with, without, empty common.Hash
	var n int
	var err error
	msg, frame := ev.Try(func() { with, without, empty, n, err = d11Roots() })
	if msg != "" {
		ev.Violation(t, "panic:"+frame, "d11 blocks", "panic in the scripted D11 blocks: %s", msg)
		return
	}
	if err != nil {
		t.Fatalf("harness: D11 blocks could not be executed: %v", err)
	}
	desc := fmt.Sprintf("block [tx1 rejected for insufficient transfer funds with gas limit = block limit - 100000, tx2 plain transfer] -> root %x (%d executed); block [tx2] -> root %x; empty block -> root %x", with[:6], n, without[:6], empty[:6])
	ev.Case(true, "scripted late-rejection block", "known-reproducer")
	ev.Sample("known-reproducer", desc)
	reproduced := with != without
	if ev.Known(keyD11) {
		ev.KnownReproduced(keyD11, reproduced)
		return
	}
	if reproduced {
		ev.Violation(t, keyD11, "scripted late-rejection block", "%s", desc)
	}
}
