// C09 — transaction execution conserves value and accounts for gas and nonces exactly.
//
// Two levels share one per-transaction oracle (model_test.go):
//   - TestApplyTxAccounting: sequences of generated transactions through blockchain.ApplyTransaction on a synthetic
//     pre-state (the harness plays block_operations.commitBlock's loop), both before and after the Galaxias fork;
//   - TestBlockAccounting: chains of real blocks (product-made headers, commits really signed by the generated
//     validators) executed by the product's own BlockExecutor.ApplyBlock; the block's result is compared with the
//     sequential application of its transactions, the balances of ALL accounts are summed over the committed account
//     trie, and a second node executes the same chain with the rejected transactions left out.
package c09

import (
	"bytes"
	"fmt"
	"math/big"
	"os"
	"strings"
	"testing"
	"time"

	"pgregory.net/rapid"

	"github.com/kardiachain/go-kardia/configs"
	"github.com/kardiachain/go-kardia/kai/kaidb/memorydb"
	"github.com/kardiachain/go-kardia/kai/state"
	"github.com/kardiachain/go-kardia/lib/common"
	"github.com/kardiachain/go-kardia/mainchain/blockchain"
	"github.com/kardiachain/go-kardia/types"

	"verifharness/c09/kit"
	"verifharness/internal/ev"
	"verifharness/internal/netsim"
)

func TestMain(m *testing.M) {
	ev.Init("C09")
	rc := m.Run()
	ev.Flush()
	os.Exit(rc)
}

const keyD11 = "gaspool.not-restored-after-late-rejection"

var coinbaseSynthetic = common.HexToAddress("0xcb000000000000000000000000000000000000cb")

func bigOf(s string) *big.Int {
	v, ok := new(big.Int).SetString(s, 10)
	if !ok {
		panic(s)
	}
	return v
}

var senderBalances = []*big.Int{big.NewInt(0), big.NewInt(20999), big.NewInt(100000), big.NewInt(3000000), bigOf("1000000000"), bigOf("1000000000000000"), bigOf("1000000000000000"), bigOf("1000000000000000000000000000"), bigOf("1000000000000000000000000000")}

// ------------------------------------------------------------------------------------------------ synthetic level

func TestApplyTxAccounting(t *testing.T) {
	netsim.Quiet()
	ts := kit.Templates()
	maxTxs := ev.Scale("TXS", 8)
	rapid.Check(t, func(t *rapid.T) {
		gal := rapid.Bool().Draw(t, "galaxias")
		cfg := &configs.ChainConfig{ChainID: big.NewInt(242), Kaicon: &configs.KaiconConfig{Period: 15, Epoch: 30000}}
		if gal {
			g := uint64(3)
			cfg.GalaxiasBlock = &g
		}
		db := state.NewDatabase(memorydb.New())
		st, err := state.New(common.Hash{}, db, nil)
		if err != nil {
			t.Fatalf("harness: %v", err)
		}
		for _, tp := range ts {
			st.SetCode(tp.Addr, tp.Code)
			st.SetNonce(tp.Addr, 1)
			st.SetBalance(tp.Addr, big.NewInt(tp.Balance))
			for k, v := range tp.Storage {
				st.SetState(tp.Addr, k, v)
			}
		}
		st.SetBalance(kit.Sink, big.NewInt(1000))
		senders := []int{0, 1, 2}
		var head []string
		gctx := &kit.GenCtx{T: ts, ChainID: cfg.ChainID, Galaxias: gal}
		for _, i := range senders {
			k := netsim.Key(100 + i)
			gctx.Senders = append(gctx.Senders, k)
			b := rapid.SampledFrom(senderBalances).Draw(t, "balance")
			st.SetBalance(kit.Addr(k), b)
			n := uint64(rapid.SampledFrom([]int{0, 0, 1, 7}).Draw(t, "nonce0"))
			st.SetNonce(kit.Addr(k), n)
			head = append(head, fmt.Sprintf("s%d=%v/n%d", i, b, n))
		}
		if rapid.Bool().Draw(t, "coinbaseExists") {
			st.SetBalance(coinbaseSynthetic, big.NewInt(77))
		}
		root, err := st.Commit(false)
		if err != nil {
			t.Fatalf("harness: %v", err)
		}
		if st, err = state.New(root, db, nil); err != nil {
			t.Fatalf("harness: %v", err)
		}
		limit := uint64(rapid.SampledFrom([]int{100000, 500000, 3000000, 10000000}).Draw(t, "blockgas"))
		header := &types.Header{Height: 5, Time: time.Unix(1700000100, 0).UTC(), GasLimit: limit, ProposerAddress: coinbaseSynthetic}
		r := &runner{t: t, cfg: cfg, chain: fixedChain{cfg}, header: header, st: st, gp: new(types.GasPool).AddGas(limit), usedGas: new(uint64),
			restorePool: true, sumAll: true, collide: map[common.Address]bool{}, classes: map[string]bool{}, totalBurn: new(big.Int)}
		r.lines = append(r.lines, fmt.Sprintf("synthetic galaxias=%v blockgas=%d %s", gal, limit, strings.Join(head, " ")))
		gctx.Collide = func(from common.Address, nonce uint64) {
			ca := createAddr(from, nonce)
			st.SetCode(ca, []byte{0x00})
			st.SetNonce(ca, 1)
			st.Finalise(true)
			r.collide[ca] = true
		}
		n := rapid.IntRange(1, maxTxs).Draw(t, "ntx")
		for i := 0; i < n; i++ {
			d := gctx.Draw(t, st, r.gp.Gas())
			r.apply(d)
		}
		finishCase(r, "synthetic", gal)
	})
}

func finishCase(r *runner, level string, gal bool) {
	classes := []string{level}
	if gal {
		classes = append(classes, "galaxias")
	} else {
		classes = append(classes, "pre-galaxias")
	}
	for c := range r.classes {
		classes = append(classes, c)
	}
	shapes := map[string]bool{}
	for _, o := range r.outs {
		s := o.Draw.Shape
		if i := strings.IndexByte(s, ':'); i > 0 && !strings.HasPrefix(s, "create") {
			s = s[:i]
		}
		shapes["shape:"+s] = true
	}
	for s := range shapes {
		classes = append(classes, s)
	}
	nontrivial := r.nontrivial || r.mixed()
	if r.mixed() {
		classes = append(classes, "mixed-rejected-and-executed-same-sender")
	}
	ev.Case(nontrivial, r.text(), classes...)
	if nontrivial && ev.WantSample(level) {
		ev.Sample(level, r.lines)
	}
}

// ------------------------------------------------------------------------------------------------ block level

var cacheChoices = []string{"default", "archive", "archive+snap"}

func cacheOf(name string) *blockchain.CacheConfig {
	switch name {
	case "archive":
		return netsim.ArchiveCache()
	case "archive+snap":
		return &blockchain.CacheConfig{TrieCleanLimit: 16, TrieDirtyDisabled: true, SnapshotLimit: 16, SnapshotWait: true}
	}
	return nil
}

type blockResult struct {
	res  kit.Result
	info *types.BlockInfo
}

func applyEntry(t ev.TB, text func() string, r *kit.Replica, e *kit.Entry) blockResult {
	var res kit.Result
	var err error
	ev.Guard(t, text, func() { res, err = r.Apply(e) })
	if err != nil {
		ev.Violation(t, "block.apply-failed", text(), "a block made by CreateProposalBlock with a signed commit was not applied: %v", err)
	}
	bi, err := r.BlockInfo(e)
	if err != nil {
		t.Fatalf("harness: %v", err)
	}
	return blockResult{res, bi}
}

// receiptDiff compares the consensus content of two receipts ("" = equal).
func receiptDiff(a, b *types.Receipt) string {
	switch {
	case a.TxHash != b.TxHash:
		return fmt.Sprintf("tx hash %x vs %x", a.TxHash[:4], b.TxHash[:4])
	case a.Status != b.Status:
		return fmt.Sprintf("status %d vs %d", a.Status, b.Status)
	case a.GasUsed != b.GasUsed:
		return fmt.Sprintf("gas used %d vs %d", a.GasUsed, b.GasUsed)
	case a.CumulativeGasUsed != b.CumulativeGasUsed:
		return fmt.Sprintf("cumulative gas %d vs %d", a.CumulativeGasUsed, b.CumulativeGasUsed)
	case a.Bloom != b.Bloom:
		return "bloom"
	case a.ContractAddress != b.ContractAddress:
		return fmt.Sprintf("contract address %x vs %x", a.ContractAddress[:], b.ContractAddress[:])
	case len(a.Logs) != len(b.Logs):
		return fmt.Sprintf("%d logs vs %d", len(a.Logs), len(b.Logs))
	}
	for i := range a.Logs {
		x, y := a.Logs[i], b.Logs[i]
		if x.Address != y.Address || !bytes.Equal(x.Data, y.Data) || len(x.Topics) != len(y.Topics) {
			return fmt.Sprintf("log %d", i)
		}
		for j := range x.Topics {
			if x.Topics[j] != y.Topics[j] {
				return fmt.Sprintf("log %d topic %d", i, j)
			}
		}
	}
	return ""
}

func executedOf(outs []outcome) (txs []*types.Transaction, rs []*types.Receipt) {
	for _, o := range outs {
		if o.Executed {
			txs = append(txs, o.Draw.Tx)
			rs = append(rs, o.Receipt)
		}
	}
	return
}

func sameExecuted(a, b []outcome) bool {
	if len(a) != len(b) {
		return false
	}
	for i := range a {
		if a[i].Executed != b[i].Executed {
			return false
		}
		if a[i].Executed && receiptDiff(a[i].Receipt, b[i].Receipt) != "" {
			return false
		}
	}
	return true
}

func TestBlockAccounting(t *testing.T) {
	netsim.Quiet()
	maxTxs := ev.Scale("TXS", 6)
	maxBlocks := ev.Scale("BLOCKS", 3)
	rapid.Check(t, func(t *rapid.T) {
		nval := rapid.IntRange(1, 3).Draw(t, "validators")
		powers := make([]int64, nval)
		for i := range powers {
			powers[i] = int64(rapid.SampledFrom([]int{15, 15, 30}).Draw(t, "power"))
		}
		galName := rapid.SampledFrom([]string{"never", "never", "always", "always", "at-2"}).Draw(t, "galaxias")
		var gal *uint64
		switch galName {
		case "always":
			gal = new(uint64)
		case "at-2":
			g := uint64(2)
			gal = &g
		}
		w := kit.NewWorld(powers, 3, gal)
		ts := kit.Templates()
		kit.InstallGenesis(w.G, ts)
		cacheA := rapid.SampledFrom(cacheChoices).Draw(t, "cacheA")
		cacheB := rapid.SampledFrom(cacheChoices).Draw(t, "cacheB")
		A, err := w.NewReplica(0, cacheOf(cacheA), nil)
		if err != nil {
			t.Fatalf("harness: %v", err)
		}
		defer A.Close()
		B, err := w.NewReplica(1, cacheOf(cacheB), nil)
		if err != nil {
			t.Fatalf("harness: %v", err)
		}
		defer B.Close()
		lines := []string{fmt.Sprintf("block-level powers=%v galaxias=%s cacheA=%s cacheB=%s", powers, galName, cacheA, cacheB)}
		text := func() string { return strings.Join(lines, "\n") }
		classes := map[string]bool{}
		nontrivial := false
		anyGal := false
		var samples []string
		nblocks := rapid.IntRange(1, maxBlocks).Draw(t, "blocks")
		metamorphic := true
		for bn := 0; bn < nblocks; bn++ {
			absent := -1
			if nval == 3 && rapid.IntRange(0, 3).Draw(t, "absent") == 0 {
				absent = rapid.IntRange(0, 2).Draw(t, "absentIdx")
			}
			popts := kit.ProposeOpts{Proposer: -1, AbsentNew: func(i int) bool { return i == absent }}
			if absent >= 0 {
				// only drop a signature if +2/3 remains
				_, v := A.State.Validators.GetByIndex(uint32(absent))
				if (A.State.Validators.TotalVotingPower()-v.VotingPower)*3 <= A.State.Validators.TotalVotingPower()*2 {
					popts.AbsentNew = nil
					absent = -1
				}
			}
			var dA *kit.Draft
			ev.Guard(t, text, func() { dA, err = A.Draft(popts) })
			if err != nil {
				t.Fatalf("harness: %v", err)
			}
			hdr := dA.Block.Header()
			height := hdr.Height
			isGal := w.G.Config.IsGalaxias(&height)
			anyGal = anyGal || isGal
			lines = append(lines, fmt.Sprintf("block %d gaslimit=%d galaxias=%v absent=%d", height, hdr.GasLimit, isGal, absent))

			// 1. sequential application on a scratch state (the harness as the block loop, correct gas-pool semantics),
			//    which is also where the transactions are drawn from (live view) and where every per-transaction clause is checked
			preRoot := A.HeadRoot()
			scratch, err := A.StateAt(preRoot)
			if err != nil {
				t.Fatalf("harness: %v", err)
			}
			run := &runner{t: t, cfg: w.G.Config, chain: A.BC, header: hdr, st: scratch, gp: new(types.GasPool).AddGas(hdr.GasLimit), usedGas: new(uint64),
				restorePool: true, collide: map[common.Address]bool{}, classes: classes, totalBurn: new(big.Int)}
			run.lines = lines
			gctx := &kit.GenCtx{T: ts, Senders: w.Funded, ChainID: w.G.Config.ChainID, Galaxias: isGal, BigLate: rapid.IntRange(0, 5).Draw(t, "biglate") == 0}
			ntx := rapid.IntRange(0, maxTxs).Draw(t, "ntx")
			var draws []kit.TxDraw
			anyLate := false
			for i := 0; i < ntx; i++ {
				d := gctx.Draw(t, scratch, run.gp.Gas())
				o := run.apply(d)
				draws = append(draws, d)
				anyLate = anyLate || (!o.Executed && o.Late)
			}
			lines = run.lines
			nontrivial = nontrivial || run.nontrivial || run.mixed()
			if run.mixed() {
				classes["mixed-rejected-and-executed-same-sender"] = true
			}
			expect, expectState, expectBurn := run.outs, scratch, run.totalBurn

			// 2. the same sequence with the pool left as ApplyTransaction leaves it (only needed if that can differ)
			var alt *runner
			if anyLate {
				s2, err := A.StateAt(preRoot)
				if err != nil {
					t.Fatalf("harness: %v", err)
				}
				run2 := &runner{t: t, cfg: w.G.Config, chain: A.BC, header: hdr, st: s2, gp: new(types.GasPool).AddGas(hdr.GasLimit), usedGas: new(uint64),
					restorePool: false, quiet: true, collide: map[common.Address]bool{}, classes: map[string]bool{}, totalBurn: new(big.Int)}
				for _, d := range draws {
					run2.apply(d)
				}
				if !sameExecuted(run.outs, run2.outs) {
					alt = run2 // a block in which the leaked gas changes what is executed
				}
			}

			// 3. the real block through the real executor
			var txs []*types.Transaction
			for _, d := range draws {
				txs = append(txs, d.Tx)
			}
			var eA *kit.Entry
			ev.Guard(t, text, func() { eA, err = A.SealWith(dA, txs) })
			if err != nil {
				t.Fatalf("harness: %v", err)
			}
			if rapid.Bool().Draw(t, "received") {
				if eA, err = eA.Received(); err != nil {
					t.Fatalf("harness: %v", err)
				}
			}
			bA := applyEntry(t, text, A, eA)
			matches := func(outs []outcome) bool {
				_, want := executedOf(outs)
				if len(bA.info.Receipts) != len(want) {
					return false
				}
				for i, rc := range bA.info.Receipts {
					if receiptDiff(rc, want[i]) != "" {
						return false
					}
				}
				return true
			}
			d11 := false
			if alt != nil && !matches(expect) && matches(alt.outs) {
				// the block behaves exactly like the sequence with the leaked pool: the known finding D11, and nothing else
				d11 = true
				if !ev.Violation(t, keyD11, text(), "block %d: a transaction rejected after its gas was bought leaves the block gas pool reduced, and a later transaction of this block that fits the block is therefore rejected", height) {
					return
				}
				classes["known-D11-manifest"] = true
				expect, expectState, expectBurn = alt.outs, alt.st, alt.totalBurn
			}
			_, wantReceipts := executedOf(expect)
			if len(bA.info.Receipts) != len(wantReceipts) {
				var got []string
				for _, rc := range bA.info.Receipts {
					got = append(got, fmt.Sprintf("%x", rc.TxHash[:4]))
				}
				ev.Violation(t, "block.executed-set", text(), "block %d: %d receipts %v, sequential application executes %d of %d transactions", height, len(got), got, len(wantReceipts), len(txs))
			}
			var total uint64
			for i, rc := range bA.info.Receipts {
				if d := receiptDiff(rc, wantReceipts[i]); d != "" {
					ev.Violation(t, "block.receipt-differs-from-sequential-application", text(), "block %d receipt %d: %s", height, i, d)
				}
				total += rc.GasUsed
			}
			if bA.info.GasUsed != total || total > hdr.GasLimit {
				ev.Violation(t, "block.gasused", text(), "block %d: BlockInfo.GasUsed %d, receipts sum to %d, gas limit %d", height, bA.info.GasUsed, total, hdr.GasLimit)
			}
			if bA.info.Bloom != types.CreateBloom(wantReceipts) {
				ev.Violation(t, "block.bloom", text(), "block %d: stored bloom differs from the bloom of the receipts", height)
			}
			// every account the transactions touched: same balance, nonce, code and storage as the sequential application
			post, err := A.StateAt(bA.res.Root)
			if err != nil {
				ev.Violation(t, "block.root-unreadable", text(), "block %d: state %x returned by the application cannot be opened: %v", height, bA.res.Root[:6], err)
			}
			touched := map[common.Address]bool{hdr.ProposerAddress: true, kit.Sink: true, kit.Fresh1: true, kit.Fresh2: true}
			for _, tp := range ts {
				touched[tp.Addr] = true
			}
			for _, k := range w.Funded {
				touched[kit.Addr(k)] = true
			}
			for _, o := range expect {
				if o.Executed && o.Draw.Tx.To() == nil {
					touched[o.Receipt.ContractAddress] = true
				}
				if o.Draw.Tx.To() != nil {
					touched[*o.Draw.Tx.To()] = true
				}
			}
			for a := range touched {
				if g, x := post.GetBalance(a), expectState.GetBalance(a); g.Cmp(x) != 0 {
					role := "account"
					if a == hdr.ProposerAddress {
						role = "proposer"
					}
					ev.Violation(t, "block.balance:"+role, text(), "block %d: %s %x has balance %v after the block, sequential application gives %v", height, role, a[:], g, x)
				}
				if g, x := post.GetNonce(a), expectState.GetNonce(a); g != x {
					ev.Violation(t, "block.nonce", text(), "block %d: account %x has nonce %d after the block, sequential application gives %d", height, a[:], g, x)
				}
				if g, x := post.GetCodeHash(a), expectState.GetCodeHash(a); g != x {
					ev.Violation(t, "block.code", text(), "block %d: account %x code hash differs from the sequential application", height, a[:])
				}
				for s := byte(0); s < 4; s++ {
					k := common.Hash{31: s}
					if g, x := post.GetState(a, k), expectState.GetState(a, k); g != x {
						ev.Violation(t, "block.storage", text(), "block %d: account %x slot %d is %x, sequential application gives %x", height, a[:], s, g[:], x[:])
					}
				}
			}
			// conservation over ALL accounts of the committed trie: only the block reward appears, only burnt funds disappear
			_, sum0, err := kit.Accounts(post.Database(), preRoot)
			if err != nil {
				t.Fatalf("harness: %v", err)
			}
			_, sum1, err := kit.Accounts(post.Database(), bA.res.Root)
			if err != nil {
				t.Fatalf("harness: %v", err)
			}
			reward := new(big.Int)
			if bA.info.Rewards != nil {
				reward = bA.info.Rewards
			}
			want := new(big.Int).Sub(new(big.Int).Add(sum0, reward), expectBurn)
			if sum1.Cmp(want) != 0 {
				ev.Violation(t, "block.conservation", text(), "block %d: sum of ALL balances %v -> %v, expected %v (+ block reward %v, - burnt %v)", height, sum0, sum1, want, reward, expectBurn)
			}

			// 4. metamorphic: the other node executes the chain without the rejected transactions
			if d11 {
				metamorphic = false // the chains legitimately differ from here on (known finding); nothing to compare any more
			}
			if metamorphic {
				keep, _ := executedOf(expect)
				var dB *kit.Draft
				ev.Guard(t, text, func() { dB, err = B.Draft(kit.ProposeOpts{Proposer: -1, AbsentNew: popts.AbsentNew}) })
				if err != nil {
					t.Fatalf("harness: %v", err)
				}
				var eB *kit.Entry
				ev.Guard(t, text, func() { eB, err = B.SealWith(dB, keep) })
				if err != nil {
					t.Fatalf("harness: %v", err)
				}
				bB := applyEntry(t, text, B, eB)
				if bA.res.Root != bB.res.Root {
					ev.Violation(t, "reject.block-differs-from-block-without-rejected", text(), "block %d: root %x with the %d rejected transactions in the block, %x without them", height, bA.res.Root[:6], bB.res.Root[:6], len(txs)-len(keep))
				}
				if len(bA.info.Receipts) != len(bB.info.Receipts) || bA.info.GasUsed != bB.info.GasUsed || bA.info.Bloom != bB.info.Bloom {
					ev.Violation(t, "reject.receipts-differ-from-block-without-rejected", text(), "block %d: %d receipts / %d gas with the rejected transactions, %d / %d without", height, len(bA.info.Receipts), bA.info.GasUsed, len(bB.info.Receipts), bB.info.GasUsed)
				}
				for i := range bA.info.Receipts {
					if d := receiptDiff(bA.info.Receipts[i], bB.info.Receipts[i]); d != "" {
						ev.Violation(t, "reject.receipts-differ-from-block-without-rejected", text(), "block %d receipt %d: %s", height, i, d)
					}
				}
				if len(keep) < len(txs) {
					classes["metamorphic-with-rejected"] = true
				}
			}
			lines = append(lines, fmt.Sprintf("block %d applied: %d/%d executed gas=%d reward=%v burn=%v", height, len(wantReceipts), len(txs), total, reward, expectBurn))
			if len(samples) < 40 {
				samples = lines
			}
		}
		cl := []string{"block-level", "galaxias:" + galName, fmt.Sprintf("validators=%d", nval)}
		for c := range classes {
			cl = append(cl, c)
		}
		ev.Case(nontrivial, text(), cl...)
		if nontrivial && ev.WantSample("block-level") {
			ev.Sample("block-level", samples)
		}
	})
}
