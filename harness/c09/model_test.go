package c09

import (
	"fmt"
	"math/big"
	"sort"
	"strings"
	"time"

	ethcommon "github.com/ethereum/go-ethereum/common"
	ethcrypto "github.com/ethereum/go-ethereum/crypto"

	"github.com/kardiachain/go-kardia/configs"
	"github.com/kardiachain/go-kardia/kai/state"
	"github.com/kardiachain/go-kardia/kvm"
	"github.com/kardiachain/go-kardia/lib/common"
	"github.com/kardiachain/go-kardia/lib/log"
	"github.com/kardiachain/go-kardia/mainchain/blockchain"
	vm "github.com/kardiachain/go-kardia/mainchain/kvm"
	"github.com/kardiachain/go-kardia/types"

	"verifharness/c09/kit"
	"verifharness/internal/ev"
)

// ---------------------------------------------------------------------------------------------------------------------
// value-flow model fed by the KVM tracer hooks
//
// The harness cannot know which calls a program makes without interpreting it; the tracer hooks tell it which frames
// were entered (type, from, to, value) and whether each ended in an error. Everything else is the harness's own
// arithmetic: balances start from the state before the transaction, a CALL/CREATE frame moves its value when it is
// entered, a frame that ends in an error undoes everything that happened inside it (including its own transfer), a
// SELFDESTRUCT moves the model's balance of the contract to the beneficiary and zeroes the contract, and whatever a
// self-destructed account holds at the end of the transaction is burnt with it.

type jentry struct {
	addr    common.Address
	bal     *big.Int
	dead    bool
	wasDead bool
}

type valTracer struct {
	pre   *state.StateDB
	bal   map[common.Address]*big.Int
	dead  map[common.Address]bool
	jr    []jentry
	marks []int
	env   *kvm.KVM

	started, ended bool
	exec, refund   uint64
	endErr         error

	maxDepth     int
	valueDeep    bool // a value > 0 moved in a frame at depth >= 2
	selfdestruct int
	innerFailed  int
	creates      int
}

func newValTracer(pre *state.StateDB) *valTracer {
	return &valTracer{pre: pre, bal: map[common.Address]*big.Int{}, dead: map[common.Address]bool{}}
}

func (v *valTracer) get(a common.Address) *big.Int {
	if b, ok := v.bal[a]; ok {
		return b
	}
	b := new(big.Int).Set(v.pre.GetBalance(a))
	v.bal[a] = b
	return b
}
func (v *valTracer) set(a common.Address, nb *big.Int) {
	v.jr = append(v.jr, jentry{addr: a, bal: v.get(a)})
	v.bal[a] = nb
}
func (v *valTracer) kill(a common.Address) {
	v.jr = append(v.jr, jentry{addr: a, dead: true, wasDead: v.dead[a]})
	v.dead[a] = true
}
func (v *valTracer) move(from, to common.Address, amount *big.Int) {
	if amount == nil || amount.Sign() == 0 {
		v.get(from)
		v.get(to)
		return
	}
	v.set(from, new(big.Int).Sub(v.get(from), amount))
	v.set(to, new(big.Int).Add(v.get(to), amount))
}
func (v *valTracer) enter() {
	v.marks = append(v.marks, len(v.jr))
	if len(v.marks) > v.maxDepth {
		v.maxDepth = len(v.marks)
	}
}
func (v *valTracer) exit(err error) {
	m := v.marks[len(v.marks)-1]
	v.marks = v.marks[:len(v.marks)-1]
	if err == nil {
		return
	}
	for i := len(v.jr) - 1; i >= m; i-- {
		e := v.jr[i]
		if e.dead {
			v.dead[e.addr] = e.wasDead
		} else {
			v.bal[e.addr] = e.bal
		}
	}
	v.jr = v.jr[:m]
}

func (v *valTracer) CaptureStart(env *kvm.KVM, from, to common.Address, create bool, input []byte, gas uint64, value *big.Int) {
	v.env, v.started = env, true
	v.enter()
	v.move(from, to, value)
	if create {
		v.creates++
	}
}
func (v *valTracer) CaptureEnd(output []byte, gasUsed uint64, _ time.Duration, err error) {
	v.ended, v.exec, v.endErr = true, gasUsed, err
	v.refund = v.env.StateDB.GetRefund()
	v.exit(err)
}
func (v *valTracer) CaptureEnter(typ kvm.OpCode, from, to common.Address, input []byte, gas uint64, value *big.Int) {
	v.enter()
	switch typ {
	case kvm.CALL, kvm.CREATE, kvm.CREATE2:
		if value != nil && value.Sign() > 0 && len(v.marks) >= 2 {
			v.valueDeep = true
		}
		v.move(from, to, value)
		if typ != kvm.CALL {
			v.creates++
		}
	case kvm.SELFDESTRUCT:
		v.selfdestruct++
		amount := new(big.Int).Set(v.get(from))
		v.set(to, new(big.Int).Add(v.get(to), amount))
		v.set(from, new(big.Int))
		v.kill(from)
	}
}
func (v *valTracer) CaptureExit(output []byte, gasUsed uint64, err error) {
	if err != nil {
		v.innerFailed++
	}
	v.exit(err)
}
func (v *valTracer) CaptureState(pc uint64, op kvm.OpCode, gas, cost uint64, scope *kvm.ScopeContext, rData []byte, depth int, err error) {
}
func (v *valTracer) CaptureFault(pc uint64, op kvm.OpCode, gas, cost uint64, scope *kvm.ScopeContext, depth int, err error) {
}

// finish burns what self-destructed accounts still hold and returns the burnt amount.
func (v *valTracer) finish() *big.Int {
	burn := new(big.Int)
	addrs := make([]common.Address, 0, len(v.dead))
	for a, d := range v.dead {
		if d {
			addrs = append(addrs, a)
		}
	}
	for _, a := range addrs {
		burn.Add(burn, v.get(a))
		v.bal[a] = new(big.Int)
	}
	return burn
}

// burnedBySelfTransfer: the SELFDESTRUCT-to-self amounts never show up as a balance left in a dead account (the model
// zeroes the contract after crediting it), so the total burn is computed as the drop of the model's total instead.
func (v *valTracer) total() *big.Int {
	s := new(big.Int)
	for _, b := range v.bal {
		s.Add(s, b)
	}
	return s
}

// ---------------------------------------------------------------------------------------------------------------------
// chain context for the synthetic level

type fixedChain struct{ cfg *configs.ChainConfig }

func (c fixedChain) Config() *configs.ChainConfig                 { return c.cfg }
func (c fixedChain) GetHeader(common.Hash, uint64) *types.Header { return nil }

// ---------------------------------------------------------------------------------------------------------------------
// sequential application with the per-transaction oracle

type outcome struct {
	Draw     kit.TxDraw
	Executed bool
	Reason   string // why the rule says it is rejected ("" = must execute)
	Late     bool   // rejected after the gas was bought (intrinsic gas, insufficient funds for transfer)
	Receipt  *types.Receipt
	Burn     *big.Int
	Failed   bool
}

type runner struct {
	t       ev.TB
	cfg     *configs.ChainConfig
	chain   vm.ChainContext
	header  *types.Header
	st      *state.StateDB
	gp      *types.GasPool
	usedGas *uint64
	idx     int
	// restorePool: the harness, acting as the block loop, gives the gas of a rejected transaction back to the block
	// (what "as if it had not been in the block" requires). false = leave the pool as ApplyTransaction left it (D11).
	restorePool bool
	sumAll      bool // sum the balances of ALL accounts before/after every transaction (synthetic level: cheap)
	quiet       bool // no class counting (second run of the same sequence)
	lines       []string
	outs        []outcome
	collide     map[common.Address]bool
	classes     map[string]bool
	nontrivial  bool
	totalBurn   *big.Int
}

func (r *runner) text() string { return strings.Join(r.lines, "\n") }

func (r *runner) class(c string) {
	if !r.quiet {
		r.classes[c] = true
	}
}

func (r *runner) galaxias() bool { return r.cfg.IsGalaxias(&r.header.Height) }

// predict is the harness's own reading of the rejection rules, in the order the statement lists them.
func (r *runner) predict(d kit.TxDraw) (reason string, late bool) {
	tx := d.Tx
	gal := r.galaxias()
	switch d.Sig {
	case "chainid":
		if !gal {
			return "signature", false
		}
	case "wrongchain":
		return "signature", false
	}
	if n := r.st.GetNonce(d.From); tx.Nonce() != n {
		return "nonce", false
	}
	bal := r.st.GetBalance(d.From)
	cost := new(big.Int).Mul(new(big.Int).SetUint64(tx.Gas()), tx.GasPrice())
	if bal.Cmp(cost) < 0 {
		return "funds", false
	}
	if r.gp.Gas() < tx.Gas() {
		return "blockgas", false
	}
	if tx.Gas() < kit.Intrinsic(tx.Data(), tx.To() == nil, gal) {
		return "intrinsic", true
	}
	if tx.Value().Sign() > 0 && new(big.Int).Sub(bal, cost).Cmp(tx.Value()) < 0 {
		return "transfer", true
	}
	return "", false
}

func sumAccounts(st *state.StateDB) *big.Int {
	c := st.Copy()
	root, err := c.Commit(true)
	if err != nil {
		panic(fmt.Sprintf("harness: commit of a state copy failed: %v", err))
	}
	_, sum, err := kit.Accounts(c.Database(), root)
	if err != nil {
		panic(fmt.Sprintf("harness: walking the account trie failed: %v", err))
	}
	return sum
}

// apply runs one transaction through blockchain.ApplyTransaction the way block_operations.commitBlock does (Prepare,
// Snapshot, ApplyTransaction, RevertToSnapshot on error) and checks every accounting clause of the property.
func (r *runner) apply(d kit.TxDraw) outcome {
	t := r.t
	tx := d.Tx
	st := r.st
	r.lines = append(r.lines, d.Text)
	out := outcome{Draw: d, Burn: new(big.Int)}
	out.Reason, out.Late = r.predict(d)
	viol := func(key, f string, a ...interface{}) {
		ev.Violation(t, key, r.text(), "tx#%d %s: "+f, append([]interface{}{r.idx, d.Text}, a...)...)
	}

	pre := st.Copy()
	preRoot := pre.Copy().IntermediateRoot(true)
	coinbase := r.header.ProposerAddress
	nonce0 := st.GetNonce(d.From)
	pool0 := r.gp.Gas()
	used0 := *r.usedGas
	var sum0 *big.Int
	if r.sumAll {
		sum0 = sumAccounts(st)
	}
	collision := false
	if tx.To() == nil {
		ca := common.Address(ethcrypto.CreateAddress(ethcommon.Address(d.From), tx.Nonce()))
		collision = r.collide[ca]
	}

	tr := newValTracer(pre)
	var receipt *types.Receipt
	var used uint64
	var err error
	st.Prepare(tx.Hash(), r.header.Hash(), r.idx)
	snap := st.Snapshot()
	ev.Guard(t, r.text, func() {
		receipt, used, err = blockchain.ApplyTransaction(r.cfg, log.New(), r.chain, r.gp, st, r.header, tx, r.usedGas, kvm.Config{Debug: true, Tracer: tr})
	})
	r.idx++

	if err != nil {
		st.RevertToSnapshot(snap)
		r.lines = append(r.lines, fmt.Sprintf("  -> rejected: %v", err))
		if out.Reason == "" {
			viol("reject.valid-tx-rejected", "every rule is satisfied (nonce %d, balance %v, block gas left %d) but ApplyTransaction returned %v", nonce0, pre.GetBalance(d.From), pool0, err)
		}
		// the state after the caller's revert is the state before
		if got := st.Copy().IntermediateRoot(true); got != preRoot {
			viol("reject.state-changed", "rejected (%v) but the state root changed %x -> %x after the caller's revert", err, preRoot[:6], got[:6])
		}
		if st.GetNonce(d.From) != nonce0 {
			viol("reject.nonce-changed", "rejected (%v) but the sender's nonce went %d -> %d", err, nonce0, st.GetNonce(d.From))
		}
		if *r.usedGas != used0 {
			viol("reject.usedgas-changed", "rejected (%v) but the block's used gas went %d -> %d", err, used0, *r.usedGas)
		}
		if r.gp.Gas() != pool0 {
			if !out.Late || r.gp.Gas() != pool0-tx.Gas() {
				viol("gaspool.changed-by-rejected-tx", "rejected (%v, predicted %s) and the block gas pool went %d -> %d", err, out.Reason, pool0, r.gp.Gas())
			}
			r.class("pool-left-reduced-by-late-rejection")
			if r.restorePool {
				*r.gp = types.GasPool(pool0)
			}
		}
		r.class("rejected:" + out.Reason)
		r.outs = append(r.outs, out)
		return out
	}

	out.Executed = true
	out.Receipt = receipt
	out.Failed = receipt.Status == types.ReceiptStatusFailed
	r.lines = append(r.lines, fmt.Sprintf("  -> executed status=%d used=%d", receipt.Status, used))
	if out.Reason != "" {
		viol("reject.invalid-tx-executed:"+out.Reason, "the rule says rejected for %s (nonce %d, balance %v, block gas left %d) but it was executed", out.Reason, nonce0, pre.GetBalance(d.From), pool0)
	}
	price := tx.GasPrice()
	fee := new(big.Int).Mul(new(big.Int).SetUint64(used), price)
	intr := kit.Intrinsic(tx.Data(), tx.To() == nil, r.galaxias())

	// gas
	if receipt.GasUsed != used {
		viol("receipt.gasused", "receipt.GasUsed %d != returned gas used %d", receipt.GasUsed, used)
	}
	if used > tx.Gas() {
		viol("gas.used-exceeds-limit", "gas used %d > gas limit %d", used, tx.Gas())
	}
	if r.gp.Gas() != pool0-used {
		viol("gaspool.delta", "block gas pool %d -> %d, gas used %d", pool0, r.gp.Gas(), used)
	}
	if *r.usedGas != used0+used || receipt.CumulativeGasUsed != used0+used {
		viol("receipt.cumulative", "cumulative gas %d (receipt %d), expected %d + %d", *r.usedGas, receipt.CumulativeGasUsed, used0, used)
	}
	if tr.ended {
		gross := intr + tr.exec
		refund := tr.refund
		if refund > gross/2 {
			refund = gross / 2
			r.class("refund-cap-binding")
		} else if refund > 0 {
			r.class("refund-below-cap")
		}
		if used != gross-refund {
			viol("gas.used-formula", "gas used %d != intrinsic %d + execution %d - min(refund counter %d, half) %d", used, intr, tr.exec, tr.refund, refund)
		}
	} else if collision {
		if used != tx.Gas() || !out.Failed {
			viol("gas.collision", "creation over an existing contract: used %d of %d, status %d", used, tx.Gas(), receipt.Status)
		}
		r.class("create-collision")
	} else {
		viol("harness.no-trace", "executed transaction without CaptureEnd")
	}
	if out.Failed != (tr.endErr != nil || (collision && !tr.ended)) {
		viol("receipt.status", "receipt status %d but the top-level frame ended with error %v", receipt.Status, tr.endErr)
	}

	// nonce
	if got := st.GetNonce(d.From); got != nonce0+1 {
		viol("nonce.executed-not-plus-one", "sender nonce %d -> %d after an executed transaction (status %d)", nonce0, got, receipt.Status)
	}

	// balances: model vs state for every account the transaction touched
	tr.get(d.From)
	tr.get(coinbase)
	if tx.To() != nil {
		tr.get(*tx.To())
	}
	before := new(big.Int)
	for a := range tr.bal {
		before.Add(before, pre.GetBalance(a))
	}
	tr.finish()
	tr.bal[d.From] = new(big.Int).Sub(tr.get(d.From), fee)
	tr.bal[coinbase] = new(big.Int).Add(tr.get(coinbase), fee)
	after := tr.total()
	out.Burn = new(big.Int).Sub(before, after)
	if out.Burn.Sign() < 0 {
		panic("harness: negative burn in the value model")
	}
	addrs := make([]common.Address, 0, len(tr.bal))
	for a := range tr.bal {
		addrs = append(addrs, a)
	}
	sort.Slice(addrs, func(i, j int) bool { return string(addrs[i][:]) < string(addrs[j][:]) })
	for _, a := range addrs {
		if got := st.GetBalance(a); got.Cmp(tr.bal[a]) != 0 {
			role := "other"
			switch {
			case a == d.From:
				role = "sender"
			case a == coinbase:
				role = "proposer"
			case tx.To() != nil && a == *tx.To():
				role = "recipient"
			case tx.To() == nil && a == receipt.ContractAddress:
				role = "created"
			}
			viol("balance."+role, "account %x: balance %v -> %v, the rules give %v (value %v, gas used %d x price %v, status %d)", a[:], pre.GetBalance(a), got, tr.bal[a], tx.Value(), used, price, receipt.Status)
		}
	}
	// second opinion without the tracer for the simplest shape: a transfer to an account without code
	if tx.To() != nil && len(pre.GetCode(*tx.To())) == 0 && !isPrecompile(*tx.To()) {
		to := *tx.To()
		if out.Failed {
			viol("plain.failed", "transfer to an account without code failed")
		}
		if used != intr {
			viol("plain.gas", "transfer to an account without code used %d gas, intrinsic gas is %d", used, intr)
		}
		wantS := new(big.Int).Sub(pre.GetBalance(d.From), fee)
		wantT := new(big.Int).Set(pre.GetBalance(to))
		if to != d.From {
			wantS.Sub(wantS, tx.Value())
			wantT.Add(wantT, tx.Value())
		} else {
			wantT = wantS
		}
		if to == coinbase {
			wantT.Add(wantT, fee)
		}
		if d.From == coinbase {
			wantS.Add(wantS, fee)
		}
		if st.GetBalance(d.From).Cmp(wantS) != 0 || st.GetBalance(to).Cmp(wantT) != 0 {
			viol("plain.balances", "plain transfer: sender %v -> %v (want %v), recipient %v -> %v (want %v)", pre.GetBalance(d.From), st.GetBalance(d.From), wantS, pre.GetBalance(to), st.GetBalance(to), wantT)
		}
	}
	if tx.To() == nil {
		ca := common.Address(ethcrypto.CreateAddress(ethcommon.Address(d.From), tx.Nonce()))
		if receipt.ContractAddress != ca {
			viol("create.address", "receipt contract address %x, expected %x", receipt.ContractAddress[:], ca[:])
		}
	}
	if r.sumAll {
		sum1 := sumAccounts(st)
		if want := new(big.Int).Sub(sum0, out.Burn); sum1.Cmp(want) != 0 {
			viol("conservation.total", "sum of ALL balances %v -> %v, expected %v (burnt with self-destructed accounts: %v)", sum0, sum1, want, out.Burn)
		}
	}
	r.totalBurn.Add(r.totalBurn, out.Burn)

	// classes
	r.class("executed")
	if out.Failed {
		r.class("vm-failed")
	}
	if out.Burn.Sign() > 0 {
		r.class("burn")
	}
	if tr.valueDeep {
		r.class("value-at-depth>=2")
	}
	if tr.selfdestruct > 0 {
		r.class("selfdestruct")
	}
	if tr.innerFailed > 0 {
		r.class("inner-frame-failed")
	}
	if tr.maxDepth >= 3 {
		r.class("depth>=3")
	}
	if tr.creates > 0 {
		r.class("create")
	}
	if (tr.valueDeep || tr.selfdestruct > 0) && !r.quiet {
		r.nontrivial = true
	}
	r.outs = append(r.outs, out)
	return out
}

func isPrecompile(a common.Address) bool {
	for i := 0; i < 19; i++ {
		if a[i] != 0 {
			return false
		}
	}
	return a[19] >= 1 && a[19] <= 9
}

// mixed reports whether some sender has both a rejected and an executed transaction in the sequence.
func (r *runner) mixed() bool {
	rej, ex := map[common.Address]bool{}, map[common.Address]bool{}
	for _, o := range r.outs {
		if o.Executed {
			ex[o.Draw.From] = true
		} else {
			rej[o.Draw.From] = true
		}
	}
	for a := range rej {
		if ex[a] {
			return true
		}
	}
	return false
}

// createAddr computes the address of a contract created by (from, nonce) with go-ethereum's implementation.
func createAddr(from common.Address, nonce uint64) common.Address {
	return common.Address(ethcrypto.CreateAddress(ethcommon.Address(from), nonce))
}
