// C03 — a correct validator never equivocates and obeys the locking rules.
package c03

import (
	"fmt"
	"os"
	"strings"
	"testing"

	"pgregory.net/rapid"

	"github.com/kardiachain/go-kardia/types"

	"verifharness/internal/ev"
	"verifharness/internal/netsim"
)

func TestMain(m *testing.M) {
	ev.Init("C03")
	rc := m.Run()
	ev.Flush()
	os.Exit(rc)
}

func report(t *rapid.T, s *netsim.Sim, m *netsim.Monitor) {
	for _, f := range m.Findings {
		ev.Violation(t, f.Key, s.TraceText(), "%s", f.Msg)
	}
	m.Findings = nil
}

func finish(t *rapid.T, s *netsim.Sim, m *netsim.Monitor, profile string) {
	nontrivial := m.LockThenHigherRound || s.Stat["byz-proposal-invalid"] > 0
	classes := []string{"profile:" + profile}
	if m.LockThenHigherRound {
		classes = append(classes, "precommitted-then-higher-round")
	}
	if s.Stat["byz-proposal-invalid"] > 0 {
		classes = append(classes, "invalid-proposal-offered")
	}
	if m.PrevoteOtherAfterUnlock > 0 {
		classes = append(classes, "prevote-other-block-after-newer-polka")
	}
	if m.PrevoteLockedBlock > 0 {
		classes = append(classes, "prevote-locked-block-in-later-round")
	}
	if s.MaxRound() > 1 {
		classes = append(classes, "round>1")
	}
	ev.Case(nontrivial, s.TraceText(), classes...)
	ev.ClassN("sig-requests", int64(m.SigRequests))
	ev.ClassN("precommit-for-block", int64(m.PrecommitBlock))
	ev.ClassN("commits-checked", int64(m.Commits))
	for k, v := range s.Stat {
		ev.ClassN("step:"+k, int64(v))
	}
	if nontrivial && ev.WantSample(profile) {
		ev.Sample(profile, strings.Split(s.TraceText(), "\n"))
	}
}

// Profile (a): one real validator, every other validator is a harness puppet (so >= 2/3 of the power is adversarial on
// purpose — the per-node obligations must hold whatever the others do).
func TestVictim(t *testing.T) {
	maxSteps := ev.Scale("STEPS", 70)
	rapid.Check(t, func(t *rapid.T) {
		n := rapid.IntRange(2, 5).Draw(t, "n")
		powers := make([]int64, n)
		for i := range powers {
			powers[i] = int64(rapid.SampledFrom([]int{15, 15, 30, 45}).Draw(t, "p"))
		}
		victim := rapid.IntRange(0, n-1).Draw(t, "victim")
		var byz []int
		for i := 0; i < n; i++ {
			if i != victim {
				byz = append(byz, i)
			}
		}
		var s *netsim.Sim
		var err error
		ev.Guard(t, nil, func() { s, err = netsim.NewSim(powers, byz, nil) })
		if err != nil {
			t.Fatalf("harness: %v", err)
		}
		defer s.Close()
		s.TraceOn = true
		s.AllowInvalidProposals = true
		s.Tracef("victim profile powers=%v victim=%d", powers, victim)
		m := netsim.AttachMonitor(s)
		ev.Guard(t, s.TraceText, func() { s.Start() })
		steps := rapid.IntRange(5, maxSteps).Draw(t, "steps")
		for i := 0; i < steps; i++ {
			// With >= 2/3 of the power adversarial the puppets can commit an invalid block; the product's documented
			// reaction is to halt ("+2/3 committed an invalid block"), which is exactly "commits only valid extensions".
			msg, frame := ev.Try(func() { s.Step(t) })
			if msg != "" {
				cs := s.Nodes[victim].CS
				halted := false
				if (strings.Contains(msg, "committed an invalid block") || strings.Contains(msg, "prevoted for an invalid block")) && cs.ProposalBlock != nil && cs.ProposalBlockParts != nil {
					if c := s.CandByID(types.BlockID{Hash: cs.ProposalBlock.Hash(), PartsHeader: cs.ProposalBlockParts.Header()}); c != nil && (!c.Valid || c.Height != cs.Height) {
						halted = true // (a block built for another height is as invalid here as a mutated one)
					}
				}
				if !halted {
					ev.Violation(t, "panic:"+frame, s.TraceText(), "panic in product code: %s", msg)
				}
				ev.Class("halted-on-invalid-commit")
				m.EndStep()
				report(t, s, m)
				break
			}
			m.EndStep()
			report(t, s, m)
		}
		finish(t, s, m, "victim")
	})
}

// Profile (b): a network of correct validators with < 1/3 Byzantine power.
func TestNetwork(t *testing.T) {
	maxSteps := ev.Scale("STEPS", 60)
	rapid.Check(t, func(t *rapid.T) {
		n := rapid.SampledFrom([]int{3, 4, 4, 4, 5, 6, 7}).Draw(t, "n")
		powers := make([]int64, n)
		var total int64
		for i := range powers {
			powers[i] = int64(rapid.SampledFrom([]int{15, 15, 15, 30, 45}).Draw(t, "p"))
			total += powers[i]
		}
		var byz []int
		var bp int64
		for i := 0; i < n; i++ {
			if rapid.Bool().Draw(t, "isbyz") && (bp+powers[i])*3 < total {
				byz = append(byz, i)
				bp += powers[i]
			}
		}
		var s *netsim.Sim
		var err error
		ev.Guard(t, nil, func() { s, err = netsim.NewSim(powers, byz, nil) })
		if err != nil {
			t.Fatalf("harness: %v", err)
		}
		defer s.Close()
		s.TraceOn = true
		s.AllowInvalidProposals = true
		s.Tracef("network profile powers=%v byz=%v", powers, byz)
		m := netsim.AttachMonitor(s)
		ev.Guard(t, s.TraceText, func() { s.Start() })
		steps := rapid.IntRange(5, maxSteps).Draw(t, "steps")
		for i := 0; i < steps; i++ {
			ev.Guard(t, s.TraceText, func() { s.Step(t) })
			m.EndStep()
			report(t, s, m)
		}
		if v := s.AgreementViolation(); v != "" {
			ev.Violation(t, "agreement", s.TraceText(), "%s", v)
		}
		finish(t, s, m, fmt.Sprintf("network"))
	})
}
