// C01 — agreement: no two correct nodes commit different blocks at a height; block sync only adopts committed blocks.
package c01

import (
	"fmt"
	"os"
	"strings"
	"testing"
	"time"

	"pgregory.net/rapid"

	"github.com/kardiachain/go-kardia/blockchain"
	"github.com/kardiachain/go-kardia/consensus"
	"github.com/kardiachain/go-kardia/lib/common"
	"github.com/kardiachain/go-kardia/lib/p2p"
	kproto "github.com/kardiachain/go-kardia/proto/kardiachain/types"
	"github.com/kardiachain/go-kardia/trie"
	"github.com/kardiachain/go-kardia/types"

	"verifharness/internal/ev"
	"verifharness/internal/netsim"
)

func TestMain(m *testing.M) {
	ev.Init("C01")
	rc := m.Run()
	ev.Flush()
	os.Exit(rc)
}

func drawNetwork(t *rapid.T) (powers []int64, byz []int) {
	if rapid.IntRange(0, 4).Draw(t, "plain4") == 0 {
		// four equal validators, nobody Byzantine: delays alone must not break agreement
		return []int64{15, 15, 15, 15}, nil
	}
	n := rapid.SampledFrom([]int{1, 2, 3, 4, 4, 4, 4, 5, 6, 7}).Draw(t, "n")
	shape := rapid.IntRange(0, 3).Draw(t, "shape")
	powers = make([]int64, n)
	var total int64
	for i := range powers {
		switch shape {
		case 0:
			powers[i] = 15
		case 1:
			powers[i] = int64(rapid.SampledFrom([]int{15, 30, 45}).Draw(t, "p"))
		case 2:
			powers[i] = 15
			if i == 0 {
				powers[i] = int64(15 * rapid.IntRange(2, 6).Draw(t, "dom"))
			}
		default:
			powers[i] = int64(rapid.IntRange(15, 100).Draw(t, "p"))
		}
		total += powers[i]
	}
	// as much Byzantine power as fits under 1/3, in a drawn order (the strongest adversary the property allows)
	order := rapid.Permutation(seq(n)).Draw(t, "byzorder")
	want := rapid.IntRange(0, n).Draw(t, "nbyz")
	var bp int64
	for _, i := range order {
		if len(byz) >= want {
			break
		}
		if (bp+powers[i])*3 < total {
			byz = append(byz, i)
			bp += powers[i]
		}
	}
	return
}

func seq(n int) []int {
	s := make([]int, n)
	for i := range s {
		s[i] = i
	}
	return s
}

// TestAgreement: adversarial schedules with < 1/3 Byzantine power; after every step and after the final heal the set
// of blocks stored by correct nodes at each height has at most one element.
func TestAgreement(t *testing.T) {
	maxSteps := ev.Scale("STEPS", 90)
	rapid.Check(t, func(t *rapid.T) {
		powers, byz := drawNetwork(t)
		var s *netsim.Sim
		var err error
		ev.Guard(t, nil, func() { s, err = netsim.NewSim(powers, byz, nil) })
		if err != nil {
			t.Fatalf("harness: %v", err)
		}
		defer s.Close()
		s.TraceOn = true
		s.AllowInvalidProposals = true
		s.Tracef("net powers=%v byz=%v", powers, byz)
		ev.Guard(t, s.TraceText, func() { s.Start() })
		steps := rapid.IntRange(5, maxSteps).Draw(t, "steps")
		for i := 0; i < steps; i++ {
			ev.Guard(t, s.TraceText, func() { s.Step(t) })
			if i%8 == 7 {
				if v := s.AgreementViolation(); v != "" {
					ev.Violation(t, "agreement", s.TraceText(), "%s", v)
				}
			}
		}
		split := s.MaxHeight(s.Correct) != s.MinHeight(s.Correct)
		lockedEver := s.Stat["ev:lock"] > 0
		// heal: everybody catches up; committed blocks must agree
		target := s.MaxHeight(s.Correct) + 1
		var ok bool
		var why string
		ev.Guard(t, s.TraceText, func() { ok, _, why = s.SyncRun(s.Correct, target, 4000) })
		if v := s.AgreementViolation(); v != "" {
			ev.Violation(t, "agreement", s.TraceText(), "%s", v)
		}
		_ = ok
		_ = why // liveness is C04's business
		multi := s.MaxRound() > 1
		nontrivial := (s.Stat["byz-equivocation"] > 0 || s.Stat["relay-kind"] > 0 || s.Stat["round-macro"] > 0) && (multi || lockedEver)
		classes := []string{fmt.Sprintf("validators=%d", len(powers))}
		if len(byz) > 0 {
			classes = append(classes, "byzantine-present")
		}
		if s.Stat["byz-equivocation"] > 0 {
			classes = append(classes, "equivocation")
		}
		if multi {
			classes = append(classes, "round>1")
		}
		if lockedEver {
			classes = append(classes, "lock-happened")
		}
		if s.Stat["ev:relock"]+s.Stat["ev:unlock-same-height"] > 0 {
			classes = append(classes, "relock-or-unlock")
		}
		if split {
			classes = append(classes, "height-spread-before-heal")
		}
		if target > 3 {
			classes = append(classes, "heights>=3")
		}
		ev.Case(nontrivial, s.TraceText(), classes...)
		for k, v := range s.Stat {
			ev.ClassN("step:"+k, int64(v))
		}
		if nontrivial && ev.WantSample("schedule") {
			ev.Sample("schedule", strings.Split(s.TraceText(), "\n"))
		}
	})
}

// ---------------------------------------------------------------- known finding D1: vote type is not signed

const keyD1 = "strategy=vote-retype,monitor=agreement"

// d1Schedule runs the scripted schedule in which a network-level adversary (no Byzantine validator at all) re-labels
// honest prevotes as precommits. Returns a description of the agreement violation ("" if agreement held).
func d1Schedule() (string, error) {
	s, err := netsim.NewSim([]int64{15, 15, 15, 15}, nil, nil)
	if err != nil {
		return "", err
	}
	defer s.Close()
	s.Start()
	nodes := s.Nodes
	// 1. everybody enters round 1; the proposer's own proposal + parts + prevote are collected, not broadcast
	var proposer *netsim.Node
	var propMsgs []consensus.Message
	prevotes := map[*netsim.Node]*types.Vote{}
	precommits := map[*netsim.Node]*types.Vote{}
	collect := func(nd *netsim.Node) {
		for _, m := range s.DrainOwn(nd.Index) {
			if vm, ok := m.(*consensus.VoteMessage); ok && vm.Vote.Round == 1 {
				if vm.Vote.Type == kproto.PrevoteType {
					prevotes[nd] = vm.Vote
				} else {
					precommits[nd] = vm.Vote
				}
			} else if proposer == nil || proposer == nd {
				proposer = nd
				propMsgs = append(propMsgs, m)
			}
		}
	}
	for _, nd := range nodes {
		s.FireTimeoutNoDrain(nd.Index)
		collect(nd)
	}
	if proposer == nil {
		return "", fmt.Errorf("no proposer")
	}
	var A, L *netsim.Node
	var others []*netsim.Node
	for _, nd := range nodes {
		if nd != proposer && A == nil {
			A = nd
		} else if nd != proposer && L == nil {
			L = nd
		}
	}
	for _, nd := range nodes {
		if nd != A && nd != L {
			others = append(others, nd)
		}
	}
	send := func(to *netsim.Node, m consensus.Message) { s.Deliver(to.Index, -1, m) }
	// 2. proposal to everyone except L; L times out and prevotes nil
	for _, nd := range nodes {
		if nd == L {
			continue
		}
		if nd != proposer {
			for _, m := range propMsgs {
				send(nd, m)
			}
		}
		collect(nd)
	}
	s.FireTimeoutNoDrain(L.Index)
	collect(L)
	if len(prevotes) != 4 {
		return "", fmt.Errorf("expected 4 prevotes, got %d", len(prevotes))
	}
	// 3. A sees the three block prevotes -> polka -> precommits B
	for nd, v := range prevotes {
		if nd != A && nd != L {
			send(A, &consensus.VoteMessage{Vote: v})
		}
	}
	collect(A)
	if precommits[A] == nil || precommits[A].BlockID.IsZero() {
		return "", fmt.Errorf("A did not precommit the block")
	}
	// 4. the others see 2/3-any but no polka, time out and precommit nil
	for _, nd := range others {
		send(nd, &consensus.VoteMessage{Vote: prevotes[L]})
		for _, o := range others {
			if o != nd {
				send(nd, &consensus.VoteMessage{Vote: prevotes[o]})
			}
		}
		s.FireTimeoutNoDrain(nd.Index)
		collect(nd)
	}
	for _, o := range others {
		send(L, &consensus.VoteMessage{Vote: prevotes[o]})
	}
	s.FireTimeoutNoDrain(L.Index)
	collect(L)
	// 5. ADVERSARY (network only): re-label the others' prevotes for B as precommits and hand them to A first
	for _, o := range others {
		fake := prevotes[o].Copy()
		fake.Type = kproto.PrecommitType
		send(A, &consensus.VoteMessage{Vote: fake})
	}
	collect(A)
	if A.CS.Height != 2 {
		return "", nil // retyped votes were not accepted: the defect is gone
	}
	// 6. the other three exchange their genuine nil precommits, move to round 2 and commit another block
	rest := []int{L.Index}
	for _, o := range others {
		rest = append(rest, o.Index)
	}
	for _, i := range rest {
		for _, o := range nodes {
			if o.Index != i && precommits[o] != nil {
				s.Deliver(i, o.Index, &consensus.VoteMessage{Vote: precommits[o]})
			}
		}
	}
	s.Down[A.Index] = true
	s.SyncRun(rest, 2, 400)
	s.Down[A.Index] = false
	return s.AgreementViolation(), nil
}

func TestKnownD1(t *testing.T) {
	var v string
	var err error
	msg, frame := ev.Try(func() { v, err = d1Schedule() })
	if msg != "" {
		ev.Violation(t, "panic:"+frame, "d1 schedule", "panic in scripted D1 schedule: %s", msg)
		return
	}
	if err != nil {
		t.Fatalf("harness: D1 schedule could not be driven: %v", err)
	}
	ev.Case(true, "scripted vote-retype schedule", "known-reproducer")
	ev.Sample("known-reproducer", "4 equal validators, none Byzantine: proposal to three nodes, fourth prevotes nil; A sees the polka and precommits B; the others see 2/3-any, time out, precommit nil; the network re-labels two honest prevotes for B as precommits and gives them to A; A commits B in round 1, the others commit another block in round 2. Result: "+v)
	if ev.Known(keyD1) {
		ev.KnownReproduced(keyD1, v != "")
		return
	}
	if v != "" {
		ev.Violation(t, keyD1, "scripted vote-retype schedule (no Byzantine validator)", "%s", v)
	}
}

// ---------------------------------------------------------------- block sync only adopts committed blocks

var forgeries = []string{"genuine", "tx-added", "header.AppHash", "header.Time", "header.Proposer", "evidence-hash", "other-valid-block",
	"second.commit-below-23", "second.commit-wrong-signers", "second.commit-other-round", "second.commit-other-id", "second.commit-all-nil-flag", "second.commit-duplicated-signer",
	"pair.nil-precommits", "pair.at-most-two-thirds", "pair.at-most-two-thirds", "pair.wrong-signers", "pair.signer-at-wrong-index", "pair.one-signer-under-own-address", "pair.most-by-next-set", "pair.most-by-next-set"}

// TestBlockSync drives the REAL block-sync processor of a fresh node with genuine and forged blocks of a real chain.
func TestBlockSync(t *testing.T) {
	rapid.Check(t, func(t *rapid.T) {
		n := rapid.IntRange(1, 5).Draw(t, "n")
		powers := make([]int64, n)
		for i := range powers {
			powers[i] = int64(rapid.SampledFrom([]int{15, 30}).Draw(t, "p"))
		}
		var s *netsim.Sim
		var err error
		ev.Guard(t, nil, func() { s, err = netsim.NewSim(powers, nil, nil) })
		if err != nil {
			t.Fatalf("harness: %v", err)
		}
		defer s.Close()
		H := uint64(rapid.IntRange(3, 6).Draw(t, "H"))
		// half of the chains change their validator set on the way: real staking transactions (delegations to /
		// undelegations from validators) in drawn blocks, so that consecutive heights are signed by different sets
		var st *netsim.Staker
		var stakeLog []string
		if rapid.Bool().Draw(t, "validator-changes") {
			if st, err = netsim.NewStaker(s); err != nil {
				t.Fatalf("harness: %v", err)
			}
		}
		s.Start()
		for target := uint64(2); target <= H+1; target++ {
			if st != nil && rapid.IntRange(0, 2).Draw(t, "stake") > 0 {
				d, v := rapid.IntRange(0, 1).Draw(t, "delegator"), rapid.IntRange(0, n-1).Draw(t, "to")
				units := int64(rapid.IntRange(1, 25).Draw(t, "units"))
				if st.Staked[d][v] && rapid.Bool().Draw(t, "undelegate") {
					units = 0
				}
				if err := st.Send(d, v, units); err != nil {
					t.Fatalf("harness: %v", err)
				}
				stakeLog = append(stakeLog, fmt.Sprintf("block %d: account %d -> validator %d: %d", target-1, d, v, units))
			}
			var ok bool
			var why string
			ev.Guard(t, nil, func() { ok, _, why = s.SyncRun(s.Correct, target, 2000) })
			if !ok {
				t.Fatalf("harness: could not build the chain: %s", why)
			}
		}
		src := s.Nodes[0]
		setsDiffer := false
		if st != nil {
			for h := uint64(2); h <= H; h++ {
				a, e1 := src.Store.LoadValidators(h - 1)
				b, e2 := src.Store.LoadValidators(h)
				if e1 == nil && e2 == nil && a != nil && b != nil && a.Hash() != b.Hash() {
					setsDiffer = true
				}
			}
		}
		genuine := map[uint64]*types.Block{}
		for h := uint64(1); h <= H; h++ {
			genuine[h] = src.BOps.LoadBlock(h)
			if genuine[h] == nil {
				t.Fatalf("harness: source has no block %d", h)
			}
		}
		// the syncing node: same genesis, empty database
		fresh, err := netsim.NewNode(99, s.G, netsim.Key(50), netsim.NodeOpts{})
		if err != nil {
			t.Fatalf("harness: %v", err)
		}
		defer fresh.Close()
		proc := blockchain.VerifNewProcessor(fresh.BOps, fresh.Exec, fresh.CS.VerifState())
		log := []string{fmt.Sprintf("chain powers=%v H=%d staking=%v", powers, H, stakeLog)}
		text := func() string { return strings.Join(log, ";") }
		forgedOffered := 0
		peer := 0
		forced := map[uint64]*types.Block{} // second halves of forged pairs
		forcedKind := map[uint64]string{}
		offer := func(h uint64) {
			kind := "genuine"
			if rapid.IntRange(0, 2).Draw(t, "forge") > 0 {
				kind = rapid.SampledFrom(forgeries).Draw(t, "kind")
			}
			var b *types.Block
			if fb := forced[h]; fb != nil {
				b, kind = fb, forcedKind[h]
				delete(forced, h)
			} else if strings.HasPrefix(kind, "pair.") {
				if h+1 > H || h < 2 {
					kind = "genuine"
				} else if first, second := forgePair(s, src, genuine, h, kind); first != nil {
					b = first
					forced[h+1], forcedKind[h+1] = second, kind+"(second)"
				} else {
					kind = "genuine"
				}
			}
			if b == nil {
				b = forge(s, src, genuine, h, kind)
			}
			if b == nil {
				kind = "genuine"
				b = genuine[h]
			}
			if kind != "genuine" {
				forgedOffered++
			}
			peer++
			log = append(log, fmt.Sprintf("offer h=%d %s peer%d", h, kind, peer))
			ev.Guard(t, text, func() { proc.VerifBlockReceived(p2p.ID(fmt.Sprintf("peer%d", peer)), b) })
		}
		for iter := 0; iter < 400 && proc.VerifHeight() < H-1; iter++ {
			cur := proc.VerifHeight()
			for h := cur + 1; h <= cur+2 && h <= H; h++ {
				if !proc.VerifQueued(h) {
					offer(h)
				}
			}
			var kind string
			var hh uint64
			ev.Guard(t, text, func() { kind, hh = proc.VerifProcess() })
			log = append(log, fmt.Sprintf("process -> %s %d", kind, hh))
			// oracle: everything the syncing node stored is what correct validators committed
			top := fresh.BOps.Height()
			for h := uint64(1); h <= top; h++ {
				if b := fresh.BOps.LoadBlock(h); b != nil && b.Hash() != genuine[h].Hash() {
					ev.Violation(t, "sync.adopted-forgery", text(), "syncing node stored %x at height %d, correct validators committed %x", b.Hash().Bytes()[:6], h, genuine[h].Hash().Bytes()[:6])
				}
			}
		}
		if proc.VerifHeight() < H-1 {
			// with probability 1/3 per offer genuine blocks are offered, so 400 iterations are ample
			ev.Violation(t, "sync.genuine-rejected", text(), "syncing node stuck at %d of %d although genuine blocks kept being offered", proc.VerifHeight(), H-1)
		}
		for h := uint64(1); h <= proc.VerifHeight(); h++ {
			b := fresh.BOps.LoadBlock(h)
			if b == nil || b.Hash() != genuine[h].Hash() {
				ev.Violation(t, "sync.adopted-forgery", text(), "after sync, height %d differs from the committed chain", h)
			}
		}
		if setsDiffer {
			ev.Class("blocksync:validator-set-changes-within-the-chain")
		}
		ev.Case(forgedOffered > 0, text(), "blocksync")
		if forgedOffered > 0 && ev.WantSample("blocksync") {
			ev.Sample("blocksync", log)
		}
	})
}

// forge builds a variant of the genuine block at height h. For "second.*" kinds the block's own content is genuine
// except for its LastCommit (which is what vouches for block h-1).
func forge(s *netsim.Sim, src *netsim.Node, genuine map[uint64]*types.Block, h uint64, kind string) *types.Block {
	g := genuine[h]
	hdr := g.Header()
	txs := g.Transactions()
	lc := deepCommit(g.LastCommit())
	evs := g.Evidence().Evidence
	rebuild := func() *types.Block {
		hdr.LastCommitHash = common.Hash{}
		return types.NewBlock(hdr, txs, lc, evs, trie.NewStackTrie(nil))
	}
	switch kind {
	case "genuine":
		return g
	case "tx-added":
		tx := types.NewTransaction(7, common.BytesToAddress([]byte("x")), common.Big1, 21000, common.Big1, nil)
		txs = append(append(types.Transactions{}, txs...), tx)
		return rebuild()
	case "header.AppHash":
		hdr.AppHash = common.BytesToHash([]byte("forged"))
		return rebuild()
	case "header.Time":
		hdr.Time = hdr.Time.Add(time.Second)
		return rebuild()
	case "header.Proposer":
		hdr.ProposerAddress = common.BytesToAddress([]byte("nobody"))
		return rebuild()
	case "evidence-hash":
		hdr.EvidenceHash = common.BytesToHash([]byte("forged"))
		b := types.NewBlock(hdr, txs, lc, evs, trie.NewStackTrie(nil))
		return b
	case "other-valid-block":
		// another block the proposer could have made for this height: same parent, other proposer address
		if h < 2 {
			return nil
		}
		hdr.ProposerAddress = s.Addr(int(h) % len(s.Keys))
		if hdr.ProposerAddress == g.Header().ProposerAddress {
			return nil
		}
		return rebuild()
	}
	if h < 2 || lc == nil || len(lc.Signatures) == 0 {
		return nil
	}
	prevVals, err := src.Store.LoadValidators(h - 1)
	if err != nil {
		return nil
	}
	total := prevVals.TotalVotingPower()
	switch kind {
	case "second.commit-below-23":
		var have int64
		for i, sg := range lc.Signatures {
			if sg.ForBlock() {
				_, v := prevVals.GetByIndex(uint32(i))
				have += v.VotingPower
			}
		}
		for i := range lc.Signatures {
			if have*3 <= total*2 {
				break
			}
			if lc.Signatures[i].ForBlock() {
				_, v := prevVals.GetByIndex(uint32(i))
				have -= v.VotingPower
				lc.Signatures[i] = types.NewCommitSigAbsent()
			}
		}
	case "second.commit-wrong-signers":
		// every signature replaced by one from a key outside the validator set, claiming the validator's address
		for i := range lc.Signatures {
			if !lc.Signatures[i].ForBlock() {
				continue
			}
			v := lc.GetVote(uint32(i))
			pv := v.ToProto()
			types.NewDefaultPrivValidator(netsim.Key(200+i)).SignVote(s.G.ChainID, pv)
			lc.Signatures[i].Signature = pv.Signature
		}
	case "second.commit-other-round":
		lc.Round++
	case "second.commit-other-id":
		lc.BlockID.PartsHeader.Total++
	case "second.commit-all-nil-flag":
		for i := range lc.Signatures {
			if lc.Signatures[i].ForBlock() {
				lc.Signatures[i].BlockIDFlag = types.BlockIDFlagNil
			}
		}
	case "second.commit-duplicated-signer":
		// one genuine signature copied into every slot (power must be counted once, and only at its own index)
		var first *types.CommitSig
		for i := range lc.Signatures {
			if lc.Signatures[i].ForBlock() {
				c := lc.Signatures[i]
				first = &c
				break
			}
		}
		if first == nil || len(lc.Signatures) < 2 {
			return nil
		}
		for i := range lc.Signatures {
			lc.Signatures[i] = *first
		}
	default:
		return nil
	}
	return rebuild()
}

// deepCommit copies a commit including its signature slice (types.CopyCommit and Commit.Copy share it).
func deepCommit(c *types.Commit) *types.Commit {
	if c == nil {
		return nil
	}
	sigs := make([]types.CommitSig, len(c.Signatures))
	for i, sg := range c.Signatures {
		sigs[i] = sg
		sigs[i].Signature = common.CopyBytes(sg.Signature)
	}
	return types.NewCommit(c.Height, c.Round, c.BlockID, sigs)
}

// forgePair: a different block F for height h (never committed by anybody) together with a block for h+1 whose
// LastCommit claims to commit F. "nil-precommits": validly signed NIL precommits of every validator (cheap to obtain:
// correct validators precommit nil in failed rounds). "at-most-two-thirds": valid precommits for F by validators holding
// as much power as possible without exceeding 2/3 (correct validators may have precommitted a block that never got its
// +2/3). Neither justifies F.
func forgePair(s *netsim.Sim, src *netsim.Node, genuine map[uint64]*types.Block, h uint64, kind string) (*types.Block, *types.Block) {
	g := genuine[h]
	hdr := g.Header()
	hdr.ProposerAddress = s.Addr(int(h+1) % len(s.Keys))
	if hdr.ProposerAddress == g.Header().ProposerAddress {
		hdr.Time = hdr.Time.Add(time.Millisecond)
	}
	hdr.LastCommitHash = common.Hash{}
	F := types.NewBlock(hdr, g.Transactions(), deepCommit(g.LastCommit()), g.Evidence().Evidence, trie.NewStackTrie(nil))
	fid := types.BlockID{Hash: F.Hash(), PartsHeader: F.MakePartSet(types.BlockPartSizeBytes).Header()}
	vals, err := src.Store.LoadValidators(h)
	if err != nil || vals == nil {
		return nil, nil
	}
	keyOf := func(a common.Address) int {
		for i := range s.Keys {
			if s.Addr(i) == a {
				return i
			}
		}
		return -1
	}
	round := genuine[h+1].LastCommit().Round
	sigs := make([]types.CommitSig, vals.Size())
	total := vals.TotalVotingPower()
	var have int64
	// "pair.most-by-next-set": the signers hold at most 2/3 by the set entitled to sign height h and as much as possible
	// by the NEXT height's set (a verifier that weighs the commit with the wrong height's set may see +2/3)
	var chosen map[int]bool
	if kind == "pair.most-by-next-set" {
		next, err := src.Store.LoadValidators(h + 1)
		if err != nil || next == nil || vals.Size() > 10 {
			return nil, nil
		}
		best, bestNext := -1, int64(-1)
		for mask := 0; mask < 1<<uint(vals.Size()); mask++ {
			var p, q int64
			for i := 0; i < vals.Size(); i++ {
				if mask&(1<<uint(i)) != 0 {
					p += vals.Validators[i].VotingPower
					if _, nv := next.GetByAddress(vals.Validators[i].Address); nv != nil {
						q += nv.VotingPower
					}
				}
			}
			if p*3 <= total*2 && q > bestNext {
				best, bestNext = mask, q
			}
		}
		if best <= 0 {
			return nil, nil
		}
		chosen = map[int]bool{}
		for i := 0; i < vals.Size(); i++ {
			chosen[i] = best&(1<<uint(i)) != 0
		}
	}
	for i := 0; i < vals.Size(); i++ {
		_, v := vals.GetByIndex(uint32(i))
		k := keyOf(v.Address)
		if k < 0 {
			return nil, nil
		}
		id := fid
		flag := types.BlockIDFlagCommit
		claim := v.Address // the address the commit signature claims to come from
		if kind == "pair.one-signer-under-own-address" {
			// the weakest validator's precommit for F in EVERY slot, each under its own address (a verifier that finds the
			// signer by the address carried in the signature instead of by slot counts that validator's power n times)
			w := vals.Validators[vals.Size()-1]
			if w.VotingPower*3 > total*2 || vals.Size() < 2 {
				return nil, nil
			}
			k, claim = keyOf(w.Address), w.Address
		} else if kind == "pair.nil-precommits" {
			id, flag = types.BlockID{}, types.BlockIDFlagNil
		} else if kind == "pair.wrong-signers" {
			k = 200 + i // a key outside the validator set signs, claiming the validator's address
		} else if kind == "pair.signer-at-wrong-index" {
			// the weakest validator signs for every slot, each claiming the slot owner's address; only its own slot is genuine,
			// so this is only a forgery if that validator alone does not hold +2/3
			w := vals.Validators[vals.Size()-1]
			if w.VotingPower*3 > total*2 {
				return nil, nil
			}
			k = keyOf(w.Address)
		} else if chosen != nil {
			if !chosen[i] {
				sigs[i] = types.NewCommitSigAbsent()
				continue
			}
		} else if (have+v.VotingPower)*3 > total*2 {
			sigs[i] = types.NewCommitSigAbsent()
			continue
		}
		have += v.VotingPower
		vote := &types.Vote{ValidatorAddress: claim, ValidatorIndex: uint32(i), Height: h, Round: round, Timestamp: F.Time().Add(time.Second), Type: kproto.PrecommitType, BlockID: id}
		pv := vote.ToProto()
		signer := netsim.Key(k)
		if k < len(s.Keys) {
			signer = s.Keys[k]
		}
		types.NewDefaultPrivValidator(signer).SignVote(s.G.ChainID, pv)
		sigs[i] = types.CommitSig{BlockIDFlag: flag, ValidatorAddress: claim, Timestamp: vote.Timestamp, Signature: pv.Signature}
	}
	lc := types.NewCommit(h, round, fid, sigs)
	g2 := genuine[h+1]
	h2 := g2.Header()
	h2.LastCommitHash = common.Hash{}
	second := types.NewBlock(h2, g2.Transactions(), lc, g2.Evidence().Evidence, trie.NewStackTrie(nil))
	return F, second
}
