// C07 — the Merkle Patricia trie is an authenticated map with a canonical root.
package c07

import (
	"bytes"
	"fmt"
	"os"
	"sort"
	"strings"
	"testing"

	gcommon "github.com/ethereum/go-ethereum/common"
	gmem "github.com/ethereum/go-ethereum/ethdb/memorydb"
	gtrie "github.com/ethereum/go-ethereum/trie"
	"golang.org/x/crypto/sha3"
	"pgregory.net/rapid"

	"github.com/kardiachain/go-kardia/kai/kaidb"
	"github.com/kardiachain/go-kardia/kai/kaidb/memorydb"
	"github.com/kardiachain/go-kardia/lib/common"
	"github.com/kardiachain/go-kardia/trie"
	"github.com/kardiachain/go-kardia/trie/trienode"
	"github.com/kardiachain/go-kardia/types"

	"verifharness/internal/ev"
)

func TestMain(m *testing.M) {
	ev.Init("C07")
	rc := m.Run()
	ev.Flush()
	os.Exit(rc)
}

// ---------------------------------------------------------------- reference MPT (written from the yellow paper)

func keccak(b []byte) []byte {
	h := sha3.NewLegacyKeccak256()
	h.Write(b)
	return h.Sum(nil)
}

func rlpLen(l int, off byte) []byte {
	if l < 56 {
		return []byte{off + byte(l)}
	}
	var be []byte
	for x := l; x > 0; x >>= 8 {
		be = append([]byte{byte(x)}, be...)
	}
	return append([]byte{off + 55 + byte(len(be))}, be...)
}

func rlpBytes(b []byte) []byte {
	if len(b) == 1 && b[0] < 0x80 {
		return []byte{b[0]}
	}
	return append(rlpLen(len(b), 0x80), b...)
}

func rlpList(items ...[]byte) []byte {
	var p []byte
	for _, it := range items {
		p = append(p, it...)
	}
	return append(rlpLen(len(p), 0xc0), p...)
}

func nibbles(k []byte) []byte {
	n := make([]byte, 0, 2*len(k))
	for _, b := range k {
		n = append(n, b>>4, b&15)
	}
	return n
}

func hexPrefix(nib []byte, leaf bool) []byte {
	flag := byte(0)
	if leaf {
		flag = 2
	}
	var out []byte
	if len(nib)%2 == 1 {
		out = append(out, (flag+1)<<4|nib[0])
		nib = nib[1:]
	} else {
		out = append(out, flag<<4)
	}
	for i := 0; i < len(nib); i += 2 {
		out = append(out, nib[i]<<4|nib[i+1])
	}
	return out
}

type kv struct {
	k []byte // nibbles
	v []byte
}

// refEnc returns the RLP encoding of the node holding pairs (sorted, distinct), all of which share k[:depth].
func refEnc(pairs []kv, depth int) []byte {
	if len(pairs) == 0 {
		return []byte{0x80}
	}
	if len(pairs) == 1 {
		return rlpList(rlpBytes(hexPrefix(pairs[0].k[depth:], true)), rlpBytes(pairs[0].v))
	}
	// common prefix beyond depth
	first, last := pairs[0].k, pairs[len(pairs)-1].k
	cp := 0
	for depth+cp < len(first) && depth+cp < len(last) && first[depth+cp] == last[depth+cp] {
		cp++
	}
	if cp > 0 {
		return rlpList(rlpBytes(hexPrefix(first[depth:depth+cp], false)), refRef(pairs, depth+cp))
	}
	items := make([][]byte, 17)
	rest := pairs
	val := []byte{0x80}
	if len(rest[0].k) == depth {
		val = rlpBytes(rest[0].v)
		rest = rest[1:]
	}
	for i := 0; i < 16; i++ {
		j := 0
		for j < len(rest) && rest[j].k[depth] == byte(i) {
			j++
		}
		if j == 0 {
			items[i] = []byte{0x80}
		} else {
			items[i] = refRef(rest[:j], depth+1)
		}
		rest = rest[j:]
	}
	items[16] = val
	return rlpList(items...)
}

func refRef(pairs []kv, depth int) []byte {
	enc := refEnc(pairs, depth)
	if len(enc) < 32 {
		return enc
	}
	return rlpBytes(keccak(enc))
}

func refRoot(model map[string][]byte) common.Hash {
	pairs := make([]kv, 0, len(model))
	for k, v := range model {
		pairs = append(pairs, kv{nibbles([]byte(k)), v})
	}
	sort.Slice(pairs, func(i, j int) bool { return bytes.Compare(pairs[i].k, pairs[j].k) < 0 })
	return common.BytesToHash(keccak(refEnc(pairs, 0)))
}

// ---------------------------------------------------------------- generators

var keyBytes = []byte{0x00, 0x01, 0x10, 0x11, 0xff, 0xf0}

func genKey(t *rapid.T, mode int) []byte {
	switch mode {
	case 1: // fixed 3-byte keys over a tiny alphabet (prefix-free, dense)
		k := make([]byte, 3)
		for i := range k {
			k[i] = rapid.SampledFrom(keyBytes).Draw(t, "kb")
		}
		return k
	case 2: // 32-byte keys with long shared prefixes
		k := bytes.Repeat([]byte{0xab}, 32)
		n := rapid.IntRange(0, 3).Draw(t, "ndiff")
		for i := 0; i < n; i++ {
			k[rapid.SampledFrom([]int{0, 1, 15, 30, 31}).Draw(t, "pos")] = rapid.SampledFrom(keyBytes).Draw(t, "kb")
		}
		return k
	default: // variable length 0..5 (one key may be a prefix of another), sometimes 33
		n := rapid.IntRange(0, 5).Draw(t, "kl")
		if rapid.IntRange(0, 30).Draw(t, "long") == 0 {
			n = 33
		}
		k := make([]byte, n)
		for i := range k {
			if rapid.IntRange(0, 7).Draw(t, "rnd") == 0 {
				k[i] = rapid.Byte().Draw(t, "kb")
			} else {
				k[i] = rapid.SampledFrom(keyBytes).Draw(t, "kb")
			}
		}
		return k
	}
}

func genVal(t *rapid.T) []byte {
	b := rapid.Byte().Draw(t, "vb")
	n := rapid.SampledFrom([]int{0, 1, 1, 2, 20, 20, 31, 32, 33, 40, 100}).Draw(t, "vl")
	if n == 1 && b == 0 {
		b = 1 // a single zero byte is a legal value, keep both < and ≥ 0x80 single bytes
	}
	return bytes.Repeat([]byte{b}, n)
}

func sortedKeys(m map[string][]byte) []string {
	ks := make([]string, 0, len(m))
	for k := range m {
		ks = append(ks, k)
	}
	sort.Strings(ks)
	return ks
}

// proof list as it travels: node blobs. The verifier builds its own table by hashing each blob.
type proofList [][]byte

func (p *proofList) Put(key []byte, value []byte) error {
	*p = append(*p, common.CopyBytes(value))
	return nil
}
func (p *proofList) Delete(key []byte) error { panic("not supported") }

func (p proofList) table() kaidb.KeyValueReader {
	db := memorydb.New()
	for _, blob := range p {
		db.Put(keccak(blob), blob)
	}
	return db
}

// ---------------------------------------------------------------- the state machine

type world struct {
	disk   kaidb.Database
	tdb    *trie.Database
	tr     *trie.Trie
	model  map[string][]byte
	parent common.Hash
	log    []string
	// classes
	collapses, commits, reopens, updatesAfterCommit, proofs, copies int
}

func (w *world) logf(f string, a ...interface{}) { w.log = append(w.log, fmt.Sprintf(f, a...)) }
func (w *world) text() string                    { return strings.Join(w.log, ";") }

func (w *world) commitReopen(t *rapid.T, flush, freshDB bool) {
	var root common.Hash
	var nodes *trienode.NodeSet
	ev.Guard(t, w.text, func() { root, nodes = w.tr.Commit(false) })
	if want := refRoot(w.model); root != want {
		ev.Violation(t, "root.commit-vs-reference", w.text(), "Commit root %x, reference MPT root %x", root, want)
	}
	if nodes != nil {
		if err := w.tdb.Update(root, w.parent, trienode.NewWithNodeSet(nodes)); err != nil {
			ev.Violation(t, "db.update-error", w.text(), "triedb.Update: %v", err)
		}
	}
	w.parent = root
	if flush {
		if err := w.tdb.Commit(root, false); err != nil {
			ev.Violation(t, "db.commit-error", w.text(), "triedb.Commit(%x): %v", root, err)
		}
		if freshDB {
			w.tdb = trie.NewDatabase(w.disk) // everything in memory is gone: only the disk survives
		}
	}
	nt, err := trie.New(trie.TrieID(root), w.tdb)
	if err != nil {
		ev.Violation(t, "reopen.error", w.text(), "reopen by root %x failed: %v (model size %d)", root, err, len(w.model))
	}
	w.tr = nt
	w.commits++
	w.reopens++
}

func (w *world) checkAll(t *rapid.T, tr *trie.Trie, what string) {
	for k, want := range w.model {
		got, err := tr.Get([]byte(k))
		if err != nil || !bytes.Equal(got, want) {
			ev.Violation(t, "get.mismatch", w.text(), "%s: Get(%x)=%x,%v want %x", what, k, got, err, want)
		}
	}
}

func TestTrieModel(t *testing.T) {
	maxSteps := ev.Scale("STEPS", 60)
	rapid.Check(t, func(t *rapid.T) {
		mode := rapid.IntRange(0, 2).Draw(t, "keymode")
		w := &world{disk: memorydb.New(), model: map[string][]byte{}, parent: types.EmptyRootHash}
		w.tdb = trie.NewDatabase(w.disk)
		w.tr = trie.NewEmpty(w.tdb)
		w.logf("mode%d", mode)
		gt, _ := gtrie.New(gcommon.Hash{}, gtrie.NewDatabase(gmem.New()))
		var order []string // insertion order of distinct live keys (for the re-insertion oracle)
		dirtySinceCommit := false
		n := rapid.IntRange(1, maxSteps).Draw(t, "n")
		for i := 0; i < n; i++ {
			op := rapid.IntRange(0, 19).Draw(t, "op")
			switch {
			case op <= 7: // update
				k := genKey(t, mode)
				if len(w.model) > 0 && rapid.IntRange(0, 3).Draw(t, "reuse") == 0 {
					ks := sortedKeys(w.model)
					k = []byte(rapid.SampledFrom(ks).Draw(t, "ek"))
				}
				v := genVal(t)
				w.logf("put %x=%d*%02x", k, len(v), firstByte(v))
				var err error
				ev.Guard(t, w.text, func() { err = w.tr.Update(k, v) })
				if err != nil {
					ev.Violation(t, "update.error", w.text(), "Update(%x): %v", k, err)
				}
				gt.Update(k, v)
				if len(v) == 0 {
					delete(w.model, string(k))
				} else {
					w.model[string(k)] = v
				}
				order = append(order, string(k))
				if w.commits > 0 {
					w.updatesAfterCommit++
				}
				dirtySinceCommit = true
			case op <= 11: // delete (mostly existing keys, so that branches collapse)
				var k []byte
				if len(w.model) > 0 && rapid.IntRange(0, 4).Draw(t, "ex") != 0 {
					ks := sortedKeys(w.model)
					k = []byte(rapid.SampledFrom(ks).Draw(t, "ek"))
				} else {
					k = genKey(t, mode)
				}
				w.logf("del %x", k)
				before := len(w.model)
				var err error
				ev.Guard(t, w.text, func() { err = w.tr.Delete(k) })
				if err != nil {
					ev.Violation(t, "delete.error", w.text(), "Delete(%x): %v", k, err)
				}
				gt.Delete(k)
				delete(w.model, string(k))
				if len(w.model) < before && before >= 2 {
					w.collapses++
				}
				dirtySinceCommit = true
			case op == 12: // get (present or absent)
				k := genKey(t, mode)
				w.logf("get %x", k)
				var got []byte
				var err error
				ev.Guard(t, w.text, func() { got, err = w.tr.Get(k) })
				if err != nil || !bytes.Equal(got, w.model[string(k)]) {
					ev.Violation(t, "get.mismatch", w.text(), "Get(%x)=%x,%v want %x", k, got, err, w.model[string(k)])
				}
			case op == 13: // hash against the reference and geth
				w.logf("hash")
				var h common.Hash
				ev.Guard(t, w.text, func() { h = w.tr.Hash() })
				if want := refRoot(w.model); h != want {
					ev.Violation(t, "root.hash-vs-reference", w.text(), "Hash %x, reference MPT root %x (content %d keys)", h, want, len(w.model))
				}
				if g := gt.Hash(); !bytes.Equal(h[:], g[:]) {
					ev.Violation(t, "root.hash-vs-geth", w.text(), "Hash %x, go-ethereum root %x", h, g)
				}
			case op == 14 || op == 15: // commit and reopen
				flush := rapid.Bool().Draw(t, "flush")
				fresh := flush && rapid.Bool().Draw(t, "freshdb")
				w.logf("commit flush=%v fresh=%v", flush, fresh)
				w.commitReopen(t, flush, fresh)
				// verify on ANOTHER instance opened from the same root: reading through w.tr would resolve every node and
				// the history would never continue on a freshly reopened trie whose nodes are still unloaded hash nodes
				if vt, err := trie.New(trie.TrieID(w.parent), w.tdb); err != nil {
					ev.Violation(t, "reopen.error", w.text(), "second reopen by root %x failed: %v", w.parent, err)
				} else {
					w.checkAll(t, vt, "after reopen")
				}
				dirtySinceCommit = false
			case op == 16: // copy and diverge
				w.logf("copy")
				w.copies++
				var cp *trie.Trie
				ev.Guard(t, w.text, func() { cp = w.tr.Copy() })
				k, v := genKey(t, mode), []byte("divergent-value-on-the-copy-side-xxxxxxxxxxxx")
				h0 := w.tr.Hash()
				ev.Guard(t, w.text, func() {
					cp.Update(k, v)
					for ek := range w.model {
						cp.Delete([]byte(ek))
						break
					}
					cp.Hash()
				})
				if h1 := w.tr.Hash(); h1 != h0 {
					ev.Violation(t, "copy.not-independent", w.text(), "mutating a copy changed the original's root %x -> %x", h0, h1)
				}
				w.checkAll(t, w.tr, "original after copy diverged")
				if got, _ := w.tr.Get(k); !bytes.Equal(got, w.model[string(k)]) {
					ev.Violation(t, "copy.not-independent", w.text(), "mutating a copy changed the original at %x", k)
				}
			case op == 17: // iterate from a drawn start key
				start := genKey(t, mode)
				if rapid.Bool().Draw(t, "fromzero") || mode == 0 {
					start = nil
				}
				w.logf("iter %x", start)
				var gotK, gotV [][]byte
				var iterr error
				ev.Guard(t, w.text, func() {
					it := trie.NewIterator(w.tr.NodeIterator(start))
					for it.Next() {
						gotK = append(gotK, common.CopyBytes(it.Key))
						gotV = append(gotV, common.CopyBytes(it.Value))
					}
					iterr = it.Err
				})
				if iterr != nil {
					ev.Violation(t, "iter.error", w.text(), "iterator error: %v", iterr)
				}
				var wantK []string
				for _, k := range sortedKeys(w.model) {
					if bytes.Compare([]byte(k), start) >= 0 {
						wantK = append(wantK, k)
					}
				}
				if len(gotK) != len(wantK) {
					ev.Violation(t, "iter.mismatch", w.text(), "iterator from %x yielded %d keys, model has %d", start, len(gotK), len(wantK))
				}
				if mode == 0 {
					// keys that are prefixes of other keys are yielded after their extensions (value slot of a
					// branch comes last); order is only claimed for prefix-free key sets, so compare as sets here
					idx := make([]int, len(gotK))
					for j := range idx {
						idx[j] = j
					}
					sort.Slice(idx, func(a, b int) bool { return bytes.Compare(gotK[idx[a]], gotK[idx[b]]) < 0 })
					sk, sv := make([][]byte, len(idx)), make([][]byte, len(idx))
					for j, x := range idx {
						sk[j], sv[j] = gotK[x], gotV[x]
					}
					gotK, gotV = sk, sv
				}
				for j := range wantK {
					if string(gotK[j]) != wantK[j] || !bytes.Equal(gotV[j], w.model[wantK[j]]) {
						ev.Violation(t, "iter.mismatch", w.text(), "iterator item %d = %x:%x want %x:%x", j, gotK[j], gotV[j], wantK[j], w.model[wantK[j]])
					}
				}
			default: // prove + verify (+ tamper)
				k := genKey(t, mode)
				if len(w.model) > 0 && rapid.Bool().Draw(t, "present") {
					k = []byte(rapid.SampledFrom(sortedKeys(w.model)).Draw(t, "ek"))
				}
				w.logf("prove %x", k)
				w.proveVerify(t, k)
			}
		}
		// final: canonical root
		var h common.Hash
		ev.Guard(t, w.text, func() { h = w.tr.Hash() })
		ref := refRoot(w.model)
		if h != ref {
			ev.Violation(t, "root.hash-vs-reference", w.text(), "final Hash %x, reference MPT root %x", h, ref)
		}
		if g := gt.Hash(); !bytes.Equal(h[:], g[:]) {
			ev.Violation(t, "root.hash-vs-geth", w.text(), "final Hash %x, go-ethereum root %x", h, g)
		}
		w.checkAll(t, w.tr, "final")
		// same content, different insertion order and commit points
		if len(w.model) > 0 {
			ks := sortedKeys(w.model)
			perm := rapid.Permutation(ks).Draw(t, "perm")
			disk2 := memorydb.New()
			tdb2 := trie.NewDatabase(disk2)
			tr2 := trie.NewEmpty(tdb2)
			parent := types.EmptyRootHash
			cut := rapid.IntRange(0, len(perm)).Draw(t, "cut")
			ev.Guard(t, w.text, func() {
				for j, k := range perm {
					tr2.Update([]byte(k), w.model[k])
					if j == cut {
						root, nodes := tr2.Commit(false)
						if nodes != nil {
							tdb2.Update(root, parent, trienode.NewWithNodeSet(nodes))
						}
						parent = root
						tr2, _ = trie.New(trie.TrieID(root), tdb2)
					}
				}
			})
			if h2 := tr2.Hash(); h2 != h {
				ev.Violation(t, "root.order-dependent", w.text()+fmt.Sprintf(";reinsert perm=%x cut=%d", perm, cut), "same content inserted in another order gives root %x, history gives %x", h2, h)
			}
			// stack trie on sorted prefix-free content
			if mode != 0 {
				st := trie.NewStackTrie(nil)
				ev.Guard(t, w.text, func() {
					for _, k := range ks {
						st.Update([]byte(k), w.model[k])
					}
				})
				if hs := st.Hash(); hs != h {
					ev.Violation(t, "root.stacktrie", w.text(), "StackTrie root %x, trie root %x", hs, h)
				}
			}
		}
		nontrivial := w.collapses > 0 || (w.updatesAfterCommit > 0 && w.reopens > 0 && dirtySinceCommit || w.reopens > 1)
		classes := []string{fmt.Sprintf("keymode%d", mode)}
		if w.collapses > 0 {
			classes = append(classes, "delete-collapses-branch")
		}
		if w.reopens > 0 {
			classes = append(classes, "commit-reopen")
		}
		if w.updatesAfterCommit > 0 && w.reopens > 1 {
			classes = append(classes, "update-after-commit-then-reopen")
		}
		if w.proofs > 0 {
			classes = append(classes, "proof")
		}
		if w.copies > 0 {
			classes = append(classes, "copy")
		}
		ev.Case(nontrivial, w.text(), classes...)
		if nontrivial && ev.WantSample("history") {
			ev.Sample("history", w.text())
		}
	})
}

func firstByte(v []byte) byte {
	if len(v) == 0 {
		return 0
	}
	return v[0]
}

// proveVerify: genuine proof yields exactly the model value (or absence); no tampered list yields another value.
func (w *world) proveVerify(t *rapid.T, k []byte) {
	if len(w.model) == 0 {
		return // an empty trie has no root node; Prove yields nothing to verify (same in the reference implementation)
	}
	w.proofs++
	root := w.tr.Hash()
	var pl proofList
	var err error
	ev.Guard(t, w.text, func() { err = w.tr.Prove(k, 0, &pl) })
	if err != nil {
		ev.Violation(t, "prove.error", w.text(), "Prove(%x): %v", k, err)
	}
	want := w.model[string(k)]
	var got []byte
	ev.Guard(t, w.text, func() { got, err = trie.VerifyProof(root, k, pl.table()) })
	if err != nil || !bytes.Equal(got, want) {
		ev.Violation(t, "proof.genuine-rejected-or-wrong", w.text(), "VerifyProof(genuine, %x) = %x,%v want %x", k, got, err, want)
	}
	if len(pl) == 0 {
		return
	}
	// tamper with the travelling list
	for r := 0; r < 3; r++ {
		mut := make(proofList, len(pl))
		for i := range pl {
			mut[i] = common.CopyBytes(pl[i])
		}
		kind := rapid.IntRange(0, 4).Draw(t, "tamper")
		i := rapid.IntRange(0, len(mut)-1).Draw(t, "node")
		desc := ""
		switch kind {
		case 0: // flip one bit
			pos := rapid.IntRange(0, len(mut[i])*8-1).Draw(t, "bit")
			mut[i][pos/8] ^= 1 << (pos % 8)
			desc = fmt.Sprintf("flip node%d bit%d", i, pos)
		case 1: // drop a node
			mut = append(mut[:i], mut[i+1:]...)
			desc = fmt.Sprintf("drop node%d", i)
		case 2: // substitute the value bytes inside the last node by another value of the same length
			last := mut[len(mut)-1]
			if len(want) > 0 {
				if idx := bytes.LastIndex(last, want); idx >= 0 {
					last[idx+len(want)-1] ^= 0x55
				}
			}
			desc = "alter value in last node"
		case 3: // add nodes of a proof for another key
			var other proofList
			ok := genKey(t, 0)
			w.tr.Prove(ok, 0, &other)
			mut = append(mut, other...)
			desc = fmt.Sprintf("append proof of %x", ok)
		case 4: // truncate a node
			cut := rapid.IntRange(0, len(mut[i])-1).Draw(t, "cut")
			mut[i] = mut[i][:cut]
			desc = fmt.Sprintf("truncate node%d to %d", i, cut)
		}
		var g2 []byte
		var e2 error
		ev.Guard(t, func() string { return w.text() + ";tamper " + desc }, func() { g2, e2 = trie.VerifyProof(root, k, mut.table()) })
		if e2 == nil && !bytes.Equal(g2, want) {
			ev.Violation(t, "proof.tampered-yields-other-value", w.text()+";tamper "+desc, "tampered proof (%s) for %x verified to %x, stored value is %x", desc, k, g2, want)
		}
		ev.Class("proof-tamper")
	}
}

// ---------------------------------------------------------------- secure trie + DeriveSha + range proofs

type bytesList [][]byte

func (l bytesList) Len() int                           { return len(l) }
func (l bytesList) EncodeIndex(i int, w *bytes.Buffer) { w.Write(l[i]) }

func TestDeriveShaAndSecure(t *testing.T) {
	rapid.Check(t, func(t *rapid.T) {
		// DeriveSha over an index-keyed list (crossing the 0x7f/0x80 index-encoding boundary sometimes)
		n := rapid.SampledFrom([]int{0, 1, 2, 3, 5, 16, 17, 127, 128, 129, 200}).Draw(t, "n")
		list := make(bytesList, n)
		model := map[string][]byte{}
		for i := range list {
			l := rapid.SampledFrom([]int{1, 2, 20, 31, 32, 33, 60}).Draw(t, "l")
			list[i] = bytes.Repeat([]byte{byte(i*7 + l)}, l)
			model[string(rlpUint(uint64(i)))] = list[i]
		}
		var h1, h2 common.Hash
		ev.Guard(t, nil, func() { h1 = types.DeriveSha(list, trie.NewStackTrie(nil)) })
		ev.Guard(t, nil, func() { h2 = types.DeriveSha(list, trie.NewEmpty(trie.NewDatabase(memorydb.New()))) })
		ref := refRoot(model)
		canon := fmt.Sprintf("derive n=%d first=%x", n, firstOf(list))
		if h1 != ref || h2 != ref {
			ev.Violation(t, "derivesha.mismatch", canon, "DeriveSha stack=%x trie=%x reference=%x (n=%d)", h1, h2, ref, n)
		}
		// secure trie: root equals reference over keccak(key)
		sdb := trie.NewDatabase(memorydb.New())
		stt, err := trie.NewStateTrie(trie.StateTrieID(types.EmptyRootHash), sdb)
		if err != nil {
			t.Fatalf("NewStateTrie: %v", err)
		}
		smodel := map[string][]byte{}
		plain := map[string][]byte{}
		m := rapid.IntRange(0, 12).Draw(t, "m")
		for i := 0; i < m; i++ {
			k := genKey(t, 0)
			v := genVal(t)
			ev.Guard(t, nil, func() { stt.MustUpdate(k, v) })
			if len(v) == 0 {
				delete(smodel, string(keccak(k)))
				delete(plain, string(k))
			} else {
				smodel[string(keccak(k))] = v
				plain[string(k)] = v
			}
			canon += fmt.Sprintf(";s %x=%d", k, len(v))
		}
		if h := stt.Hash(); h != refRoot(smodel) {
			ev.Violation(t, "secure.root", canon, "secure trie root %x, reference over hashed keys %x", h, refRoot(smodel))
		}
		for k, v := range plain {
			if got := stt.MustGet([]byte(k)); !bytes.Equal(got, v) {
				ev.Violation(t, "secure.get", canon, "secure Get(%x)=%x want %x", k, got, v)
			}
		}
		ev.Case(n >= 2 || m >= 2, canon, "derive+secure")
	})
}

func firstOf(l bytesList) []byte {
	if len(l) == 0 {
		return nil
	}
	return l[0]
}

func rlpUint(x uint64) []byte {
	if x == 0 {
		return []byte{0x80}
	}
	var be []byte
	for ; x > 0; x >>= 8 {
		be = append([]byte{byte(x)}, be...)
	}
	return rlpBytes(be)
}

func TestRangeProof(t *testing.T) {
	rapid.Check(t, func(t *rapid.T) {
		mode := rapid.IntRange(1, 2).Draw(t, "mode")
		tr := trie.NewEmpty(trie.NewDatabase(memorydb.New()))
		model := map[string][]byte{}
		n := rapid.IntRange(1, 24).Draw(t, "n")
		for i := 0; i < n; i++ {
			k := genKey(t, mode)
			v := genVal(t)
			if len(v) == 0 {
				v = []byte{0x7}
			}
			tr.Update(k, v)
			model[string(k)] = v
		}
		root := tr.Hash()
		ks := sortedKeys(model)
		lo := rapid.IntRange(0, len(ks)-1).Draw(t, "lo")
		hi := rapid.IntRange(lo, len(ks)-1).Draw(t, "hi")
		first := []byte(ks[lo])
		if rapid.Bool().Draw(t, "originBefore") { // origin strictly between the previous key and keys[lo]
			o := genKey(t, mode)
			if bytes.Compare(o, first) < 0 && (lo == 0 || bytes.Compare(o, []byte(ks[lo-1])) > 0) {
				first = o
			}
		}
		last := []byte(ks[hi])
		var keys, vals [][]byte
		for _, k := range ks[lo : hi+1] {
			keys = append(keys, []byte(k))
			vals = append(vals, model[k])
		}
		var pl proofList
		tr.Prove(first, 0, &pl)
		tr.Prove(last, 0, &pl)
		canon := fmt.Sprintf("range mode=%d n=%d lo=%d hi=%d first=%x keys=%x", mode, len(ks), lo, hi, first, keys)
		var more bool
		var err error
		ev.Guard(t, func() string { return canon }, func() { more, err = trie.VerifyRangeProof(root, first, last, keys, vals, pl.table()) })
		if err != nil {
			ev.Violation(t, "rangeproof.genuine-rejected", canon, "genuine range proof rejected: %v", err)
		}
		if wantMore := hi < len(ks)-1; more != wantMore {
			ev.Violation(t, "rangeproof.more-flag", canon, "more=%v want %v", more, wantMore)
		}
		// tamper with the leaf range
		kind := rapid.IntRange(0, 2).Draw(t, "tamper")
		tk := append([][]byte{}, keys...)
		tv := append([][]byte{}, vals...)
		desc := ""
		switch kind {
		case 0: // alter a value
			i := rapid.IntRange(0, len(tv)-1).Draw(t, "i")
			nv := append(common.CopyBytes(tv[i]), 0x01)
			tv[i] = nv
			desc = fmt.Sprintf("alter value %d", i)
		case 1: // drop an interior element
			if len(tk) < 3 {
				desc = ""
				break
			}
			i := rapid.IntRange(1, len(tk)-2).Draw(t, "i")
			tk = append(tk[:i:i], tk[i+1:]...)
			tv = append(tv[:i:i], tv[i+1:]...)
			desc = fmt.Sprintf("drop interior %d", i)
		case 2: // add an element that is not in the trie, strictly inside the range
			nk := genKey(t, mode)
			if _, ok := model[string(nk)]; ok || bytes.Compare(nk, keys[0]) <= 0 || bytes.Compare(nk, last) >= 0 {
				break
			}
			pos := sort.Search(len(tk), func(i int) bool { return bytes.Compare(tk[i], nk) > 0 })
			tk = append(tk[:pos:pos], append([][]byte{nk}, tk[pos:]...)...)
			tv = append(tv[:pos:pos], append([][]byte{[]byte("forged")}, tv[pos:]...)...)
			desc = fmt.Sprintf("insert %x at %d", nk, pos)
		}
		if desc != "" {
			var e2 error
			ev.Guard(t, func() string { return canon + ";" + desc }, func() { _, e2 = trie.VerifyRangeProof(root, first, last, tk, tv, pl.table()) })
			if e2 == nil {
				ev.Violation(t, "rangeproof.tampered-accepted", canon+";"+desc, "tampered range (%s) accepted", desc)
			}
		}
		ev.Case(desc != "" && len(keys) >= 2, canon+";"+desc, "rangeproof")
		if desc != "" && ev.WantSample("rangeproof") {
			ev.Sample("rangeproof", canon+";"+desc)
		}
	})
}
