package c10

// Directed structural generators. Their expectations are derived from the property text / the EVM specification and do
// not need the reference VM (checkWorld still runs the differential on every case as a bonus).

import (
	"bytes"
	"fmt"
	"math/big"
	"testing"

	"pgregory.net/rapid"

	"github.com/kardiachain/go-kardia/kvm"
	"github.com/kardiachain/go-kardia/lib/common"

	"verifharness/internal/ev"
)

// ---------------------------------------------------------------- tiny deterministic assembler

type asmb struct{ code []byte }

func (a *asmb) o(ops ...byte) *asmb { a.code = append(a.code, ops...); return a }
func (a *asmb) pu(v uint64) *asmb {
	bs := new(big.Int).SetUint64(v).Bytes()
	if len(bs) == 0 {
		bs = []byte{0}
	}
	return a.pb(bs)
}
func (a *asmb) pb(bs []byte) *asmb {
	a.code = append(a.code, byte(0x60+len(bs)-1))
	a.code = append(a.code, bs...)
	return a
}
func (a *asmb) paddr(x addr) *asmb { return a.pb(x[:]) }

// store writes data to memory at off (PUSH32/MSTORE per word, right-padded).
func (a *asmb) store(off int, data []byte) *asmb {
	for i := 0; i < len(data); i += 32 {
		chunk := make([]byte, 32)
		copy(chunk, data[i:])
		a.pb(chunk).pu(uint64(off + i)).o(0x52)
	}
	return a
}

// call emits op(gas, to, [value], inOff, inLen, retOff, retLen); the status word is left on the stack.
func (a *asmb) call(op byte, gas uint64, to addr, value uint64, inOff, inLen, retOff, retLen uint64) *asmb {
	a.pu(retLen).pu(retOff).pu(inLen).pu(inOff)
	if op == opCALL || op == opCALLCODE {
		a.pu(value)
	}
	return a.paddr(to).pu(gas).o(op)
}

func wordOf(v uint64) word { var w word; new(big.Int).SetUint64(v).FillBytes(w[:]); return w }

func contract(code []byte, balance uint64) acct {
	return acct{Present: true, Code: code, Balance: balance, Nonce: 1, Src: "directed"}
}

func baseWorld(t *rapid.T) *world {
	resetMix(t)
	return &world{Galaxias: rapid.Bool().Draw(t, "galaxias"), Height: 10, OriginBal: 1000000000, OriginNon: uint64(intn(t, 0, 2)), Gas: 10000000}
}

// ---------------------------------------------------------------- (3a) state-changing instructions fail inside a static call

var writeKinds = []string{"SSTORE", "LOG0", "LOG1", "LOG2", "LOG3", "LOG4", "CREATE", "CREATE2", "SELFDESTRUCT", "CALL-with-value"}

// writerCode: optional pure prefix, one state-changing instruction, then "return 1".
func writerCode(t *rapid.T, kind string, env genEnv) []byte {
	a := &asmb{}
	if chance(t, 50) { // pure prefix from the grammar's expression generator
		b := &pb{t: t, env: env, pure: true}
		for i := count(t, 1, 3); i > 0; i-- {
			b.genPure(2)
			b.pushU(uint64(32 * intn(t, 2, 5)))
			b.op(0x52, 2, 0)
		}
		a.o(b.finish()...)
	}
	switch kind {
	case "SSTORE":
		a.pu(0x77).pu(5).o(0x55)
	case "LOG0", "LOG1", "LOG2", "LOG3", "LOG4":
		n := int(kind[3] - '0')
		for i := 0; i < n; i++ {
			a.pu(uint64(0xa0 + i))
		}
		a.pu(0).pu(0).o(byte(0xa0 + n))
	case "CREATE":
		a.pu(0).pu(0).pu(0).o(0xf0, 0x50)
	case "CREATE2":
		a.pu(0).pu(0).pu(0).pu(0).o(0xf5, 0x50)
	case "SELFDESTRUCT":
		a.paddr(uAddr(3)).o(0xff)
	case "CALL-with-value":
		a.call(opCALL, 0xffff, uAddr(3), 1, 0, 0, 0, 0).o(0x50)
	}
	a.pu(1).pu(0).o(0x52).pu(32).pu(0).o(0xf3)
	return a.code
}

func TestStaticCallProtection(t *testing.T) {
	rapid.Check(t, func(t *rapid.T) {
		w := baseWorld(t)
		env := genEnv{galaxias: w.Galaxias, height: w.Height, self: 3}
		kind := writeKinds[intn(t, 0, len(writeKinds)-1)]
		via := []string{"static-direct", "static>call", "static>delegatecall", "static>callcode", "static>static", "control-call"}[pickW(t, 30, 15, 12, 12, 11, 20)]
		writer := writerCode(t, kind, env)
		w.U[3] = acct{Present: true, Balance: 5, Src: "eoa"}
		writerAt := 1
		if via != "static-direct" && via != "control-call" {
			// middle contract: forwards to the writer with a non-static call kind; the static flag must stick
			writerAt = 2
			op := map[string]byte{"static>call": opCALL, "static>delegatecall": opDELEGATE, "static>callcode": opCALLCODE, "static>static": opSTATIC}[via]
			m := &asmb{}
			m.call(op, 500000, uAddr(2), 0, 0, 0, 0, 32).pu(32).o(0x52).pu(64).pu(0).o(0xf3)
			w.U[1] = contract(m.code, 10)
		}
		w.U[writerAt] = contract(writer, 10)
		d := &asmb{}
		outer := byte(opSTATIC)
		if via == "control-call" {
			outer = opCALL
		}
		d.call(outer, 2000000, uAddr(1), 0, 0, 0, 0, 64).pu(64).o(0x52).pu(96).pu(0).o(0xf3)
		w.U[0] = contract(d.code, 10)
		w.MainSrc = "directed-static"

		classes := []string{"static:" + via, "static-op:" + kind}
		ct := w.text()
		expect := func(k *kOutcome) {
			if k.err != nil || len(k.ret) != 96 {
				ev.Violation(t, "struct.static.driver-failed", ct, "driver must succeed and return 96 bytes: err=%v ret=%x", k.err, k.ret)
				return
			}
			w0, w1, status := k.ret[31], k.ret[63], k.ret[95]
			pre := kBuildState(w)
			pre.SetNonce(common.Address(originAddr), w.OriginNon+1)
			ob := observe(k.tr)
			_, after, before, changed := firstDiff(snapshot(kView{k.st}, ob), snapshot(kView{pre}, ob))
			switch via {
			case "control-call":
				// completeness: outside a static context the very same code performs its write
				wantFlag := byte(1)
				if kind == "SELFDESTRUCT" {
					wantFlag = 0 // SELFDESTRUCT halts before the "return 1"
				}
				if status != 1 || w0 != wantFlag {
					ev.Violation(t, "struct.static.write-blocked-outside-static:"+kind, ct, "plain CALL to the writer: status=%d flag=%d want 1/%d", status, w0, wantFlag)
				}
				if !changed {
					ev.Violation(t, "struct.static.write-blocked-outside-static:"+kind, ct, "plain CALL to the writer (%s) changed nothing", kind)
				}
			default:
				if changed {
					ev.Violation(t, "struct.static.state-changed:"+kind, ct, "%s inside %s changed state: after %q, before %q", kind, via, after, before)
				}
				wantStatus := byte(0) // the writer is the direct callee: the static call itself fails
				if via != "static-direct" {
					wantStatus = 1 // the middle frame survives, its inner call fails
				}
				if status != wantStatus || w0 != 0 || w1 != 0 {
					ev.Violation(t, "struct.static.write-not-rejected:"+kind, ct, "%s inside %s: outer status=%d inner flag=%d inner status=%d, want %d/0/0", kind, via, status, w0, w1, wantStatus)
				}
				if k.tr.errKinds["write-protection"] == 0 {
					ev.Violation(t, "struct.static.write-not-rejected:"+kind, ct, "%s inside %s: no frame ended with ErrWriteProtection (%v)", kind, via, k.tr.errKinds)
				}
			}
		}
		k, g := checkWorld(t, w, true, &classes, expect)
		if k == nil {
			ev.Case(false, ct, append(classes, "set-aside-known")...)
			return
		}
		ev.Case(k.tr.nontrivial() && g != nil, ct, classes...)
		if ev.WantSample("static") {
			ev.Sample("static", ct)
		}
	})
}

// genPure pushes one value computed without any state access that could differ in a static context (no calls).
func (b *pb) genPure(d int) { b.genValue(d) }

// ---------------------------------------------------------------- (3b) a reverted or failed frame leaves no state change

var failModes = []string{"REVERT", "REVERT-data", "INVALID", "undefined-opcode", "stack-underflow", "bad-jump", "returndata-oob", "out-of-gas-memory", "stack-overflow", "none"}

// effects emits 1..6 state-changing steps (stack neutral). H = helper contract address that itself writes and logs.
func effects(t *rapid.T, a *asmb, helper, sink addr) []string {
	var log []string
	for i := count(t, 1, 6); i > 0; i-- {
		switch pickW(t, 30, 15, 20, 15, 10, 10) {
		case 0:
			k, v := uint64(intn(t, 0, 5)), uint64(intn(t, 0, 255))
			a.pu(v).pu(k).o(0x55)
			log = append(log, fmt.Sprintf("sstore(%d,%d)", k, v))
		case 1:
			n := intn(t, 0, 4)
			for j := 0; j < n; j++ {
				a.pu(uint64(j + 1))
			}
			a.pu(uint64(intn(t, 0, 40))).pu(0).o(byte(0xa0 + n))
			log = append(log, fmt.Sprintf("log%d", n))
		case 2:
			a.call(opCALL, 200000, helper, uint64(intn(t, 0, 1)), 0, 0, 0, 0).o(0x50)
			log = append(log, "call-helper")
		case 3:
			a.call(opCALL, 30000, sink, 1, 0, 0, 0, 0).o(0x50)
			log = append(log, "transfer")
		case 4: // CREATE a child whose constructor writes storage and deploys one byte of code
			init := (&asmb{}).pu(0x11).pu(1).o(0x55).pu(1).pu(0).o(0xf3).code
			a.store(0x100, init).pu(uint64(len(init))).pu(0x100).pu(uint64(intn(t, 0, 1))).o(0xf0, 0x50)
			log = append(log, "create")
		default:
			init := (&asmb{}).pu(0x22).pu(2).o(0x55).o(0x00).code
			a.store(0x100, init).pu(uint64(intn(t, 0, 3))).pu(uint64(len(init))).pu(0x100).pu(0).o(0xf5, 0x50)
			log = append(log, "create2")
		}
	}
	return log
}

func failure(t *rapid.T, a *asmb, mode string) {
	switch mode {
	case "REVERT":
		a.pu(0).pu(0).o(0xfd)
	case "REVERT-data":
		a.pu(0xdead).pu(0).o(0x52).pu(uint64(intn(t, 1, 64))).pu(0).o(0xfd)
	case "INVALID":
		a.o(0xfe)
	case "undefined-opcode":
		a.o([]byte{0x0c, 0x21, 0x4f, 0xb0, 0xef}[intn(t, 0, 4)])
	case "stack-underflow":
		a.o([]byte{0x01, 0x50, 0x55, 0x80, 0x90, 0xf1}[intn(t, 0, 5)]) // the effects are stack neutral: the stack is empty here
	case "bad-jump":
		a.pu(uint64([]int{0, 1, 0xffff}[intn(t, 0, 2)])).o(0x56)
	case "returndata-oob":
		a.pu(1).pu(1 << 20).pu(0).o(0x3e)
	case "out-of-gas-memory":
		a.pu(1).pb([]byte{0xff, 0xff, 0xff, 0xff, 0xff}).o(0x52)
	case "stack-overflow":
		// JUMPDEST PUSH1 1 PUSH2 <self> JUMP : one more item per round until the 1025th push fails
		at := len(a.code)
		a.o(0x5b).pu(1).pb([]byte{byte(at >> 8), byte(at)}).o(0x56)
	case "none":
		a.o(0x00)
	}
}

func TestFailedFrameLeavesNoTrace(t *testing.T) {
	rapid.Check(t, func(t *rapid.T) {
		w := baseWorld(t)
		mode := failModes[intn(t, 0, len(failModes)-1)]
		frame := []string{"CALL", "CALLCODE", "DELEGATECALL", "CREATE", "CREATE2", "top-level-call", "top-level-create"}[pickW(t, 30, 12, 12, 12, 8, 16, 10)]
		// helper: writes its own storage, logs, and sometimes selfdestructs — all inside the failing frame
		h := &asmb{}
		h.pu(0x99).pu(uint64(intn(t, 0, 3))).o(0x55).pu(7).pu(0).pu(0).o(0xa1)
		if chance(t, 25) {
			h.paddr(uAddr(3)).o(0xff)
		}
		w.U[2] = contract(h.o(0x00).code, uint64(intn(t, 0, 9)))
		w.U[3] = acct{Present: true, Balance: 5, Src: "eoa"}
		for k := range w.U[1].Slots {
			if chance(t, 40) {
				w.U[1].Slots[k] = wordOf(uint64(intn(t, 1, 200)))
			}
		}
		v := &asmb{}
		fx := effects(t, v, uAddr(2), uAddr(3))
		if mode == "none" {
			// the control frame gets one effect that is visible whatever the drawn ones do (pre-state slots hold 1..200)
			v.pu(0xEE).pu(5).o(0x55)
			fx = append(fx, "sstore(5,238)")
		}
		failure(t, v, mode)
		victim := v.code
		w.MainSrc = "directed-failed-frame"
		const markBefore, markAfter = 0xAA, 0xB0
		switch frame {
		case "top-level-call":
			w.U[0] = contract(victim, 50)
			w.U[0].Slots = w.U[1].Slots
			w.U[1] = acct{}
			w.Value = uint64(intn(t, 0, 3))
		case "top-level-create":
			w.Create, w.InitCode = true, victim
			w.U[0], w.U[1] = acct{}, acct{}
			w.Value = uint64(intn(t, 0, 3))
		default:
			d := &asmb{}
			d.pu(markBefore).pu(8).o(0x55)
			switch frame {
			case "CALL", "CALLCODE", "DELEGATECALL":
				w.U[1].Present, w.U[1].Code, w.U[1].Nonce, w.U[1].Balance, w.U[1].Src = true, victim, 1, 50, "directed"
				op := map[string]byte{"CALL": opCALL, "CALLCODE": opCALLCODE, "DELEGATECALL": opDELEGATE}[frame]
				d.call(op, 3000000, uAddr(1), uint64(intn(t, 0, 2)), 0, 0, 0, 0)
			case "CREATE":
				w.U[1] = acct{}
				d.store(0x200, victim).pu(uint64(len(victim))).pu(0x200).pu(uint64(intn(t, 0, 2))).o(0xf0)
			case "CREATE2":
				w.U[1] = acct{}
				d.store(0x200, victim).pu(uint64(intn(t, 0, 5))).pu(uint64(len(victim))).pu(0x200).pu(0).o(0xf5)
			}
			// status word (or created address) -> 0 / non-zero -> slot 9 = markAfter + (status != 0)
			d.o(0x15, 0x15).pu(markAfter).o(0x01).pu(9).o(0x55).o(0x00)
			w.U[0] = contract(d.code, 50)
		}
		classes := []string{"failframe:" + frame, "failmode:" + mode}
		ct := w.text() + "\neffects=" + fmt.Sprint(fx)
		topLevel := frame == "top-level-call" || frame == "top-level-create"
		failed := mode != "none"
		setAside := ""
		expect := func(k *kOutcome) {
			if kErrKind(k.err) == "oog" && !topLevel {
				// e.g. the KVM's CREATE2 hands ALL gas to the init code, a failing one leaves the driver without gas:
				// gas is outside the property; the general top-frame clause of checkWorld has been applied
				setAside = "driver-out-of-gas"
				return
			}
			if !failed && k.tr.oog {
				// control case spoiled by gas: some frame ran out of gas (e.g. a CREATE2 address collision burns everything
				// the KVM forwarded, which is all of it), so the frame that was meant to succeed did not
				setAside = "control-out-of-gas"
				return
			}
			if topLevel {
				// the failing case is already decided by checkWorld's general clause (post-state == pre-state); here only
				// the direction "error reported iff the frame failed"
				if (k.err != nil) != failed {
					ev.Violation(t, "struct.failed-frame.top-level-error-flag", ct, "frame failed=%v but err=%v", failed, k.err)
				}
				return
			}
			if k.err != nil {
				ev.Violation(t, "struct.failed-frame.driver-failed", ct, "the driver frame must succeed: %v", k.err)
				return
			}
			// expected post-state, built from the pre-state with plain setters
			exp := kBuildState(w)
			exp.SetNonce(common.Address(originAddr), w.OriginNon+1)
			u0 := common.Address(uAddr(0))
			exp.SetState(u0, common.Hash(slotKey(8)), common.Hash(wordOf(markBefore)))
			ob := observe(k.tr)
			got := snapshot(kView{k.st}, ob)
			if failed {
				exp.SetState(u0, common.Hash(slotKey(9)), common.Hash(wordOf(markAfter)))
				if frame == "CREATE" || frame == "CREATE2" {
					exp.SetNonce(u0, 2) // the creator's nonce bump is not part of the created frame
				}
				if f, a, b, d := firstDiff(got, snapshot(kView{exp}, ob)); d {
					ev.Violation(t, "struct.failed-frame-left-trace."+f, ct, "%s frame ended with %s: state has %q, expected %q", frame, mode, a, b)
				}
				return
			}
			// control: the same effects persist when the frame does not fail
			if s9 := k.st.GetState(u0, common.Hash(slotKey(9))); s9 != common.Hash(wordOf(markAfter+1)) {
				ev.Violation(t, "struct.successful-frame-reported-failed", ct, "%s frame ended normally but status slot is %x", frame, s9)
			}
			exp.SetState(u0, common.Hash(slotKey(9)), common.Hash(wordOf(markAfter+1)))
			if _, _, _, d := firstDiff(got, snapshot(kView{exp}, ob)); !d {
				ev.Violation(t, "struct.successful-frame-lost-effects", ct, "%s frame ended normally but none of its effects %v is visible", frame, fx)
			}
		}
		k, g := checkWorld(t, w, true, &classes, expect)
		if k == nil {
			ev.Case(false, ct, append(classes, "set-aside-known")...)
			return
		}
		if setAside != "" {
			ev.Case(false, ct, append(classes, setAside)...)
			return
		}
		ev.Case(k.tr.nontrivial() && g != nil, ct, classes...)
		if ev.WantSample("failed-frame") {
			ev.Sample("failed-frame", ct)
		}
	})
}

// ---------------------------------------------------------------- (3c) call depth 1024, (3d) stack 1024

const deepGas = uint64(1) << 50

func TestDepthAndStackLimits(t *testing.T) {
	rapid.Check(t, func(t *rapid.T) {
		w := baseWorld(t)
		w.MainSrc = "directed-limits"
		var classes []string
		what := []string{"depth-CALL", "depth-CALLCODE", "depth-DELEGATECALL", "depth-STATICCALL", "depth-CREATE", "depth-CREATE2", "stack-push", "stack-dup", "stack-nested"}[pickW(t, 8, 6, 6, 8, 6, 4, 25, 20, 17)]
		classes = append(classes, "limit:"+what)
		var wantRet []byte
		wantErr, wantDepth, wantStack := "", 0, 0
		switch what {
		case "depth-CALL", "depth-CALLCODE", "depth-DELEGATECALL", "depth-STATICCALL":
			// every frame calls itself, then returns 1 + (what the callee returned, 0 if the call failed)
			op := map[string]byte{"depth-CALL": opCALL, "depth-CALLCODE": opCALLCODE, "depth-DELEGATECALL": opDELEGATE, "depth-STATICCALL": opSTATIC}[what]
			a := &asmb{}
			a.pu(32).pu(0).pu(0).pu(0)
			if op == opCALL || op == opCALLCODE {
				a.pu(0)
			}
			a.o(0x30).pb(bytes.Repeat([]byte{0xff}, 8)).o(op, 0x50) // ADDRESS, gas = 2^64-1 (all but 1/64th), drop status
			a.pu(0).o(0x51).pu(1).o(0x01).pu(0).o(0x52).pu(32).pu(0).o(0xf3)
			w.U[0] = contract(a.code, 0)
			w.Gas = deepGas
			r := wordOf(1025)
			wantRet, wantDepth = r[:], 1025
		case "depth-CREATE", "depth-CREATE2":
			// init code that creates a copy of itself
			a := &asmb{}
			a.o(0x38).pu(0).pu(0).o(0x39) // CODECOPY(0, 0, CODESIZE)
			if what == "depth-CREATE2" {
				a.pu(0)
			}
			a.o(0x38).pu(0).pu(0) // size, offset, value
			if what == "depth-CREATE2" {
				a.o(0xf5)
			} else {
				a.o(0xf0)
			}
			a.o(0x50, 0x00)
			w.Create, w.InitCode, w.Gas = true, a.code, deepGas
			wantDepth = 1025
		case "stack-push", "stack-dup":
			n := intn(t, 1019, 1030)
			a := &asmb{}
			a.pu(7)
			for i := 1; i < n; i++ {
				if what == "stack-dup" {
					a.o(byte(0x80 + intn(t, 0, min(15, i-1))))
				} else {
					a.pu(uint64(i & 0xff))
				}
			}
			a.pu(1).pu(0).o(0x55).o(0x00) // never reached when n >= 1024: the two pushes overflow first
			w.U[0] = contract(a.code, 0)
			classes = append(classes, fmt.Sprintf("stack-items:%d", n))
			// the tail needs two more slots
			if n+2 > 1024 {
				wantErr, wantStack = "stack-overflow", 1024
				if n > 1024 {
					wantStack = 1024
				}
			} else {
				wantStack = n + 2
			}
		case "stack-nested":
			// the callee overflows; the caller must see status 0, keep running and store the status
			n := intn(t, 1022, 1027)
			c := &asmb{}
			for i := 0; i < n; i++ {
				c.pu(1)
			}
			c.o(0x00)
			w.U[1] = contract(c.code, 0)
			d := &asmb{}
			d.call(opCALL, 3000000, uAddr(1), 0, 0, 0, 0, 0).pu(0).o(0x52).pu(32).pu(0).o(0xf3)
			w.U[0] = contract(d.code, 0)
			classes = append(classes, fmt.Sprintf("stack-items:%d", n))
			if n <= 1024 {
				r := wordOf(1)
				wantRet = r[:]
			} else {
				wantRet = make([]byte, 32)
			}
		}
		ct := w.text()
		expect := func(k *kOutcome) {
			if got := kErrKind(k.err); got != wantErr {
				ev.Violation(t, "struct.limit."+what+".outcome", ct, "%s: err=%v, want %q", what, k.err, wantErr)
			}
			if wantRet != nil && !bytes.Equal(k.ret, wantRet) {
				ev.Violation(t, "struct.limit."+what+".result", ct, "%s: returned %x, want %x", what, k.ret, wantRet)
			}
			if wantDepth != 0 && k.tr.maxDepth != wantDepth {
				ev.Violation(t, "struct.limit."+what+".depth", ct, "%s: deepest frame at depth %d, want %d (top frame = 1, limit 1024 nested calls)", what, k.tr.maxDepth, wantDepth)
			}
			if wantStack != 0 && k.tr.maxStack != wantStack {
				ev.Violation(t, "struct.limit."+what+".stack", ct, "%s: largest stack %d, want %d", what, k.tr.maxStack, wantStack)
			}
			if _, isOverflow := k.err.(*kvm.ErrStackOverflow); wantErr == "stack-overflow" && !isOverflow {
				ev.Violation(t, "struct.limit."+what+".outcome", ct, "%s: want *ErrStackOverflow, got %T", what, k.err)
			}
		}
		k, g := checkWorld(t, w, true, &classes, expect)
		if k == nil {
			ev.Case(false, ct, append(classes, "set-aside-known")...)
			return
		}
		ev.Case(g != nil, ct, classes...)
	})
}

// ---------------------------------------------------------------- known / fixed findings (directed reproducers)

func TestFindings(t *testing.T) {
	// ECRECOVER with a valid signature whose s is in the upper half of the group order: every EVM returns the signer,
	// the KVM returns nothing (contracts.go passes homestead=true to ValidateSignatureValues).
	in := ecrecoverInput(1, true)
	a := &asmb{}
	a.store(0, in).call(opSTATIC, 100000, precompileAddr(1), 0, 0, 128, 0x100, 32).o(0x50).pu(32).pu(0x100).o(0xf3)
	w := &world{Galaxias: true, Height: 10, OriginBal: 1000000000, Gas: 1000000, MainSrc: "directed"}
	w.U[0] = contract(a.code, 0)
	k, g := runKVM(w, true), runGeth(w)
	low := ecrecoverInput(1, false)
	a2 := &asmb{}
	a2.store(0, low).call(opSTATIC, 100000, precompileAddr(1), 0, 0, 128, 0x100, 32).o(0x50).pu(32).pu(0x100).o(0xf3)
	w2 := *w
	w2.U[0] = contract(a2.code, 0)
	kl, gl := runKVM(&w2, true), runGeth(&w2)
	t.Logf("high-s: KVM %x reference %x; low-s: KVM %x reference %x", k.ret, g.ret, kl.ret, gl.ret)
	sane := bytes.Equal(kl.ret, gl.ret) && bytes.Equal(gl.ret, g.ret) && !bytes.Equal(g.ret, make([]byte, 32))
	if !sane {
		t.Fatalf("harness: the signature vectors do not recover to one address on the reference VM")
	}
	ev.KnownReproduced(keyEcrecoverHighS, !bytes.Equal(k.ret, g.ret))
	ev.Case(true, w.text(), "directed:ecrecover-high-s")
}

// ---------------------------------------------------------------- every opcode byte once (exhaustive sub-enumeration)

// TestEveryOpcodeByte runs each of the 256 opcode bytes, in both instruction sets, on stacks of 0,1,2,3,5,7 and 17 items
// (enough for every instruction) and three operand patterns, through all oracles of checkWorld. It is the exhaustive
// answer to "does an opcode exist on one side only / with another arity": any difference that is not one of the
// documented exclusions is a violation.
func TestEveryOpcodeByte(t *testing.T) {
	type variant struct {
		items int
		val   byte
	}
	variants := []variant{{0, 0x20}, {1, 0x20}, {2, 0x20}, {3, 0x20}, {5, 0x20}, {7, 0x20}, {17, 0x20}, {17, 0x00}, {17, 0x40}}
	n := 0
	for _, galaxias := range []bool{false, true} {
		for op := 0; op < 256; op++ {
			for _, v := range variants {
				a := &asmb{}
				for i := 0; i < v.items; i++ {
					a.o(0x60, v.val)
				}
				a.o(byte(op))
				// make the result observable: whatever is on top goes to storage, the memory is returned
				a.o(0x60, 0x07, 0x55, 0x60, 0x60, 0x60, 0x00, 0xf3)
				w := &world{Galaxias: galaxias, Height: 300, OriginBal: 1000000000, OriginNon: 1, Gas: 3000000, Input: bytes.Repeat([]byte{0xab}, 40), Value: 3, MainSrc: "every-opcode"}
				w.U[0] = contract(a.code, 1000)
				w.U[0].Slots[0] = wordOf(5)
				w.U[1] = contract([]byte{0x60, 0x01, 0x60, 0x00, 0x55, 0x00}, 0)
				classes := []string{"every-opcode"}
				k, g := checkWorld(t, w, true, &classes, nil)
				if k != nil {
					ev.Case(g != nil && !k.tr.oog && !g.tr.oog && k.tr.excluded == "" && g.tr.excluded == "" && v.items == 17, w.text(), classes...)
				}
				n++
			}
		}
	}
	ev.Exhaustive()
	ev.Note("every_opcode_cases", n)
}
