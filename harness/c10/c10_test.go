// C10 — the KVM executes bytecode with reference EVM semantics and never crashes.
//
// Layout of the package:
//
//	c10_test.go     worlds (pre-state + message), the two runners (KVM on kai/state, go-ethereum v1.9.15 core/vm on
//	                core/state), the step tracers, the robustness / determinism / differential oracles, TestKVMPrograms
//	gen_test.go     the three program sources (uniform bytes, opcode-weighted, stack-aware grammar)
//	struct_test.go  directed structural generators (static-call write protection, failed frames leave no trace,
//	                depth 1024, stack 1024) with spec-derived expectations that do not need the reference VM
//	fuzz_test.go    native fuzz target over raw bytecode (thorough tier)
//
// What is deliberately NOT compared between the KVM and the reference VM (each is a documented difference between this
// port and go-ethereum v1.9.15/Istanbul that is outside the property, which names instruction classes and excludes gas):
//
//   - gas: never compared (different price tables: legacy SSTORE metering, pre-Istanbul SLOAD/BALANCE/EXTCODEHASH and
//     bn256 prices, CREATE2 forwards all gas, pre-Galaxias double charge of the constant part). A case is compared
//     only if NO frame on either side ended with an out-of-gas class error (ErrOutOfGas, ErrGasUintOverflow,
//     ErrCodeStoreOutOfGas, precompile short of gas) — classified by error value, never by leftover gas.
//   - GAS (0x5a): result is the gas counter.
//   - 0x44 / 0x45: the KVM numbers GASLIMIT as 0x44 (the EVM's DIFFICULTY) and has no 0x45; the KVM has no DIFFICULTY.
//   - CHAINID (0x46) with the pre-Galaxias instruction set: the opcode does not exist there.
//   - calls to address 0x09: BLAKE2F is an Istanbul precompile the KVM does not have (its set is 0x01–0x08).
//   - contract creation returning more than 24576 bytes: the KVM's MaxCodeSize is 39231.
//
// COINBASE, TIMESTAMP, NUMBER, BLOCKHASH, ORIGIN, GASPRICE are compared because the context is set identically.
package c10

import (
	"bytes"
	"encoding/hex"
	"fmt"
	"math/big"
	"os"
	"sort"
	"strings"
	"testing"
	"time"

	gcommon "github.com/ethereum/go-ethereum/common"
	grawdb "github.com/ethereum/go-ethereum/core/rawdb"
	gstate "github.com/ethereum/go-ethereum/core/state"
	gvm "github.com/ethereum/go-ethereum/core/vm"
	gcrypto "github.com/ethereum/go-ethereum/crypto"
	gparams "github.com/ethereum/go-ethereum/params"
	"github.com/holiman/uint256"
	"pgregory.net/rapid"

	"github.com/kardiachain/go-kardia/configs"
	"github.com/kardiachain/go-kardia/kai/kaidb/memorydb"
	"github.com/kardiachain/go-kardia/kai/state"
	"github.com/kardiachain/go-kardia/kvm"
	"github.com/kardiachain/go-kardia/lib/common"
	kmvm "github.com/kardiachain/go-kardia/mainchain/kvm"

	"verifharness/internal/ev"
)

func TestMain(m *testing.M) {
	ev.Init("C10")
	installPrecompileProbes()
	rc := m.Run()
	flushEvidence()
	os.Exit(rc)
}

// flushEvidence works around a driver/ev limitation of the native-fuzz kind: the fuzz coordinator and all of its worker
// processes share one VERIF_EV_OUT file. Workers therefore write it only when they record a violation (ev.Violation does
// that itself) and the coordinator does not overwrite a file in which a worker has recorded one.
func flushEvidence() {
	fuzzWorker, fuzzCoord := false, false
	for _, a := range os.Args {
		if strings.HasPrefix(a, "-test.fuzzworker") {
			fuzzWorker = true
		}
		if strings.HasPrefix(a, "-test.fuzz=") || a == "-test.fuzz" {
			fuzzCoord = true
		}
	}
	if fuzzWorker {
		return
	}
	if fuzzCoord {
		if b, err := os.ReadFile(os.Getenv("VERIF_EV_OUT")); err == nil && bytes.Contains(b, []byte(`"violations":[{`)) {
			return
		}
	}
	ev.Flush()
}

// ---------------------------------------------------------------- world

type addr = [20]byte
type word = [32]byte

var (
	originAddr   = addr{0x09, 0x99, 0, 0, 0, 0, 0, 0, 0, 0, 0, 0, 0, 0, 0, 0, 0, 0, 0, 0x01}
	coinbaseAddr = addr{0xcb, 0, 0, 0, 0, 0, 0, 0, 0, 0, 0, 0, 0, 0, 0, 0, 0, 0, 0, 0x02}
	ghostAddr    = addr{0xde, 0xad, 0, 0, 0, 0, 0, 0, 0, 0, 0, 0, 0, 0, 0, 0, 0, 0, 0, 0x03} // never exists in a pre-state
	chainID      = big.NewInt(0x2a)
	gasPrice     = big.NewInt(7)
	blockTime    = big.NewInt(1700000123)
	blockGasCap  = uint64(30000000)
)

const nUniverse = 4

func uAddr(i int) addr {
	a := addr{0xc0, 0xde}
	a[19] = byte(0x10 + i)
	return a
}

func precompileAddr(i int) addr { var a addr; a[19] = byte(i); return a }

func blockHashOf(n uint64) word {
	var h word
	h[0] = 0xb1
	for i := 0; i < 8; i++ {
		h[31-i] = byte(n >> (8 * i))
	}
	h[15] = byte(n*7 + 1)
	return h
}

// acct is one account of the 4-address universe.
type acct struct {
	Present bool
	Code    []byte
	Balance uint64
	Nonce   uint64
	Slots   [4]word // storage keys 0..3 (zero value = unset)
	Src     string  // which source produced the code (class label only)
}

// world is one generated case: pre-state, block context choice and the top-level message.
type world struct {
	Galaxias  bool
	Height    uint64
	U         [nUniverse]acct
	OriginBal uint64
	OriginNon uint64
	Create    bool   // top-level message is a contract creation with InitCode, else a call to U[0]
	InitCode  []byte // Create only
	Input     []byte
	Gas       uint64
	Value     uint64
	MainSrc   string
	// Collide pre-populates (nonce 1, no code) the address a creation is about to use, so that the creation collides:
	// 1 = the address of the top-level creation by the origin, 2 = the address of U0's first CREATE (U0 has nonce 1).
	Collide int
}

// collideAddr is derived with go-ethereum's crypto package (independent of the code under test).
func (w *world) collideAddr() (addr, bool) {
	switch w.Collide {
	case 1:
		return addr(gcrypto.CreateAddress(gcommon.Address(originAddr), w.OriginNon)), true
	case 2:
		return addr(gcrypto.CreateAddress(gcommon.Address(uAddr(0)), 1)), true
	}
	return addr{}, false
}

func (w *world) mainCode() []byte {
	if w.Create {
		return w.InitCode
	}
	return w.U[0].Code
}

func (w *world) text() string {
	var b strings.Builder
	fmt.Fprintf(&b, "galaxias=%v height=%d gas=%d value=%d create=%v origin(bal=%d nonce=%d) input=%x", w.Galaxias, w.Height, w.Gas, w.Value, w.Create, w.OriginBal, w.OriginNon, w.Input)
	if w.Create {
		fmt.Fprintf(&b, " init[%s]=%x", w.MainSrc, w.InitCode)
	}
	if a, ok := w.collideAddr(); ok {
		fmt.Fprintf(&b, " occupied=%x", a)
	}
	for i := range w.U {
		a := &w.U[i]
		if !a.Present {
			fmt.Fprintf(&b, "\nU%d absent", i)
			continue
		}
		fmt.Fprintf(&b, "\nU%d %x bal=%d nonce=%d", i, uAddr(i), a.Balance, a.Nonce)
		for k, v := range a.Slots {
			if v != (word{}) {
				fmt.Fprintf(&b, " s%d=%s", k, strings.TrimLeft(hex.EncodeToString(v[:]), "0"))
			}
		}
		fmt.Fprintf(&b, " code[%s]=%x", a.Src, a.Code)
	}
	return b.String()
}

func slotKey(i int) word { var k word; k[31] = byte(i); return k }

// ---------------------------------------------------------------- trace (shared by both tracers)

// trace is what the step hooks of both VMs feed. It measures the non-triviality rule, detects the out-of-gas class, the
// excluded opcodes, and collects the accounts and storage slots the execution touched.
type trace struct {
	topCreate bool
	galaxias  bool

	steps     int
	maxDepth  int
	maxMem    int
	maxStack  int
	sawStore  bool
	sawLog    bool
	sawCall   bool
	oog       bool
	excluded  string
	errKinds  map[string]int
	addrs     map[addr]struct{}
	slots     map[addr]map[word]struct{}
	lastOp    []byte // per depth (1-based)
	opSeen    [256]bool
	pcReq     int // precompile RequiredGas calls
	pcRun     int // precompile Run calls
	pcTargets [10]int
	lastSelf  addr
	oogAt     string
}

// peeker gives the step hook access to the i-th stack item from the top.
type peeker interface{ peek(i int) word }

func newTrace(w *world) *trace {
	tr := &trace{topCreate: w.Create, galaxias: w.Galaxias, errKinds: map[string]int{}, addrs: map[addr]struct{}{},
		slots: map[addr]map[word]struct{}{}, lastOp: make([]byte, 8)}
	if a, ok := w.collideAddr(); ok {
		tr.addrs[a] = struct{}{}
	}
	return tr
}

const (
	opSHA3, opBALANCE                                    = 0x20, 0x31
	opDIFF44, opGL45, opCHAINID                          = 0x44, 0x45, 0x46
	opSLOAD, opSSTORE, opGAS                             = 0x54, 0x55, 0x5a
	opLOG0, opLOG4                                       = 0xa0, 0xa4
	opCREATE, opCALL, opCALLCODE, opRETURN, opDELEGATE   = 0xf0, 0xf1, 0xf2, 0xf3, 0xf4
	opCREATE2, opSTATIC, opREVERT, opINVALID, opSELFDEST = 0xf5, 0xfa, 0xfd, 0xfe, 0xff
	refMaxCodeSize                                       = 24576
	createDataGas                                        = 200
)

func low20(w word) addr { var a addr; copy(a[:], w[12:]); return a }

func (tr *trace) addSlot(a addr, k word) {
	m := tr.slots[a]
	if m == nil {
		m = map[word]struct{}{}
		tr.slots[a] = m
	}
	m[k] = struct{}{}
}

// step is called once per interpreter step (before the instruction executes), and once more when a frame faults.
// errKind is "" for a normal step.
func (tr *trace) step(depth int, op byte, gas, cost uint64, memLen, stackLen int, pk peeker, self addr, errKind string) {
	peek := pk.peek
	for depth >= len(tr.lastOp) {
		tr.lastOp = append(tr.lastOp, make([]byte, len(tr.lastOp))...)
	}
	// the result of a CREATE/CREATE2 executed by this frame is on top of its stack now
	if lo := tr.lastOp[depth]; (lo == opCREATE || lo == opCREATE2) && stackLen > 0 {
		if a := low20(peek(0)); a != (addr{}) {
			tr.addrs[a] = struct{}{}
		}
	}
	tr.lastOp[depth] = op
	if depth+1 < len(tr.lastOp) {
		tr.lastOp[depth+1] = 0
	}
	tr.opSeen[op] = true
	if self != tr.lastSelf {
		tr.addrs[self] = struct{}{}
		tr.lastSelf = self
	}
	if depth > tr.maxDepth {
		tr.maxDepth = depth
	}
	if memLen > tr.maxMem {
		tr.maxMem = memLen
	}
	if stackLen > tr.maxStack {
		tr.maxStack = stackLen
	}
	switch op {
	case opGAS:
		tr.excluded = "GAS"
	case opDIFF44:
		tr.excluded = "0x44"
	case opGL45:
		tr.excluded = "0x45"
	case opCHAINID:
		if !tr.galaxias {
			tr.excluded = "CHAINID-preGalaxias"
		}
	}
	if errKind != "" {
		tr.errKinds[errKind]++
		if errKind == "oog" {
			if !tr.oog {
				tr.oogAt = fmt.Sprintf("op=%02x depth=%d gas=%d cost=%d", op, depth, gas, cost)
			}
			tr.oog = true
		}
		return
	}
	tr.steps++
	if depth > 1 {
		tr.sawCall = true
	}
	switch {
	case op == opSLOAD:
		tr.sawStore = true
	case op == opSSTORE:
		tr.sawStore = true
		if stackLen >= 1 {
			tr.addSlot(self, peek(0))
		}
	case op >= opLOG0 && op <= opLOG4:
		tr.sawLog = true
	case op == opCALL || op == opCALLCODE || op == opDELEGATE || op == opSTATIC:
		tr.sawCall = true
		if stackLen >= 2 {
			a := low20(peek(1))
			tr.addrs[a] = struct{}{}
			if a == precompileAddr(9) {
				tr.excluded = "BLAKE2F"
			}
			if a[19] >= 1 && a[19] <= 9 && a == precompileAddr(int(a[19])) {
				tr.pcTargets[a[19]]++
			}
		}
	case op == opCREATE || op == opCREATE2:
		tr.sawCall = true
	case op == opSELFDEST:
		if stackLen >= 1 {
			tr.addrs[low20(peek(0))] = struct{}{}
		}
	case op == opRETURN:
		inCreate := (depth == 1 && tr.topCreate) || (depth > 1 && (tr.lastOp[depth-1] == opCREATE || tr.lastOp[depth-1] == opCREATE2))
		if inCreate && stackLen >= 2 {
			sz := peek(1)
			big := false
			for _, b := range sz[:24] {
				if b != 0 {
					big = true
				}
			}
			var n uint64
			for _, b := range sz[24:] {
				n = n<<8 | uint64(b)
			}
			if big || n > refMaxCodeSize {
				tr.excluded = "codesize>24576"
			}
			// code-deposit gas is charged after the frame returns and is not visible as a step error
			if left := gas - cost; !big && cost <= gas && left/createDataGas < n {
				tr.oog = true
				tr.errKinds["oog-codestore"]++
			}
		}
	}
}

func (tr *trace) nontrivial() bool {
	return tr.steps >= 8 && (tr.sawStore || tr.sawLog || tr.sawCall || tr.maxMem > 32)
}

// ---------------------------------------------------------------- precompile probes

// Both VMs decide "precompile short of gas" between RequiredGas and Run without telling a tracer. The exported precompile
// tables are therefore wrapped (delegating, nothing else changes): a RequiredGas call that is not followed by a Run call
// is an out-of-gas precompile call.
type pcProbe struct {
	req, run int
	highS    int    // ECRECOVER inputs whose s is above n/2 and which the callee answered with an address
	ecOut    string // concatenated ECRECOVER outputs of the run
}

var kProbe, gProbe pcProbe

type kWrap struct {
	in kvm.PrecompiledContract
	ec bool // this is ECRECOVER
}

func (w kWrap) RequiredGas(in []byte) uint64 { kProbe.req++; return w.in.RequiredGas(in) }
func (w kWrap) Run(in []byte) ([]byte, error) {
	kProbe.run++
	out, err := w.in.Run(in)
	if w.ec {
		kProbe.ecOut += fmt.Sprintf("%x;", out)
	}
	return out, err
}

type gWrap struct {
	in gvm.PrecompiledContract
	ec bool
}

func (w gWrap) RequiredGas(in []byte) uint64 { gProbe.req++; return w.in.RequiredGas(in) }
func (w gWrap) Run(in []byte) ([]byte, error) {
	gProbe.run++
	out, err := w.in.Run(in)
	if w.ec {
		gProbe.ecOut += fmt.Sprintf("%x;", out)
		p := make([]byte, 128)
		copy(p, in)
		if len(out) > 0 && new(big.Int).SetBytes(p[96:128]).Cmp(secpHalfN) > 0 {
			gProbe.highS++
		}
	}
	return out, err
}

var secpHalfN = new(big.Int).Rsh(secpN, 1)

func installPrecompileProbes() {
	for a, p := range kvm.PrecompiledContractsV0 {
		if _, done := p.(kWrap); !done {
			kvm.PrecompiledContractsV0[a] = kWrap{p, addr(a) == precompileAddr(1)}
		}
	}
	for a, p := range gvm.PrecompiledContractsIstanbul {
		if _, done := p.(gWrap); !done {
			gvm.PrecompiledContractsIstanbul[a] = gWrap{p, addr(a) == precompileAddr(1)}
		}
	}
}

// ---------------------------------------------------------------- KVM side

var kdb = state.NewDatabase(memorydb.New())

func kErrKind(err error) string {
	switch err {
	case nil:
		return ""
	case kvm.ErrOutOfGas, kvm.ErrGasUintOverflow, kvm.ErrCodeStoreOutOfGas:
		return "oog"
	case kvm.ErrExecutionReverted:
		return "revert"
	case kvm.ErrInvalidJump:
		return "invalid-jump"
	case kvm.ErrWriteProtection:
		return "write-protection"
	case kvm.ErrReturnDataOutOfBounds:
		return "returndata-oob"
	case kvm.ErrDepth:
		return "depth"
	case kvm.ErrInsufficientBalance:
		return "insufficient-balance"
	case kvm.ErrContractAddressCollision:
		return "collision"
	case kvm.ErrMaxCodeSizeExceeded:
		return "max-code-size"
	}
	switch err.(type) {
	case *kvm.ErrStackUnderflow:
		return "stack-underflow"
	case *kvm.ErrStackOverflow:
		return "stack-overflow"
	case *kvm.ErrInvalidOpCode:
		return "invalid-opcode"
	}
	return "other:" + err.Error()
}

type kTracer struct {
	tr *trace
	d  []uint256.Int
}

func (k *kTracer) peek(i int) word { return k.d[len(k.d)-1-i].Bytes32() }

func (k *kTracer) CaptureStart(env *kvm.KVM, from, to common.Address, create bool, input []byte, gas uint64, value *big.Int) {
}
func (k *kTracer) hook(op kvm.OpCode, gas, cost uint64, scope *kvm.ScopeContext, depth int, err error) {
	k.d = scope.Stack.Data()
	k.tr.step(depth, byte(op), gas, cost, scope.Memory.Len(), len(k.d), k, addr(scope.Contract.Address()), kErrKind(err))
}
func (k *kTracer) CaptureState(pc uint64, op kvm.OpCode, gas, cost uint64, scope *kvm.ScopeContext, rData []byte, depth int, err error) {
	k.hook(op, gas, cost, scope, depth, err)
}
func (k *kTracer) CaptureFault(pc uint64, op kvm.OpCode, gas, cost uint64, scope *kvm.ScopeContext, depth int, err error) {
	// the step itself was already counted by CaptureState; record only the error
	if kind := kErrKind(err); kind != "" {
		k.tr.errKinds[kind]++
		if kind == "oog" {
			if !k.tr.oog {
				k.tr.oogAt = fmt.Sprintf("op=%02x depth=%d gas=%d cost=%d (exec)", byte(op), depth, gas, cost)
			}
			k.tr.oog = true
		}
	}
}
func (k *kTracer) CaptureEnter(typ kvm.OpCode, from, to common.Address, input []byte, gas uint64, value *big.Int) {
}
func (k *kTracer) CaptureExit(output []byte, gasUsed uint64, err error) {
	if kErrKind(err) == "oog" {
		k.tr.oog = true
	}
}
func (k *kTracer) CaptureEnd(output []byte, gasUsed uint64, t time.Duration, err error) {}

type kOutcome struct {
	ret     []byte
	err     error
	left    uint64
	created addr
	st      *state.StateDB
	tr      *trace
	probe   pcProbe
}

func kBuildState(w *world) *state.StateDB {
	st, err := state.New(common.Hash{}, kdb, nil)
	if err != nil {
		panic("harness: state.New: " + err.Error())
	}
	for i := range w.U {
		a := &w.U[i]
		if !a.Present {
			continue
		}
		ad := common.Address(uAddr(i))
		st.CreateAccount(ad)
		st.SetBalance(ad, new(big.Int).SetUint64(a.Balance))
		st.SetNonce(ad, a.Nonce)
		st.SetCode(ad, a.Code)
		for k, v := range a.Slots {
			if v != (word{}) {
				st.SetState(ad, common.Hash(slotKey(k)), common.Hash(v))
			}
		}
	}
	if a, ok := w.collideAddr(); ok {
		st.SetNonce(common.Address(a), 1)
	}
	st.SetBalance(common.Address(originAddr), new(big.Int).SetUint64(w.OriginBal))
	st.SetNonce(common.Address(originAddr), w.OriginNon)
	st.Finalise(true)
	return st
}

// runKVM executes the world's message on a fresh state. traced=false runs the production configuration (no tracer).
func runKVM(w *world, traced bool) *kOutcome {
	o := &kOutcome{st: kBuildState(w), tr: newTrace(w)}
	cfg := &configs.ChainConfig{ChainID: chainID}
	if w.Galaxias {
		z := uint64(0)
		cfg.GalaxiasBlock = &z
	}
	ctx := kvm.BlockContext{CanTransfer: kmvm.CanTransfer, Transfer: kmvm.Transfer,
		GetHash:  func(n uint64) common.Hash { return common.Hash(blockHashOf(n)) },
		Coinbase: common.Address(coinbaseAddr), BlockHeight: new(big.Int).SetUint64(w.Height), Time: new(big.Int).Set(blockTime), GasLimit: blockGasCap}
	vc := kvm.Config{}
	if traced {
		vc = kvm.Config{Debug: true, Tracer: &kTracer{tr: o.tr}}
	}
	env := kvm.NewKVM(ctx, kvm.TxContext{Origin: common.Address(originAddr), GasPrice: new(big.Int).Set(gasPrice)}, o.st, cfg, vc)
	kProbe = pcProbe{}
	val := new(big.Int).SetUint64(w.Value)
	if w.Create {
		var ca common.Address
		o.ret, ca, o.left, o.err = env.Create(kvm.AccountRef(common.Address(originAddr)), w.InitCode, w.Gas, val)
		o.created = addr(ca)
	} else {
		// the state transition bumps the sender nonce before the call
		o.st.SetNonce(common.Address(originAddr), w.OriginNon+1)
		o.ret, o.left, o.err = env.Call(kvm.AccountRef(common.Address(originAddr)), common.Address(uAddr(0)), w.Input, w.Gas, val)
	}
	o.tr.pcReq, o.tr.pcRun, o.probe = kProbe.req, kProbe.run, kProbe
	if kProbe.req != kProbe.run || kErrKind(o.err) == "oog" {
		o.tr.oog = true
	}
	return o
}

// ---------------------------------------------------------------- reference side (go-ethereum v1.9.15, Istanbul rules)

var gdb = gstate.NewDatabase(grawdb.NewMemoryDatabase())

var gChainCfg = func() *gparams.ChainConfig {
	cc := *gparams.AllEthashProtocolChanges
	cc.ChainID = chainID
	return &cc
}()

func gErrKind(err error) string {
	switch err {
	case nil:
		return ""
	case gvm.ErrOutOfGas, gvm.ErrGasUintOverflow, gvm.ErrCodeStoreOutOfGas:
		return "oog"
	case gvm.ErrExecutionReverted:
		return "revert"
	case gvm.ErrInvalidJump:
		return "invalid-jump"
	case gvm.ErrWriteProtection:
		return "write-protection"
	case gvm.ErrReturnDataOutOfBounds:
		return "returndata-oob"
	case gvm.ErrDepth:
		return "depth"
	case gvm.ErrInsufficientBalance:
		return "insufficient-balance"
	case gvm.ErrContractAddressCollision:
		return "collision"
	case gvm.ErrMaxCodeSizeExceeded:
		return "max-code-size"
	}
	switch err.(type) {
	case *gvm.ErrStackUnderflow:
		return "stack-underflow"
	case *gvm.ErrStackOverflow:
		return "stack-overflow"
	case *gvm.ErrInvalidOpCode:
		return "invalid-opcode"
	}
	return "other:" + err.Error()
}

type gTracer struct {
	tr *trace
	d  []*big.Int
}

func (g *gTracer) peek(i int) word { return word(gcommon.BigToHash(g.d[len(g.d)-1-i])) }

func (g *gTracer) CaptureStart(from, to gcommon.Address, create bool, input []byte, gas uint64, value *big.Int) error {
	return nil
}
func (g *gTracer) CaptureState(env *gvm.EVM, pc uint64, op gvm.OpCode, gas, cost uint64, memory *gvm.Memory, stack *gvm.Stack, rStack *gvm.ReturnStack, contract *gvm.Contract, depth int, err error) error {
	g.d = stack.Data()
	g.tr.step(depth, byte(op), gas, cost, memory.Len(), len(g.d), g, addr(contract.Address()), gErrKind(err))
	return nil
}
func (g *gTracer) CaptureFault(env *gvm.EVM, pc uint64, op gvm.OpCode, gas, cost uint64, memory *gvm.Memory, stack *gvm.Stack, rStack *gvm.ReturnStack, contract *gvm.Contract, depth int, err error) error {
	if kind := gErrKind(err); kind != "" {
		g.tr.errKinds[kind]++
		if kind == "oog" {
			g.tr.oog = true
		}
	}
	return nil
}
func (g *gTracer) CaptureEnd(output []byte, gasUsed uint64, t time.Duration, err error) error {
	return nil
}

type gOutcome struct {
	ret     []byte
	err     error
	left    uint64
	created addr
	st      *gstate.StateDB
	tr      *trace
	probe   pcProbe
}

func gBuildState(w *world) *gstate.StateDB {
	st, err := gstate.New(gcommon.Hash{}, gdb, nil)
	if err != nil {
		panic("harness: gstate.New: " + err.Error())
	}
	for i := range w.U {
		a := &w.U[i]
		if !a.Present {
			continue
		}
		ad := gcommon.Address(uAddr(i))
		st.CreateAccount(ad)
		st.SetBalance(ad, new(big.Int).SetUint64(a.Balance))
		st.SetNonce(ad, a.Nonce)
		st.SetCode(ad, a.Code)
		for k, v := range a.Slots {
			if v != (word{}) {
				st.SetState(ad, gcommon.Hash(slotKey(k)), gcommon.Hash(v))
			}
		}
	}
	if a, ok := w.collideAddr(); ok {
		st.SetNonce(gcommon.Address(a), 1)
	}
	st.SetBalance(gcommon.Address(originAddr), new(big.Int).SetUint64(w.OriginBal))
	st.SetNonce(gcommon.Address(originAddr), w.OriginNon)
	st.Finalise(true)
	return st
}

func runGeth(w *world) *gOutcome {
	o := &gOutcome{st: gBuildState(w), tr: newTrace(w)}
	ctx := gvm.Context{
		CanTransfer: func(db gvm.StateDB, a gcommon.Address, v *big.Int) bool { return db.GetBalance(a).Cmp(v) >= 0 },
		Transfer:    func(db gvm.StateDB, a, b gcommon.Address, v *big.Int) { db.SubBalance(a, v); db.AddBalance(b, v) },
		GetHash:     func(n uint64) gcommon.Hash { return gcommon.Hash(blockHashOf(n)) },
		Origin:      gcommon.Address(originAddr), GasPrice: new(big.Int).Set(gasPrice), Coinbase: gcommon.Address(coinbaseAddr),
		GasLimit: blockGasCap, BlockNumber: new(big.Int).SetUint64(w.Height), Time: new(big.Int).Set(blockTime), Difficulty: big.NewInt(0),
	}
	env := gvm.NewEVM(ctx, o.st, gChainCfg, gvm.Config{Debug: true, Tracer: &gTracer{tr: o.tr}})
	gProbe = pcProbe{}
	val := new(big.Int).SetUint64(w.Value)
	if w.Create {
		var ca gcommon.Address
		o.ret, ca, o.left, o.err = env.Create(gvm.AccountRef(gcommon.Address(originAddr)), w.InitCode, w.Gas, val)
		o.created = addr(ca)
	} else {
		o.st.SetNonce(gcommon.Address(originAddr), w.OriginNon+1)
		o.ret, o.left, o.err = env.Call(gvm.AccountRef(gcommon.Address(originAddr)), gcommon.Address(uAddr(0)), w.Input, w.Gas, val)
	}
	o.tr.pcReq, o.tr.pcRun, o.probe = gProbe.req, gProbe.run, gProbe
	if gProbe.req != gProbe.run || gErrKind(o.err) == "oog" {
		o.tr.oog = true
	}
	return o
}

// ---------------------------------------------------------------- observation of a post-state

type stateView interface {
	exist(a addr) bool
	balance(a addr) *big.Int
	nonce(a addr) uint64
	code(a addr) []byte
	suicided(a addr) bool
	slot(a addr, k word) word
	logs() []string
}

type kView struct{ st *state.StateDB }

func (v kView) exist(a addr) bool       { return v.st.Exist(common.Address(a)) }
func (v kView) balance(a addr) *big.Int { return v.st.GetBalance(common.Address(a)) }
func (v kView) nonce(a addr) uint64     { return v.st.GetNonce(common.Address(a)) }
func (v kView) code(a addr) []byte      { return v.st.GetCode(common.Address(a)) }
func (v kView) suicided(a addr) bool    { return v.st.HasSuicided(common.Address(a)) }
func (v kView) slot(a addr, k word) word {
	return word(v.st.GetState(common.Address(a), common.Hash(k)))
}
func (v kView) logs() []string {
	var out []string
	for _, l := range v.st.Logs() {
		var tp []string
		for _, t := range l.Topics {
			tp = append(tp, hex.EncodeToString(t[:]))
		}
		out = append(out, fmt.Sprintf("%x [%s] %x", l.Address, strings.Join(tp, ","), []byte(l.Data)))
	}
	return out
}

type gView struct{ st *gstate.StateDB }

func (v gView) exist(a addr) bool       { return v.st.Exist(gcommon.Address(a)) }
func (v gView) balance(a addr) *big.Int { return v.st.GetBalance(gcommon.Address(a)) }
func (v gView) nonce(a addr) uint64     { return v.st.GetNonce(gcommon.Address(a)) }
func (v gView) code(a addr) []byte      { return v.st.GetCode(gcommon.Address(a)) }
func (v gView) suicided(a addr) bool    { return v.st.HasSuicided(gcommon.Address(a)) }
func (v gView) slot(a addr, k word) word {
	return word(v.st.GetState(gcommon.Address(a), gcommon.Hash(k)))
}
func (v gView) logs() []string {
	var out []string
	for _, l := range v.st.Logs() {
		var tp []string
		for _, t := range l.Topics {
			tp = append(tp, hex.EncodeToString(t[:]))
		}
		out = append(out, fmt.Sprintf("%x [%s] %x", l.Address, strings.Join(tp, ","), l.Data))
	}
	return out
}

// observed is the set of accounts and slots to look at: the fixed universe plus everything either execution touched.
type observed struct {
	addrs []addr
	slots map[addr][]word
}

func observe(trs ...*trace) *observed {
	as := map[addr]struct{}{originAddr: {}, coinbaseAddr: {}, ghostAddr: {}}
	ss := map[addr]map[word]struct{}{}
	for i := 0; i < nUniverse; i++ {
		as[uAddr(i)] = struct{}{}
		ss[uAddr(i)] = map[word]struct{}{}
		for k := 0; k < 6; k++ {
			ss[uAddr(i)][slotKey(k)] = struct{}{}
		}
	}
	for i := 1; i <= 9; i++ {
		as[precompileAddr(i)] = struct{}{}
	}
	for _, tr := range trs {
		for a := range tr.addrs {
			as[a] = struct{}{}
		}
		for a, m := range tr.slots {
			as[a] = struct{}{}
			if ss[a] == nil {
				ss[a] = map[word]struct{}{}
			}
			for k := range m {
				ss[a][k] = struct{}{}
			}
		}
	}
	o := &observed{slots: map[addr][]word{}}
	for a := range as {
		o.addrs = append(o.addrs, a)
	}
	sort.Slice(o.addrs, func(i, j int) bool { return bytes.Compare(o.addrs[i][:], o.addrs[j][:]) < 0 })
	for a, m := range ss {
		var ks []word
		for k := range m {
			ks = append(ks, k)
		}
		sort.Slice(ks, func(i, j int) bool { return bytes.Compare(ks[i][:], ks[j][:]) < 0 })
		o.slots[a] = ks
	}
	return o
}

// snapLine is one observable fact; field names the finding key. Values are kept raw and formatted only on a mismatch.
type snapLine struct {
	field string
	a     addr
	k     word
	val   []byte
	log   string
}

func (l snapLine) text() string {
	switch l.field {
	case "":
		return "<nothing>"
	case "logs":
		return l.log
	case "storage":
		return fmt.Sprintf("%x slot %x = %x", l.a, l.k, l.val)
	case "balance":
		return fmt.Sprintf("%x balance = %s", l.a, new(big.Int).SetBytes(l.val))
	}
	return fmt.Sprintf("%x %s = %x", l.a, l.field, l.val)
}

func b2b(b bool) []byte {
	if b {
		return []byte{1}
	}
	return []byte{0}
}

func snapshot(v stateView, ob *observed) []snapLine {
	out := make([]snapLine, 0, 6*len(ob.addrs)+32)
	for _, a := range ob.addrs {
		n := v.nonce(a)
		out = append(out,
			snapLine{field: "exist", a: a, val: b2b(v.exist(a))},
			snapLine{field: "balance", a: a, val: v.balance(a).Bytes()},
			snapLine{field: "nonce", a: a, val: []byte{byte(n >> 56), byte(n >> 48), byte(n >> 40), byte(n >> 32), byte(n >> 24), byte(n >> 16), byte(n >> 8), byte(n)}},
			snapLine{field: "code", a: a, val: v.code(a)},
			snapLine{field: "suicided", a: a, val: b2b(v.suicided(a))})
		for _, k := range ob.slots[a] {
			w := v.slot(a, k)
			out = append(out, snapLine{field: "storage", a: a, k: k, val: w[:]})
		}
	}
	for i, l := range v.logs() {
		out = append(out, snapLine{field: "logs", log: fmt.Sprintf("log %d: %s", i, l)})
	}
	return out
}

// firstDiff returns the first differing line of two snapshots taken over the same observed set.
func firstDiff(a, b []snapLine) (field, la, lb string, differ bool) {
	for i := 0; i < len(a) || i < len(b); i++ {
		var x, y snapLine
		if i < len(a) {
			x = a[i]
		}
		if i < len(b) {
			y = b[i]
		}
		if x.field != y.field || x.a != y.a || x.k != y.k || !bytes.Equal(x.val, y.val) || x.log != y.log {
			f := x.field
			if f == "" {
				f = y.field
			}
			return f, x.text(), y.text(), true
		}
	}
	return "", "", "", false
}

// ---------------------------------------------------------------- oracles

// checkWorld runs robustness + determinism + the top-frame structural clause (KVM alone) and, if diff is true, the
// differential against the reference VM. mid, if given, is called with the traced KVM outcome after the KVM-only clauses
// and before the differential. It returns both traced outcomes (nil, nil when the case hit a listed known finding and was
// set aside).
func checkWorld(t ev.TB, w *world, diff bool, classes *[]string, mid func(k *kOutcome)) (*kOutcome, *gOutcome) {
	ct := w.text
	var k1, k2 *kOutcome
	var g *gOutcome
	// (1) robustness: a Go panic anywhere under Call/Create is a violation (key panic:<function>)
	ev.Guard(t, ct, func() { k1 = runKVM(w, true) })
	ev.Guard(t, ct, func() { k2 = runKVM(w, false) })
	if k1 == nil || k2 == nil {
		return nil, nil // a listed known panic: case set aside
	}
	if k1.left > w.Gas {
		if ev.Violation(t, "robust.leftover-gas-exceeds-supplied", ct(), "leftover gas %d > supplied %d (err=%v)", k1.left, w.Gas, k1.err) {
			return nil, nil
		}
	}
	if diff {
		g = runGeth(w)
	}
	// all observations are taken before any IntermediateRoot call (which finalises and deletes accounts)
	var ob *observed
	if diff {
		ob = observe(k1.tr, g.tr)
	} else {
		ob = observe(k1.tr)
	}
	s1, s2 := snapshot(kView{k1.st}, ob), snapshot(kView{k2.st}, ob)
	var sg []snapLine
	if diff {
		sg = snapshot(gView{g.st}, ob)
	}

	// determinism: the traced run and the production-configuration run (no tracer) agree on everything observable
	if !bytes.Equal(k1.ret, k2.ret) || k1.left != k2.left || fmt.Sprint(k1.err) != fmt.Sprint(k2.err) || k1.created != k2.created {
		if ev.Violation(t, "determinism.result", ct(), "same input twice: ret %x/%x left %d/%d err %v/%v", k1.ret, k2.ret, k1.left, k2.left, k1.err, k2.err) {
			return nil, nil
		}
	}
	if f, a, b, d := firstDiff(s1, s2); d {
		if ev.Violation(t, "determinism.state."+f, ct(), "same input twice: %q vs %q", a, b) {
			return nil, nil
		}
	}
	// structural, all sources: a failed top-level frame leaves no state change and no log
	if k1.err != nil {
		pre := kBuildState(w)
		if k := kErrKind(k1.err); !w.Create || (k != "depth" && k != "insufficient-balance") {
			// the sender nonce bump precedes the frame (state transition for calls, KVM.create for creations)
			pre.SetNonce(common.Address(originAddr), w.OriginNon+1)
		}
		if f, a, b, d := firstDiff(s1, snapshot(kView{pre}, ob)); d {
			if ev.Violation(t, "struct.failed-top-frame-left-trace."+f, ct(), "top-level frame failed (%v) but state differs from pre-state: after %q, before %q", k1.err, a, b) {
				return nil, nil
			}
		}
	}
	*classes = append(*classes, "kvm-err:"+orOK(kErrKind(k1.err)))
	if mid != nil {
		mid(k1) // spec-derived structural expectations of the directed generators, decided before the reference is consulted
	}
	var r1, r2 common.Hash
	roots := func() bool {
		ev.Guard(t, ct, func() { r1 = k1.st.IntermediateRoot(true); r2 = k2.st.IntermediateRoot(true) })
		if r1 != r2 {
			if ev.Violation(t, "determinism.state-root", ct(), "same input twice: post-state roots %x vs %x", r1, r2) {
				return false
			}
		}
		return true
	}
	if !diff {
		if !roots() {
			return nil, nil
		}
		return k1, nil
	}

	// (2) differential against go-ethereum v1.9.15
	switch {
	case k1.tr.oog || g.tr.oog:
		*classes = append(*classes, "diff-skipped:out-of-gas")
		if !roots() {
			return nil, nil
		}
		return k1, g
	case k1.tr.excluded != "" || g.tr.excluded != "":
		ex := k1.tr.excluded
		if ex == "" {
			ex = g.tr.excluded
		}
		*classes = append(*classes, "diff-skipped:"+ex)
		if !roots() {
			return nil, nil
		}
		return k1, g
	}
	if g.probe.highS > 0 {
		// known deviation: the KVM's ECRECOVER precompile rejects signatures with s > n/2, the reference accepts them
		if k1.probe.ecOut != g.probe.ecOut {
			if ev.Violation(t, keyEcrecoverHighS, ct(), "ECRECOVER on a signature with s > n/2: KVM outputs %q, reference %q", k1.probe.ecOut, g.probe.ecOut) {
				*classes = append(*classes, "diff-skipped:known-ecrecover-high-s")
				return nil, nil
			}
		}
	}
	*classes = append(*classes, "diff-compared")
	if (k1.err != nil) != (g.err != nil) {
		if ev.Violation(t, "diff.success", ct(), "KVM err=%v, reference err=%v", k1.err, g.err) {
			return nil, nil
		}
	}
	if (k1.err == kvm.ErrExecutionReverted) != (g.err == gvm.ErrExecutionReverted) {
		if ev.Violation(t, "diff.revert-vs-failure", ct(), "KVM err=%v, reference err=%v", k1.err, g.err) {
			return nil, nil
		}
	}
	if !bytes.Equal(k1.ret, g.ret) {
		if ev.Violation(t, "diff.return-data", ct(), "KVM returned %x, reference %x (err %v / %v)", k1.ret, g.ret, k1.err, g.err) {
			return nil, nil
		}
	}
	if w.Create && k1.err == nil && k1.created != g.created {
		if ev.Violation(t, "diff.create-address", ct(), "KVM created %x, reference %x", k1.created, g.created) {
			return nil, nil
		}
	}
	if f, a, b, d := firstDiff(s1, sg); d {
		if ev.Violation(t, "diff."+f, ct(), "post-state differs: KVM %q, reference %q", a, b) {
			return nil, nil
		}
	}
	if !roots() {
		return nil, nil
	}
	// IntermediateRoot finalises: suicided and touched-empty accounts are deleted on both sides
	if gr := g.st.IntermediateRoot(true); word(gr) != word(r1) {
		if ev.Violation(t, "diff.state-root", ct(), "post-state root KVM %x, reference %x (no observed field differs)", r1, gr) {
			return nil, nil
		}
	}
	return k1, g
}

const keyEcrecoverHighS = "diff.precompile.ecrecover-rejects-high-s"

func orOK(s string) string {
	if s == "" {
		return "ok"
	}
	return s
}

// ---------------------------------------------------------------- the main generated-program test

func TestKVMPrograms(t *testing.T) {
	rapid.Check(t, func(t *rapid.T) {
		w := genWorld(t)
		classes := []string{"src:" + w.MainSrc, "gas:" + gasClass(w.Gas), fmt.Sprintf("galaxias:%v", w.Galaxias), fmt.Sprintf("create:%v", w.Create)}
		if w.Collide != 0 {
			classes = append(classes, fmt.Sprintf("occupied-create-address:%d", w.Collide))
		}
		k, g := checkWorld(t, w, true, &classes, nil)
		if k == nil {
			ev.Case(false, w.text(), append(classes, "set-aside-known")...)
			return
		}
		nt := k.tr.nontrivial() && g != nil && g.tr.nontrivial() && !k.tr.oog && !g.tr.oog && k.tr.excluded == "" && g.tr.excluded == ""
		classes = append(classes, shapeClasses(k.tr)...)
		classes = append(classes, "main:"+w.MainSrc+":"+orOK(kErrKind(k.err)))
		ev.Case(nt, w.text(), classes...)
		if nt {
			c := "program:" + w.MainSrc
			if ev.WantSample(c) {
				ev.Sample(c, w.text())
			}
		}
	})
}

func gasClass(g uint64) string {
	switch {
	case g <= 200:
		return "tiny"
	case g < 1000000:
		return "mid"
	}
	return "10^7"
}

func shapeClasses(tr *trace) []string {
	var c []string
	if tr.sawStore {
		c = append(c, "touch:storage")
	}
	if tr.sawLog {
		c = append(c, "touch:log")
	}
	if tr.sawCall {
		c = append(c, "touch:nested-call")
	}
	if tr.maxMem > 32 {
		c = append(c, "touch:memory>32")
	}
	switch {
	case tr.steps < 8:
		c = append(c, "steps:<8")
	case tr.steps < 64:
		c = append(c, "steps:8-63")
	default:
		c = append(c, "steps:>=64")
	}
	if tr.maxDepth >= 3 {
		c = append(c, "depth>=3")
	}
	for k := range tr.errKinds {
		c = append(c, "frame-err:"+k)
	}
	sort.Strings(c)
	for i := 1; i <= 8; i++ {
		if tr.pcTargets[i] > 0 {
			c = append(c, fmt.Sprintf("precompile:%d", i))
		}
	}
	for _, op := range []byte{opCREATE, opCREATE2, opCALL, opCALLCODE, opDELEGATE, opSTATIC, opSELFDEST, 0x56, 0x57, 0x3e, 0x20, 0x0a, 0x0b, 0x1d} {
		if tr.opSeen[op] {
			c = append(c, fmt.Sprintf("op:%02x", op))
		}
	}
	return c
}
