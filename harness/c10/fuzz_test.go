package c10

// Native fuzz target (thorough tier): raw bytecode + call data + a selector word, decided by the same robustness,
// determinism, top-frame and differential oracles as TestKVMPrograms (checkWorld).

import (
	"fmt"
	"testing"

	"pgregory.net/rapid"

	"verifharness/internal/ev"
)

// fuzzWorld places the fuzzed code at U0 (or uses it as init code) in a small fixed universe:
// U1 writes storage, logs and returns its call data; U2 writes storage and then reverts; U3 is a funded EOA.
func fuzzWorld(code, input []byte, sel uint16) *world {
	if len(code) > 2048 {
		code = code[:2048]
	}
	if len(input) > 64 {
		input = input[:64]
	}
	w := &world{Galaxias: sel&1 != 0, Height: 300, OriginBal: 1000000000, OriginNon: 1, Input: input, MainSrc: "fuzz-bytes"}
	switch (sel >> 2) % 3 {
	case 0:
		w.Gas = uint64(sel >> 8)
	case 1:
		w.Gas = 30000
	default:
		w.Gas = 1000000 // big enough for every non-looping program, small enough to keep loops cheap
	}
	if sel&16 != 0 {
		w.Value = 5
	}
	h1 := (&asmb{}).o(0x36).pu(0).pu(0).o(0x37).pu(0).o(0x35).pu(1).o(0x55).o(0x33).pu(0).pu(0).o(0xa1).o(0x36).pu(0).o(0xf3)
	h2 := (&asmb{}).pu(0x42).pu(2).o(0x55).pu(0xbad).pu(0).o(0x52).pu(32).pu(0).o(0xfd)
	w.U[1] = contract(h1.code, 3)
	w.U[1].Slots[1] = wordOf(9)
	w.U[2] = contract(h2.code, 0)
	w.U[3] = acct{Present: true, Balance: 5, Src: "eoa"}
	if sel&2 != 0 {
		w.Create, w.InitCode = true, code
	} else {
		w.U[0] = contract(code, 10)
		w.U[0].Slots[0] = wordOf(1)
	}
	return w
}

func FuzzRawBytecode(f *testing.F) {
	g := rapid.Custom(func(t *rapid.T) []byte {
		resetMix(t)
		return genGrammar(t, genEnv{galaxias: true, height: 300, depth: 1, self: 0}, 10)
	})
	for i := 0; i < 24; i++ {
		f.Add(g.Example(i), []byte{0, 0, 0, byte(i)}, uint16(8+i%2+16*(i%3/2)))
	}
	f.Add([]byte{0x60, 0x01, 0x60, 0x00, 0x55, 0x60, 0x00, 0x60, 0x00, 0xfd}, []byte{}, uint16(8))
	f.Add([]byte{0x5b, 0x60, 0x00, 0x56}, []byte{1, 2, 3}, uint16(4))
	f.Add([]byte{0x38, 0x60, 0x00, 0x60, 0x00, 0x39, 0x38, 0x60, 0x00, 0x60, 0x00, 0xf0, 0x50, 0x00}, []byte{}, uint16(10))
	f.Fuzz(func(t *testing.T, code []byte, input []byte, sel uint16) {
		w := fuzzWorld(code, input, sel)
		classes := []string{"src:fuzz-bytes", "gas:" + gasClass(w.Gas), fmt.Sprintf("create:%v", w.Create)}
		k, gg := checkWorld(t, w, true, &classes, nil)
		if k == nil {
			return
		}
		nt := k.tr.nontrivial() && gg != nil && gg.tr.nontrivial() && !k.tr.oog && !gg.tr.oog && k.tr.excluded == "" && gg.tr.excluded == ""
		ev.Case(nt, w.text(), classes...)
	})
}
