package c10

import (
	"strings"
	"fmt"
	"sort"
	"testing"

	"github.com/ethereum/go-ethereum/core/asm"
	"pgregory.net/rapid"
)

func TestDbgOOG(t *testing.T) {
	hist := map[string]int{}
	shown := 0
	n := 0
	rapid.Check(t, func(t *rapid.T) {
		w := genWorld(t)
		if w.MainSrc != "grammar" || w.Gas != 10000000 {
			return
		}
		n++
		k := runKVM(w, true)
		key := fmt.Sprintf("%s", kErrKind(k.err))
		if kErrKind(k.err) == "oog" {
			key += " " + (k.tr.oogAt + "                ")[:14]; fmt.Println("OOGAT", k.tr.oogAt); if strings.Contains(k.tr.oogAt, "depth=1 ") && (strings.HasSuffix(k.tr.oogAt, "cost=40") || strings.HasSuffix(k.tr.oogAt, "cost=0")) && shown < 6 { shown++; fmt.Println("DIS steps", k.tr.steps); asm.PrintDisassembled(fmt.Sprintf("%x", w.U[0].Code)) }
			if hist[key] == 0 || k.tr.steps > 500000 {
				fmt.Println("STEPS", k.tr.steps, k.tr.oogAt)
				fmt.Println(key, "\n", w.text())
			}
		}
		hist[key]++
	})
	var ks []string
	for k := range hist {
		ks = append(ks, k)
	}
	sort.Strings(ks)
	for _, k := range ks {
		fmt.Println(hist[k], k)
	}
	fmt.Println("n", n)
}
