package c10

import (
	"crypto/ecdsa"
	"math/big"

	gcrypto "github.com/ethereum/go-ethereum/crypto"
	"pgregory.net/rapid"
)

// ---------------------------------------------------------------- small draw helpers

// rapid's integer generators are deliberately biased towards small values and range boundaries (a geometric bit
// length). That is wanted for counts, but it wrecks weighted choices and "uniformly random bytes": every value-like
// choice therefore takes one rapid-drawn 64-bit word and passes it through a splitmix64 finaliser keyed by the position
// of the draw in the case, which makes the result uniform whatever the bias of the drawn word. All entropy still comes
// from rapid (seeded, replayable from a .fail file); shrinking still removes whole statements through the count draws.
var mixCtr, mixSeed uint64

func mix64(z uint64) uint64 {
	z = (z ^ (z >> 30)) * 0xBF58476D1CE4E5B9
	z = (z ^ (z >> 27)) * 0x94D049BB133111EB
	return z ^ (z >> 31)
}

// resetMix starts a case: four drawn words make the per-case key, so that the few likely values of a biased word map to
// different outcomes in different cases.
func resetMix(t *rapid.T) {
	mixCtr, mixSeed = 0, 0
	for i := 0; i < 4; i++ {
		mixSeed = mix64(mixSeed ^ rapid.Uint64().Draw(t, "seed") + 0x9E3779B97F4A7C15)
	}
}

func uni64(t *rapid.T) uint64 {
	mixCtr++
	z := rapid.Uint64().Draw(t, "u") ^ mixSeed ^ (mixCtr * 0x9E3779B97F4A7C15)
	z = (z ^ (z >> 30)) * 0xBF58476D1CE4E5B9
	z = (z ^ (z >> 27)) * 0x94D049BB133111EB
	return z ^ (z >> 31)
}

// intn: uniform in [lo, hi].
func intn(t *rapid.T, lo, hi int) int { return lo + int(uni64(t)%uint64(hi-lo+1)) }

// count: rapid's own (small-biased, shrinkable) integer, for numbers of statements.
func count(t *rapid.T, lo, hi int) int { return rapid.IntRange(lo, hi).Draw(t, "count") }

func chance(t *rapid.T, pct int) bool { return uni64(t)%100 < uint64(pct) }
func pickW(t *rapid.T, weights ...int) int {
	sum := 0
	for _, w := range weights {
		sum += w
	}
	x := int(uni64(t) % uint64(sum))
	for i, w := range weights {
		if x < w {
			return i
		}
		x -= w
	}
	return len(weights) - 1
}
func drawBytes(t *rapid.T, lo, hi int) []byte {
	n := intn(t, lo, hi)
	out := make([]byte, 0, n+8)
	for len(out) < n {
		z := uni64(t)
		for i := 0; i < 8; i++ {
			out = append(out, byte(z>>(8*uint(i))))
		}
	}
	return out[:n]
}
func drawByte(t *rapid.T) byte { return byte(uni64(t)) }

func pow2(n uint) *big.Int     { return new(big.Int).Lsh(big.NewInt(1), n) }
func sub1(x *big.Int) *big.Int { return new(big.Int).Sub(x, big.NewInt(1)) }
func add1(x *big.Int) *big.Int { return new(big.Int).Add(x, big.NewInt(1)) }

var interesting = func() []*big.Int {
	var v []*big.Int
	for _, s := range []int64{0, 1, 2, 3, 5, 7, 8, 15, 16, 30, 31, 32, 33, 63, 64, 65, 127, 128, 255, 256, 257, 1000, 65535, 65536} {
		v = append(v, big.NewInt(s))
	}
	for _, n := range []uint{31, 32, 63, 64, 127, 128, 160, 248, 255, 256} {
		p := pow2(n)
		v = append(v, sub1(p))
		if n < 256 {
			v = append(v, p, add1(p))
		}
	}
	v = append(v, new(big.Int).Sub(pow2(256), big.NewInt(2)), new(big.Int).Sub(pow2(256), big.NewInt(32)),
		new(big.Int).Add(pow2(255), pow2(254)), big.NewInt(0x1FFFFFFFE0), big.NewInt(0x1FFFFFFFE1))
	return v
}()

var hugeOffsets = []*big.Int{pow2(32), sub1(pow2(64)), pow2(64), pow2(255), sub1(pow2(256)), big.NewInt(0x1FFFFFFFE0), big.NewInt(0x1FFFFFFFE1),
	new(big.Int).Sub(pow2(64), big.NewInt(32)), new(big.Int).Sub(pow2(64), big.NewInt(31)), pow2(24)}

var smallOffsets = []int64{0, 0, 0, 1, 4, 31, 32, 32, 33, 64, 64, 95, 96, 128, 160, 200, 255, 511, 1000}
var smallLens = []int64{0, 0, 1, 2, 20, 31, 32, 32, 32, 33, 64, 64, 65, 96, 100, 128}

// ---------------------------------------------------------------- source (a): uniformly random bytes

func genRandomBytes(t *rapid.T) []byte { return drawBytes(t, 0, 160) }

// ---------------------------------------------------------------- source (b): opcode-weighted random sequences

var weightedOps, weightedOpW = func() ([]byte, []int) {
	var ops []byte
	var ws []int
	add := func(w int, list ...byte) {
		for _, o := range list {
			ops = append(ops, o)
			ws = append(ws, w)
		}
	}
	for o := 0x01; o <= 0x0b; o++ {
		add(4, byte(o))
	}
	for o := 0x10; o <= 0x1d; o++ {
		add(4, byte(o))
	}
	add(4, 0x20)
	for o := 0x30; o <= 0x3f; o++ {
		add(3, byte(o))
	}
	add(2, 0x40, 0x41, 0x42, 0x43, 0x46, 0x47)
	add(1, 0x44, 0x45, 0x5a)
	add(10, 0x50, 0x51, 0x52)
	add(5, 0x53, 0x54, 0x55, 0x5b)
	add(4, 0x56, 0x57, 0x58, 0x59)
	add(60, 0x60)
	for o := 0x61; o <= 0x7f; o++ {
		add(2, byte(o))
	}
	add(12, 0x80, 0x81, 0x82, 0x90, 0x91)
	for o := 0x83; o <= 0x8f; o++ {
		add(2, byte(o))
	}
	for o := 0x92; o <= 0x9f; o++ {
		add(2, byte(o))
	}
	add(3, 0xa0, 0xa1, 0xa2, 0xa3, 0xa4)
	add(3, 0xf0, 0xf1, 0xf2, 0xf4, 0xf5, 0xfa)
	add(2, 0x00, 0xf3, 0xfd)
	add(1, 0xfe, 0xff, 0x0c, 0x21, 0x5c, 0xb0, 0xef)
	return ops, ws
}()

func genWeighted(t *rapid.T) []byte {
	n := intn(t, 0, 70)
	var code []byte
	for i := 0; i < n; i++ {
		op := weightedOps[pickW(t, weightedOpW...)]
		code = append(code, op)
		if op >= 0x60 && op <= 0x7f {
			k := int(op-0x60) + 1
			small := chance(t, 70)
			for j := 0; j < k; j++ {
				if small && j < k-1 {
					code = append(code, 0)
				} else if small {
					code = append(code, byte(intn(t, 0, 70)))
				} else {
					code = append(code, drawByte(t))
				}
			}
		}
	}
	return code
}

// ---------------------------------------------------------------- source (c): stack-aware grammar

// genEnv is what a grammar program knows about the world it will run in.
type genEnv struct {
	galaxias bool
	height   uint64
	depth    int // nesting budget for embedded init code
	self     int // index of the universe account that will hold the program, -1 for init code
}

type fixup struct{ pos, label, delta int }

type pb struct {
	t    *rapid.T
	env  genEnv
	code []byte
	h    int // abstract stack height
	lab  []int
	fix  []fixup
	data []struct {
		label int
		bytes []byte
	}
	budget int // remaining statements
	pure   bool
}

func (b *pb) op(o byte, pops, pushes int) {
	b.code = append(b.code, o)
	b.h += pushes - pops
	if b.h < 0 {
		panic("harness: grammar generator stack model went negative")
	}
}

func (b *pb) pushBytes(bs []byte) { // PUSHn with exactly these immediate bytes (1..32)
	b.code = append(b.code, byte(0x60+len(bs)-1))
	b.code = append(b.code, bs...)
	b.h++
}

func (b *pb) pushBig(v *big.Int) {
	bs := v.Bytes()
	if len(bs) == 0 {
		bs = []byte{0}
	}
	if len(bs) > 32 {
		bs = bs[len(bs)-32:]
	}
	if len(bs) < 32 && chance(b.t, 4) { // wider push than needed
		bs = append(make([]byte, intn(b.t, 1, 32-len(bs))), bs...)
	}
	b.pushBytes(bs)
}

func (b *pb) pushU(v uint64) { b.pushBig(new(big.Int).SetUint64(v)) }

func (b *pb) newLabel() int { b.lab = append(b.lab, -1); return len(b.lab) - 1 }
func (b *pb) place(l int)   { b.lab[l] = len(b.code) }
func (b *pb) pushLabel(l, delta int) {
	b.code = append(b.code, 0x61, 0, 0)
	b.fix = append(b.fix, fixup{len(b.code) - 2, l, delta})
	b.h++
}
func (b *pb) jumpdest(l int) { b.place(l); b.op(0x5b, 0, 0) }

func (b *pb) finish() []byte {
	for _, d := range b.data {
		b.lab[d.label] = len(b.code)
		b.code = append(b.code, d.bytes...)
	}
	for _, f := range b.fix {
		v := b.lab[f.label] + f.delta
		if v < 0 {
			v = 0
		}
		b.code[f.pos], b.code[f.pos+1] = byte(v>>8), byte(v)
	}
	return b.code
}

func (b *pb) pushConst() {
	switch pickW(b.t, 50, 25, 25) {
	case 0:
		b.pushBig(interesting[intn(b.t, 0, len(interesting)-1)])
	case 1:
		b.pushBytes(drawBytes(b.t, 1, 32))
	default:
		b.pushU(uint64(intn(b.t, 0, 300)))
	}
}

func (b *pb) pushAddr() {
	var a addr
	switch pickW(b.t, 50, 5, 14, 6, 6, 4, 1, 4) {
	case 0:
		a = uAddr(intn(b.t, 0, nUniverse-1))
	case 1:
		b.op(0x30, 0, 1) // ADDRESS
		return
	case 2:
		a = precompileAddr(intn(b.t, 1, 8))
	case 3:
		a = ghostAddr
	case 4:
		a = originAddr
	case 5:
		a = coinbaseAddr
	case 6:
		a = precompileAddr(9)
	default:
		a = addr{} // zero address
	}
	if chance(b.t, 10) { // dirty upper 12 bytes: only the low 20 bytes are the address
		b.pushBytes(append(drawBytes(b.t, 12, 12), a[:]...))
		return
	}
	b.pushBig(new(big.Int).SetBytes(a[:]))
}

func (b *pb) pushMemOff() {
	switch pickW(b.t, 972, 26, 2) {
	case 0:
		b.pushU(uint64(smallOffsets[intn(b.t, 0, len(smallOffsets)-1)]))
	case 1:
		b.genValue(1)
		b.pushU(0xff)
		b.op(0x16, 2, 1) // AND
	default:
		b.pushBig(hugeOffsets[intn(b.t, 0, len(hugeOffsets)-1)])
	}
}

// pushMemRange pushes length then offset (offset ends on top).
func (b *pb) pushMemRange() {
	switch pickW(b.t, 944, 30, 1, 1, 24) {
	case 0:
		b.pushU(uint64(smallLens[intn(b.t, 0, len(smallLens)-1)]))
		b.pushU(uint64(smallOffsets[intn(b.t, 0, len(smallOffsets)-1)]))
	case 1: // zero length makes any offset a no-op
		b.pushU(0)
		b.pushBig(hugeOffsets[intn(b.t, 0, len(hugeOffsets)-1)])
	case 2:
		b.pushBig(hugeOffsets[intn(b.t, 0, len(hugeOffsets)-1)])
		b.pushU(uint64(smallOffsets[intn(b.t, 0, len(smallOffsets)-1)]))
	case 3:
		b.pushU(uint64(smallLens[intn(b.t, 0, len(smallLens)-1)]))
		b.pushBig(hugeOffsets[intn(b.t, 0, len(hugeOffsets)-1)])
	default:
		b.genValue(1)
		b.pushU(0x7f)
		b.op(0x16, 2, 1)
		b.genValue(1)
		b.pushU(0xff)
		b.op(0x16, 2, 1)
	}
}

func (b *pb) pushDataOff() { // offset into call data / code / return data
	switch pickW(b.t, 80, 10, 10) {
	case 0:
		b.pushU(uint64(intn(b.t, 0, 70)))
	case 1:
		b.pushBig(hugeOffsets[intn(b.t, 0, len(hugeOffsets)-1)])
	default:
		b.genValue(1)
	}
}

func (b *pb) pushSlot() {
	switch pickW(b.t, 85, 10, 5) {
	case 0:
		b.pushU(uint64(intn(b.t, 0, 5)))
	case 1:
		b.pushConst()
	default:
		b.genValue(1)
	}
}

var binaryOps = []byte{0x01, 0x02, 0x03, 0x04, 0x05, 0x06, 0x07, 0x0a, 0x0b, 0x10, 0x11, 0x12, 0x13, 0x14, 0x16, 0x17, 0x18, 0x1a, 0x1b, 0x1c, 0x1d}
var env0Ops = []byte{0x30, 0x32, 0x33, 0x34, 0x36, 0x38, 0x3a, 0x3d, 0x41, 0x42, 0x43, 0x58, 0x59, 0x47}

// genValue emits code that pushes exactly one value. d bounds expression nesting.
func (b *pb) genValue(d int) {
	w := []int{30, 12, 10, 8, 5, 5, 4, 3, 3, 0, 0, 0}
	if b.h == 0 {
		w[1] = 0
	}
	if d > 0 {
		w[9], w[10], w[11] = 6, 30, 5
	}
	if b.pure { // nothing that can run out of gas on its own (no memory expansion)
		w[4], w[8] = 0, 0
	}
	switch pickW(b.t, w...) {
	case 0:
		b.pushConst()
	case 1:
		k := intn(b.t, 1, min(16, b.h))
		b.op(byte(0x80+k-1), 0, 1)
	case 2:
		o := env0Ops[intn(b.t, 0, len(env0Ops)-1)]
		if b.env.galaxias && chance(b.t, 8) {
			o = 0x46 // CHAINID exists only in the post-Galaxias set
		}
		b.op(o, 0, 1)
	case 3:
		b.pushDataOff()
		b.op(0x35, 1, 1) // CALLDATALOAD
	case 4:
		b.pushMemOff()
		b.op(0x51, 1, 1) // MLOAD
	case 5:
		b.pushSlot()
		b.op(0x54, 1, 1) // SLOAD
	case 6:
		b.pushAddr()
		b.op([]byte{0x31, 0x3b, 0x3f}[intn(b.t, 0, 2)], 1, 1) // BALANCE EXTCODESIZE EXTCODEHASH
	case 7:
		if chance(b.t, 75) {
			b.pushU(uint64(int(b.env.height) - intn(b.t, -2, 260)))
		} else {
			b.pushConst()
		}
		b.op(0x40, 1, 1) // BLOCKHASH
	case 8:
		b.pushMemRange()
		b.op(0x20, 2, 1) // SHA3
	case 9:
		b.genValue(d - 1)
		b.op([]byte{0x15, 0x19}[intn(b.t, 0, 1)], 1, 1) // ISZERO NOT
	case 10:
		o := binaryOps[intn(b.t, 0, len(binaryOps)-1)]
		b.genValue(d - 1)
		small := o == 0x0b || o == 0x1a || o == 0x1b || o == 0x1c || o == 0x1d
		if small && chance(b.t, 70) { // SIGNEXTEND, BYTE, shifts: first operand is an index / shift amount
			b.pushU(uint64([]int{0, 1, 7, 8, 15, 30, 31, 32, 33, 127, 128, 248, 255, 256, 257}[intn(b.t, 0, 14)]))
		} else {
			b.genValue(d - 1)
		}
		b.op(o, 2, 1)
	default:
		b.genValue(d - 1)
		b.genValue(d - 1)
		b.genValue(d - 1)
		b.op([]byte{0x08, 0x09}[intn(b.t, 0, 1)], 3, 1) // ADDMOD MULMOD
	}
}

// storeBytes writes data into memory at off with PUSH32/MSTORE (stack neutral); the last word is right-padded.
func (b *pb) storeBytes(off int, data []byte) {
	for i := 0; i < len(data); i += 32 {
		chunk := make([]byte, 32)
		copy(chunk, data[i:])
		b.pushBytes(chunk)
		b.pushU(uint64(off + i))
		b.op(0x52, 2, 0)
	}
}

// sink consumes the value on top of the stack in an observable way.
func (b *pb) sink() {
	switch pickW(b.t, 40, 30, 10, 10, 10) {
	case 0:
		b.pushU(uint64(smallOffsets[intn(b.t, 0, len(smallOffsets)-1)]))
		b.op(0x52, 2, 0) // MSTORE
	case 1:
		b.pushSlot()
		b.op(0x55, 2, 0) // SSTORE
	case 2:
		b.pushMemOff()
		b.op(0x53, 2, 0) // MSTORE8
	case 3:
		b.pushMemRange()
		b.op(0xa1, 3, 0) // LOG1 with the value as topic
	default:
		// keep it on the stack for later DUPs
	}
}

const maxModelStack = 14

// block emits up to n statements that never touch the stack below floor and leaves the height at floor.
func (b *pb) block(n, floor, nest int) {
	for i := 0; i < n && b.budget > 0 && len(b.code) < 1800; i++ {
		b.budget--
		b.stmt(floor, nest)
		for b.h > floor+maxModelStack {
			b.op(0x50, 1, 0)
		}
	}
	for b.h > floor {
		b.op(0x50, 1, 0)
	}
}

func (b *pb) stmt(floor, nest int) {
	w := []int{22, 8, 6, 7, 6, 5, 14, 5, 5, 4, 3, 2, 4, 2, 1}
	if nest <= 0 {
		w[7], w[8] = 0, 0
	}
	if b.h-floor < 1 {
		w[3] = 0
	}
	if b.h-floor < 2 {
		w[4] = 0
	}
	switch pickW(b.t, w...) {
	case 0: // compute and sink
		b.genValue(3)
		b.sink()
	case 1: // SSTORE
		b.genValue(2)
		b.pushSlot()
		b.op(0x55, 2, 0)
	case 2: // LOGn
		n := intn(b.t, 0, 4)
		for i := 0; i < n; i++ {
			b.genValue(1)
		}
		b.pushMemRange()
		b.op(byte(0xa0+n), 2+n, 0)
	case 3: // POP
		b.op(0x50, 1, 0)
	case 4: // SWAPk within the block's own items
		k := intn(b.t, 1, min(16, b.h-floor-1))
		b.op(byte(0x90+k-1), 0, 0)
	case 5: // copies into memory
		switch intn(b.t, 0, 3) {
		case 0, 1:
			b.pushU(uint64(smallLens[intn(b.t, 0, len(smallLens)-1)]))
			b.pushDataOff()
			b.pushMemOff()
			b.op([]byte{0x37, 0x39}[intn(b.t, 0, 1)], 3, 0) // CALLDATACOPY CODECOPY
		case 2:
			b.pushU(uint64(smallLens[intn(b.t, 0, len(smallLens)-1)]))
			b.pushDataOff()
			b.pushMemOff()
			b.pushAddr()
			b.op(0x3c, 4, 0) // EXTCODECOPY
		default:
			b.returnDataCopy()
		}
	case 6:
		b.stmtCall()
	case 7:
		b.stmtIf(nest)
	case 8:
		b.stmtLoop(nest)
	case 9:
		b.stmtJumps()
	case 10:
		b.stmtCreate()
	case 11:
		b.stmtPrecompile()
	case 12: // leave a value on the stack
		b.genValue(2)
	case 13: // MSIZE-sensitive memory touch
		b.pushMemOff()
		b.op(0x51, 1, 1)
		b.op(0x50, 1, 0)
	default: // role-unaware: a valid non-halting opcode whose operands are arbitrary interesting values
		o := arityOps[intn(b.t, 0, len(arityOps)-1)]
		ar := arity[o]
		for i := 0; i < ar[0]; i++ {
			if chance(b.t, 60) {
				b.pushConst()
			} else {
				b.genValue(1)
			}
		}
		b.op(o, ar[0], ar[1])
	}
}

// arity: pops / pushes of the opcodes the role-unaware statement may emit.
var arity, arityOps = func() (map[byte][2]int, []byte) {
	m := map[byte][2]int{}
	set := func(p, q int, ops ...byte) {
		for _, o := range ops {
			m[o] = [2]int{p, q}
		}
	}
	set(2, 1, 0x01, 0x02, 0x03, 0x04, 0x05, 0x06, 0x07, 0x0a, 0x0b, 0x10, 0x11, 0x12, 0x13, 0x14, 0x16, 0x17, 0x18, 0x1a, 0x1b, 0x1c, 0x1d, 0x20)
	set(3, 1, 0x08, 0x09)
	set(1, 1, 0x15, 0x19, 0x31, 0x35, 0x3b, 0x3f, 0x40, 0x51, 0x54)
	set(0, 1, 0x30, 0x32, 0x33, 0x34, 0x36, 0x38, 0x3a, 0x3d, 0x41, 0x42, 0x43, 0x47, 0x58, 0x59)
	set(3, 0, 0x37, 0x39, 0x3e)
	set(4, 0, 0x3c)
	set(1, 0, 0x50)
	set(2, 0, 0x52, 0x53, 0x55, 0xa0)
	set(3, 0, 0xa1)
	set(4, 0, 0xa2)
	set(5, 0, 0xa3)
	set(6, 0, 0xa4)
	set(7, 1, 0xf1, 0xf2)
	set(6, 1, 0xf4, 0xfa)
	set(3, 1, 0xf0)
	set(4, 1, 0xf5)
	var ops []byte
	for o := 0; o < 256; o++ {
		if _, ok := m[byte(o)]; ok {
			ops = append(ops, byte(o))
		}
	}
	return m, ops
}()

func (b *pb) returnDataCopy() {
	// mostly inside the bounds of the last return data, sometimes past the end (the frame must then fail)
	switch pickW(b.t, 70, 20, 5, 5) {
	case 0:
		b.op(0x3d, 0, 1) // RETURNDATASIZE as length, offset 0
		b.pushU(0)
	case 1:
		b.pushU(0)
		b.pushU(0)
	case 2:
		b.pushU(uint64(smallLens[intn(b.t, 0, len(smallLens)-1)]))
		b.pushU(0)
	default:
		b.pushU(uint64(smallLens[intn(b.t, 0, len(smallLens)-1)]))
		b.pushDataOff()
	}
	b.pushMemOff()
	b.op(0x3e, 3, 0)
}

// pushCallGas: a failing callee burns everything it was given, so the usual allotment is a fixed amount that shrinks
// with the position of the program in the universe (U0 hands out more than U3); "all but 1/64" and starvation amounts
// stay in the mix.
func (b *pb) pushCallGas() {
	base := []uint64{1500000, 1500000, 300000, 60000, 12000}[b.env.self+1]
	switch pickW(b.t, 84, 6, 5, 2, 3) {
	case 0:
		b.pushU(base)
	case 1:
		b.pushBig([]*big.Int{big.NewInt(0xffffffff), sub1(pow2(256)), pow2(64)}[intn(b.t, 0, 2)])
	case 2:
		b.pushU([]uint64{0, 1, 100, 700, 2300, 10000, 50000, 200000}[intn(b.t, 0, 7)])
	case 3:
		b.genValue(1)
	default:
		b.pushU(uint64(intn(b.t, 0, 100000)))
	}
}

func (b *pb) pushCallValue() {
	switch pickW(b.t, 72, 18, 5, 5) {
	case 0:
		b.pushU(0)
	case 1:
		b.pushU(uint64(intn(b.t, 1, 3)))
	case 2:
		b.op(0x34, 0, 1) // CALLVALUE
	default:
		b.pushBig(interesting[intn(b.t, 20, len(interesting)-1)]) // usually more than the balance
	}
}

// callTail pushes (value), address and gas are pushed by the caller of this helper; kind selects the opcode.
func (b *pb) emitCall(kind int, pushTarget func()) {
	if chance(b.t, 50) { // some input in memory
		b.genValue(1)
		b.pushU(uint64([]int{0, 0, 32}[intn(b.t, 0, 2)]))
		b.op(0x52, 2, 0)
	}
	b.pushMemRange() // retLen, retOff
	b.pushMemRange() // inLen, inOff
	switch kind {
	case 0, 1: // CALL, CALLCODE
		b.pushCallValue()
		pushTarget()
		b.pushCallGas()
		b.op([]byte{0xf1, 0xf2}[kind], 7, 1)
	default: // DELEGATECALL, STATICCALL
		pushTarget()
		b.pushCallGas()
		b.op([]byte{0xf4, 0xfa}[kind-2], 6, 1)
	}
}

// pushCallTarget: mostly a universe account with a higher index than the program's own (the call graph is then acyclic
// and the work of a case stays bounded by the program sizes rather than by the gas limit); sometimes anything.
func (b *pb) pushCallTarget() {
	if hi := nUniverse - 1 - b.env.self; hi > 0 && chance(b.t, 70) {
		a := uAddr(b.env.self + intn(b.t, 1, hi))
		b.pushBig(new(big.Int).SetBytes(a[:]))
		return
	}
	b.pushAddr()
}

func (b *pb) stmtCall() {
	kind := pickW(b.t, 40, 15, 20, 25)
	b.emitCall(kind, b.pushCallTarget)
	b.afterCall()
}

func (b *pb) afterCall() {
	if chance(b.t, 70) {
		b.sink() // the status word
	}
	if chance(b.t, 35) {
		b.op(0x3d, 0, 1) // RETURNDATASIZE
		b.sink()
	}
	if chance(b.t, 30) {
		b.returnDataCopy()
	}
}

func (b *pb) stmtIf(nest int) {
	b.genValue(2)
	if chance(b.t, 50) {
		b.op(0x15, 1, 1)
	}
	floor := b.h - 1
	if chance(b.t, 70) {
		end := b.newLabel()
		b.pushLabel(end, 0)
		b.op(0x57, 2, 0)
		b.block(intn(b.t, 1, 4), floor, nest-1)
		b.jumpdest(end)
		return
	}
	els, end := b.newLabel(), b.newLabel()
	b.pushLabel(els, 0)
	b.op(0x57, 2, 0)
	b.block(intn(b.t, 1, 3), floor, nest-1)
	b.pushLabel(end, 0)
	b.op(0x56, 1, 0)
	b.jumpdest(els)
	b.block(intn(b.t, 1, 3), floor, nest-1)
	b.jumpdest(end)
}

func (b *pb) stmtLoop(nest int) {
	b.pushU(uint64(intn(b.t, 1, 4))) // counter
	top := b.newLabel()
	b.jumpdest(top)
	b.block(intn(b.t, 1, 4), b.h, nest-1)
	b.pushU(1)
	b.op(0x90, 0, 0) // SWAP1
	b.op(0x03, 2, 1) // SUB  -> counter-1
	b.op(0x80, 0, 1) // DUP1
	b.pushLabel(top, 0)
	b.op(0x57, 2, 0) // JUMPI
	b.op(0x50, 1, 0) // POP
}

// stmtJumps: jumps over dead bytes, computed destinations, not-taken jumps to invalid destinations.
func (b *pb) stmtJumps() {
	switch pickW(b.t, 40, 30, 30) {
	case 0: // jump over garbage (garbage that ends in a PUSH opcode swallows the JUMPDEST: the jump must then fail)
		l := b.newLabel()
		b.pushLabel(l, 0)
		b.op(0x56, 1, 0)
		n := intn(b.t, 1, 6)
		for i := 0; i < n; i++ {
			g := drawByte(b.t)
			if g >= 0x60 && g <= 0x7f && chance(b.t, 80) {
				g = 0x5b
			}
			b.code = append(b.code, g)
		}
		b.jumpdest(l)
	case 1: // destination computed at run time
		l := b.newLabel()
		k := intn(b.t, 1, 40)
		b.pushLabel(l, -k)
		b.pushU(uint64(k))
		b.op(0x01, 2, 1)
		b.op(0x56, 1, 0)
		b.jumpdest(l)
	default: // JUMPI with a false condition never validates its destination
		b.pushU(0)
		if chance(b.t, 50) {
			b.pushU(0xffff)
		} else {
			b.pushBig(hugeOffsets[intn(b.t, 0, len(hugeOffsets)-1)])
		}
		b.op(0x57, 2, 0)
	}
}

// tiny runtime programs a CREATE may deploy (≤ 32 bytes each)
var runtimeTable = [][]byte{
	{},
	{0x60, 0x00, 0x35, 0x60, 0x00, 0x55, 0x00},                         // SSTORE(0, CALLDATALOAD(0)); STOP
	{0x60, 0x00, 0x54, 0x60, 0x00, 0x52, 0x60, 0x20, 0x60, 0x00, 0xf3}, // return SLOAD(0)
	{0x60, 0x2a, 0x60, 0x00, 0x55, 0x60, 0x00, 0x60, 0x00, 0xfd},       // SSTORE then REVERT
	{0x33, 0xff}, // SELFDESTRUCT(CALLER)
	{0xfe},       // INVALID
	{0x36, 0x60, 0x00, 0x60, 0x00, 0x37, 0x36, 0x60, 0x00, 0xf3}, // echo call data
	{0x34, 0x60, 0x01, 0x55, 0x30, 0x31, 0x60, 0x02, 0x55, 0x00}, // SSTORE(1,CALLVALUE) SSTORE(2,SELFBALANCE)
}

// genInit returns init code for CREATE/CREATE2.
func (b *pb) genInit() []byte {
	switch pickW(b.t, 60, 25, 8, 7) {
	case 0: // deploy a runtime program from the table: PUSHn code; PUSH1 0; MSTORE; PUSH1 n; PUSH1 32-n; RETURN
		rt := runtimeTable[intn(b.t, 0, len(runtimeTable)-1)]
		var c []byte
		if len(rt) > 0 {
			c = append(c, byte(0x60+len(rt)-1))
			c = append(c, rt...)
			c = append(c, 0x60, 0x00, 0x52)
		}
		if chance(b.t, 30) { // constructor side effects
			c = append(c, 0x60, byte(intn(b.t, 1, 255)), 0x60, byte(intn(b.t, 0, 3)), 0x55)
		}
		c = append(c, 0x60, byte(len(rt)), 0x60, byte(32-len(rt)), 0xf3)
		return c
	case 1:
		if b.env.depth > 0 {
			e := b.env
			e.depth--
			e.self = -1
			return genGrammar(b.t, e, 6)
		}
		return []byte{0x00}
	case 2:
		return [][]byte{{}, {0xfe}, {0x60, 0x00, 0x60, 0x00, 0xfd}, {0x60, 0x01, 0x60, 0x00, 0x55, 0xfe}, {0x5b, 0x60, 0x00, 0x56},
			{0x61, 0x70, 0x00, 0x60, 0x00, 0xf3}, {0x30, 0xff}}[intn(b.t, 0, 6)]
	default:
		return genWeighted(b.t)
	}
}

func (b *pb) stmtCreate() {
	init := b.genInit()
	if len(init) > 600 {
		init = init[:600]
	}
	off := []int{0, 0, 32, 100}[intn(b.t, 0, 3)]
	if len(init) <= 64 && chance(b.t, 60) {
		b.storeBytes(off, init)
	} else {
		l := b.newLabel()
		b.data = append(b.data, struct {
			label int
			bytes []byte
		}{l, init})
		b.pushU(uint64(len(init)))
		b.pushLabel(l, 0)
		b.pushU(uint64(off))
		b.op(0x39, 3, 0) // CODECOPY
	}
	size := len(init)
	if chance(b.t, 10) {
		size = intn(b.t, 0, len(init)+5)
	}
	callIt := chance(b.t, 35)
	if callIt { // arguments of the later CALL go below the new address
		b.pushMemRange()
		b.pushMemRange()
		b.pushCallValue()
	}
	create2 := chance(b.t, 45)
	if create2 {
		if chance(b.t, 70) {
			b.pushU(uint64(intn(b.t, 0, 2))) // few salts: collisions happen
		} else {
			b.pushConst()
		}
	}
	b.pushU(uint64(size))
	b.pushU(uint64(off))
	if chance(b.t, 75) {
		b.pushU(0)
	} else {
		b.pushCallValue()
	}
	if create2 {
		b.op(0xf5, 4, 1)
	} else {
		b.op(0xf0, 3, 1)
	}
	if callIt {
		b.pushCallGas()
		b.op(0xf1, 7, 1)
		b.afterCall()
		return
	}
	if chance(b.t, 50) {
		b.op(0x80, 0, 1)
		b.op([]byte{0x3b, 0x3f, 0x31}[intn(b.t, 0, 2)], 1, 1) // EXTCODESIZE / EXTCODEHASH / BALANCE of the new address
		b.sink()
	}
	b.sink()
}

// ---- precompile inputs

var sigKey *ecdsa.PrivateKey
var secpN, _ = new(big.Int).SetString("fffffffffffffffffffffffffffffffebaaedce6af48a03bbfd25e8cd0364141", 16)

// ecrecoverInput returns the 128-byte input (hash, v, r, s) of a valid signature; highS flips it to the other valid
// (r, n-s, v^1) form that recovers the same address.
func ecrecoverInput(seed byte, highS bool) []byte {
	if sigKey == nil {
		k, err := gcrypto.ToECDSA(append(make([]byte, 31), 0x77))
		if err != nil {
			panic("harness: " + err.Error())
		}
		sigKey = k
	}
	hash := gcrypto.Keccak256([]byte{seed})
	sig, err := gcrypto.Sign(hash, sigKey)
	if err != nil {
		panic("harness: " + err.Error())
	}
	r, s, v := sig[:32], new(big.Int).SetBytes(sig[32:64]), sig[64]
	if highS {
		s = new(big.Int).Sub(secpN, s)
		v ^= 1
	}
	in := make([]byte, 128)
	copy(in, hash)
	in[63] = 27 + v
	copy(in[64:], r)
	s.FillBytes(in[96:128])
	return in
}

func pad32(v *big.Int) []byte { return v.FillBytes(make([]byte, 32)) }

func (b *pb) stmtPrecompile() {
	var in []byte
	var target int
	switch pickW(b.t, 25, 15, 20, 15, 10, 15) {
	case 0:
		target = 1
		in = ecrecoverInput(byte(intn(b.t, 0, 3)), false)
		switch pickW(b.t, 60, 20, 20) {
		case 1:
			in[intn(b.t, 0, 127)] ^= 1 << uint(intn(b.t, 0, 7))
		case 2:
			in = in[:intn(b.t, 0, 127)]
		}
	case 1:
		target = intn(b.t, 2, 4)
		in = drawBytes(b.t, 0, 70)
	case 2: // MODEXP with small lengths
		target = 5
		bl, el, ml := intn(b.t, 0, 3), intn(b.t, 0, 3), intn(b.t, 0, 3)
		in = append(in, pad32(big.NewInt(int64(bl)))...)
		in = append(in, pad32(big.NewInt(int64(el)))...)
		in = append(in, pad32(big.NewInt(int64(ml)))...)
		in = append(in, drawBytes(b.t, 0, bl+el+ml)...)
	case 3: // bn256Add: generator + generator, + infinity, or an invalid point
		target = 6
		g := append(pad32(big.NewInt(1)), pad32(big.NewInt(2))...)
		in = append(in, g...)
		switch intn(b.t, 0, 2) {
		case 0:
			in = append(in, g...)
		case 1:
			in = append(in, make([]byte, 64)...)
		default:
			in = append(in, append(pad32(big.NewInt(1)), pad32(big.NewInt(3))...)...)
		}
	case 4: // bn256ScalarMul
		target = 7
		in = append(pad32(big.NewInt(1)), pad32(big.NewInt(2))...)
		in = append(in, pad32(interesting[intn(b.t, 0, len(interesting)-1)])...)
	default: // bn256Pairing: empty input is the valid trivial pairing; other lengths / garbage must fail
		target = 8
		in = [][]byte{{}, {1}, make([]byte, 192), append(append(pad32(big.NewInt(1)), pad32(big.NewInt(2))...), make([]byte, 128)...)}[intn(b.t, 0, 3)]
	}
	b.storeBytes(0, in)
	b.pushU(uint64([]int{32, 32, 64, 0, 128}[intn(b.t, 0, 4)])) // retLen
	b.pushU(uint64([]int{0, 128, 256}[intn(b.t, 0, 2)]))        // retOff
	b.pushU(uint64(len(in)))
	b.pushU(0)
	kind := pickW(b.t, 40, 10, 10, 40)
	if kind <= 1 {
		b.pushU(0)
	}
	b.pushU(uint64(target))
	b.pushU(400000)
	b.op([]byte{0xf1, 0xf2, 0xf4, 0xfa}[kind], map[bool]int{true: 7, false: 6}[kind <= 1], 1)
	b.afterCall()
}

// terminator ends the program; the model height no longer matters afterwards.
func (b *pb) terminator() {
	switch pickW(b.t, 10, 28, 22, 10, 5, 5, 8, 12) {
	case 0:
		b.op(0x00, 0, 0)
	case 1: // dump up to three stack items into memory and return them
		n := min(b.h, intn(b.t, 0, 3))
		for i := 0; i < n; i++ {
			b.pushU(uint64(32 * i))
			b.op(0x52, 2, 0)
		}
		b.pushU(uint64(intn(b.t, 0, 32*n+40)))
		b.pushU(0)
		b.op(0xf3, 2, 0)
	case 2:
		b.pushMemRange()
		b.op(0xf3, 2, 0)
	case 3:
		b.pushMemRange()
		b.op(0xfd, 2, 0)
	case 4:
		b.code = append(b.code, 0xfe)
	case 5:
		b.pushAddr()
		b.op(0xff, 1, 0)
	case 6: // jumps that must fail: into push data, to a non-JUMPDEST, out of range
		switch intn(b.t, 0, 3) {
		case 0:
			l := b.newLabel()
			b.pushLabel(l, 1+intn(b.t, 0, 1))
			b.op(0x56, 1, 0)
			b.place(l)
			b.code = append(b.code, 0x61, 0x5b, 0x5b, 0x00)
		case 1:
			b.pushU(uint64(intn(b.t, 0, 3)))
			b.op(0x56, 1, 0)
		case 2:
			b.pushU(0xfff0)
			b.op(0x56, 1, 0)
		default:
			b.pushBig(hugeOffsets[intn(b.t, 0, len(hugeOffsets)-1)])
			b.pushU(1)
			b.op(0x90, 0, 0)
			b.op(0x57, 2, 0)
		}
	default:
		// fall off the end of the code (implicit STOP)
	}
}

// genGrammar builds one well-formed program of about n statements.
func genGrammar(t *rapid.T, env genEnv, n int) []byte {
	b := &pb{t: t, env: env, budget: n + 8}
	if chance(t, 30) { // prologue: a couple of values every later DUP can reach
		for i := intn(t, 1, 3); i > 0; i-- {
			b.genValue(1)
		}
	}
	b.block(n, b.h, 2)
	b.terminator()
	return b.finish()
}

// ---------------------------------------------------------------- worlds

func genCode(t *rapid.T, env genEnv, main bool) ([]byte, string) {
	w := []int{15, 15, 70}
	if main {
		w = []int{12, 18, 70}
	}
	switch pickW(t, w...) {
	case 0:
		return genRandomBytes(t), "random-bytes"
	case 1:
		return genWeighted(t), "opcode-weighted"
	}
	n := count(t, 2, 10)
	if main {
		n = count(t, 3, 24)
	}
	return genGrammar(t, env, n), "grammar"
}

func genSlot(t *rapid.T) word {
	var w word
	switch pickW(t, 50, 35, 15) {
	case 1:
		w[31] = byte(intn(t, 1, 255))
	case 2:
		copy(w[:], drawBytes(t, 32, 32))
	}
	return w
}

func genGas(t *rapid.T) uint64 {
	switch pickW(t, 8, 22, 70) {
	case 0:
		return uint64(intn(t, 0, 120))
	case 1:
		return uint64(intn(t, 2000, 60000))
	}
	return 10000000
}

func genInput(t *rapid.T) []byte {
	if chance(t, 40) {
		in := make([]byte, 32*intn(t, 1, 2))
		in[31] = byte(intn(t, 0, 5))
		if len(in) > 32 {
			in[63] = byte(intn(t, 0, 255))
		}
		return in
	}
	return drawBytes(t, 0, 64)
}

func genWorld(t *rapid.T) *world {
	resetMix(t)
	w := &world{Galaxias: rapid.Bool().Draw(t, "galaxias"), Height: []uint64{1, 10, 300}[intn(t, 0, 2)], OriginBal: 1000000000, OriginNon: uint64(intn(t, 0, 2))}
	env := genEnv{galaxias: w.Galaxias, height: w.Height, depth: 1}
	w.Create = chance(t, 15)
	w.Gas = genGas(t)
	w.Input = genInput(t)
	if chance(t, 30) {
		w.Value = uint64(intn(t, 1, 1000))
	}
	for i := range w.U {
		a := &w.U[i]
		kind := pickW(t, 75, 10, 15)
		if i == 0 && !w.Create {
			kind = 0
		}
		switch kind {
		case 0:
			a.Present, a.Nonce = true, 1
			env.self = i
			a.Code, a.Src = genCode(t, env, i == 0 && !w.Create)
			if chance(t, 50) {
				a.Balance = uint64(intn(t, 1, 1000))
			}
			for k := range a.Slots {
				a.Slots[k] = genSlot(t)
			}
		case 1:
			a.Present, a.Balance, a.Src = true, uint64(intn(t, 1, 1000)), "eoa"
		}
	}
	if w.Create {
		env.self = -1
		w.InitCode, w.MainSrc = genCode(t, env, true)
		if chance(t, 6) {
			w.Collide = 1
		}
	} else if chance(t, 5) {
		w.Collide = 2
		w.MainSrc = w.U[0].Src
	} else {
		w.MainSrc = w.U[0].Src
	}
	return w
}
