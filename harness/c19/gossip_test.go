package c19

import (
	"fmt"
	"testing"

	"pgregory.net/rapid"

	"github.com/kardiachain/go-kardia/consensus"
	cstypes "github.com/kardiachain/go-kardia/consensus/types"
	"github.com/kardiachain/go-kardia/lib/p2p/mock"
	"github.com/kardiachain/go-kardia/types"
	"github.com/kardiachain/go-kardia/types/evidence"

	"verifharness/internal/ev"
)

// TestEvidenceGossip: "the evidence it produces is accepted by every other correct node" presupposes that it reaches
// them. The evidence reactor decides per pending item and per peer whether to send it now (prepareEvidenceMessage, the
// body of its broadcast routine). Here the peer carries the peer state the CONSENSUS reactor really attaches to a peer
// (a *consensus.PeerState under types.PeerStateKey, brought to a drawn height by a NewRoundStep message, as in
// ConsensusManager.Receive). Oracle, one-directional, from the rule the reactor documents and the property needs:
// pending, valid, unexpired evidence of height h MUST be offered to a peer that is past h and for which it is inside
// the age window; nothing is demanded outside that window.
func TestEvidenceGossip(t *testing.T) {
	const key = "evidence.gossip-never-offered"
	rapid.Check(t, func(t *rapid.T) {
		w := buildWorld(t)
		defer w.s.Close()
		// a genuine equivocation, accepted by the pool
		var e *types.DuplicateVoteEvidence
		desc := ""
		for try := 0; try < 40 && e == nil; try++ {
			c, mut, d := w.genEvidence(t)
			if mut == "none" && c.ValidateBasic() == nil && w.valid(c) == "" {
				e, desc = c, d
			}
		}
		if e == nil {
			t.Skip("no genuine unexpired evidence drawn")
		}
		text := func() string {
			return fmt.Sprintf("chain n=%d H=%d maxAge=%d blocks and %v; %s", len(w.s.Keys), w.H, maxAgeBlocks, w.maxAgeDur, desc)
		}
		var err error
		ev.Guard(t, text, func() { err = w.nd.EvPool.AddEvidence(e) })
		if _, pending := w.pending()[string(e.Hash().Bytes())]; err != nil || !pending {
			t.Skip("pool did not take the evidence (judged by TestEvidencePool)")
		}
		reactor := evidence.NewReactor(w.nd.EvPool)
		offered, demanded := 0, 0
		for i, n := 0, rapid.IntRange(1, 4).Draw(t, "peers"); i < n; i++ {
			peer := mock.NewPeer(nil)
			ps := consensus.NewPeerState(peer)
			ph := uint64(rapid.IntRange(0, int(w.H)+maxAgeBlocks+3).Draw(t, "peerHeight"))
			if ph > 0 {
				ps.ApplyNewRoundStepMessage(&consensus.NewRoundStepMessage{Height: ph, Round: uint32(rapid.IntRange(1, 3).Draw(t, "peerRound")), Step: cstypes.RoundStepPropose})
			}
			peer.Set(types.PeerStateKey, ps)
			var out []types.Evidence
			ev.Guard(t, text, func() { out = reactor.VerifC19Prepare(peer, e) })
			must := ph > e.Height() && int64(ph)-int64(e.Height()) <= maxAgeBlocks
			if must {
				demanded++
			}
			if len(out) > 0 {
				offered++
			}
			if must && len(out) == 0 {
				ev.Violation(t, key, text()+fmt.Sprintf("; peer at height %d", ph), "pending evidence of height %d is not offered to a peer whose consensus peer state says height %d (inside the %d-block window)", e.Height(), ph, maxAgeBlocks)
			}
			peer.Stop()
		}
		ev.Case(demanded > 0, text()+fmt.Sprintf(" demanded=%d", demanded), "gossip", fmt.Sprintf("gossip:demanded=%v", demanded > 0), fmt.Sprintf("gossip:offered=%v", offered > 0))
	})
}
