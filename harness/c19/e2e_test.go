package c19

import (
	"fmt"
	"os"
	"strings"
	"testing"

	"pgregory.net/rapid"

	"github.com/kardiachain/go-kardia/consensus"
	kproto "github.com/kardiachain/go-kardia/proto/kardiachain/types"
	"github.com/kardiachain/go-kardia/trie"
	"github.com/kardiachain/go-kardia/types"

	"verifharness/internal/ev"
	"verifharness/internal/netsim"
)

type e2e struct {
	s    *netsim.Sim
	log  []string
	byz  []int
	accd map[string]bool // addresses of validators that really equivocated
}

func (x *e2e) logf(f string, a ...interface{}) { x.log = append(x.log, fmt.Sprintf(f, a...)) }
func (x *e2e) text() string                    { return strings.Join(x.log, "\n") }

func pendingOf(nd *netsim.Node) []*types.DuplicateVoteEvidence {
	var out []*types.DuplicateVoteEvidence
	l, _ := nd.EvPool.PendingEvidence(1 << 40)
	for _, e := range l {
		if d, ok := e.(*types.DuplicateVoteEvidence); ok {
			out = append(out, d)
		}
	}
	return out
}

// chainEvidence lists every evidence item committed on node nd's chain with the height of the block carrying it.
func chainEvidence(nd *netsim.Node) (items []*types.DuplicateVoteEvidence, at []uint64) {
	for h := uint64(1); h <= nd.BOps.Height(); h++ {
		if b := nd.BOps.LoadBlock(h); b != nil {
			for _, e := range b.Evidence().Evidence {
				if d, ok := e.(*types.DuplicateVoteEvidence); ok {
					items = append(items, d)
					at = append(at, h)
				}
			}
		}
	}
	return
}

// height drives one height. If the round-1 proposer is a puppet and evidence is given, the puppet proposes an otherwise
// valid block carrying it. Returns whether the puppet proposed.
func (x *e2e) height(t *rapid.T, evidence []types.Evidence) bool {
	s := x.s
	up := s.Correct
	H := s.MinHeight(up)
	for _, i := range up {
		if s.Nodes[i].CS.Height == H {
			ti, ok := s.Nodes[i].Tick.Peek()
			if ok && ti.Step.String() == "RoundStepNewHeight" {
				s.FireTimeout(i)
			}
		}
	}
	proposed := false
	ref := s.Nodes[up[0]]
	if prop := ref.CS.Validators.GetProposer(); prop != nil && ref.CS.Height == H && ref.CS.Round == 1 {
		pi := -1
		for _, b := range x.byz {
			if s.Addr(b) == prop.Address {
				pi = b
			}
		}
		if pi >= 0 && len(evidence) > 0 {
			if c := s.MakeCand(up[0], pi, 0, ""); c != nil {
				blk := types.NewBlock(c.Block.Header(), c.Block.Transactions(), c.Block.LastCommit(), evidence, trie.NewStackTrie(nil))
				parts := blk.MakePartSet(types.BlockPartSizeBytes)
				id := types.BlockID{Hash: blk.Hash(), PartsHeader: parts.Header()}
				p := s.SignProposal(pi, H, 1, 0, id)
				x.logf("puppet %d proposes block with %d evidence item(s) at height %d", pi, len(evidence), H)
				for _, j := range up {
					if s.Nodes[j].CS.Height != H {
						continue
					}
					s.Deliver(j, pi, &consensus.ProposalMessage{Proposal: p})
					for k := 0; k < int(parts.Total()); k++ {
						s.Deliver(j, pi, &consensus.BlockPartMessage{Height: H, Round: 1, Part: parts.GetPart(k)})
					}
					s.DrainOwn(j)
				}
				// the puppets back their block with their own votes
				s.ByzVoteTo(up, kproto.PrevoteType, 1, id, H)
				s.GossipToFixpoint(up)
				s.ByzVoteTo(up, kproto.PrecommitType, 1, id, H)
				proposed = true
			}
		}
	}
	s.SyncRun(up, H+1, 3000)
	return proposed
}

// TestEvidenceE2E: a Byzantine validator equivocates in front of some correct nodes; the evidence they create must be
// acceptable to every other correct node, get proposed and committed, exactly once, and accuse nobody else.
func TestEvidenceE2E(t *testing.T) {
	rapid.Check(t, func(t *rapid.T) {
		n := rapid.SampledFrom([]int{5, 7, 7}).Draw(t, "n")
		powers := make([]int64, n)
		for i := range powers {
			powers[i] = 15
		}
		byz := []int{rapid.IntRange(0, n-1).Draw(t, "b1")}
		if n == 7 {
			b2 := rapid.IntRange(0, n-1).Draw(t, "b2")
			if b2 != byz[0] {
				byz = append(byz, b2)
			}
		}
		var s *netsim.Sim
		var err error
		ev.Guard(t, nil, func() { s, err = netsim.NewSimWith(powers, byz, nil, netsim.GenesisOpts{}) })
		if err != nil {
			t.Fatalf("harness: %v", err)
		}
		defer s.Close()
		x := &e2e{s: s, byz: byz, accd: map[string]bool{}}
		x.logf("net n=%d byz=%v", n, byz)
		s.Start()
		h0 := uint64(rapid.IntRange(2, 3).Draw(t, "h0"))
		var ok bool
		ev.Guard(t, x.text, func() { ok, _, _ = s.SyncRun(s.Correct, h0, 3000) })
		if !ok {
			t.Fatalf("harness: could not reach height %d", h0)
		}
		// everybody enters round 1 of h0
		for _, i := range s.Correct {
			if ti, okp := s.Nodes[i].Tick.Peek(); okp && ti.Step.String() == "RoundStepNewHeight" {
				ev.Guard(t, x.text, func() { s.FireTimeoutNoDrain(i) })
			}
		}
		// the equivocation: two votes of b1 for different targets, both shown to S, one of them to the others
		b1 := byz[0]
		typ := kproto.PrevoteType
		if rapid.Bool().Draw(t, "precommit") {
			typ = kproto.PrecommitType
		}
		idA, idB := idOf(1, 1), idOf(2, 1)
		if rapid.IntRange(0, 3).Draw(t, "nilside") == 0 {
			idA = types.BlockID{}
		}
		var S, rest []int
		for _, i := range s.Correct {
			if len(S) == 0 || rapid.Bool().Draw(t, "inS") {
				S = append(S, i)
			} else {
				rest = append(rest, i)
			}
		}
		x.logf("validator %d equivocates at %d/1 type=%v; both votes shown to %v, one to %v", b1, h0, typ, S, rest)
		x.accd[string(s.Addr(b1).Bytes())] = true
		// the equivocator signs exactly two votes; everybody gets the same bytes
		va := s.SignVote(b1, s.Nodes[s.Correct[0]], typ, h0, 1, idA)
		vb := s.SignVote(b1, s.Nodes[s.Correct[0]], typ, h0, 1, idB)
		for _, i := range s.Correct {
			ev.Guard(t, x.text, func() { s.Deliver(i, b1, &consensus.VoteMessage{Vote: va}) })
		}
		for _, i := range S {
			ev.Guard(t, x.text, func() { s.Deliver(i, b1, &consensus.VoteMessage{Vote: vb}) })
		}
		// created?
		for _, i := range S {
			found := false
			for _, e := range pendingOf(s.Nodes[i]) {
				if e.VoteA.ValidatorAddress == s.Addr(b1) && e.VoteA.Height == h0 {
					found = true
				}
			}
			if !found {
				ev.Violation(t, "evidence.not-created", x.text(), "node %d saw both conflicting votes of validator %d but holds no evidence", i, b1)
			}
		}
		// the chain moves on
		for k := 0; k < 2; k++ {
			ev.Guard(t, x.text, func() { x.height(t, nil) })
		}
		// gossip: every other correct node must accept what the witnesses created
		created := pendingOf(s.Nodes[S[0]])
		for _, j := range rest {
			for _, e := range created {
				if e.ValidateBasic() != nil {
					ev.Violation(t, "evidence.created-malformed", x.text(), "evidence created by consensus fails ValidateBasic")
				}
				var aerr error
				ev.Guard(t, x.text, func() { aerr = s.Nodes[j].EvPool.AddEvidence(e) })
				has := false
				for _, p := range pendingOf(s.Nodes[j]) {
					if p.Hash() == e.Hash() {
						has = true
					}
				}
				if !has {
					cls := "other"
					if aerr != nil && strings.Contains(aerr.Error(), "different time") {
						cls = "time-mismatch"
					}
					ev.Violation(t, "evidence.created-not-accepted-by-peer:"+cls, x.text(), "evidence created by node %d is refused by node %d: %v", S[0], j, aerr)
				}
			}
		}
		x.logf("gossiped %d item(s) to %v", len(created), rest)
		// proposed until committed: correct proposers must include it
		startH := s.MinHeight(s.Correct)
		correctProposed := false
		for k := 0; k < n+1; k++ {
			ev.Guard(t, x.text, func() { x.height(t, nil) })
			if items, _ := chainEvidence(s.Nodes[S[0]]); len(items) > 0 {
				correctProposed = true
				break
			}
		}
		if !correctProposed && len(created) > 0 {
			if !ev.Violation(t, "evidence.never-proposed", x.text(), "pending evidence was not included in any of the %d blocks proposed after height %d (correct validators proposed %d of them)", n+1, startH, n+1-len(byz)) {
				return
			}
		}
		// behind the known finding: a puppet proposer (a validator whose turn it is) brings the evidence on chain
		committedAt := uint64(0)
		if !correctProposed && len(byz) > 1 {
			for k := 0; k < 2*n && committedAt == 0; k++ {
				var list []types.Evidence
				for _, e := range pendingOf(s.Nodes[S[0]]) {
					list = append(list, e)
				}
				var msg, frame string
				msg, frame = ev.Try(func() { x.height(t, list) })
				if msg != "" {
					ev.Violation(t, "panic:"+frame, x.text(), "panic while committing a block with evidence: %s", msg)
					return
				}
				if _, at := chainEvidence(s.Nodes[S[0]]); len(at) > 0 {
					committedAt = at[0]
				}
			}
			if committedAt == 0 {
				x.logf("puppet never got its turn / its block was not accepted")
			} else {
				x.logf("evidence committed at height %d", committedAt)
			}
		}
		if committedAt > 0 {
			ev.Class("evidence-committed-via-puppet")
			// never twice: the puppet tries again with the same item and with an index-altered copy
			items, _ := chainEvidence(s.Nodes[S[0]])
			orig := items[0]
			variant := rapid.SampledFrom([]string{"same-bytes", "index-altered"}).Draw(t, "variant")
			cp := *orig
			a, b := *orig.VoteA, *orig.VoteB
			cp.VoteA, cp.VoteB = &a, &b
			if variant == "index-altered" {
				a.ValidatorIndex += 5
				b.ValidatorIndex += 5
			}
			for k := 0; k < 2*n; k++ {
				msg, frame := ev.Try(func() { x.height(t, []types.Evidence{&cp}) })
				if msg != "" {
					ev.Violation(t, "panic:"+frame, x.text(), "panic while a replayed evidence item was proposed: %s", msg)
					return
				}
			}
			all, _ := chainEvidence(s.Nodes[S[0]])
			seen := map[string]int{}
			for _, e := range all {
				seen[offence(e)]++
			}
			for _, c := range seen {
				if c > 1 {
					ev.Violation(t, "evidence.committed-twice:"+variant, x.text(), "the same offence is on chain %d times", c)
				}
			}
			// nobody else is ever accused
			for _, e := range all {
				if !x.accd[string(e.VoteA.ValidatorAddress.Bytes())] {
					ev.Violation(t, "evidence.correct-validator-accused", x.text(), "committed evidence accuses %x, which never equivocated", e.VoteA.ValidatorAddress.Bytes()[:6])
				}
			}
		}
		if v := s.AgreementViolation(); v != "" {
			ev.Violation(t, "agreement", x.text(), "%s", v)
		}
		ev.Case(len(rest) > 0, x.text(), "e2e", fmt.Sprintf("e2e-n=%d", n))
		if ev.WantSample("e2e") {
			ev.Sample("e2e", x.log)
		}
	})
}

const keyD8 = "evidence.current-height-unverifiable"

// TestEvidenceCurrentHeight: evidence about the height in progress inside a proposal. A node that saw both votes holds
// the evidence and skips verification; a node that did not cannot verify it (the block meta of the current height does
// not exist yet). Correct nodes must stay in agreement and none may halt.
func TestEvidenceCurrentHeight(t *testing.T) {
	rapid.Check(t, func(t *rapid.T) {
		n := 7
		powers := []int64{15, 15, 15, 15, 15, 15, 15}
		b1 := rapid.IntRange(0, n-1).Draw(t, "b1")
		b2 := (b1 + 1 + rapid.IntRange(0, n-2).Draw(t, "b2")) % n
		var s *netsim.Sim
		var err error
		ev.Guard(t, nil, func() { s, err = netsim.NewSimWith(powers, []int{b1, b2}, nil, netsim.GenesisOpts{}) })
		if err != nil {
			t.Fatalf("harness: %v", err)
		}
		defer s.Close()
		x := &e2e{s: s, byz: []int{b1, b2}, accd: map[string]bool{string(s.Addr(b1).Bytes()): true}}
		x.logf("net n=7 equivocator=%d puppet-proposer=%d", b1, b2)
		s.SigHook = func(node int, r netsim.SigRec) {
			if r.Height >= 2 && os.Getenv("C19_TRACE") != "" {
				x.logf("  n%d signs %s %d/%d nil=%v", node, r.Kind, r.Height, r.Round, r.BlockID.IsZero())
			}
		}
		s.Start()
		outsider := rapid.SampledFrom(s.Correct).Draw(t, "outsider")
		typ := kproto.PrevoteType
		if rapid.Bool().Draw(t, "precommit") {
			typ = kproto.PrecommitType
		}
		done := false
		for k := 0; k < 3*n && !done; k++ {
			H := s.MinHeight(s.Correct)
			for _, i := range s.Correct {
				if ti, okp := s.Nodes[i].Tick.Peek(); okp && ti.Step.String() == "RoundStepNewHeight" && s.Nodes[i].CS.Height == H {
					ev.Guard(t, x.text, func() { s.FireTimeout(i) })
				}
			}
			ref := s.Nodes[s.Correct[0]]
			prop := ref.CS.Validators.GetProposer()
			if H >= 2 && prop != nil && prop.Address == s.Addr(b2) && ref.CS.Round == 1 {
				// b1 equivocates now, in front of everybody but the outsider
				x.logf("height %d: validator %d equivocates (type %v), node %d sees only one of the votes", H, b1, typ, outsider)
				va := s.SignVote(b1, ref, typ, H, 1, idOf(1, 1))
				vb := s.SignVote(b1, ref, typ, H, 1, idOf(2, 1))
				for _, i := range s.Correct {
					ev.Guard(t, x.text, func() { s.Deliver(i, b1, &consensus.VoteMessage{Vote: va}) })
					if i != outsider {
						ev.Guard(t, x.text, func() { s.Deliver(i, b1, &consensus.VoteMessage{Vote: vb}) })
					}
				}
				var list []types.Evidence
				for _, i := range s.Correct {
					if i != outsider {
						for _, e := range pendingOf(s.Nodes[i]) {
							if e.VoteA.Height == H {
								list = []types.Evidence{e}
							}
						}
					}
				}
				if len(list) == 0 {
					ev.Violation(t, "evidence.not-created", x.text(), "no witness created evidence for the equivocation at height %d", H)
				}
				msg, frame := ev.Try(func() { x.height(t, list) })
				if msg != "" {
					key := "panic:" + frame
					if strings.Contains(msg, "don't have header") || strings.Contains(msg, "committed an invalid block") {
						key = keyD8
					}
					ev.Violation(t, key, x.text(), "a correct node halted on a block carrying evidence about the height in progress: %s", first(msg, 300))
					ev.Case(true, x.text(), "current-height-evidence")
					return
				}
				items, at := chainEvidence(s.Nodes[s.Correct[0]])
				x.logf("after that height: %d evidence item(s) on chain %v; outsider pending=%d; commit round of %d = %d", len(items), at, len(pendingOf(s.Nodes[outsider])), H, s.Nodes[s.Correct[0]].BOps.LoadSeenCommit(H).Round)
				done = true
			} else {
				ev.Guard(t, x.text, func() { x.height(t, nil) })
			}
		}
		if v := s.AgreementViolation(); v != "" {
			ev.Violation(t, "agreement", x.text(), "%s", v)
		}
		ev.Case(done, x.text(), "current-height-evidence")
		if done && ev.WantSample("current-height") {
			ev.Sample("current-height", x.log)
		}
	})
}

func first(s string, n int) string {
	if len(s) > n {
		return s[:n]
	}
	return s
}
