package c19

import (
	"fmt"
	"strings"
	"sync"
	"sync/atomic"
	"testing"
	"time"

	"pgregory.net/rapid"

	"github.com/kardiachain/go-kardia/configs"
	"github.com/kardiachain/go-kardia/consensus"
	"github.com/kardiachain/go-kardia/lib/crypto"
	"github.com/kardiachain/go-kardia/lib/log"
	"github.com/kardiachain/go-kardia/lib/p2p"
	"github.com/kardiachain/go-kardia/lib/p2p/mock"
	"github.com/kardiachain/go-kardia/mainchain/blockchain"
	kproto "github.com/kardiachain/go-kardia/proto/kardiachain/types"
	"github.com/kardiachain/go-kardia/types"
	"github.com/kardiachain/go-kardia/types/evidence"

	"verifharness/internal/ev"
	"verifharness/internal/netsim"
)

// ---------------------------------------------------------------- the product's evidence reactor between real nodes
//
// TestEvidenceGossip decides the reactor's send rule on one call. Here the whole path runs: real nodes with the
// product's consensus reactor (which attaches the peer state the evidence reactor reads), the product's evidence
// reactor with its broadcast routine per peer, receive routines and timers; only the wire is the harness's (ordered,
// lossless in-process links, as in C04's TestRealReactors). A genuine piece of duplicate-vote evidence about an earlier
// height is handed to ONE node's pool; "the evidence it produces is accepted by every other correct node" then means:
// it shows up as pending (or committed) in every node's pool, nobody drops a peer over it, nothing panics.

type gwire struct {
	ch byte
	b  []byte
}

type glink struct {
	*mock.Peer
	q      chan gwire
	done   chan struct{}
	closed atomic.Bool
	kv     sync.Map
}

// Get / Set: thread-safe like the product's peer (mock.Peer's plain map would be raced on by the reactors' goroutines).
func (p *glink) Get(k string) interface{} {
	v, _ := p.kv.Load(k)
	return v
}
func (p *glink) Set(k string, v interface{}) { p.kv.Store(k, v) }

func (p *glink) down() {
	if p.closed.CompareAndSwap(false, true) {
		close(p.done)
	}
	_ = p.Stop()
}
func (p *glink) Send(ch byte, b []byte) bool {
	if p.closed.Load() || !p.IsRunning() {
		return false
	}
	select {
	case p.q <- gwire{ch, append([]byte{}, b...)}:
		return true
	case <-p.done:
		return false
	case <-time.After(2 * time.Second):
		return false
	}
}
func (p *glink) TrySend(ch byte, b []byte) bool {
	if p.closed.Load() || !p.IsRunning() {
		return false
	}
	select {
	case p.q <- gwire{ch, append([]byte{}, b...)}:
		return true
	default:
		return false
	}
}
func (p *glink) FlushStop() { p.down() }

type gnode struct {
	nd   *netsim.Node
	conR *consensus.ConsensusManager
	evR  *evidence.Reactor
	sw   *p2p.Switch
}

func TestEvidenceRealGossip(t *testing.T) {
	waitFor := time.Duration(ev.Scale("GOSSIP_WAIT_S", 120)) * time.Second
	rapid.Check(t, func(t *rapid.T) {
		n := rapid.IntRange(2, 4).Draw(t, "n")
		powers := make([]int64, n)
		for i := range powers {
			powers[i] = int64(rapid.SampledFrom([]int{15, 30}).Draw(t, "p"))
		}
		g, keys := netsim.MakeGenesis(powers, 2)
		text := fmt.Sprintf("real evidence gossip: powers=%v", powers)
		nodes := make([]*gnode, n)
		var links []*glink
		var wg sync.WaitGroup
		var recvPanic atomic.Value
		defer func() {
			for _, l := range links {
				l.down()
			}
			for _, gn := range nodes {
				if gn != nil {
					_ = gn.conR.Stop()
					_ = gn.evR.Stop()
				}
			}
			wg.Wait()
			for _, gn := range nodes {
				if gn != nil {
					gn.nd.Close()
				}
			}
		}()
		for i := 0; i < n; i++ {
			nd, err := netsim.NewNode(i, g, keys[i], netsim.NodeOpts{RealTicker: true, WAL: netsim.NewMemWAL(nil),
				Cache: &blockchain.CacheConfig{TrieCleanLimit: 0, TrieDirtyLimit: 256, TrieTimeLimit: 5 * time.Minute, SnapshotLimit: 0}})
			if err != nil {
				t.Fatalf("harness: %v", err)
			}
			conR := consensus.NewConsensusManager(nd.CS, &configs.FastSyncConfig{Enable: false})
			conR.SetLogger(log.New())
			evR := evidence.NewReactor(nd.EvPool)
			evR.SetLogger(log.New())
			priv, _ := crypto.GenerateKey()
			nk := p2p.NodeKey{PrivKey: priv}
			cfg := configs.DefaultP2PConfig()
			ni := p2p.DefaultNodeInfo{DefaultNodeID: nk.ID(), ListenAddr: "127.0.0.1:26656", Network: "verif", Version: "1.0.0", Moniker: "n"}
			sw := p2p.NewSwitch(cfg, p2p.NewMultiplexTransport(ni, nk, p2p.MConnConfig(cfg)))
			sw.SetLogger(log.New())
			sw.AddReactor("CONSENSUS", conR)
			sw.AddReactor("EVIDENCE", evR)
			nodes[i] = &gnode{nd: nd, conR: conR, evR: evR, sw: sw}
		}
		for i, gn := range nodes {
			if err := gn.evR.Start(); err != nil {
				t.Fatalf("harness: evidence reactor %d: %v", i, err)
			}
			if err := gn.conR.Start(); err != nil {
				t.Fatalf("harness: consensus reactor %d: %v", i, err)
			}
		}
		peerAt := make([][]*glink, n)
		for i := range peerAt {
			peerAt[i] = make([]*glink, n)
		}
		pump := func(p, back *glink, to *gnode, toIdx int) {
			defer wg.Done()
			for {
				select {
				case <-p.done:
					return
				case w := <-p.q:
					func() {
						defer func() {
							if r := recover(); r != nil && !p.closed.Load() && !back.closed.Load() {
								recvPanic.Store(fmt.Sprintf("Receive on node %d (channel %#x) panicked: %v", toIdx, w.ch, r))
							}
						}()
						if w.ch == evidence.EvidenceChannel {
							to.evR.Receive(w.ch, back, w.b)
						} else {
							to.conR.Receive(w.ch, back, w.b)
						}
					}()
				}
			}
		}
		for i := 0; i < n; i++ {
			for j := i + 1; j < n; j++ {
				pij := &glink{Peer: mock.NewPeer(nil), q: make(chan gwire, 4096), done: make(chan struct{})}
				pji := &glink{Peer: mock.NewPeer(nil), q: make(chan gwire, 4096), done: make(chan struct{})}
				peerAt[i][j], peerAt[j][i] = pij, pji
				links = append(links, pij, pji)
				nodes[i].conR.InitPeer(pij)
				nodes[j].conR.InitPeer(pji)
				_ = nodes[i].sw.VerifC18AddPeer(pij)
				_ = nodes[j].sw.VerifC18AddPeer(pji)
				wg.Add(2)
				go pump(pij, pji, nodes[j], j)
				go pump(pji, pij, nodes[i], i)
				nodes[i].conR.AddPeer(pij)
				nodes[j].conR.AddPeer(pji)
				nodes[i].evR.AddPeer(pij)
				nodes[j].evR.AddPeer(pji)
			}
		}
		waitHeight := func(h uint64, d time.Duration) bool {
			dl := time.Now().Add(d)
			for time.Now().Before(dl) {
				ok := true
				for _, gn := range nodes {
					if gn.nd.BOps.Height() < h {
						ok = false
					}
				}
				if ok {
					return true
				}
				time.Sleep(5 * time.Millisecond)
			}
			return false
		}
		evH := uint64(rapid.IntRange(1, 2).Draw(t, "evidenceHeight"))
		if !waitHeight(evH+2, waitFor) {
			ev.Class("real-gossip:inconclusive-slow-chain")
			return
		}
		// a genuine equivocation of validator v at height evH, as the chain recorded that height
		v := rapid.IntRange(0, n-1).Draw(t, "offender")
		src := rapid.IntRange(0, n-1).Draw(t, "firstHolder")
		nd := nodes[src].nd
		vs, err := nd.Store.LoadValidators(evH)
		meta := nd.BOps.LoadBlockMeta(evH)
		if err != nil || vs == nil || meta == nil {
			t.Fatalf("harness: height %d not readable on node %d", evH, src)
		}
		addr := crypto.PubkeyToAddress(keys[v].PublicKey)
		_, val := vs.GetByAddress(addr)
		if val == nil {
			t.Fatalf("harness: validator %d not in the set of height %d", v, evH)
		}
		mk := func(tag byte) *types.Vote {
			vote := &types.Vote{ValidatorAddress: addr, ValidatorIndex: uint32(v), Height: evH, Round: 1, Timestamp: meta.Header.Time.Add(time.Second), Type: kproto.PrevoteType, BlockID: idOf(tag, 1)}
			pv := vote.ToProto()
			if err := types.NewDefaultPrivValidator(keys[v]).SignVote(g.ChainID, pv); err != nil {
				t.Fatalf("harness: %v", err)
			}
			vote.Signature = pv.Signature
			return vote
		}
		A, B := mk(1), mk(2)
		if strings.Compare(A.BlockID.Key(), B.BlockID.Key()) > 0 {
			A, B = B, A
		}
		e := &types.DuplicateVoteEvidence{VoteA: A, VoteB: B, TotalVotingPower: vs.TotalVotingPower(), ValidatorPower: val.VotingPower, Timestamp: meta.Header.Time}
		text += fmt.Sprintf("; evidence about validator %d at height %d handed to node %d", v, evH, src)
		var addErr error
		msg, frame := ev.Try(func() { addErr = nd.EvPool.AddEvidence(e) })
		if msg != "" {
			ev.Violation(t, "panic:"+frame, text, "AddEvidence panicked: %s", msg)
			return
		}
		if addErr != nil {
			ev.Violation(t, "evidence.rejected-valid:none", text, "node %d's pool refused genuine evidence: %v", src, addErr)
			return
		}
		has := func(gn *gnode) bool {
			l, _ := gn.nd.EvPool.PendingEvidence(1 << 40)
			for _, x := range l {
				if x.Hash() == e.Hash() {
					return true
				}
			}
			return false
		}
		start := time.Now()
		missing := ""
		for {
			missing = ""
			for i, gn := range nodes {
				if !has(gn) {
					missing += fmt.Sprintf(" n%d(height %d)", i, gn.nd.BOps.Height())
				}
			}
			if missing == "" {
				break
			}
			if p := recvPanic.Load(); p != nil {
				ev.Violation(t, "realgossip.receive-panicked", text, "%s", p.(string))
				return
			}
			if time.Since(start) > waitFor {
				// every peer is connected and far past the evidence height; the broadcast routine retries every ten seconds
				ev.Violation(t, "evidence.real-gossip-not-delivered", text, "after %v the evidence is still not pending on:%s", waitFor, missing)
				return
			}
			time.Sleep(10 * time.Millisecond)
		}
		// nobody was punished for relaying it
		for i := 0; i < n; i++ {
			for j := 0; j < n; j++ {
				if l := peerAt[i][j]; l != nil && !l.IsRunning() {
					ev.Violation(t, "evidence.real-gossip-peer-dropped", text, "node %d dropped its peer %d while genuine evidence was being gossiped", i, j)
				}
			}
		}
		if p := recvPanic.Load(); p != nil {
			ev.Violation(t, "realgossip.receive-panicked", text, "%s", p.(string))
			return
		}
		ev.Case(n >= 3, text, "real-gossip", fmt.Sprintf("real-gossip:n=%d", n))
	})
}
