// C19 — accountability: evidence is accepted exactly for real double-signing, once.
package c19

import (
	"fmt"
	"math/big"
	"os"
	"sort"
	"strings"
	"testing"
	"time"

	gcrypto "github.com/ethereum/go-ethereum/crypto"
	"pgregory.net/rapid"

	"github.com/kardiachain/go-kardia/kai/state/cstate"
	"github.com/kardiachain/go-kardia/lib/common"
	"github.com/kardiachain/go-kardia/mainchain/genesis"
	kproto "github.com/kardiachain/go-kardia/proto/kardiachain/types"
	"github.com/kardiachain/go-kardia/types"

	"verifharness/internal/ev"
	"verifharness/internal/netsim"
)

func TestMain(m *testing.M) {
	ev.Init("C19")
	rc := m.Run()
	ev.Flush()
	os.Exit(rc)
}

var secpN, _ = new(big.Int).SetString("fffffffffffffffffffffffffffffffebaaedce6af48a03bbfd25e8cd0364141", 16)

const maxAgeBlocks = 3

func smallExpiry(g *genesis.Genesis) {
	g.ConsensusParams.Evidence.MaxAgeNumBlocks = maxAgeBlocks
	g.ConsensusParams.Evidence.MaxAgeDuration = time.Nanosecond
}

// ---------------------------------------------------------------- independent acceptance predicate

type world struct {
	maxAgeDur time.Duration // evidence parameter MaxAgeDuration of this chain (MaxAgeNumBlocks is always maxAgeBlocks)
	s         *netsim.Sim
	nd        *netsim.Node
	H         uint64               // committed heights with block metas
	times     map[uint64]time.Time // block time per height
	powers    map[common.Address]int64
	total     int64
	// the validator set entitled to sign each height (it changes when staking transactions were executed)
	setsChange bool
	powersAt   map[uint64]map[common.Address]int64
	totalAt    map[uint64]int64
	stateH     uint64          // pool's state height (for expiry)
	stateT     time.Time       // pool's state time
	commited   map[string]bool // semantic keys of committed offences
	comItems   map[string][]*types.DuplicateVoteEvidence
}

func blockKey(id types.BlockID) string { return netsim.ExactKey(id) }

// loadSets reads the validator set of every height up to upTo from the node's store (harness bookkeeping: the sets the
// chain really had; the pool under test is judged against them).
func (w *world) loadSets(upTo uint64) {
	w.powersAt, w.totalAt = map[uint64]map[common.Address]int64{}, map[uint64]int64{}
	for h := uint64(1); h <= upTo; h++ {
		vs, err := w.nd.Store.LoadValidators(h)
		if err != nil || vs == nil {
			continue
		}
		m := map[common.Address]int64{}
		for _, v := range vs.Validators {
			m[v.Address] = v.VotingPower
		}
		w.powersAt[h], w.totalAt[h] = m, vs.TotalVotingPower()
	}
}

// offence identifies WHAT was done, independent of unsigned fields and of signature encoding.
func offence(e *types.DuplicateVoteEvidence) string {
	// the signed content of the two votes (target + timestamp); another pair of votes of the same validator at the same
	// height/round/type is another piece of evidence, not a replay
	ids := []string{blockKey(e.VoteA.BlockID) + "@" + fmt.Sprint(e.VoteA.Timestamp.UnixNano()), blockKey(e.VoteB.BlockID) + "@" + fmt.Sprint(e.VoteB.Timestamp.UnixNano())}
	sort.Strings(ids)
	return fmt.Sprintf("%x/%d/%d/%d/%s", e.VoteA.ValidatorAddress.Bytes(), e.VoteA.Height, e.VoteA.Round, e.VoteA.Type, strings.Join(ids, "|"))
}

func sigValid(chainID string, v *types.Vote) bool {
	if len(v.Signature) != 65 {
		return false
	}
	// The recovery byte may carry btcec's "compressed key" flag (bit 2): such a signature still proves the signer, it is
	// only another encoding (like (r, N-s, v^1)); normalise it before asking the reference implementation.
	sig := common.CopyBytes(v.Signature)
	sig[64] &^= 4
	pub, err := gcrypto.Ecrecover(gcrypto.Keccak256(types.VoteSignBytes(chainID, v.ToProto())), sig)
	if err != nil || len(pub) != 65 {
		return false
	}
	var a common.Address
	copy(a[:], gcrypto.Keccak256(pub[1:])[12:])
	return a == v.ValidatorAddress
}

// valid is the property's acceptance rule, written from its text. Returns "" if the evidence must be accepted.
func (w *world) valid(e *types.DuplicateVoteEvidence) string {
	a, b := e.VoteA, e.VoteB
	if a.Height != b.Height || a.Round != b.Round || a.Type != b.Type {
		return "hrs-differ"
	}
	if a.ValidatorAddress != b.ValidatorAddress {
		return "address-differs"
	}
	if blockKey(a.BlockID) == blockKey(b.BlockID) {
		return "same-target"
	}
	bt, ok := w.times[a.Height]
	if !ok {
		return "no-such-height"
	}
	p, member := w.powersAt[a.Height][a.ValidatorAddress]
	if !member {
		return "not-a-validator"
	}
	if e.ValidatorPower != p || e.TotalVotingPower != w.totalAt[a.Height] {
		return "power-wrong"
	}
	if !sigValid(w.s.G.ChainID, a) || !sigValid(w.s.G.ChainID, b) {
		return "bad-signature"
	}
	if !e.Timestamp.Equal(bt) {
		return "time-wrong"
	}
	ageBlocks := int64(w.stateH) - int64(a.Height)
	dur := w.maxAgeDur
	if dur == 0 {
		dur = time.Nanosecond
	}
	if w.stateT.Sub(bt) > dur && ageBlocks > maxAgeBlocks {
		return "expired"
	}
	if w.commited[offence(e)] {
		return "already-committed"
	}
	return ""
}

// replayKind says how a re-offered offence differs from the committed item(s): same-bytes, index-altered (only the
// unsigned ValidatorIndex), sig-reencoded (a signature in another encoding), or both.
func (w *world) replayKind(e *types.DuplicateVoteEvidence) string {
	kind := "other"
	for _, c := range w.comItems[offence(e)] {
		if c.Hash() == e.Hash() {
			return "same-bytes"
		}
		idx := c.VoteA.ValidatorIndex != e.VoteA.ValidatorIndex || c.VoteB.ValidatorIndex != e.VoteB.ValidatorIndex
		// votes may be stored in either order
		sigs := map[string]bool{string(c.VoteA.Signature): true, string(c.VoteB.Signature): true}
		sig := !sigs[string(e.VoteA.Signature)] || !sigs[string(e.VoteB.Signature)]
		switch {
		case idx && sig:
			kind = "index-altered+sig-reencoded"
		case idx:
			kind = "index-altered"
		case sig:
			kind = "sig-reencoded"
		}
	}
	return kind
}

// fullKey identifies an evidence item by EVERYTHING it carries (the harness's own notion of "the same item"; the
// product's Hash() is not trusted for identity).
func fullKey(e *types.DuplicateVoteEvidence) string {
	v := func(x *types.Vote) string {
		return fmt.Sprintf("%x/%d/%d/%d/%d/%s/%d/%x", x.ValidatorAddress.Bytes(), x.ValidatorIndex, x.Height, x.Round, x.Type, blockKey(x.BlockID), x.Timestamp.UnixNano(), x.Signature)
	}
	return fmt.Sprintf("%s|%s|%d|%d|%d", v(e.VoteA), v(e.VoteB), e.ValidatorPower, e.TotalVotingPower, e.Timestamp.UnixNano())
}

func (w *world) pendingFull() map[string]bool {
	out := map[string]bool{}
	for _, e := range w.pending() {
		out[fullKey(e)] = true
	}
	return out
}

func (w *world) pending() map[string]*types.DuplicateVoteEvidence {
	out := map[string]*types.DuplicateVoteEvidence{}
	l, _ := w.nd.EvPool.PendingEvidence(1 << 40)
	for _, e := range l {
		if d, ok := e.(*types.DuplicateVoteEvidence); ok {
			out[string(d.Hash().Bytes())] = d
		}
	}
	return out
}

// ---------------------------------------------------------------- evidence generator

func (w *world) sign(keyIdx int, v *types.Vote) {
	pv := v.ToProto()
	k := netsim.Key(keyIdx)
	if keyIdx < len(w.s.Keys) {
		k = w.s.Keys[keyIdx]
	}
	types.NewDefaultPrivValidator(k).SignVote(w.s.G.ChainID, pv)
	v.Signature = pv.Signature
}

func idOf(tag byte, total uint32) types.BlockID {
	if tag == 0 {
		return types.BlockID{}
	}
	return types.BlockID{Hash: common.Hash{tag}, PartsHeader: types.PartSetHeader{Total: total, Hash: common.Hash{tag, 1}}}
}

var mutations = []string{"none", "none", "none", "B.height", "B.round", "B.type", "B.address", "index-altered", "A.timestamp-after-signing", "same-target", "target-differs-in-total-only",
	"B-signed-by-other-key", "power+1", "total+1", "powers-of-next-height", "powers-of-next-height", "time+1ns", "outsider", "future-height", "unordered", "sig-malleated", "sig-v+4", "sig-truncated", "sig-extended"}

// genEvidence draws a genuine equivocation and applies one mutation. Returns the evidence, the mutation and a text.
func (w *world) genEvidence(t *rapid.T) (*types.DuplicateVoteEvidence, string, string) {
	h := uint64(rapid.IntRange(1, int(w.H)).Draw(t, "h"))
	v := rapid.IntRange(0, len(w.s.Keys)-1).Draw(t, "val")
	r := uint32(rapid.IntRange(1, 3).Draw(t, "round"))
	typ := kproto.PrevoteType
	if rapid.Bool().Draw(t, "precommit") {
		typ = kproto.PrecommitType
	}
	ta := byte(rapid.IntRange(0, 3).Draw(t, "ta"))
	tb := byte(rapid.IntRange(0, 3).Draw(t, "tb"))
	if ta == tb {
		tb = (ta + 1) % 4
	}
	mut := rapid.SampledFrom(mutations).Draw(t, "mutation")
	addr := w.s.Addr(v)
	mk := func(id types.BlockID) *types.Vote {
		return &types.Vote{ValidatorAddress: addr, ValidatorIndex: uint32(v), Height: h, Round: r, Timestamp: w.times[h].Add(time.Second), Type: typ, BlockID: id}
	}
	va, vb := mk(idOf(ta, 1)), mk(idOf(tb, 1))
	signerA, signerB := v, v
	switch mut {
	case "B.height":
		vb.Height = h%w.H + 1
		if vb.Height == h {
			mut = "none"
		}
	case "B.round":
		vb.Round = r + 1
	case "B.type":
		if typ == kproto.PrevoteType {
			vb.Type = kproto.PrecommitType
		} else {
			vb.Type = kproto.PrevoteType
		}
	case "B.address":
		vb.ValidatorAddress = w.s.Addr((v + 1) % len(w.s.Keys))
		signerB = (v + 1) % len(w.s.Keys)
		if len(w.s.Keys) == 1 {
			mut = "none"
		}
	case "same-target":
		vb.BlockID = va.BlockID
		vb.Timestamp = vb.Timestamp.Add(time.Second)
	case "target-differs-in-total-only":
		if ta == 0 {
			ta = 1
		}
		va.BlockID, vb.BlockID = idOf(ta, 1), idOf(ta, 2)
	case "B-signed-by-other-key":
		signerB = 300
	case "outsider":
		va.ValidatorAddress = common.BytesToAddress(gcrypto.PubkeyToAddress(netsim.Key(301).PublicKey).Bytes())
		vb.ValidatorAddress = va.ValidatorAddress
		signerA, signerB = 301, 301
	case "future-height":
		va.Height, vb.Height = w.H+5, w.H+5
	}
	w.sign(signerA, va)
	w.sign(signerB, vb)
	switch mut {
	case "index-altered":
		va.ValidatorIndex += 7
		vb.ValidatorIndex += 7
	case "A.timestamp-after-signing":
		va.Timestamp = va.Timestamp.Add(time.Millisecond)
	case "sig-malleated":
		s := new(big.Int).SetBytes(va.Signature[32:64])
		s.Sub(secpN, s)
		sig := common.CopyBytes(va.Signature)
		copy(sig[32:64], common.LeftPadBytes(s.Bytes(), 32))
		sig[64] ^= 1
		va.Signature = sig
	case "sig-v+4":
		sig := common.CopyBytes(va.Signature)
		sig[64] += 4
		va.Signature = sig
	case "sig-truncated":
		va.Signature = va.Signature[:64]
	case "sig-extended":
		va.Signature = append(common.CopyBytes(va.Signature), 0)
	}
	// canonical order like NewDuplicateVoteEvidence
	A, B := va, vb
	if strings.Compare(A.BlockID.Key(), B.BlockID.Key()) > 0 {
		A, B = B, A
	}
	if mut == "unordered" {
		A, B = B, A
	}
	p := w.powersAt[h][w.s.Addr(v)]
	e := &types.DuplicateVoteEvidence{VoteA: A, VoteB: B, TotalVotingPower: w.totalAt[h], ValidatorPower: p, Timestamp: w.times[h]}
	switch mut {
	case "powers-of-next-height":
		// the validator's power and the total as they are one height LATER (only a mutation if the set changed there)
		np, ok := w.powersAt[h+1][w.s.Addr(v)]
		if !ok || (np == p && w.totalAt[h+1] == w.totalAt[h]) {
			mut = "none"
		} else {
			e.ValidatorPower, e.TotalVotingPower = np, w.totalAt[h+1]
		}
	case "power+1":
		e.ValidatorPower++
	case "total+1":
		e.TotalVotingPower++
	case "time+1ns":
		e.Timestamp = e.Timestamp.Add(time.Nanosecond)
	case "future-height":
		e.Timestamp = w.times[w.H]
	}
	return e, mut, fmt.Sprintf("ev{h=%d val=%d r=%d type=%d a=%d b=%d mut=%s}", h, v, r, typ, ta, tb, mut)
}

func buildWorld(t *rapid.T) *world {
	n := rapid.IntRange(1, 5).Draw(t, "n")
	powers := make([]int64, n)
	for i := range powers {
		powers[i] = int64(rapid.SampledFrom([]int{15, 30}).Draw(t, "p"))
	}
	var s *netsim.Sim
	var err error
	// expiry needs BOTH bounds to be exceeded. Profile "1ns": the time bound is always exceeded, the block bound decides.
	// Profile "1000h": the time bound is never exceeded, so nothing expires however far the chain grows past the block
	// bound - committed evidence must stay refused there.
	maxAgeDur := rapid.SampledFrom([]time.Duration{time.Nanosecond, time.Nanosecond, 1000 * time.Hour}).Draw(t, "maxAgeDuration")
	expiry := func(g *genesis.Genesis) {
		smallExpiry(g)
		g.ConsensusParams.Evidence.MaxAgeDuration = maxAgeDur
	}
	ev.Guard(t, nil, func() { s, err = netsim.NewSimWith(powers, nil, nil, netsim.GenesisOpts{Mutate: expiry}) })
	if err != nil {
		t.Fatalf("harness: %v", err)
	}
	H := uint64(rapid.IntRange(2, 5).Draw(t, "H"))
	// in half of the chains the validator set changes on the way (real staking transactions in drawn blocks)
	var st *netsim.Staker
	if rapid.Bool().Draw(t, "validator-changes") {
		if st, err = netsim.NewStaker(s); err != nil {
			s.Close()
			t.Fatalf("harness: %v", err)
		}
	}
	s.Start()
	for target := uint64(2); target <= H+1; target++ {
		if st != nil && rapid.IntRange(0, 2).Draw(t, "stake") > 0 {
			d, v := rapid.IntRange(0, 1).Draw(t, "delegator"), rapid.IntRange(0, n-1).Draw(t, "to")
			units := int64(rapid.IntRange(1, 25).Draw(t, "units"))
			if st.Staked[d][v] && rapid.Bool().Draw(t, "undelegate") {
				units = 0
			}
			if err := st.Send(d, v, units); err != nil {
				s.Close()
				t.Fatalf("harness: %v", err)
			}
		}
		var ok bool
		var why string
		ev.Guard(t, nil, func() { ok, _, why = s.SyncRun(s.Correct, target, 2000) })
		if !ok {
			s.Close()
			t.Fatalf("harness: chain: %s", why)
		}
	}
	nd := s.Nodes[0]
	w := &world{maxAgeDur: maxAgeDur, s: s, nd: nd, H: H, times: map[uint64]time.Time{}, powers: map[common.Address]int64{}, commited: map[string]bool{}, comItems: map[string][]*types.DuplicateVoteEvidence{}}
	for h := uint64(1); h <= H; h++ {
		w.times[h] = nd.BOps.LoadBlockMeta(h).Header.Time
	}
	vs := nd.CS.Validators
	for _, v := range vs.Validators {
		w.powers[v.Address] = v.VotingPower
	}
	w.total = vs.TotalVotingPower()
	w.loadSets(H + 1)
	for h := uint64(1); h <= H; h++ {
		if a, b := w.powersAt[h], w.powersAt[h+1]; a != nil && b != nil {
			for addr, p := range a {
				if b[addr] != p {
					w.setsChange = true
				}
			}
		}
	}
	cst := nd.CS.VerifState()
	w.stateH, w.stateT = cst.LastBlockHeight, cst.LastBlockTime
	return w
}

// TestEvidencePool: generated evidence (genuine equivocations and every single mutation) offered through AddEvidence
// and CheckEvidence, before and after commitment and expiry; acceptance must equal the independent predicate.
func TestEvidencePool(t *testing.T) {
	rapid.Check(t, func(t *rapid.T) {
		w := buildWorld(t)
		defer w.s.Close()
		var log []string
		text := func() string { return strings.Join(log, ";") }
		log = append(log, fmt.Sprintf("chain n=%d H=%d maxAge=%d blocks and %v", len(w.s.Keys), w.H, maxAgeBlocks, w.maxAgeDur))
		ev.Class("max-age-duration:" + w.maxAgeDur.String())
		if w.setsChange {
			ev.Class("validator-set-changes-within-the-chain")
		}
		steps := rapid.IntRange(3, 14).Draw(t, "steps")
		nontrivial := false
		var history []*types.DuplicateVoteEvidence
		var forced *types.DuplicateVoteEvidence // a just-committed item to be replayed in the next step
		for i := 0; i < steps; i++ {
			act := rapid.IntRange(0, 9).Draw(t, "act")
			if forced != nil {
				act = 5
			}
			switch {
			case act <= 5 || len(history) == 0: // offer one piece of evidence through AddEvidence (the reactor path)
				e, mut, desc := w.genEvidence(t)
				if act == 5 && len(history) > 0 { // or re-offer an earlier one, possibly with an unsigned field changed
					old := history[rapid.IntRange(0, len(history)-1).Draw(t, "old")]
					if forced != nil {
						old, forced = forced, nil
					}
					cp := *old
					a, b := *old.VoteA, *old.VoteB
					cp.VoteA, cp.VoteB = &a, &b
					mut, desc = "reoffer", "reoffer{"+offence(old)[41:]+"}"
					switch rapid.IntRange(0, 3).Draw(t, "variant") {
					case 3:
						if len(a.Signature) == 65 && a.Signature[64] < 4 {
							sig := common.CopyBytes(a.Signature)
							sig[64] += 4
							a.Signature = sig
							mut, desc = "reoffer-sig-v+4", desc+"+v4"
						}
					case 1:
						a.ValidatorIndex += 3
						b.ValidatorIndex += 3
						mut, desc = "reoffer-index-altered", desc+"+index"
					case 2:
						s := new(big.Int).SetBytes(a.Signature[32:64])
						if len(a.Signature) == 65 {
							s.Sub(secpN, s)
							sig := common.CopyBytes(a.Signature)
							copy(sig[32:64], common.LeftPadBytes(s.Bytes(), 32))
							sig[64] ^= 1
							a.Signature = sig
							mut, desc = "reoffer-sig-malleated", desc+"+malleated"
						}
					}
					e = &cp
				}
				log = append(log, "add "+desc)
				if e.ValidateBasic() != nil {
					// the reactor drops evidence that fails ValidateBasic before it reaches the pool
					log = append(log, "  (fails ValidateBasic)")
					ev.Class("mutation:" + mut + ":validatebasic-rejects")
					continue
				}
				nontrivial = nontrivial || (mut != "none")
				reason := w.valid(e)
				if reason != "" {
					ev.Class("predicate-rejects:" + reason)
				}
				if reason == "already-committed" && int64(w.stateH)-int64(e.VoteA.Height) > maxAgeBlocks {
					ev.Class("replay-of-committed-evidence-outside-the-block-window-but-not-expired")
				}
				before := w.pending()
				var err error
				ev.Guard(t, text, func() { err = w.nd.EvPool.AddEvidence(e) })
				after := w.pending()
				_, was := before[string(e.Hash().Bytes())]
				_, is := after[string(e.Hash().Bytes())]
				accepted := is && !was
				history = append(history, e)
				switch {
				case accepted && reason != "":
					key := "evidence.accepted-invalid:" + reason
					if reason == "already-committed" {
						key = "evidence.replay:" + w.replayKind(e)
					}
					ev.Violation(t, key, text(), "pool accepted evidence that the property rejects (%s): %s", reason, desc)
				case !accepted && !was && reason == "":
					// a semantically identical offence may already be pending under another hash: that is fine
					dup := false
					for _, p := range before {
						if offence(p) == offence(e) {
							dup = true
						}
					}
					if !dup {
						ev.Violation(t, "evidence.rejected-valid:"+mut, text(), "pool refused genuine evidence %s: %v", desc, err)
					}
				}
				ev.Class("mutation:" + mut)
				if accepted {
					ev.Class("accepted")
				}
			case act <= 7: // a block commits a drawn subset of the pending evidence; the chain state advances
				pend := w.pending()
				var list types.EvidenceList
				var keys []string
				for k := range pend {
					keys = append(keys, k)
				}
				sort.Strings(keys)
				for _, k := range keys {
					if rapid.Bool().Draw(t, "commit") {
						list = append(list, pend[k])
						w.commited[offence(pend[k])] = true
						w.comItems[offence(pend[k])] = append(w.comItems[offence(pend[k])], pend[k])
					}
				}
				st := w.nd.EvPool.State()
				st.LastBlockHeight++
				st.LastBlockTime = st.LastBlockTime.Add(time.Second)
				log = append(log, fmt.Sprintf("commit %d items -> state height %d", len(list), st.LastBlockHeight))
				ev.Guard(t, text, func() { w.nd.EvPool.Update(st, list) })
				w.stateH, w.stateT = st.LastBlockHeight, st.LastBlockTime
				// sometimes the chain grows by a few more (empty) blocks, so that earlier heights leave the block window
				for extra := rapid.SampledFrom([]int{0, 0, 1, 4, 4}).Draw(t, "emptyblocks"); extra > 0; extra-- {
					st = w.nd.EvPool.State()
					st.LastBlockHeight++
					st.LastBlockTime = st.LastBlockTime.Add(time.Second)
					log = append(log, fmt.Sprintf("empty block -> state height %d", st.LastBlockHeight))
					ev.Guard(t, text, func() { w.nd.EvPool.Update(st, nil) })
					w.stateH, w.stateT = st.LastBlockHeight, st.LastBlockTime
				}
				if len(list) > 0 && rapid.Bool().Draw(t, "replay-next") {
					forced = list[rapid.IntRange(0, len(list)-1).Draw(t, "replay-which")].(*types.DuplicateVoteEvidence)
				}
				// committed items are gone from pending; expired ones too; everything else is still offered
				after := w.pending()
				for _, e := range list {
					if _, still := after[string(e.Hash().Bytes())]; still {
						ev.Violation(t, "evidence.pending-after-commit", text(), "committed evidence is still returned by PendingEvidence")
					}
				}
				for k, e := range pend {
					_, still := after[k]
					committed := w.commited[offence(e)]
					expired := w.valid(e) == "expired"
					if !still && !committed && !expired {
						ev.Violation(t, "evidence.pending-lost", text(), "valid uncommitted unexpired evidence disappeared from PendingEvidence")
					}
				}
				if len(list) > 0 {
					nontrivial = true
					ev.Class("commit-step")
				}
			default: // a proposed block's evidence list through CheckEvidence
				k := rapid.IntRange(1, 3).Draw(t, "k")
				var list types.EvidenceList
				allValid := true
				descs := ""
				seen := map[string]bool{}
				hashes := map[string]bool{}
				repeatedOtherBytes, otherInvalid, replayed := false, false, false
				for j := 0; j < k; j++ {
					var e *types.DuplicateVoteEvidence
					if j > 0 && rapid.IntRange(0, 3).Draw(t, "dup") == 0 {
						e = list[0].(*types.DuplicateVoteEvidence)
						descs += " dup"
					} else if len(history) > 0 && rapid.IntRange(0, 2).Draw(t, "hist") == 0 {
						// an earlier item (possibly pending right now) with one UNSIGNED evidence field changed: a block
						// carrying it must be refused whatever the pool already holds
						old := history[rapid.IntRange(0, len(history)-1).Draw(t, "hold")]
						cp := *old
						a, b := *old.VoteA, *old.VoteB
						cp.VoteA, cp.VoteB = &a, &b
						switch rapid.IntRange(0, 3).Draw(t, "hmut") {
						case 0:
							cp.ValidatorPower++
							descs += " earlier+power"
						case 1:
							cp.TotalVotingPower++
							descs += " earlier+total"
						case 2:
							cp.Timestamp = cp.Timestamp.Add(time.Nanosecond)
							descs += " earlier+time"
						default:
							descs += " earlier"
						}
						e = &cp
					} else {
						var d string
						e, _, d = w.genEvidence(t)
						descs += " " + d
					}
					if e.ValidateBasic() != nil {
						allValid = false // the block would fail Block.ValidateBasic before CheckEvidence is reached
					}
					if !w.pendingFull()[fullKey(e)] && w.valid(e) != "" {
						allValid = false
						if w.valid(e) == "already-committed" {
							replayed = true
							if int64(w.stateH)-int64(e.VoteA.Height) > maxAgeBlocks {
								ev.Class("replay-of-committed-evidence-outside-the-block-window-but-not-expired")
							}
						} else {
							otherInvalid = true
						}
					}
					if seen[offence(e)] {
						allValid = false
						if !hashes[string(e.Hash().Bytes())] {
							repeatedOtherBytes = true // the same offence again in other bytes (unsigned field / signature encoding)
						} else {
							otherInvalid = true
						}
					}
					hashes[string(e.Hash().Bytes())] = true
					seen[offence(e)] = true
					list = append(list, e)
				}
				basicOK := true
				for _, e := range list {
					if e.ValidateBasic() != nil {
						basicOK = false
					}
				}
				log = append(log, "check"+descs)
				if !basicOK {
					continue
				}
				var err error
				ev.Guard(t, text, func() { err = w.nd.EvPool.CheckEvidence(list) })
				if err == nil && !allValid && replayed && !otherInvalid && !repeatedOtherBytes {
					ev.Violation(t, "evidence.replay:block-list", text(), "CheckEvidence accepted an offence that is already committed, offered again in other bytes:%s", descs)
				} else if err == nil && !allValid && repeatedOtherBytes && !otherInvalid {
					ev.Violation(t, "evidence.block-list-repeats-offence", text(), "CheckEvidence accepted a list that carries the same offence twice in different bytes:%s", descs)
				} else if err == nil && !allValid {
					ev.Violation(t, "evidence.block-list-accepted-invalid", text(), "CheckEvidence accepted a list with an invalid, committed or repeated item:%s", descs)
				}
				if err != nil && allValid {
					ev.Violation(t, "evidence.block-list-rejected-valid", text(), "CheckEvidence refused a list of valid distinct items:%s: %v", descs, err)
				}
				for _, e := range list {
					history = append(history, e.(*types.DuplicateVoteEvidence))
				}
				ev.Class("checkevidence")
			}
		}
		ev.Case(nontrivial, text(), "pool")
		if nontrivial && ev.WantSample("pool") {
			ev.Sample("pool", log)
		}
	})
}

var _ = cstate.LatestBlockState{}

// TestKnown reproduces the listed known findings of the pool deterministically (and turns into a regression test for
// each of them once it is fixed).
func TestKnown(t *testing.T) {
	s, err := netsim.NewSimWith([]int64{15, 15, 15, 15}, nil, nil, netsim.GenesisOpts{})
	if err != nil {
		t.Fatalf("harness: %v", err)
	}
	defer s.Close()
	s.Start()
	if ok, _, why := s.SyncRun(s.Correct, 4, 2000); !ok {
		t.Fatalf("harness: %s", why)
	}
	nd := s.Nodes[0]
	w := &world{s: s, nd: nd, H: 3, times: map[uint64]time.Time{}, powers: map[common.Address]int64{}, commited: map[string]bool{}, comItems: map[string][]*types.DuplicateVoteEvidence{}}
	for h := uint64(1); h <= 3; h++ {
		w.times[h] = nd.BOps.LoadBlockMeta(h).Header.Time
	}
	for _, v := range nd.CS.Validators.Validators {
		w.powers[v.Address] = v.VotingPower
	}
	w.total = nd.CS.Validators.TotalVotingPower()
	w.loadSets(4)
	mk := func(val int, round uint32) *types.DuplicateVoteEvidence {
		addr := s.Addr(val)
		va := &types.Vote{ValidatorAddress: addr, ValidatorIndex: uint32(val), Height: 2, Round: round, Timestamp: w.times[2].Add(time.Second), Type: kproto.PrevoteType, BlockID: idOf(1, 1)}
		vb := &types.Vote{ValidatorAddress: addr, ValidatorIndex: uint32(val), Height: 2, Round: round, Timestamp: w.times[2].Add(time.Second), Type: kproto.PrevoteType, BlockID: idOf(2, 1)}
		w.sign(val, va)
		w.sign(val, vb)
		return &types.DuplicateVoteEvidence{VoteA: va, VoteB: vb, TotalVotingPower: w.total, ValidatorPower: w.powers[addr], Timestamp: w.times[2]}
	}
	variant := func(e *types.DuplicateVoteEvidence, kind string) *types.DuplicateVoteEvidence {
		cp := *e
		a, b := *e.VoteA, *e.VoteB
		cp.VoteA, cp.VoteB = &a, &b
		switch kind {
		case "index-altered":
			a.ValidatorIndex += 3
			b.ValidatorIndex += 3
		case "sig-malleated":
			sv := new(big.Int).SetBytes(a.Signature[32:64])
			sv.Sub(secpN, sv)
			sig := common.CopyBytes(a.Signature)
			copy(sig[32:64], common.LeftPadBytes(sv.Bytes(), 32))
			sig[64] ^= 1
			a.Signature = sig
		case "sig-v+4", "both":
			sig := common.CopyBytes(a.Signature)
			sig[64] += 4
			a.Signature = sig
			if kind == "both" {
				a.ValidatorIndex += 3
				b.ValidatorIndex += 3
			}
		}
		return &cp
	}
	isPending := func(e *types.DuplicateVoteEvidence) bool {
		_, ok := w.pending()[string(e.Hash().Bytes())]
		return ok
	}
	judge := func(key string, reproduced bool, desc string) {
		ev.Case(true, desc, "known-reproducer")
		if ev.Known(key) {
			ev.KnownReproduced(key, reproduced)
		} else if reproduced {
			ev.Violation(t, key, desc, "%s", desc)
		}
	}
	st := nd.EvPool.State()
	for i, kind := range []string{"index-altered", "sig-malleated", "sig-v+4", "both"} {
		e := mk(i, 1)
		if err := nd.EvPool.AddEvidence(e); err != nil || !isPending(e) {
			ev.Violation(t, "evidence.rejected-valid:none", "directed", "genuine evidence refused: %v", err)
			continue
		}
		st.LastBlockHeight++
		st.LastBlockTime = st.LastBlockTime.Add(time.Second)
		nd.EvPool.Update(st, types.EvidenceList{e})
		v := variant(e, kind)
		nd.EvPool.AddEvidence(v)
		key := "evidence.replay:sig-reencoded"
		if kind == "index-altered" {
			key = "evidence.replay:index-altered"
		} else if kind == "both" {
			key = "evidence.replay:index-altered+sig-reencoded"
		}
		judge(key, isPending(v), "evidence committed, then the same two votes offered again ("+kind+") and accepted as new")
	}
	// inside one block list
	e := mk(2, 2)
	errList := nd.EvPool.CheckEvidence(types.EvidenceList{e, variant(e, "index-altered")})
	judge("evidence.block-list-repeats-offence", errList == nil, "one block list carrying the same two votes twice, second copy with ValidatorIndex altered, passes CheckEvidence")
	// committed, then offered again in a block list
	st.LastBlockHeight++
	st.LastBlockTime = st.LastBlockTime.Add(time.Second)
	nd.EvPool.Update(st, types.EvidenceList{e})
	errList = nd.EvPool.CheckEvidence(types.EvidenceList{variant(e, "sig-v+4")})
	judge("evidence.replay:block-list", errList == nil, "evidence committed, then the same two votes in other bytes inside a proposed block pass CheckEvidence")
}
