package c11

import (
	"bytes"
	"fmt"
	"math/big"
	"strings"
	"testing"

	gcommon "github.com/ethereum/go-ethereum/common"
	gtypes "github.com/ethereum/go-ethereum/core/types"
	grlp "github.com/ethereum/go-ethereum/rlp"
	"pgregory.net/rapid"

	"github.com/kardiachain/go-kardia/lib/common"
	"github.com/kardiachain/go-kardia/lib/crypto"
	krlp "github.com/kardiachain/go-kardia/lib/rlp"
	"github.com/kardiachain/go-kardia/types"

	"verifharness/internal/ev"
)

// ---------------------------------------------------------------- transaction fields and signers

type txF struct {
	nonce uint64
	price *big.Int
	gas   uint64
	to    *common.Address
	value *big.Int
	data  []byte
}

func (f txF) kai() *types.Transaction {
	if f.to == nil {
		return types.NewContractCreation(f.nonce, f.value, f.gas, f.price, f.data)
	}
	return types.NewTransaction(f.nonce, *f.to, f.value, f.gas, f.price, f.data)
}

func (f txF) geth() *gtypes.Transaction {
	if f.to == nil {
		return gtypes.NewContractCreation(f.nonce, f.value, f.gas, f.price, f.data)
	}
	return gtypes.NewTransaction(f.nonce, gcommon.BytesToAddress(f.to[:]), f.value, f.gas, f.price, f.data)
}

func (f txF) text() string {
	to := "create"
	if f.to != nil {
		to = fmt.Sprintf("%x", f.to[:])
	}
	d := fmt.Sprintf("%x", f.data)
	if len(d) > 80 {
		d = fmt.Sprintf("%s…(%dB,%x)", d[:40], len(f.data), crypto.Keccak256(f.data)[:6])
	}
	return fmt.Sprintf("tx{n=%d p=%s g=%d to=%s v=%s d=%s}", f.nonce, f.price, f.gas, to, f.value, d)
}

func (f txF) clone() txF {
	g := f
	g.price, g.value = new(big.Int).Set(f.price), new(big.Int).Set(f.value)
	g.data = append([]byte{}, f.data...)
	if f.to != nil {
		a := *f.to
		g.to = &a
	}
	return g
}

func txDiff(a, b txF) []string {
	var d []string
	add := func(c bool, n string) {
		if c {
			d = append(d, n)
		}
	}
	add(a.nonce != b.nonce, "nonce")
	add(a.price.Cmp(b.price) != 0, "price")
	add(a.gas != b.gas, "gas")
	add((a.to == nil) != (b.to == nil) || (a.to != nil && *a.to != *b.to), "to")
	add(a.value.Cmp(b.value) != 0, "value")
	add(!bytes.Equal(a.data, b.data), "payload")
	return d
}

const (
	sgHomestead = iota
	sgFrontier
	sgChainID
)

type sgn struct {
	kind int
	c    *big.Int
}

func (s sgn) kai() types.Signer {
	switch s.kind {
	case sgHomestead:
		return types.HomesteadSigner{}
	case sgFrontier:
		return types.FrontierSigner{}
	}
	return types.NewChainIDSigner(new(big.Int).Set(s.c))
}

func (s sgn) geth() gtypes.Signer {
	switch s.kind {
	case sgHomestead:
		return gtypes.HomesteadSigner{}
	case sgFrontier:
		return gtypes.FrontierSigner{}
	}
	return gtypes.NewEIP155Signer(new(big.Int).Set(s.c))
}

func (s sgn) text() string {
	switch s.kind {
	case sgHomestead:
		return "homestead"
	case sgFrontier:
		return "frontier"
	}
	return "chainid(" + s.c.String() + ")"
}

func (s sgn) class() string {
	switch s.kind {
	case sgHomestead:
		return "signer:homestead"
	case sgFrontier:
		return "signer:frontier"
	}
	if s.c.BitLen() > 63 {
		return "signer:chainid-big"
	}
	return "signer:chainid"
}

// refHash is the hash the sender signs according to go-ethereum (homestead: 6 fields; EIP-155: 9 fields).
func (s sgn) refHash(f txF) []byte { return s.geth().Hash(f.geth()).Bytes() }

// refV is the V value a transaction must carry for recovery id b under this signer.
func (s sgn) refV(b byte) *big.Int {
	if s.kind == sgChainID {
		v := new(big.Int).Lsh(s.c, 1)
		return v.Add(v, big.NewInt(35+int64(b)))
	}
	return big.NewInt(27 + int64(b))
}

// refTxSender decides, independently of go-kardia, whether a transaction with fields f carrying (V, R, S) has a
// sender under signer s, and which: V must be 27/28 (homestead hash; also accepted by the chain-id signer, as its
// documentation says) or 35+2c / 36+2c (EIP-155 hash) — anything else is rejected; 0 < r < N; 0 < s <= N/2.
func refTxSender(s sgn, f txF, V, R, S *big.Int) (common.Address, bool) {
	h := sgn{kind: sgHomestead}.refHash(f)
	recid := new(big.Int).Sub(V, big.NewInt(27))
	if s.kind == sgChainID && !(V.Cmp(big.NewInt(27)) == 0 || V.Cmp(big.NewInt(28)) == 0) {
		h = s.refHash(f)
		recid = new(big.Int).Sub(V, s.refV(0))
	}
	return refRecover(h, R, S, recid)
}

var chainIDSamples = []string{"1", "2", "3", "24", "69", "127", "128", "242", "2147483647", "4294967296", "9223372036854775790", "9223372036854775807", "9223372036854775808", "18446744073709551615", "18446744073709551623", "1267650600228229401496703205377"}

func genChainID(t *rapid.T, label string) *big.Int {
	if pick(t, label+".kind", 5) == 0 {
		return new(big.Int).SetUint64(rapid.Uint64Range(1, 1<<63).Draw(t, label+".any"))
	}
	c, _ := new(big.Int).SetString(rapid.SampledFrom(chainIDSamples).Draw(t, label), 10)
	return c
}

// genSigner draws one of the three signer kinds of this port. Chain id 0 is not drawn (not a valid EIP-155 chain
// id; NewChainIDSigner(0) signs the 9-field hash but emits an unprotected V, as go-ethereum's EIP155Signer does).
func genSigner(t *rapid.T, label string) sgn {
	switch pick(t, label+".kind", 10) {
	case 0, 1, 2:
		return sgn{kind: sgHomestead}
	case 3:
		return sgn{kind: sgFrontier}
	}
	return sgn{kind: sgChainID, c: genChainID(t, label+".c")}
}

var bigSamples = []string{"0", "1", "2", "127", "128", "255", "256", "1000000000", "18446744073709551615", "18446744073709551616", "340282366920938463463374607431768211456", "115792089237316195423570985008687907853269984665640564039457584007913129639935"}

func genBig(t *rapid.T, label string) *big.Int {
	if pick(t, label+".kind", 3) == 0 {
		return new(big.Int).SetBytes(rapid.SliceOfN(rapid.Byte(), 0, 32).Draw(t, label+".rnd"))
	}
	b, _ := new(big.Int).SetString(rapid.SampledFrom(bigSamples).Draw(t, label), 10)
	return b
}

func genU64(t *rapid.T, label string) uint64 {
	switch pick(t, label+".kind", 4) {
	case 0:
		return rapid.Uint64().Draw(t, label+".any")
	case 1:
		return rapid.SampledFrom([]uint64{0, 1, 127, 128, 255, 256, 21000, 1<<32 - 1, 1 << 32, 1<<63 - 1, 1<<64 - 1}).Draw(t, label+".edge")
	}
	return uint64(rapid.IntRange(0, 100000).Draw(t, label))
}

func genAddr(t *rapid.T, label string) common.Address {
	switch pick(t, label+".kind", 6) {
	case 0:
		return common.Address{}
	case 1:
		return common.Address{19: byte(1 + pick(t, label+".lo", 9))}
	}
	var a common.Address
	copy(a[:], rapid.SliceOfN(rapid.Byte(), 20, 20).Draw(t, label))
	return a
}

func genTxF(t *rapid.T, label string, maxData int) (txF, []string) {
	f := txF{nonce: genU64(t, label+".nonce"), price: genBig(t, label+".price"), gas: genU64(t, label+".gas"), value: genBig(t, label+".value")}
	var classes []string
	if pick(t, label+".create", 4) == 0 {
		classes = append(classes, "tx:create")
	} else {
		a := genAddr(t, label+".to")
		f.to = &a
	}
	switch pick(t, label+".data.kind", 6) {
	case 0:
		f.data = nil
		classes = append(classes, "tx:empty-payload")
	case 1:
		f.data = []byte{byte(pick(t, label+".data.b", 256))}
	case 2:
		f.data = rapid.SliceOfN(rapid.Byte(), 55, maxData).Draw(t, label+".data.long")
		classes = append(classes, "tx:long-payload")
	default:
		f.data = rapid.SliceOfN(rapid.Byte(), 1, 54).Draw(t, label+".data")
	}
	if f.data == nil {
		f.data = []byte{}
	}
	return f, classes
}

func mutBig(t *rapid.T, label string, old *big.Int) (*big.Int, string) {
	for {
		n := new(big.Int)
		var how string
		switch pick(t, label+".how", 4) {
		case 0:
			n.Add(old, big.NewInt(1))
			how = "+1"
		case 1:
			if old.Sign() == 0 {
				continue
			}
			n.Sub(old, big.NewInt(1))
			how = "-1"
		case 2:
			b := pick(t, label+".bit", 256)
			n.Xor(old, new(big.Int).Lsh(big.NewInt(1), uint(b)))
			how = fmt.Sprintf("bit%d", b)
		default:
			n.SetBytes(rapid.SliceOfN(rapid.Byte(), 0, 32).Draw(t, label+".rnd"))
			how = "rnd"
		}
		if n.Cmp(old) != 0 {
			return n, how
		}
	}
}

func mutData(t *rapid.T, label string, old []byte) ([]byte, string) {
	for {
		n := append([]byte{}, old...)
		var how string
		switch pick(t, label+".how", 6) {
		case 0:
			n, how = append(n, byte(pick(t, label+".app", 256))), "append"
		case 1:
			n, how = append([]byte{0}, n...), "prepend0"
		case 2:
			if len(n) == 0 {
				continue
			}
			n, how = n[:len(n)-1], "droplast"
		case 3:
			if len(n) == 0 {
				continue
			}
			n, how = []byte{}, "clear"
		default:
			if len(n) == 0 {
				continue
			}
			b := pick(t, label+".bit", 8*len(n))
			n[b/8] ^= 1 << uint(b%8)
			how = fmt.Sprintf("bit%d", b)
		}
		if !bytes.Equal(n, old) {
			return n, how
		}
	}
}

func mutTo(t *rapid.T, label string, old *common.Address) (*common.Address, string) {
	if old == nil {
		a := genAddr(t, label+".new")
		return &a, "create->call"
	}
	switch pick(t, label+".how", 4) {
	case 0:
		return nil, "call->create"
	case 1:
		if *old != (common.Address{}) {
			return &common.Address{}, "zero"
		}
	}
	a, how := mutAddr(t, label, *old)
	return &a, how
}

// kaiSender runs types.Sender on tx under signer s.
func kaiSender(s types.Signer, tx *types.Transaction) (common.Address, error) {
	return types.Sender(s, tx)
}

// ---------------------------------------------------------------- sign -> recover, single-field mutations, chain ids

func TestTxMatrix(t *testing.T) {
	rapid.Check(t, func(t *rapid.T) {
		k := genKey(t, "key")
		s := genSigner(t, "signer")
		f, classes := genTxF(t, "tx", ev.Scale("MAXDATA", 600))
		classes = append(classes, s.class())
		var log strings.Builder
		caseText := func() string { return log.String() }
		fmt.Fprintf(&log, "key#%d %s %s", k.idx, s.text(), f.text())
		ks := s.kai()
		utx := f.kai()

		// the signed hash is the one EIP-155 / homestead define (independent statement of "binds every field")
		var h common.Hash
		ev.Guard(t, caseText, func() { h = ks.Hash(utx) })
		if ref := s.refHash(f); !bytes.Equal(h[:], ref) {
			ev.Violation(t, keySigHash, caseText(), "%T.Hash = %x, go-ethereum's signer hashes the same fields to %x", ks, h[:], ref)
		}

		// sign -> recover, through types.SignTx and through crypto.Sign + WithSignature
		var tx1, tx2 *types.Transaction
		var from1, from2 common.Address
		var err1, err2 error
		var sig []byte
		ev.Guard(t, caseText, func() {
			if tx1, err1 = types.SignTx(ks, utx, k.k); err1 == nil {
				from1, err1 = kaiSender(ks, tx1)
			}
			if sig, err2 = crypto.Sign(h[:], k.k); err2 == nil {
				if tx2, err2 = utx.WithSignature(ks, sig); err2 == nil {
					from2, err2 = kaiSender(ks, tx2)
				}
			}
		})
		if err2 != nil || from2 != k.addr {
			ev.Violation(t, keyRoundTrip, caseText(), "crypto.Sign(signer.Hash) + WithSignature then Sender: %x err %v, signer's address %x", from2[:], err2, k.addr[:])
		}
		if err1 != nil || from1 != k.addr {
			ev.Violation(t, keySignTx, caseText(), "types.SignTx then Sender: %x err %v, signer's address %x", from1[:], err1, k.addr[:])
		}
		// … and an independent implementation recovers the same sender from the encoded transaction
		{
			var enc []byte
			var err error
			ev.Guard(t, caseText, func() { enc, err = krlp.EncodeToBytes(tx1) })
			var gtx gtypes.Transaction
			if err == nil {
				err = grlp.DecodeBytes(enc, &gtx)
			}
			var gfrom gcommon.Address
			if err == nil {
				gfrom, err = gtypes.Sender(s.geth(), &gtx)
			}
			if err != nil || !bytes.Equal(gfrom[:], k.addr[:]) {
				ev.Violation(t, "tx.signed-tx-not-recoverable-by-reference", caseText(), "go-ethereum recovers %x (err %v) from the signed transaction %x, signer's address %x", gfrom[:], err, enc, k.addr[:])
			}
		}

		// a signature made for f must not make the same sender appear on a transaction that differs in one field
		sameSender := func(g txF, sg types.Signer) (bool, error) {
			var from common.Address
			var err error
			ev.Guard(t, caseText, func() {
				var mtx *types.Transaction
				if mtx, err = g.kai().WithSignature(sg, sig); err == nil {
					from, err = kaiSender(sg, mtx)
				}
			})
			return err == nil && from == k.addr, err
		}
		type cell struct {
			name string
			mut  func(g *txF) string
		}
		cells := []cell{
			{"nonce", func(g *txF) (how string) { g.nonce, how = mutU64(t, "m.nonce", g.nonce, 64); return }},
			{"price", func(g *txF) (how string) { g.price, how = mutBig(t, "m.price", g.price); return }},
			{"gas", func(g *txF) (how string) { g.gas, how = mutU64(t, "m.gas", g.gas, 64); return }},
			{"to", func(g *txF) (how string) { g.to, how = mutTo(t, "m.to", g.to); return }},
			{"value", func(g *txF) (how string) { g.value, how = mutBig(t, "m.value", g.value); return }},
			{"payload", func(g *txF) (how string) { g.data, how = mutData(t, "m.data", g.data); return }},
		}
		for _, c := range cells {
			g := f.clone()
			how := c.mut(&g)
			if d := txDiff(f, g); len(d) != 1 || d[0] != c.name {
				t.Fatalf("harness: mutation %s changed %v", c.name, d)
			}
			fmt.Fprintf(&log, " | %s:%s", c.name, how)
			if same, _ := sameSender(g, ks); same {
				ev.Violation(t, "tx.signbytes."+c.name+"-not-bound", caseText(), "the signature of the base transaction recovers the same sender %x on %s (%s %s)", k.addr[:], g.text(), c.name, how)
			}
		}

		// ---- chain id / signer kind
		switch s.kind {
		case sgChainID:
			other := sgn{kind: sgChainID}
			var how string
			for {
				switch pick(t, "m.chain.how", 4) {
				case 0:
					other.c, how = new(big.Int).Add(s.c, big.NewInt(1)), "+1"
				case 1:
					other.c, how = new(big.Int).Sub(s.c, big.NewInt(1)), "-1"
				case 2: // the chain id whose V values overlap: 2c'+36 == 2c+35 has no solution; nearest is c'=c±1; try doubling/halving
					other.c, how = new(big.Int).Lsh(s.c, 1), "*2"
				default:
					other.c, how = genChainID(t, "m.chain.other"), "other"
				}
				if other.c.Sign() > 0 && other.c.Cmp(s.c) != 0 {
					break
				}
			}
			fmt.Fprintf(&log, " | chainid:%s=%s", how, other.c)
			ko := other.kai()
			// (a) the signed transaction (sender already cached for its own signer) presented on another chain,
			//     and to the signers without a chain id: must be rejected
			for _, x := range []struct {
				sg   types.Signer
				what string
			}{{ko, other.text()}, {types.HomesteadSigner{}, "homestead"}, {types.FrontierSigner{}, "frontier"}} {
				for _, tx := range []*types.Transaction{tx1, tx2} {
					var from common.Address
					var err error
					ev.Guard(t, caseText, func() { from, err = kaiSender(x.sg, tx) })
					if err == nil {
						key := keyOtherChain
						if from == k.addr {
							key = "tx.signbytes.chainid-not-bound"
						}
						ev.Violation(t, key, caseText(), "a transaction signed for %s is accepted by the %s signer with sender %x (signer's address %x)", s.text(), x.what, from[:], k.addr[:])
					}
				}
			}
			// (b) the same signature re-encoded for the other chain (V computed by the other signer)
			if same, _ := sameSender(f, ko); same {
				ev.Violation(t, "tx.signbytes.chainid-not-bound", caseText(), "the signature made for %s recovers the same sender when attached with the %s signer", s.text(), other.text())
			}
			if same, _ := sameSender(f, types.HomesteadSigner{}); same {
				ev.Violation(t, "tx.signbytes.chainid-not-bound", caseText(), "the signature made for %s recovers the same sender when attached with the homestead signer", s.text())
			}
			// (c) the signer of the right chain still accepts it after the foreign signers were tried (cache)
			var from common.Address
			var err error
			ev.Guard(t, caseText, func() { from, err = kaiSender(ks, tx1) })
			if err != nil || from != k.addr {
				ev.Violation(t, keyCacheConfuse, caseText(), "Sender with the signing signer after foreign signers were tried: %x err %v", from[:], err)
			}
		default:
			// an unprotected signature: the chain-id signer accepts it (documented) with the same sender; attaching
			// it with a chain-id signer (protected V, 9-field hash) must not give the same sender
			c := sgn{kind: sgChainID, c: genChainID(t, "m.chain.c")}
			fmt.Fprintf(&log, " | tochain:%s", c.c)
			var from common.Address
			var err error
			ev.Guard(t, caseText, func() { from, err = kaiSender(c.kai(), tx1) })
			if err != nil || from != k.addr {
				ev.Violation(t, keyUnprotected, caseText(), "ChainIDSigner(%s).Sender on an unprotected transaction: %x err %v, signer's address %x", c.c, from[:], err, k.addr[:])
			}
			if same, _ := sameSender(f, c.kai()); same {
				ev.Violation(t, "tx.signbytes.chainid-not-bound", caseText(), "the unprotected signature recovers the same sender when attached with the %s signer", c.text())
			}
		}

		ev.Case(true, caseText(), classes...)
		if ev.WantSample(s.class()) {
			ev.Sample(s.class(), caseText())
		}
	})
}

// ---------------------------------------------------------------- arbitrary signature values

type rawTx struct {
	Nonce uint64
	Price *big.Int
	Gas   uint64
	To    *gcommon.Address `rlp:"nil"`
	Value *big.Int
	Data  []byte
	V     *big.Int
	R     *big.Int
	S     *big.Int
}

// decodeRaw builds the transaction a peer would send: RLP (go-ethereum's encoder) of the fields with arbitrary
// V, R, S, decoded by go-kardia.
func decodeRaw(f txF, V, R, S *big.Int) (*types.Transaction, error) {
	r := rawTx{Nonce: f.nonce, Price: f.price, Gas: f.gas, Value: f.value, Data: f.data, V: V, R: R, S: S}
	if f.to != nil {
		a := gcommon.BytesToAddress(f.to[:])
		r.To = &a
	}
	enc, err := grlp.EncodeToBytes(&r)
	if err != nil {
		return nil, err
	}
	tx := new(types.Transaction)
	if err := krlp.DecodeBytes(enc, tx); err != nil {
		return nil, err
	}
	return tx, nil
}

// genSigString draws a 65-byte string to be offered as a signature; gen is the genuine signature.
func genSigString(t *rapid.T, label string, gen []byte, s sgn) ([]byte, string) {
	rnd := func(l string, n int) *big.Int {
		return new(big.Int).SetBytes(rapid.SliceOfN(rapid.Byte(), n, n).Draw(t, label+"."+l))
	}
	inRange := func(l string, max *big.Int) *big.Int { // uniform-ish in [1, max]
		x := new(big.Int).Mod(rnd(l, 40), max)
		return x.Add(x, big.NewInt(1))
	}
	v01 := func() byte { return byte(pick(t, label+".v", 2)) }
	gr := new(big.Int).SetBytes(gen[:32])
	gs := new(big.Int).SetBytes(gen[32:64])
	one := big.NewInt(1)
	switch pick(t, label+".kind", 20) {
	case 0:
		return append([]byte{}, gen...), "genuine"
	case 1, 2:
		return malleate(gen), "malleated"
	case 3:
		return sig65(gr, new(big.Int).Sub(curveN, gs), gen[64]), "high-s-same-v"
	case 4, 5: // well-formed values that nobody signed: recoverable about half of the time
		return sig65(inRange("r", new(big.Int).Sub(curveN, one)), inRange("s", curveHalfN), v01()), "random-wellformed"
	case 6: // s in (N/2, N)
		hs := new(big.Int).Add(curveHalfN, inRange("s", new(big.Int).Sub(new(big.Int).Sub(curveN, curveHalfN), one)))
		return sig65(inRange("r", new(big.Int).Sub(curveN, one)), hs, v01()), "random-high-s"
	case 7:
		return sig65(gr, curveHalfN, v01()), "s=N/2"
	case 8:
		return sig65(gr, new(big.Int).Add(curveHalfN, one), v01()), "s=N/2+1"
	case 9:
		return sig65(big0, gs, v01()), "r=0"
	case 10:
		return sig65(gr, big0, v01()), "s=0"
	case 11:
		return sig65(curveN, gs, v01()), "r=N"
	case 12:
		return sig65(gr, curveN, v01()), "s=N"
	case 13: // r in (N, 2^256)
		max := new(big.Int).Sub(new(big.Int).Lsh(one, 256), curveN)
		return sig65(new(big.Int).Add(curveN, new(big.Int).Mod(rnd("off", 40), max)), gs, v01()), "r>=N"
	case 14:
		b := append([]byte{}, gen...)
		i := pick(t, label+".bit", 512)
		b[i/8] ^= 1 << uint(i%8)
		return b, "bitflip"
	case 15:
		b := append([]byte{}, gen...)
		b[64] ^= 1
		return b, "v^1"
	case 16:
		b := append([]byte{}, gen...)
		bad := []byte{2, 3, 4, 5, 26, 27, 28, 221, 228, 229, 255}
		if s.kind == sgChainID && s.c.BitLen() < 8 { // the byte for which sig[64]+35 wraps around to 27/28 - 2c
			w := 248 - 2*int(s.c.Int64())
			if w > 1 {
				bad = append(bad, byte(w), byte(w+1))
			}
		}
		b[64] = rapid.SampledFrom(bad).Draw(t, label+".badv")
		return b, "v-bad"
	case 17:
		return rapid.SliceOfN(rapid.Byte(), 65, 65).Draw(t, label+".rnd"), "random-bytes"
	case 18:
		return make([]byte, 65), "zero"
	default:
		b := make([]byte, 65)
		for i := range b {
			b[i] = 0xff
		}
		return b, "ff"
	}
}

func TestTxSigValues(t *testing.T) {
	rapid.Check(t, func(t *rapid.T) {
		k := genKey(t, "key")
		s := genSigner(t, "signer")
		f, classes := genTxF(t, "tx", 120)
		classes = append(classes, s.class())
		var log strings.Builder
		caseText := func() string { return log.String() }
		fmt.Fprintf(&log, "key#%d %s %s", k.idx, s.text(), f.text())
		ks := s.kai()
		utx := f.kai()
		refH := s.refHash(f)
		var h common.Hash
		var gen []byte
		var err error
		ev.Guard(t, caseText, func() {
			h = ks.Hash(utx)
			gen, err = crypto.Sign(refH, k.k)
		})
		if !bytes.Equal(h[:], refH) {
			ev.Violation(t, keySigHash, caseText(), "%T.Hash = %x, go-ethereum's signer hashes the same fields to %x", ks, h[:], refH)
		}
		if err != nil || len(gen) != 65 || gen[64] > 1 {
			ev.Violation(t, keyRoundTrip, caseText(), "crypto.Sign: sig %x err %v", gen, err)
		}

		// judge compares go-kardia's decision on tx with the reference decision for (V, R, S).
		judge := func(what string, tx *types.Transaction, V, R, S *big.Int) {
			var from common.Address
			var err error
			ev.Guard(t, caseText, func() { from, err = kaiSender(ks, tx) })
			want, ok := refTxSender(s, f, V, R, S)
			switch {
			case err == nil && !ok:
				key := keyMalformed
				if S.Cmp(curveHalfN) > 0 && S.Cmp(curveN) < 0 {
					key = keyHighS
				}
				ev.Violation(t, key, caseText(), "%s: Sender accepts V=%s R=%x S=%x (sender %x); these values are not a well-formed low-s signature for this signer", what, V, R, S, from[:])
			case err != nil && ok:
				ev.Violation(t, keyValidReject, caseText(), "%s: Sender rejects (%v) V=%s R=%x S=%x, a well-formed low-s signature recovering to %x", what, err, V, R, S, want[:])
			case err == nil && from != want:
				ev.Violation(t, keySenderDiffer, caseText(), "%s: Sender returns %x for V=%s R=%x S=%x, libsecp256k1 over go-ethereum's hash recovers %x", what, from[:], V, R, S, want[:])
			}
			if err == nil {
				classes = append(classes, "accepted")
			} else {
				classes = append(classes, "rejected")
			}
		}

		nontrivial := false
		n := rapid.IntRange(2, 4).Draw(t, "n")
		for i := 0; i < n; i++ {
			str, class := genSigString(t, fmt.Sprintf("s%d", i), gen, s)
			R, S := new(big.Int).SetBytes(str[:32]), new(big.Int).SetBytes(str[32:64])
			if !bytes.Equal(str, gen) {
				nontrivial = true
			}
			if pick(t, fmt.Sprintf("s%d.path", i), 5) < 3 {
				// ---- offered through WithSignature
				fmt.Fprintf(&log, " | with:%s=%x", class, str)
				classes = append(classes, "with:"+class)
				var tx *types.Transaction
				var err error
				ev.Guard(t, caseText, func() { tx, err = utx.WithSignature(ks, str) })
				if err != nil {
					if _, ok := refTxSender(s, f, s.refV(str[64]), R, S); ok && str[64] <= 1 {
						ev.Violation(t, keyValidReject, caseText(), "WithSignature rejects (%v) the well-formed signature %x", err, str)
					}
					classes = append(classes, "rejected")
					continue
				}
				V := s.refV(str[64])
				if s.kind == sgChainID && str[64] > 1 {
					// outside WithSignature's documented input format ("V is 0 or 1"): sig[64]+35 is computed in a byte,
					// as in go-ethereum; the decision is judged on the V the transaction really carries
					V, _, _ = tx.RawSignatureValues()
					V = new(big.Int).Set(V)
				}
				if tv, tr, ts := tx.RawSignatureValues(); str[64] <= 1 && (tv.Cmp(V) != 0 || tr.Cmp(R) != 0 || ts.Cmp(S) != 0) {
					ev.Violation(t, "tx.withsignature-values-differ-from-eip155", caseText(), "WithSignature(%s, %x) stores V=%s R=%x S=%x, expected V=%s R=%x S=%x", s.text(), str, tv, tr, ts, V, R, S)
				}
				before := len(classes)
				judge("WithSignature("+class+")", tx, V, R, S)
				if str[64] > 1 && len(classes) > before && classes[len(classes)-1] == "accepted" {
					classes = append(classes, "with:v-byte-wrapped-accepted") // the documented quirk, see check.json assumptions
				}
				continue
			}
			// ---- offered as raw V, R, S in an encoded transaction
			V := s.refV(str[64] & 1)
			vclass := "V-right"
			switch pick(t, fmt.Sprintf("s%d.V", i), 12) {
			case 0:
				V, vclass = big.NewInt(27+int64(str[64]&1)), "V-27/28"
			case 1:
				V, vclass = new(big.Int).Add(V, big.NewInt(2)), "V+2"
			case 2:
				V, vclass = new(big.Int).Sub(V, big.NewInt(2)), "V-2"
			case 3:
				V, vclass = sgn{kind: sgChainID, c: genChainID(t, fmt.Sprintf("s%d.Vc", i))}.refV(str[64]&1), "V-otherchain"
			case 4:
				V, vclass = big.NewInt(int64(pick(t, fmt.Sprintf("s%d.Vs", i), 40))), "V-small"
			case 5:
				V, vclass = new(big.Int).SetBytes(rapid.SliceOfN(rapid.Byte(), 1, 40).Draw(t, fmt.Sprintf("s%d.Vr", i))), "V-random"
			case 6: // R or S wider than 32 bytes
				if rapid.Bool().Draw(t, fmt.Sprintf("s%d.wideR", i)) {
					R = new(big.Int).Add(R, new(big.Int).Lsh(big.NewInt(1), 256))
				} else {
					S = new(big.Int).Add(S, new(big.Int).Lsh(big.NewInt(1), 256))
				}
				vclass = "wide-rs"
			}
			if V.Sign() < 0 {
				V = new(big.Int)
			}
			nontrivial = true
			fmt.Fprintf(&log, " | raw:%s,%s V=%s R=%x S=%x", class, vclass, V, R, S)
			classes = append(classes, "raw:"+class, "raw:"+vclass)
			tx, err := decodeRaw(f, V, R, S)
			if err != nil {
				t.Fatalf("harness: go-kardia does not decode a canonically encoded transaction: %v", err)
			}
			judge("raw("+class+","+vclass+")", tx, V, R, S)
		}
		ev.Case(nontrivial, caseText(), classes...)
		if ev.WantSample("sigvalues") {
			ev.Sample("sigvalues", caseText())
		}
	})
}

// ---------------------------------------------------------------- injectivity of the signature hash on a small domain
//
// Crypto-free search for two (signer, fields) pairs that differ in a signed field or in the chain id and hash to
// the same value (a signature for one would then be accepted for the other); values come from small domains so that
// compensating changes between neighbouring RLP items are frequent. A collision is confirmed with a real signature.

type ctx struct {
	s sgn
	f txF
}

var (
	smallBig    = []int64{0, 1, 2, 127, 128, 255, 256}
	smallData   = [][]byte{{}, {0}, {1}, {0x7f}, {0x80}, {0, 0}, {0, 1}, {1, 0}, {0x80, 0x80}}
	smallTo     = []*common.Address{nil, {}, {19: 1}, {0: 1}, {19: 0x80}}
	smallSigner = []sgn{{kind: sgHomestead}, {kind: sgFrontier}, {kind: sgChainID, c: big.NewInt(1)}, {kind: sgChainID, c: big.NewInt(2)}, {kind: sgChainID, c: big.NewInt(127)}, {kind: sgChainID, c: big.NewInt(128)}, {kind: sgChainID, c: big.NewInt(256)}}
)

func (c *ctx) redraw(t *rapid.T, label string, field int) {
	sb := func(l string) *big.Int { return big.NewInt(rapid.SampledFrom(smallBig).Draw(t, label+"."+l)) }
	switch field {
	case 0:
		c.f.nonce = sb("nonce").Uint64()
	case 1:
		c.f.price = sb("price")
	case 2:
		c.f.gas = sb("gas").Uint64()
	case 3:
		c.f.to = smallTo[pick(t, label+".to", len(smallTo))]
	case 4:
		c.f.value = sb("value")
	case 5:
		c.f.data = smallData[pick(t, label+".data", len(smallData))]
	case 6:
		c.s = smallSigner[pick(t, label+".signer", len(smallSigner))]
	}
}

// scheme: frontier and homestead sign the same 6-field hash by design; they are one scheme here.
func (c *ctx) scheme() string {
	if c.s.kind == sgChainID {
		return c.s.c.String()
	}
	return "none"
}

func TestTxSigHashInjective(t *testing.T) {
	k := keyPool[2]
	rapid.Check(t, func(t *rapid.T) {
		var log strings.Builder
		caseText := func() string { return log.String() }
		base := &ctx{}
		for f := 0; f < 7; f++ {
			base.redraw(t, "base", f)
		}
		items := []*ctx{base}
		n := rapid.IntRange(2, 5).Draw(t, "n")
		for i := 0; i < n; i++ {
			m := *items[pick(t, fmt.Sprintf("d%d.from", i), len(items))]
			nf := 1 + pick(t, fmt.Sprintf("d%d.nf", i), 3)
			for j := 0; j < nf; j++ {
				m.redraw(t, fmt.Sprintf("d%d.%d", i, j), pick(t, fmt.Sprintf("d%d.%d.f", i, j), 7))
			}
			items = append(items, &m)
		}
		hs := make([]common.Hash, len(items))
		ev.Guard(t, caseText, func() {
			for i, m := range items {
				hs[i] = m.s.kai().Hash(m.f.kai())
			}
		})
		for i, m := range items {
			if i > 0 {
				log.WriteString(" ; ")
			}
			log.WriteString(m.s.text() + " " + m.f.text())
		}
		differing := 0
		for i := 0; i < len(items); i++ {
			for j := i + 1; j < len(items); j++ {
				a, b := items[i], items[j]
				d := txDiff(a.f, b.f)
				if a.scheme() != b.scheme() {
					d = append(d, "chainid")
				}
				if len(d) == 0 {
					continue
				}
				differing++
				if hs[i] != hs[j] {
					continue
				}
				key := "tx.signbytes." + d[0] + "-not-bound"
				if len(d) > 1 {
					key = "tx.signbytes.collision:" + strings.Join(d, "+")
				}
				same := false
				ev.Guard(t, caseText, func() {
					sig, err := crypto.Sign(hs[i][:], k.k)
					if err != nil {
						return
					}
					tx, err := b.f.kai().WithSignature(b.s.kai(), sig)
					if err != nil {
						return
					}
					from, err := kaiSender(b.s.kai(), tx)
					same = err == nil && from == k.addr
				})
				if same {
					ev.Violation(t, key, caseText(), "a signature over %s %s recovers the same sender on %s %s (identical signature hash %x)", a.s.text(), a.f.text(), b.s.text(), b.f.text(), hs[i][:])
				}
			}
		}
		ev.Case(differing > 0, caseText(), "txpairs")
		ev.ClassN("txpairs-compared", int64(differing))
		if ev.WantSample("txpairs") {
			ev.Sample("txpairs", caseText())
		}
	})
}
