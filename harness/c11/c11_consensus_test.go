package c11

import (
	"fmt"
	"math/big"
	"strings"
	"testing"
	"time"

	gcrypto "github.com/ethereum/go-ethereum/crypto"
	"pgregory.net/rapid"

	"github.com/kardiachain/go-kardia/lib/common"
	"github.com/kardiachain/go-kardia/lib/crypto"
	kproto "github.com/kardiachain/go-kardia/proto/kardiachain/types"
	"github.com/kardiachain/go-kardia/types"

	"verifharness/internal/ev"
)

// ---------------------------------------------------------------- votes and proposals: mutation matrix

func voteText(chain string, v *types.Vote) string {
	return fmt.Sprintf("vote{chain=%q type=%d h=%d r=%d bid=%s ts=%s val=%x idx=%d}", chain, v.Type, v.Height, v.Round, bidText(v.BlockID), tsText(v.Timestamp), v.ValidatorAddress[:4], v.ValidatorIndex)
}

func propText(chain string, p *types.Proposal) string {
	return fmt.Sprintf("proposal{chain=%q h=%d r=%d pol=%d bid=%s ts=%s}", chain, p.Height, p.Round, p.POLRound, bidText(p.POLBlockID), tsText(p.Timestamp))
}

// voteDiff lists the fields in which two (chain, vote) pairs differ (signature and validator index excluded).
func voteDiff(ca string, a *types.Vote, cb string, b *types.Vote) []string {
	var d []string
	add := func(c bool, n string) {
		if c {
			d = append(d, n)
		}
	}
	add(ca != cb, "chainid")
	add(a.Type != b.Type, "type")
	add(a.Height != b.Height, "height")
	add(a.Round != b.Round, "round")
	add(a.BlockID.Hash != b.BlockID.Hash, "blockhash")
	add(a.BlockID.PartsHeader.Hash != b.BlockID.PartsHeader.Hash, "partshash")
	add(a.BlockID.PartsHeader.Total != b.BlockID.PartsHeader.Total, "partstotal")
	add(!a.Timestamp.Equal(b.Timestamp), "timestamp")
	add(a.ValidatorAddress != b.ValidatorAddress, "validatoraddress")
	return d
}

func propDiff(ca string, a *types.Proposal, cb string, b *types.Proposal) []string {
	var d []string
	add := func(c bool, n string) {
		if c {
			d = append(d, n)
		}
	}
	add(ca != cb, "chainid")
	add(a.Height != b.Height, "height")
	add(a.Round != b.Round, "round")
	add(a.POLRound != b.POLRound, "polround")
	add(a.POLBlockID.Hash != b.POLBlockID.Hash, "blockhash")
	add(a.POLBlockID.PartsHeader.Hash != b.POLBlockID.PartsHeader.Hash, "partshash")
	add(a.POLBlockID.PartsHeader.Total != b.POLBlockID.PartsHeader.Total, "partstotal")
	add(!a.Timestamp.Equal(b.Timestamp), "timestamp")
	return d
}

// genGarbageSig draws a 65-byte (or, rarely, shorter) string that is not a signature of the validator over the
// message, derived from the genuine signature gen where that makes the case sharper.
func genGarbageSig(t *rapid.T, label string, gen []byte) ([]byte, string) {
	rnd32 := func(l string) *big.Int {
		return new(big.Int).SetBytes(rapid.SliceOfN(rapid.Byte(), 32, 32).Draw(t, label+"."+l))
	}
	v01 := func() byte { return byte(pick(t, label+".v", 2)) }
	gr := new(big.Int).SetBytes(gen[:32])
	gs := new(big.Int).SetBytes(gen[32:64])
	switch pick(t, label+".kind", 15) {
	case 0:
		b := rapid.SliceOfN(rapid.Byte(), 65, 65).Draw(t, label+".rnd")
		b[64] &= 1
		return b, "rnd"
	case 1:
		return rapid.SliceOfN(rapid.Byte(), 65, 65).Draw(t, label+".rndv"), "rndv"
	case 2:
		s := gs
		if rapid.Bool().Draw(t, label+".rs") {
			s = rnd32("s")
		}
		return sig65(curveN, s, v01()), "r=N"
	case 3:
		return sig65(big0, gs, v01()), "r=0"
	case 4:
		return sig65(gr, big0, v01()), "s=0"
	case 5:
		return sig65(gr, curveN, v01()), "s=N"
	case 6: // r in (N, 2^256)
		max := new(big.Int).Sub(new(big.Int).Lsh(big.NewInt(1), 256), curveN)
		off := new(big.Int).Mod(rnd32("off"), max)
		r := new(big.Int).Add(curveN, off)
		if off.Sign() == 0 {
			r.Add(r, big.NewInt(1))
		}
		return sig65(r, gs, v01()), "r>N"
	case 7:
		b := append([]byte{}, gen...)
		i := pick(t, label+".bit", 512)
		b[i/8] ^= 1 << uint(i%8)
		return b, "bitflip"
	case 8:
		b := append([]byte{}, gen...)
		b[64] ^= 1
		return b, "v^1"
	case 9:
		b := append([]byte{}, gen...)
		b[64] = rapid.SampledFrom([]byte{2, 3, 27, 28, 29, 31, 255}).Draw(t, label+".badv")
		return b, "v-bad"
	case 10:
		return make([]byte, 65), "zero"
	case 11:
		b := make([]byte, 65)
		for i := range b {
			b[i] = 0xff
		}
		return b, "ff"
	case 12: // genuine r with another s
		return sig65(gr, rnd32("s2"), gen[64]), "r-genuine"
	case 13:
		return append([]byte{}, gen[:pick(t, label+".len", 65)]...), "short"
	default: // the genuine signature followed by junk: not a 65-byte string; only "no panic" is asserted for it
		return append(append([]byte{}, gen...), rapid.SliceOfN(rapid.Byte(), 1, 16).Draw(t, label+".junk")...), "long"
	}
}

// panicKey names the two malformed-signature panics that were found and fixed (3cacbf1) by the shape of the input;
// "" means the panic is not one of them (it is then reported as panic:<innermost go-kardia function>).
func panicKey(sig []byte) string {
	if len(sig) < 65 {
		return keyPanicShort
	}
	if new(big.Int).SetBytes(sig[:32]).Cmp(curveN) >= 0 {
		return keyPanicROrder
	}
	return ""
}

func TestConsensusMatrix(t *testing.T) {
	rapid.Check(t, func(t *rapid.T) {
		k := genKey(t, "key")
		other := genOtherKey(t, "other", k)
		chain := genChain(t, "chain")
		var pv, pvOther types.PrivValidator
		pvClass := "pv:default"
		if pick(t, "pvkind", 3) == 0 {
			pv, pvOther, pvClass = types.NewMockPVWithParams(k.k, false, false), types.NewMockPVWithParams(other.k, false, false), "pv:mock"
		} else {
			pv, pvOther = types.NewDefaultPrivValidator(k.k), types.NewDefaultPrivValidator(other.k)
		}
		var log strings.Builder
		caseText := func() string { return log.String() }
		classes := []string{pvClass}
		if k.idx < 0 {
			classes = append(classes, "key:drawn")
		}
		if chain == "" {
			classes = append(classes, "chain:empty")
		}

		// the validator's identity as seen by callers
		var addr common.Address
		ev.Guard(t, caseText, func() { addr = pv.GetAddress() })
		pub := pv.GetPubKey()
		if addr != k.addr || refAddress(&pub) != k.addr {
			ev.Violation(t, keyPVAddress, caseText(), "PrivValidator address %x, reference keccak(pubkey)[12:] %x", addr[:], k.addr[:])
		}

		isVote := pick(t, "kind", 5) < 3
		ts, tsClass := genTime(t, "ts")
		bid := genBlockID(t, "bid")
		height, round := genHeight(t, "h"), genRound(t, "r")
		classes = append(classes, "ts:"+tsClass)
		if bid.IsZero() {
			classes = append(classes, "bid:nil")
		}

		// reject reports "a signature made for the base message was accepted for `what`".
		reject := func(accepted bool, key, what string) {
			if accepted {
				ev.Violation(t, key, caseText(), "signature of the base message accepted for %s", what)
				// known finding: counted under excluded_known, the case goes on
			}
		}
		// pubkeyCheck: the produced signature is an ECDSA signature of the validator's public key (libsecp256k1).
		pubkeyCheck := func(signBytes, sig []byte) {
			if len(sig) != 65 || !gcrypto.VerifySignature(gcrypto.CompressPubkey(&pub), gcrypto.Keccak256(signBytes), sig[:64]) {
				ev.Violation(t, keyPVPubkey, caseText(), "signature %x is not a (low-s) ECDSA signature of the validator's public key over keccak(sign bytes)", sig)
			}
		}

		if isVote {
			typ := kproto.PrevoteType
			if rapid.Bool().Draw(t, "precommit") {
				typ = kproto.PrecommitType
				classes = append(classes, "vote:precommit")
			} else {
				classes = append(classes, "vote:prevote")
			}
			v := &types.Vote{ValidatorAddress: addr, ValidatorIndex: uint32(rapid.IntRange(0, 200).Draw(t, "idx")), Height: height, Round: round, Timestamp: ts, Type: typ, BlockID: bid}
			fmt.Fprintf(&log, "key#%d %s %s", k.idx, pvClass, voteText(chain, v))
			var err error
			ev.Guard(t, caseText, func() {
				if err = signedVote(pv, chain, v); err == nil {
					err = v.Verify(chain, addr)
				}
			})
			if err != nil {
				ev.Violation(t, keyPVRoundTrip, caseText(), "SignVote then Vote.Verify with the validator's own address: %v", err)
			}
			ev.Guard(t, caseText, func() { pubkeyCheck(types.VoteSignBytes(chain, v.ToProto()), v.Signature) })

			type cell struct {
				name string
				mut  func(x *types.Vote, c *string) string
			}
			cells := []cell{
				{"chainid", func(x *types.Vote, c *string) (how string) { *c, how = mutChain(t, "m.chain", *c); return }},
				{"type", func(x *types.Vote, c *string) string {
					if x.Type == kproto.PrevoteType {
						x.Type = kproto.PrecommitType
					} else {
						x.Type = kproto.PrevoteType
					}
					return "flip"
				}},
				{"height", func(x *types.Vote, c *string) (how string) { x.Height, how = mutU64(t, "m.h", x.Height, 64); return }},
				{"round", func(x *types.Vote, c *string) (how string) {
					n, how := mutU64(t, "m.r", uint64(x.Round), 32)
					x.Round = uint32(n)
					return how
				}},
				{"blockhash", func(x *types.Vote, c *string) (how string) {
					x.BlockID.Hash, how = mutHash(t, "m.bh", x.BlockID.Hash)
					return
				}},
				{"partshash", func(x *types.Vote, c *string) (how string) {
					x.BlockID.PartsHeader.Hash, how = mutHash(t, "m.ph", x.BlockID.PartsHeader.Hash)
					return
				}},
				{"partstotal", func(x *types.Vote, c *string) (how string) {
					n, how := mutU64(t, "m.pt", uint64(x.BlockID.PartsHeader.Total), 32)
					x.BlockID.PartsHeader.Total = uint32(n)
					return how
				}},
				{"timestamp", func(x *types.Vote, c *string) (how string) {
					x.Timestamp, how = mutTime(t, "m.ts", x.Timestamp)
					return
				}},
				// the validator address is not part of the sign bytes; it is bound by Vote.Verify's equality check
				{"validatoraddress", func(x *types.Vote, c *string) (how string) {
					if rapid.Bool().Draw(t, "m.va.other") {
						x.ValidatorAddress, how = other.addr, "otherkey"
					} else {
						x.ValidatorAddress, how = mutAddr(t, "m.va", x.ValidatorAddress)
					}
					return
				}},
			}
			for _, c := range cells {
				x, ch := v.Copy(), chain
				how := c.mut(x, &ch)
				if d := voteDiff(chain, v, ch, x); len(d) != 1 || d[0] != c.name {
					t.Fatalf("harness: mutation %s changed %v", c.name, d)
				}
				fmt.Fprintf(&log, " | %s:%s", c.name, how)
				var e error
				ev.Guard(t, caseText, func() { e = x.Verify(ch, addr) })
				reject(e == nil, "vote.signbytes."+c.name+"-not-bound", "the vote with another "+c.name+" ("+how+"): "+voteText(ch, x))
			}

			// presented under another signer: (a) checked against another validator's address, (b) relabelled
			{
				var e1, e2 error
				x := v.Copy()
				x.ValidatorAddress = other.addr
				ev.Guard(t, caseText, func() { e1 = v.Verify(chain, other.addr); e2 = x.Verify(chain, other.addr) })
				fmt.Fprintf(&log, " | signer:key#%d", other.idx)
				reject(e1 == nil || e2 == nil, "vote.signbytes.signer-not-bound", fmt.Sprintf("validator %x", other.addr[:]))
			}
			// another validator's signature over the same content, offered as this validator's vote
			{
				y := v.Copy()
				y.ValidatorAddress = other.addr
				var e error
				ev.Guard(t, caseText, func() {
					if e = signedVote(pvOther, chain, y); e != nil {
						return
					}
					x := v.Copy()
					x.Signature = y.Signature
					e = x.Verify(chain, addr)
				})
				reject(e == nil, keyForeignVote, fmt.Sprintf("validator %x although it was made by %x", addr[:], other.addr[:]))
			}
			// cross-kind: the vote's signature on a proposal with the same chain id, height, round, block id and timestamp
			{
				pr := &types.Proposal{Height: v.Height, Round: v.Round, POLRound: uint32(pick(t, "x.pol", 3)), Timestamp: v.Timestamp, POLBlockID: v.BlockID, Signature: v.Signature}
				fmt.Fprintf(&log, " | asproposal:pol=%d", pr.POLRound)
				var ok bool
				ev.Guard(t, caseText, func() { ok = verifyProposal(chain, addr, pr) })
				reject(ok, "proposal.signbytes.kind-not-bound", "a proposal with the same content: "+propText(chain, pr))
			}
			// strings that are not signatures of this validator
			for i := 0; i < 2; i++ {
				g, gclass := genGarbageSig(t, fmt.Sprintf("g%d", i), v.Signature)
				fmt.Fprintf(&log, " | sig:%s=%x", gclass, g)
				classes = append(classes, "badsig:"+gclass)
				x := v.Copy()
				x.Signature = g
				var e error
				if p, frame := ev.Try(func() { e = x.Verify(chain, addr) }); p != "" {
					key := panicKey(g)
					if key == "" {
						key = "panic:" + frame
					}
					ev.Violation(t, key, caseText(), "Vote.Verify panicked on a %d-byte signature (%s): %s", len(g), gclass, p)
					continue
				}
				if gclass != "long" {
					reject(e == nil, keyGarbageVote, "a "+gclass+" string offered as signature")
				}
			}
			ev.Case(true, caseText(), append(classes, "kind:vote")...)
			if ev.WantSample("kind:vote") {
				ev.Sample("kind:vote", caseText())
			}
			return
		}

		// ---------------- proposal
		pol := uint32(pick(t, "pol", 4))
		if pick(t, "pol.big", 8) == 0 {
			pol = rapid.Uint32().Draw(t, "pol.any")
		}
		pr := &types.Proposal{Height: height, Round: round, POLRound: pol, Timestamp: ts, POLBlockID: bid}
		fmt.Fprintf(&log, "key#%d %s %s", k.idx, pvClass, propText(chain, pr))
		var err error
		var ok bool
		ev.Guard(t, caseText, func() {
			if err = signedProposal(pv, chain, pr); err == nil {
				ok = verifyProposal(chain, addr, pr)
			}
		})
		if err != nil || !ok {
			ev.Violation(t, keyPVRoundTrip, caseText(), "SignProposal then VerifySignature over the proposal sign bytes with the validator's own address: err=%v ok=%v", err, ok)
		}
		ev.Guard(t, caseText, func() { pubkeyCheck(types.ProposalSignBytes(chain, pr.ToProto()), pr.Signature) })

		type cell struct {
			name string
			mut  func(x *types.Proposal, c *string) string
		}
		cells := []cell{
			{"chainid", func(x *types.Proposal, c *string) (how string) { *c, how = mutChain(t, "m.chain", *c); return }},
			{"height", func(x *types.Proposal, c *string) (how string) {
				x.Height, how = mutU64(t, "m.h", x.Height, 64)
				return
			}},
			{"round", func(x *types.Proposal, c *string) (how string) {
				n, how := mutU64(t, "m.r", uint64(x.Round), 32)
				x.Round = uint32(n)
				return how
			}},
			{"polround", func(x *types.Proposal, c *string) (how string) {
				n, how := mutU64(t, "m.pol", uint64(x.POLRound), 32)
				x.POLRound = uint32(n)
				return how
			}},
			{"blockhash", func(x *types.Proposal, c *string) (how string) {
				x.POLBlockID.Hash, how = mutHash(t, "m.bh", x.POLBlockID.Hash)
				return
			}},
			{"partshash", func(x *types.Proposal, c *string) (how string) {
				x.POLBlockID.PartsHeader.Hash, how = mutHash(t, "m.ph", x.POLBlockID.PartsHeader.Hash)
				return
			}},
			{"partstotal", func(x *types.Proposal, c *string) (how string) {
				n, how := mutU64(t, "m.pt", uint64(x.POLBlockID.PartsHeader.Total), 32)
				x.POLBlockID.PartsHeader.Total = uint32(n)
				return how
			}},
			{"timestamp", func(x *types.Proposal, c *string) (how string) {
				x.Timestamp, how = mutTime(t, "m.ts", x.Timestamp)
				return
			}},
		}
		for _, c := range cells {
			x, ch := *pr, chain
			how := c.mut(&x, &ch)
			if d := propDiff(chain, pr, ch, &x); len(d) != 1 || d[0] != c.name {
				t.Fatalf("harness: mutation %s changed %v", c.name, d)
			}
			fmt.Fprintf(&log, " | %s:%s", c.name, how)
			var acc bool
			ev.Guard(t, caseText, func() { acc = verifyProposal(ch, addr, &x) })
			reject(acc, "proposal.signbytes."+c.name+"-not-bound", "the proposal with another "+c.name+" ("+how+"): "+propText(ch, &x))
		}
		{
			var acc bool
			ev.Guard(t, caseText, func() { acc = verifyProposal(chain, other.addr, pr) })
			fmt.Fprintf(&log, " | signer:key#%d", other.idx)
			reject(acc, "proposal.signbytes.signer-not-bound", fmt.Sprintf("proposer %x", other.addr[:]))
		}
		{
			y := *pr
			var acc bool
			var e error
			ev.Guard(t, caseText, func() {
				if e = signedProposal(pvOther, chain, &y); e == nil {
					acc = verifyProposal(chain, addr, &y)
				}
			})
			reject(e == nil && acc, keyForeignProp, fmt.Sprintf("proposer %x although it was made by %x", addr[:], other.addr[:]))
		}
		// cross-kind: the proposal's signature on a vote (either type) with the same content
		for _, typ := range []kproto.SignedMsgType{kproto.PrevoteType, kproto.PrecommitType} {
			x := &types.Vote{ValidatorAddress: addr, ValidatorIndex: 0, Height: pr.Height, Round: pr.Round, Timestamp: pr.Timestamp, Type: typ, BlockID: pr.POLBlockID, Signature: pr.Signature}
			var e error
			ev.Guard(t, caseText, func() { e = x.Verify(chain, addr) })
			reject(e == nil, "vote.signbytes.kind-not-bound", "a vote with the same content: "+voteText(chain, x))
		}
		for i := 0; i < 2; i++ {
			g, gclass := genGarbageSig(t, fmt.Sprintf("g%d", i), pr.Signature)
			fmt.Fprintf(&log, " | sig:%s=%x", gclass, g)
			classes = append(classes, "badsig:"+gclass)
			x := *pr
			x.Signature = g
			var acc bool
			if p, frame := ev.Try(func() { acc = verifyProposal(chain, addr, &x) }); p != "" {
				key := panicKey(g)
				if key == "" {
					key = "panic:" + frame
				}
				ev.Violation(t, key, caseText(), "VerifySignature over proposal sign bytes panicked on a %d-byte signature (%s): %s", len(g), gclass, p)
				continue
			}
			if gclass != "long" {
				reject(acc, keyGarbageProp, "a "+gclass+" string offered as signature")
			}
		}
		ev.Case(true, caseText(), append(classes, "kind:proposal")...)
		if ev.WantSample("kind:proposal") {
			ev.Sample("kind:proposal", caseText())
		}
	})
}

// ---------------------------------------------------------------- injectivity of the signed bytes on a small domain
//
// No signatures are made unless a collision is found: a signature is accepted for exactly the messages whose sign
// bytes (votes, proposals) or signature hash (transactions) equal those of the signed message, so two messages that
// differ in a signed field must not map to the same bytes. Values come from small domains chosen so that
// compensating changes (height 1 round 11 / height 11 round 1, payload vs value, chain id vs V) are frequent.

type cmsg struct {
	vote  bool
	chain string
	typ   kproto.SignedMsgType
	h     uint64
	r     uint32
	pol   uint32
	bid   types.BlockID
	ts    time.Time
}

var (
	smallChains = []string{"", "a", "b", "ab", "a\x00", "1", "11"}
	smallU      = []uint64{0, 1, 2, 10, 11, 127, 128, 255, 256, 1 << 32}
	smallR      = []uint32{0, 1, 2, 10, 11, 127, 128, 256}
	smallTimes  = []time.Time{{}, time.Unix(0, 0).UTC(), time.Unix(0, 1).UTC(), time.Unix(1, 0).UTC(), time.Unix(1, 1).UTC(), time.Unix(1600000000, 0).UTC(), time.Unix(1600000000, 1000).UTC()}
	smallBids   = []types.BlockID{
		{},
		{Hash: common.Hash{1}, PartsHeader: types.PartSetHeader{Total: 1, Hash: common.Hash{2}}},
		{Hash: common.Hash{2}, PartsHeader: types.PartSetHeader{Total: 1, Hash: common.Hash{2}}},
		{Hash: common.Hash{1}, PartsHeader: types.PartSetHeader{Total: 2, Hash: common.Hash{2}}},
		{Hash: common.Hash{1}, PartsHeader: types.PartSetHeader{Total: 1, Hash: common.Hash{1}}},
		{Hash: common.Hash{2}, PartsHeader: types.PartSetHeader{Total: 1, Hash: common.Hash{1}}},
		{Hash: common.Hash{31: 1}, PartsHeader: types.PartSetHeader{Total: 1, Hash: common.Hash{2}}},
		{Hash: common.Hash{1}, PartsHeader: types.PartSetHeader{Total: 0, Hash: common.Hash{}}},
		{Hash: common.Hash{}, PartsHeader: types.PartSetHeader{Total: 1, Hash: common.Hash{}}},
		{Hash: common.Hash{}, PartsHeader: types.PartSetHeader{Total: 0, Hash: common.Hash{1}}},
	}
)

func (m *cmsg) redraw(t *rapid.T, label string, field int) {
	switch field {
	case 0:
		m.chain = rapid.SampledFrom(smallChains).Draw(t, label+".chain")
	case 1:
		if rapid.Bool().Draw(t, label+".precommit") {
			m.typ = kproto.PrecommitType
		} else {
			m.typ = kproto.PrevoteType
		}
	case 2:
		m.h = rapid.SampledFrom(smallU).Draw(t, label+".h")
	case 3:
		m.r = rapid.SampledFrom(smallR).Draw(t, label+".r")
	case 4:
		m.pol = rapid.SampledFrom(smallR).Draw(t, label+".pol")
	case 5:
		m.bid = rapid.SampledFrom(smallBids).Draw(t, label+".bid")
	case 6:
		m.ts = rapid.SampledFrom(smallTimes).Draw(t, label+".ts")
	case 7:
		m.vote = rapid.Bool().Draw(t, label+".vote")
	}
}

func (m *cmsg) text() string {
	if m.vote {
		return fmt.Sprintf("vote{chain=%q type=%d h=%d r=%d bid=%s ts=%s}", m.chain, m.typ, m.h, m.r, bidText(m.bid), tsText(m.ts))
	}
	return fmt.Sprintf("proposal{chain=%q h=%d r=%d pol=%d bid=%s ts=%s}", m.chain, m.h, m.r, m.pol, bidText(m.bid), tsText(m.ts))
}

func (m *cmsg) asVote(addr common.Address) *types.Vote {
	return &types.Vote{ValidatorAddress: addr, Height: m.h, Round: m.r, Timestamp: m.ts, Type: m.typ, BlockID: m.bid}
}

func (m *cmsg) asProposal() *types.Proposal {
	return &types.Proposal{Height: m.h, Round: m.r, POLRound: m.pol, Timestamp: m.ts, POLBlockID: m.bid}
}

func (m *cmsg) signBytes() []byte {
	if m.vote {
		return types.VoteSignBytes(m.chain, m.asVote(common.Address{}).ToProto())
	}
	return types.ProposalSignBytes(m.chain, m.asProposal().ToProto())
}

// cdiff lists the signed fields in which a and b differ (fields that exist for only one kind are ignored when the
// kinds differ).
func cdiff(a, b *cmsg) []string {
	var d []string
	add := func(c bool, n string) {
		if c {
			d = append(d, n)
		}
	}
	add(a.vote != b.vote, "kind")
	add(a.chain != b.chain, "chainid")
	add(a.vote && b.vote && a.typ != b.typ, "type")
	add(a.h != b.h, "height")
	add(a.r != b.r, "round")
	add(!a.vote && !b.vote && a.pol != b.pol, "polround")
	add(a.bid.Hash != b.bid.Hash, "blockhash")
	add(a.bid.PartsHeader.Hash != b.bid.PartsHeader.Hash, "partshash")
	add(a.bid.PartsHeader.Total != b.bid.PartsHeader.Total, "partstotal")
	add(!a.ts.Equal(b.ts), "timestamp")
	return d
}

func TestSignBytesInjective(t *testing.T) {
	k := keyPool[1]
	pv := types.NewDefaultPrivValidator(k.k)
	rapid.Check(t, func(t *rapid.T) {
		var log strings.Builder
		caseText := func() string { return log.String() }
		base := &cmsg{}
		for f := 0; f < 8; f++ {
			base.redraw(t, "base", f)
		}
		msgs := []*cmsg{base}
		n := rapid.IntRange(2, 5).Draw(t, "n")
		for i := 0; i < n; i++ {
			m := *msgs[pick(t, fmt.Sprintf("d%d.from", i), len(msgs))]
			nf := 1 + pick(t, fmt.Sprintf("d%d.nf", i), 3)
			for j := 0; j < nf; j++ {
				m.redraw(t, fmt.Sprintf("d%d.%d", i, j), pick(t, fmt.Sprintf("d%d.%d.f", i, j), 8))
			}
			msgs = append(msgs, &m)
		}
		sb := make([][]byte, len(msgs))
		ev.Guard(t, caseText, func() {
			for i, m := range msgs {
				sb[i] = m.signBytes()
			}
		})
		for i, m := range msgs {
			if i > 0 {
				log.WriteString(" ; ")
			}
			log.WriteString(m.text())
		}
		single, multi, same := 0, 0, 0
		for i := 0; i < len(msgs); i++ {
			for j := i + 1; j < len(msgs); j++ {
				a, b := msgs[i], msgs[j]
				d := cdiff(a, b)
				switch len(d) {
				case 0:
					same++
				case 1:
					single++
				default:
					multi++
				}
				if len(d) == 0 || string(sb[i]) != string(sb[j]) {
					continue
				}
				// equal sign bytes for different content: confirm at the observation point with a real signature
				kind := "proposal"
				if b.vote {
					kind = "vote"
				}
				// a collision that persists when the type is ignored is about the other fields
				rest := d
				if len(d) > 1 {
					rest = nil
					for _, f := range d {
						if f != "type" {
							rest = append(rest, f)
						}
					}
				}
				key := kind + ".signbytes." + rest[0] + "-not-bound"
				if len(rest) > 1 {
					key = kind + ".signbytes.collision:" + strings.Join(rest, "+")
				}
				accepted := false
				ev.Guard(t, caseText, func() {
					var sig []byte
					if a.vote {
						v := a.asVote(k.addr)
						if signedVote(pv, a.chain, v) != nil {
							return
						}
						sig = v.Signature
					} else {
						p := a.asProposal()
						if signedProposal(pv, a.chain, p) != nil {
							return
						}
						sig = p.Signature
					}
					if b.vote {
						v := b.asVote(k.addr)
						v.Signature = sig
						accepted = v.Verify(b.chain, k.addr) == nil
					} else {
						p := b.asProposal()
						p.Signature = sig
						accepted = verifyProposal(b.chain, k.addr, p)
					}
				})
				if accepted {
					ev.Violation(t, key, caseText(), "the signature of %s is accepted for %s (identical sign bytes %x)", a.text(), b.text(), sb[i])
				}
			}
		}
		classes := []string{"pairs"}
		if single > 0 {
			classes = append(classes, "pairs:single-field")
		}
		if multi > 0 {
			classes = append(classes, "pairs:multi-field")
		}
		if same > 0 {
			classes = append(classes, "pairs:same-content")
		}
		// non-trivial: at least one pair of messages with different content was compared
		ev.Case(single+multi > 0, caseText(), classes...)
		ev.ClassN("pairs-compared", int64(single+multi))
		if ev.WantSample("pairs") {
			ev.Sample("pairs", caseText())
		}
	})
}

var _ = crypto.Keccak256
