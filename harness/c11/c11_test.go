// C11 — signatures bind the signer and the full content of votes, proposals and transactions.
//
// Files:
//
//	c11_test.go            TestMain, shared generators, reference arithmetic, directed reproducers (TestDirected)
//	c11_consensus_test.go  TestConsensusMatrix (votes, proposals, cross-kind, foreign/garbage signatures),
//	                       TestSignBytesInjective (crypto-free near-collision search on the sign bytes / tx sig hash)
//	c11_tx_test.go         TestTxMatrix (sign -> recover for every signer, single-field mutations, chain ids),
//	                       TestTxSigValues (arbitrary 65-byte strings, malleations, raw V/R/S through RLP)
//
// Oracles are independent of the code under test: addresses, recovery and the transaction signature hash are
// recomputed with go-ethereum v1.9.15 (libsecp256k1 through cgo, geth's RLP and signers); the mutation matrices
// and the injectivity search need no reference at all (a signature made for message A must not be accepted for a
// message B that differs from A in a signed field).
package c11

import (
	"crypto/ecdsa"
	"fmt"
	"math/big"
	"os"
	"testing"
	"time"

	gcrypto "github.com/ethereum/go-ethereum/crypto"
	"pgregory.net/rapid"

	"github.com/kardiachain/go-kardia/lib/common"
	"github.com/kardiachain/go-kardia/lib/crypto"
	kproto "github.com/kardiachain/go-kardia/proto/kardiachain/types"
	"github.com/kardiachain/go-kardia/types"

	"verifharness/internal/ev"
)

func TestMain(m *testing.M) {
	ev.Init("C11")
	rc := m.Run()
	ev.Flush()
	os.Exit(rc)
}

// finding keys that are not built from a field name
const (
	keyVoteType     = "vote.signbytes.type-not-bound"              // D1 (known)
	keySignTx       = "tx.signtx-ignores-signer-hash"              // D18 (fixed)
	keyPanicShort   = "sig.verify-panics.short-signature"          // VerifySignature on < 65 bytes (fixed 3cacbf1)
	keyPanicROrder  = "sig.verify-panics.r-not-below-curve-order"  // VerifySignature on r == N (fixed 3cacbf1)
	keyHighS        = "tx.high-s-accepted"                         // s > N/2 accepted by Sender
	keyMalformed    = "tx.malformed-signature-accepted"            // v/r/s outside the valid ranges accepted
	keyValidReject  = "tx.valid-signature-rejected"                // reference accepts, Sender errs
	keySenderDiffer = "tx.recovered-sender-differs-from-reference" // both accept, different address
	keyOtherChain   = "tx.other-chain-accepted"                    // protected tx accepted by a signer of another chain
	keyRoundTrip    = "tx.sign-recover-mismatch"                   // sign -> Sender != signer's address
	keySigHash      = "tx.sighash-differs-from-eip155"             // signer.Hash != geth's hash of the same fields
	keyPVRoundTrip  = "pv.sign-verify-mismatch"                    // PrivValidator signature not accepted for its own address
	keyPVPubkey     = "pv.signature-not-valid-for-pubkey"          // … or not an ECDSA signature of its public key
	keyPVAddress    = "pv.address-differs-from-reference"          // GetAddress != keccak(pubkey)[12:]
	keyForeignVote  = "vote.verify.foreign-signature-accepted"     // another key's signature accepted for this validator
	keyForeignProp  = "proposal.verify.foreign-signature-accepted" //
	keyGarbageVote  = "vote.verify.garbage-signature-accepted"     // a 65-byte string that is not a signature of the validator
	keyGarbageProp  = "proposal.verify.garbage-signature-accepted" //
	keyUnprotected  = "tx.unprotected-rejected-by-chainid-signer"  // documented: ChainIDSigner accepts homestead txs
	keyCacheConfuse = "tx.sender-cache-crosses-signers"            // cached sender returned for a different signer
)

// ---------------------------------------------------------------- keys

type keyT struct {
	idx  int
	k    *ecdsa.PrivateKey
	addr common.Address // reference address, computed with go-ethereum
}

const nKeys = 24

var keyPool []keyT

func refAddress(pub *ecdsa.PublicKey) common.Address {
	// go-ethereum: keccak256(uncompressed pubkey without the 0x04 prefix)[12:]
	return common.BytesToAddress(gcrypto.PubkeyToAddress(*pub).Bytes())
}

func mkKey(idx int, seed []byte) (keyT, bool) {
	k, err := crypto.ToECDSA(seed)
	if err != nil {
		return keyT{}, false
	}
	return keyT{idx: idx, k: k, addr: refAddress(&k.PublicKey)}, true
}

func init() {
	for i := 0; i < nKeys; i++ {
		k, ok := mkKey(i, gcrypto.Keccak256([]byte("verif-c11-key"), []byte{byte(i)}))
		if !ok {
			panic("key pool")
		}
		keyPool = append(keyPool, k)
	}
}

// genKey draws a key: mostly from a fixed pool (cheap), sometimes from 32 drawn bytes.
func genKey(t *rapid.T, label string) keyT {
	if rapid.IntRange(0, 9).Draw(t, label+".fresh") == 0 {
		b := rapid.SliceOfN(rapid.Byte(), 32, 32).Draw(t, label+".bytes")
		if k, ok := mkKey(-1, b); ok {
			return k
		}
	}
	return keyPool[rapid.IntRange(0, nKeys-1).Draw(t, label)]
}

// genOtherKey draws a key with another address than k.
func genOtherKey(t *rapid.T, label string, k keyT) keyT {
	i := rapid.IntRange(0, nKeys-1).Draw(t, label)
	if keyPool[i].addr == k.addr {
		i = (i + 1) % nKeys
	}
	return keyPool[i]
}

// ---------------------------------------------------------------- secp256k1 arithmetic (go-ethereum's parameters)

var (
	curveN     = gcrypto.S256().Params().N
	curveHalfN = new(big.Int).Rsh(gcrypto.S256().Params().N, 1)
	big0       = big.NewInt(0)
)

func be32(x *big.Int) []byte {
	out := make([]byte, 32)
	b := x.Bytes()
	if len(b) > 32 {
		b = b[len(b)-32:]
	}
	copy(out[32-len(b):], b)
	return out
}

func sig65(r, s *big.Int, v byte) []byte {
	return append(append(be32(r), be32(s)...), v)
}

// malleate returns (r, N-s, v^1): the other valid ECDSA signature of the same key over the same hash.
func malleate(sig []byte) []byte {
	r := new(big.Int).SetBytes(sig[:32])
	s := new(big.Int).SetBytes(sig[32:64])
	return sig65(r, new(big.Int).Sub(curveN, s), sig[64]^1)
}

// refRecover recovers the address that signed hash with (r, s, recid) using libsecp256k1 (go-ethereum, cgo);
// ok is false when the values are outside the ranges the property demands (0 < r < N, 0 < s <= N/2,
// recid in {0,1}) or when no public key can be recovered.
func refRecover(hash []byte, r, s *big.Int, recid *big.Int) (common.Address, bool) {
	if r.Sign() <= 0 || s.Sign() <= 0 || r.Cmp(curveN) >= 0 || s.Cmp(curveHalfN) > 0 {
		return common.Address{}, false
	}
	if recid.Sign() < 0 || recid.Cmp(big.NewInt(1)) > 0 {
		return common.Address{}, false
	}
	pub, err := gcrypto.Ecrecover(hash, sig65(r, s, byte(recid.Uint64())))
	if err != nil || len(pub) != 65 || pub[0] != 4 {
		return common.Address{}, false
	}
	return common.BytesToAddress(gcrypto.Keccak256(pub[1:])[12:]), true
}

// ---------------------------------------------------------------- small drawing helpers

func pick(t *rapid.T, label string, n int) int { return rapid.IntRange(0, n-1).Draw(t, label) }

// mutU64 returns a value different from old: neighbours, single-bit flips over the whole width, or random.
func mutU64(t *rapid.T, label string, old uint64, bits int) (uint64, string) {
	mask := uint64(1)<<uint(bits) - 1
	if bits == 64 {
		mask = ^uint64(0)
	}
	for {
		var n uint64
		var how string
		switch pick(t, label+".how", 4) {
		case 0:
			n, how = (old+1)&mask, "+1"
		case 1:
			n, how = (old-1)&mask, "-1"
		case 2:
			b := pick(t, label+".bit", bits)
			n, how = old^(uint64(1)<<uint(b)), fmt.Sprintf("bit%d", b)
		default:
			n, how = rapid.Uint64().Draw(t, label+".rnd")&mask, "rnd"
		}
		if n != old {
			return n, how
		}
	}
}

func mutHash(t *rapid.T, label string, old common.Hash) (common.Hash, string) {
	switch pick(t, label+".how", 6) {
	case 0:
		if !old.IsZero() {
			return common.Hash{}, "zero"
		}
	case 1:
		var h common.Hash
		copy(h[:], rapid.SliceOfN(rapid.Byte(), 32, 32).Draw(t, label+".rnd"))
		if h != old {
			return h, "rnd"
		}
	}
	b := pick(t, label+".bit", 256)
	n := old
	n[b/8] ^= 1 << uint(b%8)
	return n, fmt.Sprintf("bit%d", b)
}

func mutAddr(t *rapid.T, label string, old common.Address) (common.Address, string) {
	b := pick(t, label+".bit", 160)
	n := old
	n[b/8] ^= 1 << uint(b%8)
	return n, fmt.Sprintf("bit%d", b)
}

var chainSamples = []string{"", "a", "b", "kai", "kardia-mainnet", "kardia-testnet-242", "KAI\x00", "0", "24", "κ-chain", "chain with spaces and a rather long name 0123456789"}

func genChain(t *rapid.T, label string) string {
	if pick(t, label+".kind", 4) == 0 {
		return rapid.StringOfN(rapid.RuneFrom([]rune("abAB01-_ ")), 0, 12, -1).Draw(t, label+".rnd")
	}
	return rapid.SampledFrom(chainSamples).Draw(t, label)
}

func mutChain(t *rapid.T, label string, old string) (string, string) {
	for {
		var n, how string
		switch pick(t, label+".how", 5) {
		case 0:
			n, how = old+string(rune('a'+pick(t, label+".ch", 3))), "append"
		case 1: // drop the last rune (the string stays valid UTF-8)
			if r := []rune(old); len(r) > 0 {
				n, how = string(r[:len(r)-1]), "droplast"
			} else {
				n, how = "\x00", "nul"
			}
		case 2: // flip the low bit of one ASCII byte (stays ASCII)
			var ascii []int
			for i := 0; i < len(old); i++ {
				if old[i] < 0x80 {
					ascii = append(ascii, i)
				}
			}
			if len(ascii) > 0 {
				i := ascii[pick(t, label+".pos", len(ascii))]
				b := []byte(old)
				b[i] ^= 1
				n, how = string(b), "flip"
			} else {
				n, how = old+"x", "x"
			}
		case 3:
			n, how = "p"+old, "prepend"
		default:
			n, how = rapid.SampledFrom(chainSamples).Draw(t, label+".other"), "other"
		}
		if n != old {
			return n, how
		}
	}
}

// time range that protobuf's Timestamp can carry (the sign-bytes functions panic outside it by contract:
// decoded messages never hold such a time).
const (
	minSec = -62135596800 // 0001-01-01T00:00:00Z
	maxSec = 253402300799 // 9999-12-31T23:59:59Z
)

func genTime(t *rapid.T, label string) (time.Time, string) {
	switch pick(t, label+".kind", 8) {
	case 0:
		return time.Time{}, "zero"
	case 1:
		return time.Unix(int64(rapid.IntRange(0, 100).Draw(t, label+".s")), int64(rapid.IntRange(0, 999).Draw(t, label+".ns"))).UTC(), "small"
	case 2:
		if rapid.Bool().Draw(t, label+".max") {
			return time.Unix(maxSec, 999999999).UTC(), "max"
		}
		return time.Unix(minSec, 0).UTC(), "min"
	case 3:
		return time.Unix(rapid.Int64Range(minSec, maxSec).Draw(t, label+".s"), rapid.Int64Range(0, 999999999).Draw(t, label+".ns")).UTC(), "any"
	default:
		return time.Unix(rapid.Int64Range(1500000000, 1900000000).Draw(t, label+".s"), rapid.Int64Range(0, 999999999).Draw(t, label+".ns")).UTC(), "real"
	}
}

func timeOK(x time.Time) bool { return x.Unix() >= minSec && x.Unix() <= maxSec }

func mutTime(t *rapid.T, label string, old time.Time) (time.Time, string) {
	deltas := []time.Duration{time.Nanosecond, -time.Nanosecond, time.Microsecond, time.Second, -time.Second, 1 << 32 * time.Nanosecond, time.Hour}
	for {
		var n time.Time
		var how string
		if pick(t, label+".how", 5) == 0 {
			n, how = time.Unix(rapid.Int64Range(minSec, maxSec).Draw(t, label+".s"), rapid.Int64Range(0, 999999999).Draw(t, label+".ns")).UTC(), "rnd"
		} else {
			d := deltas[pick(t, label+".d", len(deltas))]
			n, how = old.Add(d), d.String()
			if !timeOK(n) {
				n, how = old.Add(-d), (-d).String()
			}
		}
		if timeOK(n) && !n.Equal(old) {
			return n, how
		}
	}
}

func genBlockID(t *rapid.T, label string) types.BlockID {
	switch pick(t, label+".kind", 8) {
	case 0, 1:
		return types.BlockID{}
	case 2: // few distinct values
		return types.BlockID{Hash: common.Hash{byte(1 + pick(t, label+".h", 3))}, PartsHeader: types.PartSetHeader{Total: uint32(1 + pick(t, label+".t", 3)), Hash: common.Hash{31: byte(1 + pick(t, label+".p", 3))}}}
	default:
		var h, p common.Hash
		copy(h[:], rapid.SliceOfN(rapid.Byte(), 32, 32).Draw(t, label+".h"))
		copy(p[:], rapid.SliceOfN(rapid.Byte(), 32, 32).Draw(t, label+".p"))
		tot := uint32(rapid.IntRange(1, 20).Draw(t, label+".t"))
		if pick(t, label+".bigt", 6) == 0 {
			tot = rapid.Uint32().Draw(t, label+".T")
		}
		return types.BlockID{Hash: h, PartsHeader: types.PartSetHeader{Total: tot, Hash: p}}
	}
}

func genHeight(t *rapid.T, label string) uint64 {
	switch pick(t, label+".kind", 6) {
	case 0:
		return rapid.Uint64().Draw(t, label+".any")
	case 1:
		return rapid.SampledFrom([]uint64{0, 1, 127, 128, 255, 256, 1<<32 - 1, 1 << 32, 1<<63 - 1, 1 << 63, 1<<64 - 1}).Draw(t, label+".edge")
	default:
		return uint64(rapid.IntRange(1, 5000000).Draw(t, label))
	}
}

func genRound(t *rapid.T, label string) uint32 {
	switch pick(t, label+".kind", 6) {
	case 0:
		return rapid.Uint32().Draw(t, label+".any")
	case 1:
		return rapid.SampledFrom([]uint32{0, 1, 127, 128, 1<<31 - 1, 1 << 31, 1<<32 - 1}).Draw(t, label+".edge")
	default:
		return uint32(rapid.IntRange(0, 6).Draw(t, label))
	}
}

func bidText(b types.BlockID) string {
	if b.IsZero() {
		return "nil"
	}
	return fmt.Sprintf("%x/%d/%x", b.Hash[:], b.PartsHeader.Total, b.PartsHeader.Hash[:])
}

func tsText(x time.Time) string { return fmt.Sprintf("%d.%09d", x.Unix(), x.Nanosecond()) }

// ---------------------------------------------------------------- directed reproducers / regression tests

func signedVote(pv types.PrivValidator, chain string, v *types.Vote) error {
	p := v.ToProto()
	if err := pv.SignVote(chain, p); err != nil {
		return err
	}
	v.Signature = p.Signature
	return nil
}

func signedProposal(pv types.PrivValidator, chain string, pr *types.Proposal) error {
	p := pr.ToProto()
	if err := pv.SignProposal(chain, p); err != nil {
		return err
	}
	pr.Signature = p.Signature
	return nil
}

// verifyProposal is what consensus.defaultSetProposal does with a received proposal.
func verifyProposal(chain string, addr common.Address, pr *types.Proposal) bool {
	return types.VerifySignature(addr, crypto.Keccak256(types.ProposalSignBytes(chain, pr.ToProto())), pr.Signature)
}

func TestDirected(t *testing.T) {
	k := keyPool[0]
	pv := types.NewDefaultPrivValidator(k.k)
	bid := types.BlockID{Hash: common.Hash{1}, PartsHeader: types.PartSetHeader{Total: 1, Hash: common.Hash{2}}}

	// ---- D1 (known): a prevote signature verifies on the same vote retyped as a precommit, and the reverse.
	{
		reproduced := true
		for _, typ := range []kproto.SignedMsgType{kproto.PrevoteType, kproto.PrecommitType} {
			v := &types.Vote{ValidatorAddress: k.addr, ValidatorIndex: 0, Height: 7, Round: 1, Timestamp: time.Unix(1600000000, 5).UTC(), Type: typ, BlockID: bid}
			if err := signedVote(pv, "kai", v); err != nil {
				t.Fatalf("sign: %v", err)
			}
			if err := v.Verify("kai", k.addr); err != nil {
				t.Fatalf("own vote does not verify: %v", err)
			}
			x := v.Copy()
			if typ == kproto.PrevoteType {
				x.Type = kproto.PrecommitType
			} else {
				x.Type = kproto.PrevoteType
			}
			if x.Verify("kai", k.addr) != nil {
				reproduced = false
			}
		}
		ev.Count(2)
		ev.KnownReproduced(keyVoteType, reproduced)
	}

	// ---- D18 (fixed 357797f): SignTx must sign signer.Hash(tx); every signer kind, several keys and chain ids.
	{
		signers := []types.Signer{types.HomesteadSigner{}, types.FrontierSigner{}}
		for _, c := range []int64{1, 2, 24, 69, 242, 1 << 40} {
			signers = append(signers, types.NewChainIDSigner(big.NewInt(c)))
		}
		to := common.Address{5}
		for ki := 0; ki < 6; ki++ {
			kk := keyPool[ki]
			for si, s := range signers {
				for _, utx := range []*types.Transaction{
					types.NewTransaction(uint64(ki), to, big.NewInt(7), 21000, big.NewInt(2), []byte{1, 2}),
					types.NewContractCreation(3, big.NewInt(0), 90000, big.NewInt(1), []byte{0x60, 0x00}),
				} {
					var tx *types.Transaction
					var from common.Address
					var err error
					ev.Guard(t, nil, func() {
						tx, err = types.SignTx(s, utx, kk.k)
						if err == nil {
							from, err = types.Sender(s, tx)
						}
					})
					ev.Count(1)
					if err != nil || from != kk.addr {
						ev.Violation(t, keySignTx, fmt.Sprintf("key#%d signer#%d", ki, si),
							"types.SignTx then types.Sender with the same signer (%T chain %v) returned %x, err %v; the signing key's address is %x",
							s, s.ChainID(), from[:], err, kk.addr[:])
					}
				}
			}
		}
	}

	// ---- fixed 3cacbf1: VerifySignature (Vote.Verify, proposal verification) panicked on malformed signatures
	// instead of rejecting them: any signature shorter than 65 bytes, and 65 bytes with r == curve order.
	{
		v := &types.Vote{ValidatorAddress: k.addr, Height: 7, Round: 1, Timestamp: time.Unix(1600000000, 5).UTC(), Type: kproto.PrevoteType, BlockID: bid}
		if err := signedVote(pv, "kai", v); err != nil {
			t.Fatalf("sign: %v", err)
		}
		pr := &types.Proposal{Height: 7, Round: 1, POLRound: 0, Timestamp: time.Unix(1600000000, 5).UTC(), POLBlockID: bid}
		if err := signedProposal(pv, "kai", pr); err != nil {
			t.Fatalf("sign: %v", err)
		}
		probe := func(key, what string, sig []byte) {
			x := v.Copy()
			x.Signature = sig
			if x.ValidateBasic() != nil { // what a peer message has to pass before it reaches Verify
				t.Fatalf("reproducer vote does not pass ValidateBasic")
			}
			var e error
			p1, _ := ev.Try(func() { e = x.Verify("kai", k.addr) })
			y := *pr
			y.Signature = sig
			var acc bool
			p2, _ := ev.Try(func() { acc = verifyProposal("kai", k.addr, &y) })
			ev.Count(2)
			if p1 != "" || p2 != "" {
				ev.Violation(t, key, fmt.Sprintf("%s sig=%x", what, sig), "verification of a vote/proposal carrying %s panics instead of rejecting: vote: %q proposal: %q", what, p1, p2)
			}
			if e == nil || acc {
				ev.Violation(t, keyGarbageVote, fmt.Sprintf("%s sig=%x", what, sig), "%s accepted as the validator's signature (vote err=%v, proposal accepted=%v)", what, e, acc)
			}
		}
		probe(keyPanicShort, "a 64-byte signature", v.Signature[:64])
		probe(keyPanicShort, "a 1-byte signature", []byte{1})
		probe(keyPanicROrder, "a signature with r = curve order, s = 1, v = 0", sig65(curveN, big.NewInt(1), 0))
		probe(keyPanicROrder, "a signature with r = curve order, genuine s, v = 1", sig65(curveN, new(big.Int).SetBytes(v.Signature[32:64]), 1))
	}
}
