package c17

import (
	"fmt"
	"math/big"
	"os"
	"path/filepath"
	"testing"
	"time"

	"pgregory.net/rapid"

	"github.com/kardiachain/go-kardia/configs"
	"github.com/kardiachain/go-kardia/lib/common"
	"github.com/kardiachain/go-kardia/mainchain/tx_pool"
	"github.com/kardiachain/go-kardia/types"

	"verifharness/internal/ev"
)

var (
	pricePalette = []int64{1, 2, 3, 5, 10, 11, 12, 15, 16, 17, 20, 22, 50, 55, 100, 109, 110, 111}
	minPrices    = []int64{1, 2, 5, 10, 20}
	balPalette   = []int64{1000000000000, 5000000, 1000000, 100000, 29000, 28999, 0}
	gasLimits    = []uint64{1000000, 1000000, 1000000, 100000, 50000, 30000, 25000}
)

func ri(t *rapid.T, label string, lo, hi int) int { return rapid.IntRange(lo, hi).Draw(t, label) }
func chance(t *rapid.T, label string, n int) bool { return rapid.IntRange(0, n-1).Draw(t, label) == 0 }

// newWorld draws a configuration and an initial head and starts a pool on it.
func newWorld(t *rapid.T, dir string) *world {
	w := &world{t: t, meta: map[common.Hash]*txMeta{}, journaled: map[common.Hash]bool{}, notMarked: map[common.Hash]bool{}}
	cfg := tx_pool.TxPoolConfig{
		Journal:      "",
		Rejournal:    time.Hour,
		PriceLimit:   uint64(rapid.SampledFrom([]int64{1, 1, 2, 5}).Draw(t, "pricelimit")),
		PriceBump:    10,
		AccountSlots: uint64(ri(t, "accountslots", 2, 4)),
		GlobalSlots:  uint64(ri(t, "globalslots", 4, 8)),
		AccountQueue: uint64(ri(t, "accountqueue", 2, 4)),
		GlobalQueue:  uint64(ri(t, "globalqueue", 4, 8)),
		Lifetime:     time.Duration(ri(t, "lifetime_h", 1, 48)) * time.Hour, // never reached by the wall clock; see expire
	}
	cfg.NoLocals = chance(t, "nolocals", 8)
	if chance(t, "cfglocal", 6) {
		cfg.Locals = []common.Address{accts[ri(t, "cfglocalacct", 0, 3)].addr}
	}
	w.journal = dir != "" && chance(t, "journal", 3)
	if w.journal {
		cfg.Journal = filepath.Join(dir, "transactions.rlp")
	}
	w.cfg = cfg
	w.minPrice = int64(cfg.PriceLimit)
	w.fork = rapid.SampledFrom([]uint64{0, 2, 4, 1 << 40}).Draw(t, "galaxias")
	fork := w.fork
	w.ccfg = &configs.ChainConfig{ChainID: big.NewInt(chainID), GalaxiasBlock: &fork}

	w.head = headModel{gasLimit: 1000000}
	for i := range accts {
		w.head.bal[i] = big.NewInt(rapid.SampledFrom(balPalette[:5]).Draw(t, "bal0"))
		w.head.nonce[i] = uint64(rapid.SampledFrom([]int{0, 0, 1, 5}).Draw(t, "nonce0"))
	}
	w.head.nonce[blkAcct] = 1000
	w.ch = newChain(w.head)
	w.logf("cfg AS=%d GS=%d AQ=%d GQ=%d limit=%d nolocals=%v cfglocals=%d journal=%v fork=%d | head %s",
		cfg.AccountSlots, cfg.GlobalSlots, cfg.AccountQueue, cfg.GlobalQueue, cfg.PriceLimit, cfg.NoLocals, len(cfg.Locals), w.journal, w.fork, w.headText())
	ev.Guard(t, w.text, func() { w.pool = tx_pool.NewTxPool(cfg, w.ccfg, w.ch) })
	w.snap = w.observe("start", true)
	return w
}

func (w *world) headText() string {
	s := fmt.Sprintf("h%d gl=%d", w.head.height, w.head.gasLimit)
	for i := range accts {
		s += fmt.Sprintf(" a%d:n%d/b%s", i, w.head.nonce[i], w.head.bal[i])
	}
	return s
}

func (w *world) stop() {
	if w.pool != nil {
		w.pool.Stop()
		w.pool = nil
	}
}

func (w *world) register(m *txMeta) *txMeta {
	if old := w.meta[m.hash]; old != nil {
		return old
	}
	w.meta[m.hash] = m
	w.order = append(w.order, m.hash)
	return m
}

// pooled returns the pooled transactions of one account (pending then queued).
func (s *snapshot) pooled(i int) []common.Hash {
	return append(append([]common.Hash{}, s.pend[i]...), s.queue[i]...)
}

func (s *snapshot) holds(w *world, from int, nonce uint64) *txMeta {
	for _, h := range s.pooled(from) {
		if m := w.meta[h]; m != nil && m.nonce == nonce {
			return m
		}
	}
	return nil
}

// ---------------------------------------------------------------- submissions built relative to the current state

// genTx draws one submission. vnext carries the "next nonce" per sender inside a batch so that batch items chain.
// The returned labels are generator-health classes only; the oracle judges the built transaction by its fields.
func (w *world) genTx(t *rapid.T, local bool, vnext *[nAcct]uint64) (*txMeta, string, string) {
	s := w.snap
	from := ri(t, "from", 0, 3)
	// mostly a sender that can pay for something at the current head
	minFee := new(big.Int).Mul(big.NewInt(w.minPrice), big.NewInt(map[bool]int64{true: 29000, false: 21000}[w.legacy()]))
	var solvent []int
	for i := 0; i < 4; i++ {
		if w.head.bal[i].Cmp(minFee) >= 0 {
			solvent = append(solvent, i)
		}
	}
	if len(solvent) > 0 && w.head.bal[from].Cmp(minFee) < 0 && !chance(t, "broke-sender", 8) {
		from = solvent[ri(t, "solvent", 0, len(solvent)-1)]
	}
	pooled := s.pooled(from)

	// resubmissions: the very same transaction again, pooled (duplicate) or no longer pooled (mined, dropped, replaced)
	switch k := ri(t, "kind", 0, 19); {
	case k == 17 && len(pooled) > 0:
		return w.meta[pooled[ri(t, "dup", 0, len(pooled)-1)]], "dup", ""
	case k >= 18 && len(w.order) > 0:
		m := w.meta[w.order[ri(t, "old", 0, len(w.order)-1)]]
		if s.where[m.hash] == 0 {
			return m, "resubmit-old", ""
		}
		return m, "dup", ""
	case k >= 13 && k <= 16 && len(pooled) > 0:
		// same nonce as a pooled transaction: price below / at / above the required bump
		old := w.meta[pooled[ri(t, "victim", 0, len(pooled)-1)]]
		need := (old.price*int64(100+w.cfg.PriceBump) + 99) / 100 // exact requirement, rounded up
		if need <= old.price {
			need = old.price + 1
		}
		var price int64
		var sub string
		switch ri(t, "bump", 0, 5) {
		case 0:
			price, sub = old.price, "same"
		case 1:
			price, sub = need-1, "below"
		case 2, 3:
			price, sub = need, "at"
		case 4:
			price, sub = need+int64(ri(t, "over", 1, 10)), "above"
		default:
			price, sub = old.price-1, "lower"
		}
		if price < 0 {
			price = 0
		}
		sp := txSpec{from: from, nonce: old.nonce, price: price, gas: old.gas, value: new(big.Int).Set(old.value), dataLen: old.dataLen, create: old.create, sig: ri(t, "sig", 0, 1)}
		if chance(t, "othervalue", 2) || price == old.price {
			sp.value = big.NewInt(int64(ri(t, "val", 0, 7)))
		}
		// keep it affordable if the balance allows (a replacement costs more)
		if c := new(big.Int).Mul(big.NewInt(price), new(big.Int).SetUint64(sp.gas)); c.Add(c, sp.value).Cmp(w.head.bal[from]) > 0 {
			sp.value = big.NewInt(0)
		}
		return w.register(buildTx(sp)), "replace-" + sub, ""
	}

	// a fresh transaction: valid by construction against the current head
	sp := txSpec{from: from, sig: ri(t, "sig", 0, 1), value: big.NewInt(0)}
	next := vnext[from]
	switch ri(t, "noncekind", 0, 9) {
	case 0, 1, 2:
		off := uint64(ri(t, "gap", 1, 3))
		sp.nonce = next + off
		for s.holds(w, from, sp.nonce) != nil {
			sp.nonce++
		}
	default:
		sp.nonce = next
		vnext[from] = next + 1
	}
	kind := "next"
	if sp.nonce != next {
		kind = "gapped"
	}
	sp.dataLen = rapid.SampledFrom([]int{0, 0, 0, 0, 0, 0, 1, 4, 32}).Draw(t, "datalen")
	sp.create = chance(t, "create", 12)
	probe := &txMeta{dataLen: sp.dataLen, create: sp.create}
	_, probe.nz = specData(sp)
	intr := probe.intrinsic(w.legacy())
	gases := []uint64{intr, intr, intr + 1, 50000, 90000, w.head.gasLimit}
	var okGas []uint64
	for _, g := range gases {
		if g >= intr && g <= w.head.gasLimit {
			okGas = append(okGas, g)
		}
	}
	if len(okGas) == 0 {
		okGas = []uint64{intr} // the block gas limit is below the intrinsic gas: nothing can be valid
	}
	sp.gas = okGas[ri(t, "gas", 0, len(okGas)-1)]
	isLocal := (local && !w.cfg.NoLocals) || s.locals[from]
	var okPrice []int64
	for _, p := range pricePalette {
		if p >= w.minPrice {
			okPrice = append(okPrice, p)
		}
	}
	sp.price = okPrice[ri(t, "price", 0, len(okPrice)-1)]
	if isLocal && chance(t, "localcheap", 4) {
		sp.price = int64(ri(t, "cheap", 0, int(w.minPrice)))
	}
	// affordable if the balance allows it at all
	bal := w.head.bal[from]
	fee := func() *big.Int { return new(big.Int).Mul(big.NewInt(sp.price), new(big.Int).SetUint64(sp.gas)) }
	if fee().Cmp(bal) > 0 {
		sp.price = w.minPrice
		if fee().Cmp(bal) > 0 {
			sp.gas = intr
		}
	}
	if room := new(big.Int).Sub(bal, fee()); room.Sign() > 0 {
		switch ri(t, "valuekind", 0, 5) {
		case 3:
			sp.value = room // cost is exactly the balance
		case 4:
			sp.value = new(big.Int).Rsh(room, 1)
		case 5:
			sp.value = big.NewInt(1)
		}
	}

	// one fault with probability 1/4
	fault := ""
	if chance(t, "fault", 4) {
		switch ri(t, "faultkind", 0, 9) {
		case 9:
			fault = "oversized"
			sp.dataLen, sp.zeroData, sp.create = 128*1024+1, true, false
			sp.gas = 29000 + 4*uint64(sp.dataLen)
			if sp.gas > w.head.gasLimit {
				sp.gas = w.head.gasLimit
			}
			sp.price, sp.value = w.minPrice, big.NewInt(0)
		case 1:
			fault = "gas-above-limit"
			sp.gas = w.head.gasLimit + uint64(ri(t, "over", 1, 1000))
			sp.value = big.NewInt(0)
		case 2:
			fault = "negative-value"
			sp.value = big.NewInt(-int64(ri(t, "neg", 1, 1000000)))
		case 3:
			fault = "unaffordable"
			sp.value = new(big.Int).Add(new(big.Int).Sub(bal, fee()), big.NewInt(int64(ri(t, "short", 1, 3))))
			if sp.value.Sign() < 0 {
				sp.value = big.NewInt(0) // the fee alone is already too much
			}
		case 4:
			fault = "wrong-chain"
			sp.sig = 2
		case 5:
			fault = "underpriced" // not a fault for a local sender
			sp.price = int64(ri(t, "under", 0, int(w.minPrice)-1))
		case 6:
			if w.head.nonce[from] > 0 {
				fault = "stale-nonce"
				sp.nonce = w.head.nonce[from] - uint64(ri(t, "back", 1, int(min64(w.head.nonce[from], 2))))
			}
		case 7:
			fault = "intrinsic-gas"
			sp.gas = intr - uint64(ri(t, "lessgas", 1, 8000))
		case 8:
			fault = "blacklisted"
			sp.from = blkAcct
			sp.nonce = w.head.nonce[blkAcct]
			sp.price, sp.gas, sp.value = w.minPrice, intr, big.NewInt(0)
		default: // 0
			fault = "fee-above-balance"
			sp.price = new(big.Int).Div(bal, new(big.Int).SetUint64(sp.gas)).Int64() + 1
			sp.value = big.NewInt(0)
		}
		if fault != "" && sp.nonce == next && vnext[from] == next+1 && sp.from == from {
			vnext[from] = next // the faulty one will not take the slot
		}
	}
	return w.register(buildTx(sp)), kind, fault
}

func min64(a, b uint64) uint64 {
	if a < b {
		return a
	}
	return b
}

// judge returns the documented rule that makes the submission invalid ("" if none): the checks of validateTx and
// of addTxs, written from the rule texts in errors.go / tx_pool.go, evaluated on the harness's own records.
func (w *world) judge(m *txMeta, local bool, s *snapshot) string {
	isLocal := (local && !w.cfg.NoLocals) || s.locals[m.from]
	switch {
	case s.where[m.hash] != 0:
		return "already-known"
	case m.sig == 2:
		return "wrong-chain"
	case m.from == blkAcct:
		return "blacklisted"
	case m.dataLen > 128*1024:
		return "oversized"
	case m.value.Sign() < 0:
		return "negative-value"
	case m.gas > w.head.gasLimit:
		return "gas-above-limit"
	case !isLocal && m.price < w.minPrice:
		return "underpriced"
	case m.nonce < w.head.nonce[m.from]:
		return "stale-nonce"
	case m.cost().Cmp(w.head.bal[m.from]) > 0:
		return "unaffordable"
	case m.gas < m.intrinsic(w.legacy()):
		return "intrinsic-gas"
	}
	return ""
}

// bumpVerdict: +1 the new price certainly meets the required bump, -1 it certainly does not, 0 only under
// truncating division of old*(100+bump)/100 (the code's documented formula rounds down; not judged).
func bumpVerdict(oldPrice, newPrice int64, bump uint64) int {
	if newPrice <= oldPrice {
		return -1
	}
	if newPrice*100 >= oldPrice*int64(100+bump) {
		return 1
	}
	if newPrice < oldPrice*int64(100+bump)/100 {
		return -1
	}
	return 0
}

func errText(err error) string {
	if err == nil {
		return "ok"
	}
	return err.Error()
}

// submit performs one AddLocal(s) / AddRemotesSync call of 1..3 transactions and judges it.
func (w *world) submit(t *rapid.T) {
	local := chance(t, "local", 3)
	n := 1
	if chance(t, "batch", 4) {
		n = ri(t, "batchsize", 2, 3)
	}
	before := w.snap
	var vnext [nAcct]uint64
	for i := range accts {
		vnext[i] = w.head.nonce[i] + uint64(len(before.pend[i]))
	}
	pn := vnext
	var metas []*txMeta
	var txs []*types.Transaction
	line := "remote"
	if local {
		line = "local"
	}
	for i := 0; i < n; i++ {
		m, kind, fault := w.genTx(t, local, &vnext)
		dupInBatch := false
		for _, o := range metas {
			dupInBatch = dupInBatch || o.hash == m.hash
		}
		if dupInBatch {
			continue
		}
		metas = append(metas, m)
		txs = append(txs, m.tx)
		ev.Class("sub:" + kind)
		if fault != "" {
			ev.Class("fault:" + fault)
		}
		line += fmt.Sprintf(" [%s %s%s]", m, kind, map[bool]string{true: " fault=" + fault, false: ""}[fault != ""])
	}
	n = len(metas)
	// known finding local.addlocal-replace-not-marked: AddLocal that replaces a PENDING transaction of a sender that
	// is not local yet. Histories are abandoned there, so the generator goes that way only now and then.
	if local && !w.cfg.NoLocals {
		risk := false
		for _, m := range metas {
			if old := before.holds(w, m.from, m.nonce); old != nil && old.hash != m.hash && before.where[old.hash] == 1 && !before.locals[m.from] {
				risk = true
			}
		}
		if risk && !chance(t, "towards-known-finding", 8) {
			local = false
			line = "remote" + line[len("local"):]
		}
	}
	var errs []error
	ev.Guard(t, func() string { return w.text() + "\n" + line }, func() {
		if local {
			if n == 1 {
				errs = []error{w.pool.AddLocal(txs[0])}
			} else {
				errs = w.pool.AddLocals(txs)
			}
		} else {
			errs = w.pool.AddRemotesSync(txs)
		}
	})
	for i, e := range errs {
		line += fmt.Sprintf(" -> %s", errText(e))
		if e == nil {
			metas[i].accepted = true
			w.nAcc++
		} else {
			w.nRej++
			ev.Class("rej:" + e.Error())
		}
		w.nSub++
	}
	w.logf("%s", line)
	if local {
		w.lastLocalAdd = metas
	}
	after := w.observe("after submit", true)
	w.lastLocalAdd = nil
	limit := int(w.cfg.GlobalSlots + w.cfg.GlobalQueue)
	full := before.count()+n > limit // the pool-full branch of add may have been taken
	if full {
		w.limitHit = true
		ev.Class("sub:pool-full")
	}

	allRejected := true
	replaceAttempt := false
	for i, m := range metas {
		rule := w.judge(m, local, before)
		if rule == "already-known" && n > 1 && full {
			rule = "" // an earlier item of the batch may have evicted it: not single-valued
		}
		err := errs[i]
		allRejected = allRejected && err != nil
		if rule == "" {
			ev.Class("judged:valid")
		} else {
			ev.Class("judged:" + rule)
		}
		old := before.holds(w, m.from, m.nonce)
		for _, o := range metas[:i] {
			if o.from == m.from && o.nonce == m.nonce {
				old = o
			}
		}
		if old != nil && old.hash != m.hash {
			replaceAttempt = true
		}
		switch {
		case rule != "":
			// invalid by a documented rule: an error, whatever else is in the batch
			if err == nil {
				w.viol("reject."+rule+".accepted", "%s is invalid (%s) but the submission returned no error", m, rule)
			}
		case old != nil && old.hash != m.hash && n == 1:
			// same sender and nonce as a pooled transaction
			v := bumpVerdict(old.price, m.price, w.cfg.PriceBump)
			switch {
			case v == 0:
				ev.Class("bump:rounding-gap")
			case full:
				// making room comes first in add(): the cheapest remote transaction is evicted, and that may be the old
				// same-nonce transaction itself, after which the newcomer is no replacement any more. Not single-valued.
				ev.Class("bump:pool-full-not-judged")
			case v < 0:
				ev.Class("bump:insufficient")
				if err == nil {
					w.viol("replace.without-bump", "%s replaced %s: price %d -> %d is below the %d%% bump", m, old, old.price, m.price, w.cfg.PriceBump)
				}
				if after.where[old.hash] == 0 {
					w.viol("replace.old-lost", "%s was refused as replacement of %s but the old transaction left the pool", m, old)
				}
			case v > 0:
				ev.Class("bump:sufficient")
				if err != nil {
					w.viol("replace.refused-with-bump", "%s should replace %s (price %d -> %d meets the %d%% bump, pool not full): %v", m, old, old.price, m.price, w.cfg.PriceBump, err)
				} else {
					if after.where[old.hash] != 0 {
						w.viol("replace.old-still-pooled", "%s replaced %s but the old transaction is still pooled", m, old)
					}
					if after.where[m.hash] != before.where[old.hash] {
						w.viol("replace.misplaced", "%s replaced %s (list %d) and is now in list %d", m, old, before.where[old.hash], after.where[m.hash])
					}
				}
			}
		case old == nil && !full:
			// valid, not a replacement, room in the pool: must be accepted
			if err != nil {
				w.viol("accept.valid-rejected", "%s is valid and the pool has room (%d of %d), refused: %v", m, before.count(), limit, err)
			} else if n == 1 {
				s, exempt := m.from, after.locals[m.from]
				switch {
				case m.nonce == pn[s]:
					// executable, no gap: offered, unless it is beyond the per-account allowance of a remote sender
					if (exempt || len(before.pend[s]) < int(w.cfg.AccountSlots)) && after.where[m.hash] != 1 {
						w.viol("accept.executable-not-pending", "%s was accepted, closes no gap (next nonce %d) and is within the allowance, but is not offered (list %d)", m, pn[s], after.where[m.hash])
					}
				case m.nonce > pn[s]:
					if (exempt || (len(before.queue[s]) < int(w.cfg.AccountQueue) && before.nqueue < int(w.cfg.GlobalQueue))) && after.where[m.hash] != 2 {
						w.viol("accept.future-not-queued", "%s was accepted with a nonce gap (next nonce %d) and the queue limits are not reached, but it is in list %d", m, pn[s], after.where[m.hash])
					}
				}
			}
		}
		// AddLocals documents that the sender becomes local
		if local && err == nil && !w.cfg.NoLocals && !after.locals[m.from] {
			w.viol("local.addlocal-replace-not-marked", "AddLocal accepted %s but account %d is not in Locals()", m, m.from)
		}
		// the submitter's queue is capped by its own reorg run
		if err == nil && !after.locals[m.from] && len(after.queue[m.from]) > int(w.cfg.AccountQueue) && old == nil {
			w.viol("limit.account-queue", "remote account %d has %d queued after its own accepted submission, AccountQueue %d", m.from, len(after.queue[m.from]), w.cfg.AccountQueue)
		}
		if err == nil && old == nil {
			if q := after.queue[m.from]; len(q) > 0 && w.meta[q[0]].nonce == w.head.nonce[m.from]+uint64(len(after.pend[m.from])) && after.where[m.hash] != 0 {
				w.viol("promote.executable-left-queued", "after accepted %s account %d has nonce %d at the head of its queue, which is its next executable nonce", m, m.from, w.meta[q[0]].nonce)
			}
		}
		if w.journal && !w.cfg.NoLocals && err == nil && after.locals[m.from] {
			w.journaled[m.hash] = true
			if po := before.holds(w, m.from, m.nonce); local && po != nil && before.where[po.hash] == 1 && !before.locals[m.from] {
				// the circumstance of the known finding inside a batch whose later item made the sender local after all
				w.notMarked[m.hash] = true
			}
		}
	}
	// a refused submission leaves the pool as it was
	if allRejected && after.text != before.text {
		key := "reject.pool-changed"
		if full && replaceAttempt {
			// add() makes room (evicts the cheapest remote transactions) before it finds out that the newcomer is an
			// underpriced replacement
			key = "reject.replace-underpriced.evicts-others"
		}
		w.viol(key, "every transaction of the submission was refused (%v) but the pool changed:\n  before %s\n  after  %s", errs, before.text, after.text)
	}
	w.changeRules("submit", before, after, metas, false)
	if gone, _ := w.diff(before, after); len(gone) > 0 {
		for _, h := range gone {
			g, replaced := w.meta[h], false
			for _, m := range metas {
				replaced = replaced || (m.from == g.from && m.nonce == g.nonce && after.where[m.hash] != 0)
			}
			if !replaced {
				w.limitHit = true // evicted or truncated
				ev.Class("sub:evicted-other")
				break
			}
		}
	}
	w.snap = after
}

// ---------------------------------------------------------------- head reset

// genHead draws the next head relative to base and to what the pool held at the snapshot. Account 4 (blacklisted,
// never pooled) carries a nonce that is unique per height: the asynchronous test recognises the head by it.
func (w *world) genHead(t *rapid.T, base headModel, before *snapshot) (headModel, bool) {
	nh := base.clone()
	nh.height++
	nh.nonce[blkAcct] = 1000 + nh.height
	hard := false
	for i := 0; i < 4; i++ {
		pooled := before.pooled(i)
		if !chance(t, "touch", 2) {
			continue
		}
		switch ri(t, "noncechange", 0, 9) {
		case 0, 1, 2, 3: // the first k offered transactions were mined
			if k := len(before.pend[i]); k > 0 {
				k = ri(t, "mined", 1, k)
				nh.nonce[i] += uint64(k)
				if len(pooled) >= 2 {
					hard = true
				}
				if chance(t, "pay", 2) {
					for _, h := range before.pend[i][:k] {
						nh.bal[i].Sub(nh.bal[i], w.meta[h].cost())
					}
					if nh.bal[i].Sign() < 0 {
						nh.bal[i].SetInt64(0)
					}
				}
			}
		case 4: // mined elsewhere: the nonce jumps past what the pool offers
			nh.nonce[i] += uint64(ri(t, "jump", 1, 4))
			if len(pooled) >= 2 {
				hard = true
			}
		case 5: // the chain went back
			if nh.nonce[i] > 0 && chance(t, "back", 2) {
				nh.nonce[i] -= uint64(ri(t, "backby", 1, int(min64(nh.nonce[i], 2))))
			}
		}
		switch ri(t, "balchange", 0, 7) {
		case 0, 1: // just below / exactly / just above the cost of a pooled transaction
			if len(pooled) > 0 {
				c := w.meta[pooled[ri(t, "costof", 0, len(pooled)-1)]].cost()
				nb := new(big.Int).Add(c, big.NewInt(int64(ri(t, "delta", -1, 1))))
				if nb.Sign() < 0 {
					nb.SetInt64(0)
				}
				if nb.Cmp(nh.bal[i]) < 0 && len(pooled) >= 2 {
					hard = true
				}
				nh.bal[i] = nb
			}
		case 2:
			nb := big.NewInt(rapid.SampledFrom(balPalette).Draw(t, "newbal"))
			if nb.Cmp(nh.bal[i]) < 0 && len(pooled) >= 2 {
				hard = true
			}
			nh.bal[i] = nb
		}
	}
	if chance(t, "gaslimit", 5) {
		nh.gasLimit = rapid.SampledFrom(gasLimits).Draw(t, "newgaslimit")
	}
	return nh, hard
}

func (w *world) reset(t *rapid.T) {
	before := w.snap
	nh, hard := w.genHead(t, w.head, before)
	line := "reset"
	oldBlock := w.ch.CurrentBlock()
	newBlock := w.ch.push(nh)
	w.head = nh
	w.hardReset = w.hardReset || hard
	w.nReset++
	w.logf("%s -> %s", line, w.headText())
	ev.Guard(t, w.text, func() { w.pool.VerifC17Reset(oldBlock.Header(), newBlock.Header()) })
	after := w.observe("after reset", true)
	w.changeRules("reset", before, after, nil, true)
	// a reset promotes every account: nothing executable stays queued
	for i := range accts {
		if q := after.queue[i]; len(q) > 0 && w.meta[q[0]] != nil && w.meta[q[0]].nonce == w.head.nonce[i]+uint64(len(after.pend[i])) {
			w.viol("promote.executable-left-queued", "after the reset account %d has nonce %d at the head of its queue, which is its next executable nonce", i, w.meta[q[0]].nonce)
		}
	}
	w.snap = after
}

// ---------------------------------------------------------------- SetGasPrice

func (w *world) setPrice(t *rapid.T) {
	before := w.snap
	p := rapid.SampledFrom(minPrices).Draw(t, "newprice")
	w.logf("setgasprice %d (was %d)", p, w.minPrice)
	ev.Guard(t, w.text, func() { w.pool.SetGasPrice(big.NewInt(p)) })
	old := w.minPrice
	w.minPrice = p
	mid := w.observe("after SetGasPrice", false)
	gone, appeared := w.diff(before, mid)
	if len(appeared) > 0 {
		w.viol("content.resurrected.setprice", "%s entered the pool on SetGasPrice", w.describe(appeared[0]))
	}
	goneSet := map[common.Hash]bool{}
	for _, h := range gone {
		goneSet[h] = true
		m := w.meta[h]
		if before.locals[m.from] {
			continue // reported by changeRules below
		}
		if p <= old || m.price >= p {
			w.viol("setprice.dropped-well-priced", "SetGasPrice(%d, was %d) dropped %s", p, old, w.describe(h))
		}
	}
	if p > old {
		// documented: "drops all transactions below this threshold" (remote ones)
		for h := range before.where {
			if m := w.meta[h]; !before.locals[m.from] && m.price < p && !goneSet[h] {
				w.viol("setprice.kept-underpriced", "SetGasPrice(%d) kept remote %s", p, w.describe(h))
			}
		}
	}
	w.changeRules("setprice", before, mid, nil, false)
	ev.Guard(t, w.text, func() { w.pool.VerifC17Settle() })
	after := w.observe("after SetGasPrice + reorg run", true)
	w.changeRules("setprice-settle", mid, after, nil, false)
	w.snap = after
}

// ---------------------------------------------------------------- lifetime expiry

func (w *world) expire(t *rapid.T) {
	before := w.snap
	d := 2 * w.cfg.Lifetime
	var aged [nAcct]bool
	eligible := false
	line := "expire"
	for i := 0; i < 4; i++ {
		can := !before.locals[i] && len(before.queue[i]) > 0
		if chance(t, "age", 2) || (can && !chance(t, "skip-eligible", 4)) || (i == 3 && line == "expire") {
			aged[i] = true
			line += fmt.Sprintf(" a%d", i)
			eligible = eligible || can
		}
	}
	w.logf("%s", line)
	w.nExpire++
	ev.Guard(t, w.text, func() {
		for i := range aged {
			if aged[i] {
				w.pool.VerifC17AgeBeat(accts[i].addr, d)
			}
		}
		// the eviction ticker (1 ms) does the rest; waiting is bounded by iterations and never decides a verdict
		for it := 0; it < 400; it++ {
			time.Sleep(250 * time.Microsecond)
			if !eligible {
				if it >= 10 {
					break
				}
				continue
			}
			left := 0
			for i := range aged {
				if aged[i] && !before.locals[i] {
					_, q := w.pool.ContentFrom(accts[i].addr)
					left += len(q)
				}
			}
			if left == 0 {
				break
			}
		}
		// back to the present: no eviction can happen after this point
		for i := range aged {
			if aged[i] {
				w.pool.VerifC17AgeBeat(accts[i].addr, -d)
			}
		}
	})
	after := w.observe("after expiry", true)
	gone, _ := w.diff(before, after)
	evictedFrom := map[int]int{}
	for _, h := range gone {
		m := w.meta[h]
		switch {
		case before.locals[m.from]:
			// reported by changeRules
		case !aged[m.from]:
			w.viol("expire.evicted-active-account", "%s left the pool although account %d was not idle", w.describe(h), m.from)
		case before.where[h] != 2:
			w.viol("expire.evicted-pending", "%s was offered (pending) and left the pool on lifetime expiry", w.describe(h))
		}
		evictedFrom[m.from]++
	}
	for i, k := range evictedFrom {
		if !before.locals[i] && aged[i] && k != len(before.queue[i]) {
			w.viol("expire.partial", "lifetime expiry removed %d of %d queued transactions of account %d", k, len(before.queue[i]), i)
		}
	}
	switch {
	case !eligible:
		ev.Class("expire:none-eligible")
	case len(gone) > 0:
		ev.Class("expire:evicted")
		w.nEvicted++
	default:
		ev.Class("expire:not-observed")
	}
	w.changeRules("expire", before, after, nil, false)
	w.snap = after
}

// ---------------------------------------------------------------- stop -> journal -> restart

func (w *world) restart(t *rapid.T) {
	before := w.snap
	w.logf("restart")
	w.nRestart++
	ev.Guard(t, w.text, func() {
		w.pool.Stop()
		w.pool = tx_pool.NewTxPool(w.cfg, w.ccfg, w.ch)
	})
	w.minPrice = int64(w.cfg.PriceLimit)
	after := w.observe("after restart", true)
	cfgLocal := [nAcct]bool{}
	for _, a := range w.cfg.Locals {
		cfgLocal[acctIdx[a]] = true
	}
	for h := range after.where {
		m := w.meta[h]
		if m == nil {
			continue
		}
		switch {
		case !w.journal || w.cfg.NoLocals:
			w.viol("restart.not-empty", "%s is pooled after a restart without a journal", w.describe(h))
		case !m.accepted:
			w.viol("restart.never-accepted", "%s was never accepted and is pooled after the restart", w.describe(h))
		case !w.journaled[h]:
			w.viol("restart.not-local", "%s was not a local transaction and is pooled after the restart", w.describe(h))
		}
	}
	if w.journal && !w.cfg.NoLocals {
		// completeness where it is single-valued: a journaled transaction that was pooled at the stop, whose
		// (sender, nonce) was journaled only once, is pooled again (the head did not change)
		perNonce := map[[2]uint64]int{}
		for _, h := range w.order {
			if w.journaled[h] {
				perNonce[[2]uint64{uint64(w.meta[h].from), w.meta[h].nonce}]++
			}
		}
		kept, lost := 0, 0
		for _, h := range w.order {
			m := w.meta[h]
			if !w.journaled[h] || before.where[h] == 0 {
				continue
			}
			if after.where[h] != 0 {
				kept++
				continue
			}
			lost++
			if perNonce[[2]uint64{uint64(m.from), m.nonce}] == 1 {
				key := "restart.local-lost"
				if w.notMarked[h] {
					key = "local.addlocal-replace-not-marked"
				}
				w.viol(key, "%s was a pooled local transaction at the stop, is in the journal, and is gone after the restart", w.describe(h))
			}
		}
		ev.ClassN("restart:kept", int64(kept))
		ev.ClassN("restart:lost-superseded", int64(lost))
	}
	// the new pool rewrites the journal from what it holds now
	w.journaled = map[common.Hash]bool{}
	for h := range after.where {
		if m := w.meta[h]; m != nil && after.locals[m.from] {
			w.journaled[h] = true
		}
	}
	w.snap = after
}

// ---------------------------------------------------------------- the state machine

func TestPoolModel(t *testing.T) {
	steps := ev.Scale("STEPS", 40)
	dir, err := os.MkdirTemp("", "c17-journal-")
	if err != nil {
		t.Fatalf("tempdir: %v", err)
	}
	defer os.RemoveAll(dir)
	var expires, evictions int
	rapid.Check(t, func(t *rapid.T) {
		os.Remove(filepath.Join(dir, "transactions.rlp"))
		w := newWorld(t, dir)
		defer w.stop()
		n := ri(t, "steps", 1, steps)
		for s := 0; s < n && !w.abandoned; s++ {
			// nothing moves between two actions
			if cur := w.observe("idle", true); cur.text != w.snap.text {
				w.viol("content.changed-spontaneously", "the pool changed between two actions:\n  was %s\n  now %s", w.snap.text, cur.text)
			}
			switch a := ri(t, "action", 0, 19); {
			case a <= 11:
				w.submit(t)
			case a <= 14:
				w.reset(t)
			case a <= 16:
				w.setPrice(t)
			case a == 17:
				w.expire(t)
			default:
				if w.journal || chance(t, "plainrestart", 4) {
					w.restart(t)
				} else {
					w.submit(t)
				}
			}
		}
		expires += w.nExpire
		evictions += w.nEvicted
		classes := []string{}
		if w.journal {
			classes = append(classes, "hist:journal")
		}
		if w.cfg.NoLocals {
			classes = append(classes, "hist:nolocals")
		}
		if w.limitHit {
			classes = append(classes, "hist:limit-hit")
		}
		if w.hardReset {
			classes = append(classes, "hist:hard-reset")
		}
		if w.nRestart > 0 {
			classes = append(classes, "hist:restart")
		}
		if w.nEvicted > 0 {
			classes = append(classes, "hist:lifetime-eviction")
		}
		if w.abandoned {
			classes = append(classes, "hist:abandoned-at-known-finding")
		}
		ev.ClassN("actions", int64(n))
		ev.ClassN("submitted", int64(w.nSub))
		ev.ClassN("accepted", int64(w.nAcc))
		c := "hist"
		nontrivial := w.limitHit || w.hardReset
		if nontrivial {
			c = "hist:nontrivial"
		}
		ev.Case(nontrivial, w.text(), classes...)
		if ev.WantSample(c) {
			ev.Sample(c, w.text())
		}
	})
	ev.Note("sign_cache_hits", txCache.hits)
	ev.Note("sign_cache_misses", txCache.miss)
	// generator health, not a verdict: the eviction path must have been seen at all
	if expires > 200 && evictions == 0 {
		t.Fatalf("harness: %d expiry actions and the eviction ticker was never observed to act", expires)
	}
}
