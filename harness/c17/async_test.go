package c17

import (
	"fmt"
	"math/big"
	"runtime"
	"sync"
	"testing"
	"time"

	"pgregory.net/rapid"

	"github.com/kardiachain/go-kardia/kai/events"
	"github.com/kardiachain/go-kardia/types"

	"verifharness/internal/ev"
)

// The schedule clause: the same kind of histories against the pool's REAL asynchronous machinery. Two goroutines
// submit (AddRemotes does not wait for the reorg run; AddLocal(s) is the RPC path), a third publishes chain heads
// through the chain's event feed (picked up by TxPool.loop, which asks scheduleReorgLoop for a reset, exactly the
// production path) and calls SetGasPrice. Nothing waits for anything. The predicate is evaluated at quiescence.
// Which interleaving happens is up to the Go scheduler: exploration of OS schedules only.

type asyncOp struct {
	kind   string // "local", "remote", "remote-sync", "head", "price"
	metas  []*txMeta
	txs    []*types.Transaction
	block  *types.Block
	price  int64
	yields int
	errs   []error
	panicS string
	panicF string
}

// stuck reports, per account, whether the head of its queue is its next executable nonce.
func (w *world) stuck(s *snapshot) (r [nAcct]bool) {
	for i := range accts {
		q := s.queue[i]
		r[i] = len(q) > 0 && w.meta[q[0]] != nil && w.meta[q[0]].nonce == w.head.nonce[i]+uint64(len(s.pend[i]))
	}
	return
}

func (w *world) asyncRound(t *rapid.T, round int) {
	before := w.snap
	stuckBefore := w.stuck(before) // left over from an earlier round with a merged reset (see below)
	ev.Inflight(w.text())
	var vnext [nAcct]uint64
	for i := range accts {
		vnext[i] = w.head.nonce[i] + uint64(len(before.pend[i]))
	}
	heads := []headModel{w.head} // every head the pool may see during the round
	prices := []int64{w.minPrice}
	lanes := make([][]*asyncOp, 3)
	nops := ri(t, "ops", 2, 12)
	submitted := map[*txMeta][]*asyncOp{}
	var localAdds []*txMeta
	w.logf("async round %d", round)
	for k := 0; k < nops; k++ {
		op := &asyncOp{yields: ri(t, "yields", 0, 3)}
		switch a := ri(t, "asyncaction", 0, 11); {
		case a == 10 && len(heads) < 3:
			nh, hard := w.genHead(t, heads[len(heads)-1], before)
			w.hardReset = w.hardReset || hard
			op.kind, op.block = "head", w.ch.push(nh)
			heads = append(heads, nh)
			lanes[2] = append(lanes[2], op)
			w.nReset++
			w.logf("  lane2 head -> h%d gl=%d %s", nh.height, nh.gasLimit, headAccounts(nh))
			continue
		case a == 11 && len(prices) < 3:
			op.kind, op.price = "price", rapid.SampledFrom(minPrices).Draw(t, "newprice")
			prices = append(prices, op.price)
			lanes[2] = append(lanes[2], op)
			w.logf("  lane2 setgasprice %d", op.price)
			continue
		}
		local := chance(t, "local", 3)
		n := 1
		if chance(t, "batch", 3) {
			n = ri(t, "batchsize", 2, 3)
		}
		for i := 0; i < n; i++ {
			m, _, _ := w.genTx(t, local, &vnext)
			dup := false
			for _, o := range op.metas {
				dup = dup || o.hash == m.hash
			}
			if !dup {
				op.metas = append(op.metas, m)
				op.txs = append(op.txs, m.tx)
			}
		}
		// keep away from the known finding (see submit)
		if local && !w.cfg.NoLocals {
			for _, m := range op.metas {
				if old := before.holds(w, m.from, m.nonce); old != nil && old.hash != m.hash && !before.locals[m.from] {
					local = false
				}
				for o := range submitted {
					if o.from == m.from && o.nonce == m.nonce && o.hash != m.hash && !before.locals[m.from] {
						local = false
					}
				}
			}
		}
		switch {
		case local:
			op.kind = "local"
			localAdds = append(localAdds, op.metas...)
		case chance(t, "sync", 4):
			op.kind = "remote-sync"
		default:
			op.kind = "remote"
		}
		lane := ri(t, "lane", 0, 1)
		lanes[lane] = append(lanes[lane], op)
		line := fmt.Sprintf("  lane%d %s", lane, op.kind)
		for _, m := range op.metas {
			submitted[m] = append(submitted[m], op)
			line += " [" + m.String() + "]"
		}
		w.logf("%s", line)
	}

	// run the three lanes concurrently
	var wg sync.WaitGroup
	start := make(chan struct{})
	for _, lane := range lanes {
		wg.Add(1)
		go func(ops []*asyncOp) {
			defer wg.Done()
			<-start
			for _, op := range ops {
				for y := 0; y < op.yields; y++ {
					runtime.Gosched()
				}
				op.panicS, op.panicF = ev.Try(func() {
					switch op.kind {
					case "local":
						if len(op.txs) == 1 {
							op.errs = []error{w.pool.AddLocal(op.txs[0])}
						} else {
							op.errs = w.pool.AddLocals(op.txs)
						}
					case "remote":
						op.errs = w.pool.AddRemotes(op.txs)
					case "remote-sync":
						op.errs = w.pool.AddRemotesSync(op.txs)
					case "head":
						w.ch.feed.Send(events.ChainHeadEvent{Block: op.block})
					case "price":
						w.pool.SetGasPrice(big.NewInt(op.price))
					}
				})
			}
		}(lane)
	}
	close(start)
	wg.Wait()
	for _, lane := range lanes {
		for _, op := range lane {
			if op.panicS != "" {
				w.viol("panic:"+op.panicF, "panic in %s: %s", op.kind, op.panicS)
			}
			line := "  result " + op.kind
			for i, e := range op.errs {
				line += fmt.Sprintf(" %s->%s", short(op.metas[i].hash), errText(e))
				if e == nil {
					op.metas[i].accepted = true
					w.nAcc++
				}
				w.nSub++
			}
			if len(op.errs) > 0 {
				w.logf("%s", line)
			}
		}
	}
	w.head = heads[len(heads)-1]
	w.minPrice = prices[len(prices)-1]

	// quiescence: (1) TxPool.loop has handed the last head to the reorg loop and that run has finished — seen through
	// the public Nonce() of the marker account, whose state nonce is unique per height; (2) one more (empty) reorg
	// run has completed, which implies every promotion requested by the submissions has run. Waiting is bounded and a
	// timeout is a harness failure, never a verdict.
	if len(heads) > 1 {
		ok := false
		for it := 0; it < 200000 && !ok; it++ {
			ev.Guard(t, w.text, func() { ok = w.pool.Nonce(accts[blkAcct].addr) == w.head.nonce[blkAcct] })
			if !ok {
				if it < 100 {
					runtime.Gosched()
				} else {
					time.Sleep(100 * time.Microsecond)
				}
			}
		}
		if !ok {
			t.Fatalf("harness: the pool did not reach the last published head (height %d) within the bound", w.head.height)
		}
	}
	ev.Guard(t, w.text, func() { w.pool.VerifC17Settle() })

	w.lastLocalAdd = localAdds
	after := w.observe("at quiescence", true)
	w.lastLocalAdd = nil
	if again := w.observe("at quiescence (second look)", true); again.text != after.text && !w.abandoned {
		t.Fatalf("harness: the pool is not quiescent:\n  first  %s\n  second %s", after.text, again.text)
	}
	if w.abandoned {
		return
	}
	if before.count()+len(submitted) > int(w.cfg.GlobalSlots+w.cfg.GlobalQueue) {
		w.limitHit = true
	}

	validThroughout := func(m *txMeta) bool {
		for _, h := range heads {
			if m.nonce < h.nonce[m.from] || m.cost().Cmp(h.bal[m.from]) > 0 || m.gas > h.gasLimit {
				return false
			}
		}
		return true
	}
	okOnce := func(m *txMeta) bool {
		for _, op := range submitted[m] {
			for i, o := range op.metas {
				if o == m && op.errs[i] == nil {
					return true
				}
			}
		}
		return false
	}
	for _, h := range w.order {
		m := w.meta[h]
		_, sub := submitted[m]
		in0, in1 := before.where[h] != 0, after.where[h] != 0
		// nothing enters the pool that was not submitted and accepted in this round
		if in1 && !in0 && !(sub && okOnce(m)) {
			if sub {
				w.viol("async.refused-but-pooled", "%s: every submission of it returned an error, yet it is pooled at quiescence", m)
			} else {
				w.viol("content.resurrected.async", "%s was not pooled and not submitted in this round, yet it is pooled at quiescence", m)
			}
		}
		if sub {
			// invalid whatever the interleaving: an error on every submission
			rule := ""
			switch {
			case m.sig == 2:
				rule = "wrong-chain"
			case m.from == blkAcct:
				rule = "blacklisted"
			case m.dataLen > 128*1024:
				rule = "oversized"
			case m.value.Sign() < 0:
				rule = "negative-value"
			case m.gas < m.intrinsic(false): // below even the post-fork intrinsic gas
				rule = "intrinsic-gas"
			default:
				stale, broke, heavy := true, true, true
				for _, hd := range heads {
					stale = stale && m.nonce < hd.nonce[m.from]
					broke = broke && m.cost().Cmp(hd.bal[m.from]) > 0
					heavy = heavy && m.gas > hd.gasLimit
				}
				switch {
				case stale:
					rule = "stale-nonce"
				case broke:
					rule = "unaffordable"
				case heavy:
					rule = "gas-above-limit"
				}
			}
			if rule != "" && okOnce(m) {
				w.viol("reject."+rule+".accepted", "%s is invalid (%s) under every head of the round but a submission returned no error", m, rule)
			}
		}
		// a transaction of a local account stays unless a same-nonce transaction was accepted or a head invalidated it
		if before.locals[m.from] && !in1 && (in0 || (sub && okOnce(m))) && validThroughout(m) {
			replaced := false
			for o := range submitted {
				replaced = replaced || (o != m && o.from == m.from && o.nonce == m.nonce && (okOnce(o) || after.where[o.hash] != 0))
			}
			if !replaced {
				w.viol("local.evicted.async", "%s of local account %d is gone at quiescence although it stayed valid under every head of the round and no same-nonce transaction was accepted", m, m.from)
			}
		}
	}
	// every enqueue is followed by a promotion request for its sender: once all requested runs have completed, no
	// account has its next executable nonce waiting at the head of its queue. Judged only in rounds WITHOUT a head
	// event: a reorg run that carries a reset promotes with the virtual nonces it has just reset to the state nonces
	// (Ready(start) returns nothing when the sender still has pending transactions below the queued one), so a
	// transaction enqueued just before a merged reset stays queued until its predecessors are mined or the sender
	// submits again. That delay is outside the property statement (what IS offered stays valid); it is counted only.
	for i, st := range w.stuck(after) {
		switch {
		case !st:
		case len(heads) > 1 || stuckBefore[i]:
			ev.Class("async:executable-left-queued-by-merged-reset(not judged)")
		default:
			w.viol("promote.executable-left-queued", "at quiescence (no head event in the round, not so before it) account %d has nonce %d at the head of its queue, which is its next executable nonce", i, w.meta[after.queue[i][0]].nonce)
		}
	}
	w.snap = after
}

func headAccounts(h headModel) string {
	s := ""
	for i := 0; i < 4; i++ {
		s += fmt.Sprintf("a%d:n%d/b%s ", i, h.nonce[i], h.bal[i])
	}
	return s
}

func TestPoolAsync(t *testing.T) { runAsync(t) }

// TestPoolAsyncRace is the same test, run by the driver on a -race binary (thorough tier only): a data race inside
// the pool makes the race detector fail the run.
func TestPoolAsyncRace(t *testing.T) { runAsync(t) }

func runAsync(t *testing.T) {
	maxRounds := ev.Scale("ROUNDS", 5)
	rapid.Check(t, func(t *rapid.T) {
		w := newWorld(t, "")
		defer w.stop()
		rounds := ri(t, "rounds", 1, maxRounds)
		for r := 0; r < rounds && !w.abandoned; r++ {
			w.asyncRound(t, r)
		}
		classes := []string{"async"}
		if w.limitHit {
			classes = append(classes, "async:limit-hit")
		}
		if w.hardReset {
			classes = append(classes, "async:hard-reset")
		}
		if w.abandoned {
			classes = append(classes, "async:abandoned-at-known-finding")
		}
		ev.ClassN("async:submitted", int64(w.nSub))
		ev.ClassN("async:accepted", int64(w.nAcc))
		ev.ClassN("async:heads", int64(w.nReset))
		nontrivial := w.limitHit || w.hardReset
		ev.Case(nontrivial, w.text(), classes...)
		if nontrivial && ev.WantSample("async:nontrivial") {
			ev.Sample("async:nontrivial", w.text())
		}
	})
}
