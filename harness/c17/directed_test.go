package c17

import (
	"math/big"
	"os"
	"path/filepath"
	"testing"
	"time"

	"github.com/kardiachain/go-kardia/configs"
	"github.com/kardiachain/go-kardia/kai/events"
	"github.com/kardiachain/go-kardia/lib/common"
	"github.com/kardiachain/go-kardia/mainchain/tx_pool"
	"github.com/kardiachain/go-kardia/types"

	"verifharness/internal/ev"
)

func directPool(t *testing.T, cfg tx_pool.TxPoolConfig) (*tx_pool.TxPool, *chain, *configs.ChainConfig) {
	head := headModel{gasLimit: 1000000}
	for i := range accts {
		head.bal[i] = big.NewInt(1000000000000)
	}
	fork := uint64(0)
	ccfg := &configs.ChainConfig{ChainID: big.NewInt(chainID), GalaxiasBlock: &fork}
	ch := newChain(head)
	return tx_pool.NewTxPool(cfg, ccfg, ch), ch, ccfg
}

func directCfg() tx_pool.TxPoolConfig {
	return tx_pool.TxPoolConfig{Rejournal: time.Hour, PriceLimit: 1, PriceBump: 10, AccountSlots: 4, GlobalSlots: 4, AccountQueue: 4, GlobalQueue: 4, Lifetime: time.Hour}
}

func plainTx(from int, nonce uint64, price int64, value int64) *types.Transaction {
	return buildTx(txSpec{from: from, nonce: nonce, price: price, gas: 21000, value: big.NewInt(value), sig: 1}).tx
}

func hasAddr(l []common.Address, a common.Address) bool {
	for _, x := range l {
		if x == a {
			return true
		}
	}
	return false
}

// TestDirected holds the reproducers of the known findings of C17.
func TestDirected(t *testing.T) {
	// --- local.addlocal-replace-not-marked
	func() {
		dir, err := os.MkdirTemp("", "c17-directed-")
		if err != nil {
			t.Fatalf("tempdir: %v", err)
		}
		defer os.RemoveAll(dir)
		cfg := directCfg()
		cfg.Journal = filepath.Join(dir, "transactions.rlp")
		pool, ch, ccfg := directPool(t, cfg)
		remote, localTx := plainTx(0, 0, 1, 0), plainTx(0, 0, 2, 0)
		if errs := pool.AddRemotesSync([]*types.Transaction{remote}); errs[0] != nil {
			t.Fatalf("harness: %v", errs[0])
		}
		errLocal := pool.AddLocal(localTx)
		marked := hasAddr(pool.Locals(), accts[0].addr)
		held := pool.Get(localTx.Hash()) != nil
		pool.Stop()
		pool = tx_pool.NewTxPool(cfg, ccfg, ch)
		survived := pool.Get(localTx.Hash()) != nil
		pool.Stop()
		// control: the same local transaction on an empty pool makes the sender local and survives the restart
		os.Remove(cfg.Journal)
		pool = tx_pool.NewTxPool(cfg, ccfg, ch)
		if err := pool.AddLocal(localTx); err != nil {
			t.Fatalf("harness: %v", err)
		}
		ctlMarked := hasAddr(pool.Locals(), accts[0].addr)
		pool.Stop()
		pool = tx_pool.NewTxPool(cfg, ccfg, ch)
		ctlSurvived := pool.Get(localTx.Hash()) != nil
		pool.Stop()
		if !ctlMarked || !ctlSurvived {
			t.Fatalf("harness: control failed (marked %v, survived %v)", ctlMarked, ctlSurvived)
		}
		t.Logf("AddLocal replacing a pending remote tx: err=%v held=%v sender in Locals()=%v, pooled after restart=%v", errLocal, held, marked, survived)
		ev.KnownReproduced("local.addlocal-replace-not-marked", errLocal == nil && held && !marked && !survived)
	}()

	// --- reject.replace-underpriced.evicts-others
	func() {
		pool, _, _ := directPool(t, directCfg()) // room for 4 + 4
		defer pool.Stop()
		var fill []*types.Transaction
		for n := uint64(0); n < 4; n++ {
			fill = append(fill, plainTx(0, n, 5, 0))
		}
		for n := uint64(0); n < 3; n++ {
			fill = append(fill, plainTx(1, n, 5, 0))
		}
		victim := plainTx(2, 0, 1, 0) // the cheapest remote transaction, unrelated to the submitter
		fill = append(fill, victim)
		for i, e := range pool.AddRemotesSync(fill) {
			if e != nil {
				t.Fatalf("harness: fill %d: %v", i, e)
			}
		}
		p0, q0 := pool.Stats()
		refused := plainTx(0, 1, 5, 7) // same sender and nonce as a pooled tx, same price: no bump
		err := pool.AddRemotesSync([]*types.Transaction{refused})[0]
		p1, q1 := pool.Stats()
		gone := pool.Get(victim.Hash()) == nil
		t.Logf("underpriced replacement into a full pool (%d+%d): err=%v, afterwards %d+%d, unrelated cheapest tx gone=%v", p0, q0, err, p1, q1, gone)
		ev.KnownReproduced("reject.replace-underpriced.evicts-others", err == tx_pool.ErrReplaceUnderpriced && gone && p0+q0 == 8 && p1+q1 == 7)
	}()

	// --- observation, NOT a finding of C17 (the property statement does not promise promotion): a reorg run that
	// carries a head reset promotes with the virtual nonces it has just reset to the state nonces, so a transaction
	// enqueued just before such a run is not promoted although it is executable. Made deterministic by holding the
	// previous run open with an unread NewTxsEvent subscription (public API). This is why TestPoolAsync judges
	// "nothing executable stays queued" only in rounds without head events.
	func() {
		pool, ch, _ := directPool(t, directCfg())
		defer pool.Stop()
		evs := make(chan events.NewTxsEvent)
		sub := pool.SubscribeNewTxsEvent(evs)
		defer sub.Unsubscribe()
		tx0, tx1 := plainTx(3, 0, 1, 0), plainTx(3, 1, 1, 0)
		hashes := []common.Hash{tx0.Hash(), tx1.Hash()}
		pool.AddRemotes([]*types.Transaction{tx0}) // run 1 promotes tx0 and then blocks announcing it
		ok := false
		for i := 0; i < 20000 && !ok; i++ {
			if ok = pool.Status(hashes)[0] == tx_pool.TxStatusPending; !ok {
				time.Sleep(100 * time.Microsecond)
			}
		}
		if !ok {
			t.Logf("observation skipped: first transaction not promoted within the bound")
			return
		}
		pool.AddRemotes([]*types.Transaction{tx1}) // enqueued; its promotion request waits for run 2
		old := ch.CurrentBlock()
		head := headModel{gasLimit: 1000000}
		for i := range accts {
			head.bal[i] = big.NewInt(1000000000000)
		}
		nb := ch.push(head) // same account state, next height
		done := pool.VerifC17RequestReset(old.Header(), nb.Header())
		go func() {
			for {
				select {
				case <-evs:
				case <-done:
					return
				}
			}
		}()
		<-done
		st := pool.Status(hashes)
		stuck := st[0] == tx_pool.TxStatusPending && st[1] == tx_pool.TxStatusQueued && pool.Nonce(accts[3].addr) == 1
		t.Logf("observation: tx nonce 1 enqueued before a reorg run that merged a head reset: status %v, Nonce()=%d -> executable but left queued: %v", st, pool.Nonce(accts[3].addr), stuck)
		ev.Note("observation_promotion_skipped_by_merged_reset", stuck)
	}()
}
