// C17 — the transaction pool only offers executable transactions and respects its limits.
//
// A real tx_pool.TxPool runs over a scripted chain (this file implements the pool's blockChain interface with a
// real StateDB per head).  Histories of submissions, head resets, price changes, lifetime expiry and journal
// restarts are generated relative to the current pool/chain state; after EVERY action a validity predicate is
// evaluated on what the pool exposes (Pending/Content/ContentFrom/Stats/Nonce/Get/Status/Locals) against the
// harness's own record of the chain state and of every transaction it ever built.  The predicate never looks at
// what the pool "should contain" (many contents are correct); single-valued per-action expectations are added
// where the documented rules leave no choice.
package c17

import (
	"crypto/ecdsa"
	"fmt"
	"math/big"
	"os"
	"strings"
	"sync"
	"testing"
	"time"

	"github.com/kardiachain/go-kardia/configs"
	"github.com/kardiachain/go-kardia/kai/events"
	"github.com/kardiachain/go-kardia/kai/kaidb/memorydb"
	"github.com/kardiachain/go-kardia/kai/state"
	"github.com/kardiachain/go-kardia/lib/common"
	"github.com/kardiachain/go-kardia/lib/crypto"
	"github.com/kardiachain/go-kardia/lib/event"
	"github.com/kardiachain/go-kardia/mainchain/tx_pool"
	"github.com/kardiachain/go-kardia/trie"
	"github.com/kardiachain/go-kardia/types"

	"verifharness/internal/ev"
)

// ---------------------------------------------------------------- accounts

const (
	nAcct   = 5 // 0..3 ordinary senders, 4 is blacklisted for the whole process
	blkAcct = 4
	chainID = 242
)

type acct struct {
	key  *ecdsa.PrivateKey
	addr common.Address
}

var (
	accts   [nAcct]acct
	acctIdx = map[common.Address]int{}
	signers = []types.Signer{types.HomesteadSigner{}, types.NewChainIDSigner(big.NewInt(chainID)), types.NewChainIDSigner(big.NewInt(7))}
	sigName = []string{"H", "C", "X"}
)

func init() {
	for i := range accts {
		k, err := crypto.ToECDSA(crypto.Keccak256([]byte(fmt.Sprintf("c17-sender-%d", i))))
		if err != nil {
			panic(err)
		}
		accts[i] = acct{k, crypto.PubkeyToAddress(k.PublicKey)}
		acctIdx[accts[i].addr] = i
	}
}

func TestMain(m *testing.M) {
	ev.Init("C17")
	// the eviction ticker of every pool created below fires every millisecond; nothing is ever old enough to be
	// evicted unless the harness moves an account's heartbeat into the past (expire action)
	tx_pool.VerifC17SetEvictionInterval(time.Millisecond)
	// the blacklist is a process-wide map that the node fills from an HTTP fetch; set once, before any pool exists
	tx_pool.Blacklisted[accts[blkAcct].addr.Hex()] = true
	rc := m.Run()
	ev.Flush()
	os.Exit(rc)
}

// ---------------------------------------------------------------- scripted chain

// headModel is the harness's own record of one chain head; the oracle reads only this, never the StateDB.
type headModel struct {
	height   uint64
	nonce    [nAcct]uint64
	bal      [nAcct]*big.Int
	gasLimit uint64
}

func (h headModel) clone() headModel {
	c := h
	for i := range c.bal {
		c.bal[i] = new(big.Int).Set(h.bal[i])
	}
	return c
}

type chain struct {
	mu     sync.Mutex
	blocks []*types.Block
	states []*state.StateDB // one master per height, never handed out (StateAt returns a copy)
	feed   event.Feed
}

func newChain(m headModel) *chain {
	c := &chain{}
	c.push(m)
	return c
}

// push appends a head with the given account state; the block is linked to its parent by LastBlockID.
func (c *chain) push(m headModel) *types.Block {
	c.mu.Lock()
	defer c.mu.Unlock()
	var st *state.StateDB
	if n := len(c.states); n == 0 {
		var err error
		if st, err = state.New(common.Hash{}, state.NewDatabase(memorydb.New()), nil); err != nil {
			panic(err)
		}
	} else {
		st = c.states[n-1].Copy()
	}
	for i := range accts {
		st.SetNonce(accts[i].addr, m.nonce[i])
		st.SetBalance(accts[i].addr, new(big.Int).Set(m.bal[i]))
	}
	hdr := &types.Header{Height: uint64(len(c.blocks)), GasLimit: m.gasLimit}
	if n := len(c.blocks); n > 0 {
		hdr.LastBlockID = types.BlockID{Hash: c.blocks[n-1].Hash()}
	}
	b := types.NewBlock(hdr, nil, nil, nil, trie.NewStackTrie(nil))
	c.blocks = append(c.blocks, b)
	c.states = append(c.states, st)
	return b
}

func (c *chain) CurrentBlock() *types.Block {
	c.mu.Lock()
	defer c.mu.Unlock()
	return c.blocks[len(c.blocks)-1]
}

func (c *chain) GetBlock(hash common.Hash, number uint64) *types.Block {
	c.mu.Lock()
	defer c.mu.Unlock()
	if number < uint64(len(c.blocks)) && c.blocks[number].Hash() == hash {
		return c.blocks[number]
	}
	return nil
}

func (c *chain) StateAt(height uint64) (*state.StateDB, error) {
	c.mu.Lock()
	defer c.mu.Unlock()
	if height >= uint64(len(c.states)) {
		return nil, fmt.Errorf("no state at height %d", height)
	}
	return c.states[height].Copy(), nil
}

func (c *chain) SubscribeChainHeadEvent(ch chan<- events.ChainHeadEvent) event.Subscription {
	return c.feed.Subscribe(ch)
}

// ---------------------------------------------------------------- transactions as the harness built them

type txMeta struct {
	tx      *types.Transaction
	hash    common.Hash
	from    int
	nonce   uint64
	price   int64
	gas     uint64
	value   *big.Int
	dataLen int
	nz      int // non-zero data bytes
	create  bool
	sig     int // index into signers; 2 = foreign chain id
	// bookkeeping
	accepted bool // some submission of it returned nil
}

func (m *txMeta) cost() *big.Int {
	c := new(big.Int).Mul(big.NewInt(m.price), new(big.Int).SetUint64(m.gas))
	return c.Add(c, m.value)
}

func (m *txMeta) String() string {
	s := fmt.Sprintf("a%d/n%d/p%d/g%d/v%s/d%d%s", m.from, m.nonce, m.price, m.gas, m.value, m.dataLen, sigName[m.sig])
	if m.create {
		s += "/create"
	}
	return s
}

// intrinsic gas written from the documented schedule (configs/params.go: 21 000, 29 000 before Galaxias, 53 000 for
// contract creation, 68 per non-zero and 4 per zero data byte)
func (m *txMeta) intrinsic(legacy bool) uint64 {
	g := uint64(21000)
	if m.create {
		g = 53000
	} else if legacy {
		g = 29000
	}
	return g + 68*uint64(m.nz) + 4*uint64(m.dataLen-m.nz)
}

type txSpec struct {
	from     int
	nonce    uint64
	price    int64
	gas      uint64
	value    *big.Int
	dataLen  int
	zeroData bool
	create   bool
	sig      int
}

func specData(s txSpec) ([]byte, int) {
	if s.dataLen == 0 {
		return nil, 0
	}
	d := make([]byte, s.dataLen)
	nz := 0
	if !s.zeroData {
		for i := range d {
			d[i] = byte(i % 3)
			if d[i] != 0 {
				nz++
			}
		}
	}
	return d, nz
}

// Signing dominates the cost of a history (pure-Go secp256k1) and signatures are deterministic, so signed
// transactions are memoised per process by their fields; every history gets its own txMeta around the shared,
// immutable *types.Transaction.
type specKey struct {
	from            int
	nonce           uint64
	price           int64
	gas             uint64
	value           string
	dataLen         int
	zeroData, creat bool
	sig             int
}

var txCache = struct {
	sync.Mutex
	m     map[specKey]*txMeta
	bytes int
	hits  int64
	miss  int64
}{m: map[specKey]*txMeta{}}

func buildTx(s txSpec) *txMeta {
	k := specKey{s.from, s.nonce, s.price, s.gas, s.value.String(), s.dataLen, s.zeroData, s.create, s.sig}
	txCache.Lock()
	if c := txCache.m[k]; c != nil {
		txCache.hits++
		txCache.Unlock()
		cp := *c
		cp.value = new(big.Int).Set(c.value)
		return &cp
	}
	txCache.miss++
	txCache.Unlock()
	m := signTx(s)
	txCache.Lock()
	if txCache.bytes > 96<<20 {
		txCache.m, txCache.bytes = map[specKey]*txMeta{}, 0
	}
	c := *m
	txCache.m[k] = &c
	txCache.bytes += 700 + s.dataLen
	txCache.Unlock()
	return m
}

func signTx(s txSpec) *txMeta {
	data, nz := specData(s)
	var raw *types.Transaction
	if s.create {
		raw = types.NewContractCreation(s.nonce, s.value, s.gas, big.NewInt(s.price), data)
	} else {
		raw = types.NewTransaction(s.nonce, common.Address{0xc1, 0x07}, s.value, s.gas, big.NewInt(s.price), data)
	}
	tx, err := types.SignTx(signers[s.sig], raw, accts[s.from].key)
	if err != nil {
		panic(fmt.Sprintf("harness: cannot sign: %v", err))
	}
	return &txMeta{tx: tx, hash: tx.Hash(), from: s.from, nonce: s.nonce, price: s.price, gas: s.gas, value: new(big.Int).Set(s.value),
		dataLen: s.dataLen, nz: nz, create: s.create, sig: s.sig}
}

// ---------------------------------------------------------------- what the pool exposes, and the predicate on it

type snapshot struct {
	pend, queue [nAcct][]common.Hash
	where       map[common.Hash]int8 // 1 pending, 2 queued
	locals      [nAcct]bool
	npend       int
	nqueue      int
	text        string
}

func (s *snapshot) count() int { return s.npend + s.nqueue }

type world struct {
	t    tb
	cfg  tx_pool.TxPoolConfig
	ccfg *configs.ChainConfig
	fork uint64
	ch   *chain
	pool *tx_pool.TxPool
	head headModel

	minPrice int64
	meta     map[common.Hash]*txMeta
	order    []common.Hash // every transaction ever built in this history, in build order
	snap     *snapshot

	journal   bool
	journaled map[common.Hash]bool // accepted while the sender was local and a journal was active
	notMarked map[common.Hash]bool // accepted by AddLocal(s) as replacement of a pending tx of a sender that was not local

	log       []string
	abandoned bool // a listed known finding was reached; the rest of the history is not judged

	// last action, for attributing the local-flag clause
	lastLocalAdd []*txMeta

	// non-trivial rule + generator health
	limitHit, hardReset         bool
	nSub, nAcc, nRej, nReset    int
	nExpire, nEvicted, nRestart int
}

// tb is what the world needs from *rapid.T / *testing.T.
type tb interface {
	ev.TB
}

func (w *world) logf(f string, a ...interface{}) { w.log = append(w.log, fmt.Sprintf(f, a...)) }
func (w *world) text() string                   { return strings.Join(w.log, "\n") }

// viol reports an oracle failure. After a listed known finding the history is abandoned and judged no further.
func (w *world) viol(key, format string, a ...interface{}) {
	if w.abandoned {
		return
	}
	if ev.Violation(w.t, key, w.text(), format, a...) {
		w.abandoned = true
	}
}

func (w *world) legacy() bool { return w.head.height+1 < w.fork }

func short(h common.Hash) string { return fmt.Sprintf("%x", h[:3]) }

func (w *world) describe(h common.Hash) string {
	if m := w.meta[h]; m != nil {
		return short(h) + "=" + m.String()
	}
	return short(h) + "=?"
}

// observe reads everything the pool exposes and evaluates the validity predicate. settled says that a reorg run
// has completed since the last change (limits are enforced by reorg runs, not by SetGasPrice).
func (w *world) observe(tag string, settled bool) *snapshot {
	var (
		pending, cp, cq      map[common.Address]types.Transactions
		sp, sq               int
		locals               []common.Address
		nonces               [nAcct]uint64
		fromP, fromQ         [nAcct]types.Transactions
		cnt, cntLocal, slots int
		got                  []*types.Transaction
		status               []tx_pool.TxStatus
	)
	ev.Guard(w.t, w.text, func() {
		pending, _ = w.pool.Pending()
		cp, cq = w.pool.Content()
		sp, sq = w.pool.Stats()
		locals = w.pool.Locals()
		for i := range accts {
			nonces[i] = w.pool.Nonce(accts[i].addr)
			fromP[i], fromQ[i] = w.pool.ContentFrom(accts[i].addr)
		}
		cnt, cntLocal, slots = w.pool.VerifC17Lookup()
		got = make([]*types.Transaction, len(w.order))
		for i, h := range w.order {
			got[i] = w.pool.Get(h)
		}
		status = w.pool.Status(w.order)
	})
	s := &snapshot{where: map[common.Hash]int8{}}
	for _, a := range locals {
		i, ok := acctIdx[a]
		if !ok {
			w.viol("locals.unknown-account", "%s: Locals() lists %x which never sent anything", tag, a)
			continue
		}
		s.locals[i] = true
	}
	seenNonce := map[[2]uint64]common.Hash{}
	collect := func(kind int8, m map[common.Address]types.Transactions, dst *[nAcct][]common.Hash) {
		for a, txs := range m {
			i, ok := acctIdx[a]
			if !ok {
				w.viol("content.unknown-sender", "%s: list for unknown account %x", tag, a)
				continue
			}
			var prev uint64
			for j, tx := range txs {
				h := tx.Hash()
				mt := w.meta[h]
				if mt == nil {
					w.viol("content.unknown-tx", "%s: pool holds %x which was never submitted", tag, h)
					continue
				}
				if mt.from != i {
					w.viol("content.wrong-sender", "%s: %s listed under account %d", tag, w.describe(h), i)
				}
				if tx.Nonce() != mt.nonce {
					w.viol("content.altered-tx", "%s: %s reports nonce %d", tag, w.describe(h), tx.Nonce())
				}
				if j > 0 && mt.nonce <= prev {
					w.viol("content.not-sorted", "%s: account %d list kind %d not strictly increasing at %s", tag, i, kind, w.describe(h))
				}
				prev = mt.nonce
				if other, dup := s.where[h]; dup {
					if other != kind {
						w.viol("both.pending-and-queued", "%s: %s is pending and queued", tag, w.describe(h))
					} else {
						w.viol("content.listed-twice", "%s: %s listed twice", tag, w.describe(h))
					}
				}
				s.where[h] = kind
				k := [2]uint64{uint64(i), mt.nonce}
				if oh, dup := seenNonce[k]; dup && oh != h {
					w.viol("index.same-nonce-twice", "%s: account %d nonce %d held twice: %s and %s (a replaced transaction is not gone)", tag, i, mt.nonce, w.describe(oh), w.describe(h))
				}
				seenNonce[k] = h
				dst[i] = append(dst[i], h)
			}
		}
	}
	collect(1, cp, &s.pend)
	collect(2, cq, &s.queue)
	for i := range accts {
		s.npend += len(s.pend[i])
		s.nqueue += len(s.queue[i])
	}

	// Pending() is what is offered for inclusion: it must be the pending half of Content()
	for a, txs := range pending {
		i, ok := acctIdx[a]
		if !ok {
			w.viol("content.unknown-sender", "%s: Pending() list for unknown account %x", tag, a)
			continue
		}
		if !sameHashes(txs, s.pend[i]) {
			w.viol("api.pending-vs-content", "%s: Pending() and Content() disagree for account %d", tag, i)
		}
	}
	for i := range accts {
		if len(s.pend[i]) > 0 && len(pending[accts[i].addr]) == 0 {
			w.viol("api.pending-vs-content", "%s: Content() has pending txs of account %d, Pending() has none", tag, i)
		}
		if !sameHashes(fromP[i], s.pend[i]) || !sameHashes(fromQ[i], s.queue[i]) {
			w.viol("api.contentfrom", "%s: ContentFrom(account %d) disagrees with Content()", tag, i)
		}
	}

	// per sender: gap-free from the state nonce, individually affordable, within the block gas limit
	for i := range accts {
		for j, h := range s.pend[i] {
			m := w.meta[h]
			if m == nil {
				continue
			}
			want := w.head.nonce[i] + uint64(j)
			if m.nonce != want {
				if m.nonce < w.head.nonce[i] {
					w.viol("pending.stale-nonce", "%s: offered %s but state nonce of account %d is %d (already mined)", tag, w.describe(h), i, w.head.nonce[i])
				} else {
					w.viol("pending.nonce-gap", "%s: offered txs of account %d: position %d has nonce %d, want %d (state nonce %d)", tag, i, j, m.nonce, want, w.head.nonce[i])
				}
			}
			if m.value.Sign() < 0 {
				w.viol("pending.negative-value", "%s: offered %s", tag, w.describe(h))
			}
			if m.cost().Cmp(w.head.bal[i]) > 0 {
				w.viol("pending.unaffordable", "%s: offered %s costs %s, balance %s", tag, w.describe(h), m.cost(), w.head.bal[i])
			}
			if m.gas > w.head.gasLimit {
				w.viol("pending.over-gas-limit", "%s: offered %s, block gas limit %d", tag, w.describe(h), w.head.gasLimit)
			}
			if m.sig == 2 {
				w.viol("pending.foreign-chain", "%s: offered %s signed for another chain", tag, w.describe(h))
			}
			if m.from == blkAcct {
				w.viol("pending.blacklisted", "%s: offered %s from the blacklisted sender", tag, w.describe(h))
			}
		}
		for _, h := range s.queue[i] {
			if m := w.meta[h]; m != nil && m.nonce < w.head.nonce[i] {
				w.viol("queue.stale-nonce", "%s: queued %s but state nonce of account %d is %d", tag, w.describe(h), i, w.head.nonce[i])
			}
		}
		if want := w.head.nonce[i] + uint64(len(s.pend[i])); nonces[i] != want {
			w.viol("api.nonce", "%s: Nonce(account %d) = %d, state nonce %d + %d pending = %d", tag, i, nonces[i], w.head.nonce[i], len(s.pend[i]), want)
		}
	}

	// index: Stats, lookup size, Get and Status agree with the two lists
	if sp != s.npend || sq != s.nqueue {
		w.viol("api.stats", "%s: Stats() = %d/%d, Content() has %d/%d", tag, sp, sq, s.npend, s.nqueue)
	}
	if cnt != s.count() {
		w.viol("index.count", "%s: lookup holds %d transactions, lists hold %d", tag, cnt, s.count())
	}
	if slots != s.count() { // every transaction that can be accepted here is far below one 32 KiB slot
		w.viol("index.slots", "%s: lookup counts %d slots for %d single-slot transactions", tag, slots, s.count())
	}
	for i, h := range w.order {
		where := s.where[h]
		switch {
		case where == 0 && got[i] != nil:
			w.viol("index.orphan", "%s: Get(%s) finds a transaction that is in neither list", tag, w.describe(h))
		case where != 0 && (got[i] == nil || got[i].Hash() != h):
			w.viol("index.missing", "%s: %s is listed but Get does not find it", tag, w.describe(h))
		}
		want := tx_pool.TxStatusUnknown
		if where == 1 {
			want = tx_pool.TxStatusPending
		} else if where == 2 {
			want = tx_pool.TxStatusQueued
		}
		if status[i] != want {
			w.viol("api.status", "%s: Status(%s) = %d, want %d", tag, w.describe(h), status[i], want)
		}
	}

	// local flag of the index follows the local accounts
	wantLocal := 0
	for i := range accts {
		if s.locals[i] {
			wantLocal += len(s.pend[i]) + len(s.queue[i])
		}
	}
	if cntLocal != wantLocal {
		key := "index.local-flag"
		for _, m := range w.lastLocalAdd {
			if m.accepted && !w.cfg.NoLocals && !s.locals[m.from] {
				key = "local.addlocal-replace-not-marked"
			}
		}
		w.viol(key, "%s: %d transactions are flagged local in the lookup, the accounts in Locals() hold %d", tag, cntLocal, wantLocal)
	}

	// limits. Total: a remote transaction never takes the pool above GlobalSlots+GlobalQueue; locals may.
	gs, gq := int(w.cfg.GlobalSlots), int(w.cfg.GlobalQueue)
	if s.count() > gs+gq && s.count()-wantLocal > 0 {
		w.viol("limit.total", "%s: %d transactions pooled (%d of them remote), GlobalSlots+GlobalQueue = %d", tag, s.count(), s.count()-wantLocal, gs+gq)
	}
	if settled {
		if s.npend > gs {
			for i := range accts {
				if !s.locals[i] && len(s.pend[i]) > int(w.cfg.AccountSlots) {
					w.viol("limit.pending", "%s: %d pending > GlobalSlots %d and remote account %d holds %d > AccountSlots %d", tag, s.npend, gs, i, len(s.pend[i]), w.cfg.AccountSlots)
				}
			}
		}
		if s.nqueue > gq {
			for i := range accts {
				if !s.locals[i] && len(s.queue[i]) > 0 {
					w.viol("limit.queue", "%s: %d queued > GlobalQueue %d and remote account %d still has %d queued", tag, s.nqueue, gq, i, len(s.queue[i]))
				}
			}
		}
	}

	var b strings.Builder
	for i := range accts {
		if len(s.pend[i])+len(s.queue[i]) == 0 && !s.locals[i] {
			continue
		}
		fmt.Fprintf(&b, "a%d", i)
		if s.locals[i] {
			b.WriteString("L")
		}
		b.WriteString(" P[")
		for _, h := range s.pend[i] {
			b.WriteString(short(h) + " ")
		}
		b.WriteString("] Q[")
		for _, h := range s.queue[i] {
			b.WriteString(short(h) + " ")
		}
		b.WriteString("]; ")
	}
	s.text = b.String()
	return s
}

func sameHashes(txs types.Transactions, hs []common.Hash) bool {
	if len(txs) != len(hs) {
		return false
	}
	for i := range txs {
		if txs[i].Hash() != hs[i] {
			return false
		}
	}
	return true
}

// diff returns what left and what entered the pool between two snapshots, in build order.
func (w *world) diff(before, after *snapshot) (gone, appeared []common.Hash) {
	for _, h := range w.order {
		b, a := before.where[h] != 0, after.where[h] != 0
		if b && !a {
			gone = append(gone, h)
		} else if !b && a {
			appeared = append(appeared, h)
		}
	}
	return
}

// validNow says whether a pooled transaction is still admissible against the current head.
func (w *world) validNow(m *txMeta) bool {
	return m.nonce >= w.head.nonce[m.from] && m.cost().Cmp(w.head.bal[m.from]) <= 0 && m.gas <= w.head.gasLimit
}

// changeRules applies the clauses that hold for every kind of action: nothing enters the pool that was not submitted
// in this action, and a transaction of a local account leaves only when it was replaced (same nonce, accepted now)
// or, on a head change, when the new state invalidates it.
func (w *world) changeRules(kind string, before, after *snapshot, submitted []*txMeta, headChanged bool) {
	gone, appeared := w.diff(before, after)
	for _, h := range appeared {
		ok := false
		for _, m := range submitted {
			ok = ok || m.hash == h
		}
		if !ok {
			w.viol("content.resurrected."+kind, "%s that had left the pool is back after %s", w.describe(h), kind)
		}
	}
	for _, h := range gone {
		m := w.meta[h]
		if !before.locals[m.from] {
			continue
		}
		replaced := false
		for _, s := range submitted {
			replaced = replaced || (s.from == m.from && s.nonce == m.nonce && after.where[s.hash] != 0)
		}
		if replaced || (headChanged && !w.validNow(m)) {
			continue
		}
		w.viol("local.evicted."+kind, "%s of local account %d left the pool on %s although it is still valid and was not replaced", w.describe(h), m.from, kind)
	}
}
