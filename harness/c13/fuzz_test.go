// Native fuzz targets (thorough tier) with the oracles inside, plus TestFuzzSeeds which runs the same oracles over
// the seed corpus and its single-byte neighbourhood in the quick tier.
package c13

import (
	"bytes"
	"fmt"
	"io/ioutil"
	"os"
	"path/filepath"
	"strconv"
	"strings"
	"sync"
	"testing"

	"github.com/gogo/protobuf/proto"

	"github.com/kardiachain/go-kardia/lib/merkle"
	kproto "github.com/kardiachain/go-kardia/proto/kardiachain/types"
	"github.com/kardiachain/go-kardia/types"

	"verifharness/internal/ev"
)

// ---------------------------------------------------------------- FuzzPartAdd: bytes -> PartFromProto -> AddPart

type fuzzSet struct {
	data    []byte
	header  types.PartSetHeader
	genuine []*types.Part
	items   [][]byte
	root    []byte
}

var (
	fuzzSetOnce sync.Once
	fuzzSetVal  *fuzzSet
)

func theFuzzSet() *fuzzSet {
	fuzzSetOnce.Do(func() {
		b, _ := fixedBlock(3, 4, true)
		pb, _ := b.ToProto()
		data, _ := proto.Marshal(pb)
		ps := types.NewPartSetFromData(data, 96)
		fs := &fuzzSet{data: data, header: ps.Header()}
		for i := 0; i < int(ps.Total()); i++ {
			fs.genuine = append(fs.genuine, clonePart(ps.GetPart(i)))
			fs.items = append(fs.items, fs.genuine[i].Bytes)
		}
		fs.root = refRoot(fs.items)
		fuzzSetVal = fs
	})
	return fuzzSetVal
}

func (fs *fuzzSet) newRecv(prefill int) *recvSet {
	T := len(fs.genuine)
	r := &recvSet{ps: types.NewPartSetFromHeader(fs.header), genuine: fs.genuine, items: fs.items, root: fs.root, filled: make([]bool, T), advSeen: make([]bool, T)}
	for i := 0; i < T; i++ {
		if prefill&(1<<uint(i%8)) != 0 && i%3 == prefill%3 {
			if added, _ := r.ps.AddPart(clonePart(fs.genuine[i])); added {
				r.filled[i] = true
				r.nfilled++
			}
		}
	}
	return r
}

// fuzzPartOne: the first byte selects which slots are already filled; the rest is the wire form of a part.
func fuzzPartOne(t ev.TB, in []byte) {
	if len(in) == 0 || len(in) > 1<<16 {
		return
	}
	fs := theFuzzSet()
	ct := func() string { return fmt.Sprintf("fuzz-part input=%x", in) }
	pb := new(kproto.Part)
	if err := proto.Unmarshal(in[1:], pb); err != nil {
		return
	}
	var part *types.Part
	var err error
	ev.Guard(t, ct, func() { part, err = types.PartFromProto(pb) })
	if err != nil {
		ev.Case(false, "", "fuzz-part-rejected-by-FromProto")
		return
	}
	r := fs.newRecv(int(in[0]))
	exp := r.expectation(part)
	r.offer(t, ct, part, "fuzzed")
	// whatever was offered, the genuine parts still complete the set and give back the data
	for i := len(fs.genuine) - 1; i >= 0; i-- {
		r.offer(t, ct, fs.genuine[i], "genuine")
	}
	if !r.ps.IsComplete() {
		ev.Violation(t, "partset.incomplete-after-all-parts", ct(), "set incomplete after every genuine part was offered")
	}
	var got []byte
	ev.Guard(t, ct, func() { got, _ = ioutil.ReadAll(r.ps.GetReader()) })
	if !bytes.Equal(got, fs.data) {
		ev.Violation(t, "partset.reassembled-differs", ct(), "reassembled bytes differ after a fuzzed part was offered")
	}
	ev.Case(exp != expReject, ct(), fmt.Sprintf("fuzz-part-exp=%d", exp))
}

func fuzzPartSeeds() [][]byte {
	fs := theFuzzSet()
	var seeds [][]byte
	add := func(prefill byte, p *types.Part) {
		pp, err := p.ToProto()
		if err != nil {
			return
		}
		bz, err := proto.Marshal(pp)
		if err != nil {
			return
		}
		seeds = append(seeds, append([]byte{prefill}, bz...))
	}
	T := len(fs.genuine)
	for i, g := range fs.genuine {
		add(0, g)
		add(byte(i*37+1), g)
		j := (i + 1) % T
		p := clonePart(fs.genuine[j]) // D2 shape
		p.Index = uint32(i)
		add(0, p)
		p = clonePart(g)
		p.Proof.Total++
		add(0, p)
		p = clonePart(g)
		p.Bytes = p.Bytes[:len(p.Bytes)/2]
		add(0, p)
		p = clonePart(g)
		p.Proof = clonePart(fs.genuine[j]).Proof
		add(0, p)
	}
	add(0, &types.Part{Index: uint32(T), Bytes: []byte("x"), Proof: merkle.SimpleProof{Total: uint64(T), Index: uint64(T), LeafHash: refLeaf([]byte("x"))}})
	add(0, &types.Part{})
	return seeds
}

func FuzzPartAdd(f *testing.F) {
	for _, s := range fuzzPartSeeds() {
		f.Add(s)
	}
	f.Fuzz(func(t *testing.T, in []byte) { fuzzPartOne(t, in) })
}

// ---------------------------------------------------------------- FuzzBlockFromProto: bytes -> Unmarshal -> BlockFromProto

var (
	fuzzBlocksOnce sync.Once
	fuzzBlockSeeds [][]byte
	fuzzSeedBody   map[string]string // block hash -> fingerprint of everything the hash is meant to bind
)

func theFuzzBlocks() ([][]byte, map[string]string) {
	fuzzBlocksOnce.Do(func() {
		fuzzSeedBody = map[string]string{}
		for _, sp := range []struct {
			h   uint64
			ntx int
			ev  bool
		}{{1, 0, false}, {1, 2, false}, {2, 0, false}, {3, 3, true}, {9, 1, true}} {
			b, _ := fixedBlock(sp.h, sp.ntx, sp.ev)
			pb, _ := b.ToProto()
			bz, _ := proto.Marshal(pb)
			fuzzBlockSeeds = append(fuzzBlockSeeds, bz)
			fuzzSeedBody[string(b.Hash().Bytes())] = fpBody(b)
		}
	})
	return fuzzBlockSeeds, fuzzSeedBody
}

func fuzzBlockOne(t ev.TB, in []byte) {
	if len(in) > 1<<16 {
		return
	}
	_, seedBody := theFuzzBlocks()
	ct := func() string { return fmt.Sprintf("fuzz-block input=%x", in) }
	var b *types.Block
	var err error
	ev.Guard(t, ct, func() { b, err = fromWire(in) })
	if err != nil {
		ev.Case(false, "", "fuzz-block-rejected")
		return
	}
	// (i) an accepted block survives its own re-encoding unchanged, and the re-encoding is a fixpoint
	var bz, bz2 []byte
	var b2 *types.Block
	ev.Guard(t, ct, func() {
		bz = blockBytes(t, b)
		b2, err = fromWire(bz)
	})
	if err != nil {
		ev.Violation(t, "roundtrip.block.rejected", ct(), "a block accepted by BlockFromProto is rejected after ToProto/Marshal/Unmarshal: %v", err)
	}
	if b2.Hash() != b.Hash() || fpBlock(b2) != fpBlock(b) {
		ev.Violation(t, "roundtrip.block.content", ct(), "an accepted block changes over its own wire round trip:\n%s\n%s", fpBlock(b), fpBlock(b2))
	}
	ev.Guard(t, ct, func() { bz2 = blockBytes(t, b2) })
	if !bytes.Equal(bz, bz2) {
		ev.Violation(t, "roundtrip.block.bytes", ct(), "re-encoding is not a fixpoint (%d vs %d bytes)", len(bz), len(bz2))
	}
	// (ii) a block that ValidateBasic accepts and that has the hash of a seed block has the seed's header,
	// transactions, commit signatures and evidence
	if want, ok := seedBody[string(b.Hash().Bytes())]; ok && fpBody(b) != want {
		ev.Violation(t, "block.hash-does-not-bind:fuzz", ct(), "an accepted block with the hash of a seed block differs from it in hash-covered content:\n%s\n%s", want, fpBody(b))
	}
	// (iii) its parts reassemble to its bytes
	var got []byte
	ev.Guard(t, ct, func() {
		ps := b.MakePartSet(80)
		recv := types.NewPartSetFromHeader(ps.Header())
		for i := int(ps.Total()) - 1; i >= 0; i-- {
			if added, err := recv.AddPart(ps.GetPart(i)); !added || err != nil {
				ev.Violation(t, "partset.genuine-rejected", ct(), "part %d of an accepted block is not accepted: %v %v", i, added, err)
			}
		}
		got, _ = ioutil.ReadAll(recv.GetReader())
	})
	if !bytes.Equal(got, bz) {
		ev.Violation(t, "partset.reassembled-differs", ct(), "parts of an accepted block do not reassemble to its bytes")
	}
	ev.Case(true, ct(), "fuzz-block-accepted")
}

func FuzzBlockFromProto(f *testing.F) {
	seeds, _ := theFuzzBlocks()
	for _, s := range seeds {
		f.Add(s)
	}
	f.Fuzz(func(t *testing.T, in []byte) { fuzzBlockOne(t, in) })
}

// TestFuzzSeeds runs both fuzz oracles on the seed corpora and on every truncation / single-byte bump of each seed.
func TestFuzzSeeds(t *testing.T) {
	for _, s := range fuzzPartSeeds() {
		fuzzPartOne(t, s)
		for i := range s {
			fuzzPartOne(t, s[:i])
			m := cloneBytes(s)
			m[i]++
			fuzzPartOne(t, m)
		}
	}
	seeds, _ := theFuzzBlocks()
	for _, s := range seeds {
		fuzzBlockOne(t, s)
		for i := range s {
			if i%3 == 0 {
				fuzzBlockOne(t, s[:i])
			}
			for _, d := range []byte{1, 0x80} {
				m := cloneBytes(s)
				m[i] += d
				fuzzBlockOne(t, m)
			}
		}
	}
}

// ---------------------------------------------------------------- crasher replay in the coordinator (see TestMain)

type recordTB struct{}

type recordStop struct{}

func (recordTB) Helper()                                   {}
func (recordTB) Fatalf(format string, args ...interface{}) { panic(recordStop{}) }

// replayCrashers re-runs the oracles, inside the coordinator process, on every corpus file the fuzzing engine wrote
// into testdata/fuzz/<target>, so that a violation found by a worker is recorded by ev in the coordinator's evidence
// file (the driver reads violations only from there).
func replayCrashers() {
	judge := func(name string, f func(ev.TB, []byte), b []byte) {
		defer func() {
			if r := recover(); r != nil {
				if _, ok := r.(recordStop); !ok {
					fmt.Printf("replayCrashers: %s: panic outside the oracle: %v\n", name, r)
				}
			}
		}()
		f(recordTB{}, b)
	}
	for i, s := range fuzzPartSeeds() { // a failing f.Add seed is reported by the engine without a file
		judge(fmt.Sprintf("FuzzPartAdd/seed#%d", i), fuzzPartOne, s)
	}
	bs, _ := theFuzzBlocks()
	for i, s := range bs {
		judge(fmt.Sprintf("FuzzBlockFromProto/seed#%d", i), fuzzBlockOne, s)
	}
	for target, f := range map[string]func(ev.TB, []byte){"FuzzPartAdd": fuzzPartOne, "FuzzBlockFromProto": fuzzBlockOne} {
		dir := filepath.Join("testdata", "fuzz", target)
		ents, err := os.ReadDir(dir)
		if err != nil {
			continue
		}
		for _, e := range ents {
			raw, err := os.ReadFile(filepath.Join(dir, e.Name()))
			if err != nil {
				continue
			}
			lines := strings.Split(strings.TrimSpace(string(raw)), "\n")
			if len(lines) < 2 || !strings.HasPrefix(lines[0], "go test fuzz v1") {
				continue
			}
			arg := strings.TrimSpace(lines[1])
			if !strings.HasPrefix(arg, "[]byte(") || !strings.HasSuffix(arg, ")") {
				continue
			}
			s, err := strconv.Unquote(arg[len("[]byte(") : len(arg)-1])
			if err != nil {
				continue
			}
			judge(target+"/"+e.Name(), f, []byte(s))
		}
	}
}
